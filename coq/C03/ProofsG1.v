(* C03 - the stream primitives against the general description (C03/Grammar.v), in BOTH directions:
     forward  : on the rendering of a piece the primitive returns the denoted value and leaves what follows
     backward : whatever a primitive accepted IS the rendering of a piece (inversion)                    *)
Require Import V.Lib.Base V.Lib.Calls V.Lib.Dec V.C09.Spec V.Gen.Consts V.Gen.Consts_C01 V.C01.Read V.C01.ProofsPrim V.C03.Grammar.
Require Import ZifyBool.
Local Open Scope Z_scope.

Lemma forallb_all_ws l : forallb is_ws l = true -> all_ws l.
Proof. intros H. apply Forall_forall. intros x Hx. rewrite forallb_forall in H. auto. Qed.
Lemma all_ws_forallb l : all_ws l -> forallb is_ws l = true.
Proof. intros H. apply forallb_forall. intros x Hx. unfold all_ws in H. rewrite Forall_forall in H. auto. Qed.
Lemma stops_ok nx : stops nx = true <-> stop_ok nx.
Proof. destruct nx as [|c r]; cbn; [tauto|]. destruct (is_digit c); cbn; split; congruence. Qed.

(* ================================================================ canonical digit strings *)
Definition canon (a : list Z) : Prop := all_digits a /\ hd 1 a <> 48.

Lemma value_snoc a x : value (a ++ [x]) = value a * 10 + to_digit x.
Proof. unfold value. rewrite value_acc_app. reflexivity. Qed.

Lemma canon_value_pos a : canon a -> a <> [] -> 0 < value a.
Proof.
  intros [Hd Hh] Hne. destruct a as [|d r]; [congruence|]. cbn [hd] in Hh.
  inversion Hd as [|? ? Hd1 Hd2]; subst. unfold value. cbn [value_acc].
  assert (0 < to_digit d) by (unfold is_digit, to_digit in *; lia).
  pose proof (value_acc_mono (0 * 10 + to_digit d) r ltac:(lia) Hd2). lia.
Qed.

Lemma snoc_case {X} (b : list X) : b = [] \/ exists b' y, b = b' ++ [y].
Proof. destruct b as [|x b]; [left; reflexivity | right]. destruct (@exists_last _ (x :: b)) as (b' & y & E); [discriminate|]. eauto. Qed.

Lemma canon_prefix a x : canon (a ++ [x]) -> canon a /\ is_digit x = true.
Proof.
  intros [Hd Hh]. apply Forall_app in Hd. destruct Hd as [Ha Hx]. inversion Hx; subst.
  split; [|assumption]. split; [assumption|]. destruct a; cbn in *; [lia | assumption].
Qed.

Lemma canon_inj a : forall b, canon a -> canon b -> value a = value b -> a = b.
Proof.
  induction a as [|x a IH] using rev_ind; intros b Ha Hb E.
  - destruct b as [|y b]; [reflexivity|]. pose proof (canon_value_pos (y :: b) Hb ltac:(discriminate)). change (value []) with 0 in E. lia.
  - destruct (snoc_case b) as [->|(b' & y & ->)].
    + pose proof (canon_value_pos (a ++ [x]) Ha) as Hp. assert (a ++ [x] <> []) by (destruct a; discriminate).
      specialize (Hp H). change (value []) with 0 in E. lia.
    + rewrite !value_snoc in E. destruct (canon_prefix a x Ha) as [Ha' Hx]. destruct (canon_prefix b' y Hb) as [Hb' Hy].
      assert (0 <= to_digit x <= 9) by (unfold is_digit, to_digit in *; lia).
      assert (0 <= to_digit y <= 9) by (unfold is_digit, to_digit in *; lia).
      assert (value a = value b') by lia. assert (to_digit x = to_digit y) by lia.
      rewrite (IH b' Ha' Hb' H1). unfold to_digit in H2. replace y with x by lia. reflexivity.
Qed.

Lemma print_nat_canon n : 0 < n -> canon (print_nat n).
Proof.
  intros Hn. split; [apply print_nat_digits; lia|].
  pose proof (print_nat_nonempty n ltac:(lia)). pose proof (print_nat_no_leading_zero n ltac:(lia)).
  destruct (print_nat n); [congruence|]. cbn [hd] in *. lia.
Qed.

Lemma canon_print l : canon l -> l <> [] -> print_nat (value l) = l.
Proof.
  intros Hc Hne. pose proof (canon_value_pos l Hc Hne) as Hp.
  apply canon_inj; [apply print_nat_canon; exact Hp | exact Hc | apply value_print_nat; lia].
Qed.

(* every non-empty digit string is leading zeros followed by the decimal print of its value *)
Lemma digits_canon l : all_digits l -> l <> [] -> exists k, l = repeat 48 k ++ print_nat (value l).
Proof.
  induction l as [|d r IH]; intros Hd Hne; [congruence|].
  inversion Hd as [|? ? Hd1 Hd2]; subst.
  destruct (Z.eq_dec d 48) as [->|Hn48].
  - destruct r as [|d2 r2].
    + exists 0%nat. reflexivity.
    + destruct (IH Hd2 ltac:(discriminate)) as (k & E). exists (S k).
      assert (Ev : value (48 :: d2 :: r2) = value (d2 :: r2)) by reflexivity.
      rewrite Ev. cbn [repeat app]. f_equal. exact E.
  - exists 0%nat. cbn [repeat app]. symmetry. apply canon_print; [|discriminate]. split; [exact Hd | exact Hn48].
Qed.

(* ================================================================ numbers, forward *)
Definition sg_code (s : gsign) : Z := match s with SgNone => 0 | SgPlus => 43 | SgMinus => 45 end.

Lemma gnum_shape l v nx : gnum_wf l v nx = true ->
  exists d ds, all_digits (d :: ds) /\ value (d :: ds) = Z.abs v /\
    (if sg_code (g_sg l) =? 45 then - Z.abs v else Z.abs v) = v /\
    gnum l v = g_ws l ++ sign_bytes (sg_code (g_sg l)) ++ (d :: ds).
Proof.
  unfold gnum_wf. intros H. apply andb_true_iff in H. destruct H as [H _]. apply andb_true_iff in H. destruct H as [_ Hsg].
  pose proof (print_nat_spec (Z.abs v) (Z.abs_nonneg v)) as (Hd & Hne & Hv & _).
  assert (Hds : exists d ds, repeat 48 (g_zeros l) ++ print_nat (Z.abs v) = d :: ds).
  { destruct (g_zeros l); cbn [repeat app]; [|eauto]. destruct (print_nat (Z.abs v)); [congruence | eauto]. }
  destruct Hds as (d & ds & Eds). exists d, ds.
  split. { rewrite <- Eds. apply Forall_app. split; [apply all_digits_zeros | exact Hd]. }
  split. { rewrite <- Eds. unfold value. rewrite value_acc_zeros, Hv. lia. }
  unfold gnum. rewrite Eds.
  destruct (g_sg l); cbn [sg_code gsign_bytes gsign_ok] in *.
  - split; [change (0 =? 45) with false; cbv iota; lia | reflexivity].
  - split; [change (43 =? 45) with false; cbv iota; lia | reflexivity].
  - split; [change (45 =? 45) with true; cbv iota; lia | reflexivity].
Qed.

(* a number token of ANY magnitude, digit count and layout: matched as exactly the number it denotes iff that fits int64 *)
Lemma match_int_g l v nx ln : gnum_wf l v nx = true ->
  exists ln', ln <= ln' /\
  a_match_int false (amk (gnum l v ++ nx) ln) = (if Z.abs v <=? INT64_MAX then Some v else None, amk nx ln').
Proof.
  intros H. destruct (gnum_shape l v nx H) as (d & ds & Hd & Hval & Hsgn & E).
  unfold gnum_wf in H. apply andb_true_iff in H. destruct H as [H Hst]. apply andb_true_iff in H. destruct H as [Hws _].
  rewrite E. repeat rewrite <- app_assoc.
  assert (Hc : sg_code (g_sg l) = 43 \/ sg_code (g_sg l) = 45 \/ sg_code (g_sg l) = 0) by (destruct (g_sg l); cbn; auto).
  destruct (match_int_digits (g_ws l) (sg_code (g_sg l)) d ds nx ln (forallb_all_ws _ Hws) Hc Hd (proj1 (stops_ok nx) Hst)) as (ln' & Hl & Em).
  exists ln'. split; [exact Hl|]. rewrite Em, Hval, Hsgn. reflexivity.
Qed.

(* ================================================================ the forward judgement *)
(* on input inp the parser succeeds iff ok, then returns v and leaves exactly out *)
Definition run {A} (P : parser A) (inp out : list Z) (ok : bool) (v : A) : Prop :=
  forall ln, match P (amk inp ln) with
             | ROk a s' => ok = true /\ a = v /\ rest s' = out
             | RErr _ => ok = false
             end.

Lemma run_bind {A B} (P : parser A) (f : A -> parser B) inp mid out oka okb va vb :
  run P inp mid oka va -> (oka = true -> run (f va) mid out okb vb) -> run (bind P f) inp out (oka && okb) vb.
Proof.
  intros HP Hf ln. specialize (HP ln). unfold bind.
  destruct (P (amk inp ln)) as [a s'|l].
  - destruct HP as (-> & -> & Hrest). destruct s' as [rs ln2]. cbn [rest] in Hrest. subst rs.
    specialize (Hf eq_refl ln2). cbn [andb]. exact Hf.
  - rewrite HP. reflexivity.
Qed.

Lemma run_bind_code {A B} (P : parser A) (f : A -> parser B) inp mid out okb va vb :
  run P inp mid true va -> run (f va) mid out okb vb -> run (bind P f) inp out okb vb.
Proof. intros HP Hf. change okb with (true && okb). eapply run_bind; [exact HP | intros _; exact Hf]. Qed.

Lemma run_map {A B} (P : parser A) (g : A -> B) inp out oka va :
  run P inp out oka va -> run (bind P (fun x => ret (g x))) inp out oka (g va).
Proof.
  intros HP ln. specialize (HP ln). unfold bind, ret.
  destruct (P (amk inp ln)) as [a s'|l]; [|exact HP].
  destruct HP as (-> & -> & Hrest). auto.
Qed.

Lemma run_ext {A} (P : parser A) inp out ok ok' v v' : run P inp out ok v -> ok = ok' -> (ok = true -> v = v') -> run P inp out ok' v'.
Proof.
  intros HP -> Hv ln. specialize (HP ln). destruct (P (amk inp ln)); [|exact HP].
  destruct HP as (E & -> & Hrest). auto.
Qed.

Lemma run_fail {A} (v : A) inp : run fail_here inp inp false v.
Proof. intros ln. reflexivity. Qed.

Definition INT64_OK (lo hi : Z) : Prop := - INT64_MAX <= lo /\ hi <= INT64_MAX.
Lemma int64_ok lo hi : - 9223372036854775807 <= lo -> hi <= 9223372036854775807 -> INT64_OK lo hi.
Proof. unfold INT64_OK, INT64_MAX. auto. Qed.
Ltac i64 := apply int64_ok; vm_compute; congruence.

Lemma run_range lo hi l v nx : INT64_OK lo hi -> gnum_wf l v nx = true ->
  run (m_range lo hi) (gnum l v ++ nx) nx ((lo <=? v) && (v <=? hi)) v.
Proof.
  intros [Hlo Hhi] Hw ln.
  destruct (match_int_g l v nx ln Hw) as (ln' & _ & E).
  unfold m_range. rewrite E.
  destruct (Z.leb_spec (Z.abs v) INT64_MAX).
  - destruct ((lo <=? v) && (v <=? hi)); cbn [rest]; auto.
  - lia.
Qed.

Lemma run_lit l v nx : gnum_wf l v nx = true ->
  run m_lit (gnum l v ++ nx) nx (negb (v =? 0) && ((- GI_MAX <=? v) && (v <=? GI_MAX))) v.
Proof.
  intros Hw ln.
  destruct (match_int_g l v nx ln Hw) as (ln' & _ & E).
  unfold m_lit. rewrite E. unfold varMax, INT_MAX, GI_MAX.
  destruct (Z.leb_spec (Z.abs v) INT64_MAX).
  - match goal with |- context [if ?b then _ else _] => destruct b eqn:Hb end; cbn [rest]; [split; [lia | auto] | lia].
  - unfold INT64_MAX in *. lia.
Qed.

Lemma run_tok_range lo hi (t : gtok) nx : INT64_OK lo hi -> gtok_wf t nx = true ->
  run (m_range lo hi) (gtok_r t ++ nx) nx (grng lo hi t) (snd t).
Proof. intros. apply run_range; assumption. Qed.
Lemma run_tok_lit (t : gtok) nx : gtok_wf t nx = true -> run m_lit (gtok_r t ++ nx) nx (gr_lit t) (snd t).
Proof. intros. apply run_lit. assumption. Qed.

(* ---------------------------------------------------------------- counted lists, forward *)
Section ListFwd.
Context {A X : Type} (elem : parser A) (relem : X -> list Z) (welem : X -> list Z -> bool) (okf : X -> bool) (valf : X -> A).
Hypothesis Helem : forall x nx, welem x nx = true -> run elem (relem x ++ nx) nx (okf x) (valf x).

Lemma run_rep_nat xs nx : gseq_wf relem welem xs nx = true ->
  run (rep_nat elem (length xs)) (flat_map relem xs ++ nx) nx (forallb okf xs) (map valf xs).
Proof.
  induction xs as [|x xs IH]; intros H.
  - intros ln. cbn. auto.
  - cbn [length rep_nat flat_map forallb map gseq_wf] in *. apply andb_true_iff in H. destruct H as [Hx Hr].
    rewrite <- app_assoc. eapply run_bind; [apply Helem; exact Hx|].
    intros _. apply (run_map (rep_nat elem (length xs)) (fun l => valf x :: l)). apply IH. exact Hr.
Qed.

Lemma run_list cl xs nx :
  gnum_wf cl (Z.of_nat (length xs)) (flat_map relem xs ++ nx) = true -> gseq_wf relem welem xs nx = true ->
  run (n <- m_count ;; rep elem n) (gnum cl (Z.of_nat (length xs)) ++ flat_map relem xs ++ nx) nx
      (gr_count xs && forallb okf xs) (map valf xs).
Proof.
  intros Hcl Hs. pose proof (run_rep_nat xs nx Hs) as Hrep.
  intros ln.
  pose proof (run_range 0 UINT_MAX cl (Z.of_nat (length xs)) _ ltac:(i64) Hcl ln) as Hc.
  unfold bind, m_count, m_pos.
  destruct (m_range 0 UINT_MAX (amk (gnum cl (Z.of_nat (length xs)) ++ flat_map relem xs ++ nx) ln)) as [n s1|l].
  - destruct Hc as (Hok & -> & Hrest). destruct s1 as [rs ln1]. cbn [rest] in Hrest. subst rs.
    rewrite rep_is_loop by lia. rewrite Nat2Z.id.
    specialize (Hrep ln1). unfold gr_count, GU_MAX, UINT_MAX in *.
    assert (Hc' : (Z.of_nat (length xs) <=? 4294967295) = true) by lia. rewrite Hc'. cbn [andb]. exact Hrep.
  - unfold gr_count, GU_MAX, UINT_MAX in *. assert (Hc' : (Z.of_nat (length xs) <=? 4294967295) = false) by lia.
    rewrite Hc'. reflexivity.
Qed.
End ListFwd.

Lemma run_tlist_range lo hi (l : gtlist) nx : INT64_OK lo hi -> gtlist_wf l nx = true ->
  run (n <- m_count ;; rep (m_range lo hi) n) (gtlist_r l ++ nx) nx (gr_list (grng lo hi) l) (gvals l).
Proof.
  intros Hb H. unfold gtlist_wf in H. apply andb_true_iff in H. destruct H as [Hc He].
  unfold gtlist_r, gr_list, gvals. rewrite <- app_assoc.
  apply (run_list (m_range lo hi) gtok_r gtok_wf (grng lo hi) snd); [|exact Hc | exact He].
  intros x nx0 Hx. apply run_tok_range; assumption.
Qed.
Lemma run_atoms l nx : gtlist_wf l nx = true -> run m_atoms (gtlist_r l ++ nx) nx (gr_list gr_atom l) (gvals l).
Proof. intros. apply (run_tlist_range 1 GI_MAX); [i64 | assumption]. Qed.
Lemma run_ids l nx : gtlist_wf l nx = true -> run m_ids (gtlist_r l ++ nx) nx (gr_list gr_id l) (gvals l).
Proof. intros. apply (run_tlist_range 0 GU_MAX); [i64 | assumption]. Qed.
Lemma run_lits l nx : gtlist_wf l nx = true -> run m_lits (gtlist_r l ++ nx) nx (gr_list gr_lit l) (gvals l).
Proof.
  intros H. unfold gtlist_wf in H. apply andb_true_iff in H. destruct H as [Hc He].
  unfold gtlist_r, gr_list, gvals, m_lits. rewrite <- app_assoc.
  apply (run_list m_lit gtok_r gtok_wf gr_lit snd); [|exact Hc | exact He].
  intros x nx0 Hx. apply run_tok_lit; assumption.
Qed.

Lemma run_wlit minw p nx : - 9223372036854775807 <= minw -> gwpair_wf p nx = true ->
  run (m_wlit minw) (gwpair_r p ++ nx) nx (gr_wpair minw p) (gwval p).
Proof.
  intros Hm H. unfold gwpair_wf in H. apply andb_true_iff in H. destruct H as [H1 H2].
  unfold m_wlit, gwpair_r, gr_wpair, gwval. rewrite <- app_assoc.
  eapply run_bind; [apply run_tok_lit; exact H1|]. intros _.
  apply (run_map (m_range minw INT_MAX) (fun w => (snd (fst p), w))).
  apply run_tok_range; [apply int64_ok; [exact Hm | vm_compute; congruence] | exact H2].
Qed.

Lemma run_wlits minw l nx : - 9223372036854775807 <= minw -> gwlist_wf l nx = true ->
  run (m_wlits minw) (gwlist_r l ++ nx) nx (gr_wlist minw l) (gwvals l).
Proof.
  intros Hm H. unfold gwlist_wf in H. apply andb_true_iff in H. destruct H as [Hc He].
  unfold m_wlits, gwlist_r, gr_wlist, gwvals. rewrite <- app_assoc.
  pose proof (run_list (m_wlit minw) gwpair_r gwpair_wf (gr_wpair minw) gwval
                (fun x nx0 Hx => run_wlit minw x nx0 Hm Hx) (fst l) (snd l) nx Hc He) as Hl.
  intros ln. specialize (Hl ln). unfold bind, ret in *.
  destruct (m_count (amk (gnum (fst l) (Z.of_nat (length (snd l))) ++ flat_map gwpair_r (snd l) ++ nx) ln)) as [n s1|]; [|exact Hl].
  destruct (rep (m_wlit minw) n s1) as [lst s2|]; [|exact Hl].
  destruct Hl as (-> & -> & ->). auto.
Qed.

(* ---------------------------------------------------------------- one get(), raw strings, forward *)
Lemma firstn_app_exact {X} (a b : list X) : firstn (length a) (a ++ b) = a.
Proof. induction a; cbn; [destruct b; reflexivity | f_equal; assumption]. Qed.
Lemma skipn_app_exact {X} (a b : list X) : skipn (length a) (a ++ b) = b.
Proof. induction a; cbn; [reflexivity | assumption]. Qed.

Lemma get_cr af ln : hd 0 af <> 10 -> a_get (amk (13 :: af) ln) = (10, amk af (ln + 1)).
Proof.
  intros H. unfold a_get. cbn [rest aline]. change (13 =? 13) with true. cbv iota.
  destruct af as [|c r]; [reflexivity|]. cbn [hd] in H.
  destruct c; try reflexivity. destruct p; try reflexivity. destruct p; try reflexivity. destruct p; try reflexivity.
  destruct p; try reflexivity. contradiction.
Qed.
Lemma skipws_cr r ln : hd 0 r <> 10 -> a_skipws_l (13 :: r) ln = a_skipws_l r (ln + 1).
Proof.
  intros H. cbn [a_skipws_l]. change (is_ws 13) with true. change (13 =? 13) with true. cbv iota.
  destruct r as [|c r']; [reflexivity|]. cbn [hd] in H.
  destruct c; try reflexivity. destruct p; try reflexivity. destruct p; try reflexivity. destruct p; try reflexivity.
  destruct p; try reflexivity. contradiction.
Qed.
Lemma skipws_crlf r ln : a_skipws_l (13 :: 10 :: r) ln = a_skipws_l r (ln + 1).
Proof. reflexivity. Qed.

Lemma get_one bs after ln : one_get bs after = true ->
  exists ln', a_get (amk (bs ++ after) ln) = (if (hd 0 bs =? 13) || (hd 0 bs =? 10) then 10 else hd 0 bs, amk after ln').
Proof.
  unfold one_get. intros H. destruct bs as [|c [|d [|e bs]]]; try discriminate.
  - cbn [app hd].
    destruct (Z.eqb_spec c 13) as [->|N13].
    + cbn [negb orb] in H. cbn [orb]. rewrite get_cr by lia. eexists; reflexivity.
    + unfold a_get. cbn [rest aline]. assert (E : (c =? 13) = false) by lia. rewrite E.
      cbn [orb]. destruct (c =? 10); eexists; reflexivity.
  - apply andb_true_iff in H. destruct H as [Hc Hd]. assert (c = 13) by lia. assert (d = 10) by lia. subst.
    cbn [app hd]. unfold a_get. cbn [rest aline]. eexists; reflexivity.
Qed.

Lemma run_string (s : gstr) nx : gstr_wf s nx = true -> run m_string (gstr_r s ++ nx) nx (gr_str s) (gs_bytes s).
Proof.
  unfold gstr_wf. intros H. apply andb_true_iff in H. destruct H as [Hnum Hsep].
  intros ln. unfold gstr_r, m_string, bind. repeat rewrite <- app_assoc.
  pose proof (run_range 0 STR_MAX (gs_lay s) (Z.of_nat (length (gs_bytes s))) _ ltac:(i64) Hnum ln) as Hc.
  unfold m_pos.
  destruct (m_range 0 STR_MAX (amk (gnum (gs_lay s) (Z.of_nat (length (gs_bytes s))) ++ gs_sep s ++ gs_bytes s ++ nx) ln)) as [n s1|l].
  - destruct Hc as (Hok & -> & Hrest). destruct s1 as [rs ln1]. cbn [rest] in Hrest. subst rs.
    destruct (get_one (gs_sep s) (gs_bytes s ++ nx) ln1 Hsep) as (ln2 & Eg). rewrite Eg. cbn [snd].
    rewrite copy_k_eq by lia. unfold a_copy. destruct (Z.ltb_spec (Z.of_nat (length (gs_bytes s))) 0); [lia|].
    rewrite Nat2Z.id. cbn [rest aline]. rewrite firstn_app_exact, skipn_app_exact. rewrite Z.eqb_refl.
    unfold gr_str, STR_MAX, rd_str_max, INT_MAX, GI_MAX in *. cbn [rest]. split; [lia | auto].
  - unfold gr_str, STR_MAX, rd_str_max, INT_MAX, GI_MAX in *. lia.
Qed.

(* ================================================================ numbers, backward *)
Lemma skipws_inv_n n : forall l ln, (length l <= n)%nat ->
  exists ws, l = ws ++ rest (a_skipws_l l ln) /\ forallb is_ws ws = true.
Proof.
  induction n as [|n IH]; intros l ln Hl.
  - destruct l; [|cbn in Hl; lia]. exists []. split; reflexivity.
  - destruct l as [|c r]; [exists []; split; reflexivity|].
    destruct (is_ws c) eqn:Hc.
    + destruct (Z.eqb_spec c 13) as [->|N13].
      * destruct r as [|c2 r2].
        -- exists [13]. split; reflexivity.
        -- destruct (Z.eq_dec c2 10) as [->|Hn10].
           ++ rewrite skipws_crlf. destruct (IH r2 (ln + 1)) as (ws & E & Hws); [cbn [length] in *; lia|].
              exists (13 :: 10 :: ws). split; [cbn [app]; f_equal; f_equal; exact E|]. cbn [forallb]. rewrite Hws. reflexivity.
           ++ rewrite skipws_cr by (cbn [hd]; exact Hn10).
              destruct (IH (c2 :: r2) (ln + 1)) as (ws & E & Hws); [cbn [length] in *; lia|].
              exists (13 :: ws). split; [cbn [app]; f_equal; exact E|]. cbn [forallb]. rewrite Hws. reflexivity.
      * cbn [a_skipws_l]. rewrite Hc. assert (E13 : (c =? 13) = false) by lia. rewrite E13.
        destruct (IH r (if c =? 10 then ln + 1 else ln)) as (ws & E & Hws); [cbn [length] in *; lia|].
        exists (c :: ws). split; [cbn [app]; f_equal; exact E|]. cbn [forallb]. rewrite Hc, Hws. reflexivity.
    + exists []. cbn [a_skipws_l]. rewrite Hc. split; reflexivity.
Qed.

Lemma skipws_inv s : exists ws, rest s = ws ++ rest (a_skipws s) /\ forallb is_ws ws = true.
Proof. unfold a_skipws. apply (skipws_inv_n (length (rest s))). lia. Qed.

Lemma skipws_stops s : match rest (a_skipws s) with c :: _ => is_ws c = false | [] => True end.
Proof.
  unfold a_skipws. generalize (aline s). generalize (rest s). intros l.
  assert (H : forall n l ln, (length l <= n)%nat -> match rest (a_skipws_l l ln) with c :: _ => is_ws c = false | [] => True end).
  { induction n as [|n IH]; intros l0 ln Hl.
    - destruct l0; [exact I | cbn in Hl; lia].
    - destruct l0 as [|c r]; [exact I|]. destruct (is_ws c) eqn:Hc.
      + destruct (Z.eqb_spec c 13) as [->|N13].
        * destruct r as [|c2 r2]; [exact I|].
          destruct (Z.eq_dec c2 10) as [->|Hn10]; [rewrite skipws_crlf; apply IH; cbn [length] in *; lia|].
          rewrite skipws_cr by (cbn [hd]; exact Hn10). apply IH. cbn [length] in *. lia.
        * cbn [a_skipws_l]. rewrite Hc. assert (E13 : (c =? 13) = false) by lia. rewrite E13. apply IH. cbn [length] in *. lia.
      + cbn [a_skipws_l]. rewrite Hc. cbn [rest]. exact Hc. }
  intros ln. apply (H (length l)). lia.
Qed.

Lemma digits_inv l : forall res good res' good' l2, a_digits l res good = (res', good', l2) ->
  exists ds, l = ds ++ l2 /\ all_digits ds /\ stops l2 = true /\ (good' = true -> good = true /\ res' = value_acc res ds).
Proof.
  induction l as [|c r IH]; intros res good res' good' l2 E.
  - cbn in E. injection E as <- <- <-. exists []. repeat split; auto; constructor.
  - cbn [a_digits] in E. destruct (is_digit c) eqn:Hc.
    + destruct (good && (res <=? (INT64_MAX - to_digit c) / 10)) eqn:Hg.
      * destruct (IH _ _ _ _ _ E) as (ds & -> & Hd & Hs & Hv). exists (c :: ds).
        split; [reflexivity|]. split; [constructor; assumption|]. split; [exact Hs|].
        intros Hg'. destruct (Hv Hg') as [_ ->]. apply andb_true_iff in Hg. split; [tauto | reflexivity].
      * destruct (IH _ _ _ _ _ E) as (ds & -> & Hd & Hs & Hv). exists (c :: ds).
        split; [reflexivity|]. split; [constructor; assumption|]. split; [exact Hs|].
        intros Hg'. destruct (Hv Hg') as [C _]. discriminate C.
    + injection E as <- <- <-. exists []. split; [reflexivity|]. split; [constructor|]. split; [cbn; rewrite Hc; reflexivity|]. auto.
Qed.

(* THE inversion: whatever a_match_int accepts as z is a number token denoting z, followed by a non-digit *)
Lemma match_int_inv s z s' : a_match_int false s = (Some z, s') ->
  exists l, rest s = gnum l z ++ rest s' /\ gnum_wf l z (rest s') = true.
Proof.
  unfold a_match_int. destruct (skipws_inv s) as (ws & Ews & Hws).
  set (s0 := a_skipws s) in *. intros E.
  (* the three sign cases *)
  assert (Hmain : forall (sg : gsign) l1, rest s0 = gsign_bytes sg ++ l1 ->
            (match l1 with
             | c :: r => if is_digit c then let '(res, good, l2) := a_digits r (to_digit c) true in
                           (if good then Some (if sg_code sg =? 45 then - res else res) else None, amk l2 (aline s0))
                         else (None, amk l1 (aline s0))
             | [] => (None, amk [] (aline s0)) end) = (Some z, s') ->
            exists l, rest s = gnum l z ++ rest s' /\ gnum_wf l z (rest s') = true).
  { intros sg l1 Es0 Em. destruct l1 as [|c r]; [discriminate Em|].
    destruct (is_digit c) eqn:Hc; [|discriminate Em].
    destruct (a_digits r (to_digit c) true) as [[res good] l2] eqn:Ed.
    destruct good; [|discriminate Em]. injection Em as Ez Es'. subst s'. cbn [rest].
    destruct (digits_inv _ _ _ _ _ _ Ed) as (ds & -> & Hd & Hst & Hv). destruct (Hv eq_refl) as [_ Hres].
    assert (Hall : all_digits (c :: ds)) by (constructor; assumption).
    assert (Hval : value (c :: ds) = res).
    { unfold value. cbn [value_acc]. rewrite Hres. f_equal. }
    assert (Hnn : 0 <= res) by (rewrite <- Hval; apply value_acc_nonneg; [lia | exact Hall]).
    destruct (digits_canon (c :: ds) Hall ltac:(discriminate)) as (k & Ek). rewrite Hval in Ek.
    assert (Habs : Z.abs z = res) by (destruct (sg_code sg =? 45); lia).
    exists (mkGLay ws sg k). split.
    - rewrite Ews, Es0. unfold gnum. cbn [g_ws g_sg g_zeros]. rewrite Habs, <- Ek. repeat rewrite <- app_assoc. reflexivity.
    - unfold gnum_wf. cbn [g_ws g_sg]. rewrite Hws, Hst. cbn [andb]. rewrite andb_true_r.
      destruct sg; cbn [sg_code gsign_ok] in *.
      + change (0 =? 45) with false in Ez. cbv iota in Ez. lia.
      + change (43 =? 45) with false in Ez. cbv iota in Ez. lia.
      + change (45 =? 45) with true in Ez. cbv iota in Ez. lia. }
  unfold a_peek in E. destruct (rest s0) as [|c0 r0] eqn:Er0.
  - apply (Hmain SgNone []); [reflexivity|]. cbn [sg_code]. change (0 =? 45) with false.
    change ((0 =? 43) || (0 =? 45)) with false in E. cbv iota in E. exact E.
  - destruct (Z.eqb_spec c0 43) as [->|N43].
    + apply (Hmain SgPlus r0); [reflexivity|]. cbn [orb tl] in E. change (43 =? 45) with false in E. exact E.
    + destruct (Z.eqb_spec c0 45) as [->|N45].
      * apply (Hmain SgMinus r0); [reflexivity|]. cbn [orb tl] in E. exact E.
      * apply (Hmain SgNone (c0 :: r0)); [reflexivity|]. cbn [orb] in E. cbn [sg_code]. change (0 =? 45) with false. exact E.
Qed.

Lemma range_inv lo hi s v s' : m_range lo hi s = ROk v s' ->
  exists t : gtok, rest s = gtok_r t ++ rest s' /\ gtok_wf t (rest s') = true /\ grng lo hi t = true /\ snd t = v.
Proof.
  unfold m_range. destruct (a_match_int false s) as [[z|] s1] eqn:E; [|discriminate].
  destruct ((lo <=? z) && (z <=? hi)) eqn:Hr; [|discriminate]. intros H. injection H as <- <-.
  destruct (match_int_inv s z s1 E) as (l & Er & Hw). exists (l, z). auto.
Qed.

Lemma lit_inv s v s' : m_lit s = ROk v s' ->
  exists t : gtok, rest s = gtok_r t ++ rest s' /\ gtok_wf t (rest s') = true /\ gr_lit t = true /\ snd t = v.
Proof.
  unfold m_lit. destruct (a_match_int false s) as [[z|] s1] eqn:E; [|discriminate].
  match goal with |- context [if ?b then _ else _] => destruct b eqn:Hr end; [|discriminate]. intros H. injection H as <- <-.
  destruct (match_int_inv s z s1 E) as (l & Er & Hw). exists (l, z). repeat split; auto.
  unfold gr_lit, grng, GI_MAX, varMax, INT_MAX in *. cbn [snd]. lia.
Qed.

