(* C03 - an independent declarative description of aspif texts.

   An abstract program (aprog) is the STRUCTURE of a text: header, steps, directives, every numeric
   field an UNBOUNDED integer, together with its LAYOUT: the white-space bytes in front of every
   number, an optional '+', leading zeros, the separator byte in front of a raw string, comment
   lines, the bytes after the last step.  Counts, string lengths, directive codes, theory codes and
   the body-type code are determined by the structure (their tokens carry a layout only), so a text
   is  render a  for some a exactly when "every announced count is matched by the elements that
   follow".
     render a    the bytes of the text
     in_range a  every field lies inside the range of its field (the property's list), the header's
                 revision fits 32 bits, there is at least one step and exactly one unless incremental
     wf_layout a the layout is one: white space is white space, consecutive numbers are separated,
                 comment text stays on its line
     calls a     the AbstractProgram calls the text denotes (weight-0 literals are not part of a sum)
   Nothing here mentions the reader.                                                              *)
Require Import V.Lib.Base V.Lib.Calls V.Lib.Dec.
Local Open Scope Z_scope.

Definition I_MAX : Z := 2147483647.        (* 2^31-1 *)
Definition I_MIN : Z := -2147483648.
Definition U_MAX : Z := 4294967295.        (* 2^32-1 *)

(* ---- layout of one number ---- *)
Record lay := mkLay { l_ws : list Z; l_plus : bool; l_zeros : nat }.
Definition tok := (lay * Z)%type.

Definition sign_of (l : lay) (v : Z) : list Z := if v <? 0 then [45] else if l_plus l then [43] else [].
Definition render_num (l : lay) (v : Z) : list Z :=
  l_ws l ++ sign_of l v ++ repeat 48 (l_zeros l) ++ print_nat (Z.abs v).
Definition render_tok (t : tok) : list Z := render_num (fst t) (snd t).

(* white space is white space *)
Definition lay_ws (l : lay) : bool := forallb is_ws (l_ws l).
(* the token does not run into a preceding number: white space or a sign in front *)
Definition lay_sep (l : lay) (v : Z) : bool :=
  match l_ws l with [] => (v <? 0) || l_plus l | _ :: _ => true end.
Definition tok_ok (t : tok) : bool := lay_ws (fst t) && lay_sep (fst t) (snd t).
Definition num_ok (l : lay) (v : Z) : bool := lay_ws l && lay_sep l v.

(* ---- lists and strings ---- *)
Definition tlist := (lay * list tok)%type.                       (* count layout, elements *)
Definition wlist := (lay * list (tok * tok))%type.               (* count layout, (literal, weight) pairs *)
Record astr := mkStr { s_lay : lay; s_sep : Z; s_bytes : list Z }.

Definition render_tlist (l : tlist) : list Z :=
  render_num (fst l) (Z.of_nat (length (snd l))) ++ flat_map render_tok (snd l).
Definition render_wpair (p : tok * tok) : list Z := render_tok (fst p) ++ render_tok (snd p).
Definition render_wlist (l : wlist) : list Z :=
  render_num (fst l) (Z.of_nat (length (snd l))) ++ flat_map render_wpair (snd l).
Definition render_str (s : astr) : list Z :=
  render_num (s_lay s) (Z.of_nat (length (s_bytes s))) ++ s_sep s :: s_bytes s.

Definition tlist_ok (l : tlist) : bool :=
  num_ok (fst l) (Z.of_nat (length (snd l))) && forallb tok_ok (snd l).
Definition wlist_ok (l : wlist) : bool :=
  num_ok (fst l) (Z.of_nat (length (snd l))) && forallb (fun p => tok_ok (fst p) && tok_ok (snd p)) (snd l).
(* one separator byte that neither continues the length nor ends the text nor swallows a byte of the string *)
Definition str_ok (s : astr) : bool :=
  num_ok (s_lay s) (Z.of_nat (length (s_bytes s))) && negb (is_digit (s_sep s)) && negb (s_sep s =? 0)
  && (negb (s_sep s =? 13) || match s_bytes s with c :: _ => negb (c =? 10) | [] => false end).

(* ---- directives ---- *)
Inductive adir :=
| ARule (c : lay) (ht : tok) (head : tlist) (bt : lay) (body : tlist)                  (* 1 ht head 0 body *)
| AWRule (c : lay) (ht : tok) (head : tlist) (bt : lay) (count_code : bool) (bound : tok) (body : wlist)  (* 1 ht head 1|2 bound body *)
| AMin (c : lay) (prio : tok) (lits : wlist)
| AProject (c : lay) (atoms : tlist)
| AOutput (c : lay) (s : astr) (cond : tlist)
| AExternal (c : lay) (a v : tok)
| AAssume (c : lay) (lits : tlist)
| AHeur (c : lay) (t a bias prio : tok) (cond : tlist)
| AEdge (c : lay) (s t : tok) (cond : tlist)
| ATNum (c ty : lay) (id n : tok)
| ATSym (c ty : lay) (id : tok) (s : astr)
| ATComp (c ty : lay) (id cc : tok) (args : tlist)
| ATElem (c ty : lay) (id : tok) (terms cond : tlist)
| ATAtom (c ty : lay) (a t : tok) (elems : tlist)
| ATAtomG (c ty : lay) (a t : tok) (elems : tlist) (op rhs : tok)
| AComment (c : lay) (text : list Z) (nl : list Z)   (* 10<text><line end> *)
| ABadDir (c : tok)                               (* a directive code outside 0..10 *)
| ABadTheory (c : lay) (ty id : tok).             (* 9 ty id with ty not one of 0,1,2,4,5,6 *)

Definition code_lay (d : adir) : lay :=
  match d with
  | ARule c _ _ _ _ | AWRule c _ _ _ _ _ _ | AMin c _ _ | AProject c _ | AOutput c _ _ | AExternal c _ _ | AAssume c _
  | AHeur c _ _ _ _ _ | AEdge c _ _ _ | ATNum c _ _ _ | ATSym c _ _ _ | ATComp c _ _ _ _ | ATElem c _ _ _ _
  | ATAtom c _ _ _ _ | ATAtomG c _ _ _ _ _ _ | AComment c _ _ | ABadTheory c _ _ => c
  | ABadDir c => fst c
  end.

Definition render_dir (d : adir) : list Z :=
  match d with
  | ARule c ht head bt body =>
      render_num c 1 ++ render_tok ht ++ render_tlist head ++ render_num bt 0 ++ render_tlist body
  | AWRule c ht head bt cc bound body =>
      render_num c 1 ++ render_tok ht ++ render_tlist head ++ render_num bt (if cc then 2 else 1) ++ render_tok bound ++ render_wlist body
  | AMin c prio lits => render_num c 2 ++ render_tok prio ++ render_wlist lits
  | AProject c atoms => render_num c 3 ++ render_tlist atoms
  | AOutput c s cond => render_num c 4 ++ render_str s ++ render_tlist cond
  | AExternal c a v => render_num c 5 ++ render_tok a ++ render_tok v
  | AAssume c lits => render_num c 6 ++ render_tlist lits
  | AHeur c t a bias prio cond =>
      render_num c 7 ++ render_tok t ++ render_tok a ++ render_tok bias ++ render_tok prio ++ render_tlist cond
  | AEdge c s t cond => render_num c 8 ++ render_tok s ++ render_tok t ++ render_tlist cond
  | ATNum c ty id n => render_num c 9 ++ render_num ty 0 ++ render_tok id ++ render_tok n
  | ATSym c ty id s => render_num c 9 ++ render_num ty 1 ++ render_tok id ++ render_str s
  | ATComp c ty id cc args => render_num c 9 ++ render_num ty 2 ++ render_tok id ++ render_tok cc ++ render_tlist args
  | ATElem c ty id terms cond => render_num c 9 ++ render_num ty 4 ++ render_tok id ++ render_tlist terms ++ render_tlist cond
  | ATAtom c ty a t elems => render_num c 9 ++ render_num ty 5 ++ render_tok a ++ render_tok t ++ render_tlist elems
  | ATAtomG c ty a t elems op rhs =>
      render_num c 9 ++ render_num ty 6 ++ render_tok a ++ render_tok t ++ render_tlist elems ++ render_tok op ++ render_tok rhs
  | AComment c text nl => render_num c 10 ++ text ++ nl
  | ABadDir c => render_tok c
  | ABadTheory c ty id => render_num c 9 ++ render_tok ty ++ render_tok id
  end.

(* ---- ranges of the fields ---- *)
Definition rng (lo hi : Z) (t : tok) : bool := (lo <=? snd t) && (snd t <=? hi).
Definition r_atom (t : tok) : bool := rng 1 I_MAX t.
Definition r_lit (t : tok) : bool := negb (snd t =? 0) && rng (- I_MAX) I_MAX t.
Definition r_id (t : tok) : bool := rng 0 U_MAX t.
Definition r_i32 (t : tok) : bool := rng I_MIN I_MAX t.
Definition r_count {A} (l : list A) : bool := Z.of_nat (length l) <=? U_MAX.
Definition r_list (f : tok -> bool) (l : tlist) : bool := r_count (snd l) && forallb f (snd l).
Definition r_wlist (minw : Z) (l : wlist) : bool :=
  r_count (snd l) && forallb (fun p => r_lit (fst p) && rng minw I_MAX (snd p)) (snd l).
Definition r_str (s : astr) : bool := Z.of_nat (length (s_bytes s)) <=? I_MAX.

Definition dir_in_range (d : adir) : bool :=
  match d with
  | ARule _ ht head _ body => rng 0 1 ht && (r_list r_atom head && r_list r_lit body)
  | AWRule _ ht head _ _ bound body => rng 0 1 ht && (r_list r_atom head && (r_i32 bound && r_wlist 0 body))
  | AMin _ prio lits => r_i32 prio && r_wlist I_MIN lits
  | AProject _ atoms => r_list r_atom atoms
  | AOutput _ s cond => r_str s && r_list r_lit cond
  | AExternal _ a v => r_atom a && rng 0 3 v
  | AAssume _ lits => r_list r_lit lits
  | AHeur _ t a bias prio cond => rng 0 5 t && (r_atom a && (r_i32 bias && (rng 0 I_MAX prio && r_list r_lit cond)))
  | AEdge _ s t cond => rng 0 I_MAX s && (rng 0 I_MAX t && r_list r_lit cond)
  | ATNum _ _ id n => r_id id && r_i32 n
  | ATSym _ _ id s => r_id id && r_str s
  | ATComp _ _ id cc args => r_id id && (rng (-3) I_MAX cc && r_list r_id args)
  | ATElem _ _ id terms cond => r_id id && (r_list r_id terms && r_list r_lit cond)
  | ATAtom _ _ a t elems => r_id a && (r_id t && r_list r_id elems)
  | ATAtomG _ _ a t elems op rhs => r_id a && (r_id t && (r_list r_id elems && (r_id op && r_id rhs)))
  | AComment _ _ _ => true
  | ABadDir _ => false
  | ABadTheory _ _ _ => false
  end.

(* ---- layout conditions of a directive ---- *)
Definition theory_code (v : Z) : bool := (v =? 0) || (v =? 1) || (v =? 2) || (v =? 4) || (v =? 5) || (v =? 6).
Definition comment_text_ok (text : list Z) : bool :=
  forallb (fun c => negb (c =? 10) && negb (c =? 13) && negb (c =? 0)) text
  && match text with c :: _ => negb (is_digit c) | [] => true end.

Definition is_nl (nl : list Z) : bool := list_eqb nl [10] || list_eqb nl [13; 10] || list_eqb nl [13].
Definition dir_layout_ok (d : adir) : bool :=
  match d with
  | ARule _ ht head bt body => tok_ok ht && (tlist_ok head && (num_ok bt 0 && tlist_ok body))
  | AWRule _ ht head bt _ bound body => tok_ok ht && (tlist_ok head && (num_ok bt 1 && (tok_ok bound && wlist_ok body)))
  | AMin _ prio lits => tok_ok prio && wlist_ok lits
  | AProject _ atoms => tlist_ok atoms
  | AOutput _ s cond => str_ok s && tlist_ok cond
  | AExternal _ a v => tok_ok a && tok_ok v
  | AAssume _ lits => tlist_ok lits
  | AHeur _ t a bias prio cond => tok_ok t && (tok_ok a && (tok_ok bias && (tok_ok prio && tlist_ok cond)))
  | AEdge _ s t cond => tok_ok s && (tok_ok t && tlist_ok cond)
  | ATNum _ ty id n => num_ok ty 0 && (tok_ok id && tok_ok n)
  | ATSym _ ty id s => num_ok ty 1 && (tok_ok id && str_ok s)
  | ATComp _ ty id cc args => num_ok ty 2 && (tok_ok id && (tok_ok cc && tlist_ok args))
  | ATElem _ ty id terms cond => num_ok ty 4 && (tok_ok id && (tlist_ok terms && tlist_ok cond))
  | ATAtom _ ty a t elems => num_ok ty 5 && (tok_ok a && (tok_ok t && tlist_ok elems))
  | ATAtomG _ ty a t elems op rhs => num_ok ty 6 && (tok_ok a && (tok_ok t && (tlist_ok elems && (tok_ok op && tok_ok rhs))))
  | AComment _ text nl => comment_text_ok text && is_nl nl
  | ABadDir c => negb ((0 <=? snd c) && (snd c <=? 10))
  | ABadTheory _ ty id => tok_ok ty && (tok_ok id && negb (theory_code (snd ty)))
  end.

Definition is_comment (d : adir) : bool := match d with AComment _ _ _ => true | _ => false end.
Definition code_val (d : adir) : Z := match d with ABadDir c => snd c | _ => 1 end.
(* a comment ended by a lone CR must not be followed by LF (that would be a CRLF line end) *)
Definition comment_nl_ok (d : adir) (next : lay) : bool :=
  match d with
  | AComment _ _ nl => negb (list_eqb nl [13]) || negb (hd 0 (l_ws next) =? 10)
  | _ => true
  end.

(* ---- steps, header, program ---- *)
Record astep := mkStep { st_dirs : list adir; st_end : lay }.
Definition render_step (s : astep) : list Z := flat_map render_dir (st_dirs s) ++ render_num (st_end s) 0.

(* code tokens of a step in order: the directives' codes, then the terminating 0.  free: the token follows a line
   end (header, comment), so it needs no separation from a preceding number *)
Fixpoint dirs_layout_ok (free : bool) (ds : list adir) (endl : lay) : bool :=
  match ds with
  | [] => lay_ws endl && (free || lay_sep endl 0)
  | d :: r =>
      lay_ws (code_lay d) && ((free || lay_sep (code_lay d) (code_val d)) && (dir_layout_ok d
      && (comment_nl_ok d (match r with d2 :: _ => code_lay d2 | [] => endl end)
      && dirs_layout_ok (is_comment d) r endl)))
  end.

Record ahdr := mkHdr { h_pre : list Z; h_major : lay; h_minor : lay; h_rev : tok; h_blanks : nat; h_inc : bool; h_nl : list Z }.
Definition asp_bytes : list Z := [97; 115; 112; 32].
Definition incremental_bytes : list Z := [105; 110; 99; 114; 101; 109; 101; 110; 116; 97; 108].
Definition render_hdr (h : ahdr) : list Z :=
  h_pre h ++ asp_bytes ++ render_num (h_major h) 1 ++ render_num (h_minor h) 0 ++ render_tok (h_rev h)
  ++ repeat 32 (h_blanks h) ++ (if h_inc h then incremental_bytes else []) ++ h_nl h.

Record aprog := mkProg { p_hdr : ahdr; p_steps : list astep; p_trail : list Z }.
Definition render (a : aprog) : list Z :=
  render_hdr (p_hdr a) ++ flat_map render_step (p_steps a) ++ p_trail a.

Definition hdr_layout_ok (h : ahdr) (next : list Z) : bool :=
  forallb is_ws (h_pre h) && lay_ws (h_major h) && num_ok (h_minor h) 0 && tok_ok (h_rev h)
  && (list_eqb (h_nl h) [10] || list_eqb (h_nl h) [13; 10]
      || (list_eqb (h_nl h) [13] && match next with c :: _ => negb (c =? 10) | [] => true end)).

Fixpoint steps_layout_ok (first : bool) (ss : list astep) : bool :=
  match ss with
  | [] => true
  | s :: r => dirs_layout_ok first (st_dirs s) (st_end s) && steps_layout_ok false r
  end.

Definition wf_layout (a : aprog) : bool :=
  hdr_layout_ok (p_hdr a) (flat_map render_step (p_steps a) ++ p_trail a)
  && steps_layout_ok true (p_steps a) && forallb is_ws (p_trail a).

Definition in_range (a : aprog) : bool :=
  r_id (h_rev (p_hdr a))
  && forallb (fun s => forallb dir_in_range (st_dirs s)) (p_steps a)
  && match p_steps a with [] => false | [_] => true | _ => h_inc (p_hdr a) end.

(* ---- denoted calls ---- *)
Definition vals (l : tlist) : list Z := map snd (snd l).
Definition wvals (l : wlist) : list (Z * Z) :=
  filter (fun p => negb (snd p =? 0)) (map (fun p => (snd (fst p), snd (snd p))) (snd l)).

Definition call_of (d : adir) : option call :=
  match d with
  | ARule _ ht head _ body => Some (CRule (snd ht) (vals head) (vals body))
  | AWRule _ ht head _ _ bound body => Some (CWRule (snd ht) (vals head) (snd bound) (wvals body))
  | AMin _ prio lits => Some (CMin (snd prio) (wvals lits))
  | AProject _ atoms => Some (CProject (vals atoms))
  | AOutput _ s cond => Some (COutput (s_bytes s) (vals cond))
  | AExternal _ a v => Some (CExternal (snd a) (snd v))
  | AAssume _ lits => Some (CAssume (vals lits))
  | AHeur _ t a bias prio cond => Some (CHeuristic (snd a) (snd t) (snd bias) (snd prio) (vals cond))
  | AEdge _ s t cond => Some (CEdge (snd s) (snd t) (vals cond))
  | ATNum _ _ id n => Some (CTNum (snd id) (snd n))
  | ATSym _ _ id s => Some (CTSym (snd id) (s_bytes s))
  | ATComp _ _ id cc args => Some (CTComp (snd id) (snd cc) (vals args))
  | ATElem _ _ id terms cond => Some (CTElem (snd id) (vals terms) (vals cond))
  | ATAtom _ _ a t elems => Some (CTAtom (snd a) (snd t) (vals elems))
  | ATAtomG _ _ a t elems op rhs => Some (CTAtomG (snd a) (snd t) (vals elems) (snd op) (snd rhs))
  | AComment _ _ _ | ABadDir _ | ABadTheory _ _ _ => None
  end.

Fixpoint dir_calls (ds : list adir) : list call :=
  match ds with
  | [] => []
  | d :: r => match call_of d with Some c => c :: dir_calls r | None => dir_calls r end
  end.
Definition step_calls (s : astep) : list call := CBegin :: dir_calls (st_dirs s) ++ [CEnd].
Definition calls (a : aprog) : list call := CInit (h_inc (p_hdr a)) :: flat_map step_calls (p_steps a).
