(* C03 - general description: the directive loop of a step and the step loop, forward and backward. *)
Require Import V.Lib.Base V.Lib.Calls V.Lib.Dec V.C09.Spec V.Gen.Consts V.Gen.Consts_C01 V.C01.Read V.C01.ProofsPrim
  V.C03.Grammar V.C03.ProofsG1 V.C03.ProofsG2 V.C03.ProofsG3.
Require Import ZifyBool.
Local Open Scope Z_scope.

(* ---------------------------------------------------------------- the first byte of a number token *)
Definition gcore (l : glay) (v : Z) : list Z := gsign_bytes (g_sg l) ++ repeat 48 (g_zeros l) ++ print_nat (Z.abs v).
Lemma gnum_core l v : gnum l v = g_ws l ++ gcore l v.
Proof. reflexivity. Qed.
Lemma gcore_hd l v y : exists c t, gcore l v ++ y = c :: t /\ is_ws c = false /\ c <> 0.
Proof.
  unfold gcore. destruct (g_sg l); cbn [gsign_bytes app];
    try (eexists; eexists; cbn; split; [reflexivity | split; [reflexivity | lia]]).
  destruct (g_zeros l); [|eexists; eexists; cbn; split; [reflexivity | split; [reflexivity | lia]]].
  cbn [repeat app].
  pose proof (print_nat_hd_digit (Z.abs v) (Z.abs_nonneg v)) as Hd. pose proof (print_nat_nonempty (Z.abs v) (Z.abs_nonneg v)) as Hne.
  destruct (print_nat (Z.abs v)) as [|c r]; [congruence|]. cbn [app hd] in *. exists c, (r ++ y). split; [reflexivity|].
  unfold is_digit, is_ws in *. lia.
Qed.
Lemma gnum_ws l v nx : gnum_wf l v nx = true -> forallb is_ws (g_ws l) = true.
Proof. unfold gnum_wf. intros H. apply andb_true_iff in H. destruct H as [H _]. apply andb_true_iff in H. tauto. Qed.

Lemma drop_ws_app ws y : forallb is_ws ws = true -> drop_ws (ws ++ y) = drop_ws y.
Proof. induction ws as [|c ws IH]; intros H; [reflexivity|]. cbn [forallb] in H. apply andb_true_iff in H. destruct H as [Hc H]. cbn [app drop_ws]. rewrite Hc. auto. Qed.
Lemma drop_ws_stop y : match y with c :: _ => is_ws c = false | [] => True end -> drop_ws y = y.
Proof. destruct y as [|c r]; [reflexivity|]. intros H. cbn [drop_ws]. rewrite H. reflexivity. Qed.
Lemma drop_ws_idem y : drop_ws (drop_ws y) = drop_ws y.
Proof. induction y as [|c r IH]; [reflexivity|]. cbn [drop_ws]. destruct (is_ws c) eqn:E; [exact IH|]. cbn [drop_ws]. rewrite E. reflexivity. Qed.

Lemma skipws_rest s : rest (a_skipws s) = drop_ws (rest s).
Proof.
  destruct (skipws_inv s) as (ws & E & Hws). rewrite E. rewrite drop_ws_app by exact Hws.
  symmetry. apply drop_ws_stop. apply skipws_stops.
Qed.

Lemma gtrail_drop y : gtrail_ok (drop_ws y) = gtrail_ok y.
Proof. unfold gtrail_ok. rewrite drop_ws_idem. reflexivity. Qed.
Lemma more_trail s : fst (more s) = negb (gtrail_ok (rest s)).
Proof. unfold more, a_end, a_peek, gtrail_ok. cbn [fst]. rewrite skipws_rest. destruct (drop_ws (rest s)); reflexivity. Qed.
Lemma more_snd s : snd (more s) = a_skipws s.
Proof. reflexivity. Qed.

Lemma drop_ws_num l v y : gnum_wf l v y = true -> forall z, drop_ws (gnum l v ++ z) = gcore l v ++ z.
Proof.
  intros H z. rewrite gnum_core, <- app_assoc, drop_ws_app by (eapply gnum_ws; exact H).
  apply drop_ws_stop. destruct (gcore_hd l v z) as (c & t & -> & Hc & _). exact Hc.
Qed.
Lemma gtrail_num l v y z : gnum_wf l v y = true -> gtrail_ok (gnum l v ++ z) = false.
Proof. intros H. unfold gtrail_ok. rewrite (drop_ws_num l v y H). destruct (gcore_hd l v z) as (c & t & -> & _ & Hc). lia. Qed.
Lemma peek_num l v y z ln : gnum_wf l v y = true -> a_peek (amk (gnum l v ++ z) ln) <> 0.
Proof.
  intros H. unfold a_peek. cbn [rest]. rewrite gnum_core, <- app_assoc.
  pose proof (gnum_ws l v y H) as Hws. destruct (g_ws l) as [|c ws].
  - cbn [app]. destruct (gcore_hd l v z) as (c & t & -> & _ & Hc). exact Hc.
  - cbn [app]. cbn [forallb] in Hws. unfold is_ws in Hws. lia.
Qed.

Lemma gcore_len l v : (1 <= length (gcore l v))%nat.
Proof. destruct (gcore_hd l v []) as (c & t & E & _). rewrite app_nil_r in E. rewrite E. cbn [length]. lia. Qed.
Lemma gdir_r_len d : (1 <= length (gdir_r d))%nat.
Proof. unfold gdir_r. rewrite gnum_core, !app_length. pose proof (gcore_len (fst d) (gcode (snd d))). lia. Qed.
Lemma len_gdirs ds : (length ds <= length (flat_map gdir_r ds))%nat.
Proof. induction ds as [|d ds IH]; [cbn; lia|]. cbn [flat_map length]. rewrite app_length. pose proof (gdir_r_len d). lia. Qed.

(* ---------------------------------------------------------------- the directives of a step, forward *)
Lemma gcode_nonzero b nx : gbody_wf b nx = true -> (0 <=? gcode b) && (gcode b <=? 10) = true -> (gcode b =? 0) = false.
Proof. destruct b; cbn [gcode gbody_wf]; intros; try reflexivity. lia. Qed.
Lemma gcode_bad b : (0 <=? gcode b) && (gcode b <=? 10) = false -> gbody_in b = false.
Proof. destruct b; cbn [gcode gbody_in]; intros H; try reflexivity; discriminate H. Qed.
Lemma gdir_calls_cons d ds : gdir_calls (d :: ds) = opt_cons (gcall_of (snd d)) (gdir_calls ds).
Proof. cbn [gdir_calls]. destruct (gcall_of (snd d)); reflexivity. Qed.

Lemma dirs_run ds : forall fuel endl nx ln,
  gseq_wf gdir_r gdir_wf ds (gnum endl 0 ++ nx) = true -> gnum_wf endl 0 nx = true -> (length ds < length fuel)%nat ->
  if forallb gdir_in ds
  then exists ln', dirs fuel (amk (flat_map gdir_r ds ++ gnum endl 0 ++ nx) ln) = (gdir_calls ds, ROk tt (amk nx ln'))
  else exists cs ln', dirs fuel (amk (flat_map gdir_r ds ++ gnum endl 0 ++ nx) ln) = (cs, RErr ln').
Proof.
  induction ds as [|d ds IH]; intros fuel endl nx ln Hl Hend Hlen.
  - destruct fuel as [|x f]; [cbn in Hlen; lia|]. cbn [flat_map app forallb gdir_calls dirs].
    pose proof (run_range 0 enum_Directive_t_max endl 0 nx ltac:(i64) Hend ln) as Hc.
    unfold m_pos. destruct (m_range 0 enum_Directive_t_max (amk (gnum endl 0 ++ nx) ln)) as [v s1|l].
    + destruct Hc as (_ & -> & Hrest). destruct s1 as [rs ln1]. cbn [rest] in Hrest. subst rs.
      change (0 =? 0) with true. cbv iota. eexists; reflexivity.
    + discriminate Hc.
  - destruct fuel as [|x f]; [cbn in Hlen; lia|].
    cbn [gseq_wf] in Hl. apply andb_true_iff in Hl. destruct Hl as [Hd Hrest].
    unfold gdir_wf in Hd. apply andb_true_iff in Hd. destruct Hd as [Hcw Hbw].
    cbn [flat_map]. change (gdir_r d) with (gnum (fst d) (gcode (snd d)) ++ gbody_r (snd d)). repeat rewrite <- app_assoc.
    set (T := flat_map gdir_r ds ++ gnum endl 0 ++ nx) in *.
    pose proof (run_range 0 enum_Directive_t_max (fst d) (gcode (snd d)) (gbody_r (snd d) ++ T) ltac:(i64) Hcw ln) as Hc.
    cbn [dirs]. unfold m_pos.
    destruct (m_range 0 enum_Directive_t_max (amk (gnum (fst d) (gcode (snd d)) ++ gbody_r (snd d) ++ T) ln)) as [v s1|l].
    + destruct Hc as (Hcode & -> & Hr1). destruct s1 as [rs ln1]. cbn [rest] in Hr1. subst rs.
      change enum_Directive_t_max with 10 in Hcode.
      rewrite (gcode_nonzero _ _ Hbw Hcode). cbv iota.
      assert (Hlen' : (length ds < length f)%nat) by (cbn [length] in Hlen; lia).
      assert (Hd : run (directive (gcode (snd d))) (gbody_r (snd d) ++ T) T (gbody_in (snd d)) (gcall_of (snd d))).
      { destruct (gis_comment (snd d)) eqn:Hcm.
        - destruct (snd d); try discriminate Hcm. cbn [gcode gbody_r gbody_in gcall_of gbody_wf] in *.
          apply andb_true_iff in Hbw. destruct Hbw as [Htxt Hnl]. rewrite <- app_assoc. apply comment_run; assumption.
        - apply directive_run; assumption. }
      specialize (Hd ln1).
      destruct (directive (gcode (snd d)) (amk (gbody_r (snd d) ++ T) ln1)) as [oc s2|l2].
      * destruct Hd as (Hin & -> & Hr2). destruct s2 as [rs ln2]. cbn [rest] in Hr2. subst rs.
        cbn [forallb]. unfold gdir_in at 1. rewrite Hin. cbn [andb]. rewrite gdir_calls_cons.
        specialize (IH f endl nx ln2 Hrest Hend Hlen'). fold T in IH.
        destruct (forallb gdir_in ds).
        -- destruct IH as (ln' & E2). rewrite E2. eexists; reflexivity.
        -- destruct IH as (cs & ln' & E2). rewrite E2. eexists; eexists; reflexivity.
      * cbn [forallb]. unfold gdir_in at 1. rewrite Hd. cbn [andb]. eexists; eexists; reflexivity.
    + cbn [forallb]. unfold gdir_in at 1. change enum_Directive_t_max with 10 in Hc. rewrite (gcode_bad _ Hc). cbn [andb]. eexists; eexists; reflexivity.
Qed.

(* ---------------------------------------------------------------- the directives of a step, backward *)
Lemma hd_seq_peek ds endl nx ln :
  gseq_wf gdir_r gdir_wf ds (gnum endl 0 ++ nx) = true -> gnum_wf endl 0 nx = true ->
  a_peek (amk (flat_map gdir_r ds ++ gnum endl 0 ++ nx) ln) <> 0.
Proof.
  intros Hs He. destruct ds as [|d ds].
  - cbn [flat_map app]. eapply peek_num. exact He.
  - cbn [flat_map gseq_wf] in *. apply andb_true_iff in Hs. destruct Hs as [Hd _]. unfold gdir_wf in Hd.
    apply andb_true_iff in Hd. destruct Hd as [Hc _]. unfold gdir_r. repeat rewrite <- app_assoc. eapply peek_num. exact Hc.
Qed.

Lemma dirs_inv fuel : forall s cs s', dirs fuel s = (cs, ROk tt s') ->
  exists ds endl, rest s = flat_map gdir_r ds ++ gnum endl 0 ++ rest s' /\
    gseq_wf gdir_r gdir_wf ds (gnum endl 0 ++ rest s') = true /\ gnum_wf endl 0 (rest s') = true /\
    forallb gdir_in ds = true /\ gdir_calls ds = cs.
Proof.
  induction fuel as [|x f IH]; intros s cs s' H; [discriminate H|].
  cbn [dirs] in H. destruct (m_pos enum_Directive_t_max s) as [rt s1|] eqn:Ec; [|discriminate H].
  unfold m_pos in Ec. destruct (range_inv _ _ _ _ _ Ec) as (t & Et & Wt & Rt & Vt).
  destruct (Z.eqb_spec rt 0) as [->|Nz].
  - injection H as <- <-. exists [], (fst t). cbn [flat_map app gseq_wf forallb gdir_calls].
    destruct (code_tok t 0 _ Vt Wt) as [Ec' Wc]. rewrite <- Ec'. auto.
  - destruct (directive rt s1) as [oc s2|] eqn:Ed; [|discriminate H].
    destruct (dirs f s2) as [cs2 r] eqn:Er. injection H as <- ->.
    destruct (IH _ _ _ Er) as (ds & endl & Ers & Hs & He & Hin & Hcs).
    assert (Hp : a_peek s2 <> 0).
    { destruct s2 as [r2 l2]. cbn [rest] in Ers. rewrite Ers. apply hd_seq_peek; assumption. }
    destruct (directive_inv _ _ _ _ Ed Hp) as (b & Hcode & Erb & Wb & Rb & Cb).
    exists ((fst t, b) :: ds), endl. cbn [flat_map gseq_wf forallb]. rewrite gdir_calls_cons. cbn [fst snd].
    change (gdir_r (fst t, b)) with (gnum (fst t) (gcode b) ++ gbody_r b).
    change (gdir_in (fst t, b)) with (gbody_in b).
    match goal with |- context [gdir_wf (fst t, b) ?n] =>
      change (gdir_wf (fst t, b) n) with (gnum_wf (fst t) (gcode b) (gbody_r b ++ n) && gbody_wf b n) end.
    rewrite Hcode, <- Vt.
    split. { rewrite Et, Erb, Ers. unfold gtok_r. repeat rewrite <- app_assoc. reflexivity. }
    split. { rewrite <- Ers, <- Erb. unfold gtok_wf in Wt. rewrite Wt, Wb, Hs. reflexivity. }
    split; [exact He|]. split; [rewrite Rb, Hin; reflexivity|]. rewrite Cb, Hcs. reflexivity.
Qed.

(* ---------------------------------------------------------------- steps *)
Lemma m_range_skip lo hi s : m_range lo hi (a_skipws s) = m_range lo hi s.
Proof. unfold m_range, a_match_int. rewrite skipws_idem. reflexivity. Qed.
Lemma dirs_skip x f s : dirs (x :: f) (a_skipws s) = dirs (x :: f) s.
Proof. cbn [dirs]. unfold m_pos. rewrite m_range_skip. reflexivity. Qed.

Definition grest_text (ss : list gstep) (trail : list Z) : list Z := flat_map gstep_r ss ++ trail.
Lemma grest_text_cons st ss trail :
  grest_text (st :: ss) trail = flat_map gdir_r (gst_dirs st) ++ gnum (gst_end st) 0 ++ grest_text ss trail.
Proof. unfold grest_text, gstep_r. cbn [flat_map]. rewrite <- !app_assoc. reflexivity. Qed.

(* the first token of a step *)
Lemma step_first st nx : gstep_wf st nx = true ->
  exists l v y, flat_map gdir_r (gst_dirs st) ++ gnum (gst_end st) 0 ++ nx = gnum l v ++ y /\ (exists z, gnum_wf l v z = true) /\
                (length (gst_dirs st) <= length y)%nat.
Proof.
  unfold gstep_wf. intros H. apply andb_true_iff in H. destruct H as [Hs He].
  destruct (gst_dirs st) as [|d ds].
  - cbn [flat_map app]. exists (gst_end st), 0, nx. split; [reflexivity|]. split; [eauto|]. cbn [length]. lia.
  - cbn [flat_map gseq_wf] in *. apply andb_true_iff in Hs. destruct Hs as [Hd _]. unfold gdir_wf in Hd.
    apply andb_true_iff in Hd. destruct Hd as [Hc _].
    change (gdir_r d) with (gnum (fst d) (gcode (snd d)) ++ gbody_r (snd d)). repeat rewrite <- app_assoc.
    eexists _, _, _. split; [reflexivity|]. split; [eauto|].
    rewrite !app_length. pose proof (len_gdirs ds). cbn [length]. pose proof (gcore_len (gst_end st) 0).
    rewrite (gnum_core (gst_end st)), app_length. lia.
Qed.

Lemma step_fuel st ss trail ln s :
  gstep_wf st (grest_text ss trail) = true ->
  (s = amk (grest_text (st :: ss) trail) ln \/ s = a_skipws (amk (grest_text (st :: ss) trail) ln)) ->
  (length (gst_dirs st) < length (0%Z :: rest s))%nat.
Proof.
  intros Hw Hs. rewrite grest_text_cons in Hs.
  destruct (step_first st _ Hw) as (l & v & y & E & (z & Hz) & Hlen). rewrite E in Hs.
  destruct Hs as [->| ->].
  - cbn [rest length]. rewrite app_length. lia.
  - rewrite skipws_rest. cbn [rest]. rewrite (drop_ws_num l v z Hz). cbn [length]. rewrite app_length. lia.
Qed.

Lemma steps_run ss : forall fuel inc s ln trail,
  ss <> [] -> gseq_wf gstep_r gstep_wf ss trail = true -> gtrail_ok trail = true ->
  (s = amk (grest_text ss trail) ln \/ s = a_skipws (amk (grest_text ss trail) ln)) ->
  (length ss < length fuel)%nat ->
  if forallb gstep_in ss && (inc || (Z.of_nat (length ss) =? 1))
  then parse_complete fuel inc s = (flat_map gstep_calls ss, Ok)
  else exists cs ln', parse_complete fuel inc s = (cs, Err ln').
Proof.
  induction ss as [|st ss IH]; intros fuel inc s ln trail Hne Hl Htr Hs Hlen; [congruence|].
  destruct fuel as [|x f]; [cbn in Hlen; lia|].
  cbn [gseq_wf] in Hl. apply andb_true_iff in Hl. destruct Hl as [Hst Hl]. fold (grest_text ss trail) in Hst.
  pose proof (step_fuel st ss trail ln s Hst Hs) as Hfuel.
  assert (HA : dirs (0 :: rest s) s = dirs (0 :: rest s) (amk (grest_text (st :: ss) trail) ln)).
  { destruct Hs as [->| ->]; [reflexivity | apply dirs_skip]. }
  pose proof Hst as Hst'. unfold gstep_wf in Hst'. apply andb_true_iff in Hst'. destruct Hst' as [Hd He].
  pose proof (dirs_run (gst_dirs st) (0 :: rest s) (gst_end st) (grest_text ss trail) ln Hd He Hfuel) as Hdirs.
  rewrite <- grest_text_cons, <- HA in Hdirs.
  cbn [parse_complete]. unfold parse_round, read_step. cbn [forallb]. unfold gstep_in at 1.
  destruct (forallb gdir_in (gst_dirs st)).
  - destruct Hdirs as (ln1 & E). rewrite E. cbn [andb].
    set (s1 := amk (grest_text ss trail) ln1).
    destruct (more (a_skipws s1)) as [m s3] eqn:Em.
    assert (Hm : m = negb (gtrail_ok (grest_text ss trail))).
    { pose proof (more_trail (a_skipws s1)) as Hx. rewrite Em in Hx. cbn [fst] in Hx. rewrite Hx, skipws_rest, gtrail_drop. reflexivity. }
    assert (Hs3 : s3 = a_skipws s1).
    { pose proof (more_snd (a_skipws s1)) as Hx. rewrite Em in Hx. cbn [snd] in Hx. rewrite Hx. apply skipws_idem. }
    destruct ss as [|st2 ss2].
    + (* last step *)
      unfold grest_text in Hm. cbn [flat_map app] in Hm. rewrite Htr in Hm. cbn [negb] in Hm. subst m. cbn [andb].
      destruct (more s3) as [m2 s4] eqn:Em2.
      assert (Hm2 : m2 = false).
      { pose proof (more_trail s3) as Hx. rewrite Em2 in Hx. cbn [fst] in Hx. rewrite Hx, Hs3, skipws_rest, gtrail_drop.
        unfold s1, grest_text. cbn [rest flat_map app]. rewrite Htr. reflexivity. }
      rewrite Hm2. cbn [forallb length]. change (Z.of_nat 1 =? 1) with true. rewrite orb_true_r. cbn [andb flat_map]. rewrite app_nil_r. reflexivity.
    + (* more steps follow *)
      pose proof Hl as Hl2. cbn [gseq_wf] in Hl2. apply andb_true_iff in Hl2. destruct Hl2 as [Hst2 _]. fold (grest_text ss2 trail) in Hst2.
      destruct (step_first st2 _ Hst2) as (l0 & v0 & y0 & E0 & (z0 & Hz0) & _).
      assert (Hnt : gtrail_ok (grest_text (st2 :: ss2) trail) = false).
      { rewrite grest_text_cons, E0. eapply gtrail_num. exact Hz0. }
      rewrite Hnt in Hm. cbn [negb] in Hm. subst m.
      assert (Hlen2 : (Z.of_nat (length (st :: st2 :: ss2)) =? 1) = false) by (cbn [length]; lia).
      rewrite Hlen2, orb_false_r. cbn [andb].
      destruct inc.
      * cbn [negb]. cbv iota beta.
        destruct (more s3) as [m2 s4] eqn:Em2.
        assert (Hm2 : m2 = true).
        { pose proof (more_trail s3) as Hx. rewrite Em2 in Hx. cbn [fst] in Hx. rewrite Hx, Hs3, skipws_rest, gtrail_drop.
          unfold s1. cbn [rest]. rewrite Hnt. reflexivity. }
        assert (Hs4 : s4 = a_skipws s1).
        { pose proof (more_snd s3) as Hx. rewrite Em2 in Hx. cbn [snd] in Hx. rewrite Hx, Hs3. apply skipws_idem. }
        rewrite Hm2.
        specialize (IH f true s4 ln1 trail ltac:(congruence) Hl Htr (or_intror Hs4) ltac:(cbn [length] in *; lia)).
        cbn [orb] in IH. rewrite andb_true_r in *.
        destruct (forallb gstep_in (st2 :: ss2)) eqn:Hok2.
        -- rewrite IH. reflexivity.
        -- destruct IH as (cs & ln' & E5). rewrite E5. eexists; eexists; reflexivity.
      * cbn [negb andb]. rewrite andb_false_r. eexists; eexists; reflexivity.
  - destruct Hdirs as (cs & ln1 & E). rewrite E. cbn [andb]. eexists; eexists; reflexivity.
Qed.

Lemma steps_inv fuel : forall inc s cs, parse_complete fuel inc s = (cs, Ok) ->
  forall s0, a_skipws s0 = a_skipws s ->
  exists ss trail, ss <> [] /\ rest s0 = flat_map gstep_r ss ++ trail /\
    gseq_wf gstep_r gstep_wf ss trail = true /\ gtrail_ok trail = true /\ forallb gstep_in ss = true /\
    (inc = true \/ length ss = 1%nat) /\ flat_map gstep_calls ss = cs.
Proof.
  induction fuel as [|x f IH]; intros inc s cs H s0 Hs0; [discriminate H|].
  cbn [parse_complete] in H. unfold parse_round, read_step in H.
  assert (HA : dirs (0 :: rest s) s = dirs (0 :: rest s) s0).
  { rewrite <- (dirs_skip 0 (rest s) s), <- Hs0. apply dirs_skip. }
  rewrite HA in H.
  destruct (dirs (0 :: rest s) s0) as [cd [[] s1|]] eqn:Ed; [|discriminate H].
  destruct (dirs_inv _ _ _ _ Ed) as (ds & endl & Er & Hsw & Hew & Hin & Hcs).
  destruct (more (a_skipws s1)) as [m s3] eqn:Em.
  assert (Hm : m = negb (gtrail_ok (rest s1))).
  { pose proof (more_trail (a_skipws s1)) as Hx. rewrite Em in Hx. cbn [fst] in Hx. rewrite Hx, skipws_rest, gtrail_drop. reflexivity. }
  assert (Hs3 : s3 = a_skipws s1).
  { pose proof (more_snd (a_skipws s1)) as Hx. rewrite Em in Hx. cbn [snd] in Hx. rewrite Hx. apply skipws_idem. }
  destruct (m && negb inc) eqn:Hmi; [discriminate H|].
  destruct (more s3) as [m2 s4] eqn:Em2.
  assert (Hm2 : m2 = m).
  { pose proof (more_trail s3) as Hx. rewrite Em2 in Hx. cbn [fst] in Hx. rewrite Hx, Hs3, skipws_rest, gtrail_drop. symmetry. exact Hm. }
  assert (Hs4 : a_skipws s1 = a_skipws s4).
  { pose proof (more_snd s3) as Hx. rewrite Em2 in Hx. cbn [snd] in Hx. rewrite Hx, Hs3, !skipws_idem. reflexivity. }
  set (st := mkGStep ds endl).
  assert (Hstep : forall nx, rest s1 = nx -> gstep_wf st nx = true).
  { intros nx <-. unfold gstep_wf, st. cbn [gst_dirs gst_end]. rewrite Hsw, Hew. reflexivity. }
  subst m2. destruct m.
  - (* another step follows *)
    destruct (parse_complete f inc s4) as [cs' o] eqn:Ep. injection H as <- ->.
    destruct (IH _ _ _ Ep s1 Hs4) as (ss & trail & Hne & Ers & Hss & Htr & Hok & Hinc & Hcss).
    exists (st :: ss), trail. split; [discriminate|].
    split. { cbn [flat_map]. unfold gstep_r at 1, st at 1. cbn [gst_dirs gst_end]. rewrite Er, Ers. repeat rewrite <- app_assoc. reflexivity. }
    split. { cbn [gseq_wf]. rewrite (Hstep _ Ers), Hss. reflexivity. }
    split; [exact Htr|]. split. { cbn [forallb]. unfold gstep_in at 1, st. cbn [gst_dirs]. rewrite Hin, Hok. reflexivity. }
    split. { left. destruct inc; [reflexivity | discriminate Hmi]. }
    cbn [flat_map]. unfold gstep_calls at 1, st. cbn [gst_dirs]. rewrite Hcs, Hcss. cbn [app]. rewrite <- app_assoc. reflexivity.
  - injection H as <-.
    exists [st], (rest s1). split; [discriminate|].
    split. { cbn [flat_map]. unfold gstep_r, st. cbn [gst_dirs gst_end]. rewrite app_nil_r, Er. repeat rewrite <- app_assoc. reflexivity. }
    split. { cbn [gseq_wf flat_map app]. rewrite (Hstep _ eq_refl). reflexivity. }
    split. { destruct (gtrail_ok (rest s1)); [reflexivity | discriminate Hm]. }
    split. { cbn [forallb]. unfold gstep_in, st. cbn [gst_dirs]. rewrite Hin. reflexivity. }
    split; [right; reflexivity|].
    cbn [flat_map]. unfold gstep_calls, st. cbn [gst_dirs]. rewrite Hcs, app_nil_r. reflexivity.
Qed.
