(* C03 - general description: header and whole programs, forward (complete / rejects) and backward (SOUND):
   the reader accepts a text EXACTLY WHEN it is the rendering of a well-formed in-range program. *)
Require Import V.Lib.Base V.Lib.Calls V.Lib.Dec V.C09.Spec V.Gen.Consts V.Gen.Consts_C01 V.C01.Read V.C01.ProofsPrim
  V.C03.Grammar V.C03.ProofsG1 V.C03.ProofsG2 V.C03.ProofsG3 V.C03.ProofsG4.
Require Import ZifyBool.
Local Open Scope Z_scope.

(* ---------------------------------------------------------------- token match, blanks *)
Lemma match_tok_prefix w X ln : a_match_tok w (amk (w ++ X) ln) = (true, amk X ln).
Proof.
  unfold a_match_tok. cbn [rest aline]. rewrite firstn_app_exact, skipn_app_exact.
  assert (E : list_eqb w w = true) by (apply list_eqb_eq; reflexivity). rewrite E. reflexivity.
Qed.
Lemma match_tok_inv w s b s' : a_match_tok w s = (b, s') ->
  (b = true /\ rest s = w ++ rest s') \/ (b = false /\ s' = s).
Proof.
  unfold a_match_tok. destruct (list_eqb (firstn (length w) (rest s)) w) eqn:E; intros H; injection H as <- <-.
  - left. split; [reflexivity|]. apply list_eqb_eq in E. cbn [rest]. rewrite <- E at 1. symmetry. apply firstn_skipn.
  - right. auto.
Qed.

Lemma skip_blanks n : forall fuel X ln, (n < length fuel)%nat -> hd 0 X <> 32 ->
  skip_blanks_f fuel (amk (repeat 32 n ++ X) ln) = amk X ln.
Proof.
  induction n as [|n IH]; intros fuel X ln Hlen Hhd; (destruct fuel as [|x f]; [cbn in Hlen; lia|]).
  - cbn [repeat app skip_blanks_f]. unfold a_match_tok. cbn [rest aline length].
    destruct X as [|c X']; [reflexivity|]. cbn [hd] in Hhd. cbn [firstn list_eqb].
    assert (E : (c =? 32) = false) by lia. rewrite E. reflexivity.
  - cbn [repeat app skip_blanks_f]. unfold a_match_tok. cbn [rest aline length firstn list_eqb skipn].
    change (32 =? 32) with true. cbn [andb]. apply IH; [cbn [length] in Hlen; lia | exact Hhd].
Qed.
Lemma skip_blanks_inv fuel : forall s, exists k, rest s = repeat 32 k ++ rest (skip_blanks_f fuel s).
Proof.
  induction fuel as [|x f IH]; intros s; [exists 0%nat; reflexivity|].
  cbn [skip_blanks_f]. destruct (a_match_tok [32] s) as [b s1] eqn:E.
  destruct (match_tok_inv _ _ _ _ E) as [[-> Er]|[-> ->]].
  - destruct (IH s1) as (k & Ek). exists (S k). rewrite Er, Ek. reflexivity.
  - exists 0%nat. reflexivity.
Qed.

Lemma line_end_hd nl nx : line_end nl nx = true -> exists c t, nl = c :: t /\ (c = 10 \/ c = 13).
Proof.
  unfold line_end, one_get. intros H. apply andb_true_iff in H. destruct H as [H1 H2].
  destruct nl as [|c t]; [discriminate H1|]. exists c, t. split; [reflexivity|]. cbn [hd] in H2. lia.
Qed.
Lemma get_line_end nl nx ln : line_end nl nx = true -> exists ln', a_get (amk (nl ++ nx) ln) = (10, amk nx ln').
Proof.
  intros H. pose proof H as H'. unfold line_end in H. apply andb_true_iff in H. destruct H as [H1 H2].
  destruct (get_one nl nx ln H1) as (ln' & E). exists ln'. rewrite E.
  assert (Eb : (hd 0 nl =? 13) || (hd 0 nl =? 10) = true) by lia. rewrite Eb. reflexivity.
Qed.

(* ---------------------------------------------------------------- header, forward *)
Lemma header_run h R : ghdr_wf h R = true ->
  if gr_id (gh_rev h)
  then exists ln, read_header (a_init (ghdr_r h ++ R)) = ([CInit (gh_inc h)], ROk (Some (gh_inc h)) (amk R ln))
  else exists ln, read_header (a_init (ghdr_r h ++ R)) = ([], RErr ln).
Proof.
  unfold ghdr_wf. intros H.
  apply andb_true_iff in H. destruct H as [Hpre H]. apply andb_true_iff in H. destruct H as [Hmaj H].
  apply andb_true_iff in H. destruct H as [Hmin H]. apply andb_true_iff in H. destruct H as [Hrev Hnl].
  unfold read_header, a_init, ghdr_r, ghdr_tail in *. repeat rewrite <- app_assoc in *.
  set (X6 := (if gh_inc h then gincremental_bytes else []) ++ gh_nl h ++ R) in *.
  set (X5 := repeat 32 (gh_blanks h) ++ X6) in *.
  set (X4 := gtok_r (gh_rev h) ++ X5) in *.
  set (X3 := gnum (gh_minor h) 0 ++ X4) in *.
  set (X2 := gnum (gh_major h) 1 ++ X3).
  destruct (line_end_hd _ _ Hnl) as (cn & tn & Enl & Hcn).
  assert (HX6 : exists c t, X6 = c :: t /\ c <> 32).
  { unfold X6. destruct (gh_inc h); [eexists; eexists; cbn; split; [reflexivity | lia]|].
    rewrite Enl. cbn [app]. exists cn, (tn ++ R). split; [reflexivity | lia]. }
  destruct (skipws_app (gh_pre h) (gasp_bytes ++ X2) 1 (forallb_all_ws _ Hpre) ltac:(reflexivity)) as (ln0 & E0 & _).
  rewrite E0. change tok_asp with gasp_bytes. rewrite match_tok_prefix. cbn [negb]. cbv iota beta.
  (* major *)
  pose proof (run_range 0 UINT_MAX (gh_major h) 1 X3 ltac:(i64) Hmaj ln0) as Hc1.
  unfold m_pos. fold X2 in Hc1. destruct (m_range 0 UINT_MAX (amk X2 ln0)) as [v1 s1|]; [|discriminate Hc1].
  destruct Hc1 as (_ & -> & Hr1). destruct s1 as [rs1 ln1]. cbn [rest] in Hr1. subst rs1.
  change (negb (1 =? ASPIF_MAJOR)) with false. cbv iota.
  (* minor *)
  pose proof (run_range 0 UINT_MAX (gh_minor h) 0 X4 ltac:(i64) Hmin ln1) as Hc2.
  fold X3 in Hc2. destruct (m_range 0 UINT_MAX (amk X3 ln1)) as [v2 s2|]; [|discriminate Hc2].
  destruct Hc2 as (_ & -> & Hr2). destruct s2 as [rs2 ln2]. cbn [rest] in Hr2. subst rs2.
  change (negb (0 =? ASPIF_MINOR)) with false. cbv iota.
  (* revision *)
  pose proof (run_range 0 UINT_MAX (fst (gh_rev h)) (snd (gh_rev h)) X5 ltac:(i64) Hrev ln2) as Hc3.
  change (gnum (fst (gh_rev h)) (snd (gh_rev h))) with (gtok_r (gh_rev h)) in Hc3. fold X4 in Hc3.
  unfold gr_id, grng, GU_MAX. unfold UINT_MAX in *.
  destruct (m_range 0 4294967295 (amk X4 ln2)) as [v3 s3|l3].
  - destruct Hc3 as (Hok & -> & Hr3). destruct s3 as [rs3 ln3]. cbn [rest] in Hr3. subst rs3. rewrite Hok.
    destruct HX6 as (c6 & t6 & E6 & H32).
    cbn [rest]. unfold X5 at 2. rewrite skip_blanks; [| unfold X5; rewrite app_length, repeat_length, E6; cbn [length]; lia | rewrite E6; exact H32].
    destruct (get_line_end (gh_nl h) R ln3 Hnl) as (ln4 & Hget).
    exists ln4. unfold X6.
    destruct (gh_inc h).
    + change tok_incremental with gincremental_bytes. rewrite match_tok_prefix. rewrite Hget. reflexivity.
    + cbn [app]. assert (Hno : a_match_tok tok_incremental (amk (gh_nl h ++ R) ln3) = (false, amk (gh_nl h ++ R) ln3)).
      { unfold a_match_tok. cbn [rest]. rewrite Enl. cbn [app length tok_incremental V.Gen.Consts_C01.rd_tok_incremental firstn list_eqb].
        assert (E : (cn =? 105) = false) by lia. rewrite E. reflexivity. }
      rewrite Hno. rewrite Hget. reflexivity.
  - rewrite Hc3. eexists; reflexivity.
Qed.

(* ---------------------------------------------------------------- header, backward *)
Lemma header_inv t cs inc s : read_header (a_init t) = (cs, ROk (Some inc) s) ->
  exists h, t = ghdr_r h ++ rest s /\ ghdr_wf h (rest s) = true /\ gr_id (gh_rev h) = true /\ gh_inc h = inc /\ cs = [CInit inc].
Proof.
  unfold read_header. intros H.
  destruct (skipws_inv (a_init t)) as (pre & Epre & Hpre). cbn [rest a_init] in Epre.
  set (s0 := a_skipws (a_init t)) in *.
  destruct (a_match_tok tok_asp s0) as [b s1] eqn:Easp.
  destruct (match_tok_inv _ _ _ _ Easp) as [[-> Er0]|[-> ->]]; [|discriminate H]. cbn [negb] in H.
  destruct (m_pos UINT_MAX s1) as [major s2|] eqn:Emaj; [|discriminate H].
  destruct (Z.eqb_spec major ASPIF_MAJOR) as [Ema|]; [|discriminate H]. cbn [negb] in H.
  destruct (m_pos UINT_MAX s2) as [minor s3|] eqn:Emin; [|discriminate H].
  destruct (Z.eqb_spec minor ASPIF_MINOR) as [Emi|]; [|discriminate H]. cbn [negb] in H.
  destruct (m_pos UINT_MAX s3) as [rev s4|] eqn:Erev; [|discriminate H].
  destruct (skip_blanks_inv (rest s4) s4) as (k & Ek). set (s5 := skip_blanks_f (rest s4) s4) in *.
  destruct (a_match_tok tok_incremental s5) as [ib s6] eqn:Einc.
  destruct (a_get s6) as [c s7] eqn:Eget.
  destruct (Z.eqb_spec c 10) as [->|]; [|discriminate H]. injection H as <- <- <-.
  unfold m_pos in *.
  destruct (range_inv _ _ _ _ _ Emaj) as (t1 & E1 & W1 & R1 & V1).
  destruct (range_inv _ _ _ _ _ Emin) as (t2 & E2 & W2 & R2 & V2).
  destruct (range_inv _ _ _ _ _ Erev) as (t3 & E3 & W3 & R3 & V3).
  assert (Hne6 : rest s6 <> []).
  { intros C. unfold a_get in Eget. rewrite C in Eget. discriminate Eget. }
  destruct (get_inv s6 Hne6) as (nl & Enl & Hnl & Hfst). rewrite Eget in Enl, Hnl, Hfst. cbn [fst snd] in *.
  assert (Hle : line_end nl (rest s7) = true).
  { unfold line_end. rewrite Hnl. cbn [andb]. destruct ((hd 0 nl =? 13) || (hd 0 nl =? 10)) eqn:Eb; lia. }
  assert (E5 : rest s5 = (if ib then gincremental_bytes else []) ++ rest s6).
  { destruct (match_tok_inv _ _ _ _ Einc) as [[-> Er]|[-> ->]]; [exact Er | reflexivity]. }
  destruct (code_tok t1 1 _ (eq_trans V1 Ema) W1) as [Ec1 Wc1].
  destruct (code_tok t2 0 _ (eq_trans V2 Emi) W2) as [Ec2 Wc2].
  exists (mkGHdr pre (fst t1) (fst t2) t3 k ib nl).
  unfold ghdr_r, ghdr_wf, ghdr_tail. cbn [gh_pre gh_major gh_minor gh_rev gh_blanks gh_inc gh_nl]. repeat rewrite <- app_assoc.
  rewrite Ec1 in *. rewrite Ec2 in *.
  rewrite Enl in E5. rewrite E5 in Ek. rewrite Ek in E3. rewrite E3 in E2, W2, Wc2. rewrite E2 in E1, W1, Wc1.
  split. { rewrite Epre, Er0, E1. reflexivity. }
  split. { rewrite Hpre, Wc1, Wc2, Hle. rewrite Ek in W3. rewrite W3. reflexivity. }
  split. { unfold gr_id, GU_MAX. unfold UINT_MAX in R3. exact R3. }
  auto.
Qed.

(* ---------------------------------------------------------------- whole programs *)
Lemma gstep_r_len st : (1 <= length (gstep_r st))%nat.
Proof. unfold gstep_r. rewrite app_length, gnum_core, app_length. pose proof (gcore_len (gst_end st) 0). lia. Qed.
Lemma len_gsteps ss : (length ss <= length (flat_map gstep_r ss))%nat.
Proof. induction ss as [|s ss IH]; [cbn; lia|]. cbn [flat_map length]. rewrite app_length. pose proof (gstep_r_len s). lia. Qed.

Lemma gtrail_no_int tr ln : gtrail_ok tr = true -> fst (a_match_int false (amk tr ln)) = None.
Proof.
  intros H. unfold a_match_int, a_peek. rewrite skipws_rest. cbn [rest]. unfold gtrail_ok in H.
  destruct (drop_ws tr) as [|c r]; [reflexivity|]. assert (c = 0) by lia. subst c. reflexivity.
Qed.

Lemma read_program_g a : gwf a = true ->
  if gin_range a then read_all (grender a) = (gcalls a, Ok)
  else exists cs ln, read_all (grender a) = (cs, Err ln).
Proof.
  unfold gwf, gin_range. intros H. apply andb_true_iff in H. destruct H as [Hh H]. apply andb_true_iff in H. destruct H as [Hs Htr].
  unfold read_all, read_with, grender.
  pose proof (header_run (gp_hdr a) (flat_map gstep_r (gp_steps a) ++ gp_trail a) Hh) as Hhdr.
  destruct (gr_id (gh_rev (gp_hdr a))).
  2:{ destruct Hhdr as (ln & E). rewrite E. cbn [andb]. eexists; eexists; reflexivity. }
  destruct Hhdr as (ln & E). rewrite E. cbn [andb rest].
  destruct (gp_steps a) as [|st ss] eqn:Ess.
  - (* no step at all *)
    cbn [flat_map app forallb andb].
    pose proof (gtrail_no_int (gp_trail a) ln Htr) as En.
    cbn [parse_complete]. unfold parse_round, read_step. cbn [dirs rest]. unfold m_pos, m_range.
    destruct (a_match_int false (amk (gp_trail a) ln)) as [[v|] s']; cbn [fst] in En; [discriminate En|].
    eexists; eexists; reflexivity.
  - pose proof (steps_run (st :: ss) (0 :: (flat_map gstep_r (st :: ss) ++ gp_trail a)) (gh_inc (gp_hdr a))
                  (amk (flat_map gstep_r (st :: ss) ++ gp_trail a) ln) ln (gp_trail a) ltac:(congruence) Hs Htr
                  (or_introl eq_refl)) as Hst.
    specialize (Hst ltac:(cbn [length]; rewrite app_length; pose proof (len_gsteps (st :: ss)); cbn [length] in *; lia)).
    assert (Eok : match st :: ss with [] => false | [_] => true | _ :: _ :: _ => gh_inc (gp_hdr a) end
                  = (gh_inc (gp_hdr a) || (Z.of_nat (length (st :: ss)) =? 1))).
    { destruct ss as [|st2 ss2]; [cbn [length]; change (Z.of_nat 1 =? 1) with true; rewrite orb_true_r; reflexivity|].
      assert (El : (Z.of_nat (length (st :: st2 :: ss2)) =? 1) = false) by (cbn [length]; lia). rewrite El, orb_false_r. reflexivity. }
    rewrite Eok.
    destruct (forallb gstep_in (st :: ss) && (gh_inc (gp_hdr a) || (Z.of_nat (length (st :: ss)) =? 1))).
    + rewrite Hst. unfold gcalls. rewrite Ess. reflexivity.
    + destruct Hst as (cs & ln' & E2). rewrite E2. eexists; eexists; reflexivity.
Qed.

Theorem g_complete a : gwf a = true -> gin_range a = true -> read_all (grender a) = (gcalls a, Ok).
Proof. intros Hl Hr. pose proof (read_program_g a Hl) as H. rewrite Hr in H. exact H. Qed.

Theorem g_rejects a : gwf a = true -> gin_range a = false -> exists cs ln, read_all (grender a) = (cs, Err ln).
Proof. intros Hl Hr. pose proof (read_program_g a Hl) as H. rewrite Hr in H. exact H. Qed.

(* SOUNDNESS: every accepted text - ANY byte list - is the rendering of a well-formed in-range program,
   and the delivered calls are the calls that program denotes *)
Theorem g_sound t cs : read_all t = (cs, Ok) ->
  exists a, gwf a = true /\ gin_range a = true /\ t = grender a /\ cs = gcalls a.
Proof.
  unfold read_all, read_with. intros H.
  destruct (read_header (a_init t)) as [ch [[inc|] s|]] eqn:Eh; try discriminate H.
  destruct (parse_complete (0 :: rest s) inc s) as [cs' o] eqn:Ep. injection H as <- ->.
  destruct (header_inv _ _ _ _ Eh) as (h & Et & Hh & Hrev & Hinc & ->).
  destruct (steps_inv _ _ _ _ Ep s eq_refl) as (ss & trail & Hne & Er & Hss & Htr & Hok & Hcnt & Hcs).
  exists (mkGProg h ss trail). unfold gwf, gin_range, grender, gcalls. cbn [gp_hdr gp_steps gp_trail].
  split. { rewrite <- Er, Hh, Hss, Htr. reflexivity. }
  split. { rewrite Hrev, Hok, Hinc. cbn [andb]. destruct ss as [|s1 [|s2 ss']]; [congruence | reflexivity|].
           destruct Hcnt as [->|C]; [reflexivity | discriminate C]. }
  split. { rewrite Et, Er. reflexivity. }
  rewrite Hinc, Hcs. reflexivity.
Qed.

(* EXACTNESS *)
Theorem g_exact t : (exists cs, read_all t = (cs, Ok)) <-> (exists a, gwf a = true /\ gin_range a = true /\ t = grender a).
Proof.
  split.
  - intros (cs & H). destruct (g_sound t cs H) as (a & H1 & H2 & H3 & _). eauto.
  - intros (a & H1 & H2 & ->). exists (gcalls a). apply g_complete; assumption.
Qed.

Theorem g_exact_calls t cs : read_all t = (cs, Ok) <-> (exists a, gwf a = true /\ gin_range a = true /\ t = grender a /\ cs = gcalls a).
Proof.
  split; [apply g_sound|]. intros (a & H1 & H2 & -> & ->). apply g_complete; assumption.
Qed.

(* a text denotes at most one call sequence, however it is parsed into a program and a layout *)
Theorem g_denotes_unique a a' : gwf a = true -> gin_range a = true -> gwf a' = true -> gin_range a' = true ->
  grender a = grender a' -> gcalls a = gcalls a'.
Proof.
  intros H1 H2 H3 H4 E. pose proof (g_complete a H1 H2) as Ha. pose proof (g_complete a' H3 H4) as Ha'.
  rewrite E in Ha. rewrite Ha in Ha'. exact (f_equal fst Ha').
Qed.

(* a text that is a well-formed rendering with some field out of range is not ALSO the rendering of an in-range program *)
Theorem g_range_unique a a' : gwf a = true -> gwf a' = true -> grender a = grender a' -> gin_range a = gin_range a'.
Proof.
  intros H1 H3 E. destruct (gin_range a) eqn:Ra, (gin_range a') eqn:Ra'; try reflexivity.
  - pose proof (g_complete a H1 Ra) as Ha. destruct (g_rejects a' H3 Ra') as (cs & ln & Hb). rewrite E in Ha. rewrite Ha in Hb. discriminate Hb.
  - pose proof (g_complete a' H3 Ra') as Ha. destruct (g_rejects a H1 Ra) as (cs & ln & Hb). rewrite E in Hb. rewrite Ha in Hb. discriminate Hb.
Qed.
