(* C03 - which prefixes of an accepted text are themselves accepted: exactly the cuts after a complete step (plus white space
   of what follows), unless the cut splits a number.  The two runs of the reader - on the prefix p and on the whole text
   p ++ q - are followed side by side; the decomposition of the whole text is built from ITS run, and the steps the prefix
   consists of are shown to be the first steps of that decomposition. *)
Require Import V.Lib.Base V.Lib.Calls V.Lib.Dec V.C09.Spec V.Gen.Consts V.Gen.Consts_C01 V.C01.Read V.C01.ProofsPrim
  V.C03.Grammar V.C03.ProofsG1 V.C03.ProofsG2 V.C03.ProofsG3 V.C03.ProofsG4 V.C03.ProofsG5 V.C03.ProofsG7 V.C03.ProofsG8.
Require Import ZifyBool.
Local Open Scope Z_scope.

Lemma cut_ok_same_suffix a b l q : l <> [] -> cut_ok (a ++ l) q -> cut_ok (b ++ l) q.
Proof. intros Hne [H|H]; [left; exact H | right]. rewrite ends_digit_app in * by exact Hne. exact H. Qed.

Lemma not_in_suffix (a l : list Z) : ~ In 0 (a ++ l) -> ~ In 0 l.
Proof. intros H C. apply H. apply in_or_app. right. exact C. Qed.

Definition struct_concl (inc : bool) (r0 q : list Z) : Prop :=
  exists ssp ws ss' trail,
    ssp <> [] /\ r0 = flat_map gstep_r ssp ++ ws /\ forallb is_ws ws = true /\
    r0 ++ q = flat_map gstep_r (ssp ++ ss') ++ trail /\
    gseq_wf gstep_r gstep_wf (ssp ++ ss') trail = true /\ gtrail_ok trail = true /\
    forallb gstep_in (ssp ++ ss') = true /\ (inc = true \/ length (ssp ++ ss') = 1%nat).

Lemma steps_struct q fuel : forall inc s cs, parse_complete fuel inc s = (cs, Ok) ->
  forall fuel' cst, (length fuel <= length fuel')%nat -> parse_complete fuel' inc (xt s q) = (cst, Ok) ->
  forall s0, a_skipws s0 = a_skipws s -> cut_ok (rest s0) q -> ~ In 0 (rest s0) ->
  struct_concl inc (rest s0) q.
Proof.
  induction fuel as [|x f IH]; intros inc s cs H fuel' cst Hf Ht s0 Hs0 Hq Hn0; [discriminate H|].
  destruct fuel' as [|x' f']; [cbn in Hf; lia|].
  cbn [parse_complete] in H, Ht. unfold parse_round, read_step in H, Ht.
  destruct (dirs (0 :: rest s) s) as [cd [[] s1|]] eqn:Ed; [|discriminate H].
  pose proof (dirs_nonempty _ _ _ _ Ed) as Hne.
  (* the entry states s and s0 differ by leading white space only *)
  assert (Hsk : rest (a_skipws s) <> []).
  { intros C. rewrite <- (dirs_skip 0 (rest s) s) in Ed. pose proof (dirs_nonempty _ _ _ _ Ed) as C2. contradiction. }
  destruct (skipws_inv s) as (wa & Ewa & _). destruct (skipws_inv s0) as (wb & Ewb & _). rewrite Hs0 in Ewb.
  assert (Hqs : cut_ok (rest s) q). { rewrite Ewa. rewrite Ewb in Hq. eapply cut_ok_same_suffix; [exact Hsk | exact Hq]. }
  (* the run on the prefix, read from s0 *)
  assert (Ed0 : dirs (0 :: rest s) s0 = (cd, ROk tt s1)).
  { rewrite <- (dirs_skip 0 (rest s) s0), Hs0, dirs_skip. exact Ed. }
  destruct (dirs_inv _ _ _ _ Ed0) as (ds & endl & Er & _ & _ & _ & _).
  (* the run on the whole text *)
  pose proof (last_tok_ok q _ _ _ _ Ed Hqs) as Hlast.
  pose proof (dirs_ext q _ _ _ _ Ed Hlast (0 :: rest (xt s q)) ltac:(cbn [length rest xt]; rewrite app_length; lia)) as Edt.
  rewrite Edt in Ht.
  assert (Edt0 : dirs (0 :: rest (xt s q)) (xt s0 q) = (cd, ROk tt (xt s1 q))).
  { rewrite <- (dirs_skip 0 (rest (xt s q)) (xt s0 q)). rewrite (skipws_ext s0 q) by (rewrite Hs0; exact Hsk). rewrite Hs0.
    rewrite <- (skipws_ext s q Hsk). rewrite dirs_skip. exact Edt. }
  destruct (dirs_inv _ _ _ _ Edt0) as (ds' & endl' & Er' & Hsw' & Hew' & Hin' & _). cbn [rest xt] in Er', Hsw', Hew'.
  set (st' := mkGStep ds' endl').
  assert (Hbytes : rest s0 = gstep_r st' ++ rest s1).
  { unfold gstep_r, st'. cbn [gst_dirs gst_end]. rewrite <- app_assoc. apply (app_inv_tail q). rewrite <- !app_assoc. rewrite <- Er'. reflexivity. }
  assert (Hwf' : gstep_wf st' (rest s1 ++ q) = true).
  { unfold gstep_wf, st'. cbn [gst_dirs gst_end]. rewrite Hsw', Hew'. reflexivity. }
  assert (Hn1 : ~ In 0 (rest s1)). { rewrite Hbytes in Hn0. eapply not_in_suffix. exact Hn0. }
  (* the prefix run after its step *)
  destruct (more (a_skipws s1)) as [m s3] eqn:Em.
  destruct (m && negb inc) eqn:Hmi; [discriminate H|].
  destruct (more s3) as [m2 s4] eqn:Em2.
  assert (Hs3 : s3 = a_skipws s1).
  { pose proof (more_snd (a_skipws s1)) as Hx. rewrite Em in Hx. cbn [snd] in Hx. rewrite Hx. apply skipws_idem. }
  assert (Hmt : m = negb (gtrail_ok (rest s1))).
  { pose proof (more_trail (a_skipws s1)) as Hy. rewrite Em in Hy. cbn [fst] in Hy. rewrite skipws_rest, gtrail_drop in Hy. exact Hy. }
  assert (Hm2 : m2 = m).
  { pose proof (more_trail s3) as Hx. rewrite Em2 in Hx. cbn [fst] in Hx. rewrite Hx, Hs3, skipws_rest, gtrail_drop. symmetry. exact Hmt. }
  subst m2.
  destruct m.
  - (* another step follows in the prefix *)
    destruct (parse_complete f inc s4) as [cs' o] eqn:Ep. injection H as _ ->.
    assert (Hm1 : fst (more s1) = true) by (rewrite more_trail, <- Hmt; reflexivity).
    assert (Esk : a_skipws (xt s1 q) = xt (a_skipws s1) q).
    { pose proof (more_ext s1 q Hm1) as Hx. unfold more in Hx. injection Hx as _ Hx. exact Hx. }
    rewrite Esk in Ht.
    assert (Hma : fst (more (a_skipws s1)) = true) by (rewrite Em; reflexivity).
    rewrite (more_ext _ q Hma), Em in Ht. cbn [snd] in Ht. rewrite Hmi in Ht.
    assert (Hmb : fst (more s3) = true) by (rewrite Em2; reflexivity).
    rewrite (more_ext _ q Hmb), Em2 in Ht. cbn [snd] in Ht.
    destruct (parse_complete f' inc (xt s4 q)) as [cst' ot] eqn:Ept. injection Ht as _ ->.
    assert (Es4 : a_skipws s1 = a_skipws s4).
    { pose proof (more_snd s3) as Hx. rewrite Em2 in Hx. cbn [snd] in Hx. rewrite Hx, Hs3, !skipws_idem. reflexivity. }
    assert (Hne1 : rest s1 <> []). { intros C. rewrite C in Hmt. discriminate Hmt. }
    assert (Hq1 : cut_ok (rest s1) q). { rewrite Hbytes in Hq. eapply cut_ok_suffix; [exact Hne1 | exact Hq]. }
    destruct (IH _ _ _ Ep f' cst' ltac:(cbn [length] in Hf; lia) Ept s1 Es4 Hq1 Hn1)
      as (ssp & ws & ss' & trail & Hnp & E1 & Hws & E2 & Hwf & Htr & Hok & Hcnt).
    exists (st' :: ssp), ws, ss', trail. cbn [app flat_map gseq_wf forallb length].
    split; [discriminate|]. split; [rewrite Hbytes, E1, <- app_assoc; reflexivity|]. split; [exact Hws|].
    split; [rewrite Hbytes, <- !app_assoc, <- E2; reflexivity|].
    split; [rewrite <- E2, Hwf', Hwf; reflexivity|]. split; [exact Htr|].
    split; [unfold gstep_in at 1, st'; cbn [gst_dirs]; rewrite Hin', Hok; reflexivity|].
    left. destruct inc; [reflexivity | discriminate Hmi].
  - (* the last step of the prefix: what is left of the prefix is white space *)
    clear H.
    assert (Hws : forallb is_ws (rest s1) = true).
    { apply trail_ws; [|exact Hn1]. destruct (gtrail_ok (rest s1)); [reflexivity | discriminate Hmt]. }
    destruct (more (a_skipws (xt s1 q))) as [ma sa] eqn:Ea.
    destruct (ma && negb inc) eqn:Hmai; [discriminate Ht|].
    destruct (more sa) as [mb sb] eqn:Eb.
    assert (Hsa : sa = a_skipws (xt s1 q)).
    { pose proof (more_snd (a_skipws (xt s1 q))) as Hx. rewrite Ea in Hx. cbn [snd] in Hx. rewrite Hx. apply skipws_idem. }
    assert (Hmat : ma = negb (gtrail_ok (rest s1 ++ q))).
    { pose proof (more_trail (a_skipws (xt s1 q))) as Hy. rewrite Ea in Hy. cbn [fst] in Hy. rewrite skipws_rest, gtrail_drop in Hy. exact Hy. }
    assert (Hmbt : mb = ma).
    { pose proof (more_trail sa) as Hx. rewrite Eb in Hx. cbn [fst] in Hx. rewrite Hx, Hsa, skipws_rest, gtrail_drop. symmetry. exact Hmat. }
    subst mb. destruct ma.
    + (* the whole text goes on with further steps *)
      destruct (parse_complete f' inc sb) as [cst3 o3] eqn:Ep3. injection Ht as _ ->.
      assert (Esb : a_skipws (xt s1 q) = a_skipws sb).
      { pose proof (more_snd sa) as Hx. rewrite Eb in Hx. cbn [snd] in Hx. rewrite Hx, Hsa, !skipws_idem. reflexivity. }
      destruct (steps_inv _ _ _ _ Ep3 (xt s1 q) Esb) as (ss' & trail & _ & Er3 & Hss & Htr & Hok & _ & _). cbn [rest xt] in Er3.
      exists [st'], (rest s1), ss', trail. cbn [app flat_map gseq_wf forallb length].
      split; [discriminate|]. split; [rewrite app_nil_r; exact Hbytes|]. split; [exact Hws|].
      split; [rewrite Hbytes, <- !app_assoc, Er3; reflexivity|].
      split; [rewrite <- Er3, Hwf', Hss; reflexivity|]. split; [exact Htr|].
      split; [unfold gstep_in at 1, st'; cbn [gst_dirs]; rewrite Hin', Hok; reflexivity|].
      left. destruct inc; [reflexivity | discriminate Hmai].
    + (* the whole text ends here too *)
      exists [st'], (rest s1), [], (rest s1 ++ q). cbn [app flat_map gseq_wf forallb length].
      split; [discriminate|]. split; [rewrite app_nil_r; exact Hbytes|]. split; [exact Hws|].
      split; [rewrite Hbytes, <- !app_assoc; reflexivity|].
      split; [rewrite Hwf'; reflexivity|].
      split; [destruct (gtrail_ok (rest s1 ++ q)); [reflexivity | discriminate Hmat]|].
      split; [unfold gstep_in, st'; cbn [gst_dirs]; rewrite Hin'; reflexivity|]. right. reflexivity.
Qed.

(* THE PREFIX THEOREM: if a text and a prefix of it are both accepted (the cut not splitting a number, no NUL in the prefix),
   then the prefix is the text cut after one of its steps, plus white space *)
Theorem g_accepted_prefix p q cs csp : read_all (p ++ q) = (cs, Ok) -> read_all p = (csp, Ok) ->
  cut_in_number p q = false -> ~ In 0 p ->
  exists a j ws, gwf a = true /\ gin_range a = true /\ p ++ q = grender a /\
    (1 <= j <= length (gp_steps a))%nat /\ forallb is_ws ws = true /\
    p = ghdr_r (gp_hdr a) ++ flat_map gstep_r (firstn j (gp_steps a)) ++ ws.
Proof.
  unfold read_all, read_with. intros Ht Hp Hq Hn0.
  destruct (read_header (a_init p)) as [ch [[inc|] s|]] eqn:Eh; try discriminate Hp.
  destruct (parse_complete (0 :: rest s) inc s) as [cs' o] eqn:Ep. injection Hp as _ ->.
  assert (Hne : rest s <> []).
  { cbn [parse_complete] in Ep. unfold parse_round, read_step in Ep.
    destruct (dirs (0 :: rest s) s) as [cd [[] s1|]] eqn:Ed; [eapply dirs_nonempty; exact Ed | discriminate Ep]. }
  pose proof (header_ext p q _ _ _ Eh Hne) as Eht. rewrite Eht in Ht.
  destruct (parse_complete (0 :: rest (xt s q)) inc (xt s q)) as [cst ot] eqn:Ept. injection Ht as _ ->.
  destruct (header_inv _ _ _ _ Eh) as (h0 & Et0 & _).
  destruct (header_inv _ _ _ _ Eht) as (h & Et & Hh & Hrev & Hinc & _). cbn [rest xt] in Et, Hh.
  assert (Ehh : ghdr_r h = ghdr_r h0).
  { apply (app_inv_tail (rest s ++ q)). rewrite <- Et, Et0 at 1. rewrite <- app_assoc. reflexivity. }
  assert (Hqs : cut_ok (rest s) q).
  { apply (cut_ok_suffix (ghdr_r h0)); [exact Hne|]. rewrite <- Et0.
    unfold cut_in_number in Hq. unfold cut_ok. destruct (stops q); [left; reflexivity | right]. rewrite andb_true_r in Hq. exact Hq. }
  assert (Hns : ~ In 0 (rest s)). { rewrite Et0 in Hn0. eapply not_in_suffix. exact Hn0. }
  destruct (steps_struct q _ _ _ _ Ep (0 :: rest (xt s q)) cst ltac:(cbn [length rest xt]; rewrite app_length; lia) Ept s eq_refl Hqs Hns)
    as (ssp & ws & ss' & trail & Hnp & E1 & Hws & E2 & Hwf & Htr & Hok & Hcnt).
  exists (mkGProg h (ssp ++ ss') trail), (length ssp), ws.
  unfold gwf, gin_range, grender. cbn [gp_hdr gp_steps gp_trail].
  split. { rewrite <- E2, Hh, Hwf, Htr. reflexivity. }
  split. { rewrite Hrev, Hok, Hinc. cbn [andb]. destruct (ssp ++ ss') as [|s1 [|s2 r]] eqn:Ess.
           - destruct ssp; [congruence | discriminate Ess].
           - reflexivity.
           - destruct Hcnt as [->|C]; [reflexivity | discriminate C]. }
  split. { rewrite Et, E2. reflexivity. }
  split. { rewrite app_length. destruct ssp; [congruence | cbn [length]; lia]. }
  split; [exact Hws|].
  rewrite firstn_app, Nat.sub_diag, firstn_all. cbn [firstn]. rewrite app_nil_r. rewrite Ehh, <- E1. exact Et0.
Qed.
