(* C03 - truncation / extension.  A successful parse that did not run into the end of the input is not changed by
   appending bytes (ext); a number token at the very end is not changed either as long as the appended bytes do not
   continue its digit run.  Hence: the calls of an accepted text are a prefix of the calls of every such extension,
   and an accepted single-shot text cannot be a proper prefix of another accepted text except for trailing white
   space (g_truncated). *)
Require Import V.Lib.Base V.Lib.Calls V.Lib.Dec V.C09.Spec V.Gen.Consts V.Gen.Consts_C01 V.C01.Read V.C01.ProofsPrim
  V.C03.Grammar V.C03.ProofsG1 V.C03.ProofsG2 V.C03.ProofsG3 V.C03.ProofsG4 V.C03.ProofsG5.
Require V.C03.ProofsInv.
Require Import ZifyBool.
Local Open Scope Z_scope.

Definition xt (s : ast) (q : list Z) : ast := amk (rest s ++ q) (aline s).

Definition ext {A} (P : parser A) : Prop := forall s a s', P s = ROk a s' ->
  (length (rest s') <= length (rest s))%nat /\ (rest s' <> [] -> forall q, P (xt s q) = ROk a (xt s' q)).

Lemma len_nonempty {X} (a b : list X) : (length a <= length b)%nat -> a <> [] -> b <> [].
Proof. intros H Ha ->. destruct a; [congruence | cbn in H; lia]. Qed.

Lemma ext_bind {A B} (P : parser A) (f : A -> parser B) : ext P -> (forall a, ext (f a)) -> ext (bind P f).
Proof.
  intros HP Hf s b s' H. apply bind_inv in H. destruct H as (a & s1 & E1 & E2).
  destruct (HP _ _ _ E1) as [L1 X1]. destruct (Hf a _ _ _ E2) as [L2 X2].
  split; [lia|]. intros Hne q. unfold bind. rewrite (X1 (len_nonempty _ _ L2 Hne) q). apply X2. exact Hne.
Qed.
Lemma ext_ret {A} (a : A) : ext (ret a).
Proof. intros s b s' H. apply ret_inv in H. destruct H as [<- <-]. split; [lia|]. reflexivity. Qed.
Lemma ext_fail {A} : ext (@fail_here A).
Proof. intros s b s' H. discriminate H. Qed.

(* ---------------------------------------------------------------- primitives *)
Lemma skipws_ext_l q n : forall l ln, (length l <= n)%nat -> rest (a_skipws_l l ln) <> [] ->
  a_skipws_l (l ++ q) ln = amk (rest (a_skipws_l l ln) ++ q) (aline (a_skipws_l l ln)).
Proof.
  induction n as [|n IH]; intros l ln Hl Hne.
  - destruct l; [cbn in Hne; congruence | cbn in Hl; lia].
  - destruct l as [|c r]; [cbn in Hne; congruence|].
    destruct (is_ws c) eqn:Hc.
    + destruct (Z.eqb_spec c 13) as [->|N13].
      * destruct r as [|c2 r2]; [cbn in Hne; congruence|].
        destruct (Z.eq_dec c2 10) as [->|Hn10].
        -- cbn [app]. rewrite !skipws_crlf in *. apply IH; [cbn [length] in *; lia | exact Hne].
        -- cbn [app]. rewrite (skipws_cr (c2 :: r2) ln) in Hne |- * by (cbn [hd]; exact Hn10).
           rewrite (skipws_cr (c2 :: r2 ++ q) ln) by (cbn [hd]; exact Hn10).
           apply (IH (c2 :: r2)); [cbn [length] in *; lia | exact Hne].
      * cbn [app a_skipws_l] in *. rewrite Hc in *. assert (E13 : (c =? 13) = false) by lia. rewrite E13 in *.
        apply IH; [cbn [length] in *; lia | exact Hne].
    + cbn [app a_skipws_l] in *. rewrite Hc in *. reflexivity.
Qed.
Lemma skipws_ext s q : rest (a_skipws s) <> [] -> a_skipws (xt s q) = xt (a_skipws s) q.
Proof. unfold a_skipws, xt. cbn [rest aline]. intros H. apply (skipws_ext_l q (length (rest s))); [lia | exact H]. Qed.

Lemma digits_ext q l : forall res good r' g' l2, a_digits l res good = (r', g', l2) -> (l2 <> [] \/ stops q = true) ->
  a_digits (l ++ q) res good = (r', g', l2 ++ q).
Proof.
  induction l as [|c r IH]; intros res good r' g' l2 E Hq.
  - cbn in E. injection E as <- <- <-. destruct Hq as [C|Hq]; [congruence|]. cbn [app].
    destruct q as [|c q']; [reflexivity|]. cbn [stops] in Hq. cbn [a_digits]. destruct (is_digit c); [discriminate Hq | reflexivity].
  - cbn [app a_digits] in *. destruct (is_digit c).
    + destruct (good && (res <=? (INT64_MAX - to_digit c) / 10)); apply IH; assumption.
    + injection E as <- <- <-. reflexivity.
Qed.

Lemma match_int_ext s z s' q : a_match_int false s = (Some z, s') -> (rest s' <> [] \/ stops q = true) ->
  a_match_int false (xt s q) = (Some z, xt s' q).
Proof.
  unfold a_match_int. intros E Hq. set (s0 := a_skipws s) in *.
  assert (Hne0 : rest s0 <> []).
  { intros C. unfold a_peek in E. rewrite C in E. cbn in E. discriminate E. }
  rewrite (skipws_ext s q Hne0). fold s0.
  destruct (rest s0) as [|c0 r0] eqn:Er0; [congruence|].
  assert (Hpk : a_peek (xt s0 q) = a_peek s0). { unfold a_peek, xt. cbn [rest]. rewrite Er0. reflexivity. }
  rewrite Hpk. unfold a_peek in *. rewrite Er0 in *. unfold xt. cbn [rest aline]. rewrite Er0. fold (xt s' q).
  assert (Hcore : forall l1 (sgn : bool),
            (match l1 with
             | c :: r => if is_digit c then let '(res, good, l2) := a_digits r (to_digit c) true in
                           (if good then Some (if sgn then - res else res) else None, amk l2 (aline s0))
                         else (None, amk l1 (aline s0))
             | [] => (None, amk [] (aline s0)) end) = (Some z, s') ->
            (match l1 ++ q with
             | c :: r => if is_digit c then let '(res, good, l2) := a_digits r (to_digit c) true in
                           (if good then Some (if sgn then - res else res) else None, amk l2 (aline s0))
                         else (None, amk (l1 ++ q) (aline s0))
             | [] => (None, amk [] (aline s0)) end) = (Some z, xt s' q)).
  { intros l1 sgn Em. destruct l1 as [|c r]; [discriminate Em|]. cbn [app]. destruct (is_digit c); [|discriminate Em].
    destruct (a_digits r (to_digit c) true) as [[res good] l2] eqn:Ed. destruct good; [|discriminate Em].
    injection Em as Ez Es. subst s'. cbn [rest] in Hq. rewrite (digits_ext q r _ _ _ _ _ Ed Hq). rewrite Ez. reflexivity. }
  destruct ((c0 =? 43) || (c0 =? 45)) eqn:Esg.
  - cbn [app tl] in *. apply Hcore. exact E.
  - apply (Hcore (c0 :: r0)). exact E.
Qed.

Lemma range_ext_strong lo hi s v s' q : m_range lo hi s = ROk v s' -> (rest s' <> [] \/ stops q = true) ->
  m_range lo hi (xt s q) = ROk v (xt s' q).
Proof.
  unfold m_range. destruct (a_match_int false s) as [[z|] s1] eqn:E; [|discriminate].
  destruct ((lo <=? z) && (z <=? hi)) eqn:Hr; [|discriminate]. intros H Hq. injection H as <- <-.
  rewrite (match_int_ext _ _ _ q E Hq), Hr. reflexivity.
Qed.
Lemma ext_range lo hi : ext (m_range lo hi).
Proof.
  intros s v s' H. split.
  - destruct (range_inv _ _ _ _ _ H) as (t & Et & _). rewrite Et, app_length. lia.
  - intros Hne q. apply range_ext_strong; auto.
Qed.
Lemma ext_lit : ext m_lit.
Proof.
  intros s v s' H. split.
  - destruct (lit_inv _ _ _ H) as (t & Et & _). rewrite Et, app_length. lia.
  - intros Hne q. unfold m_lit in *. destruct (a_match_int false s) as [[z|] s1] eqn:E; [|discriminate].
    match type of H with (if ?b then _ else _) = _ => destruct b eqn:Hr end; [|discriminate]. injection H as <- <-.
    rewrite (match_int_ext _ _ _ q E (or_introl Hne)), Hr. reflexivity.
Qed.

Lemma ext_rep_pos {A} (elem : parser A) p : ext elem -> ext (rep_pos elem p).
Proof.
  intros He. induction p as [p IH|p IH|]; cbn [rep_pos].
  - apply ext_bind; [exact He|]. intros x. apply ext_bind; [exact IH|]. intros l1. apply ext_bind; [exact IH|]. intros l2. apply ext_ret.
  - apply ext_bind; [exact IH|]. intros l1. apply ext_bind; [exact IH|]. intros l2. apply ext_ret.
  - apply ext_bind; [exact He|]. intros x. apply ext_ret.
Qed.
Lemma ext_rep {A} (elem : parser A) n : ext elem -> ext (rep elem n).
Proof. intros He. destruct n; cbn [rep]; [apply ext_ret | apply ext_rep_pos; exact He | apply ext_ret]. Qed.
Lemma ext_count_list {A} (elem : parser A) : ext elem -> ext (n <- m_count ;; rep elem n).
Proof. intros He. apply ext_bind; [apply ext_range|]. intros n. apply ext_rep. exact He. Qed.
Lemma ext_atoms : ext m_atoms. Proof. apply ext_count_list. apply ext_range. Qed.
Lemma ext_ids : ext m_ids. Proof. apply ext_count_list. apply ext_range. Qed.
Lemma ext_lits : ext m_lits. Proof. apply ext_count_list. apply ext_lit. Qed.
Lemma ext_wlit minw : ext (m_wlit minw).
Proof. unfold m_wlit. apply ext_bind; [apply ext_lit|]. intros l. apply ext_bind; [apply ext_range|]. intros w. apply ext_ret. Qed.
Lemma ext_wlits minw : ext (m_wlits minw).
Proof.
  unfold m_wlits. apply ext_bind; [apply ext_range|]. intros n. apply ext_bind; [apply ext_rep; apply ext_wlit|]. intros l. apply ext_ret.
Qed.

Lemma get_ext s q : rest (snd (a_get s)) <> [] -> a_get (xt s q) = (fst (a_get s), xt (snd (a_get s)) q).
Proof.
  destruct s as [l ln]. unfold xt. cbn [rest aline]. destruct l as [|c r]; [cbn; congruence|].
  destruct (Z.eqb_spec c 13) as [->|N13].
  - destruct r as [|c2 r2]; [cbn; congruence|].
    destruct (Z.eq_dec c2 10) as [->|Hn10]; [intros _; reflexivity|].
    rewrite get_cr by (cbn [hd]; exact Hn10). cbn [app]. rewrite get_cr by (cbn [app hd]; exact Hn10). intros _. reflexivity.
  - intros _. unfold a_get. cbn [rest aline app]. assert (E : (c =? 13) = false) by lia. rewrite E. destruct (c =? 10); reflexivity.
Qed.

Lemma firstn_app_le {X} n (l q : list X) : (n <= length l)%nat -> firstn n (l ++ q) = firstn n l.
Proof. intros H. rewrite firstn_app. replace (n - length l)%nat with 0%nat by lia. cbn [firstn]. apply app_nil_r. Qed.
Lemma skipn_app_le {X} n (l q : list X) : (n <= length l)%nat -> skipn n (l ++ q) = skipn n l ++ q.
Proof. intros H. rewrite skipn_app. replace (n - length l)%nat with 0%nat by lia. reflexivity. Qed.

Lemma ext_string : ext m_string.
Proof.
  intros s bs s' H. split.
  - pose proof (V.C03.ProofsInv.good_string s) as G. rewrite H in G. destruct G as [_ G]. unfold V.C03.ProofsInv.step_ok in G. lia.
  - intros Hne q. unfold m_string in *. apply bind_inv in H. destruct H as (len & s1 & El & H).
    unfold m_pos in El. destruct (range_inv _ _ _ _ _ El) as (t & _ & _ & Rt & Vt). unfold grng in Rt. rewrite Vt in Rt.
    destruct (copy_k len (snd (a_get s1))) as [[n cp] s2] eqn:Ec.
    destruct (Z.eqb_spec n len) as [->|]; [|discriminate]. injection H as <- <-.
    rewrite copy_k_eq in Ec by lia. unfold a_copy in Ec. destruct (Z.ltb_spec len 0); [lia|].
    injection Ec as En Ecp Es2.
    set (s1' := snd (a_get s1)) in *.
    assert (Hk : (Z.to_nat len <= length (rest s1'))%nat).
    { pose proof En as En'. rewrite firstn_length in En'. lia. }
    assert (Hne1' : rest s1' <> []).
    { intros C. rewrite <- Es2 in Hne. cbn [rest] in Hne. rewrite C in Hne. destruct (Z.to_nat len); cbn in Hne; congruence. }
    assert (Hne1 : rest s1 <> []).
    { pose proof (V.C03.ProofsInv.get_ok s1) as G. unfold V.C03.ProofsInv.step_ok in G. fold s1' in G. apply (len_nonempty (rest s1')); [lia | exact Hne1']. }
    unfold bind, m_pos. rewrite (range_ext_strong _ _ _ _ _ q El (or_introl Hne1)).
    rewrite (get_ext s1 q Hne1'). cbn [snd]. fold s1'.
    rewrite copy_k_eq by lia. unfold a_copy. destruct (Z.ltb_spec len 0); [lia|].
    unfold xt. cbn [rest aline]. rewrite !firstn_app_le by exact Hk. rewrite skipn_app_le by exact Hk.
    rewrite En, Z.eqb_refl. rewrite <- Es2. cbn [rest aline]. rewrite Ecp. reflexivity.
Qed.

Lemma skip_line_ext q fuel : forall s fuel', (length (rest s) <= length fuel)%nat -> (length (rest s ++ q) <= length fuel')%nat ->
  rest (skip_line_f fuel s) <> [] -> skip_line_f fuel' (xt s q) = xt (skip_line_f fuel s) q.
Proof.
  induction fuel as [|x f IH]; intros s fuel' Hl Hl' Hne.
  - cbn [skip_line_f] in Hne. destruct (rest s); [congruence | cbn in Hl; lia].
  - destruct (rest s) as [|c r] eqn:Er.
    + cbn [skip_line_f] in Hne. unfold a_peek in Hne. rewrite Er in Hne. cbn in Hne. congruence.
    + destruct fuel' as [|x' f']; [rewrite app_length in Hl'; cbn in Hl'; lia|].
      cbn [skip_line_f] in *. assert (Hpk : a_peek (xt s q) = a_peek s) by (unfold a_peek, xt; cbn [rest]; rewrite Er; reflexivity).
      rewrite Hpk. destruct (a_peek s =? 0); [reflexivity|].
      pose proof (V.C03.ProofsInv.get_ok s) as G. unfold V.C03.ProofsInv.step_ok in G.
      destruct (a_get s) as [c1 s1] eqn:Eg. cbn [snd] in G.
      assert (Hne1 : rest s1 <> []).
      { destruct (c1 =? 10); [exact Hne|]. pose proof (V.C03.ProofsInv.skip_line_ok f s1) as G2. unfold V.C03.ProofsInv.step_ok in G2.
        apply (len_nonempty (rest (skip_line_f f s1))); [lia | exact Hne]. }
      pose proof (get_ext s q) as Hg. rewrite Eg in Hg. cbn [fst snd] in Hg. rewrite (Hg Hne1).
      destruct (c1 =? 10); [reflexivity|].
      assert (Hlt : (length (rest s1) < length (rest s))%nat).
      { destruct (get_inv s ltac:(rewrite Er; discriminate)) as (sep & Esep & Hsep & _). rewrite Eg in Esep, Hsep. cbn [snd] in *.
        rewrite Esep, app_length. unfold one_get in Hsep. destruct sep as [|? [|? [|]]]; try discriminate; cbn [length]; lia. }
      rewrite Er in Hlt. cbn [length] in Hl, Hlt.
      apply IH; [lia | | exact Hne]. unfold xt. cbn [rest]. rewrite !app_length in *. cbn [length] in *. lia.
Qed.
Lemma ext_skip_line : ext skip_line.
Proof.
  intros s [] s' H. unfold skip_line in H. injection H as <-. split.
  - pose proof (V.C03.ProofsInv.skip_line_ok (rest s) s) as G. unfold V.C03.ProofsInv.step_ok in G. lia.
  - intros Hne q. unfold skip_line. f_equal. cbn [rest xt]. apply skip_line_ext; [lia | cbn [rest]; lia | exact Hne].
Qed.

Ltac ext_leaf := first [ apply ext_range | apply ext_lit | apply ext_atoms | apply ext_lits | apply ext_ids | apply ext_wlits
                       | apply ext_string | apply ext_skip_line ].
Ltac solve_ext := repeat first
    [ match goal with |- ext (if ?b then _ else _) => destruct b end
    | apply ext_ret | apply ext_fail
    | (apply ext_bind; [ext_leaf | intros ?]) ].

Lemma ext_theory : ext theory.
Proof. unfold theory. solve_ext. Qed.
Lemma ext_directive rt : ext (directive rt).
Proof.
  unfold directive.
  repeat match goal with |- ext (if ?b then _ else _) => destruct b end.
  all: try solve [solve_ext].
  apply ext_bind; [apply ext_theory | intros c; apply ext_ret].
Qed.
