(* C03 - general description, continued: inversion of counted lists, raw strings, comment lines;
   the comment line forward. *)
Require Import V.Lib.Base V.Lib.Calls V.Lib.Dec V.C09.Spec V.Gen.Consts V.Gen.Consts_C01 V.C01.Read V.C01.ProofsPrim V.C03.Grammar V.C03.ProofsG1.
Require Import ZifyBool.
Local Open Scope Z_scope.

Lemma bind_inv {A B} (P : parser A) (f : A -> parser B) s b s' :
  bind P f s = ROk b s' -> exists a s1, P s = ROk a s1 /\ f a s1 = ROk b s'.
Proof. unfold bind. destruct (P s) as [a s1|]; [eauto | discriminate]. Qed.
Lemma ret_inv {A} (a b : A) s s' : ret a s = ROk b s' -> a = b /\ s = s'.
Proof. unfold ret. intros H. injection H as -> ->. auto. Qed.

(* ---------------------------------------------------------------- counted lists, backward *)
Section ListBwd.
Context {A X : Type} (elem : parser A) (relem : X -> list Z) (welem : X -> list Z -> bool) (okf : X -> bool) (valf : X -> A).
Hypothesis Hinv : forall s a s', elem s = ROk a s' ->
  exists x, rest s = relem x ++ rest s' /\ welem x (rest s') = true /\ okf x = true /\ valf x = a.

Lemma rep_nat_inv n : forall s l s', rep_nat elem n s = ROk l s' ->
  exists xs, length xs = n /\ rest s = flat_map relem xs ++ rest s' /\ gseq_wf relem welem xs (rest s') = true /\
             forallb okf xs = true /\ map valf xs = l.
Proof.
  induction n as [|n IH]; intros s l s' H.
  - cbn [rep_nat] in H. apply ret_inv in H. destruct H as [<- <-]. exists []. repeat split.
  - cbn [rep_nat] in H. apply bind_inv in H. destruct H as (a & s1 & Ea & H).
    apply bind_inv in H. destruct H as (l1 & s2 & El & H). apply ret_inv in H. destruct H as [<- <-].
    destruct (IH _ _ _ El) as (xs & Hlen & Er & Hw & Hok & Hv).
    destruct (Hinv _ _ _ Ea) as (x & Erx & Hwx & Hokx & Hvx).
    exists (x :: xs). cbn [length flat_map gseq_wf forallb map].
    split; [lia|]. split; [rewrite Erx, Er, app_assoc; reflexivity|].
    split; [rewrite <- Er, Hwx, Hw; reflexivity|]. split; [rewrite Hokx, Hok; reflexivity|]. rewrite Hvx, Hv. reflexivity.
Qed.

Lemma list_inv s l s' : (n <- m_count ;; rep elem n) s = ROk l s' ->
  exists cl xs, rest s = gnum cl (Z.of_nat (length xs)) ++ flat_map relem xs ++ rest s' /\
    gnum_wf cl (Z.of_nat (length xs)) (flat_map relem xs ++ rest s') = true /\ gseq_wf relem welem xs (rest s') = true /\
    gr_count xs = true /\ forallb okf xs = true /\ map valf xs = l.
Proof.
  intros H. apply bind_inv in H. destruct H as (n & s1 & En & H).
  unfold m_count, m_pos in En. destruct (range_inv _ _ _ _ _ En) as (t & Et & Hwt & Hrt & Hvt).
  unfold grng in Hrt. rewrite Hvt in Hrt.
  rewrite rep_is_loop in H by lia.
  destruct (rep_nat_inv _ _ _ _ H) as (xs & Hlen & Er & Hw & Hok & Hv).
  assert (Hn : Z.of_nat (length xs) = n) by lia.
  exists (fst t), xs. rewrite Hn.
  split. { rewrite Et, Er. unfold gtok_r. rewrite Hvt. reflexivity. }
  split. { rewrite <- Er. unfold gtok_wf in Hwt. rewrite Hvt in Hwt. exact Hwt. }
  split; [exact Hw|]. split; [unfold gr_count, GU_MAX, UINT_MAX in *; lia|]. auto.
Qed.
End ListBwd.

Lemma tlist_range_inv lo hi s l s' : (n <- m_count ;; rep (m_range lo hi) n) s = ROk l s' ->
  exists tl : gtlist, rest s = gtlist_r tl ++ rest s' /\ gtlist_wf tl (rest s') = true /\ gr_list (grng lo hi) tl = true /\ gvals tl = l.
Proof.
  intros H.
  destruct (list_inv (m_range lo hi) gtok_r gtok_wf (grng lo hi) snd (range_inv lo hi) _ _ _ H) as (cl & xs & Er & Hc & Hw & Hcnt & Hok & Hv).
  exists (cl, xs). unfold gtlist_r, gtlist_wf, gr_list, gvals. cbn [fst snd].
  rewrite <- app_assoc. rewrite Hc, Hw, Hcnt, Hok. auto.
Qed.
Lemma atoms_inv s l s' : m_atoms s = ROk l s' ->
  exists tl : gtlist, rest s = gtlist_r tl ++ rest s' /\ gtlist_wf tl (rest s') = true /\ gr_list gr_atom tl = true /\ gvals tl = l.
Proof. apply (tlist_range_inv 1 GI_MAX). Qed.
Lemma ids_inv s l s' : m_ids s = ROk l s' ->
  exists tl : gtlist, rest s = gtlist_r tl ++ rest s' /\ gtlist_wf tl (rest s') = true /\ gr_list gr_id tl = true /\ gvals tl = l.
Proof. apply (tlist_range_inv 0 GU_MAX). Qed.
Lemma lits_inv s l s' : m_lits s = ROk l s' ->
  exists tl : gtlist, rest s = gtlist_r tl ++ rest s' /\ gtlist_wf tl (rest s') = true /\ gr_list gr_lit tl = true /\ gvals tl = l.
Proof.
  intros H.
  destruct (list_inv m_lit gtok_r gtok_wf gr_lit snd lit_inv _ _ _ H) as (cl & xs & Er & Hc & Hw & Hcnt & Hok & Hv).
  exists (cl, xs). unfold gtlist_r, gtlist_wf, gr_list, gvals. cbn [fst snd].
  rewrite <- app_assoc. rewrite Hc, Hw, Hcnt, Hok. auto.
Qed.

Lemma wlit_inv minw s p s' : m_wlit minw s = ROk p s' ->
  exists x : gwpair, rest s = gwpair_r x ++ rest s' /\ gwpair_wf x (rest s') = true /\ gr_wpair minw x = true /\ gwval x = p.
Proof.
  unfold m_wlit. intros H. apply bind_inv in H. destruct H as (l & s1 & El & H).
  apply bind_inv in H. destruct H as (w & s2 & Ew & H). apply ret_inv in H. destruct H as [<- <-].
  destruct (lit_inv _ _ _ El) as (t1 & E1 & W1 & R1 & V1). destruct (range_inv _ _ _ _ _ Ew) as (t2 & E2 & W2 & R2 & V2).
  exists (t1, t2). unfold gwpair_r, gwpair_wf, gr_wpair, gwval. cbn [fst snd].
  split; [rewrite E1, E2, app_assoc; reflexivity|]. split; [rewrite <- E2, W1, W2; reflexivity|].
  split; [unfold INT_MAX in R2; unfold GI_MAX; rewrite R1, R2; reflexivity|]. rewrite V1, V2. reflexivity.
Qed.

Lemma wlits_inv minw s l s' : m_wlits minw s = ROk l s' ->
  exists wl : gwlist, rest s = gwlist_r wl ++ rest s' /\ gwlist_wf wl (rest s') = true /\ gr_wlist minw wl = true /\ gwvals wl = l.
Proof.
  unfold m_wlits. intros H.
  assert (H' : exists l0, (n <- m_count ;; rep (m_wlit minw) n) s = ROk l0 s' /\ l = filter nonzero_w l0).
  { unfold bind in *. destruct (m_count s) as [n s1|]; [|discriminate].
    destruct (rep (m_wlit minw) n s1) as [l0 s2|]; [|discriminate]. apply ret_inv in H. destruct H as [<- <-]. eauto. }
  destruct H' as (l0 & H0 & ->).
  destruct (list_inv (m_wlit minw) gwpair_r gwpair_wf (gr_wpair minw) gwval (wlit_inv minw) _ _ _ H0) as (cl & xs & Er & Hc & Hw & Hcnt & Hok & Hv).
  exists (cl, xs). unfold gwlist_r, gwlist_wf, gr_wlist, gwvals. cbn [fst snd].
  rewrite <- app_assoc. rewrite Hc, Hw, Hcnt, Hok, Hv. auto.
Qed.

(* ---------------------------------------------------------------- one get(), raw strings, backward *)
Lemma get_inv s : rest s <> [] ->
  exists sep, rest s = sep ++ rest (snd (a_get s)) /\ one_get sep (rest (snd (a_get s))) = true /\
              fst (a_get s) = (if (hd 0 sep =? 13) || (hd 0 sep =? 10) then 10 else hd 0 sep).
Proof.
  destruct s as [l ln]. cbn [rest]. intros Hne. destruct l as [|c r]; [congruence|].
  destruct (Z.eqb_spec c 13) as [->|N13].
  - destruct r as [|c2 r2].
    + exists [13]. cbn. auto.
    + destruct (Z.eq_dec c2 10) as [->|Hn10].
      * exists [13; 10]. cbn. auto.
      * rewrite get_cr by (cbn [hd]; exact Hn10). exists [13]. cbn [snd fst rest app one_get hd].
        split; [reflexivity|]. split; [|reflexivity]. cbn [negb orb]. lia.
  - exists [c]. unfold a_get. cbn [rest aline]. assert (E : (c =? 13) = false) by lia. rewrite E.
    destruct (Z.eqb_spec c 10) as [->|N10]; cbn [snd fst rest app one_get hd].
    + auto.
    + rewrite E. cbn [negb orb]. assert (E10 : (c =? 10) = false) by lia. rewrite E10. auto.
Qed.

Lemma gnum_nonempty l v y : gnum l v ++ y <> [].
Proof.
  unfold gnum. pose proof (print_nat_nonempty (Z.abs v) (Z.abs_nonneg v)) as Hne.
  intros C. apply app_eq_nil in C. destruct C as [C _]. apply app_eq_nil in C. destruct C as [_ C].
  apply app_eq_nil in C. destruct C as [_ C]. apply app_eq_nil in C. destruct C as [_ C]. congruence.
Qed.

Lemma string_inv s bs s' : m_string s = ROk bs s' -> rest s' <> [] ->
  exists str : gstr, rest s = gstr_r str ++ rest s' /\ gstr_wf str (rest s') = true /\ gr_str str = true /\ gs_bytes str = bs.
Proof.
  unfold m_string. intros H Hne. apply bind_inv in H. destruct H as (len & s1 & El & H).
  unfold m_pos in El. destruct (range_inv _ _ _ _ _ El) as (t & Et & Wt & Rt & Vt).
  unfold grng in Rt. rewrite Vt in Rt.
  destruct (copy_k len (snd (a_get s1))) as [[n cp] s2] eqn:Ec.
  destruct (Z.eqb_spec n len) as [->|]; [|discriminate]. injection H as <- <-.
  rewrite copy_k_eq in Ec by lia. unfold a_copy in Ec. destruct (Z.ltb_spec len 0); [lia|].
  injection Ec as En Ecp Es2.
  set (s1' := snd (a_get s1)) in *.
  assert (Hsplit : rest s1' = cp ++ rest s2).
  { rewrite <- Ecp, <- Es2. cbn [rest]. symmetry. apply firstn_skipn. }
  assert (Hne1 : rest s1 <> []).
  { intros C. assert (Hnil : rest s1' = []).
    { unfold s1', a_get. rewrite C. cbn [snd]. exact C. }
    rewrite Hnil in Hsplit. symmetry in Hsplit. apply app_eq_nil in Hsplit. tauto. }
  destruct (get_inv s1 Hne1) as (sep & Esep & Hsep & _). fold s1' in Esep, Hsep.
  assert (Hlen : Z.of_nat (length cp) = len) by (rewrite <- Ecp; exact En).
  exists (mkGStr (fst t) sep cp). unfold gstr_r, gstr_wf, gr_str. cbn [gs_lay gs_sep gs_bytes]. rewrite Hlen.
  split. { rewrite Et, Esep, Hsplit. unfold gtok_r. rewrite Vt. repeat rewrite <- app_assoc. reflexivity. }
  split. { rewrite <- Hsplit, <- Esep, Hsep. unfold gtok_wf in Wt. rewrite Vt in Wt. rewrite Wt. reflexivity. }
  split; [unfold STR_MAX, rd_str_max, GI_MAX in *; lia | reflexivity].
Qed.

(* ---------------------------------------------------------------- comment lines *)
Lemma peek_nz s : a_peek s <> 0 -> rest s <> [].
Proof. unfold a_peek. destruct (rest s); [congruence | discriminate]. Qed.

Lemma skip_line_inv fuel : forall s, (length (rest s) <= length fuel)%nat ->
  a_peek (skip_line_f fuel s) = 0 \/
  exists text nl, rest s = text ++ nl ++ rest (skip_line_f fuel s) /\ gtext_plain text = true /\ line_end nl (rest (skip_line_f fuel s)) = true.
Proof.
  induction fuel as [|x f IH]; intros s Hl.
  - left. cbn [skip_line_f]. unfold a_peek. destruct (rest s); [reflexivity | cbn in Hl; lia].
  - cbn [skip_line_f]. destruct (Z.eqb_spec (a_peek s) 0) as [E0|N0]; [left; exact E0|].
    pose proof (peek_nz s N0) as Hne. destruct (get_inv s Hne) as (sep & Esep & Hsep & Hfst).
    destruct (a_get s) as [c s1] eqn:Eg. cbn [fst snd] in *.
    destruct (Z.eqb_spec c 10) as [->|N10].
    + right. exists [], sep. split; [exact Esep|]. split; [reflexivity|]. unfold line_end. rewrite Hsep. cbn [andb].
      destruct ((hd 0 sep =? 13) || (hd 0 sep =? 10)) eqn:Eh; [lia|]. lia.
    + destruct ((hd 0 sep =? 13) || (hd 0 sep =? 10)) eqn:Eh; [congruence|].
      assert (Hs : sep = [c]).
      { unfold one_get in Hsep. destruct sep as [|c1 [|c2 [|c3 r3]]]; try discriminate.
        - cbn [hd] in *. congruence.
        - cbn [hd] in *. lia. }
      subst sep. cbn [app] in Esep.
      assert (Hc0 : c <> 0). { unfold a_peek in N0. rewrite Esep in N0. exact N0. }
      assert (Hl1 : (length (rest s1) <= length f)%nat). { rewrite Esep in Hl. cbn [length] in Hl. lia. }
      destruct (IH s1 Hl1) as [Hp|(text & nl & Er & Htp & Hnl)]; [left; exact Hp|].
      right. exists (c :: text), nl. split; [rewrite Esep, Er; reflexivity|]. split; [|exact Hnl].
      cbn [gtext_plain forallb]. unfold gtext_plain in Htp. rewrite Htp. cbn [hd] in Eh. lia.
Qed.

Lemma skip_line_text text : forall fuel nl nx ln,
  gtext_plain text = true -> line_end nl nx = true -> (length text < length fuel)%nat ->
  exists ln', skip_line_f fuel (amk (text ++ nl ++ nx) ln) = amk nx ln'.
Proof.
  induction text as [|c text IH]; intros fuel nl nx ln Hok Hnl Hlen.
  - destruct fuel as [|x f]; [cbn in Hlen; lia|]. cbn [app skip_line_f].
    unfold line_end in Hnl. apply andb_true_iff in Hnl. destruct Hnl as [Hone Hhd].
    destruct (get_one nl nx ln Hone) as (ln' & Eg).
    assert (Hpk : (a_peek (amk (nl ++ nx) ln) =? 0) = false).
    { unfold a_peek. cbn [rest]. destruct nl as [|c1 n1]; [discriminate Hone|]. cbn [app hd] in *. lia. }
    rewrite Hpk, Eg.
    assert (E : (hd 0 nl =? 13) || (hd 0 nl =? 10) = true) by lia. rewrite E. change (10 =? 10) with true. cbv iota.
    exists ln'. reflexivity.
  - destruct fuel as [|x f]; [cbn in Hlen; lia|].
    unfold gtext_plain in Hok. cbn [forallb] in Hok. apply andb_true_iff in Hok. destruct Hok as [Hc Hall].
    assert (Hc10 : (c =? 10) = false) by lia. assert (Hc13 : (c =? 13) = false) by lia. assert (Hc0 : (c =? 0) = false) by lia.
    cbn [app skip_line_f]. unfold a_peek, a_get. cbn [rest aline]. rewrite Hc0, Hc13, Hc10. rewrite Hc10.
    apply IH; try assumption. cbn in Hlen. lia.
Qed.

Lemma comment_run text nl nx : gtext_plain text = true -> line_end nl nx = true ->
  run (directive 10) (text ++ nl ++ nx) nx true None.
Proof.
  intros Hok Hnl ln. change (directive 10) with (_ <- skip_line ;; ret (@None call)).
  unfold bind, skip_line, ret. cbn [rest].
  destruct (skip_line_text text (text ++ nl ++ nx) nl nx ln Hok Hnl) as (ln' & E).
  { rewrite app_length. unfold line_end, one_get in Hnl. destruct nl; [discriminate|]. rewrite app_length. cbn [length]. lia. }
  rewrite E. cbn [rest]. auto.
Qed.

Lemma comment_inv s oc s' : directive 10 s = ROk oc s' -> a_peek s' <> 0 ->
  oc = None /\ exists text nl, rest s = text ++ nl ++ rest s' /\ gtext_plain text = true /\ line_end nl (rest s') = true.
Proof.
  change (directive 10) with (_ <- skip_line ;; ret (@None call)). intros H Hp.
  apply bind_inv in H. destruct H as ([] & s1 & Es & H). apply ret_inv in H. destruct H as [<- <-].
  unfold skip_line in Es. injection Es as Es. split; [reflexivity|].
  destruct (skip_line_inv (rest s) s (le_n _)) as [C|R]; rewrite Es in *; [contradiction | exact R].
Qed.
