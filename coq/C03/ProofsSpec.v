(* C03 - the reader model against the declarative description, piece by piece.
   spec P bytes ok v :  run on  bytes ++ r  (r not continuing a number) the parser P
                        succeeds iff ok, and then returns exactly v and leaves exactly r.          *)
Require Import V.Lib.Base V.Lib.Calls V.Lib.Dec V.C09.Spec V.Gen.Consts V.Gen.Consts_C01 V.C01.Read V.C01.ProofsPrim V.C03.Spec.
Require Import ZifyBool.
Local Open Scope Z_scope.

Definition spec {A} (P : parser A) (bytes : list Z) (ok : bool) (v : A) : Prop :=
  forall r ln, stop_ok r ->
    match P (amk (bytes ++ r) ln) with
    | ROk a s' => ok = true /\ a = v /\ rest s' = r
    | RErr _ => ok = false
    end.

(* bytes that begin with something that is not a digit *)
Definition nd_start (b : list Z) : Prop := match b with c :: _ => is_digit c = false | [] => False end.
Lemma nd_start_app a b : nd_start a -> nd_start (a ++ b).
Proof. destruct a; cbn; [contradiction | auto]. Qed.
Lemma nd_start_stop a r : nd_start a -> stop_ok (a ++ r).
Proof. destruct a; cbn; [contradiction | auto]. Qed.

Lemma spec_bind {A B} (P : parser A) (f : A -> parser B) ba bb oka okb va vb :
  spec P ba oka va -> nd_start bb -> (oka = true -> spec (f va) bb okb vb) ->
  spec (bind P f) (ba ++ bb) (oka && okb) vb.
Proof.
  intros HP Hnd Hf r ln Hr. rewrite <- app_assoc.
  specialize (HP (bb ++ r) ln (nd_start_stop bb r Hnd)). unfold bind.
  destruct (P (amk (ba ++ bb ++ r) ln)) as [a s'|l].
  - destruct HP as (-> & -> & Hrest). destruct s' as [rs ln2]. cbn [rest] in Hrest. subst rs.
    specialize (Hf eq_refl r ln2 Hr). cbn [andb]. exact Hf.
  - rewrite HP. reflexivity.
Qed.

Lemma spec_map {A B} (P : parser A) (g : A -> B) ba oka va :
  spec P ba oka va -> spec (bind P (fun x => ret (g x))) ba oka (g va).
Proof.
  intros HP r ln Hr. specialize (HP r ln Hr). unfold bind, ret.
  destruct (P (amk (ba ++ r) ln)) as [a s'|l]; [|exact HP].
  destruct HP as (-> & -> & Hrest). auto.
Qed.

Lemma spec_ext {A} (P : parser A) b ok ok' v v' : spec P b ok v -> ok = ok' -> (ok = true -> v = v') -> spec P b ok' v'.
Proof.
  intros HP -> Hv r ln Hr. specialize (HP r ln Hr). destruct (P (amk (b ++ r) ln)); [|exact HP].
  destruct HP as (E & -> & Hrest). auto.
Qed.

(* ---------------------------------------------------------------- numbers *)
Lemma forallb_ws l : forallb is_ws l = true -> all_ws l.
Proof. intros H. apply Forall_forall. intros x Hx. rewrite forallb_forall in H. auto. Qed.

Lemma render_num_shape l v :
  exists sg d ds, (sg = 43 \/ sg = 45 \/ sg = 0) /\ all_digits (d :: ds) /\ value (d :: ds) = Z.abs v /\
    (sg = 45 <-> v < 0) /\
    render_num l v = l_ws l ++ sign_bytes sg ++ (d :: ds).
Proof.
  pose proof (print_nat_spec (Z.abs v) (Z.abs_nonneg v)) as (Hd & Hne & Hv & _).
  assert (Hds : exists d ds, repeat 48 (l_zeros l) ++ print_nat (Z.abs v) = d :: ds).
  { destruct (l_zeros l); cbn [repeat app]; [|eauto]. destruct (print_nat (Z.abs v)); [congruence | eauto]. }
  destruct Hds as (d & ds & Eds).
  assert (Hall : all_digits (d :: ds)).
  { rewrite <- Eds. apply Forall_app. split; [apply all_digits_zeros | exact Hd]. }
  assert (Hval : value (d :: ds) = Z.abs v).
  { rewrite <- Eds. unfold value. rewrite value_acc_zeros. rewrite Hv. lia. }
  unfold render_num, sign_of. rewrite Eds.
  destruct (Z.ltb_spec v 0).
  - exists 45, d, ds. repeat split; auto; lia.
  - destruct (l_plus l).
    + exists 43, d, ds. repeat split; auto; lia.
    + exists 0, d, ds. repeat split; auto; lia.
Qed.

Definition INT64_OK (lo hi : Z) : Prop := - INT64_MAX <= lo /\ hi <= INT64_MAX.

(* a number of ANY magnitude and digit count: accepted iff inside the field's range, and then with its own value *)
Lemma match_int_render l v r ln : lay_ws l = true -> stop_ok r ->
  exists ln', ln <= ln' /\
  a_match_int false (amk (render_num l v ++ r) ln) =
    (if Z.abs v <=? INT64_MAX then Some v else None, amk r ln').
Proof.
  intros Hws Hr. destruct (render_num_shape l v) as (sg & d & ds & Hsg & Hd & Hval & Hneg & E).
  rewrite E. repeat rewrite <- app_assoc.
  destruct (match_int_digits (l_ws l) sg d ds r ln (forallb_ws _ Hws) Hsg Hd Hr) as (ln' & Hl & Em).
  exists ln'. split; [exact Hl|]. rewrite Em, Hval.
  destruct (Z.abs v <=? INT64_MAX); [|reflexivity]. f_equal. f_equal.
  destruct (Z.eqb_spec sg 45) as [E45|N45]; lia.
Qed.

Lemma spec_range lo hi l v : INT64_OK lo hi -> lay_ws l = true ->
  spec (m_range lo hi) (render_num l v) ((lo <=? v) && (v <=? hi)) v.
Proof.
  intros [Hlo Hhi] Hws r ln Hr.
  destruct (match_int_render l v r ln Hws Hr) as (ln' & _ & E).
  unfold m_range. rewrite E.
  destruct (Z.leb_spec (Z.abs v) INT64_MAX).
  - destruct ((lo <=? v) && (v <=? hi)); cbn [rest]; auto.
  - lia.
Qed.

Lemma spec_lit l v : lay_ws l = true ->
  spec m_lit (render_num l v) (negb (v =? 0) && ((- I_MAX <=? v) && (v <=? I_MAX))) v.
Proof.
  intros Hws r ln Hr.
  destruct (match_int_render l v r ln Hws Hr) as (ln' & _ & E).
  unfold m_lit. rewrite E. unfold varMax, INT_MAX, I_MAX.
  destruct (Z.leb_spec (Z.abs v) INT64_MAX).
  - match goal with |- context [if ?b then _ else _] => destruct b eqn:Hb end; cbn [rest]; [split; [lia | auto] | lia].
  - unfold INT64_MAX in *. lia.
Qed.

Lemma num_ok_ws l v : num_ok l v = true -> lay_ws l = true.
Proof. unfold num_ok. intros H. apply andb_true_iff in H. tauto. Qed.

Lemma nd_start_num l v : num_ok l v = true -> nd_start (render_num l v).
Proof.
  unfold num_ok, lay_ws, lay_sep, render_num, sign_of. intros H. apply andb_true_iff in H. destruct H as [Hws Hsep].
  destruct (l_ws l) as [|c ws].
  - cbn [app]. destruct (v <? 0); [reflexivity|]. cbn [orb] in Hsep. rewrite Hsep. reflexivity.
  - cbn [app nd_start]. cbn [forallb] in Hws. apply andb_true_iff in Hws. destruct Hws as [Hc _].
    unfold is_ws, is_digit in *. lia.
Qed.

Lemma int64_ok lo hi : - 9223372036854775807 <= lo -> hi <= 9223372036854775807 -> INT64_OK lo hi.
Proof. unfold INT64_OK, INT64_MAX. auto. Qed.
Ltac i64 := apply int64_ok; vm_compute; congruence.

(* the field parsers on one token *)
Lemma spec_tok_range lo hi (t : tok) : INT64_OK lo hi -> tok_ok t = true -> spec (m_range lo hi) (render_tok t) (rng lo hi t) (snd t).
Proof. intros. apply spec_range; [assumption|]. unfold tok_ok in *. apply andb_true_iff in H0. tauto. Qed.
Lemma spec_tok_lit (t : tok) : tok_ok t = true -> spec m_lit (render_tok t) (r_lit t) (snd t).
Proof. intros. apply spec_lit. unfold tok_ok in *. apply andb_true_iff in H. tauto. Qed.
Lemma nd_start_tok t : tok_ok t = true -> nd_start (render_tok t).
Proof. intros. apply nd_start_num. exact H. Qed.

(* ---------------------------------------------------------------- counted lists *)
Lemma spec_rep_nat {A X} (elem : parser A) (relem : X -> list Z) (okf : X -> bool) (valf : X -> A) xs :
  (forall x, In x xs -> spec elem (relem x) (okf x) (valf x) /\ nd_start (relem x)) ->
  spec (rep_nat elem (length xs)) (flat_map relem xs) (forallb okf xs) (map valf xs).
Proof.
  induction xs as [|x xs IH]; intros H.
  - intros r ln Hr. cbn. auto.
  - cbn [length rep_nat flat_map forallb map].
    destruct (H x (or_introl eq_refl)) as [Hx Hnd].
    destruct xs as [|y ys].
    + cbn [flat_map length rep_nat forallb map]. rewrite app_nil_r, andb_true_r.
      intros r ln Hr. specialize (Hx r ln Hr). unfold bind, ret.
      destruct (elem (amk (relem x ++ r) ln)); [|exact Hx]. destruct Hx as (-> & -> & ->). auto.
    + eapply spec_bind; [exact Hx | | ].
      * cbn [flat_map]. apply nd_start_app. apply (H y). cbn. auto.
      * intros _. apply spec_map. apply IH. intros z Hz. apply H. right. exact Hz.
Qed.

Lemma spec_list {A X} (elem : parser A) (relem : X -> list Z) (okf : X -> bool) (valf : X -> A) (cl : lay) xs :
  num_ok cl (Z.of_nat (length xs)) = true ->
  (forall x, In x xs -> spec elem (relem x) (okf x) (valf x) /\ nd_start (relem x)) ->
  spec (n <- m_count ;; rep elem n) (render_num cl (Z.of_nat (length xs)) ++ flat_map relem xs)
       (r_count xs && forallb okf xs) (map valf xs).
Proof.
  intros Hcl H.
  pose proof (spec_rep_nat elem relem okf valf xs H) as Hrep.
  intros r ln Hr.
  assert (Hstop : stop_ok (flat_map relem xs ++ r)).
  { destruct xs as [|x xs]; [exact Hr|]. cbn [flat_map]. rewrite <- app_assoc. apply nd_start_stop. apply (H x). cbn. auto. }
  rewrite <- app_assoc.
  pose proof (spec_range 0 UINT_MAX cl (Z.of_nat (length xs)) ltac:(i64) (num_ok_ws _ _ Hcl) _ ln Hstop) as Hc.
  unfold bind, m_count, m_pos.
  destruct (m_range 0 UINT_MAX (amk (render_num cl (Z.of_nat (length xs)) ++ flat_map relem xs ++ r) ln)) as [n s1|l].
  - destruct Hc as (Hok & -> & Hrest). destruct s1 as [rs ln1]. cbn [rest] in Hrest. subst rs.
    rewrite rep_is_loop by lia. rewrite Nat2Z.id.
    specialize (Hrep r ln1 Hr). unfold r_count, U_MAX, UINT_MAX in *.
    assert (Hc' : (Z.of_nat (length xs) <=? 4294967295) = true) by lia. rewrite Hc'. cbn [andb]. exact Hrep.
  - unfold r_count, U_MAX, UINT_MAX in *. assert (Hc' : (Z.of_nat (length xs) <=? 4294967295) = false) by lia.
    rewrite Hc'. reflexivity.
Qed.

Lemma forallb_In {X} (f : X -> bool) xs x : forallb f xs = true -> In x xs -> f x = true.
Proof. intros H Hx. rewrite forallb_forall in H. auto. Qed.

Lemma spec_tlist_range lo hi (l : tlist) : INT64_OK lo hi -> tlist_ok l = true ->
  spec (n <- m_count ;; rep (m_range lo hi) n) (render_tlist l) (r_list (rng lo hi) l) (vals l).
Proof.
  intros Hb H. unfold tlist_ok in H. apply andb_true_iff in H. destruct H as [Hc He].
  unfold render_tlist, r_list, vals. apply spec_list; [exact Hc|].
  intros x Hx. pose proof (forallb_In _ _ _ He Hx). split; [apply spec_tok_range; assumption | apply nd_start_tok; assumption].
Qed.

Lemma spec_atoms l : tlist_ok l = true -> spec m_atoms (render_tlist l) (r_list r_atom l) (vals l).
Proof. intros. apply (spec_tlist_range 1 I_MAX); [i64 | assumption]. Qed.
Lemma spec_ids l : tlist_ok l = true -> spec m_ids (render_tlist l) (r_list r_id l) (vals l).
Proof. intros. apply (spec_tlist_range 0 U_MAX); [i64 | assumption]. Qed.
Lemma spec_lits l : tlist_ok l = true -> spec m_lits (render_tlist l) (r_list r_lit l) (vals l).
Proof.
  intros H. unfold tlist_ok in H. apply andb_true_iff in H. destruct H as [Hc He].
  unfold render_tlist, r_list, vals, m_lits. apply spec_list; [exact Hc|].
  intros x Hx. pose proof (forallb_In _ _ _ He Hx). split; [apply spec_tok_lit; assumption | apply nd_start_tok; assumption].
Qed.

Lemma spec_wlits minw l : - 9223372036854775807 <= minw -> wlist_ok l = true ->
  spec (m_wlits minw) (render_wlist l) (r_wlist minw l) (wvals l).
Proof.
  intros Hm H. unfold wlist_ok in H. apply andb_true_iff in H. destruct H as [Hc He].
  unfold m_wlits, render_wlist, r_wlist, wvals.
  assert (Hl : spec (n <- m_count ;; rep (m_wlit minw) n)
                 (render_num (fst l) (Z.of_nat (length (snd l))) ++ flat_map render_wpair (snd l))
                 (r_count (snd l) && forallb (fun p => r_lit (fst p) && rng minw I_MAX (snd p)) (snd l))
                 (map (fun p : tok * tok => (snd (fst p), snd (snd p))) (snd l))).
  { apply spec_list; [exact Hc|]. intros p Hp. pose proof (forallb_In _ _ _ He Hp) as Hpk. cbn beta in Hpk.
    apply andb_true_iff in Hpk. destruct Hpk as [Hk1 Hk2].
    split.
    - unfold m_wlit, render_wpair. eapply spec_bind; [apply spec_tok_lit; exact Hk1 | apply nd_start_tok; exact Hk2 |].
      intros _. apply (spec_map (m_range minw INT_MAX) (fun w => (snd (fst p), w))).
      apply spec_tok_range; [apply int64_ok; [exact Hm | vm_compute; congruence] | exact Hk2].
    - unfold render_wpair. apply nd_start_app. apply nd_start_tok. exact Hk1. }
  intros r ln Hr. specialize (Hl r ln Hr). unfold bind, ret in *.
  destruct (m_count (amk ((render_num (fst l) (Z.of_nat (length (snd l))) ++ flat_map render_wpair (snd l)) ++ r) ln)) as [n s1|]; [|exact Hl].
  destruct (rep (m_wlit minw) n s1) as [lst s2|]; [|exact Hl].
  destruct Hl as (-> & -> & ->). auto.
Qed.

(* ---------------------------------------------------------------- raw strings *)
Lemma firstn_app_exact {X} (a b : list X) : firstn (length a) (a ++ b) = a.
Proof. induction a; cbn; [destruct b; reflexivity | f_equal; assumption]. Qed.
Lemma skipn_app_exact {X} (a b : list X) : skipn (length a) (a ++ b) = b.
Proof. induction a; cbn; [reflexivity | assumption]. Qed.

Lemma spec_string (s : astr) : str_ok s = true -> spec m_string (render_str s) (r_str s) (s_bytes s).
Proof.
  unfold str_ok. intros H. apply andb_true_iff in H. destruct H as [H Hcr]. apply andb_true_iff in H. destruct H as [H Hnz].
  apply andb_true_iff in H. destruct H as [Hnum Hnd].
  intros r ln Hr. unfold render_str, m_string, bind. rewrite <- app_assoc.
  assert (Hstop : stop_ok ((s_sep s :: s_bytes s) ++ r)) by (cbn; destruct (is_digit (s_sep s)); [discriminate | reflexivity]).
  pose proof (spec_range 0 STR_MAX (s_lay s) (Z.of_nat (length (s_bytes s))) ltac:(i64) (num_ok_ws _ _ Hnum) _ ln Hstop) as Hc.
  unfold m_pos.
  destruct (m_range 0 STR_MAX (amk (render_num (s_lay s) (Z.of_nat (length (s_bytes s))) ++ (s_sep s :: s_bytes s) ++ r) ln)) as [n s1|l].
  - destruct Hc as (Hok & -> & Hrest). destruct s1 as [rs ln1]. cbn [rest] in Hrest. subst rs.
    assert (Hget : exists ln2, snd (a_get (amk ((s_sep s :: s_bytes s) ++ r) ln1)) = amk (s_bytes s ++ r) ln2).
    { unfold a_get. cbn [rest app aline]. destruct (Z.eqb_spec (s_sep s) 13) as [E13|N13].
      - cbn [negb orb] in Hcr.
        destruct (s_bytes s) as [|c bs]; [discriminate|]. cbn [app].
        destruct (Z.eqb_spec c 10); [discriminate|].
        exists (ln1 + 1). destruct c; try reflexivity. destruct p; try reflexivity. destruct p; try reflexivity.
        destruct p; try reflexivity. destruct p; try reflexivity. contradiction.
      - destruct (s_sep s =? 10); eexists; reflexivity. }
    destruct Hget as (ln2 & ->).
    rewrite copy_k_eq by lia. unfold a_copy. destruct (Z.ltb_spec (Z.of_nat (length (s_bytes s))) 0); [lia|].
    rewrite Nat2Z.id. cbn [rest aline]. rewrite firstn_app_exact, skipn_app_exact. rewrite Z.eqb_refl.
    unfold r_str, STR_MAX, rd_str_max, INT_MAX, I_MAX in *. cbn [rest]. split; [lia | auto].
  - unfold r_str, STR_MAX, rd_str_max, INT_MAX, I_MAX in *. lia.
Qed.

Lemma nd_start_str s : str_ok s = true -> nd_start (render_str s).
Proof.
  unfold str_ok. intros H. apply andb_true_iff in H. destruct H as [H _]. apply andb_true_iff in H. destruct H as [H _].
  apply andb_true_iff in H. destruct H as [H _].
  unfold render_str. apply nd_start_app. apply nd_start_num. exact H.
Qed.
Lemma nd_start_tlist l : tlist_ok l = true -> nd_start (render_tlist l).
Proof. unfold tlist_ok. intros H. apply andb_true_iff in H. destruct H. unfold render_tlist. apply nd_start_app. apply nd_start_num. assumption. Qed.
Lemma nd_start_wlist l : wlist_ok l = true -> nd_start (render_wlist l).
Proof. unfold wlist_ok. intros H. apply andb_true_iff in H. destruct H. unfold render_wlist. apply nd_start_app. apply nd_start_num. assumption. Qed.
