(* C03 - the narrow description of C03/Spec.v (used by C01's round trip) is a special case of the general one:
   every text it describes is described by C03/Grammar.v too, with the same calls. *)
Require Import V.Lib.Base V.Lib.Calls V.C01.Read V.C03.Grammar V.C03.ProofsG5.
Require V.C03.Spec V.C03.ProofsProg.
Local Open Scope Z_scope.

Theorem spec_embeds (a : V.C03.Spec.aprog) :
  V.C03.Spec.wf_layout a = true -> V.C03.Spec.in_range a = true ->
  exists g, gwf g = true /\ gin_range g = true /\ grender g = V.C03.Spec.render a /\ gcalls g = V.C03.Spec.calls a.
Proof.
  intros Hw Hr. pose proof (V.C03.ProofsProg.c03_complete_lemma a Hw Hr) as H.
  destruct (g_sound _ _ H) as (g & H1 & H2 & H3 & H4). exists g. auto.
Qed.
