(* C03 - steps, header and whole programs of the reader model against the declarative description:
   c03_complete_lemma / c03_rejects_lemma. *)
Require Import V.Lib.Base V.Lib.Calls V.Lib.Dec V.C09.Spec V.Gen.Consts V.C01.Read V.C01.ProofsPrim
  V.C03.Spec V.C03.ProofsSpec V.C03.ProofsDir.
Require Import ZifyBool.
Local Open Scope Z_scope.

(* ---------------------------------------------------------------- comments *)
Definition text_plain (text : list Z) : bool := forallb (fun c => negb (c =? 10) && negb (c =? 13) && negb (c =? 0)) text.

Lemma skip_line_text text : forall fuel nl r ln,
  text_plain text = true -> is_nl nl = true -> (nl = [13] -> hd 0 r <> 10) ->
  (length text < length fuel)%nat ->
  exists ln', skip_line_f fuel (amk (text ++ nl ++ r) ln) = amk r ln'.
Proof.
  induction text as [|c text IH]; intros fuel nl r ln Hok Hnl Hcr Hlen.
  - destruct fuel as [|x f]; [cbn in Hlen; lia|]. cbn [app skip_line_f].
    unfold is_nl in Hnl. apply orb_true_iff in Hnl. destruct Hnl as [Hnl|Hnl]; [apply orb_true_iff in Hnl; destruct Hnl as [Hnl|Hnl]|];
      apply list_eqb_eq in Hnl; subst nl.
    + exists (ln + 1). reflexivity.
    + exists (ln + 1). reflexivity.
    + specialize (Hcr eq_refl). exists (ln + 1). unfold a_peek, a_get. cbn [rest app aline]. change (13 =? 0) with false. change (13 =? 13) with true. cbv iota.
      destruct r as [|c r]; [reflexivity|]. cbn [hd] in Hcr.
      destruct c; try reflexivity. destruct p; try reflexivity. destruct p; try reflexivity. destruct p; try reflexivity.
      destruct p; try reflexivity. contradiction.
  - destruct fuel as [|x f]; [cbn in Hlen; lia|].
    unfold text_plain in Hok. cbn [forallb] in Hok. apply andb_true_iff in Hok. destruct Hok as [Hc Hall].
    assert (Hc10 : (c =? 10) = false) by lia. assert (Hc13 : (c =? 13) = false) by lia. assert (Hc0 : (c =? 0) = false) by lia.
    cbn [app skip_line_f]. unfold a_peek, a_get. cbn [rest aline]. rewrite Hc0, Hc13, Hc10. rewrite Hc10.
    apply IH; try assumption. cbn in Hlen. lia.
Qed.

Lemma comment_spec text nl r ln :
  comment_text_ok text = true -> is_nl nl = true -> (nl = [13] -> hd 0 r <> 10) ->
  exists ln', directive 10 (amk (text ++ nl ++ r) ln) = ROk None (amk r ln').
Proof.
  intros Hok Hnl Hcr. change (directive 10) with (_ <- skip_line ;; ret (@None call)).
  unfold bind, skip_line, ret. cbn [rest].
  unfold comment_text_ok in Hok. apply andb_true_iff in Hok. destruct Hok as [Hall _].
  destruct (skip_line_text text (text ++ nl ++ r) nl r ln Hall Hnl Hcr) as (ln' & E).
  { rewrite app_length. unfold is_nl in Hnl. destruct nl; [discriminate|]. rewrite app_length. cbn [length]. lia. }
  exists ln'. rewrite E. reflexivity.
Qed.

(* ---------------------------------------------------------------- the directives of a step *)
Lemma nd_start_stop0 a : nd_start a -> stop_ok a.
Proof. destruct a; cbn; [contradiction | auto]. Qed.

Lemma lay_sep_code d : lay_sep (code_lay d) (code_val d) = lay_sep (code_lay d) (dir_code d).
Proof. destruct d; reflexivity. Qed.

Lemma nd_start_dir d x : lay_ws (code_lay d) = true -> lay_sep (code_lay d) (code_val d) = true -> nd_start (render_dir d ++ x).
Proof.
  intros Hws Hsep. rewrite render_dir_split, <- app_assoc. apply nd_start_app. apply nd_start_num.
  unfold num_ok. rewrite Hws, <- lay_sep_code, Hsep. reflexivity.
Qed.

Lemma nd_start_rest ds endl r : dirs_layout_ok false ds endl = true -> nd_start (flat_map render_dir ds ++ render_num endl 0 ++ r).
Proof.
  destruct ds as [|d ds]; cbn [dirs_layout_ok flat_map app orb]; intros H.
  - apply nd_start_app. apply nd_start_num. exact H.
  - apply andb_true_iff in H. destruct H as [Hws H]. apply andb_true_iff in H. destruct H as [Hsep _].
    rewrite <- app_assoc. apply nd_start_dir; assumption.
Qed.

Lemma stop_fields d T : dir_layout_ok d = true -> (is_comment d = false -> nd_start T) -> stop_ok (dir_fields d ++ T).
Proof.
  intros Hl HT.
  destruct d; cbn [dir_layout_ok dir_fields is_comment] in *; split_ok;
    try (apply nd_start_stop; first [nd1 | apply nd_start_app; nd1]).
  - (* comment *) rewrite <- app_assoc.
    match goal with Hc : comment_text_ok _ = true |- _ => unfold comment_text_ok in Hc; apply andb_true_iff in Hc; destruct Hc as [_ Hhd] end.
    destruct text as [|c0 t0].
    + cbn [app]. match goal with Hn : is_nl _ = true |- _ => unfold is_nl in Hn end.
      destruct nl as [|c1 n1]; [discriminate|]. cbn [app stop_ok].
      destruct (Z.eqb_spec c1 10) as [->|]; [reflexivity|]. destruct (Z.eqb_spec c1 13) as [->|]; [reflexivity|].
      exfalso. cbn [list_eqb] in *. lia.
    + cbn [app stop_ok]. destruct (is_digit c0); [discriminate | reflexivity].
  - (* bad directive code: no fields *) cbn [app]. apply nd_start_stop0. apply HT. reflexivity.
Qed.

Lemma code_nonzero d : dir_layout_ok d = true -> (0 <=? dir_code d) && (dir_code d <=? 10) = true -> (dir_code d =? 0) = false.
Proof. destruct d; cbn [dir_code dir_layout_ok]; intros; try reflexivity. lia. Qed.
Lemma code_bad d : (0 <=? dir_code d) && (dir_code d <=? 10) = false -> dir_in_range d = false.
Proof. destruct d; cbn [dir_code dir_in_range]; intros H; try reflexivity; discriminate H. Qed.
Lemma dir_calls_cons d ds : dir_calls (d :: ds) = opt_cons (call_of d) (dir_calls ds).
Proof. cbn [dir_calls]. destruct (call_of d); reflexivity. Qed.

Lemma hd_render_num l v x : hd 0 (render_num l v ++ x) = 10 -> hd 0 (l_ws l) = 10.
Proof.
  unfold render_num, sign_of. destruct (l_ws l) as [|c ws]; [|cbn; auto].
  cbn [app]. destruct (v <? 0); [cbn; lia|]. destruct (l_plus l); [cbn; lia|]. cbn [app].
  destruct (l_zeros l); [|cbn; lia]. cbn [repeat app].
  pose proof (print_nat_hd_digit (Z.abs v) (Z.abs_nonneg v)) as Hd. pose proof (print_nat_nonempty (Z.abs v) (Z.abs_nonneg v)) as Hne.
  destruct (print_nat (Z.abs v)) as [|c r]; [congruence|]. cbn [app hd] in *. unfold is_digit in Hd. lia.
Qed.

Lemma dirs_spec ds : forall fuel endl free r ln,
  dirs_layout_ok free ds endl = true -> (length ds < length fuel)%nat -> stop_ok r ->
  if forallb dir_in_range ds
  then exists ln', dirs fuel (amk (flat_map render_dir ds ++ render_num endl 0 ++ r) ln) = (dir_calls ds, ROk tt (amk r ln'))
  else exists cs ln', dirs fuel (amk (flat_map render_dir ds ++ render_num endl 0 ++ r) ln) = (cs, RErr ln').
Proof.
  induction ds as [|d ds IH]; intros fuel endl free r ln Hl Hlen Hr.
  - destruct fuel as [|x f]; [cbn in Hlen; lia|]. cbn [flat_map app forallb dir_calls dirs].
    cbn [dirs_layout_ok] in Hl. apply andb_true_iff in Hl. destruct Hl as [Hws _].
    pose proof (spec_range 0 enum_Directive_t_max endl 0 ltac:(i64) Hws r ln Hr) as Hc.
    unfold m_pos. destruct (m_range 0 enum_Directive_t_max (amk (render_num endl 0 ++ r) ln)) as [v s1|l].
    + destruct Hc as (_ & -> & Hrest). destruct s1 as [rs ln1]. cbn [rest] in Hrest. subst rs.
      change (0 =? 0) with true. cbv iota. eexists; reflexivity.
    + discriminate Hc.
  - destruct fuel as [|x f]; [cbn in Hlen; lia|].
    cbn [dirs_layout_ok] in Hl. apply andb_true_iff in Hl. destruct Hl as [Hws Hl]. apply andb_true_iff in Hl. destruct Hl as [Hsep Hl].
    apply andb_true_iff in Hl. destruct Hl as [Hdl Hl]. apply andb_true_iff in Hl. destruct Hl as [Hcnl Hrest].
    cbn [flat_map]. rewrite render_dir_split. repeat rewrite <- app_assoc.
    set (T := flat_map render_dir ds ++ render_num endl 0 ++ r).
    assert (HT : is_comment d = false -> nd_start T).
    { intros Hc. rewrite Hc in Hrest. apply nd_start_rest. exact Hrest. }
    pose proof (spec_range 0 enum_Directive_t_max (code_lay d) (dir_code d) ltac:(i64) Hws (dir_fields d ++ T) ln (stop_fields d T Hdl HT)) as Hc.
    cbn [dirs]. unfold m_pos.
    destruct (m_range 0 enum_Directive_t_max (amk (render_num (code_lay d) (dir_code d) ++ dir_fields d ++ T) ln)) as [v s1|l].
    + destruct Hc as (Hcode & -> & Hr1). destruct s1 as [rs ln1]. cbn [rest] in Hr1. subst rs.
      change enum_Directive_t_max with 10 in Hcode.
      rewrite (code_nonzero d Hdl Hcode). cbv iota.
      assert (Hlen' : (length ds < length f)%nat) by (cbn [length] in Hlen; lia).
      destruct (is_comment d) eqn:Hcm.
      * destruct d; try discriminate Hcm. cbn [dir_code dir_fields]. rewrite <- app_assoc.
        cbn [dir_layout_ok] in Hdl. apply andb_true_iff in Hdl. destruct Hdl as [Htxt Hnl].
        destruct (comment_spec text nl T ln1 Htxt Hnl) as (ln2 & E).
        { intros ->. cbn [comment_nl_ok list_eqb Z.eqb Pos.eqb andb negb orb] in Hcnl.
          intros Hhd. unfold T in Hhd.
          assert (Hnext : hd 0 (l_ws match ds with d2 :: _ => code_lay d2 | [] => endl end) = 10).
          { destruct ds as [|d2 ds2].
            - cbn [flat_map app] in Hhd. apply hd_render_num in Hhd. exact Hhd.
            - cbn [flat_map] in Hhd. rewrite render_dir_split in Hhd. repeat rewrite <- app_assoc in Hhd. apply hd_render_num in Hhd. exact Hhd. }
          rewrite Hnext in Hcnl. cbn in Hcnl. discriminate. }
        rewrite E. cbn [forallb dir_in_range andb]. rewrite dir_calls_cons. cbn [call_of opt_cons].
        specialize (IH f endl true r ln2 Hrest Hlen' Hr). fold T in IH.
        destruct (forallb dir_in_range ds).
        -- destruct IH as (ln' & E2). rewrite E2. eexists; reflexivity.
        -- destruct IH as (cs & ln' & E2). rewrite E2. eexists; eexists; reflexivity.
      * pose proof (directive_spec d Hdl Hcm Hcode T ln1 (nd_start_stop0 T (HT eq_refl))) as Hd.
        destruct (directive (dir_code d) (amk (dir_fields d ++ T) ln1)) as [oc s2|l2].
        -- destruct Hd as (Hin & -> & Hr2). destruct s2 as [rs ln2]. cbn [rest] in Hr2. subst rs.
           cbn [forallb]. rewrite Hin. cbn [andb]. rewrite dir_calls_cons.
           specialize (IH f endl false r ln2 Hrest Hlen' Hr). fold T in IH.
           destruct (forallb dir_in_range ds).
           ++ destruct IH as (ln' & E2). rewrite E2. eexists; reflexivity.
           ++ destruct IH as (cs & ln' & E2). rewrite E2. eexists; eexists; reflexivity.
        -- cbn [forallb]. rewrite Hd. cbn [andb]. eexists; eexists; reflexivity.
    + cbn [forallb]. change enum_Directive_t_max with 10 in Hc. rewrite (code_bad d Hc). cbn [andb]. eexists; eexists; reflexivity.
Qed.

(* ---------------------------------------------------------------- steps *)
Definition num_core (l : lay) (v : Z) : list Z := sign_of l v ++ repeat 48 (l_zeros l) ++ print_nat (Z.abs v).
Lemma render_num_core l v : render_num l v = l_ws l ++ num_core l v.
Proof. reflexivity. Qed.
Lemma num_core_hd l v y : exists c t, num_core l v ++ y = c :: t /\ is_ws c = false /\ c <> 0.
Proof.
  unfold num_core, sign_of. destruct (v <? 0); [eexists; eexists; cbn; split; [reflexivity | split; [reflexivity | lia]]|].
  destruct (l_plus l); [eexists; eexists; cbn; split; [reflexivity | split; [reflexivity | lia]]|].
  cbn [app]. destruct (l_zeros l); [|eexists; eexists; cbn; split; [reflexivity | split; [reflexivity | lia]]].
  cbn [repeat app].
  pose proof (print_nat_hd_digit (Z.abs v) (Z.abs_nonneg v)) as Hd. pose proof (print_nat_nonempty (Z.abs v) (Z.abs_nonneg v)) as Hne.
  destruct (print_nat (Z.abs v)) as [|c r]; [congruence|]. cbn [app hd] in *. exists c, (r ++ y). split; [reflexivity|].
  unfold is_digit, is_ws in *. lia.
Qed.

Lemma skipws_num l v y ln : lay_ws l = true ->
  exists ln', a_skipws (amk (render_num l v ++ y) ln) = amk (num_core l v ++ y) ln'.
Proof.
  intros Hws. rewrite render_num_core, <- app_assoc.
  destruct (num_core_hd l v y) as (c & t & E & Hc & _).
  destruct (skipws_app (l_ws l) (num_core l v ++ y) ln (forallb_ws _ Hws)) as (ln' & E2 & _); [rewrite E; exact Hc|].
  exists ln'. exact E2.
Qed.

Lemma render_dir_len d : (1 <= length (render_dir d))%nat.
Proof.
  rewrite render_dir_split, render_num_core, !app_length.
  destruct (num_core_hd (code_lay d) (dir_code d) []) as (c & t & E & _). rewrite app_nil_r in E. rewrite E. cbn [length]. lia.
Qed.
Lemma len_dirs ds : (length ds <= length (flat_map render_dir ds))%nat.
Proof. induction ds as [|d ds IH]; [cbn; lia|]. cbn [flat_map length]. rewrite app_length. pose proof (render_dir_len d). lia. Qed.

Lemma m_range_skip lo hi s : m_range lo hi (a_skipws s) = m_range lo hi s.
Proof. unfold m_range, a_match_int. rewrite skipws_idem. reflexivity. Qed.
Lemma dirs_skip x f s : dirs (x :: f) (a_skipws s) = dirs (x :: f) s.
Proof. cbn [dirs]. unfold m_pos. rewrite m_range_skip. reflexivity. Qed.

Definition step_ok (s : astep) : bool := forallb dir_in_range (st_dirs s).
Definition rest_text (ss : list astep) (trail : list Z) : list Z := flat_map render_step ss ++ trail.

Lemma rest_text_cons st ss trail :
  rest_text (st :: ss) trail = flat_map render_dir (st_dirs st) ++ render_num (st_end st) 0 ++ rest_text ss trail.
Proof. unfold rest_text, render_step. cbn [flat_map]. rewrite <- !app_assoc. reflexivity. Qed.

Lemma stop_rest_text ss trail : steps_layout_ok false ss = true -> all_ws trail -> stop_ok (rest_text ss trail).
Proof.
  intros Hl Htr. destruct ss as [|st ss].
  - unfold rest_text. cbn [flat_map app]. destruct trail as [|c t]; [exact I|]. inversion Htr; subst. cbn. unfold is_ws, is_digit in *. lia.
  - rewrite rest_text_cons. cbn [steps_layout_ok] in Hl. apply andb_true_iff in Hl. destruct Hl as [Hd _].
    apply nd_start_stop0. apply nd_start_rest. exact Hd.
Qed.

(* enough fuel for the directives of a step, in both entry situations *)
Lemma step_fuel st ss trail ln s free :
  dirs_layout_ok free (st_dirs st) (st_end st) = true ->
  (s = amk (rest_text (st :: ss) trail) ln \/ s = a_skipws (amk (rest_text (st :: ss) trail) ln)) ->
  (length (st_dirs st) < length (0%Z :: rest s))%nat.
Proof.
  intros Hl [->| ->]; rewrite rest_text_cons.
  - cbn [rest length]. rewrite app_length. pose proof (len_dirs (st_dirs st)). lia.
  - destruct (st_dirs st) as [|d ds] eqn:Eds.
    + cbn [length]. lia.
    + cbn [flat_map]. rewrite render_dir_split, <- !app_assoc.
      cbn [dirs_layout_ok] in Hl. apply andb_true_iff in Hl. destruct Hl as [Hws _].
      destruct (skipws_num (code_lay d) (dir_code d) (dir_fields d ++ flat_map render_dir ds ++ render_num (st_end st) 0 ++ rest_text ss trail) ln Hws) as (ln' & E).
      rewrite E. cbn [rest length].
      destruct (num_core_hd (code_lay d) (dir_code d) (dir_fields d ++ flat_map render_dir ds ++ render_num (st_end st) 0 ++ rest_text ss trail)) as (c & t & E2 & _).
      assert (Hl2 : (length (num_core (code_lay d) (dir_code d)) >= 1)%nat).
      { destruct (num_core_hd (code_lay d) (dir_code d) []) as (c0 & t0 & E3 & _). rewrite app_nil_r in E3. rewrite E3. cbn [length]. lia. }
      rewrite !app_length. pose proof (len_dirs ds). lia.
Qed.

Lemma steps_spec ss : forall fuel inc s ln free trail,
  ss <> [] -> steps_layout_ok free ss = true -> all_ws trail ->
  (s = amk (rest_text ss trail) ln \/ s = a_skipws (amk (rest_text ss trail) ln)) ->
  (length ss < length fuel)%nat ->
  if forallb step_ok ss && (inc || (Z.of_nat (length ss) =? 1))
  then parse_complete fuel inc s = (flat_map step_calls ss, Ok)
  else exists cs ln', parse_complete fuel inc s = (cs, Err ln').
Proof.
  induction ss as [|st ss IH]; intros fuel inc s ln free trail Hne Hl Htr Hs Hlen; [congruence|].
  destruct fuel as [|x f]; [cbn in Hlen; lia|].
  cbn [steps_layout_ok] in Hl. apply andb_true_iff in Hl. destruct Hl as [Hd Hl].
  pose proof (step_fuel st ss trail ln s free Hd Hs) as Hfuel.
  assert (HA : dirs (0 :: rest s) s = dirs (0 :: rest s) (amk (rest_text (st :: ss) trail) ln)).
  { destruct Hs as [->| ->]; [reflexivity | apply dirs_skip]. }
  pose proof (dirs_spec (st_dirs st) (0 :: rest s) (st_end st) free (rest_text ss trail) ln Hd Hfuel (stop_rest_text ss trail Hl Htr)) as Hdirs.
  rewrite <- rest_text_cons, <- HA in Hdirs.
  cbn [parse_complete]. unfold parse_round, read_step. cbn [forallb]. unfold step_ok at 1.
  destruct (forallb dir_in_range (st_dirs st)).
  - destruct Hdirs as (ln1 & E). rewrite E. cbn [andb].
    destruct ss as [|st2 ss2].
    + (* last step *)
      unfold rest_text. cbn [flat_map app].
      destruct (skipws_app trail [] ln1 Htr I) as (ln2 & E2 & _). rewrite app_nil_r in E2.
      unfold more. rewrite E2.
      change (a_skipws (amk [] ln2)) with (amk [] ln2). change (a_end (amk [] ln2)) with true. cbn [negb andb].
      change (a_skipws (amk [] ln2)) with (amk [] ln2). change (a_end (amk [] ln2)) with true. cbn [negb].
      cbn [forallb length]. change (Z.of_nat 1 =? 1) with true. rewrite orb_true_r. cbn [andb]. rewrite app_nil_r. reflexivity.
    + (* more steps follow *)
      rewrite rest_text_cons.
      pose proof Hl as Hl2. cbn [steps_layout_ok] in Hl2. apply andb_true_iff in Hl2. destruct Hl2 as [Hd2 _].
      assert (Hws2 : exists l0 v0 y0, flat_map render_dir (st_dirs st2) ++ render_num (st_end st2) 0 ++ rest_text ss2 trail = render_num l0 v0 ++ y0 /\ lay_ws l0 = true).
      { destruct (st_dirs st2) as [|d2 ds2].
        - cbn [flat_map app]. cbn [dirs_layout_ok] in Hd2. apply andb_true_iff in Hd2. destruct Hd2 as [Hw _]. eauto.
        - cbn [flat_map]. rewrite render_dir_split, <- !app_assoc. cbn [dirs_layout_ok] in Hd2. apply andb_true_iff in Hd2. destruct Hd2 as [Hw _]. eauto. }
      destruct Hws2 as (l0 & v0 & y0 & ET & Hw0).
      assert (Hmore : forall lnx, exists lny c t, a_skipws (amk (flat_map render_dir (st_dirs st2) ++ render_num (st_end st2) 0 ++ rest_text ss2 trail) lnx) = amk (c :: t) lny /\ c <> 0).
      { intros lnx. rewrite ET. destruct (skipws_num l0 v0 y0 lnx Hw0) as (lny & E3). destruct (num_core_hd l0 v0 y0) as (c & t & E4 & _ & Hc).
        exists lny, c, t. rewrite E3, E4. auto. }
      destruct (Hmore ln1) as (ln2 & c & t & E2 & Hc).
      assert (E2' : a_skipws (amk (c :: t) ln2) = amk (c :: t) ln2) by (rewrite <- E2; apply skipws_idem).
      assert (Hcz : (c =? 0) = false) by lia.
      assert (Hend : a_end (amk (c :: t) ln2) = false) by (unfold a_end, a_peek; cbn [rest]; exact Hcz).
      unfold more. rewrite E2. rewrite !E2'. rewrite Hend. cbn [negb andb].
      assert (Hlen2 : (Z.of_nat (length (st :: st2 :: ss2)) =? 1) = false) by (cbn [length]; lia).
      rewrite Hlen2. rewrite orb_false_r.
      destruct inc.
      * cbn [negb]. cbv iota beta. rewrite !E2'. rewrite Hend. cbn [negb].
        specialize (IH f true (amk (c :: t) ln2) ln1 false trail ltac:(congruence) Hl Htr).
        rewrite rest_text_cons in IH. rewrite E2 in IH.
        specialize (IH (or_intror eq_refl) ltac:(cbn [length] in *; lia)).
        cbn [orb] in IH. rewrite andb_true_r in *.
        destruct (forallb step_ok (st2 :: ss2)) eqn:Hok2.
        -- rewrite IH. reflexivity.
        -- destruct IH as (cs & ln' & E5). rewrite E5. eexists; eexists; reflexivity.
      * cbn [negb]. rewrite andb_false_r. eexists; eexists; reflexivity.
  - destruct Hdirs as (cs & ln1 & E). rewrite E. cbn [andb]. eexists; eexists; reflexivity.
Qed.

(* ---------------------------------------------------------------- header *)
Lemma match_tok_prefix w X ln : a_match_tok w (amk (w ++ X) ln) = (true, amk X ln).
Proof.
  unfold a_match_tok. cbn [rest aline]. rewrite firstn_app_exact, skipn_app_exact.
  assert (E : list_eqb w w = true) by (apply list_eqb_eq; reflexivity). rewrite E. reflexivity.
Qed.

Lemma skip_blanks n : forall fuel X ln, (n < length fuel)%nat -> hd 0 X <> 32 ->
  skip_blanks_f fuel (amk (repeat 32 n ++ X) ln) = amk X ln.
Proof.
  induction n as [|n IH]; intros fuel X ln Hlen Hhd; (destruct fuel as [|x f]; [cbn in Hlen; lia|]).
  - cbn [repeat app skip_blanks_f]. unfold a_match_tok. cbn [rest aline length].
    destruct X as [|c X']; [reflexivity|]. cbn [hd] in Hhd. cbn [firstn list_eqb].
    assert (E : (c =? 32) = false) by lia. rewrite E. reflexivity.
  - cbn [repeat app skip_blanks_f]. unfold a_match_tok. cbn [rest aline length firstn list_eqb skipn].
    change (32 =? 32) with true. cbn [andb]. apply IH; [cbn [length] in Hlen; lia | exact Hhd].
Qed.

Lemma header_spec h R : hdr_layout_ok h R = true ->
  if r_id (h_rev h)
  then exists ln, read_header (a_init (render_hdr h ++ R)) = ([CInit (h_inc h)], ROk (Some (h_inc h)) (amk R ln))
  else exists ln, read_header (a_init (render_hdr h ++ R)) = ([], RErr ln).
Proof.
  unfold hdr_layout_ok. intros H.
  apply andb_true_iff in H. destruct H as [H Hnl]. apply andb_true_iff in H. destruct H as [H Hrev].
  apply andb_true_iff in H. destruct H as [H Hmin]. apply andb_true_iff in H. destruct H as [Hpre Hmaj].
  unfold read_header, a_init, render_hdr. repeat rewrite <- app_assoc.
  set (X6 := (if h_inc h then incremental_bytes else []) ++ h_nl h ++ R).
  set (X5 := repeat 32 (h_blanks h) ++ X6).
  set (X4 := render_tok (h_rev h) ++ X5).
  set (X3 := render_num (h_minor h) 0 ++ X4).
  set (X2 := render_num (h_major h) 1 ++ X3).
  assert (Hnlne : exists c t, h_nl h = c :: t /\ (c = 10 \/ c = 13)).
  { destruct (h_nl h) as [|c t]; [cbn in Hnl; discriminate|]. exists c, t. split; [reflexivity|].
    cbn [list_eqb] in Hnl. lia. }
  destruct Hnlne as (cn & tn & Enl & Hcn).
  assert (HX6 : exists c t, X6 = c :: t /\ is_digit c = false /\ c <> 32).
  { unfold X6. destruct (h_inc h); [eexists; eexists; cbn; split; [reflexivity | split; [reflexivity | lia]]|].
    rewrite Enl. cbn [app]. exists cn, (tn ++ R). split; [reflexivity|]. unfold is_digit. lia. }
  assert (HX5 : stop_ok X5).
  { unfold X5. destruct (h_blanks h); [|reflexivity]. cbn [repeat app]. destruct HX6 as (c & t & -> & Hd & _). exact Hd. }
  destruct (skipws_app (h_pre h) (asp_bytes ++ X2) 1 (forallb_ws _ Hpre) ltac:(reflexivity)) as (ln0 & E0 & _).
  rewrite E0. change tok_asp with asp_bytes. rewrite match_tok_prefix. cbn [negb]. cbv iota beta.
  (* major *)
  pose proof (spec_range 0 UINT_MAX (h_major h) 1 ltac:(i64) Hmaj X3 ln0 (nd_start_stop _ _ (nd_start_num _ _ Hmin))) as Hc1.
  unfold m_pos. fold X2. fold X2 in Hc1. destruct (m_range 0 UINT_MAX (amk X2 ln0)) as [v1 s1|]; [|discriminate Hc1].
  destruct Hc1 as (_ & -> & Hr1). destruct s1 as [rs1 ln1]. cbn [rest] in Hr1. subst rs1.
  change (negb (1 =? ASPIF_MAJOR)) with false. cbv iota.
  (* minor *)
  pose proof (spec_range 0 UINT_MAX (h_minor h) 0 ltac:(i64) (num_ok_ws _ _ Hmin) X4 ln1 (nd_start_stop _ _ (nd_start_tok _ Hrev))) as Hc2.
  fold X3 in Hc2. destruct (m_range 0 UINT_MAX (amk X3 ln1)) as [v2 s2|]; [|discriminate Hc2].
  destruct Hc2 as (_ & -> & Hr2). destruct s2 as [rs2 ln2]. cbn [rest] in Hr2. subst rs2.
  change (negb (0 =? ASPIF_MINOR)) with false. cbv iota.
  (* revision *)
  assert (Hrevws : lay_ws (fst (h_rev h)) = true) by (unfold tok_ok in Hrev; apply andb_true_iff in Hrev; tauto).
  pose proof (spec_range 0 UINT_MAX (fst (h_rev h)) (snd (h_rev h)) ltac:(i64) Hrevws X5 ln2 HX5) as Hc3.
  change (render_num (fst (h_rev h)) (snd (h_rev h))) with (render_tok (h_rev h)) in Hc3. fold X4 in Hc3.
  unfold r_id, rng, U_MAX. unfold UINT_MAX in *.
  destruct (m_range 0 4294967295 (amk X4 ln2)) as [v3 s3|l3].
  - destruct Hc3 as (Hok & -> & Hr3). destruct s3 as [rs3 ln3]. cbn [rest] in Hr3. subst rs3. rewrite Hok.
    destruct HX6 as (c6 & t6 & E6 & Hd6 & H32).
    cbn [rest]. unfold X5 at 2. rewrite skip_blanks; [| unfold X5; rewrite app_length, repeat_length, E6; cbn [length]; lia | rewrite E6; exact H32].
    exists (ln3 + 1). unfold X6.
    assert (Hget : a_get (amk (h_nl h ++ R) ln3) = (10, amk R (ln3 + 1))).
    { unfold a_get. cbn [rest aline].
      apply orb_true_iff in Hnl. destruct Hnl as [Hnl|Hnl]; [apply orb_true_iff in Hnl; destruct Hnl as [Hnl|Hnl]|].
      - apply list_eqb_eq in Hnl. rewrite Hnl. reflexivity.
      - apply list_eqb_eq in Hnl. rewrite Hnl. reflexivity.
      - apply andb_true_iff in Hnl. destruct Hnl as [Hnl HR]. apply list_eqb_eq in Hnl. rewrite Hnl. cbn [app].
        change (13 =? 13) with true. cbv iota. destruct R as [|c R']; [reflexivity|].
        destruct (Z.eqb_spec c 10); [discriminate HR|].
        destruct c; try reflexivity. destruct p; try reflexivity. destruct p; try reflexivity. destruct p; try reflexivity.
        destruct p; try reflexivity. contradiction. }
    destruct (h_inc h).
    + change tok_incremental with incremental_bytes. rewrite match_tok_prefix. rewrite Hget. reflexivity.
    + cbn [app]. assert (Hno : a_match_tok tok_incremental (amk (h_nl h ++ R) ln3) = (false, amk (h_nl h ++ R) ln3)).
      { unfold a_match_tok. cbn [rest]. rewrite Enl. cbn [app length tok_incremental V.Gen.Consts_C01.rd_tok_incremental firstn list_eqb].
        assert (E : (cn =? 105) = false) by lia. rewrite E. reflexivity. }
      rewrite Hno. rewrite Hget. reflexivity.
  - rewrite Hc3. eexists; reflexivity.
Qed.

(* ---------------------------------------------------------------- whole programs *)
Lemma render_step_len st : (1 <= length (render_step st))%nat.
Proof.
  unfold render_step. rewrite app_length, render_num_core, app_length.
  destruct (num_core_hd (st_end st) 0 []) as (c & t & E & _). rewrite app_nil_r in E. rewrite E. cbn [length]. lia.
Qed.
Lemma len_steps ss : (length ss <= length (flat_map render_step ss))%nat.
Proof. induction ss as [|s ss IH]; [cbn; lia|]. cbn [flat_map length]. rewrite app_length. pose proof (render_step_len s). lia. Qed.

Lemma read_program a : wf_layout a = true ->
  if in_range a then read_all (render a) = (calls a, Ok)
  else exists cs ln, read_all (render a) = (cs, Err ln).
Proof.
  unfold wf_layout, in_range. intros H. apply andb_true_iff in H. destruct H as [H Htr]. apply andb_true_iff in H. destruct H as [Hh Hs].
  unfold read_all, read_with, render.
  pose proof (header_spec (p_hdr a) (flat_map render_step (p_steps a) ++ p_trail a) Hh) as Hhdr.
  destruct (r_id (h_rev (p_hdr a))).
  2:{ destruct Hhdr as (ln & E). rewrite E. cbn [andb]. eexists; eexists; reflexivity. }
  destruct Hhdr as (ln & E). rewrite E. cbn [andb rest].
  destruct (p_steps a) as [|st ss] eqn:Ess.
  - (* no step at all *)
    cbn [flat_map app forallb andb].
    destruct (match_int_none (p_trail a) [] ln (forallb_ws _ Htr) I) as (ln' & _ & En & El); [intros c r' Hc; discriminate Hc|].
    rewrite app_nil_r in En, El.
    cbn [parse_complete]. unfold parse_round, read_step. cbn [dirs rest]. unfold m_pos, m_range.
    destruct (a_match_int false (amk (p_trail a) ln)) as [[v|] s']; cbn [fst] in En; [discriminate En|].
    eexists; eexists; reflexivity.
  - pose proof (steps_spec (st :: ss) (0 :: (flat_map render_step (st :: ss) ++ p_trail a)) (h_inc (p_hdr a))
                  (amk (flat_map render_step (st :: ss) ++ p_trail a) ln) ln true (p_trail a) ltac:(congruence) Hs (forallb_ws _ Htr)
                  (or_introl eq_refl)) as Hst.
    specialize (Hst ltac:(cbn [length]; rewrite app_length; pose proof (len_steps (st :: ss)); cbn [length] in *; lia)).
    assert (Eok : match st :: ss with [] => false | [_] => true | _ :: _ :: _ => h_inc (p_hdr a) end
                  = (h_inc (p_hdr a) || (Z.of_nat (length (st :: ss)) =? 1))).
    { destruct ss as [|st2 ss2]; [cbn [length]; change (Z.of_nat 1 =? 1) with true; rewrite orb_true_r; reflexivity|].
      assert (El : (Z.of_nat (length (st :: st2 :: ss2)) =? 1) = false) by (cbn [length]; lia). rewrite El, orb_false_r. reflexivity. }
    rewrite Eok. change (forallb (fun s => forallb dir_in_range (st_dirs s)) (st :: ss)) with (forallb step_ok (st :: ss)).
    destruct (forallb step_ok (st :: ss) && (h_inc (p_hdr a) || (Z.of_nat (length (st :: ss)) =? 1))).
    + rewrite Hst. unfold calls. rewrite Ess. reflexivity.
    + destruct Hst as (cs & ln' & E2). rewrite E2. eexists; eexists; reflexivity.
Qed.

Theorem c03_complete_lemma a : wf_layout a = true -> in_range a = true -> read_all (render a) = (calls a, Ok).
Proof. intros Hl Hr. pose proof (read_program a Hl) as H. rewrite Hr in H. exact H. Qed.

Theorem c03_rejects_lemma a : wf_layout a = true -> in_range a = false -> exists cs ln, read_all (render a) = (cs, Err ln).
Proof. intros Hl Hr. pose proof (read_program a Hl) as H. rewrite Hr in H. exact H. Qed.
