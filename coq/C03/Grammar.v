(* C03 - the GENERAL declarative description of aspif texts: exactly the texts the reader accepts.

   Like C03/Spec.v an abstract program (gprog) is the STRUCTURE of a text - header, steps, directives,
   every numeric field an UNBOUNDED integer - together with its LAYOUT.  The layout here is as liberal
   as the format itself:
     * a number token is   white space*  [+|-]  0*  decimal digits   ("-0", "+0", "007" are numbers);
       it must be followed by something that is not a digit (otherwise the digits would belong to it) -
       this is the ONLY separation requirement: "1+2", "3-4" are two tokens each; after a raw string or a
       line end nothing is required;
     * a raw string is  <length token> <one separator> <length bytes>; the separator is whatever ONE
       get() of the stream consumes: any single byte, or CR LF;
     * a comment is  10<text><line end>, line end = LF | CR LF | CR (a CR not followed by LF);
     * the header is  ws* "asp " major minor revision ' '* ["incremental"] <line end>;
     * after the last step: white space, then the end of the text (or a NUL byte, which the stream takes
       for the end of input, and then anything).
   Counts, string lengths, directive / theory / body codes are determined by the structure.
   Every well-formedness condition is relative to the bytes that FOLLOW the piece (nx), because whether
   a token ends depends on what comes next:   x_wf piece nx.
     grender a    the bytes of the text
     gwf a        the layout is one (see above)
     gin_range a  every field inside the range of its field; revision fits 32 bits; >= 1 step, exactly 1 unless incremental
     gcalls a     the AbstractProgram calls the text denotes
   Nothing here mentions the reader.                                                                  *)
Require Import V.Lib.Base V.Lib.Calls V.Lib.Dec.
Local Open Scope Z_scope.

Definition GI_MAX : Z := 2147483647.        (* 2^31-1 *)
Definition GI_MIN : Z := -2147483648.
Definition GU_MAX : Z := 4294967295.        (* 2^32-1 *)

(* ---- one number token ---- *)
Inductive gsign := SgNone | SgPlus | SgMinus.
Record glay := mkGLay { g_ws : list Z; g_sg : gsign; g_zeros : nat }.
Definition gtok := (glay * Z)%type.

Definition gsign_bytes (s : gsign) : list Z := match s with SgNone => [] | SgPlus => [43] | SgMinus => [45] end.
Definition gnum (l : glay) (v : Z) : list Z :=
  g_ws l ++ gsign_bytes (g_sg l) ++ repeat 48 (g_zeros l) ++ print_nat (Z.abs v).
Definition gtok_r (t : gtok) : list Z := gnum (fst t) (snd t).

(* the following bytes do not continue a digit run *)
Definition stops (nx : list Z) : bool := match nx with c :: _ => negb (is_digit c) | [] => true end.
(* '-' only in front of a number <= 0, no sign or '+' only in front of a number >= 0 *)
Definition gsign_ok (s : gsign) (v : Z) : bool := match s with SgMinus => v <=? 0 | _ => 0 <=? v end.
Definition gnum_wf (l : glay) (v : Z) (nx : list Z) : bool :=
  forallb is_ws (g_ws l) && gsign_ok (g_sg l) v && stops nx.
Definition gtok_wf (t : gtok) (nx : list Z) : bool := gnum_wf (fst t) (snd t) nx.

(* a sequence of pieces, each well-formed in front of everything that follows it *)
Fixpoint gseq_wf {X} (r : X -> list Z) (w : X -> list Z -> bool) (xs : list X) (nx : list Z) : bool :=
  match xs with
  | [] => true
  | x :: xs' => w x (flat_map r xs' ++ nx) && gseq_wf r w xs' nx
  end.

(* ---- lists and strings ---- *)
Definition gtlist := (glay * list gtok)%type.                       (* count layout, elements *)
Definition gwpair := (gtok * gtok)%type.                            (* literal, weight *)
Definition gwlist := (glay * list gwpair)%type.
Record gstr := mkGStr { gs_lay : glay; gs_sep : list Z; gs_bytes : list Z }.

Definition gtlist_r (l : gtlist) : list Z := gnum (fst l) (Z.of_nat (length (snd l))) ++ flat_map gtok_r (snd l).
Definition gtlist_wf (l : gtlist) (nx : list Z) : bool :=
  gnum_wf (fst l) (Z.of_nat (length (snd l))) (flat_map gtok_r (snd l) ++ nx) && gseq_wf gtok_r gtok_wf (snd l) nx.

Definition gwpair_r (p : gwpair) : list Z := gtok_r (fst p) ++ gtok_r (snd p).
Definition gwpair_wf (p : gwpair) (nx : list Z) : bool := gtok_wf (fst p) (gtok_r (snd p) ++ nx) && gtok_wf (snd p) nx.
Definition gwlist_r (l : gwlist) : list Z := gnum (fst l) (Z.of_nat (length (snd l))) ++ flat_map gwpair_r (snd l).
Definition gwlist_wf (l : gwlist) (nx : list Z) : bool :=
  gnum_wf (fst l) (Z.of_nat (length (snd l))) (flat_map gwpair_r (snd l) ++ nx) && gseq_wf gwpair_r gwpair_wf (snd l) nx.

(* what ONE get() consumes in front of [after]: a single byte (a CR only if no LF follows), or CR LF *)
Definition one_get (bs after : list Z) : bool :=
  match bs with
  | [c] => negb (c =? 13) || negb (hd 0 after =? 10)
  | [c; d] => (c =? 13) && (d =? 10)
  | _ => false
  end.
(* LF | CR LF | CR *)
Definition line_end (nl after : list Z) : bool := one_get nl after && ((hd 0 nl =? 10) || (hd 0 nl =? 13)).

Definition gstr_r (s : gstr) : list Z := gnum (gs_lay s) (Z.of_nat (length (gs_bytes s))) ++ gs_sep s ++ gs_bytes s.
Definition gstr_wf (s : gstr) (nx : list Z) : bool :=
  gnum_wf (gs_lay s) (Z.of_nat (length (gs_bytes s))) (gs_sep s ++ gs_bytes s ++ nx) && one_get (gs_sep s) (gs_bytes s ++ nx).

(* ---- directives: (layout of the code token, body) ---- *)
Inductive gbody :=
| BRule (ht : gtok) (head : gtlist) (bt : glay) (body : gtlist)                          (* 1 ht head 0 body *)
| BWRule (ht : gtok) (head : gtlist) (bt : glay) (count_code : bool) (bound : gtok) (body : gwlist)   (* 1 ht head 1|2 bound body *)
| BMin (prio : gtok) (lits : gwlist)
| BProject (atoms : gtlist)
| BOutput (s : gstr) (cond : gtlist)
| BExternal (a v : gtok)
| BAssume (lits : gtlist)
| BHeur (t a bias prio : gtok) (cond : gtlist)
| BEdge (s t : gtok) (cond : gtlist)
| BTNum (ty : glay) (id n : gtok)
| BTSym (ty : glay) (id : gtok) (s : gstr)
| BTComp (ty : glay) (id cc : gtok) (args : gtlist)
| BTElem (ty : glay) (id : gtok) (terms cond : gtlist)
| BTAtom (ty : glay) (a t : gtok) (elems : gtlist)
| BTAtomG (ty : glay) (a t : gtok) (elems : gtlist) (op rhs : gtok)
| BComment (text : list Z) (nl : list Z)          (* 10<text><line end> *)
| BBadDir (code : Z)                              (* a directive code outside 0..10 *)
| BBadTheory (ty id : gtok).                      (* 9 ty id with ty not one of 0,1,2,4,5,6 *)
Definition gdir := (glay * gbody)%type.

Definition gcode (b : gbody) : Z :=
  match b with
  | BRule _ _ _ _ | BWRule _ _ _ _ _ _ => 1 | BMin _ _ => 2 | BProject _ => 3 | BOutput _ _ => 4
  | BExternal _ _ => 5 | BAssume _ => 6 | BHeur _ _ _ _ _ => 7 | BEdge _ _ _ => 8
  | BTNum _ _ _ | BTSym _ _ _ | BTComp _ _ _ _ | BTElem _ _ _ _ | BTAtom _ _ _ _ | BTAtomG _ _ _ _ _ _
  | BBadTheory _ _ => 9
  | BComment _ _ => 10
  | BBadDir c => c
  end.

Definition gbody_r (b : gbody) : list Z :=
  match b with
  | BRule ht head bt body => gtok_r ht ++ gtlist_r head ++ gnum bt 0 ++ gtlist_r body
  | BWRule ht head bt cc bound body =>
      gtok_r ht ++ gtlist_r head ++ gnum bt (if cc then 2 else 1) ++ gtok_r bound ++ gwlist_r body
  | BMin prio lits => gtok_r prio ++ gwlist_r lits
  | BProject atoms => gtlist_r atoms
  | BOutput s cond => gstr_r s ++ gtlist_r cond
  | BExternal a v => gtok_r a ++ gtok_r v
  | BAssume lits => gtlist_r lits
  | BHeur t a bias prio cond => gtok_r t ++ gtok_r a ++ gtok_r bias ++ gtok_r prio ++ gtlist_r cond
  | BEdge s t cond => gtok_r s ++ gtok_r t ++ gtlist_r cond
  | BTNum ty id n => gnum ty 0 ++ gtok_r id ++ gtok_r n
  | BTSym ty id s => gnum ty 1 ++ gtok_r id ++ gstr_r s
  | BTComp ty id cc args => gnum ty 2 ++ gtok_r id ++ gtok_r cc ++ gtlist_r args
  | BTElem ty id terms cond => gnum ty 4 ++ gtok_r id ++ gtlist_r terms ++ gtlist_r cond
  | BTAtom ty a t elems => gnum ty 5 ++ gtok_r a ++ gtok_r t ++ gtlist_r elems
  | BTAtomG ty a t elems op rhs => gnum ty 6 ++ gtok_r a ++ gtok_r t ++ gtlist_r elems ++ gtok_r op ++ gtok_r rhs
  | BComment text nl => text ++ nl
  | BBadDir _ => []
  | BBadTheory ty id => gtok_r ty ++ gtok_r id
  end.
Definition gdir_r (d : gdir) : list Z := gnum (fst d) (gcode (snd d)) ++ gbody_r (snd d).

Definition gtheory_code (v : Z) : bool := (v =? 0) || (v =? 1) || (v =? 2) || (v =? 4) || (v =? 5) || (v =? 6).
(* the text of a comment stays on its line and does not contain NUL *)
Definition gtext_plain (text : list Z) : bool := forallb (fun c => negb (c =? 10) && negb (c =? 13) && negb (c =? 0)) text.

Definition gbody_wf (b : gbody) (nx : list Z) : bool :=
  match b with
  | BRule ht head bt body =>
      gtok_wf ht (gtlist_r head ++ gnum bt 0 ++ gtlist_r body ++ nx) && (gtlist_wf head (gnum bt 0 ++ gtlist_r body ++ nx)
      && (gnum_wf bt 0 (gtlist_r body ++ nx) && gtlist_wf body nx))
  | BWRule ht head bt cc bound body =>
      gtok_wf ht (gtlist_r head ++ gnum bt (if cc then 2 else 1) ++ gtok_r bound ++ gwlist_r body ++ nx)
      && (gtlist_wf head (gnum bt (if cc then 2 else 1) ++ gtok_r bound ++ gwlist_r body ++ nx)
      && (gnum_wf bt (if cc then 2 else 1) (gtok_r bound ++ gwlist_r body ++ nx)
      && (gtok_wf bound (gwlist_r body ++ nx) && gwlist_wf body nx)))
  | BMin prio lits => gtok_wf prio (gwlist_r lits ++ nx) && gwlist_wf lits nx
  | BProject atoms => gtlist_wf atoms nx
  | BOutput s cond => gstr_wf s (gtlist_r cond ++ nx) && gtlist_wf cond nx
  | BExternal a v => gtok_wf a (gtok_r v ++ nx) && gtok_wf v nx
  | BAssume lits => gtlist_wf lits nx
  | BHeur t a bias prio cond =>
      gtok_wf t (gtok_r a ++ gtok_r bias ++ gtok_r prio ++ gtlist_r cond ++ nx) && (gtok_wf a (gtok_r bias ++ gtok_r prio ++ gtlist_r cond ++ nx)
      && (gtok_wf bias (gtok_r prio ++ gtlist_r cond ++ nx) && (gtok_wf prio (gtlist_r cond ++ nx) && gtlist_wf cond nx)))
  | BEdge s t cond => gtok_wf s (gtok_r t ++ gtlist_r cond ++ nx) && (gtok_wf t (gtlist_r cond ++ nx) && gtlist_wf cond nx)
  | BTNum ty id n => gnum_wf ty 0 (gtok_r id ++ gtok_r n ++ nx) && (gtok_wf id (gtok_r n ++ nx) && gtok_wf n nx)
  | BTSym ty id s => gnum_wf ty 1 (gtok_r id ++ gstr_r s ++ nx) && (gtok_wf id (gstr_r s ++ nx) && gstr_wf s nx)
  | BTComp ty id cc args =>
      gnum_wf ty 2 (gtok_r id ++ gtok_r cc ++ gtlist_r args ++ nx) && (gtok_wf id (gtok_r cc ++ gtlist_r args ++ nx)
      && (gtok_wf cc (gtlist_r args ++ nx) && gtlist_wf args nx))
  | BTElem ty id terms cond =>
      gnum_wf ty 4 (gtok_r id ++ gtlist_r terms ++ gtlist_r cond ++ nx) && (gtok_wf id (gtlist_r terms ++ gtlist_r cond ++ nx)
      && (gtlist_wf terms (gtlist_r cond ++ nx) && gtlist_wf cond nx))
  | BTAtom ty a t elems =>
      gnum_wf ty 5 (gtok_r a ++ gtok_r t ++ gtlist_r elems ++ nx) && (gtok_wf a (gtok_r t ++ gtlist_r elems ++ nx)
      && (gtok_wf t (gtlist_r elems ++ nx) && gtlist_wf elems nx))
  | BTAtomG ty a t elems op rhs =>
      gnum_wf ty 6 (gtok_r a ++ gtok_r t ++ gtlist_r elems ++ gtok_r op ++ gtok_r rhs ++ nx)
      && (gtok_wf a (gtok_r t ++ gtlist_r elems ++ gtok_r op ++ gtok_r rhs ++ nx)
      && (gtok_wf t (gtlist_r elems ++ gtok_r op ++ gtok_r rhs ++ nx) && (gtlist_wf elems (gtok_r op ++ gtok_r rhs ++ nx)
      && (gtok_wf op (gtok_r rhs ++ nx) && gtok_wf rhs nx))))
  | BComment text nl => gtext_plain text && line_end nl nx
  | BBadDir c => negb ((0 <=? c) && (c <=? 10))
  | BBadTheory ty id => gtok_wf ty (gtok_r id ++ nx) && (gtok_wf id nx && negb (gtheory_code (snd ty)))
  end.
(* the code token ends where the body begins (so a comment's text does not begin with a digit) *)
Definition gdir_wf (d : gdir) (nx : list Z) : bool :=
  gnum_wf (fst d) (gcode (snd d)) (gbody_r (snd d) ++ nx) && gbody_wf (snd d) nx.

(* ---- ranges of the fields ---- *)
Definition grng (lo hi : Z) (t : gtok) : bool := (lo <=? snd t) && (snd t <=? hi).
Definition gr_atom (t : gtok) : bool := grng 1 GI_MAX t.
Definition gr_lit (t : gtok) : bool := negb (snd t =? 0) && grng (- GI_MAX) GI_MAX t.
Definition gr_id (t : gtok) : bool := grng 0 GU_MAX t.
Definition gr_i32 (t : gtok) : bool := grng GI_MIN GI_MAX t.
Definition gr_count {A} (l : list A) : bool := Z.of_nat (length l) <=? GU_MAX.
Definition gr_list (f : gtok -> bool) (l : gtlist) : bool := gr_count (snd l) && forallb f (snd l).
Definition gr_wpair (minw : Z) (p : gwpair) : bool := gr_lit (fst p) && grng minw GI_MAX (snd p).
Definition gr_wlist (minw : Z) (l : gwlist) : bool := gr_count (snd l) && forallb (gr_wpair minw) (snd l).
Definition gr_str (s : gstr) : bool := Z.of_nat (length (gs_bytes s)) <=? GI_MAX.

Definition gbody_in (b : gbody) : bool :=
  match b with
  | BRule ht head _ body => grng 0 1 ht && (gr_list gr_atom head && gr_list gr_lit body)
  | BWRule ht head _ _ bound body => grng 0 1 ht && (gr_list gr_atom head && (gr_i32 bound && gr_wlist 0 body))
  | BMin prio lits => gr_i32 prio && gr_wlist GI_MIN lits
  | BProject atoms => gr_list gr_atom atoms
  | BOutput s cond => gr_str s && gr_list gr_lit cond
  | BExternal a v => gr_atom a && grng 0 3 v
  | BAssume lits => gr_list gr_lit lits
  | BHeur t a bias prio cond => grng 0 5 t && (gr_atom a && (gr_i32 bias && (grng 0 GI_MAX prio && gr_list gr_lit cond)))
  | BEdge s t cond => grng 0 GI_MAX s && (grng 0 GI_MAX t && gr_list gr_lit cond)
  | BTNum _ id n => gr_id id && gr_i32 n
  | BTSym _ id s => gr_id id && gr_str s
  | BTComp _ id cc args => gr_id id && (grng (-3) GI_MAX cc && gr_list gr_id args)
  | BTElem _ id terms cond => gr_id id && (gr_list gr_id terms && gr_list gr_lit cond)
  | BTAtom _ a t elems => gr_id a && (gr_id t && gr_list gr_id elems)
  | BTAtomG _ a t elems op rhs => gr_id a && (gr_id t && (gr_list gr_id elems && (gr_id op && gr_id rhs)))
  | BComment _ _ => true
  | BBadDir _ => false
  | BBadTheory _ _ => false
  end.
Definition gdir_in (d : gdir) : bool := gbody_in (snd d).

(* ---- steps, header, program ---- *)
Record gstep := mkGStep { gst_dirs : list gdir; gst_end : glay }.
Definition gstep_r (s : gstep) : list Z := flat_map gdir_r (gst_dirs s) ++ gnum (gst_end s) 0.
Definition gstep_wf (s : gstep) (nx : list Z) : bool :=
  gseq_wf gdir_r gdir_wf (gst_dirs s) (gnum (gst_end s) 0 ++ nx) && gnum_wf (gst_end s) 0 nx.

Record ghdr := mkGHdr { gh_pre : list Z; gh_major : glay; gh_minor : glay; gh_rev : gtok; gh_blanks : nat; gh_inc : bool; gh_nl : list Z }.
Definition gasp_bytes : list Z := [97; 115; 112; 32].                                            (* "asp " *)
Definition gincremental_bytes : list Z := [105; 110; 99; 114; 101; 109; 101; 110; 116; 97; 108].   (* "incremental" *)
Definition ghdr_tail (h : ghdr) : list Z :=
  repeat 32 (gh_blanks h) ++ (if gh_inc h then gincremental_bytes else []) ++ gh_nl h.
Definition ghdr_r (h : ghdr) : list Z :=
  gh_pre h ++ gasp_bytes ++ gnum (gh_major h) 1 ++ gnum (gh_minor h) 0 ++ gtok_r (gh_rev h) ++ ghdr_tail h.
Definition ghdr_wf (h : ghdr) (nx : list Z) : bool :=
  forallb is_ws (gh_pre h)
  && (gnum_wf (gh_major h) 1 (gnum (gh_minor h) 0 ++ gtok_r (gh_rev h) ++ ghdr_tail h ++ nx)
  && (gnum_wf (gh_minor h) 0 (gtok_r (gh_rev h) ++ ghdr_tail h ++ nx)
  && (gtok_wf (gh_rev h) (ghdr_tail h ++ nx) && line_end (gh_nl h) nx))).

Record gprog := mkGProg { gp_hdr : ghdr; gp_steps : list gstep; gp_trail : list Z }.
Definition grender (a : gprog) : list Z := ghdr_r (gp_hdr a) ++ flat_map gstep_r (gp_steps a) ++ gp_trail a.

(* after the last step: white space up to the end of the text (a NUL byte counts as the end) *)
Fixpoint drop_ws (l : list Z) : list Z := match l with c :: r => if is_ws c then drop_ws r else l | [] => [] end.
Definition gtrail_ok (tr : list Z) : bool := match drop_ws tr with [] => true | c :: _ => c =? 0 end.

Definition gwf (a : gprog) : bool :=
  ghdr_wf (gp_hdr a) (flat_map gstep_r (gp_steps a) ++ gp_trail a)
  && (gseq_wf gstep_r gstep_wf (gp_steps a) (gp_trail a) && gtrail_ok (gp_trail a)).

Definition gstep_in (s : gstep) : bool := forallb gdir_in (gst_dirs s).
Definition gin_range (a : gprog) : bool :=
  gr_id (gh_rev (gp_hdr a))
  && (forallb gstep_in (gp_steps a)
  && match gp_steps a with [] => false | [_] => true | _ => gh_inc (gp_hdr a) end).

(* ---- denoted calls ---- *)
Definition gvals (l : gtlist) : list Z := map snd (snd l).
Definition gwval (p : gwpair) : Z * Z := (snd (fst p), snd (snd p)).
Definition gwvals (l : gwlist) : list (Z * Z) := filter (fun p => negb (snd p =? 0)) (map gwval (snd l)).

Definition gcall_of (b : gbody) : option call :=
  match b with
  | BRule ht head _ body => Some (CRule (snd ht) (gvals head) (gvals body))
  | BWRule ht head _ _ bound body => Some (CWRule (snd ht) (gvals head) (snd bound) (gwvals body))
  | BMin prio lits => Some (CMin (snd prio) (gwvals lits))
  | BProject atoms => Some (CProject (gvals atoms))
  | BOutput s cond => Some (COutput (gs_bytes s) (gvals cond))
  | BExternal a v => Some (CExternal (snd a) (snd v))
  | BAssume lits => Some (CAssume (gvals lits))
  | BHeur t a bias prio cond => Some (CHeuristic (snd a) (snd t) (snd bias) (snd prio) (gvals cond))
  | BEdge s t cond => Some (CEdge (snd s) (snd t) (gvals cond))
  | BTNum _ id n => Some (CTNum (snd id) (snd n))
  | BTSym _ id s => Some (CTSym (snd id) (gs_bytes s))
  | BTComp _ id cc args => Some (CTComp (snd id) (snd cc) (gvals args))
  | BTElem _ id terms cond => Some (CTElem (snd id) (gvals terms) (gvals cond))
  | BTAtom _ a t elems => Some (CTAtom (snd a) (snd t) (gvals elems))
  | BTAtomG _ a t elems op rhs => Some (CTAtomG (snd a) (snd t) (gvals elems) (snd op) (snd rhs))
  | BComment _ _ | BBadDir _ | BBadTheory _ _ => None
  end.

Fixpoint gdir_calls (ds : list gdir) : list call :=
  match ds with
  | [] => []
  | d :: r => match gcall_of (snd d) with Some c => c :: gdir_calls r | None => gdir_calls r end
  end.
Definition gstep_calls (s : gstep) : list call := CBegin :: gdir_calls (gst_dirs s) ++ [CEnd].
Definition gcalls (a : gprog) : list call := CInit (gh_inc (gp_hdr a)) :: flat_map gstep_calls (gp_steps a).

(* ---- cutting a text in two: the cut falls between two digits (then the parts of a number end up on both sides) ---- *)
Definition ends_digit (p : list Z) : bool := is_digit (last p 0).
Definition cut_in_number (p q : list Z) : bool := ends_digit p && negb (stops q).
