(* C03 - general description: every directive of the reader model, forward (directive_run) and backward (directive_inv). *)
Require Import V.Lib.Base V.Lib.Calls V.Lib.Dec V.C09.Spec V.Gen.Consts V.Gen.Consts_C01 V.C01.Read V.C01.ProofsPrim
  V.C03.Grammar V.C03.ProofsG1 V.C03.ProofsG2.
Require Import ZifyBool.
Local Open Scope Z_scope.

Definition gis_comment (b : gbody) : bool := match b with BComment _ _ => true | _ => false end.

(* ================================================================ forward *)
Lemma run_code lo hi l v nx : INT64_OK lo hi -> gnum_wf l v nx = true -> (lo <=? v) && (v <=? hi) = true ->
  run (m_range lo hi) (gnum l v ++ nx) nx true v.
Proof. intros Hb Hw Hin. rewrite <- Hin. apply run_range; assumption. Qed.

Ltac split_ok :=
  repeat match goal with
         | H : _ && _ = true |- _ => apply andb_true_iff in H; destruct H
         end.
Ltac fld :=
  first [ apply run_tok_range; [i64 | assumption]
        | apply run_tok_lit; assumption
        | apply run_atoms; assumption | apply run_lits; assumption | apply run_ids; assumption
        | apply run_wlits; [vm_compute; congruence | assumption]
        | apply run_string; assumption ].
Ltac code := apply run_code; [i64 | assumption | reflexivity].
Ltac nxt := eapply run_bind; [fld | intros _; cbv beta].
Ltac nxt_code := eapply run_bind_code; [code | cbv beta].
Ltac lst := first [ apply run_map; fld
                  | match goal with |- run (bind ?P (fun x => ret (@?g x))) _ _ _ _ => apply (run_map P g); fld end ].

Lemma directive_run b nx :
  gbody_wf b nx = true -> gis_comment b = false -> (0 <=? gcode b) && (gcode b <=? 10) = true ->
  run (directive (gcode b)) (gbody_r b ++ nx) nx (gbody_in b) (gcall_of b).
Proof.
  intros Hl Hc Hcode.
  destruct b; cbn [gbody_wf gcode gbody_r gbody_in gcall_of gis_comment] in *; try discriminate; split_ok;
    repeat rewrite <- app_assoc.
  - (* BRule *) change (directive 1) with
      (ht0 <- m_pos enum_Head_t_max ;; head0 <- m_atoms ;; bt0 <- m_pos enum_Body_t_max ;;
       if bt0 =? Body_t_Normal then body0 <- m_lits ;; ret (Some (CRule ht0 head0 body0))
       else bound <- m_int ;; body0 <- m_wlits 0 ;; ret (Some (CWRule ht0 head0 bound body0))).
    nxt. nxt. nxt_code. change (0 =? Body_t_Normal) with true. cbv iota. lst.
  - (* BWRule *) change (directive 1) with
      (ht0 <- m_pos enum_Head_t_max ;; head0 <- m_atoms ;; bt0 <- m_pos enum_Body_t_max ;;
       if bt0 =? Body_t_Normal then body0 <- m_lits ;; ret (Some (CRule ht0 head0 body0))
       else bound <- m_int ;; body0 <- m_wlits 0 ;; ret (Some (CWRule ht0 head0 bound body0))).
    destruct count_code.
    + nxt. nxt. nxt_code. change (2 =? Body_t_Normal) with false. cbv iota. nxt. lst.
    + nxt. nxt. nxt_code. change (1 =? Body_t_Normal) with false. cbv iota. nxt. lst.
  - (* BMin *) change (directive 2) with (prio0 <- m_int ;; body0 <- m_wlits INT_MIN ;; ret (Some (CMin prio0 body0))).
    nxt. lst.
  - (* BProject *) change (directive 3) with (atoms0 <- m_atoms ;; ret (Some (CProject atoms0))). lst.
  - (* BOutput *) change (directive 4) with (name <- m_string ;; cond0 <- m_lits ;; ret (Some (COutput name cond0))).
    nxt. lst.
  - (* BExternal *) change (directive 5) with (a0 <- m_atom ;; v0 <- m_pos enum_Value_t_max ;; ret (Some (CExternal a0 v0))).
    nxt. lst.
  - (* BAssume *) change (directive 6) with (lits0 <- m_lits ;; ret (Some (CAssume lits0))). lst.
  - (* BHeur *) change (directive 7) with
      (t0 <- m_pos enum_Heuristic_t_max ;; a0 <- m_atom ;; bias0 <- m_int ;; prio0 <- m_pos INT_MAX ;;
       cond0 <- m_lits ;; ret (Some (CHeuristic a0 t0 bias0 prio0 cond0))).
    nxt. nxt. nxt. nxt. lst.
  - (* BEdge *) change (directive 8) with
      (s0 <- m_pos INT_MAX ;; t0 <- m_pos INT_MAX ;; cond0 <- m_lits ;; ret (Some (CEdge s0 t0 cond0))).
    nxt. nxt. lst.
  - (* BTNum *) change (directive 9) with (c0 <- theory ;; ret (Some c0)). unfold theory.
    apply (run_map _ (@Some call)). nxt_code. nxt. change (0 =? Theory_t_Number) with true. cbv iota. lst.
  - (* BTSym *) change (directive 9) with (c0 <- theory ;; ret (Some c0)). unfold theory.
    apply (run_map _ (@Some call)). nxt_code. nxt.
    change (1 =? Theory_t_Number) with false. change (1 =? Theory_t_Symbol) with true. cbv iota. lst.
  - (* BTComp *) change (directive 9) with (c0 <- theory ;; ret (Some c0)). unfold theory.
    apply (run_map _ (@Some call)). nxt_code. nxt.
    change (2 =? Theory_t_Number) with false. change (2 =? Theory_t_Symbol) with false. change (2 =? Theory_t_Compound) with true. cbv iota.
    nxt. lst.
  - (* BTElem *) change (directive 9) with (c0 <- theory ;; ret (Some c0)). unfold theory.
    apply (run_map _ (@Some call)). nxt_code. nxt.
    change (4 =? Theory_t_Number) with false. change (4 =? Theory_t_Symbol) with false. change (4 =? Theory_t_Compound) with false.
    change (4 =? Theory_t_Element) with true. cbv iota.
    nxt. lst.
  - (* BTAtom *) change (directive 9) with (c0 <- theory ;; ret (Some c0)). unfold theory.
    apply (run_map _ (@Some call)). nxt_code. nxt.
    change (5 =? Theory_t_Number) with false. change (5 =? Theory_t_Symbol) with false. change (5 =? Theory_t_Compound) with false.
    change (5 =? Theory_t_Element) with false. change (5 =? Theory_t_Atom) with true. cbv iota.
    nxt. lst.
  - (* BTAtomG *) change (directive 9) with (c0 <- theory ;; ret (Some c0)). unfold theory.
    apply (run_map _ (@Some call)). nxt_code. nxt.
    change (6 =? Theory_t_Number) with false. change (6 =? Theory_t_Symbol) with false. change (6 =? Theory_t_Compound) with false.
    change (6 =? Theory_t_Element) with false. change (6 =? Theory_t_Atom) with false. change (6 =? Theory_t_AtomWithGuard) with true. cbv iota.
    nxt. nxt. nxt. lst.
  - (* BBadDir: code outside 0..10 *) exfalso. lia.
  - (* BBadTheory *) change (directive 9) with (c0 <- theory ;; ret (Some c0)).
    assert (Hth : run theory (gtok_r ty ++ gtok_r id ++ nx) nx (grng 0 GU_MAX ty && (grng 0 GU_MAX id && false)) CBegin).
    { unfold theory. nxt. eapply run_bind; [fld|]. intros _. cbv beta.
      match goal with Hn : negb (gtheory_code _) = true |- _ => unfold gtheory_code in Hn end.
      unfold Theory_t_Number, Theory_t_Symbol, Theory_t_Compound, Theory_t_Element, Theory_t_Atom, Theory_t_AtomWithGuard.
      assert (E0 : (snd ty =? 0) = false) by lia. assert (E1 : (snd ty =? 1) = false) by lia. assert (E2 : (snd ty =? 2) = false) by lia.
      assert (E4 : (snd ty =? 4) = false) by lia. assert (E5 : (snd ty =? 5) = false) by lia. assert (E6 : (snd ty =? 6) = false) by lia.
      rewrite E0, E1, E2, E4, E5, E6. apply run_fail. }
    intros ln. specialize (Hth ln). unfold bind, ret.
    destruct (theory (amk (gtok_r ty ++ gtok_r id ++ nx) ln)); [|reflexivity].
    destruct Hth as (Hf & _). destruct (grng 0 GU_MAX ty), (grng 0 GU_MAX id); discriminate.
Qed.

(* ================================================================ backward *)
Definition binv (b : gbody) (rt : Z) (s : ast) (oc : option call) (s' : ast) : Prop :=
  gcode b = rt /\ rest s = gbody_r b ++ rest s' /\ gbody_wf b (rest s') = true /\ gbody_in b = true /\ gcall_of b = oc.

Ltac bi H := apply bind_inv in H; let a := fresh "a" in let s1 := fresh "s" in let E := fresh "E" in destruct H as (a & s1 & E & H).
Ltac fin H := apply ret_inv in H; destruct H as [<- <-].
Ltac inv1 E :=
  first [ apply range_inv in E | apply lit_inv in E | apply atoms_inv in E | apply lits_inv in E | apply ids_inv in E | apply wlits_inv in E ];
  let t := fresh "t" in let Er := fresh "Er" in let W := fresh "W" in let R := fresh "R" in let V := fresh "V" in
  destruct E as (t & Er & W & R & V).
Ltac chain := repeat match goal with Er : rest ?s = _ |- _ => rewrite Er in *; clear Er end.
Ltac conj_true := repeat match goal with |- _ && _ = true => apply andb_true_iff; split end; try assumption.
Ltac finish := unfold binv; cbn [gcode gbody_r gbody_wf gbody_in gcall_of]; chain;
  split; [reflexivity|]; split; [repeat rewrite <- app_assoc; reflexivity|]; split; [conj_true|]; split; [conj_true|]; subst; reflexivity.

Lemma peek_rest_nonempty s : a_peek s <> 0 -> rest s <> [].
Proof. apply peek_nz. Qed.

(* a code token: the layout of a token whose value is known *)
Lemma code_tok (t : gtok) v nx : snd t = v -> gtok_wf t nx = true -> gtok_r t = gnum (fst t) v /\ gnum_wf (fst t) v nx = true.
Proof. intros <- H. split; [reflexivity | exact H]. Qed.

Lemma theory_inv s c s' : theory s = ROk c s' -> a_peek s' <> 0 -> exists b, binv b 9 s (Some c) s'.
Proof.
  unfold theory. intros H Hp. pose proof (peek_nz _ Hp) as Hne.
  bi H. bi H.
  destruct (Z.eqb_spec a Theory_t_Number) as [Ea|N0].
  { bi H. fin H. inv1 E1. inv1 E0. inv1 E.
    destruct (code_tok t1 0 _ (eq_trans V1 Ea) W1) as [Ec Wc]. rewrite Ec in *.
    exists (BTNum (fst t1) t0 t). finish. }
  destruct (Z.eqb_spec a Theory_t_Symbol) as [Ea|N1].
  { bi H. fin H. apply string_inv in E1; [|exact Hne]. destruct E1 as (str & Er & W & R & V). inv1 E0. inv1 E.
    destruct (code_tok t0 1 _ (eq_trans V1 Ea) W1) as [Ec Wc]. rewrite Ec in *.
    exists (BTSym (fst t0) t str). finish. }
  destruct (Z.eqb_spec a Theory_t_Compound) as [Ea|N2].
  { bi H. bi H. fin H. inv1 E2. inv1 E1. inv1 E0. inv1 E.
    destruct (code_tok t2 2 _ (eq_trans V2 Ea) W2) as [Ec Wc]. rewrite Ec in *.
    exists (BTComp (fst t2) t1 t0 t). finish. }
  destruct (Z.eqb_spec a Theory_t_Element) as [Ea|N4].
  { bi H. bi H. fin H. inv1 E2. inv1 E1. inv1 E0. inv1 E.
    destruct (code_tok t2 4 _ (eq_trans V2 Ea) W2) as [Ec Wc]. rewrite Ec in *.
    exists (BTElem (fst t2) t1 t0 t). finish. }
  destruct (Z.eqb_spec a Theory_t_Atom) as [Ea|N5].
  { bi H. bi H. fin H. inv1 E2. inv1 E1. inv1 E0. inv1 E.
    destruct (code_tok t2 5 _ (eq_trans V2 Ea) W2) as [Ec Wc]. rewrite Ec in *.
    exists (BTAtom (fst t2) t1 t0 t). finish. }
  destruct (Z.eqb_spec a Theory_t_AtomWithGuard) as [Ea|N6].
  { bi H. bi H. bi H. bi H. fin H. inv1 E4. inv1 E3. inv1 E2. inv1 E1. inv1 E0. inv1 E.
    destruct (code_tok t4 6 _ (eq_trans V4 Ea) W4) as [Ec Wc]. rewrite Ec in *.
    exists (BTAtomG (fst t4) t3 t2 t1 t0 t). finish. }
  discriminate H.
Qed.

Lemma directive_inv rt s oc s' : directive rt s = ROk oc s' -> a_peek s' <> 0 -> exists b, binv b rt s oc s'.
Proof.
  intros H Hp. pose proof (peek_nz _ Hp) as Hne. unfold directive in H.
  destruct (Z.eqb_spec rt Directive_t_Rule) as [->|N1].
  { bi H. bi H. bi H.
    destruct (Z.eqb_spec a1 Body_t_Normal) as [Ea|Nb].
    - bi H. fin H. inv1 E2. inv1 E1. inv1 E0. inv1 E.
      destruct (code_tok t0 0 _ (eq_trans V0 Ea) W0) as [Ec Wc]. rewrite Ec in *.
      exists (BRule t2 t1 (fst t0) t). finish.
    - bi H. bi H. fin H. inv1 E3. inv1 E2. inv1 E1. inv1 E0. inv1 E.
      unfold grng in R1. rewrite V1 in R1. change enum_Body_t_max with 2 in R1. unfold Body_t_Normal in Nb.
      assert (Hcc : a1 = (if a1 =? 2 then 2 else 1)) by (destruct (Z.eqb_spec a1 2); lia).
      destruct (code_tok t1 _ _ (eq_trans V1 Hcc) W1) as [Ec Wc]. rewrite Ec in *.
      exists (BWRule t3 t2 (fst t1) (a1 =? 2) t0 t). finish. }
  destruct (Z.eqb_spec rt Directive_t_Minimize) as [->|N2].
  { bi H. bi H. fin H. inv1 E0. inv1 E. exists (BMin t0 t). finish. }
  destruct (Z.eqb_spec rt Directive_t_Project) as [->|N3].
  { bi H. fin H. inv1 E. exists (BProject t). finish. }
  destruct (Z.eqb_spec rt Directive_t_Output) as [->|N4].
  { bi H. bi H. fin H. inv1 E0.
    apply string_inv in E; [|rewrite Er; unfold gtlist_r; rewrite <- app_assoc; apply gnum_nonempty].
    destruct E as (str & Er' & W' & R' & V'). exists (BOutput str t). finish. }
  destruct (Z.eqb_spec rt Directive_t_External) as [->|N5].
  { bi H. bi H. fin H. inv1 E0. inv1 E. exists (BExternal t0 t). finish. }
  destruct (Z.eqb_spec rt Directive_t_Assume) as [->|N6].
  { bi H. fin H. inv1 E. exists (BAssume t). finish. }
  destruct (Z.eqb_spec rt Directive_t_Heuristic) as [->|N7].
  { bi H. bi H. bi H. bi H. bi H. fin H. inv1 E3. inv1 E2. inv1 E1. inv1 E0. inv1 E. exists (BHeur t3 t2 t1 t0 t). finish. }
  destruct (Z.eqb_spec rt Directive_t_Edge) as [->|N8].
  { bi H. bi H. bi H. fin H. inv1 E1. inv1 E0. inv1 E. exists (BEdge t1 t0 t). finish. }
  destruct (Z.eqb_spec rt Directive_t_Theory) as [->|N9].
  { bi H. fin H. apply theory_inv; assumption. }
  destruct (Z.eqb_spec rt Directive_t_Comment) as [->|N10].
  { destruct (comment_inv s oc s' H Hp) as (-> & text & nl & Er & Ht & Hn).
    exists (BComment text nl). unfold binv. cbn [gcode gbody_r gbody_wf gbody_in gcall_of].
    rewrite Er, Ht, Hn, <- app_assoc. auto. }
  discriminate H.
Qed.
