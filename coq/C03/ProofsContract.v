(* C03 / C04 support - what read_all delivers for EVERY byte list: the reported line, the ranges of all delivered
   values, the framing of the delivered sequence (V.Lib.Contract), and the trace properties C01 needs for re-reading. *)
Require Import V.Lib.Base V.Lib.Calls V.Lib.Contract V.C09.Spec V.C01.Read V.C01.Wf V.C03.ProofsInv.
Require Import ZifyBool.
Local Open Scope Z_scope.

Theorem line_bound t cs ln : read_all t = (cs, Err ln) -> 1 <= ln <= lines t.
Proof. intros E. pose proof (read_all_shape t) as H. rewrite E in H. tauto. Qed.

Lemma forallb_weaken' {X} (f g : X -> bool) l : (forall x, f x = true -> g x = true) -> forallb f l = true -> forallb g l = true.
Proof. intros H Hf. rewrite forallb_forall in *. auto. Qed.

Lemma steps_flat_forall (P : call -> Prop) steps : P CBegin -> P CEnd -> Forall (Forall (fun c => dir_wf c /\ True)) steps ->
  (forall c, dir_wf c -> P c) -> Forall P (steps_flat steps).
Proof.
  intros Hb He Hs Hd. unfold steps_flat. induction Hs as [|ds ss Hds Hss IH]; cbn [flat_map]; [constructor|].
  apply Forall_app. split; [|exact IH]. unfold step_calls_of. constructor; [exact Hb|]. apply Forall_app. split; [|repeat constructor; exact He].
  eapply Forall_impl; [|exact Hds]. intros c [Hc _]. apply Hd. exact Hc.
Qed.
Lemma forall_and_true (steps : list (list call)) : Forall (Forall dir_wf) steps -> Forall (Forall (fun c => dir_wf c /\ True)) steps.
Proof. intros H. eapply Forall_impl; [|exact H]. intros ds Hds. eapply Forall_impl; [|exact Hds]. auto. Qed.

(* every delivered call has all its arguments inside the documented ranges - on acceptance and before an error *)
Theorem delivered_wf t : Forall (fun c => wf_call c = true) (fst (read_all t)).
Proof.
  pose proof (read_all_shape t) as H. destruct (read_all t) as [cs [|ln]]; cbn [fst].
  - destruct H as (inc & steps & -> & Hs & _). constructor; [reflexivity|].
    apply steps_flat_forall; [reflexivity | reflexivity | apply forall_and_true; exact Hs | intros c Hc; apply Hc].
  - destruct H as [_ [-> | (inc & steps & tail & -> & Hs & Ht)]]; [constructor|]. constructor; [reflexivity|].
    apply Forall_app. split; [apply steps_flat_forall; [reflexivity | reflexivity | apply forall_and_true; exact Hs | intros c Hc; apply Hc]|].
    destruct Ht as [-> | (ds & -> & Hds)]; [constructor|]. constructor; [reflexivity|]. eapply Forall_impl; [|exact Hds]. intros c Hc. apply Hc.
Qed.

(* ---- the consumer contract of V.Lib.Contract ---- *)
Lemma atom_ok_w a : w_atom a = true -> atom_ok a = true. Proof. unfold w_atom, atom_ok, W_INT_MAX, ATOM_MAX. lia. Qed.
Lemma lit_ok_w l : w_lit l = true -> lit_ok l = true. Proof. unfold w_lit, lit_ok, atom_ok, W_INT_MAX, ATOM_MAX. lia. Qed.
Lemma atoms_ok_w l : w_list w_atom l = true -> forallb atom_ok l = true.
Proof. unfold w_list. intros H. apply andb_true_iff in H. destruct H as [_ H]. eapply forallb_weaken'; [exact atom_ok_w | exact H]. Qed.
Lemma lits_ok_w l : w_list w_lit l = true -> forallb lit_ok l = true.
Proof. unfold w_list. intros H. apply andb_true_iff in H. destruct H as [_ H]. eapply forallb_weaken'; [exact lit_ok_w | exact H]. Qed.
Lemma wlits_ok_w b minw l : (b = true -> minw = 0) -> W_INT_MIN <= minw -> w_wlist minw l = true -> forallb (wlit_ok b) l = true.
Proof.
  intros Hb Hm. unfold w_wlist. intros H. apply andb_true_iff in H. destruct H as [_ H]. eapply forallb_weaken'; [|exact H].
  intros [x w]. cbn [fst snd]. intros Hx. apply andb_true_iff in Hx. destruct Hx as [Hl Hw]. unfold wlit_ok. cbn [fst snd].
  rewrite (lit_ok_w x Hl). unfold w_in, int_ok, W_INT_MAX, W_INT_MIN in *. destruct b; [rewrite (Hb eq_refl) in Hw|]; lia.
Qed.

Lemma wf_call_ok c : wf_call c = true -> call_ok c = true.
Proof.
  destruct c; cbn [wf_call call_ok]; intros H; try reflexivity;
    repeat match goal with H : _ && _ = true |- _ => apply andb_true_iff in H; destruct H end;
    repeat match goal with
           | H : w_list w_atom _ = true |- _ => apply atoms_ok_w in H
           | H : w_list w_lit _ = true |- _ => apply lits_ok_w in H
           | H : w_wlist 0 _ = true |- _ => apply (wlits_ok_w true 0) in H; [|reflexivity | unfold W_INT_MIN; lia]
           | H : w_wlist W_INT_MIN _ = true |- _ => apply (wlits_ok_w false W_INT_MIN) in H; [|discriminate | lia]
           | H : w_atom _ = true |- _ => apply atom_ok_w in H
           end;
    unfold w_in, w_i32, int_ok, atom_ok, W_INT_MAX, W_INT_MIN, ATOM_MAX in *;
    repeat (apply andb_true_iff; split); try assumption; try lia.
Qed.

Lemma protocol_dirs ds r : Forall dir_wf ds -> protocol_ok 2 (ds ++ r) = protocol_ok 2 r.
Proof.
  induction 1 as [|d ds Hd Hds IH]; [reflexivity|]. cbn [app]. destruct Hd as (_ & Hdir & _).
  destruct d; cbn [is_dir] in Hdir; try discriminate Hdir; cbn [protocol_ok]; exact IH.
Qed.
Lemma protocol_steps steps tail : Forall (Forall dir_wf) steps -> protocol_ok 1 (steps_flat steps ++ tail) = protocol_ok 1 tail.
Proof.
  induction 1 as [|ds ss Hds Hss IH]; [reflexivity|]. unfold steps_flat in *. cbn [flat_map]. unfold step_calls_of at 1.
  rewrite <- !app_assoc. cbn [app protocol_ok]. rewrite <- app_assoc. rewrite (protocol_dirs ds _ Hds). cbn [app protocol_ok]. exact IH.
Qed.
Lemma final_dirs ds r st : Forall dir_wf ds -> final_state st (ds ++ r) = final_state st r.
Proof.
  induction 1 as [|d ds Hd Hds IH]; [reflexivity|]. cbn [app]. destruct Hd as (_ & Hdir & _).
  destruct d; cbn [is_dir] in Hdir; try discriminate Hdir; cbn [final_state]; exact IH.
Qed.
Lemma final_steps steps : Forall (Forall dir_wf) steps -> final_state 1 (steps_flat steps) = 1.
Proof.
  induction 1 as [|ds ss Hds Hss IH]; [reflexivity|]. unfold steps_flat in *. cbn [flat_map]. unfold step_calls_of at 1.
  cbn [app final_state]. rewrite <- app_assoc. rewrite (final_dirs ds _ 2 Hds). cbn [app final_state]. exact IH.
Qed.

(* for EVERY byte list: the delivered calls respect the consumer contract; an accepted text ends between steps *)
Theorem reader_contract t : contract_ok (fst (read_all t)) = true.
Proof.
  unfold contract_ok. apply andb_true_iff. split.
  - pose proof (read_all_shape t) as H. destruct (read_all t) as [cs [|ln]]; cbn [fst].
    + destruct H as (inc & steps & -> & Hs & _). cbn [protocol_ok]. change (0 =? 0) with true. cbn [andb].
      rewrite <- (app_nil_r (steps_flat steps)). rewrite (protocol_steps steps [] Hs). reflexivity.
    + destruct H as [_ [-> | (inc & steps & tail & -> & Hs & Ht)]]; [reflexivity|].
      cbn [protocol_ok]. change (0 =? 0) with true. cbn [andb]. rewrite (protocol_steps steps tail Hs).
      destruct Ht as [-> | (ds & -> & Hds)]; [reflexivity|]. cbn [protocol_ok]. change (1 =? 1) with true. cbn [andb].
      rewrite <- (app_nil_r ds). rewrite (protocol_dirs ds [] Hds). reflexivity.
  - apply forallb_forall. intros c Hc. apply wf_call_ok. pose proof (delivered_wf t) as Hw. rewrite Forall_forall in Hw. apply Hw. exact Hc.
Qed.

Theorem reader_steps_closed t cs : read_all t = (cs, Ok) -> steps_closed cs = true.
Proof.
  intros E. pose proof (read_all_shape t) as H. rewrite E in H. destruct H as (inc & steps & -> & Hs & _).
  unfold steps_closed. cbn [final_state]. rewrite (final_steps steps Hs). reflexivity.
Qed.

(* the fuel of the model's loops is never exhausted: exhaustion is the only source of line 0 *)
Theorem no_fuel_exhaustion t cs : read_all t <> (cs, Err 0).
Proof. intros E. apply line_bound in E. lia. Qed.

(* an accepted text delivers a well-formed trace without weight-0 literals *)
Theorem accepted_trace t cs : read_all t = (cs, Ok) -> wf_trace cs /\ forallb wf_call cs = true /\ norm cs = cs.
Proof.
  intros E. pose proof (read_all_shape t) as H. pose proof (delivered_wf t) as Hw. rewrite E in H, Hw. cbn [fst] in Hw.
  destruct H as (inc & steps & -> & Hs & Hne & Hone). split; [|split].
  - exists inc, steps. split; [reflexivity|]. unfold wf_steps. apply andb_true_iff. split.
    + apply forallb_forall. intros ds Hds. apply forallb_forall. intros c Hc. rewrite Forall_forall in Hs. specialize (Hs ds Hds).
      rewrite Forall_forall in Hs. apply (Hs c Hc).
    + destruct steps as [|s1 [|s2 ss]]; [congruence | reflexivity|]. destruct inc; [reflexivity|]. specialize (Hone eq_refl). cbn [length] in Hone. lia.
  - apply forallb_forall. rewrite Forall_forall in Hw. exact Hw.
  - unfold norm. cbn [map norm_call]. f_equal. unfold steps_flat. clear - Hs.
    induction Hs as [|ds ss Hds Hss IH]; [reflexivity|]. cbn [flat_map]. rewrite map_app, IH. f_equal.
    unfold step_calls_of. cbn [map norm_call]. f_equal. rewrite map_app. cbn [map norm_call]. f_equal.
    clear - Hds. induction Hds as [|d ds Hd Hds IH]; [reflexivity|]. cbn [map]. rewrite IH. f_equal. apply Hd.
Qed.
