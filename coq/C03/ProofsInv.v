(* C03 - invariants of the reader model that hold for EVERY text (no well-formedness hypothesis):
   reported lines lie between the current line and the number of lines of the text, every loop makes progress
   (the fuel of the model is never exhausted), every delivered value lies in the range of its field. *)
Require Import V.Lib.Base V.Lib.Calls V.Lib.Dec V.C09.Spec V.Gen.Consts V.C01.Read V.C01.Wf V.C01.ProofsPrim.
Require Import ZifyBool.
Local Open Scope Z_scope.

(* number of line terminators of a byte list: LF, CR, CRLF *)
Fixpoint nl (l : list Z) : Z :=
  match l with
  | [] => 0
  | c :: r => if c =? 10 then 1 + nl r
              else if c =? 13 then match r with 10 :: _ => nl r | _ => 1 + nl r end
              else nl r
  end.
Definition lines (t : list Z) : Z := 1 + nl t.
Definition pot (s : ast) : Z := aline s + nl (rest s).

Lemma nl_nonneg l : 0 <= nl l.
Proof.
  induction l as [|c r IH]; cbn [nl]; [lia|]. destruct (c =? 10); [lia|]. destruct (c =? 13); [|lia].
  destruct r as [|c2 r2]; [lia|]. destruct (Z.eqb_spec c2 10) as [->|]; [exact IH|].
  destruct c2; try lia. destruct p; try lia. destruct p; try lia. destruct p; try lia. destruct p; try lia.
Qed.
Lemma nl_cons c r : nl r <= nl (c :: r) <= 1 + nl r.
Proof.
  cbn [nl]. destruct (c =? 10); [lia|]. destruct (c =? 13); [|lia].
  destruct r as [|c2 r2]; [cbn [nl]; lia|]. destruct (Z.eqb_spec c2 10) as [->|]; [lia|].
  destruct c2; try lia. destruct p; try lia. destruct p; try lia. destruct p; try lia. destruct p; try lia.
Qed.
Lemma nl_skipn k : forall l, nl (skipn k l) <= nl l.
Proof. induction k as [|k IH]; intros l; [cbn; lia|]. destruct l as [|c r]; [cbn; lia|]. cbn [skipn]. pose proof (nl_cons c r). specialize (IH r). lia. Qed.
Lemma nl_firstn_skipn k : forall l, count_eq 10 (firstn k l) + nl (skipn k l) <= nl l.
Proof.
  induction k as [|k IH]; intros l; [cbn; lia|]. destruct l as [|c r]; [cbn; lia|].
  cbn [firstn skipn count_eq]. specialize (IH r). pose proof (nl_cons c r) as Hc.
  destruct (Z.eqb_spec c 10) as [->|Hn]; [cbn [nl]; change (10 =? 10) with true; cbv iota; lia | lia].
Qed.
Lemma skipn_length_le {X} k (l : list X) : (length (skipn k l) <= length l)%nat.
Proof. rewrite skipn_length. lia. Qed.

(* the effect of one stream operation: line never decreases, line + remaining terminators never increases, nothing is un-read *)
Definition step_ok (s s' : ast) : Prop :=
  aline s <= aline s' /\ pot s' <= pot s /\ (length (rest s') <= length (rest s))%nat.
Lemma step_ok_refl s : step_ok s s. Proof. unfold step_ok. lia. Qed.
Lemma step_ok_trans a b c : step_ok a b -> step_ok b c -> step_ok a c. Proof. unfold step_ok. lia. Qed.

Lemma skipws_l_ok n : forall l ln, (length l <= n)%nat ->
  ln <= aline (a_skipws_l l ln) /\ aline (a_skipws_l l ln) + nl (rest (a_skipws_l l ln)) <= ln + nl l
  /\ (length (rest (a_skipws_l l ln)) <= length l)%nat.
Proof.
  induction n as [|n IH]; intros l ln Hl.
  - destruct l; [cbn; lia | cbn in Hl; lia].
  - destruct l as [|c r]; [cbn; lia|]. cbn [a_skipws_l]. destruct (is_ws c); [|cbn [aline rest]; lia].
    destruct (Z.eqb_spec c 13) as [->|N13].
    + destruct r as [|c2 r2].
      * cbn. lia.
      * assert (H2 : ln + 1 <= aline (a_skipws_l r2 (ln + 1)) /\ aline (a_skipws_l r2 (ln + 1)) + nl (rest (a_skipws_l r2 (ln + 1))) <= ln + 1 + nl r2
                     /\ (length (rest (a_skipws_l r2 (ln + 1))) <= length r2)%nat) by (apply IH; cbn [length] in *; lia).
        assert (H1 : ln + 1 <= aline (a_skipws_l (c2 :: r2) (ln + 1)) /\ aline (a_skipws_l (c2 :: r2) (ln + 1)) + nl (rest (a_skipws_l (c2 :: r2) (ln + 1))) <= ln + 1 + nl (c2 :: r2)
                     /\ (length (rest (a_skipws_l (c2 :: r2) (ln + 1))) <= length (c2 :: r2))%nat) by (apply IH; cbn [length] in *; lia).
        destruct (Z.eqb_spec c2 10) as [->|N10].
        -- cbn [nl]. change (13 =? 10) with false. change (13 =? 13) with true. change (10 =? 10) with true. cbv iota. cbn [length] in *. lia.
        -- assert (E : nl (13 :: c2 :: r2) = 1 + nl (c2 :: r2)).
           { cbn [nl]. change (13 =? 10) with false. change (13 =? 13) with true. cbv iota.
             destruct c2; try reflexivity. destruct p; try reflexivity. destruct p; try reflexivity. destruct p; try reflexivity.
             destruct p; try reflexivity. contradiction. }
           rewrite E. cbn [length] in *.
           destruct c2; try lia. destruct p; try lia. destruct p; try lia. destruct p; try lia. destruct p; try lia.
    + set (ln2 := if c =? 10 then ln + 1 else ln).
      assert (Hln2 : ln2 = if c =? 10 then ln + 1 else ln) by reflexivity. clearbody ln2.
      assert (H1 : ln2 <= aline (a_skipws_l r ln2) /\ aline (a_skipws_l r ln2) + nl (rest (a_skipws_l r ln2)) <= ln2 + nl r
                   /\ (length (rest (a_skipws_l r ln2)) <= length r)%nat) by (apply IH; cbn [length] in *; lia).
      cbn [nl length]. destruct (Z.eqb_spec c 10).
      * lia.
      * destruct (Z.eqb_spec c 13); [contradiction|]. lia.
Qed.
Lemma skipws_ok s : step_ok s (a_skipws s).
Proof. unfold step_ok, pot, a_skipws. pose proof (skipws_l_ok (length (rest s)) (rest s) (aline s) (le_n _)). lia. Qed.

Lemma digits_suffix l : forall res good, let '(_, _, l2) := a_digits l res good in nl l2 <= nl l /\ (length l2 <= length l)%nat.
Proof.
  induction l as [|c r IH]; intros res good; cbn [a_digits]; [lia|].
  destruct (is_digit c); [|lia].
  pose proof (nl_cons c r).
  destruct (good && (res <=? (INT64_MAX - to_digit c) / 10)).
  - specialize (IH (res * 10 + to_digit c) true). destruct (a_digits r (res * 10 + to_digit c) true) as [[? ?] l2]. cbn [length]. lia.
  - specialize (IH res false). destruct (a_digits r res false) as [[? ?] l2]. cbn [length]. lia.
Qed.

Lemma match_int_ok s : let '(o, s') := a_match_int false s in
  step_ok s s' /\ (o <> None -> (length (rest s') < length (rest s))%nat).
Proof.
  unfold a_match_int. pose proof (skipws_ok s) as H0. set (s0 := a_skipws s) in *.
  assert (Htl : nl (tl (rest s0)) <= nl (rest s0) /\ (length (tl (rest s0)) <= length (rest s0))%nat).
  { destruct (rest s0) as [|c r]; [cbn; lia|]. pose proof (nl_cons c r). cbn [tl length]. lia. }
  set (l1 := if (a_peek s0 =? 43) || (a_peek s0 =? 45) then tl (rest s0) else rest s0).
  assert (Hl1 : nl l1 <= nl (rest s0) /\ (length l1 <= length (rest s0))%nat) by (unfold l1; destruct ((a_peek s0 =? 43) || (a_peek s0 =? 45)); lia).
  destruct l1 as [|c r].
  - split; [|congruence]. unfold step_ok, pot in *. cbn [aline rest nl length]. pose proof (nl_nonneg (rest s0)). lia.
  - destruct (is_digit c).
    + pose proof (digits_suffix r (to_digit c) true) as Hd. destruct (a_digits r (to_digit c) true) as [[res good] l2].
      pose proof (nl_cons c r). unfold step_ok, pot in *. cbn [aline rest length] in *. split; [lia|]. intros _. lia.
    + split; [|congruence]. unfold step_ok, pot in *. cbn [aline rest]. lia.
Qed.

Lemma get_ok s : step_ok s (snd (a_get s)).
Proof.
  unfold a_get, step_ok, pot. destruct (rest s) as [|c r] eqn:E; [cbn [snd]; rewrite E; lia|].
  pose proof (nl_cons c r) as Hc. cbn [nl] in Hc |- *.
  destruct (Z.eqb_spec c 13) as [->|].
  - change (13 =? 10) with false in *. cbv iota in *. destruct r as [|c2 r2].
    + cbn [snd aline rest nl length]. lia.
    + destruct (Z.eqb_spec c2 10) as [->|].
      * cbn [snd aline rest length]. cbn [nl]. change (10 =? 10) with true. cbv iota. lia.
      * assert (E2 : snd (match c2 :: r2 with 10 :: r' => (10, amk r' (aline s + 1)) | _ => (10, amk (c2 :: r2) (aline s + 1)) end) = amk (c2 :: r2) (aline s + 1)).
        { destruct c2; try reflexivity. destruct p; try reflexivity. destruct p; try reflexivity. destruct p; try reflexivity. destruct p; try reflexivity. contradiction. }
        rewrite E2. cbn [aline rest length].
        assert (E3 : match c2 :: r2 with 10 :: _ => nl (c2 :: r2) | _ => 1 + nl (c2 :: r2) end = 1 + nl (c2 :: r2)).
        { destruct c2; try reflexivity. destruct p; try reflexivity. destruct p; try reflexivity. destruct p; try reflexivity. destruct p; try reflexivity. contradiction. }
        rewrite E3. lia.
  - destruct (Z.eqb_spec c 10); cbn [snd aline rest length]; lia.
Qed.

Lemma copy_ok k s : 0 <= k -> let '(n, bs, s') := a_copy k s in step_ok s s' /\ Z.of_nat (length bs) = n.
Proof.
  intros Hk. unfold a_copy. destruct (Z.ltb_spec k 0); [lia|].
  unfold step_ok, pot. cbn [aline rest]. pose proof (nl_firstn_skipn (Z.to_nat k) (rest s)).
  pose proof (skipn_length_le (Z.to_nat k) (rest s)).
  assert (0 <= count_eq 10 (firstn (Z.to_nat k) (rest s))).
  { generalize (firstn (Z.to_nat k) (rest s)). intros l. induction l as [|c r IH]; cbn [count_eq]; [lia|]. destruct (c =? 10); lia. }
  split; [lia | reflexivity].
Qed.

Lemma match_tok_ok w s : step_ok s (snd (a_match_tok w s)).
Proof.
  unfold a_match_tok. destruct (list_eqb (firstn (length w) (rest s)) w); [|apply step_ok_refl].
  unfold step_ok, pot. cbn [snd aline rest]. pose proof (nl_skipn (length w) (rest s)). pose proof (skipn_length_le (length w) (rest s)). lia.
Qed.

(* ---------------------------------------------------------------- parsers *)
Definition good {A} (Q : A -> Prop) (P : parser A) : Prop := forall s,
  match P s with
  | ROk a s' => Q a /\ step_ok s s'
  | RErr ln => aline s <= ln <= pot s
  end.

Lemma good_bind {A B} (QA : A -> Prop) (QB : B -> Prop) (P : parser A) (f : A -> parser B) :
  good QA P -> (forall a, QA a -> good QB (f a)) -> good QB (bind P f).
Proof.
  intros HP Hf s. unfold bind. specialize (HP s). destruct (P s) as [a s1|ln]; [|exact HP].
  destruct HP as [Ha H1]. specialize (Hf a Ha s1). destruct (f a s1) as [b s2|ln].
  - destruct Hf as [Hb H2]. split; [exact Hb | eapply step_ok_trans; eassumption].
  - unfold step_ok in H1. lia.
Qed.
Lemma good_ret {A} (Q : A -> Prop) a : Q a -> good Q (ret a).
Proof. intros Ha s. unfold ret. cbv beta iota. split; [exact Ha | apply step_ok_refl]. Qed.
Lemma good_fail {A} (Q : A -> Prop) : good Q (@fail_here A).
Proof. intros s. unfold fail_here, pot. cbv beta iota. pose proof (nl_nonneg (rest s)). lia. Qed.
Lemma good_weaken {A} (Q Q' : A -> Prop) P : good Q P -> (forall a, Q a -> Q' a) -> good Q' P.
Proof. intros H Hq s. specialize (H s). destruct (P s); [destruct H; split; auto | exact H]. Qed.

Lemma good_range lo hi : good (fun v => w_in lo hi v = true) (m_range lo hi).
Proof.
  intros s. unfold m_range. pose proof (match_int_ok s) as H. destruct (a_match_int false s) as [[v|] s'].
  - destruct H as [H _]. destruct ((lo <=? v) && (v <=? hi)) eqn:E; [split; [exact E | exact H]|]. unfold step_ok, pot in *. pose proof (nl_nonneg (rest s')). lia.
  - destruct H as [H _]. unfold step_ok, pot in *. pose proof (nl_nonneg (rest s')). lia.
Qed.
Lemma range_strict lo hi s v s' : m_range lo hi s = ROk v s' -> (length (rest s') < length (rest s))%nat.
Proof.
  unfold m_range. pose proof (match_int_ok s) as H. destruct (a_match_int false s) as [[x|] s1]; [|discriminate].
  destruct H as [_ H]. destruct ((lo <=? x) && (x <=? hi)); [|discriminate]. intros E. injection E as _ <-. apply H. congruence.
Qed.
Lemma good_lit : good (fun v => w_lit v = true) m_lit.
Proof.
  intros s. unfold m_lit. pose proof (match_int_ok s) as H. destruct (a_match_int false s) as [[v|] s'].
  - destruct H as [H _]. unfold varMax, INT_MAX. match goal with |- context [if ?b then _ else _] => destruct b eqn:E end.
    + split; [unfold w_lit, W_INT_MAX; lia | exact H].
    + unfold step_ok, pot in *. pose proof (nl_nonneg (rest s')). lia.
  - destruct H as [H _]. unfold step_ok, pot in *. pose proof (nl_nonneg (rest s')). lia.
Qed.

Lemma good_rep_nat {A} (Q : A -> Prop) elem n : good Q elem -> good (fun l => Forall Q l /\ length l = n) (rep_nat elem n).
Proof.
  intros He. induction n as [|n IH]; cbn [rep_nat].
  - apply good_ret. auto.
  - eapply good_bind; [exact He|]. intros x Hx. eapply good_bind; [exact IH|]. intros l [Hl Hn]. apply good_ret. cbn [length]. auto.
Qed.
Lemma good_rep {A} (Q : A -> Prop) elem n : good Q elem -> good (fun l => Forall Q l /\ Z.of_nat (length l) = Z.max 0 n) (rep elem n).
Proof.
  intros He. destruct n as [|p|p].
  - apply good_ret. auto.
  - intros s. rewrite rep_is_loop by lia. pose proof (good_rep_nat Q elem (Z.to_nat (Z.pos p)) He s) as H.
    destruct (rep_nat elem (Z.to_nat (Z.pos p)) s); [|exact H]. destruct H as [[Hl Hn] Hs]. split; [split; [exact Hl | lia] | exact Hs].
  - apply good_ret. auto.
Qed.

Lemma forall_forallb {X} (f : X -> bool) l : Forall (fun x => f x = true) l -> forallb f l = true.
Proof. intros H. apply forallb_forall. apply Forall_forall. exact H. Qed.

Lemma good_list (f : Z -> bool) elem : good (fun v => f v = true) elem -> good (fun l => w_list f l = true) (n <- m_count ;; rep elem n).
Proof.
  intros He. eapply good_bind; [apply (good_range 0 UINT_MAX)|]. intros n Hn. cbv beta.
  eapply good_weaken; [apply good_rep; exact He|]. intros l [Hl Hlen]. unfold w_list, w_len, W_UINT_MAX, w_in, UINT_MAX in *.
  rewrite (forall_forallb f l Hl). lia.
Qed.
Lemma good_atoms : good (fun l => w_list w_atom l = true) m_atoms.
Proof. apply good_list. apply (good_range atomMin varMax). Qed.
Lemma good_lits : good (fun l => w_list w_lit l = true) m_lits.
Proof. apply good_list. apply good_lit. Qed.
Lemma good_ids : good (fun l => w_list w_id l = true) m_ids.
Proof. apply good_list. apply (good_range 0 UINT_MAX). Qed.

Lemma good_wlits minw : good (fun l => w_wlist minw l = true /\ forallb nz l = true) (m_wlits minw).
Proof.
  unfold m_wlits. eapply good_bind; [apply (good_range 0 UINT_MAX)|]. intros n Hn. cbv beta.
  eapply good_bind.
  - apply (good_rep (fun p => w_lit (fst p) && w_in minw W_INT_MAX (snd p) = true)).
    unfold m_wlit. eapply good_bind; [apply good_lit|]. intros l Hl. eapply good_bind; [apply (good_range minw INT_MAX)|]. intros w Hw.
    apply good_ret. cbn [fst snd]. rewrite Hl. exact Hw.
  - intros l [Hl Hlen]. apply good_ret. split.
    + unfold w_wlist, w_len, W_UINT_MAX, w_in, UINT_MAX in *.
      assert (Hfl : (length (filter nonzero_w l) <= length l)%nat).
      { clear. induction l as [|a l IH]; [cbn; lia|]. cbn [filter]. destruct (nonzero_w a); cbn [length]; lia. }
      apply andb_true_iff. split; [lia|]. apply forallb_forall. intros x Hx. apply filter_In in Hx. destruct Hx as [Hx _].
      rewrite Forall_forall in Hl. apply Hl. exact Hx.
    + apply forallb_forall. intros x Hx. apply filter_In in Hx. destruct Hx as [_ Hx]. exact Hx.
Qed.

Lemma good_string : good (fun s => w_str s = true) m_string.
Proof.
  unfold m_string. eapply good_bind; [apply (good_range 0 STR_MAX)|]. intros len Hlen. cbv beta.
  intros s. pose proof (get_ok s) as Hg. set (s1 := snd (a_get s)) in *.
  unfold w_in, STR_MAX, V.Gen.Consts_C01.rd_str_max, INT_MAX in Hlen.
  rewrite copy_k_eq by lia. pose proof (copy_ok len s1 ltac:(lia)) as Hc.
  destruct (a_copy len s1) as [[n bs] s2]. destruct Hc as [Hc Hn].
  destruct (Z.eqb_spec n len).
  - split; [unfold w_str, W_INT_MAX; lia | eapply step_ok_trans; eassumption].
  - unfold step_ok, pot in *. pose proof (nl_nonneg (rest s2)). lia.
Qed.

Lemma skip_line_ok fuel : forall s, step_ok s (skip_line_f fuel s).
Proof.
  induction fuel as [|x f IH]; intros s; cbn [skip_line_f]; [apply step_ok_refl|].
  destruct (a_peek s =? 0); [apply step_ok_refl|].
  pose proof (get_ok s) as Hg. destruct (a_get s) as [c s']. cbn [snd] in Hg.
  destruct (c =? 10); [exact Hg | eapply step_ok_trans; [exact Hg | apply IH]].
Qed.
Lemma good_skip_line : good (fun _ => True) skip_line.
Proof. intros s. unfold skip_line. cbv beta iota. split; [exact I | apply skip_line_ok]. Qed.

(* ---------------------------------------------------------------- directives *)
Definition dir_wf (c : call) : Prop := wf_call c = true /\ is_dir c = true /\ norm_call c = c.
Definition odir_wf (oc : option call) : Prop := match oc with Some c => dir_wf c | None => True end.

Lemma filter_all {X} (f : X -> bool) l : forallb f l = true -> filter f l = l.
Proof. induction l as [|a l IH]; [reflexivity|]. cbn [forallb filter]. intros H. apply andb_true_iff in H. destruct H as [Ha Hl]. rewrite Ha, (IH Hl). reflexivity. Qed.

Ltac gb := eapply good_bind;
  [ first [ apply good_atoms | apply good_lits | apply good_ids | apply good_wlits | apply good_string | apply good_lit
          | apply good_skip_line | apply good_range ]
  | intros ? ?; cbv beta ].
Ltac fin :=
  cbv beta in *;
  repeat match goal with H : _ /\ _ |- _ => destruct H end;
  split; [ cbn [wf_call]; repeat first [assumption | apply andb_true_iff; split]
         | split; [reflexivity | cbn [norm_call]; rewrite ?filter_all by assumption; reflexivity] ].
Ltac solve_good :=
  repeat first
    [ match goal with |- good _ (if ?b then _ else _) => destruct b end
    | gb
    | apply good_fail
    | (apply good_ret; first [exact I | fin | (cbn [odir_wf]; fin)]) ].

Lemma good_theory : good dir_wf theory.
Proof. unfold theory. solve_good. Qed.

Lemma good_directive rt : good odir_wf (directive rt).
Proof.
  unfold directive.
  repeat match goal with |- good _ (if ?b then _ else _) => destruct b end.
  all: try solve [solve_good].
  - (* theory *) eapply good_bind; [apply good_theory|]. intros c Hc. apply good_ret. exact Hc.
Qed.

(* ---------------------------------------------------------------- loops *)
Lemma err_chain a b ln : step_ok a b -> aline b <= ln <= pot b -> aline a <= ln <= pot a.
Proof. unfold step_ok. lia. Qed.

Lemma dirs_ok fuel : forall s, (length (rest s) < length fuel)%nat ->
  let '(cs, r) := dirs fuel s in
  Forall dir_wf cs /\
  match r with
  | ROk _ s' => step_ok s s' /\ (length (rest s') < length (rest s))%nat
  | RErr ln => aline s <= ln <= pot s
  end.
Proof.
  induction fuel as [|x f IH]; intros s Hlen; [cbn [length] in Hlen; lia|].
  cbn [dirs]. pose proof (good_range 0 enum_Directive_t_max s) as H.
  pose proof (range_strict 0 enum_Directive_t_max s) as Hs. unfold m_pos.
  destruct (m_range 0 enum_Directive_t_max s) as [rt s1|ln]; [|split; [constructor | exact H]].
  destruct H as [_ H1]. specialize (Hs rt s1 eq_refl).
  destruct (rt =? 0); [split; [constructor | split; assumption]|].
  pose proof (good_directive rt s1) as Hd. destruct (directive rt s1) as [oc s2|ln].
  - destruct Hd as [Hoc H2].
    assert (Hl2 : (length (rest s2) < length f)%nat) by (unfold step_ok in *; cbn [length] in Hlen; lia).
    specialize (IH s2 Hl2). destruct (dirs f s2) as [cs r]. destruct IH as [Hcs Hr].
    split; [destruct oc; cbn [opt_cons]; [constructor; assumption | assumption]|].
    destruct r as [u s3|ln].
    + destruct Hr as [H3 Hs3]. split; [eapply step_ok_trans; [exact H1 | eapply step_ok_trans; eassumption] | unfold step_ok in *; lia].
    + eapply err_chain; [exact H1 | eapply err_chain; eassumption].
  - split; [constructor | eapply err_chain; eassumption].
Qed.

Definition step_calls_of (ds : list call) : list call := CBegin :: ds ++ [CEnd].

Lemma read_step_ok s :
  let '(cs, r) := read_step s in
  exists ds, Forall dir_wf ds /\
  match r with
  | ROk _ s' => cs = step_calls_of ds /\ step_ok s s' /\ (length (rest s') < length (rest s))%nat
  | RErr ln => cs = CBegin :: ds /\ aline s <= ln <= pot s
  end.
Proof.
  unfold read_step. pose proof (dirs_ok (0 :: rest s) s ltac:(cbn [length]; lia)) as H.
  destruct (dirs (0 :: rest s) s) as [cs [u s'|ln]]; destruct H as [Hcs Hr]; exists cs; (split; [exact Hcs|]).
  - destruct Hr. split; [reflexivity | split; assumption].
  - split; [reflexivity | exact Hr].
Qed.

Lemma more_ok s : step_ok s (snd (more s)).
Proof. unfold more. cbn [snd]. apply skipws_ok. Qed.
Lemma more_fst_skip s : fst (more (a_skipws s)) = negb (a_end (a_skipws s)).
Proof. unfold more. cbn [fst]. rewrite skipws_idem. reflexivity. Qed.

Lemma parse_round_ok inc s :
  let '(cs, r) := parse_round inc s in
  exists ds, Forall dir_wf ds /\
  match r with
  | ROk _ s' => cs = step_calls_of ds /\ step_ok s s' /\ (length (rest s') < length (rest s))%nat /\ (inc = false -> fst (more s') = false)
  | RErr ln => (cs = CBegin :: ds \/ cs = step_calls_of ds) /\ aline s <= ln <= pot s
  end.
Proof.
  unfold parse_round. pose proof (read_step_ok s) as H. destruct (read_step s) as [cs [u s1|ln]]; destruct H as (ds & Hds & H).
  - destruct H as (-> & H1 & Hs1).
    pose proof (skipws_ok s1) as H2. set (s2 := a_skipws s1) in *.
    assert (Em : more s2 = (negb (a_end s2), s2)) by (unfold more, s2; rewrite skipws_idem; reflexivity).
    rewrite Em.
    assert (H12 : step_ok s s2) by (eapply step_ok_trans; eassumption).
    destruct (negb (a_end s2) && negb inc) eqn:E; exists ds; (split; [exact Hds|]).
    + split; [right; reflexivity|]. unfold step_ok, pot in *. pose proof (nl_nonneg (rest s2)). lia.
    + split; [reflexivity|]. split; [exact H12|]. split; [unfold step_ok in *; lia|].
      intros ->. rewrite Em. cbn [fst]. destruct (negb (a_end s2)); [discriminate E | reflexivity].
  - exists ds. split; [exact Hds|]. destruct H as [-> H]. split; [left; reflexivity | exact H].
Qed.

Definition steps_flat (steps : list (list call)) : list call := flat_map step_calls_of steps.

Lemma parse_complete_ok fuel : forall inc s, (length (rest s) < length fuel)%nat ->
  let '(cs, o) := parse_complete fuel inc s in
  exists steps tail, cs = steps_flat steps ++ tail /\ Forall (Forall dir_wf) steps /\
  match o with
  | Ok => tail = [] /\ steps <> [] /\ (inc = false -> length steps = 1%nat)
  | Err ln => (tail = [] \/ exists ds, tail = CBegin :: ds /\ Forall dir_wf ds) /\ aline s <= ln <= pot s
  end.
Proof.
  induction fuel as [|x f IH]; intros inc s Hlen; [cbn [length] in Hlen; lia|].
  cbn [parse_complete]. pose proof (parse_round_ok inc s) as H. destruct (parse_round inc s) as [cs [u s1|ln]]; destruct H as (ds & Hds & H).
  - destruct H as (-> & H1 & Hs1 & Hinc).
    pose proof (more_ok s1) as H2. rewrite (surjective_pairing (more s1)). set (s2 := snd (more s1)) in *.
    destruct (fst (more s1)) eqn:Em.
    + assert (Hl2 : (length (rest s2) < length f)%nat) by (unfold step_ok in *; cbn [length] in Hlen; lia).
      specialize (IH inc s2 Hl2). destruct (parse_complete f inc s2) as [cs' o]. destruct IH as (steps & tail & -> & Hst & Ho).
      exists (ds :: steps), tail. split; [unfold steps_flat; cbn [flat_map]; rewrite <- app_assoc; reflexivity|].
      split; [constructor; assumption|].
      destruct o as [|ln].
      * destruct Ho as (-> & Hne & Hone). split; [reflexivity|]. split; [congruence|]. intros Hi. specialize (Hinc Hi). congruence.
      * destruct Ho as [Ht Hln]. split; [exact Ht|]. eapply err_chain; [eapply step_ok_trans; eassumption | exact Hln].
    + exists [ds], []. split; [unfold steps_flat; cbn [flat_map]; rewrite !app_nil_r; reflexivity|].
      split; [constructor; [assumption | constructor]|]. split; [reflexivity|]. split; [congruence | reflexivity].
  - destruct H as [Hcs Hln]. destruct Hcs as [-> | ->].
    + exists [], (CBegin :: ds). split; [reflexivity|]. split; [constructor|]. split; [right; exists ds; auto | exact Hln].
    + exists [ds], []. split; [unfold steps_flat; cbn [flat_map]; rewrite !app_nil_r; reflexivity|].
      split; [constructor; [assumption | constructor]|]. split; [left; reflexivity | exact Hln].
Qed.

(* ---------------------------------------------------------------- header and whole text *)
Lemma skip_blanks_ok fuel : forall s, step_ok s (skip_blanks_f fuel s).
Proof.
  induction fuel as [|x f IH]; intros s; cbn [skip_blanks_f]; [apply step_ok_refl|].
  pose proof (match_tok_ok [32] s) as H. destruct (a_match_tok [32] s) as [b s']. cbn [snd] in H.
  destruct b; [eapply step_ok_trans; [exact H | apply IH] | exact H].
Qed.

Lemma read_header_ok t :
  let '(cs, r) := read_header (a_init t) in
  match r with
  | ROk (Some inc) s => cs = [CInit inc] /\ step_ok (a_init t) s
  | ROk None s => cs = [] /\ step_ok (a_init t) s
  | RErr ln => (cs = [] \/ exists inc, cs = [CInit inc]) /\ aline (a_init t) <= ln <= pot (a_init t)
  end.
Proof.
  unfold read_header. set (s := a_init t).
  pose proof (skipws_ok s) as H0. set (s0 := a_skipws s) in *.
  pose proof (match_tok_ok tok_asp s0) as H1. destruct (a_match_tok tok_asp s0) as [b s1]. cbn [snd] in H1.
  assert (H01 : step_ok s s1) by (eapply step_ok_trans; eassumption).
  destruct b; cbn [negb]; [|split; [reflexivity | exact H01]].
  pose proof (good_range 0 UINT_MAX s1) as G2. unfold m_pos. destruct (m_range 0 UINT_MAX s1) as [major s2|ln];
    [|split; [left; reflexivity | eapply err_chain; eassumption]].
  destruct G2 as [_ G2]. assert (H02 : step_ok s s2) by (eapply step_ok_trans; eassumption).
  assert (Herr : forall sx, step_ok s sx -> aline s <= aline sx <= pot s).
  { intros sx Hx. unfold step_ok, pot in *. pose proof (nl_nonneg (rest sx)). lia. }
  destruct (negb (major =? ASPIF_MAJOR)); [split; [left; reflexivity | apply Herr; exact H02]|].
  pose proof (good_range 0 UINT_MAX s2) as G3. destruct (m_range 0 UINT_MAX s2) as [minor s3|ln];
    [|split; [left; reflexivity | eapply err_chain; eassumption]].
  destruct G3 as [_ G3]. assert (H03 : step_ok s s3) by (eapply step_ok_trans; eassumption).
  destruct (negb (minor =? ASPIF_MINOR)); [split; [left; reflexivity | apply Herr; exact H03]|].
  pose proof (good_range 0 UINT_MAX s3) as G4. destruct (m_range 0 UINT_MAX s3) as [rev s4|ln];
    [|split; [left; reflexivity | eapply err_chain; eassumption]].
  destruct G4 as [_ G4]. assert (H04 : step_ok s s4) by (eapply step_ok_trans; eassumption).
  pose proof (skip_blanks_ok (rest s4) s4) as G5. set (s5 := skip_blanks_f (rest s4) s4) in *.
  pose proof (match_tok_ok tok_incremental s5) as G6. destruct (a_match_tok tok_incremental s5) as [inc s6]. cbn [snd] in G6.
  pose proof (get_ok s6) as G7. destruct (a_get s6) as [c s7]. cbn [snd] in G7.
  assert (H07 : step_ok s s7) by (eapply step_ok_trans; [exact H04 | eapply step_ok_trans; [exact G5 | eapply step_ok_trans; eassumption]]).
  destruct (c =? 10); [split; [reflexivity | exact H07] | split; [right; eexists; reflexivity | apply Herr; exact H07]].
Qed.

(* the shape of everything read_all can deliver *)
Theorem read_all_shape t :
  let '(cs, o) := read_all t in
  match o with
  | Ok => exists inc steps, cs = CInit inc :: steps_flat steps /\ Forall (Forall dir_wf) steps /\ steps <> [] /\ (inc = false -> length steps = 1%nat)
  | Err ln => 1 <= ln <= lines t /\
      (cs = [] \/ exists inc steps tail, cs = CInit inc :: steps_flat steps ++ tail /\ Forall (Forall dir_wf) steps /\
                    (tail = [] \/ exists ds, tail = CBegin :: ds /\ Forall dir_wf ds))
  end.
Proof.
  unfold read_all, read_with. pose proof (read_header_ok t) as H. destruct (read_header (a_init t)) as [cs0 [[inc|] s|ln]].
  - destruct H as [-> H]. pose proof (parse_complete_ok (0 :: rest s) inc s ltac:(cbn [length]; lia)) as Hp.
    destruct (parse_complete (0 :: rest s) inc s) as [cs' o]. destruct Hp as (steps & tail & -> & Hst & Ho).
    destruct o as [|ln].
    + destruct Ho as (-> & Hne & Hone). exists inc, steps. rewrite app_nil_r. cbn [app]. auto.
    + destruct Ho as [Ht Hln]. split.
      * pose proof (err_chain _ _ _ H Hln) as Hc. unfold a_init, pot, lines in *. cbn [aline rest] in Hc. lia.
      * right. exists inc, steps, tail. cbn [app]. auto.
  - destruct H as [-> H]. split; [|left; reflexivity]. unfold step_ok, a_init, pot, lines in *. cbn [aline rest] in *. pose proof (nl_nonneg (rest s)). lia.
  - destruct H as [Hc Hln]. unfold a_init, pot, lines in *. cbn [aline rest] in Hln. split; [lia|].
    destruct Hc as [-> | (inc & ->)]; [left; reflexivity|]. right. exists inc, [], []. cbn. split; [reflexivity|]. split; [constructor | left; reflexivity].
Qed.
