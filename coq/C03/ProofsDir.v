(* C03 - every directive of the reader model against the declarative description. *)
Require Import V.Lib.Base V.Lib.Calls V.Lib.Dec V.C09.Spec V.Gen.Consts V.C01.Read V.C01.ProofsPrim V.C03.Spec V.C03.ProofsSpec.
Require Import ZifyBool.
Local Open Scope Z_scope.

Definition dir_code (d : adir) : Z :=
  match d with
  | ARule _ _ _ _ _ | AWRule _ _ _ _ _ _ _ => 1 | AMin _ _ _ => 2 | AProject _ _ => 3 | AOutput _ _ _ => 4
  | AExternal _ _ _ => 5 | AAssume _ _ => 6 | AHeur _ _ _ _ _ _ => 7 | AEdge _ _ _ _ => 8
  | ATNum _ _ _ _ | ATSym _ _ _ _ | ATComp _ _ _ _ _ | ATElem _ _ _ _ _ | ATAtom _ _ _ _ _ | ATAtomG _ _ _ _ _ _ _
  | ABadTheory _ _ _ => 9
  | AComment _ _ _ => 10
  | ABadDir c => snd c
  end.

Definition dir_fields (d : adir) : list Z :=
  match d with
  | ARule _ ht head bt body => render_tok ht ++ render_tlist head ++ render_num bt 0 ++ render_tlist body
  | AWRule _ ht head bt cc bound body =>
      render_tok ht ++ render_tlist head ++ render_num bt (if cc then 2 else 1) ++ render_tok bound ++ render_wlist body
  | AMin _ prio lits => render_tok prio ++ render_wlist lits
  | AProject _ atoms => render_tlist atoms
  | AOutput _ s cond => render_str s ++ render_tlist cond
  | AExternal _ a v => render_tok a ++ render_tok v
  | AAssume _ lits => render_tlist lits
  | AHeur _ t a bias prio cond => render_tok t ++ render_tok a ++ render_tok bias ++ render_tok prio ++ render_tlist cond
  | AEdge _ s t cond => render_tok s ++ render_tok t ++ render_tlist cond
  | ATNum _ ty id n => render_num ty 0 ++ render_tok id ++ render_tok n
  | ATSym _ ty id s => render_num ty 1 ++ render_tok id ++ render_str s
  | ATComp _ ty id cc args => render_num ty 2 ++ render_tok id ++ render_tok cc ++ render_tlist args
  | ATElem _ ty id terms cond => render_num ty 4 ++ render_tok id ++ render_tlist terms ++ render_tlist cond
  | ATAtom _ ty a t elems => render_num ty 5 ++ render_tok a ++ render_tok t ++ render_tlist elems
  | ATAtomG _ ty a t elems op rhs => render_num ty 6 ++ render_tok a ++ render_tok t ++ render_tlist elems ++ render_tok op ++ render_tok rhs
  | AComment _ text nl => text ++ nl
  | ABadDir _ => []
  | ABadTheory _ ty id => render_tok ty ++ render_tok id
  end.

Lemma render_dir_split d : render_dir d = render_num (code_lay d) (dir_code d) ++ dir_fields d.
Proof. destruct d; try reflexivity. cbn [render_dir code_lay dir_code dir_fields]. rewrite app_nil_r. destruct c; reflexivity. Qed.

(* a token whose value is fixed by the structure *)
Lemma spec_code lo hi l v : INT64_OK lo hi -> lay_ws l = true -> (lo <=? v) && (v <=? hi) = true ->
  spec (m_range lo hi) (render_num l v) true v.
Proof. intros Hb Hws Hin. rewrite <- Hin. apply spec_range; assumption. Qed.

Lemma spec_bind_code {A B} (P : parser A) (f : A -> parser B) ba bb okb va vb :
  spec P ba true va -> nd_start bb -> spec (f va) bb okb vb -> spec (bind P f) (ba ++ bb) okb vb.
Proof. intros HP Hnd Hf. change okb with (true && okb). apply (spec_bind P f ba bb true okb va vb HP Hnd). intros _. exact Hf. Qed.

Lemma spec_bind_nil {A B} (P : parser A) (f : A -> parser B) ba oka okb va vb :
  spec P ba oka va -> (oka = true -> spec (f va) [] okb vb) -> spec (bind P f) ba (oka && okb) vb.
Proof.
  intros HP Hf r ln Hr. specialize (HP r ln Hr). unfold bind.
  destruct (P (amk (ba ++ r) ln)) as [a s'|l].
  - destruct HP as (-> & -> & Hrest). destruct s' as [rs ln2]. cbn [rest] in Hrest. subst rs.
    specialize (Hf eq_refl r ln2 Hr). cbn [app andb] in *. exact Hf.
  - rewrite HP. reflexivity.
Qed.

Lemma spec_fail {A} (v : A) : spec fail_here [] false v.
Proof. intros r ln Hr. reflexivity. Qed.

Ltac split_ok :=
  repeat match goal with
         | H : _ && _ = true |- _ => apply andb_true_iff in H; destruct H
         end.
Ltac fld :=
  first [ apply spec_tok_range; [i64 | assumption]
        | apply spec_tok_lit; assumption
        | apply spec_atoms; assumption | apply spec_lits; assumption | apply spec_ids; assumption
        | apply spec_wlits; [vm_compute; congruence | assumption]
        | apply spec_string; assumption ].
Ltac nd1 :=
  first [ apply nd_start_tok; assumption | apply nd_start_num; assumption | apply nd_start_tlist; assumption
        | apply nd_start_wlist; assumption | apply nd_start_str; assumption ].
Ltac nds := first [ nd1 | apply nd_start_app; nd1 ].
Ltac code := apply spec_code; [i64 | eapply num_ok_ws; eassumption | reflexivity].
(* one field, more to come *)
Ltac nxt := eapply spec_bind; [fld | nds | intros _; cbv beta].
Ltac nxt_code := eapply spec_bind_code; [code | nds | cbv beta].
(* last field *)
Ltac lst := first [ apply spec_map; fld
                  | match goal with |- spec (bind ?P (fun x => ret (@?g x))) _ _ _ => apply (spec_map P g); fld end ].

Lemma directive_spec d :
  dir_layout_ok d = true -> is_comment d = false -> (0 <=? dir_code d) && (dir_code d <=? 10) = true ->
  spec (directive (dir_code d)) (dir_fields d) (dir_in_range d) (call_of d).
Proof.
  intros Hl Hc Hcode.
  destruct d; cbn [dir_layout_ok dir_code dir_fields dir_in_range call_of is_comment] in *; try discriminate; split_ok.
  - (* ARule *) change (directive 1) with
      (ht0 <- m_pos enum_Head_t_max ;; head0 <- m_atoms ;; bt0 <- m_pos enum_Body_t_max ;;
       if bt0 =? Body_t_Normal then body0 <- m_lits ;; ret (Some (CRule ht0 head0 body0))
       else bound <- m_int ;; body0 <- m_wlits 0 ;; ret (Some (CWRule ht0 head0 bound body0))).
    nxt. nxt. nxt_code. change (0 =? Body_t_Normal) with true. cbv iota. lst.
  - (* AWRule *) change (directive 1) with
      (ht0 <- m_pos enum_Head_t_max ;; head0 <- m_atoms ;; bt0 <- m_pos enum_Body_t_max ;;
       if bt0 =? Body_t_Normal then body0 <- m_lits ;; ret (Some (CRule ht0 head0 body0))
       else bound <- m_int ;; body0 <- m_wlits 0 ;; ret (Some (CWRule ht0 head0 bound body0))).
    destruct count_code.
    + nxt. nxt. nxt_code. change (2 =? Body_t_Normal) with false. cbv iota. nxt. lst.
    + nxt. nxt. nxt_code. change (1 =? Body_t_Normal) with false. cbv iota. nxt. lst.
  - (* AMin *) change (directive 2) with (prio0 <- m_int ;; body0 <- m_wlits INT_MIN ;; ret (Some (CMin prio0 body0))).
    nxt. lst.
  - (* AProject *) change (directive 3) with (atoms0 <- m_atoms ;; ret (Some (CProject atoms0))). lst.
  - (* AOutput *) change (directive 4) with (name <- m_string ;; cond0 <- m_lits ;; ret (Some (COutput name cond0))).
    nxt. lst.
  - (* AExternal *) change (directive 5) with (a0 <- m_atom ;; v0 <- m_pos enum_Value_t_max ;; ret (Some (CExternal a0 v0))).
    nxt. lst.
  - (* AAssume *) change (directive 6) with (lits0 <- m_lits ;; ret (Some (CAssume lits0))). lst.
  - (* AHeur *) change (directive 7) with
      (t0 <- m_pos enum_Heuristic_t_max ;; a0 <- m_atom ;; bias0 <- m_int ;; prio0 <- m_pos INT_MAX ;;
       cond0 <- m_lits ;; ret (Some (CHeuristic a0 t0 bias0 prio0 cond0))).
    nxt. nxt. nxt. nxt. lst.
  - (* AEdge *) change (directive 8) with
      (s0 <- m_pos INT_MAX ;; t0 <- m_pos INT_MAX ;; cond0 <- m_lits ;; ret (Some (CEdge s0 t0 cond0))).
    nxt. nxt. lst.
  - (* ATNum *) change (directive 9) with (c0 <- theory ;; ret (Some c0)). unfold theory.
    apply (spec_map _ (@Some call)). nxt_code. nxt. change (0 =? Theory_t_Number) with true. cbv iota. lst.
  - (* ATSym *) change (directive 9) with (c0 <- theory ;; ret (Some c0)). unfold theory.
    apply (spec_map _ (@Some call)). nxt_code. nxt.
    change (1 =? Theory_t_Number) with false. change (1 =? Theory_t_Symbol) with true. cbv iota. lst.
  - (* ATComp *) change (directive 9) with (c0 <- theory ;; ret (Some c0)). unfold theory.
    apply (spec_map _ (@Some call)). nxt_code. nxt.
    change (2 =? Theory_t_Number) with false. change (2 =? Theory_t_Symbol) with false. change (2 =? Theory_t_Compound) with true. cbv iota.
    nxt. lst.
  - (* ATElem *) change (directive 9) with (c0 <- theory ;; ret (Some c0)). unfold theory.
    apply (spec_map _ (@Some call)). nxt_code. nxt.
    change (4 =? Theory_t_Number) with false. change (4 =? Theory_t_Symbol) with false. change (4 =? Theory_t_Compound) with false.
    change (4 =? Theory_t_Element) with true. cbv iota.
    nxt. lst.
  - (* ATAtom *) change (directive 9) with (c0 <- theory ;; ret (Some c0)). unfold theory.
    apply (spec_map _ (@Some call)). nxt_code. nxt.
    change (5 =? Theory_t_Number) with false. change (5 =? Theory_t_Symbol) with false. change (5 =? Theory_t_Compound) with false.
    change (5 =? Theory_t_Element) with false. change (5 =? Theory_t_Atom) with true. cbv iota.
    nxt. lst.
  - (* ATAtomG *) change (directive 9) with (c0 <- theory ;; ret (Some c0)). unfold theory.
    apply (spec_map _ (@Some call)). nxt_code. nxt.
    change (6 =? Theory_t_Number) with false. change (6 =? Theory_t_Symbol) with false. change (6 =? Theory_t_Compound) with false.
    change (6 =? Theory_t_Element) with false. change (6 =? Theory_t_Atom) with false. change (6 =? Theory_t_AtomWithGuard) with true. cbv iota.
    nxt. nxt. nxt. lst.
  - (* ABadDir: code outside 0..10 *) exfalso. lia.
  - (* ABadTheory *) change (directive 9) with (c0 <- theory ;; ret (Some c0)).
    assert (Hth : spec theory (render_tok ty ++ render_tok id) (rng 0 U_MAX ty && (rng 0 U_MAX id && false)) CBegin).
    { unfold theory. nxt.
      eapply spec_bind_nil; [fld|]. intros _. cbv beta.
      match goal with Hn : negb (theory_code _) = true |- _ => unfold theory_code in Hn end.
      unfold Theory_t_Number, Theory_t_Symbol, Theory_t_Compound, Theory_t_Element, Theory_t_Atom, Theory_t_AtomWithGuard.
      assert (E0 : (snd ty =? 0) = false) by lia. assert (E1 : (snd ty =? 1) = false) by lia. assert (E2 : (snd ty =? 2) = false) by lia.
      assert (E4 : (snd ty =? 4) = false) by lia. assert (E5 : (snd ty =? 5) = false) by lia. assert (E6 : (snd ty =? 6) = false) by lia.
      rewrite E0, E1, E2, E4, E5, E6. apply spec_fail. }
    intros r ln Hr. specialize (Hth r ln Hr). unfold bind, ret.
    destruct (theory (amk ((render_tok ty ++ render_tok id) ++ r) ln)); [|reflexivity].
    destruct Hth as (Hf & _). destruct (rng 0 U_MAX ty), (rng 0 U_MAX id); discriminate.
Qed.
