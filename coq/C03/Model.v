(* C03 - the aspif reader on an arbitrary text.  Case:  mode N len byte...  (mode 0 = readProgram / parse(Complete),
   1 = caller loop over parse(Incremental); N = BUF_SIZE of the build that runs the case, irrelevant for the model).
   Observation:  accepted line reports delivered-calls...   (the reader itself is C01/Read.v)                    *)
Require Import V.Lib.Base V.Lib.Calls V.C01.Read.
Local Open Scope Z_scope.

Definition run_case (c : list Z) : list Z :=
  match c with
  | mode :: _ :: len :: r =>
      let t := firstn (Z.to_nat len) r in
      enc_result (if mode =? 0 then read_all t else read_incr t)
  | _ => []
  end.
