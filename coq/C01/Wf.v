(* C01 - the documented argument ranges of the AbstractProgram calls (wf_call), the framing of a program
   (wf_trace) and the one difference the round trip is allowed to make (norm).  Definitions only. *)
Require Import V.Lib.Base V.Lib.Calls.
Local Open Scope Z_scope.

Definition W_INT_MAX : Z := 2147483647.
Definition W_INT_MIN : Z := -2147483648.
Definition W_UINT_MAX : Z := 4294967295.

Definition w_atom (a : Z) : bool := (1 <=? a) && (a <=? W_INT_MAX).                       (* atoms 1..2^31-1 *)
Definition w_lit (l : Z) : bool := negb (l =? 0) && ((- W_INT_MAX <=? l) && (l <=? W_INT_MAX)).   (* literals != 0 *)
Definition w_id (i : Z) : bool := (0 <=? i) && (i <=? W_UINT_MAX).                        (* ids 0..2^32-1 *)
Definition w_i32 (x : Z) : bool := (W_INT_MIN <=? x) && (x <=? W_INT_MAX).                (* any 32-bit int *)
Definition w_in (lo hi x : Z) : bool := (lo <=? x) && (x <=? hi).
Definition w_len {A} (l : list A) : bool := Z.of_nat (length l) <=? W_UINT_MAX.          (* the count field is 32 bit *)
Definition w_list (f : Z -> bool) (l : list Z) : bool := w_len l && forallb f l.
Definition w_wlist (minw : Z) (l : list (Z * Z)) : bool :=
  w_len l && forallb (fun p => w_lit (fst p) && w_in minw W_INT_MAX (snd p)) l.
Definition w_str (s : list Z) : bool := Z.of_nat (length s) <=? W_INT_MAX.                (* any bytes; the length field is an int *)

Definition wf_call (c : call) : bool :=
  match c with
  | CInit _ | CBegin | CEnd => true
  | CRule ht h b => w_in 0 1 ht && (w_list w_atom h && w_list w_lit b)
  | CWRule ht h bd b => w_in 0 1 ht && (w_list w_atom h && (w_i32 bd && w_wlist 0 b))
  | CMin p l => w_i32 p && w_wlist W_INT_MIN l
  | CProject a => w_list w_atom a
  | COutput n c => w_str n && w_list w_lit c
  | CExternal a v => w_atom a && w_in 0 3 v
  | CAssume l => w_list w_lit l
  | CHeuristic a t b p c => w_in 0 5 t && (w_atom a && (w_i32 b && (w_in 0 W_INT_MAX p && w_list w_lit c)))
  | CEdge s t c => w_in 0 W_INT_MAX s && (w_in 0 W_INT_MAX t && w_list w_lit c)
  | CTNum i n => w_id i && w_i32 n
  | CTSym i s => w_id i && w_str s
  | CTComp i c a => w_id i && (w_in (-3) W_INT_MAX c && w_list w_id a)
  | CTElem i t c => w_id i && (w_list w_id t && w_list w_lit c)
  | CTAtom a t e => w_id a && (w_id t && w_list w_id e)
  | CTAtomG a t e o r => w_id a && (w_id t && (w_list w_id e && (w_id o && w_id r)))
  end.

Definition is_dir (c : call) : bool := match c with CInit _ | CBegin | CEnd => false | _ => true end.

(* a program: initProgram(inc), then steps  beginStep directives endStep ; at least one step, exactly one unless incremental *)
Definition flatten (inc : bool) (steps : list (list call)) : list call :=
  CInit inc :: flat_map (fun ds => CBegin :: ds ++ [CEnd]) steps.
Definition wf_steps (inc : bool) (steps : list (list call)) : bool :=
  forallb (forallb is_dir) steps && match steps with [] => false | [_] => true | _ => inc end.
Definition wf_trace (p : list call) : Prop :=
  exists inc steps, p = flatten inc steps /\ wf_steps inc steps = true.

(* the only permitted difference: weight-0 literals disappear from weighted bodies and minimize statements *)
Definition nz (p : Z * Z) : bool := negb (snd p =? 0).
Definition norm_call (c : call) : call :=
  match c with
  | CWRule ht h bd b => CWRule ht h bd (filter nz b)
  | CMin p l => CMin p (filter nz l)
  | _ => c
  end.
Definition norm (p : list call) : list call := map norm_call p.
