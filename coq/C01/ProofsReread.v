(* C01 - writing what was read and reading it again reproduces the identical calls. *)
Require Import V.Lib.Base V.Lib.Calls V.C01.Read V.C01.Write V.C01.Wf V.C01.ProofsRoundtrip V.C03.ProofsContract.
Local Open Scope Z_scope.

Theorem c01_reread_lemma t cs : read_all t = (cs, Ok) -> read_all (write_prog cs) = (cs, Ok).
Proof.
  intros E. destruct (accepted_trace t cs E) as (Ht & Hw & Hn).
  rewrite (c01_roundtrip_lemma cs Ht Hw). rewrite Hn. reflexivity.
Qed.
