(* C01 - write-then-read.  The writer's text is the rendering of the program under the canonical layout
   (one blank before every field, one directive per line); c03_complete_lemma then gives the round trip. *)
Require Import V.Lib.Base V.Lib.Calls V.Lib.Dec V.C09.Spec V.Gen.Consts V.C01.Read V.C01.Write V.C01.Wf V.C01.ProofsPrim
  V.C03.Spec V.C03.ProofsSpec V.C03.ProofsDir V.C03.ProofsProg.
Require Import ZifyBool.
Local Open Scope Z_scope.

Definition lay_sp : lay := mkLay [32] false 0.
Definition lay_nl : lay := mkLay [10] false 0.
Definition lay_0 : lay := mkLay [] false 0.
Definition c_tok (v : Z) : tok := (lay_sp, v).
Definition c_list (l : list Z) : tlist := (lay_sp, map c_tok l).
Definition c_wlist (l : list (Z * Z)) : wlist := (lay_sp, map (fun p => (c_tok (fst p), c_tok (snd p))) l).
Definition c_str (s : list Z) : astr := mkStr lay_sp 32 s.
Definition code_l (first : bool) : lay := if first then lay_0 else lay_nl.

Definition c_dir (first : bool) (c : call) : adir :=
  let cl := code_l first in
  match c with
  | CRule ht h b => ARule cl (c_tok ht) (c_list h) lay_sp (c_list b)
  | CWRule ht h bd b => AWRule cl (c_tok ht) (c_list h) lay_sp false (c_tok bd) (c_wlist b)
  | CMin p l => AMin cl (c_tok p) (c_wlist l)
  | CProject a => AProject cl (c_list a)
  | COutput n c => AOutput cl (c_str n) (c_list c)
  | CExternal a v => AExternal cl (c_tok a) (c_tok v)
  | CAssume l => AAssume cl (c_list l)
  | CHeuristic a t b p c => AHeur cl (c_tok t) (c_tok a) (c_tok b) (c_tok p) (c_list c)
  | CEdge s t c => AEdge cl (c_tok s) (c_tok t) (c_list c)
  | CTNum i n => ATNum cl lay_sp (c_tok i) (c_tok n)
  | CTSym i s => ATSym cl lay_sp (c_tok i) (c_str s)
  | CTComp i c a => ATComp cl lay_sp (c_tok i) (c_tok c) (c_list a)
  | CTElem i t c => ATElem cl lay_sp (c_tok i) (c_list t) (c_list c)
  | CTAtom a t e => ATAtom cl lay_sp (c_tok a) (c_tok t) (c_list e)
  | CTAtomG a t e o r => ATAtomG cl lay_sp (c_tok a) (c_tok t) (c_list e) (c_tok o) (c_tok r)
  | _ => AComment cl [] [10]          (* not a directive; excluded by wf_trace *)
  end.

Fixpoint c_dirs (first : bool) (ds : list call) : list adir :=
  match ds with [] => [] | d :: r => c_dir first d :: c_dirs false r end.
Definition end_lay (first : bool) (ds : list call) : lay := match ds with [] => code_l first | _ => lay_nl end.
Definition c_step (first : bool) (ds : list call) : astep := mkStep (c_dirs first ds) (end_lay first ds).
Fixpoint c_steps (first : bool) (ss : list (list call)) : list astep :=
  match ss with [] => [] | ds :: r => c_step first ds :: c_steps false r end.
Definition c_prog (inc : bool) (ss : list (list call)) : aprog :=
  mkProg (mkHdr [] lay_0 lay_sp (lay_sp, aspif_rev) (if inc then 1%nat else 0%nat) inc [10]) (c_steps true ss) [10].

(* ---- field by field: the writer's bytes are the canonical rendering ---- *)
Lemma add_int_render x : add_int x = render_tok (c_tok x).
Proof.
  unfold add_int, render_tok, render_num, c_tok, sign_of, print_Z. cbn [fst snd lay_sp l_ws l_plus l_zeros repeat app].
  destruct (Z.ltb_spec x 0).
  - rewrite Z.abs_neq by lia. reflexivity.
  - rewrite Z.abs_eq by lia. reflexivity.
Qed.
Lemma add_uint_render x : 0 <= x -> add_uint x = render_tok (c_tok x).
Proof. intros H. rewrite <- add_int_render. unfold add_uint, add_int. rewrite print_Z_nonneg by exact H. reflexivity. Qed.
Lemma i32_id x : - 2147483648 <= x <= 2147483647 -> i32 x = x.
Proof. intros H. unfold i32. rewrite Z.mod_small by lia. lia. Qed.

Lemma add_atoms_render l : forallb (fun a => 0 <=? a) l = true -> add_atoms l = render_tlist (c_list l).
Proof.
  intros H. unfold add_atoms, render_tlist, c_list. cbn [fst snd]. rewrite map_length.
  change (32 :: print_nat (Z.of_nat (length l)) ++ flat_map (fun a => 32 :: print_nat a) l)
    with (add_uint (Z.of_nat (length l)) ++ flat_map (fun a => 32 :: print_nat a) l).
  rewrite add_uint_render by lia. f_equal.
  induction l as [|a l IH]; [reflexivity|]. cbn [forallb] in H. apply andb_true_iff in H. destruct H as [Ha Hl].
  cbn [flat_map map]. rewrite IH by exact Hl. f_equal. apply (add_uint_render a). lia.
Qed.
Lemma add_lits_render l : add_lits l = render_tlist (c_list l).
Proof.
  unfold add_lits, render_tlist, c_list. cbn [fst snd]. rewrite map_length.
  change (32 :: print_nat (Z.of_nat (length l)) ++ flat_map (fun a => 32 :: print_Z a) l)
    with (add_uint (Z.of_nat (length l)) ++ flat_map (fun a => 32 :: print_Z a) l).
  rewrite add_uint_render by lia. f_equal.
  induction l as [|a l IH]; [reflexivity|]. cbn [flat_map map]. rewrite IH. f_equal. apply (add_int_render a).
Qed.
Lemma add_wlits_render l : add_wlits l = render_wlist (c_wlist l).
Proof.
  unfold add_wlits, render_wlist, c_wlist. cbn [fst snd]. rewrite map_length.
  change (32 :: print_nat (Z.of_nat (length l)) ++ flat_map (fun p => 32 :: print_Z (fst p) ++ 32 :: print_Z (snd p)) l)
    with (add_uint (Z.of_nat (length l)) ++ flat_map (fun p => 32 :: print_Z (fst p) ++ 32 :: print_Z (snd p)) l).
  rewrite add_uint_render by lia. f_equal.
  induction l as [|a l IH]; [reflexivity|]. cbn [flat_map map]. rewrite IH. f_equal.
  unfold render_wpair. cbn [fst snd]. rewrite <- !add_int_render. reflexivity.
Qed.
Lemma add_str_render s : add_str s = render_str (c_str s).
Proof.
  unfold add_str, render_str, c_str. cbn [s_lay s_sep s_bytes].
  change (32 :: print_nat (Z.of_nat (length s)) ++ 32 :: s) with (add_uint (Z.of_nat (length s)) ++ 32 :: s).
  rewrite add_uint_render by lia. reflexivity.
Qed.

Definition nlp (first : bool) : list Z := if first then [] else [10].
Lemma start_dir_render first code : 0 <= code -> nlp first ++ start_dir code = render_num (code_l first) code.
Proof.
  intros H. unfold start_dir, render_num, sign_of, code_l, nlp.
  destruct (Z.ltb_spec code 0); [lia|]. rewrite Z.abs_eq by lia. destruct first; reflexivity.
Qed.

Lemma forallb_weaken {X} (f g : X -> bool) l : (forall x, f x = true -> g x = true) -> forallb f l = true -> forallb g l = true.
Proof. intros H Hf. rewrite forallb_forall in *. auto. Qed.

Ltac wf_split :=
  repeat match goal with
         | H : _ && _ = true |- _ => apply andb_true_iff in H; destruct H
         end.
Lemma w_list_nonneg f l : (forall x, f x = true -> 0 <= x) -> w_list f l = true -> forallb (fun a => 0 <=? a) l = true.
Proof.
  intros Hf H. unfold w_list in H. apply andb_true_iff in H. destruct H as [_ H].
  eapply forallb_weaken; [|exact H]. intros x Hx. specialize (Hf x Hx). lia.
Qed.
Lemma w_atom_nonneg x : w_atom x = true -> 0 <= x. Proof. unfold w_atom, W_INT_MAX. lia. Qed.
Lemma w_id_nonneg x : w_id x = true -> 0 <= x. Proof. unfold w_id. lia. Qed.

(* one directive: the writer's line is the canonical rendering followed by the line end *)
Lemma write_dir first c : is_dir c = true -> wf_call c = true ->
  nlp first ++ write_call c = render_dir (c_dir first c) ++ [10].
Proof.
  intros Hd Hw.
  destruct c; cbn [is_dir] in Hd; try discriminate Hd; cbn [wf_call] in Hw; wf_split;
    cbn [write_call c_dir render_dir]; unfold end_dir;
    repeat rewrite <- app_assoc; rewrite (app_assoc (nlp first)); rewrite start_dir_render by (vm_compute; congruence);
    repeat rewrite <- app_assoc; repeat f_equal;
    repeat match goal with
           | |- context [i32 ?x] => rewrite (i32_id x) by (unfold w_atom, w_in, W_INT_MAX in *; lia)
           end;
    try apply add_int_render; try apply add_lits_render; try apply add_wlits_render; try apply add_str_render;
    try (apply add_atoms_render; first [eapply w_list_nonneg; [exact w_atom_nonneg | eassumption] | eapply w_list_nonneg; [exact w_id_nonneg | eassumption]]);
    try (apply add_uint_render; first [apply w_id_nonneg; assumption | apply w_atom_nonneg; assumption]).
Qed.

(* ---- the canonical directive is well laid out, in range exactly when the call is, and denotes the call ---- *)
Lemma forallb_map {X Y} (f : Y -> bool) (g : X -> Y) l : forallb f (map g l) = forallb (fun x => f (g x)) l.
Proof. induction l as [|a l IH]; [reflexivity|]. cbn [map forallb]. rewrite IH. reflexivity. Qed.

Lemma c_list_ok l : tlist_ok (c_list l) = true.
Proof. unfold tlist_ok, c_list. cbn [fst snd]. rewrite forallb_map. cbn. clear. induction l; cbn; auto. Qed.
Lemma c_wlist_ok l : wlist_ok (c_wlist l) = true.
Proof. unfold wlist_ok, c_wlist. cbn [fst snd]. rewrite forallb_map. cbn. clear. induction l; cbn; auto. Qed.
Lemma c_str_ok s : str_ok (c_str s) = true.
Proof. reflexivity. Qed.
Lemma c_dir_layout first c : is_dir c = true -> dir_layout_ok (c_dir first c) = true.
Proof.
  intros Hd. destruct c; cbn [is_dir] in Hd; try discriminate Hd; cbn [c_dir dir_layout_ok];
    rewrite ?c_list_ok, ?c_wlist_ok, ?c_str_ok; reflexivity.
Qed.

Lemma r_list_c f g l : (forall x, f (c_tok x) = g x) -> r_list f (c_list l) = w_list g l.
Proof.
  intros H. unfold r_list, w_list, c_list, r_count, w_len. cbn [snd]. rewrite map_length, forallb_map. f_equal.
  induction l as [|a l IH]; [reflexivity|]. cbn [forallb]. rewrite H, IH. reflexivity.
Qed.
Lemma r_wlist_c minw l : r_wlist minw (c_wlist l) = w_wlist minw l.
Proof.
  unfold r_wlist, w_wlist, c_wlist, r_count, w_len. cbn [snd]. rewrite map_length, forallb_map. f_equal.
Qed.
Lemma r_str_c s : r_str (c_str s) = w_str s.
Proof. unfold r_str, w_str, c_str. cbn [s_bytes]. unfold I_MAX, W_INT_MAX. reflexivity. Qed.
Lemma c_dir_range first c : is_dir c = true -> dir_in_range (c_dir first c) = wf_call c.
Proof.
  intros Hd. destruct c; cbn [is_dir] in Hd; try discriminate Hd; cbn [c_dir dir_in_range wf_call];
    rewrite ?r_wlist_c, ?r_str_c;
    repeat match goal with
           | |- context [r_list r_atom (c_list ?l)] => rewrite (r_list_c r_atom w_atom l) by reflexivity
           | |- context [r_list r_lit (c_list ?l)] => rewrite (r_list_c r_lit w_lit l) by reflexivity
           | |- context [r_list r_id (c_list ?l)] => rewrite (r_list_c r_id w_id l) by reflexivity
           end; reflexivity.
Qed.

Lemma vals_c l : vals (c_list l) = l.
Proof. unfold vals, c_list. cbn [snd]. rewrite map_map. cbn. apply map_id. Qed.
Lemma wvals_c l : wvals (c_wlist l) = filter nz l.
Proof.
  unfold wvals, c_wlist. cbn [snd]. rewrite map_map. cbn [fst snd c_tok].
  replace (map (fun x : Z * Z => (fst x, snd x)) l) with l; [reflexivity|].
  induction l as [|[a b] l IH]; [reflexivity|]. cbn [map fst snd]. rewrite <- IH. reflexivity.
Qed.
Lemma c_dir_call first c : is_dir c = true -> call_of (c_dir first c) = Some (norm_call c).
Proof.
  intros Hd. destruct c; cbn [is_dir] in Hd; try discriminate Hd; cbn [c_dir call_of norm_call fst snd c_tok c_str s_bytes];
    rewrite ?vals_c, ?wvals_c; reflexivity.
Qed.

(* ---- steps and programs ---- *)
Definition write_step (ds : list call) : list Z := flat_map write_call ds ++ [48; 10].

Lemma write_step_render ds : forall first, forallb is_dir ds = true -> forallb wf_call ds = true ->
  nlp first ++ write_step ds = render_step (c_step first ds) ++ [10].
Proof.
  unfold write_step, render_step, c_step. cbn [st_dirs st_end].
  induction ds as [|d ds IH]; intros first Hd Hw.
  - cbn [flat_map app c_dirs end_lay]. destruct first; reflexivity.
  - cbn [forallb] in Hd, Hw. apply andb_true_iff in Hd. destruct Hd as [Hd1 Hd2]. apply andb_true_iff in Hw. destruct Hw as [Hw1 Hw2].
    cbn [flat_map c_dirs]. rewrite <- !app_assoc. rewrite (app_assoc (nlp first)). rewrite (write_dir first d Hd1 Hw1).
    rewrite <- !app_assoc. f_equal.
    specialize (IH false Hd2 Hw2). cbn [nlp] in IH. cbn [app]. cbn [app] in IH.
    replace (end_lay first (d :: ds)) with (end_lay false ds) by (destruct ds; reflexivity).
    rewrite <- app_assoc in IH. exact IH.
Qed.

Lemma write_steps_render ss : forall first, ss <> [] -> forallb (forallb is_dir) ss = true -> forallb (forallb wf_call) ss = true ->
  nlp first ++ flat_map write_step ss = flat_map render_step (c_steps first ss) ++ [10].
Proof.
  induction ss as [|ds ss IH]; intros first Hne Hd Hw; [congruence|].
  cbn [forallb] in Hd, Hw. apply andb_true_iff in Hd. destruct Hd as [Hd1 Hd2]. apply andb_true_iff in Hw. destruct Hw as [Hw1 Hw2].
  cbn [flat_map c_steps]. rewrite app_assoc. rewrite (write_step_render ds first Hd1 Hw1). rewrite <- !app_assoc. f_equal.
  destruct ss as [|ds2 ss2]; [reflexivity|].
  specialize (IH false ltac:(congruence) Hd2 Hw2). cbn [nlp] in IH. exact IH.
Qed.

Lemma write_flatten inc ss : write_prog (flatten inc ss) = write_call (CInit inc) ++ flat_map write_step ss.
Proof.
  unfold write_prog, flatten. cbn [flat_map]. f_equal.
  induction ss as [|ds ss IH]; [reflexivity|]. cbn [flat_map]. rewrite flat_map_app. rewrite IH.
  unfold write_step. cbn [flat_map write_call app]. rewrite flat_map_app. cbn [flat_map write_call app]. reflexivity.
Qed.

Lemma write_render inc ss : ss <> [] -> forallb (forallb is_dir) ss = true -> forallb (forallb wf_call) ss = true ->
  write_prog (flatten inc ss) = render (c_prog inc ss).
Proof.
  intros Hne Hd Hw. rewrite write_flatten. unfold render, c_prog. cbn [p_hdr p_steps p_trail].
  pose proof (write_steps_render ss true Hne Hd Hw) as H. cbn [nlp app] in H. rewrite H.
  f_equal. destruct inc; reflexivity.
Qed.

(* layout of the canonical program *)
Lemma c_dirs_layout ds : forall first free, (first = true -> free = true) -> forallb is_dir ds = true ->
  dirs_layout_ok free (c_dirs first ds) (end_lay first ds) = true.
Proof.
  induction ds as [|d ds IH]; intros first free Hf Hd.
  - cbn [c_dirs end_lay dirs_layout_ok]. destruct first; [rewrite (Hf eq_refl)|]; destruct free; reflexivity.
  - cbn [forallb] in Hd. apply andb_true_iff in Hd. destruct Hd as [Hd1 Hd2].
    cbn [c_dirs dirs_layout_ok]. rewrite (c_dir_layout first d Hd1).
    replace (end_lay first (d :: ds)) with (end_lay false ds) by (destruct ds; reflexivity).
    assert (Hnc : is_comment (c_dir first d) = false) by (destruct d; cbn [is_dir] in Hd1; try discriminate Hd1; reflexivity).
    rewrite Hnc. rewrite (IH false false ltac:(congruence) Hd2).
    assert (Hcl : code_lay (c_dir first d) = code_l first) by (destruct d; reflexivity). rewrite Hcl.
    assert (Hcn : comment_nl_ok (c_dir first d) (match c_dirs false ds with d2 :: _ => code_lay d2 | [] => end_lay false ds end) = true)
      by (destruct d; cbn [is_dir] in Hd1; try discriminate Hd1; reflexivity).
    rewrite Hcn. destruct first; [rewrite (Hf eq_refl)|]; destruct free; reflexivity.
Qed.

Lemma c_steps_layout ss : forall first, forallb (forallb is_dir) ss = true -> steps_layout_ok first (c_steps first ss) = true.
Proof.
  induction ss as [|ds ss IH]; intros first Hd; [reflexivity|].
  cbn [forallb] in Hd. apply andb_true_iff in Hd. destruct Hd as [Hd1 Hd2].
  cbn [c_steps steps_layout_ok c_step st_dirs st_end]. rewrite (c_dirs_layout ds first first (fun H => H) Hd1). rewrite (IH false Hd2). reflexivity.
Qed.

Lemma c_prog_layout inc ss : forallb (forallb is_dir) ss = true -> wf_layout (c_prog inc ss) = true.
Proof.
  intros Hd. unfold wf_layout, c_prog. cbn [p_hdr p_steps p_trail]. rewrite (c_steps_layout ss true Hd).
  unfold hdr_layout_ok. cbn [h_pre h_major h_minor h_rev h_nl]. reflexivity.
Qed.

Lemma c_steps_range ss : forall first, forallb (forallb is_dir) ss = true ->
  forallb (fun s => forallb dir_in_range (st_dirs s)) (c_steps first ss) = forallb (forallb wf_call) ss.
Proof.
  induction ss as [|ds ss IH]; intros first Hd; [reflexivity|].
  cbn [forallb] in Hd. apply andb_true_iff in Hd. destruct Hd as [Hd1 Hd2].
  cbn [c_steps forallb c_step st_dirs]. rewrite (IH false Hd2). f_equal.
  clear IH Hd2. revert first. induction ds as [|d ds IHd]; intros first; [reflexivity|].
  cbn [forallb] in Hd1. apply andb_true_iff in Hd1. destruct Hd1 as [Hd Hds].
  cbn [c_dirs forallb]. rewrite (c_dir_range first d Hd), (IHd Hds false). reflexivity.
Qed.

Lemma c_steps_calls ss : forall first, forallb (forallb is_dir) ss = true ->
  flat_map step_calls (c_steps first ss) = flat_map (fun ds => CBegin :: map norm_call ds ++ [CEnd]) ss.
Proof.
  induction ss as [|ds ss IH]; intros first Hd; [reflexivity|].
  cbn [forallb] in Hd. apply andb_true_iff in Hd. destruct Hd as [Hd1 Hd2].
  cbn [c_steps flat_map]. rewrite (IH false Hd2). f_equal. unfold step_calls, c_step. cbn [st_dirs]. f_equal. f_equal.
  clear IH Hd2. revert first. induction ds as [|d ds IHd]; intros first; [reflexivity|].
  cbn [forallb] in Hd1. apply andb_true_iff in Hd1. destruct Hd1 as [Hd Hds].
  cbn [c_dirs dir_calls map]. rewrite (c_dir_call first d Hd), (IHd Hds false). reflexivity.
Qed.

Lemma norm_flatten inc ss : forallb (forallb is_dir) ss = true ->
  norm (flatten inc ss) = CInit inc :: flat_map (fun ds => CBegin :: map norm_call ds ++ [CEnd]) ss.
Proof.
  intros _. unfold norm, flatten. cbn [map norm_call]. f_equal.
  induction ss as [|ds ss IH]; [reflexivity|]. cbn [flat_map]. rewrite map_app. cbn [map norm_call]. rewrite map_app. cbn [map norm_call].
  rewrite IH. reflexivity.
Qed.

Theorem c01_roundtrip_lemma p : wf_trace p -> forallb wf_call p = true -> read_all (write_prog p) = (norm p, Ok).
Proof.
  intros (inc & ss & -> & Hs) Hw. unfold wf_steps in Hs. apply andb_true_iff in Hs. destruct Hs as [Hd Hn].
  assert (Hne : ss <> []) by (destruct ss; [discriminate Hn | congruence]).
  assert (Hws : forallb (forallb wf_call) ss = true).
  { unfold flatten in Hw. cbn [forallb wf_call andb] in Hw. clear - Hw. induction ss as [|ds ss IH]; [reflexivity|].
    cbn [flat_map] in Hw. cbn [forallb]. change (CBegin :: ds ++ [CEnd]) with ([CBegin] ++ ds ++ [CEnd]) in Hw.
    rewrite !forallb_app in Hw. cbn [forallb wf_call andb] in Hw.
    apply andb_true_iff in Hw. destruct Hw as [H1 H2]. apply andb_true_iff in H1. destruct H1 as [H1 _]. rewrite H1, (IH H2). reflexivity. }
  rewrite (write_render inc ss Hne Hd Hws).
  rewrite (c03_complete_lemma (c_prog inc ss) (c_prog_layout inc ss Hd)).
  - unfold calls, c_prog. cbn [p_hdr p_steps h_inc]. rewrite (c_steps_calls ss true Hd), (norm_flatten inc ss Hd). reflexivity.
  - unfold in_range, c_prog. cbn [p_hdr p_steps h_rev h_inc]. rewrite (c_steps_range ss true Hd), Hws.
    destruct ss as [|s1 [|s2 ss2]]; cbn [c_steps]; [discriminate Hn | reflexivity | rewrite Hn; reflexivity].
Qed.

(* both read modes are the same function of the text *)
Lemma modes_loop fuel : forall inc s, incr_loop fuel inc s = parse_complete fuel inc s.
Proof.
  induction fuel as [|x f IH]; intros inc s; [reflexivity|].
  cbn [incr_loop parse_complete]. unfold parse_incremental.
  destruct (parse_round inc s) as [cs [u s1|ln]]; [|reflexivity].
  destruct (more s1) as [m s2]. destruct m; [rewrite IH|]; reflexivity.
Qed.
Theorem c01_modes_lemma t : read_incr t = read_all t.
Proof.
  unfold read_incr, read_all, read_with.
  destruct (read_header (a_init t)) as [cs [[inc|] s|ln]]; try reflexivity.
Qed.
