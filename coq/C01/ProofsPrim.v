(* C01/C03 - lemmas about the stream primitives used by the reader model: white space, the integer
   match on a digit string of ARBITRARY length (the crux of C03), counted repetition, raw copy. *)
Require Import V.Lib.Base V.Lib.Calls V.Lib.Dec V.C09.Spec V.Gen.Consts V.C01.Read.
Require Import ZifyBool.
Local Open Scope Z_scope.
Ltac Zify.zify_post_hook ::= Z.div_mod_to_equations.

(* ---------------------------------------------------------------- counted repetition *)
Fixpoint rep_nat {A} (elem : parser A) (n : nat) : parser (list A) :=
  match n with
  | O => ret []
  | S k => x <- elem ;; l <- rep_nat elem k ;; ret (x :: l)
  end.

Lemma rep_nat_add {A} (elem : parser A) a b s :
  rep_nat elem (a + b) s = (l1 <- rep_nat elem a ;; l2 <- rep_nat elem b ;; ret (l1 ++ l2)) s.
Proof.
  revert s. induction a as [|a IH]; intros s.
  - cbn [Nat.add rep_nat]. unfold bind, ret. destruct (rep_nat elem b s); reflexivity.
  - cbn [Nat.add rep_nat]. unfold bind, ret in *. destruct (elem s) as [x s1|ln]; [|reflexivity].
    rewrite IH.
    destruct (rep_nat elem a s1) as [l1 s2|ln]; [|reflexivity].
    destruct (rep_nat elem b s2) as [l2 s3|ln]; reflexivity.
Qed.

Lemma rep_pos_nat {A} (elem : parser A) p s : rep_pos elem p s = rep_nat elem (Pos.to_nat p) s.
Proof.
  revert s. induction p as [q IH|q IH|]; intros s.
  - rewrite Pos2Nat.inj_xI.
    replace (2 * Pos.to_nat q)%nat with (Pos.to_nat q + Pos.to_nat q)%nat by lia.
    cbn [rep_pos rep_nat].
    unfold bind, ret. destruct (elem s) as [x s1|ln]; [|reflexivity].
    rewrite rep_nat_add. unfold bind, ret. rewrite IH.
    destruct (rep_nat elem (Pos.to_nat q) s1) as [l1 s2|ln]; [|reflexivity].
    rewrite IH. destruct (rep_nat elem (Pos.to_nat q) s2); reflexivity.
  - rewrite Pos2Nat.inj_xO. cbn [rep_pos].
    replace (2 * Pos.to_nat q)%nat with (Pos.to_nat q + Pos.to_nat q)%nat by lia.
    rewrite rep_nat_add. unfold bind, ret. rewrite IH.
    destruct (rep_nat elem (Pos.to_nat q) s) as [l1 s2|ln]; [|reflexivity].
    rewrite IH. reflexivity.
  - reflexivity.
Qed.

(* the binary loop is the n-fold iteration of the C++ for-loop *)
Lemma rep_is_loop {A} (elem : parser A) n s : 0 <= n -> rep elem n s = rep_nat elem (Z.to_nat n) s.
Proof.
  intros Hn. destruct n as [|p|p]; [reflexivity| |lia].
  cbn [rep Z.to_nat]. apply rep_pos_nat.
Qed.

(* ---------------------------------------------------------------- raw copy *)
Lemma copy_k_eq k s : 0 <= k -> copy_k k s = a_copy k s.
Proof.
  intros Hk. unfold copy_k, a_copy.
  destruct (Z.ltb_spec k 0); [lia|].
  destruct (Z.ltb_spec (Z.min k (Z.of_nat (length (rest s)))) 0); [lia|].
  destruct (Z.le_gt_cases k (Z.of_nat (length (rest s)))) as [Hle|Hgt].
  - rewrite Z.min_l by lia. reflexivity.
  - rewrite Z.min_r by lia. rewrite Nat2Z.id.
    assert (Hn : (length (rest s) <= Z.to_nat k)%nat) by lia.
    rewrite firstn_all, (firstn_all2 (n := Z.to_nat k)) by exact Hn.
    rewrite skipn_all, (skipn_all2 (n := Z.to_nat k)) by exact Hn. reflexivity.
Qed.

(* ---------------------------------------------------------------- white space *)
Definition all_ws (l : list Z) : Prop := Forall (fun c => is_ws c = true) l.
(* the rest does not continue a white-space run *)
Definition ws_stop (r : list Z) : Prop := match r with c :: _ => is_ws c = false | [] => True end.
(* the rest does not continue a digit run *)
Definition stop_ok (r : list Z) : Prop := match r with c :: _ => is_digit c = false | [] => True end.

Lemma skipws_stop r ln : ws_stop r -> a_skipws_l r ln = amk r ln.
Proof. destruct r as [|c r]; cbn; [reflexivity|]. intros ->. reflexivity. Qed.

Lemma skipws_app_n n : forall ws r ln, (length ws <= n)%nat -> all_ws ws -> ws_stop r ->
  exists ln', a_skipws_l (ws ++ r) ln = amk r ln' /\ ln <= ln'.
Proof.
  induction n as [|n IH]; intros ws r ln Hlen Hws Hr.
  - destruct ws; [|cbn in Hlen; lia]. exists ln. split; [apply skipws_stop; assumption | lia].
  - destruct ws as [|c ws]; [exists ln; split; [apply skipws_stop; assumption | lia]|].
    inversion Hws as [|? ? Hc Hws']; subst. cbn [app a_skipws_l]. rewrite Hc.
    destruct (Z.eqb_spec c 13) as [->|Hn13].
    + destruct ws as [|c2 ws2].
      * cbn [app]. destruct r as [|c3 r3].
        -- exists (ln + 1). cbn. split; [reflexivity | lia].
        -- cbn in Hr. destruct (Z.eqb_spec c3 10) as [->|Hn10]; [cbn in Hr; discriminate|].
           assert (E : a_skipws_l (c3 :: r3) (ln + 1) = amk (c3 :: r3) (ln + 1)) by (apply skipws_stop; exact Hr).
           exists (ln + 1). split; [|lia].
           destruct c3; try exact E. destruct p; try exact E. destruct p; try exact E. destruct p; try exact E.
           destruct p; try exact E. contradiction.
      * cbn [app]. inversion Hws' as [|? ? Hc2 Hws2]; subst.
        destruct (Z.eqb_spec c2 10) as [->|Hn10].
        -- destruct (IH ws2 r (ln + 1)) as (ln' & E & Hl); [cbn in Hlen; lia | assumption | assumption |].
           exists ln'. split; [exact E | lia].
        -- destruct (IH (c2 :: ws2) r (ln + 1)) as (ln' & E & Hl); [cbn in *; lia | assumption | assumption |].
           exists ln'. split; [|lia]. cbn [app] in E.
           destruct c2; try exact E. destruct p; try exact E. destruct p; try exact E. destruct p; try exact E.
           destruct p; try exact E. contradiction.
    + destruct (IH ws r (if c =? 10 then ln + 1 else ln)) as (ln' & E & Hl); [cbn in Hlen; lia | assumption | assumption |].
      exists ln'. split; [exact E|]. destruct (c =? 10); lia.
Qed.

Lemma skipws_app ws r ln : all_ws ws -> ws_stop r ->
  exists ln', a_skipws (amk (ws ++ r) ln) = amk r ln' /\ ln <= ln'.
Proof. intros. unfold a_skipws. cbn [rest aline]. eapply skipws_app_n; eauto. Qed.

(* skipping twice is skipping once *)
Lemma skipws_l_idem l : forall ln, a_skipws (a_skipws_l l ln) = a_skipws_l l ln.
Proof.
  assert (H : forall n l ln, (length l <= n)%nat -> a_skipws (a_skipws_l l ln) = a_skipws_l l ln).
  { induction n as [|n IH]; intros l0 ln Hl.
    - destruct l0; [reflexivity | cbn in Hl; lia].
    - destruct l0 as [|c r]; [reflexivity|]. cbn [a_skipws_l].
      destruct (is_ws c) eqn:Hc.
      + destruct (c =? 13).
        * destruct r as [|c2 r2]; [reflexivity|].
          assert (E1 : a_skipws (a_skipws_l r2 (ln + 1)) = a_skipws_l r2 (ln + 1)) by (apply IH; cbn [length] in *; lia).
          assert (E2 : a_skipws (a_skipws_l (c2 :: r2) (ln + 1)) = a_skipws_l (c2 :: r2) (ln + 1)) by (apply IH; cbn [length] in *; lia).
          destruct c2; try exact E2. destruct p; try exact E2. destruct p; try exact E2. destruct p; try exact E2.
          destruct p; try exact E2. exact E1.
        * apply IH. cbn [length] in *. lia.
      + unfold a_skipws. cbn [rest aline a_skipws_l]. rewrite Hc. reflexivity. }
  intros ln. apply (H (length l)). lia.
Qed.
Lemma skipws_idem s : a_skipws (a_skipws s) = a_skipws s.
Proof. unfold a_skipws at 2 3. apply skipws_l_idem. Qed.

(* ---------------------------------------------------------------- digit runs of arbitrary length *)
Lemma digits_bad ds : forall r res, all_digits ds -> stop_ok r -> a_digits (ds ++ r) res false = (res, false, r).
Proof.
  induction ds as [|d ds IH]; intros r res Hd Hr.
  - cbn [app]. destruct r as [|c r]; [reflexivity|]. cbn [stop_ok] in Hr. cbn [a_digits]. rewrite Hr. reflexivity.
  - inversion Hd as [|? ? Hd1 Hd2]; subst. cbn [app a_digits]. rewrite Hd1. cbn [andb]. apply IH; assumption.
Qed.

(* THE number lemma: whatever the length of the digit string, the accumulated result is exactly the
   denoted value when that fits int64, and the match fails otherwise (never a different value). *)
Lemma digits_value ds : forall r acc, all_digits ds -> stop_ok r -> 0 <= acc <= INT64_MAX ->
  a_digits (ds ++ r) acc true =
    if value_acc acc ds <=? INT64_MAX then (value_acc acc ds, true, r)
    else (fst (fst (a_digits (ds ++ r) acc true)), false, r).
Proof.
  induction ds as [|d ds IH]; intros r acc Hd Hr Hacc.
  - cbn [app value_acc]. destruct (Z.leb_spec acc INT64_MAX); [|lia].
    destruct r as [|c r]; [reflexivity|]. cbn [stop_ok] in Hr. cbn [a_digits]. rewrite Hr. reflexivity.
  - inversion Hd as [|? ? Hd1 Hd2]; subst. cbn [app a_digits value_acc]. rewrite Hd1.
    assert (Hdig : 0 <= to_digit d <= 9) by (unfold is_digit, to_digit in *; lia).
    cbn [andb]. destruct (Z.leb_spec acc ((INT64_MAX - to_digit d) / 10)) as [Hfit|Hno].
    + apply IH; try assumption. unfold INT64_MAX in *. lia.
    + rewrite digits_bad by assumption.
      assert (Hbig : INT64_MAX < acc * 10 + to_digit d) by (unfold INT64_MAX in *; lia).
      pose proof (value_acc_mono (acc * 10 + to_digit d) ds ltac:(lia) Hd2).
      destruct (Z.leb_spec (value_acc (acc * 10 + to_digit d) ds) INT64_MAX); [lia | reflexivity].
Qed.

(* a number token: optional sign, then a non-empty digit string *)
Definition sign_bytes (sg : Z) : list Z := if (sg =? 43) || (sg =? 45) then [sg] else [].

Lemma match_int_digits ws sg d ds r ln :
  all_ws ws -> (sg = 43 \/ sg = 45 \/ sg = 0) -> all_digits (d :: ds) -> stop_ok r ->
  exists ln', ln <= ln' /\
  a_match_int false (amk (ws ++ sign_bytes sg ++ (d :: ds) ++ r) ln) =
    (if value (d :: ds) <=? INT64_MAX then Some (if sg =? 45 then - value (d :: ds) else value (d :: ds)) else None,
     amk r ln').
Proof.
  intros Hws Hsg Hd Hr. inversion Hd as [|? ? Hd1 Hd2]; subst.
  assert (Hstop : ws_stop (sign_bytes sg ++ (d :: ds) ++ r)).
  { destruct Hsg as [ -> | [ -> | -> ] ]; cbn; [reflexivity | reflexivity |]. unfold is_digit, is_ws in *. lia. }
  destruct (skipws_app ws _ ln Hws Hstop) as (ln' & E & Hl).
  exists ln'. split; [exact Hl|].
  unfold a_match_int. rewrite E. cbn [rest aline].
  assert (Hdig : 0 <= to_digit d <= 9) by (unfold is_digit, to_digit in *; lia).
  assert (Hval : value (d :: ds) = value_acc (to_digit d) ds) by (unfold value; cbn [value_acc]; f_equal; lia).
  pose proof (digits_value ds r (to_digit d) Hd2 Hr ltac:(unfold INT64_MAX; lia)) as Hdv.
  rewrite Hval.
  destruct Hsg as [ -> | [ -> | -> ] ].
  - change (sign_bytes 43) with [43]. unfold a_peek. cbn [app rest tl].
    change ((43 =? 43) || (43 =? 45)) with true. cbn iota. change (43 =? 45) with false. cbn iota.
    rewrite Hd1. rewrite Hdv. destruct (value_acc (to_digit d) ds <=? INT64_MAX); reflexivity.
  - change (sign_bytes 45) with [45]. unfold a_peek. cbn [app rest tl].
    change ((45 =? 43) || (45 =? 45)) with true. cbn iota. change (45 =? 45) with true. cbn iota.
    rewrite Hd1. rewrite Hdv. destruct (value_acc (to_digit d) ds <=? INT64_MAX); reflexivity.
  - change (sign_bytes 0) with (@nil Z). unfold a_peek. cbn [app rest tl].
    assert (Hnp : (d =? 43) = false) by (unfold is_digit in Hd1; lia).
    assert (Hnm : (d =? 45) = false) by (unfold is_digit in Hd1; lia).
    rewrite Hnp, Hnm. cbn [orb]. cbn iota. change (0 =? 45) with false. cbn iota.
    rewrite Hd1. rewrite Hdv. destruct (value_acc (to_digit d) ds <=? INT64_MAX); reflexivity.
Qed.

(* leading zeros do not change the value *)
Lemma value_acc_zeros n ds : value_acc 0 (repeat 48 n ++ ds) = value_acc 0 ds.
Proof. induction n as [|n IH]; [reflexivity|]. cbn [repeat app value_acc]. exact IH. Qed.
Lemma all_digits_zeros n : all_digits (repeat 48 n).
Proof. induction n; constructor; [reflexivity | assumption]. Qed.

(* no digit can follow: a failed match (nothing that starts a number) *)
Lemma match_int_none ws r ln : all_ws ws -> ws_stop r ->
  (forall c r', r = c :: r' -> is_digit c = false /\ ((c = 43 \/ c = 45) -> stop_ok r')) ->
  exists ln', ln <= ln' /\ fst (a_match_int false (amk (ws ++ r) ln)) = None /\ aline (snd (a_match_int false (amk (ws ++ r) ln))) = ln'.
Proof.
  intros Hws Hstop Hr.
  destruct (skipws_app ws r ln Hws Hstop) as (ln' & E & Hl).
  exists ln'. split; [exact Hl|]. unfold a_match_int. rewrite E. cbn [rest aline].
  destruct r as [|c r']; [cbn; auto|].
  destruct (Hr c r' eq_refl) as [Hnd Hsign]. unfold a_peek. cbn [rest].
  destruct ((c =? 43) || (c =? 45)) eqn:Hs.
  - cbn [tl]. assert (Hc : c = 43 \/ c = 45) by lia. specialize (Hsign Hc).
    destruct r' as [|c2 r2]; [cbn; auto|]. cbn in Hsign. rewrite Hsign. cbn. auto.
  - rewrite Hnd. cbn. auto.
Qed.
