(* C01 / C03 - executable model of the aspif reader: AspifInput (src/aspif.cpp) driven by
   ProgramReader::accept/parse/more and readProgram (src/match_basic_types.cpp), written against the
   abstract input stream of C09/Spec.v only (C09 proves that the real BufferedStream refines it for
   every buffer size).  Definitions only.

   A parser maps a stream state to  ROk value state'  |  RErr line  (= an exception raised by
   BufferedStream::require/fail carrying stream line()).  AbstractProgram calls are delivered by the
   directive level only: every directive delivers exactly one call after all of its fields have been
   matched (rule.end(&out_) / out_.xyz(...) is the last statement of every case).                     *)
Require Import V.Lib.Base V.Lib.Calls V.C09.Spec V.Gen.Consts V.Gen.Consts_C01.
Local Open Scope Z_scope.

(* <climits> on the target (int is 32 bit, unsigned is 32 bit) *)
Definition INT_MAX : Z := 2147483647.
Definition INT_MIN : Z := -2147483648.
Definition UINT_MAX : Z := 4294967295.          (* static_cast<unsigned>(-1) *)
(* ProgramReader::ProgramReader : varMax_(static_cast<unsigned>(INT_MAX)) *)
Definition varMax : Z := INT_MAX.

Inductive res (A : Type) : Type := ROk (a : A) (s : ast) | RErr (ln : Z).
Arguments ROk {A}. Arguments RErr {A}.
Definition parser (A : Type) := ast -> res A.
Definition ret {A} (a : A) : parser A := fun s => ROk a s.
Definition bind {A B} (p : parser A) (f : A -> parser B) : parser B :=
  fun s => match p s with ROk a s' => f a s' | RErr ln => RErr ln end.
Notation "x <- p ;; q" := (bind p (fun x => q)) (at level 61, p at next level, right associativity).

(* require(false, msg) at the current position *)
Definition fail_here {A} : parser A := fun s => RErr (aline s).

(* matchInt / matchPos / matchAtom (match_basic_types.h): str.require(str.match(x) && lo <= x && x <= hi, err) *)
Definition m_range (lo hi : Z) : parser Z := fun s =>
  match a_match_int false s with
  | (Some v, s') => if (lo <=? v) && (v <=? hi) then ROk v s' else RErr (aline s')
  | (None, s') => RErr (aline s')
  end.
Definition m_pos (max : Z) : parser Z := m_range 0 max.             (* matchPos(max) *)
Definition m_int : parser Z := m_range INT_MIN INT_MAX.              (* matchInt() *)
Definition m_atom : parser Z := m_range atomMin varMax.             (* matchAtom() *)
(* matchLit: x != 0 && x >= -max && x <= max *)
Definition m_lit : parser Z := fun s =>
  match a_match_int false s with
  | (Some v, s') => if negb (v =? 0) && (- varMax <=? v) && (v <=? varMax) then ROk v s' else RErr (aline s')
  | (None, s') => RErr (aline s')
  end.
(* matchWLit(minW): literal, then matchInt(minW, INT_MAX) *)
Definition m_wlit (minW : Z) : parser (Z * Z) :=
  l <- m_lit ;; w <- m_range minW INT_MAX ;; ret (l, w).

(* for (uint32_t len = ...; len--;) elem   -- the count is a 32-bit number, so the loop is written by
   binary recursion on the count (C01/ProofsPrim.v: rep_pos_nat shows it is the len-fold iteration) *)
Fixpoint rep_pos {A} (elem : parser A) (p : positive) : parser (list A) :=
  match p with
  | xH => x <- elem ;; ret [x]
  | xO q => l1 <- rep_pos elem q ;; l2 <- rep_pos elem q ;; ret (l1 ++ l2)
  | xI q => x <- elem ;; l1 <- rep_pos elem q ;; l2 <- rep_pos elem q ;; ret (x :: l1 ++ l2)
  end.
Definition rep {A} (elem : parser A) (n : Z) : parser (list A) :=
  match n with Zpos p => rep_pos elem p | _ => ret [] end.

Definition m_count : parser Z := m_pos UINT_MAX.                     (* matchPos("number of ... expected") *)
Definition m_atoms : parser (list Z) := n <- m_count ;; rep m_atom n.    (* matchAtoms *)
Definition m_lits : parser (list Z) := n <- m_count ;; rep m_lit n.      (* matchLits *)
Definition m_ids : parser (list Z) := n <- m_count ;; rep (m_pos UINT_MAX) n.   (* matchIds *)
(* matchWLits(minW): RuleBuilder::addGoal(WeightLit_t) ignores a literal whose weight is 0 *)
Definition nonzero_w (p : Z * Z) : bool := negb (snd p =? 0).
Definition m_wlits (minW : Z) : parser (list (Z * Z)) :=
  n <- m_count ;; l <- rep (m_wlit minW) n ;; ret (filter nonzero_w l).

(* matchString (after the repair): len = matchPos(INT_MAX); stream()->get(); copy(buf,(int)len) == (int)len *)
Definition STR_MAX : Z := rd_str_max.                 (* regenerated from matchString in src/aspif.cpp *)
(* a_copy k s for k >= 0, evaluated without building the unary number k when k exceeds what is left
   (C01/ProofsPrim.v: copy_k_eq shows copy_k k s = a_copy k s) *)
Definition copy_k (k : Z) (s : ast) : Z * list Z * ast := a_copy (Z.min k (Z.of_nat (length (rest s)))) s.
Definition m_string : parser (list Z) :=
  len <- m_pos STR_MAX ;;
  fun s => let s1 := snd (a_get s) in
           let '(n, bs, s2) := copy_k len s1 in
           if n =? len then ROk bs s2 else RErr (aline s2).

(* ProgramReader::skipLine: while (str_->peek() && str_->get() != '\n') {} ; at most |rest| characters *)
Fixpoint skip_line_f (fuel : list Z) (s : ast) : ast :=
  match fuel with
  | [] => s
  | _ :: f => if a_peek s =? 0 then s else
              let '(c, s') := a_get s in if c =? 10 then s' else skip_line_f f s'
  end.
Definition skip_line : parser unit := fun s => ROk tt (skip_line_f (rest s) s).

(* AspifInput::matchTheory(rt) *)
Definition theory : parser call :=
  rt <- m_pos UINT_MAX ;;
  tid <- m_pos UINT_MAX ;;
  if rt =? Theory_t_Number then n <- m_int ;; ret (CTNum tid n)
  else if rt =? Theory_t_Symbol then s <- m_string ;; ret (CTSym tid s)
  else if rt =? Theory_t_Compound then
    ty <- m_range enum_Tuple_t_min INT_MAX ;; args <- m_ids ;; ret (CTComp tid ty args)
  else if rt =? Theory_t_Element then
    ts <- m_ids ;; cond <- m_lits ;; ret (CTElem tid ts cond)
  else if rt =? Theory_t_Atom then
    t <- m_pos UINT_MAX ;; es <- m_ids ;; ret (CTAtom tid t es)
  else if rt =? Theory_t_AtomWithGuard then
    t <- m_pos UINT_MAX ;; es <- m_ids ;; op <- m_pos UINT_MAX ;; rhs <- m_pos UINT_MAX ;; ret (CTAtomG tid t es op rhs)
  else fail_here.

(* one iteration of the switch in AspifInput::doParse; rt in 1..Directive_t::eMax *)
Definition directive (rt : Z) : parser (option call) :=
  if rt =? Directive_t_Rule then
    ht <- m_pos enum_Head_t_max ;;
    head <- m_atoms ;;
    bt <- m_pos enum_Body_t_max ;;
    if bt =? Body_t_Normal then body <- m_lits ;; ret (Some (CRule ht head body))
    else bound <- m_int ;; body <- m_wlits 0 ;; ret (Some (CWRule ht head bound body))
  else if rt =? Directive_t_Minimize then
    prio <- m_int ;; body <- m_wlits INT_MIN ;; ret (Some (CMin prio body))
  else if rt =? Directive_t_Project then
    atoms <- m_atoms ;; ret (Some (CProject atoms))
  else if rt =? Directive_t_Output then
    name <- m_string ;; cond <- m_lits ;; ret (Some (COutput name cond))
  else if rt =? Directive_t_External then
    a <- m_atom ;; v <- m_pos enum_Value_t_max ;; ret (Some (CExternal a v))
  else if rt =? Directive_t_Assume then
    lits <- m_lits ;; ret (Some (CAssume lits))
  else if rt =? Directive_t_Heuristic then
    t <- m_pos enum_Heuristic_t_max ;; a <- m_atom ;; bias <- m_int ;; prio <- m_pos INT_MAX ;;
    cond <- m_lits ;; ret (Some (CHeuristic a t bias prio cond))
  else if rt =? Directive_t_Edge then
    s0 <- m_pos INT_MAX ;; t0 <- m_pos INT_MAX ;; cond <- m_lits ;; ret (Some (CEdge s0 t0 cond))
  else if rt =? Directive_t_Theory then
    c <- theory ;; ret (Some c)
  else if rt =? Directive_t_Comment then
    _ <- skip_line ;; ret None
  else fail_here.                       (* default: require(false, "unrecognized rule type") *)

Definition opt_cons {A} (o : option A) (l : list A) : list A := match o with Some x => x :: l | None => l end.

(* the for-loop of doParse.  Every iteration extracts at least one character (the directive code), so
   |rest|+1 iterations suffice; running out of fuel is reported as line 0, which no real error carries
   (C03/ProofsInv.v: c03_line shows every reported line is >= 1, i.e. the fuel is never exhausted). *)
Fixpoint dirs (fuel : list Z) (s : ast) : list call * res unit :=
  match fuel with
  | [] => ([], RErr 0)
  | _ :: f =>
      match m_pos enum_Directive_t_max s with
      | RErr ln => ([], RErr ln)
      | ROk rt s1 =>
          if rt =? 0 then ([], ROk tt s1) else
          match directive rt s1 with
          | RErr ln => ([], RErr ln)
          | ROk oc s2 => let '(cs, r) := dirs f s2 in (opt_cons oc cs, r)
          end
      end
  end.

(* AspifInput::doParse: beginStep, directives, endStep *)
Definition read_step (s : ast) : list call * res unit :=
  match dirs (0 :: rest s) s with
  | (cs, ROk _ s') => (CBegin :: cs ++ [CEnd], ROk tt s')
  | (cs, RErr ln) => (CBegin :: cs, RErr ln)
  end.

(* while (match(" ", false)) { ; } *)
Fixpoint skip_blanks_f (fuel : list Z) (s : ast) : ast :=
  match fuel with
  | [] => s
  | _ :: f => let '(b, s') := a_match_tok [32] s in if b then skip_blanks_f f s' else s'
  end.
Definition tok_asp : list Z := rd_tok_magic.                                             (* "asp " *)
Definition tok_incremental : list Z := rd_tok_incremental.                               (* "incremental" *)
Definition ASPIF_MAJOR : Z := rd_major.
Definition ASPIF_MINOR : Z := rd_minor.

(* ProgramReader::accept -> AspifInput::doAttach.  Result: Some inc | None (= doAttach returned false) *)
Definition read_header (s : ast) : list call * res (option bool) :=
  let s0 := a_skipws s in                               (* match("asp ") skips white space first *)
  let '(b, s1) := a_match_tok tok_asp s0 in
  if negb b then ([], ROk None s1) else
  match m_pos UINT_MAX s1 with
  | RErr ln => ([], RErr ln)
  | ROk major s2 =>
    if negb (major =? ASPIF_MAJOR) then ([], RErr (aline s2)) else
    match m_pos UINT_MAX s2 with
    | RErr ln => ([], RErr ln)
    | ROk minor s3 =>
      if negb (minor =? ASPIF_MINOR) then ([], RErr (aline s3)) else
      match m_pos UINT_MAX s3 with
      | RErr ln => ([], RErr ln)
      | ROk _ s4 =>
        let s5 := skip_blanks_f (rest s4) s4 in
        let '(inc, s6) := a_match_tok tok_incremental s5 in
        let '(c, s7) := a_get s6 in                     (* out_.initProgram(inc) happens before the check *)
        if c =? 10 then ([CInit inc], ROk (Some inc) s7) else ([CInit inc], RErr (aline s7))
      end
    end
  end.

Inductive outcome := Ok | Err (ln : Z).

(* ProgramReader::more: str_->skipWs(), !str_->end() *)
Definition more (s : ast) : bool * ast := let s' := a_skipws s in (negb (a_end s'), s').

(* body of the do-while in ProgramReader::parse: doParse(); skipWs(); require(!more() || incremental()) *)
Definition parse_round (inc : bool) (s : ast) : list call * res unit :=
  match read_step s with
  | (cs, RErr ln) => (cs, RErr ln)
  | (cs, ROk _ s1) =>
      let s2 := a_skipws s1 in
      let '(m, s3) := more s2 in
      if m && negb inc then (cs, RErr (aline s3)) else (cs, ROk tt s3)
  end.

(* parse(Complete): do { round } while (more()).  Every round extracts the step terminator, so
   |rest|+1 rounds suffice (fuel exhaustion would be reported as line 0, see dirs). *)
Fixpoint parse_complete (fuel : list Z) (inc : bool) (s : ast) : list call * outcome :=
  match fuel with
  | [] => ([], Err 0)
  | _ :: f =>
      match parse_round inc s with
      | (cs, RErr ln) => (cs, Err ln)
      | (cs, ROk _ s1) =>
          let '(m, s2) := more s1 in
          if m then let '(cs', o) := parse_complete f inc s2 in (cs ++ cs', o) else (cs, Ok)
      end
  end.

(* the caller's loop in incremental mode:  parse(Incremental); while (more()) parse(Incremental); *)
Definition parse_incremental (inc : bool) (s : ast) : list call * res unit := parse_round inc s.
Fixpoint incr_loop (fuel : list Z) (inc : bool) (s : ast) : list call * outcome :=
  match fuel with
  | [] => ([], Err 0)
  | _ :: f =>
      match parse_incremental inc s with
      | (cs, RErr ln) => (cs, Err ln)
      | (cs, ROk _ s1) =>
          let '(m, s2) := more s1 in
          if m then let '(cs', o) := incr_loop f inc s2 in (cs ++ cs', o) else (cs, Ok)
      end
  end.

(* readProgram: try { if (!accept(str) || !parse(Complete)) fail(line, "invalid input format") } catch -> err(line) *)
Definition read_with (loop : list Z -> bool -> ast -> list call * outcome) (t : list Z) : list call * outcome :=
  match read_header (a_init t) with
  | (cs, RErr ln) => (cs, Err ln)
  | (cs, ROk None s) => (cs, Err (aline s))
  | (cs, ROk (Some inc) s) => let '(cs', o) := loop (0 :: rest s) inc s in (cs ++ cs', o)
  end.
Definition read_all (t : list Z) : list call * outcome := read_with parse_complete t.
Definition read_incr (t : list Z) : list call * outcome := read_with incr_loop t.

(* observation: accepted?, error line, number of error reports, delivered calls *)
Definition enc_result (r : list call * outcome) : list Z :=
  match r with
  | (cs, Ok) => 1 :: 0 :: 0 :: enc_calls cs
  | (cs, Err ln) => 0 :: ln :: 1 :: enc_calls cs
  end.
