(* C01 - write-then-read.  Case:  mode N ...   (N = BUF_SIZE of the build that runs the case; irrelevant for the model:
   the reader is written against the abstract stream)
     mode 0/1:  mode N call...          write the calls (encoding of Lib/Calls.v), read the text back
                                        (0 = readProgram / parse(Complete), 1 = caller loop over parse(Incremental))
                observation:  |text| text...  accepted line reports delivered-calls...
     mode 2/3:  mode N len byte...      read the text (2 = Complete, 3 = Incremental); if accepted write what was
                                        delivered and read that again
                observation:  accepted line reports |enc calls| calls...  [ |text2| text2... accepted line reports calls... ]  *)
Require Import V.Lib.Base V.Lib.Calls V.C01.Write V.C01.Read.
Local Open Scope Z_scope.

Definition reader (incremental : bool) (t : list Z) : list call * outcome :=
  if incremental then read_incr t else read_all t.

Definition run_case (c : list Z) : list Z :=
  match c with
  | mode :: _ :: r =>
      if mode <? 2 then
        let p := dec_calls (length r) r in
        let t := write_prog p in
        Z.of_nat (length t) :: t ++ enc_result (reader (mode =? 1) t)
      else
        match r with
        | len :: bytes =>
            let t := firstn (Z.to_nat len) bytes in
            let r1 := reader (mode =? 3) t in
            let e1 := enc_calls (fst r1) in
            let hd1 := match snd r1 with Ok => [1; 0; 0] | Err ln => [0; ln; 1] end in
            hd1 ++ Z.of_nat (length e1) :: e1 ++
            match snd r1 with
            | Ok => let t2 := write_prog (fst r1) in
                    Z.of_nat (length t2) :: t2 ++ enc_result (reader (mode =? 3) t2)
            | Err _ => []
            end
        | [] => []
        end
  | _ => []
  end.
