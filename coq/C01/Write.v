(* C01 - executable model of the aspif writer AspifOutput (src/aspif.cpp): the bytes put on the
   std::ostream by every AbstractProgram call.  One function per add(...) overload; every directive
   writer lists its fields in the order of the add(...) chain in the source.  Definitions only.   *)
Require Import V.Lib.Base V.Lib.Calls V.Lib.Dec V.Gen.Consts V.Gen.Consts_C01.
Local Open Scope Z_scope.

(* static_cast<int>(x) of a 32-bit unsigned value *)
Definition i32 (x : Z) : Z := (x + 2147483648) mod 4294967296 - 2147483648.

Definition start_dir (d : Z) : list Z := print_nat d.                 (* os_ << static_cast<unsigned>(r) *)
Definition add_int (x : Z) : list Z := 32 :: print_Z x.               (* add(int x):      os_ << " " << x *)
Definition add_uint (x : Z) : list Z := 32 :: print_nat x.            (* add(unsigned x): os_ << " " << x *)
Definition add_atoms (l : list Z) : list Z :=                         (* add(const AtomSpan&), also used for IdSpan *)
  32 :: print_nat (Z.of_nat (length l)) ++ flat_map (fun a => 32 :: print_nat a) l.
Definition add_lits (l : list Z) : list Z :=                          (* add(const LitSpan&) *)
  32 :: print_nat (Z.of_nat (length l)) ++ flat_map (fun a => 32 :: print_Z a) l.
Definition add_wlits (l : list (Z * Z)) : list Z :=                   (* add(const WeightLitSpan&) *)
  32 :: print_nat (Z.of_nat (length l)) ++ flat_map (fun p => 32 :: print_Z (fst p) ++ 32 :: print_Z (snd p)) l.
Definition add_str (s : list Z) : list Z :=                           (* add(const StringSpan&) *)
  32 :: print_nat (Z.of_nat (length s)) ++ 32 :: s.
Definition end_dir : list Z := [10].

Definition hdr_text : list Z := wr_header.          (* "asp 1 0 0"    : regenerated from AspifOutput::initProgram *)
Definition inc_text : list Z := wr_incremental.     (* " incremental" *)

Definition write_call (c : call) : list Z :=
  match c with
  | CInit inc => hdr_text ++ (if inc then inc_text else []) ++ [10]
  | CBegin => []
  | CEnd => [48; 10]                                                  (* "0\n" *)
  | CRule ht h b =>
      start_dir Directive_t_Rule ++ add_int ht ++ add_atoms h ++ add_int Body_t_Normal ++ add_lits b ++ end_dir
  | CWRule ht h bd b =>
      start_dir Directive_t_Rule ++ add_int ht ++ add_atoms h ++ add_int Body_t_Sum ++ add_int bd ++ add_wlits b ++ end_dir
  | CMin p l => start_dir Directive_t_Minimize ++ add_int p ++ add_wlits l ++ end_dir
  | CProject a => start_dir Directive_t_Project ++ add_atoms a ++ end_dir
  | COutput n c => start_dir Directive_t_Output ++ add_str n ++ add_lits c ++ end_dir
  | CExternal a v => start_dir Directive_t_External ++ add_int (i32 a) ++ add_int v ++ end_dir
  | CAssume l => start_dir Directive_t_Assume ++ add_lits l ++ end_dir
  | CHeuristic a t b p c =>
      start_dir Directive_t_Heuristic ++ add_int t ++ add_int (i32 a) ++ add_int b ++ add_int (i32 p) ++ add_lits c ++ end_dir
  | CEdge s t c => start_dir Directive_t_Edge ++ add_int s ++ add_int t ++ add_lits c ++ end_dir
  | CTNum i n => start_dir Directive_t_Theory ++ add_int Theory_t_Number ++ add_uint i ++ add_int n ++ end_dir
  | CTSym i s => start_dir Directive_t_Theory ++ add_int Theory_t_Symbol ++ add_uint i ++ add_str s ++ end_dir
  | CTComp i c a => start_dir Directive_t_Theory ++ add_int Theory_t_Compound ++ add_uint i ++ add_int c ++ add_atoms a ++ end_dir
  | CTElem i t c => start_dir Directive_t_Theory ++ add_int Theory_t_Element ++ add_uint i ++ add_atoms t ++ add_lits c ++ end_dir
  | CTAtom a t e => start_dir Directive_t_Theory ++ add_int Theory_t_Atom ++ add_uint a ++ add_uint t ++ add_atoms e ++ end_dir
  | CTAtomG a t e o r =>
      start_dir Directive_t_Theory ++ add_int Theory_t_AtomWithGuard ++ add_uint a ++ add_uint t ++ add_atoms e
      ++ add_uint o ++ add_uint r ++ end_dir
  end.

Definition write_prog (p : list call) : list Z := flat_map write_call p.
