Require Import ExtrOcamlBasic.
Require Import V.C13.Model.
Extraction "model.ml" run_case.
