Require Import V.Lib.Base V.Lib.Calls V.C10.Model.
Local Open Scope Z_scope.
Example c10_smoke : run_case [2; 97; 46] = [1; 0; 1; 0; 2; 4; 0; 1; 1; 0; 3].
Proof. vm_compute. reflexivity. Qed.
Print Assumptions c10_smoke.
