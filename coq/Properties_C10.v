(* C10 - the ground-text reader delivers exactly the statements written in its input syntax.
   Model: C10/Model.v (AspifTextInput, as repaired, over the abstract stream of C09/Spec.v).
   Input syntax: C10/Grammar.v - G_program inc steps txt relates a program (incremental flag, the directive calls of
   each step) to EVERY text that writes it down: every atom occurrence in any of its spellings (a..z for 1..26, x<n>,
   x_<n>), arbitrary white space (blank, tab, LF, CR) after every token (non-empty after "not"), comment lines and stray
   dots between statements, comment lines before the first statement, "#incremental." / "#step." for steps.
   Quantifying over all txt with G_program inc steps txt is quantifying over all spellings sigma and layouts l. *)
Require Import V.Lib.Base V.Lib.Calls V.Lib.Contract V.C09.Spec V.C10.Model V.C10.Args V.C10.Grammar V.C10.ProofsProg V.C10.ProofsContract V.C10.ProofsFuel V.C10.Print V.C10.ProofsPrint.
Local Open Scope Z_scope.

(* Round trip: every text of a valid program is accepted (status 1, no error line) and the reader delivers exactly
   initProgram(inc), then per step beginStep, the directives in order with the same atoms, signs, weights (weight 0
   omitted: norm_call), bounds, priorities, values, modifiers, conditions, endStep.
   #output terms: identifier, quoted string, or identifier with an argument list (white space between the characters of
   the argument list is layout).  Boundaries of the relation (see notes/C10.md): strings contain no CR / NUL, a comment
   line ends with a line break, the text after a "#step." is not empty (the documented caveat). *)
Theorem c10_roundtrip : forall inc steps txt,
  Forall (Forall stmt_ok) steps -> G_program inc steps txt ->
  observe (read_text txt) = 1 :: 0 :: enc_calls (program_calls inc steps).
Proof. exact roundtrip. Qed.
Print Assumptions c10_roundtrip.

(* Layout / spelling independence: two texts of the same program are read identically. *)
Theorem c10_layout : forall inc steps txt1 txt2,
  Forall (Forall stmt_ok) steps -> G_program inc steps txt1 -> G_program inc steps txt2 ->
  observe (read_text txt1) = observe (read_text txt2).
Proof. intros inc steps t1 t2 H G1 G2. rewrite (roundtrip inc steps t1 H G1), (roundtrip inc steps t2 H G2). reflexivity. Qed.
Print Assumptions c10_layout.

(* The same for the concrete printer of C10/Print.v: print_text sigma l inc steps, where sigma k chooses the spelling of
   the k-th token if it is an atom and l k the white space after the k-th token - for ALL sigma and l. *)
Theorem c10_roundtrip_printer : forall sigma l inc steps,
  Forall (Forall stmt_ok) steps -> steps <> [] -> (inc = false -> length steps = 1%nat) -> Forall (fun cs => cs <> []) (tl steps) ->
  observe (read_text (print_text sigma l inc steps)) = 1 :: 0 :: enc_calls (program_calls inc steps).
Proof. exact printer_roundtrip. Qed.
Print Assumptions c10_roundtrip_printer.
Theorem c10_layout_printer : forall sigma l sigma' l' inc steps,
  Forall (Forall stmt_ok) steps -> steps <> [] -> (inc = false -> length steps = 1%nat) -> Forall (fun cs => cs <> []) (tl steps) ->
  observe (read_text (print_text sigma l inc steps)) = observe (read_text (print_text sigma' l' inc steps)).
Proof. intros. rewrite !printer_roundtrip by assumption. reflexivity. Qed.
Print Assumptions c10_layout_printer.

(* Consumer contract (support for C04), for EVERY byte list t, accepted or not, no validity hypothesis: the calls the
   reader delivers satisfy V.Lib.Contract.contract_ok (initProgram first and once, directives only inside
   beginStep/endStep, atoms 1..2^31-1, non-zero literals, rule-body weights >= 0, head type 0/1, external value 0..3,
   heuristic type 0..5 and priority 0..2^31-1, int-range bounds / priorities / edge nodes), and an accepted input
   leaves no step open. *)
Theorem c10_contract : forall t,
  contract_ok (delivered (read_text t)) = true /\
  (accepted (read_text t) = true -> steps_closed (delivered (read_text t)) = true).
Proof. exact contract_all. Qed.
Print Assumptions c10_contract.

(* The loops of the model carry fuel S(length of the remaining input); an exhausted loop would end the run with the
   line number -1 (Model.oof), real errors carry the stream's line number >= 1.  For EVERY byte list: never exhausted. *)
Theorem c10_no_fuel_exhaustion : forall t c, read_text t <> RErr (-1) c.
Proof. exact no_fuel_exhaustion. Qed.
Print Assumptions c10_no_fuel_exhaustion.

Example c10_smoke : run_case [2; 97; 46] = [1; 0; 1; 0; 2; 4; 0; 1; 1; 0; 3].
Proof. vm_compute. reflexivity. Qed.

(* ---- non-vacuity: a concrete text with alternative spellings, tabs / line breaks, a comment and a stray dot is in the
        grammar of a concrete two-directive program, and the hypotheses of the theorems hold for it ---- *)
Definition ex_steps : list (list call) := [[CRule 0 [1] [-2]; CProject []]].
(*  "a:- not\tx_2 .\n% c\n. #project.\n"  *)
Definition ex_text : list Z :=
  [97; 58; 45; 32; 110; 111; 116; 9; 120; 95; 50; 32; 46; 10; 37; 32; 99; 10; 46; 32; 35; 112; 114; 111; 106; 101; 99; 116; 46; 10].
Example ex_valid : Forall (Forall stmt_ok) ex_steps.
Proof. repeat constructor; unfold atom_ok, lit_ok, atom_ok, INT_MAX; simpl; try lia; auto. Qed.
Example ex_grammar : G_program false ex_steps ex_text.
Proof.
  exists [], [], [], ex_text. repeat split; try constructor; try discriminate. cbn [G_steps].
  change ex_text with ([] ++ [97; 58; 45; 32; 110; 111; 116; 9; 120; 95; 50; 32; 46; 10] ++
                       ([37] ++ [32; 99] ++ [10] ++ [] ++ ([46; 32] ++ [])) ++ [35; 112; 114; 111; 106; 101; 99; 116; 46; 10] ++ []).
  apply S_cons; [constructor | | ].
  - cbn [G_stmt]. exists [97], [58; 45; 32; 110; 111; 116; 9; 120; 95; 50; 32], [46; 10]. repeat split.
    + exists [97], []. repeat split. left. split; [lia | reflexivity].
    + exists [10]. split; reflexivity.
    + right. exists [58; 45; 32], [110; 111; 116; 9; 120; 95; 50; 32]. repeat split.
      * exists [32]. split; reflexivity.
      * cbn. exists [9], [120; 95; 50; 32]. repeat split; try discriminate.
        exists [120; 95; 50], [32]. repeat split. right. right. reflexivity.
  - apply S_cons.
    + apply F_comment; [repeat constructor; discriminate | now left | reflexivity |].
      apply (F_dot [46; 32] []); [exists [32]; split; reflexivity | constructor].
    + cbn [G_stmt]. exists [35; 112; 114; 111; 106; 101; 99; 116], [], [46; 10]. repeat split.
      * exists []. split; reflexivity.
      * exists [10]. split; reflexivity.
      * left. split; reflexivity.
    + apply S_nil. constructor.
Qed.
Example ex_read : observe (read_text ex_text) = 1 :: 0 :: enc_calls (program_calls false ex_steps).
Proof. vm_compute. reflexivity. Qed.

(* a term with an argument list, written with blanks inside:   #output f( a , "x y" ) : b.   *)
Definition ex2_steps : list (list call) := [[COutput [102; 40; 97; 44; 34; 120; 32; 121; 34; 41] [2]]].
Definition ex2_text : list Z :=
  [35; 111; 117; 116; 112; 117; 116; 32; 102; 40; 32; 97; 32; 44; 32; 34; 120; 32; 121; 34; 32; 41; 32; 58; 32; 98; 46].
Example ex2_valid : Forall (Forall stmt_ok) ex2_steps.
Proof.
  constructor; [|constructor]. constructor; [|constructor]. split.
  - right. exists 102, [], [[IChar 97]; [IStr [120; 32; 121]]]. repeat split; try reflexivity; try discriminate. repeat constructor.
  - constructor; [|constructor]. unfold lit_ok, atom_ok, INT_MAX. simpl. lia.
Qed.
Example ex2_grammar : G_program false ex2_steps ex2_text.
Proof.
  exists [], [], [], ex2_text. repeat split; try constructor; try discriminate. cbn [G_steps].
  change ex2_text with ([] ++ ex2_text ++ []). apply S_cons; [constructor | | apply S_nil; constructor].
  cbn [G_stmt]. exists [32], [102; 40; 32; 97; 32; 44; 32; 34; 120; 32; 121; 34; 32; 41; 32], [58; 32; 98], [46]. repeat split.
  - right. exists 102, [], [[IChar 97]; [IStr [120; 32; 121]]], [], [32], [97; 32; 44; 32; 34; 120; 32; 121; 34; 32], [32].
    repeat split; try reflexivity; try discriminate; [repeat constructor|].
    cbn [G_args]. exists [97; 32], [32], [34; 120; 32; 121; 34; 32]. repeat split.
    + cbn [G_items]. exists [32], []. repeat split.
    + cbn [G_items]. exists [32], []. repeat split.
  - right. exists [58; 32], [98]. repeat split.
    + exists [32]. split; reflexivity.
    + cbn. exists [98], []. repeat split. left. split; [lia | reflexivity].
  - exists []. split; reflexivity.
Qed.
Example ex2_read : observe (read_text ex2_text) = 1 :: 0 :: enc_calls (program_calls false ex2_steps).
Proof. vm_compute. reflexivity. Qed.

(* the printer on ex_steps with a spelling / layout choice *)
Definition ex_l (k : nat) : list Z :=
  match k with 1%nat => [9; 65] | 2%nat => [10] | 3%nat => [32] | 5%nat => [32] | 6%nat => [32] | _ => [] end.
Example ex_print : exists t, print_text (fun k => k) ex_l false ex_steps = t /\ observe (read_text t) = 1 :: 0 :: enc_calls (program_calls false ex_steps).
Proof. eexists. split; [vm_compute; reflexivity | vm_compute; reflexivity]. Qed.
