Require Import ExtrOcamlBasic.
Require Import V.C20.Model.
Extraction "model.ml" run_case.
