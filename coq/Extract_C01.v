Require Import ExtrOcamlBasic.
Require Import V.C01.Model.
Extraction "model.ml" run_case.
