(* C09 - refinement proof, part 2: skipws, unget, token match, integer match, raw copy. *)
Require Import V.Lib.Base V.C09.Spec V.C09.Model V.C09.ARun V.C09.Proofs.
Require Import ZifyBool.
Local Open Scope Z_scope.

(* ---------- list helpers ---------- *)
Lemma skipn_skipn' {A} (a b : nat) (l : list A) : skipn a (skipn b l) = skipn (a + b) l.
Proof.
  revert l; induction b as [|b IH]; intros l.
  - rewrite Nat.add_0_r. reflexivity.
  - rewrite Nat.add_succ_r. destruct l as [|x l]; [rewrite !skipn_nil; reflexivity|]. cbn [skipn]. apply IH.
Qed.

Lemma firstn_split {A} (m n : nat) (l : list A) : (m <= n)%nat ->
  firstn n l = firstn m l ++ firstn (n - m) (skipn m l).
Proof.
  revert n l; induction m as [|m IH]; intros n l H.
  - cbn. rewrite Nat.sub_0_r. reflexivity.
  - destruct n as [|n]; [lia|]. destruct l as [|x l]; [cbn; rewrite firstn_nil; reflexivity|].
    cbn [firstn skipn Nat.sub app]. f_equal. apply IH. lia.
Qed.

Lemma firstn_app_l {A} n (l1 l2 : list A) : (n <= length l1)%nat -> firstn n (l1 ++ l2) = firstn n l1.
Proof.
  intros H. rewrite firstn_app. replace (n - length l1)%nat with 0%nat by lia. cbn. apply app_nil_r.
Qed.
Lemma skipn_app_l {A} n (l1 l2 : list A) : (n <= length l1)%nat -> skipn n (l1 ++ l2) = skipn n l1 ++ l2.
Proof.
  intros H. rewrite skipn_app. replace (n - length l1)%nat with 0%nat by lia. reflexivity.
Qed.

Lemma count_eq_app x a b : count_eq x (a ++ b) = count_eq x a + count_eq x b.
Proof. induction a as [|c a IH]; cbn [count_eq app]; [reflexivity|]. rewrite IH. ring. Qed.

Section Refine2.
Variable N : nat.
Hypothesis HN : (2 <= N)%nat.
Notation Inv := (Inv N).

Lemma rest_abs s : rest (abs s) = win s ++ src s. Proof. reflexivity. Qed.
Lemma aline_abs s : aline (abs s) = line s. Proof. reflexivity. Qed.
Lemma remaining_abs s : remaining s = length (rest (abs s)).
Proof. unfold remaining. rewrite rest_abs, app_length. reflexivity. Qed.

Lemma peek_nonzero_win s : Inv s -> peek s <> 0 -> exists c w, win s = c :: w /\ c = peek s.
Proof. intros I H. unfold peek in *. destruct (win s) as [|c w]; [congruence|eauto]. Qed.

(* ---------- skipws ---------- *)
Lemma a_skipws_unfold s : a_skipws s = if is_ws (a_peek s) then a_skipws (snd (a_get s)) else s.
Proof.
  destruct s as [l ln]. unfold a_skipws, a_peek, a_get. cbn [rest aline].
  destruct l as [|c r]; [reflexivity|]. cbn [a_skipws_l].
  destruct (is_ws c) eqn:W; [|reflexivity].
  destruct (Z.eqb_spec c 13) as [E13|N13].
  - destruct r as [|d r']; [reflexivity|].
    destruct (Z.eq_dec d 10) as [->|Nd]; [reflexivity|].
    rewrite !(is_ten d Nd). reflexivity.
  - destruct (Z.eqb_spec c 10); reflexivity.
Qed.

Lemma a_get_len s : a_peek s <> 0 -> (length (rest (snd (a_get s))) < length (rest s))%nat.
Proof.
  destruct s as [l ln]. unfold a_peek, a_get. cbn [rest aline].
  destruct l as [|c r]; [congruence|]. intros _.
  destruct (Z.eqb_spec c 13).
  - destruct r as [|d r']; [cbn; lia|].
    destruct (Z.eq_dec d 10) as [->|Nd]; [cbn; lia|]. rewrite (is_ten d Nd). cbn. lia.
  - destruct (Z.eqb_spec c 10); cbn; lia.
Qed.

Lemma is_ws_nonzero c : is_ws c = true -> c <> 0.
Proof. unfold is_ws. lia. Qed.

Lemma skipws_f_spec fuel : forall s, Inv s -> (length (rest (abs s)) < fuel)%nat ->
  Inv (skipws_f N fuel s) /\ abs (skipws_f N fuel s) = a_skipws (abs s).
Proof.
  induction fuel as [|f IH]; intros s I Hf; [lia|].
  cbn [skipws_f]. rewrite (peek_abs N s I), (a_skipws_unfold (abs s)).
  destruct (is_ws (a_peek (abs s))) eqn:W; [|auto].
  destruct (get_spec N HN s I) as (G & I' & _).
  pose proof (a_get_len (abs s) (is_ws_nonzero _ W)) as L.
  rewrite G in L |- *. cbn [snd] in *.
  apply IH; [exact I' | lia].
Qed.

Lemma skipws_spec s : Inv s -> Inv (skipws N s) /\ abs (skipws N s) = a_skipws (abs s).
Proof. intros I. unfold skipws. apply skipws_f_spec; [exact I|]. rewrite remaining_abs. lia. Qed.

(* ---------- unget ---------- *)
Lemma unget_spec c s : Inv s -> (0 < rpos s)%nat -> c <> 0 ->
  fst (unget c s) = true /\ Inv (snd (unget c s)) /\ abs (snd (unget c s)) = a_unget c (abs s).
Proof.
  intros I R Hc. unfold unget. destruct (rpos s) as [|p] eqn:E; [lia|]. cbn [fst snd].
  split; [reflexivity|]. split; [|reflexivity].
  destruct I as [Il Iw Is If Ie Iu Ia]. rewrite E in *.
  constructor; cbn [rpos win src ok fault length]; try assumption.
  - lia.
  - constructor; assumption.
  - discriminate.
  - intros H. specialize (Iu H). lia.
Qed.

(* ---------- token match ---------- *)
Lemma compact_spec s : Inv s -> Inv (compact N s) /\ abs (compact N s) = abs s /\ rpos (compact N s) = 0%nat.
Proof.
  intros I. pose proof I as [Il Iw Is If Ie Iu Ia]. unfold compact.
  destruct (ok s) eqn:Eok; cbn [negb].
  - specialize (Iu eq_refl).
    assert (Hb : length (win s) = (N - rpos s)%nat) by lia.
    rewrite Hb, Nat.eqb_refl.
    set (n := (N - (N - rpos s))%nat). assert (Hn : n = rpos s) by (subst n; lia).
    rewrite (cut0_nul_free (firstn n (src s))) by (apply nul_free_firstn; assumption).
    split; [|split; [|reflexivity]].
    + constructor; cbn [rpos win src ok fault].
      * rewrite app_length, firstn_length. lia.
      * apply nul_free_app; [assumption | apply nul_free_firstn; assumption].
      * apply nul_free_skipn; assumption.
      * intros H. apply Nat.leb_gt in H. apply skipn_all2. lia.
      * intros H. apply app_eq_nil in H. destruct H as [H1 _]. rewrite (Ie H1). apply skipn_nil.
      * intros H. apply Nat.leb_le in H. rewrite app_length, firstn_length. lia.
      * assumption.
    + unfold abs. cbn [win src Model.line]. rewrite <- app_assoc, firstn_skipn. reflexivity.
  - split; [|split; reflexivity].
    constructor; cbn [rpos win src ok fault]; try assumption.
    + lia.
    + discriminate.
Qed.

Lemma list_eqb_refl l : list_eqb l l = true.
Proof. apply list_eqb_eq. reflexivity. Qed.

Lemma match_tok_spec w s : Inv s -> nul_free w -> (length w <= N)%nat ->
  let r := match_tok N w s in
  let a := a_match_tok w (abs s) in
  fst r = b2z (fst a) /\ abs (snd r) = snd a /\ Inv (snd r) /\
  (fst a = true -> (0 < length w)%nat -> (0 < rpos (snd r))%nat).
Proof.
  intros I Hw Hl. unfold match_tok.
  replace ((N - rpos s <? length w)%nat && negb (length w <=? N)%nat) with false.
  2:{ symmetry. apply andb_false_iff. right. apply negb_false_iff. apply Nat.leb_le. exact Hl. }
  set (s1 := if (N - rpos s <? length w)%nat then compact N s else s).
  assert (H1 : Inv s1 /\ abs s1 = abs s /\ (length w <= N - rpos s1)%nat).
  { subst s1. destruct (Nat.ltb_spec (N - rpos s) (length w)) as [Hlt|Hge].
    - destruct (compact_spec s I) as (Ic & Ac & Rc). rewrite Rc. split; [exact Ic | split; [exact Ac | lia]].
    - split; [exact I | split; [reflexivity | lia]]. }
  destruct H1 as (I1 & A1 & Sp). clearbody s1.
  unfold a_match_tok. rewrite <- A1, rest_abs, aline_abs.
  pose proof I1 as [Il Iw Is If Ie Iu Ia].
  assert (Hvis : firstn (length w) (win s1 ++ src s1) = firstn (length w) (win s1)).
  { destruct (ok s1) eqn:Eok.
    - apply firstn_app_l. specialize (Iu eq_refl). lia.
    - rewrite (If eq_refl), app_nil_r. reflexivity. }
  rewrite Hvis.
  destruct (list_eqb (firstn (length w) (win s1)) w) eqn:Eq; cbn [fst snd b2z].
  - apply list_eqb_eq in Eq.
    assert (Hlen : (length w <= length (win s1))%nat).
    { rewrite <- Eq at 1. rewrite firstn_length. lia. }
    rewrite (skipn_app_l _ _ _ Hlen).
    set (w' := skipn (length w) (win s1)).
    assert (Hw' : length w' = (length (win s1) - length w)%nat) by (subst w'; apply skipn_length).
    destruct w' as [|d w''] eqn:Ew'.
    + destruct (underflow_spec N HN (mk (rpos s1 + length w) [] (src s1) (ok s1) (line s1) (fault s1))) as [I2 A2];
        cbn [win src ok fault rpos]; try assumption; try reflexivity.
      * cbn [length] in Hw'. lia.
      * split; [reflexivity|]. split; [exact A2|]. split; [exact I2|].
        intros _ Hpos. unfold underflow. cbn [ok rpos]. destruct (ok s1); cbn [negb rpos].
        -- destruct (Nat.ltb_spec 0 (rpos s1 + length w)); cbn; lia.
        -- lia.
    + split; [reflexivity|]. split; [reflexivity|]. split.
      * constructor; cbn [rpos win src ok fault]; try assumption.
        -- rewrite Hw'. lia.
        -- rewrite <- Ew'. apply nul_free_skipn. assumption.
        -- discriminate.
        -- intros H. specialize (Iu H). rewrite Hw'. lia.
      * intros _ Hpos. cbn [rpos]. lia.
  - split; [reflexivity|]. split; [exact (eq_sym (eq_sym eq_refl))|]. split; [exact I1|]. discriminate.
Qed.
End Refine2.
