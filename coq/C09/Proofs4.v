(* C09 - refinement proof, part 4: the operation interpreter and the main theorems. *)
Require Import V.Lib.Base V.C09.Spec V.C09.Model V.C09.ARun V.C09.Proofs V.C09.Proofs2 V.C09.Proofs3.
Require Import ZifyBool.
Local Open Scope Z_scope.

Section Refine4.
Variable N : nat.
Hypothesis HN : (2 <= N)%nat.
Notation Inv := (Inv N).

Lemma init_spec input : nul_free input -> Inv (init N input) /\ abs (init N input) = a_init input.
Proof.
  intros H. unfold init.
  destruct (underflow_spec N HN (mk 0 [] input true 1 false)) as [I A]; cbn [win src ok fault rpos]; auto; try lia; try discriminate.
Qed.

Lemma step_spec s credit o outs a' c' :
  Inv s -> (credit = true -> (0 < rpos s)%nat) -> tok_ok N o ->
  a_step (abs s) credit o = Some (outs, a', c') ->
  fst (step N s o) = outs /\ abs (snd (step N s o)) = a' /\ Inv (snd (step N s o)) /\
  (c' = true -> (0 < rpos (snd (step N s o)))%nat).
Proof.
  intros I Cr Tk H. destruct o as [| |c| |w|ns|k| |]; cbn [a_step step] in *.
  - injection H as <- <- <-. cbn [fst snd]. rewrite (peek_abs N s I). auto.
  - destruct (get_spec N HN s I) as (G & I' & R'). rewrite G in H. injection H as <- <- <-.
    destruct (get N s) as [c s'] eqn:Eg. cbn [fst snd] in *.
    split; [reflexivity|]. split; [reflexivity|]. split; [exact I'|].
    intros Hc. apply R'. destruct (Z.eqb_spec c 0); [discriminate | assumption].
  - destruct credit; cbn [andb] in H; [|discriminate].
    destruct (Z.eqb_spec c 0) as [|Hc]; cbn [negb] in H; [discriminate|].
    injection H as <- <- <-.
    destruct (unget_spec N HN c s I (Cr eq_refl) Hc) as (U1 & U2 & U3).
    destruct (unget c s) as [b s'] eqn:Eu. cbn [fst snd] in *. subst b.
    split; [reflexivity|]. split; [exact U3|]. split; [exact U2 | discriminate].
  - injection H as <- <- <-. destruct (skipws_spec N HN s I) as (I' & A'). cbn [fst snd]. auto using eq_sym.
    split; [reflexivity|]. split; [exact A'|]. split; [exact I' | discriminate].
  - destruct Tk as [Tn Tl].
    destruct (match_tok_spec N HN w s I Tn Tl) as (M1 & M2 & M3 & M4).
    destruct (a_match_tok w (abs s)) as [b a1] eqn:Ea. injection H as <- <- <-.
    destruct (match_tok N w s) as [r s'] eqn:Em. cbn [fst snd] in *. subst r.
    split; [reflexivity|]. split; [exact M2|]. split; [exact M3|].
    intros Hc. apply andb_true_iff in Hc. destruct Hc as [Hb Hlen]. apply M4; [exact Hb|].
    destruct (length w); [discriminate | lia].
  - destruct (match_int_spec N HN ns s I) as (M1 & M2 & M3 & M4).
    destruct (a_match_int ns (abs s)) as [v a1] eqn:Ea. cbn [fst snd] in *.
    destruct (match_int N ns s) as [v' s'] eqn:Em. cbn [fst snd] in *. subst v'.
    destruct v as [v|]; injection H as <- <- <-; cbn [fst snd].
    + split; [reflexivity|]. split; [exact M2|]. split; [exact M3|]. intros _. apply M4. discriminate.
    + split; [reflexivity|]. split; [exact M2|]. split; [exact M3|]. discriminate.
  - destruct (copy_spec N HN k s I) as (C1 & C2 & C3 & C4).
    destruct (a_copy k (abs s)) as [[n bs] a1] eqn:Ea. injection H as <- <- <-.
    destruct (copy N k s) as [[n' bs'] s'] eqn:Ec. cbn [fst snd] in *. injection C1 as -> ->.
    split; [reflexivity|]. split; [exact C2|]. split; [exact C3|].
    intros Hc. apply C4. lia.
  - injection H as <- <- <-. cbn [fst snd]. auto.
  - injection H as <- <- <-. cbn [fst snd]. unfold at_end, a_end. rewrite (peek_abs N s I). auto.
Qed.

Lemma run_ops_spec ops : forall s credit outs a',
  Inv s -> (credit = true -> (0 < rpos s)%nat) -> Forall (tok_ok N) ops ->
  a_run_ops (abs s) credit ops = Some (outs, a') ->
  fst (run_ops N s ops) = outs /\ abs (snd (run_ops N s ops)) = a' /\ Inv (snd (run_ops N s ops)).
Proof.
  induction ops as [|o r IH]; intros s credit outs a' I Cr Tk H.
  - cbn in *. injection H as <- <-. auto.
  - inversion Tk as [|? ? To Tr]; subst. cbn [a_run_ops run_ops] in *.
    destruct (a_step (abs s) credit o) as [[[o1 a1] c1]|] eqn:Es; [|discriminate].
    destruct (step_spec s credit o o1 a1 c1 I Cr To Es) as (S1 & S2 & S3 & S4).
    destruct (step N s o) as [o1' s1] eqn:Est. cbn [fst snd] in *. subst o1'.
    rewrite <- S2 in H.
    destruct (a_run_ops (abs s1) c1 r) as [[o2 a2]|] eqn:Er; [|discriminate].
    injection H as <- <-.
    destruct (IH s1 c1 o2 a2 S3 S4 Tr Er) as (R1 & R2 & R3).
    destruct (run_ops N s1 r) as [o2' s2] eqn:Err. cbn [fst snd] in *. subst o2'.
    auto.
Qed.

Theorem refines input ops obs :
  nul_free input -> Forall (tok_ok N) ops -> a_run input ops = Some obs -> run N input ops = obs.
Proof.
  intros Hi Ht H. unfold a_run in H. unfold run.
  destruct (init_spec input Hi) as (I0 & A0). rewrite <- A0 in H.
  destruct (a_run_ops (abs (init N input)) false ops) as [[outs a']|] eqn:Er; [|discriminate].
  injection H as <-.
  destruct (run_ops_spec ops (init N input) false outs a' I0 ltac:(discriminate) Ht Er) as (R1 & R2 & R3).
  destruct (run_ops N (init N input) ops) as [outs' s'] eqn:Err. cbn [fst snd] in *. subst outs' a'.
  rewrite (inv_fault N s' R3). unfold at_end, a_end. rewrite (peek_abs N s' R3). reflexivity.
Qed.
End Refine4.

(* observations do not depend on the buffer size *)
Theorem transparent N1 N2 input ops obs :
  (2 <= N1)%nat -> (2 <= N2)%nat -> nul_free input ->
  Forall (tok_ok N1) ops -> Forall (tok_ok N2) ops ->
  a_run input ops = Some obs ->
  run N1 input ops = obs /\ run N2 input ops = obs.
Proof. intros H1 H2 Hi T1 T2 H. split; eapply refines; eauto. Qed.

(* ---- facts about the specification itself (what a client observes) ---- *)
Lemma a_match_fail_consumes_nothing w s : fst (a_match_tok w s) = false -> snd (a_match_tok w s) = s.
Proof. unfold a_match_tok. destruct (list_eqb _ _); cbn; [discriminate | reflexivity]. Qed.

Lemma a_copy_exact k s : 0 <= k ->
  let '(n, bs, s') := a_copy k s in
  bs = firstn (Z.to_nat k) (rest s) /\ n = Z.of_nat (length bs) /\
  n = Z.min k (Z.of_nat (length (rest s))) /\ rest s = bs ++ rest s' /\ aline s' = aline s + count_eq 10 bs.
Proof.
  intros Hk. unfold a_copy. destruct (Z.ltb_spec k 0); [lia|]. cbn [rest aline].
  split; [reflexivity|]. split; [reflexivity|]. split; [|split; [symmetry; apply firstn_skipn | reflexivity]].
  rewrite firstn_length. lia.
Qed.

Lemma a_get_line s : let '(c, s') := a_get s in aline s' = aline s + (if c =? 10 then 1 else 0).
Proof.
  destruct s as [l ln]. unfold a_get. cbn [rest aline]. destruct l as [|c r]; [cbn; lia|].
  destruct (Z.eqb_spec c 13) as [->|N13].
  - destruct r as [|d r']; [cbn; lia|]. destruct (Z.eq_dec d 10) as [->|Nd]; [cbn; lia|].
    rewrite (is_ten d Nd). cbn. lia.
  - destruct (Z.eqb_spec c 10) as [->|N10]; cbn [aline]; [cbn; lia|].
    destruct (Z.eqb_spec c 10); [contradiction | lia].
Qed.

(* a run of gets: the line number is one plus the number of newlines delivered *)
Lemma a_gets_line n : forall s credit outs s',
  a_run_ops s credit (repeat OGet n) = Some (outs, s') -> aline s' = aline s + count_eq 10 outs.
Proof.
  induction n as [|n IH]; intros s credit outs s' H; cbn [repeat a_run_ops a_step] in H.
  - injection H as <- <-. cbn. lia.
  - pose proof (a_get_line s) as L. destruct (a_get s) as [c s1].
    destruct (a_run_ops s1 (negb (c =? 0)) (repeat OGet n)) as [[o2 s2]|] eqn:E; [|discriminate].
    injection H as <- <-. rewrite (IH _ _ _ _ E), L. cbn [app count_eq]. ring.
Qed.
