(* C09 - the abstract run: the operation list interpreted over the plain-list specification
   (Spec.v).  `credit` records whether the directly preceding operation extracted at least one
   character; an unget without credit is outside the specification (None).                     *)
Require Import V.Lib.Base V.C09.Spec V.C09.Model.
Local Open Scope Z_scope.

Definition a_step (s : ast) (credit : bool) (o : op) : option (list Z * ast * bool) :=
  match o with
  | OPeek => Some ([a_peek s], s, credit)
  | OGet => let '(c, s') := a_get s in Some ([c], s', negb (c =? 0))
  | OUnget c => if credit && negb (c =? 0) then Some ([1], a_unget c s, false) else None
  | OSkipWs => Some ([], a_skipws s, false)
  | OMatch w => let '(b, s') := a_match_tok w s in Some ([b2z b], s', b && negb (Nat.eqb (length w) 0))
  | OInt ns => match a_match_int ns s with
               | (Some v, s') => Some ([1; v], s', true)
               | (None, s') => Some ([0], s', false)
               end
  | OCopy k => let '(n, bs, s') := a_copy k s in Some (n :: bs, s', 0 <? n)
  | OLine => Some ([aline s], s, credit)
  | OEnd => Some ([b2z (a_end s)], s, credit)
  end.

Fixpoint a_run_ops (s : ast) (credit : bool) (ops : list op) : option (list Z * ast) :=
  match ops with
  | [] => Some ([], s)
  | o :: r =>
      match a_step s credit o with
      | None => None
      | Some (o1, s1, c1) =>
          match a_run_ops s1 c1 r with
          | None => None
          | Some (o2, s2) => Some (o1 ++ o2, s2)
          end
      end
  end.

Definition a_run (input : list Z) (ops : list op) : option (list Z) :=
  match a_run_ops (a_init input) false ops with
  | None => None
  | Some (outs, s) => Some (outs ++ [aline s; b2z (a_end s); 0])
  end.

(* tokens the wrapper is specified for at buffer size N *)
Definition tok_ok (N : nat) (o : op) : Prop :=
  match o with OMatch w => nul_free w /\ (length w <= N)%nat | _ => True end.
