(* C09 - abstract specification of the buffered input wrapper: a plain list of remaining bytes
   and a line counter.  Every reader model (aspif, smodels, text) is written against THIS
   interface; C09 proves that the buffered implementation (Model.v) refines it for every
   BUF_SIZE >= 2, so the readers' theorems hold wherever the buffer boundaries fall.        *)
Require Import V.Lib.Base.
Local Open Scope Z_scope.

Record ast := amk { rest : list Z; aline : Z }.

Definition a_peek (s : ast) : Z := match rest s with [] => 0 | c :: _ => c end.
Definition a_end (s : ast) : bool := a_peek s =? 0.

(* get: CR and CRLF are delivered as one LF; the line counter counts delivered LFs *)
Definition a_get (s : ast) : Z * ast :=
  match rest s with
  | [] => (0, s)
  | c :: r =>
      if c =? 13 then
        match r with
        | 10 :: r' => (10, amk r' (aline s + 1))
        | _ => (10, amk r (aline s + 1))
        end
      else if c =? 10 then (10, amk r (aline s + 1))
      else (c, amk r (aline s))
  end.

Fixpoint a_skipws_l (l : list Z) (ln : Z) : ast :=
  match l with
  | [] => amk [] ln
  | c :: r =>
      if is_ws c then
        if c =? 13 then
          match r with
          | 10 :: r' => a_skipws_l r' (ln + 1)
          | _ => a_skipws_l r (ln + 1)
          end
        else a_skipws_l r (if c =? 10 then ln + 1 else ln)
      else amk l ln
  end.
Definition a_skipws (s : ast) : ast := a_skipws_l (rest s) (aline s).

(* token match: consumes w iff w is a prefix of the remaining input; otherwise nothing changes *)
Definition a_match_tok (w : list Z) (s : ast) : bool * ast :=
  if list_eqb (firstn (length w) (rest s)) w then (true, amk (skipn (length w) (rest s)) (aline s))
  else (false, s).

(* integer match: skip whitespace (unless told not to), optional sign, maximal digit run.
   Fails (None) when no digit follows or when the denoted number does not fit int64;
   in the latter case the digits are consumed all the same. *)
Definition INT64_MAX : Z := 9223372036854775807.
Fixpoint a_digits (l : list Z) (res : Z) (good : bool) : Z * bool * list Z :=
  match l with
  | c :: r =>
      if is_digit c then
        if good && (res <=? (INT64_MAX - to_digit c) / 10) then a_digits r (res * 10 + to_digit c) true
        else a_digits r res false
      else (res, good, l)
  | [] => (res, good, [])
  end.

Definition a_match_int (noskip : bool) (s : ast) : option Z * ast :=
  let s0 := if noskip then s else a_skipws s in
  let sg := a_peek s0 in
  let l1 := if (sg =? 43) || (sg =? 45) then tl (rest s0) else rest s0 in
  match l1 with
  | c :: r =>
      if is_digit c then
        let '(res, good, l2) := a_digits r (to_digit c) true in
        let v := if sg =? 45 then - res else res in
        (if good then Some v else None, amk l2 (aline s0))
      else (None, amk l1 (aline s0))
  | [] => (None, amk [] (aline s0))
  end.

(* raw copy: the next min(k, |rest|) bytes, LF bytes counted as lines; negative k returns k *)
Definition a_copy (k : Z) (s : ast) : Z * list Z * ast :=
  if k <? 0 then (k, [], s) else
  let bs := firstn (Z.to_nat k) (rest s) in
  (Z.of_nat (length bs), bs, amk (skipn (Z.to_nat k) (rest s)) (aline s + count_eq 10 bs)).

(* unget: specified only directly after an operation that extracted at least one character *)
Definition a_unget (c : Z) (s : ast) : ast :=
  amk (c :: rest s) (if c =? 10 then aline s - 1 else aline s).

Definition a_init (input : list Z) : ast := amk input 1.
