(* C09 - refinement proof, part 3: integer match, raw copy, the operation interpreter, main theorems. *)
Require Import V.Lib.Base V.C09.Spec V.C09.Model V.C09.ARun V.C09.Proofs V.C09.Proofs2.
Require Import ZifyBool.
Local Open Scope Z_scope.

Ltac split_and := repeat match goal with |- _ /\ _ => split end.

Section Refine3.
Variable N : nat.
Hypothesis HN : (2 <= N)%nat.
Notation Inv := (Inv N).

Lemma win_cons s c r : Inv s -> rest (abs s) = c :: r -> exists w, win s = c :: w /\ w ++ src s = r.
Proof.
  intros I H. rewrite rest_abs in H. destruct (win s) as [|x w] eqn:E.
  - rewrite (inv_empty N s I E) in H. discriminate.
  - cbn in H. injection H as -> H. eauto.
Qed.

Lemma abs_eta s : abs s = amk (rest (abs s)) (line s). Proof. reflexivity. Qed.

(* ---------- digits ---------- *)
Lemma digits_f_spec fuel : forall s res good, Inv s -> (length (rest (abs s)) < fuel)%nat -> (0 < rpos s)%nat ->
  exists r g s', digits_f N fuel res good s = (r, g, s') /\
    a_digits (rest (abs s)) res good = (r, g, rest (abs s')) /\ Inv s' /\ line s' = line s /\ (0 < rpos s')%nat.
Proof.
  induction fuel as [|f IH]; intros s res good I Hf R; [lia|].
  cbn [digits_f]. rewrite (peek_abs N s I). unfold a_peek.
  destruct (rest (abs s)) as [|c r] eqn:Er.
  - change (is_digit 0) with false. cbn [a_digits]. exists res, good, s. rewrite Er. auto.
  - cbn [a_digits]. destruct (is_digit c) eqn:D.
    + destruct (win_cons s c r I Er) as (w & Ew & Hr).
      destruct (rget_spec N HN s c w I Ew) as (I1 & A1 & R1).
      assert (Er1 : rest (abs (rget N s)) = r) by (rewrite A1; cbn [rest]; exact Hr).
      assert (L1 : line (rget N s) = line s) by (apply (line_rget N HN s c w I Ew)).
      assert (Hf1 : (length (rest (abs (rget N s))) < f)%nat) by (rewrite Er1; cbn [length] in Hf; lia).
      destruct (good && (res <=? (Model.INT64_MAX - to_digit c) / 10)) eqn:G.
      * destruct (IH (rget N s) (res * 10 + to_digit c) true I1 Hf1 R1) as (r' & g' & s' & E1 & E2 & I' & L' & R').
        exists r', g', s'. rewrite E1. rewrite Er1 in E2.
        change Spec.INT64_MAX with Model.INT64_MAX. rewrite G. rewrite E2. split; [reflexivity|]. split; [reflexivity|]. split; [exact I'|]. split; [congruence | exact R'].
      * destruct (IH (rget N s) res false I1 Hf1 R1) as (r' & g' & s' & E1 & E2 & I' & L' & R').
        exists r', g', s'. rewrite E1. rewrite Er1 in E2.
        change Spec.INT64_MAX with Model.INT64_MAX. rewrite G. rewrite E2. split; [reflexivity|]. split; [reflexivity|]. split; [exact I'|]. split; [congruence | exact R'].
    + exists res, good, s. rewrite Er. auto.
Qed.

(* ---------- integer match ---------- *)
Lemma match_int_spec ns s : Inv s ->
  fst (match_int N ns s) = fst (a_match_int ns (abs s)) /\
  abs (snd (match_int N ns s)) = snd (a_match_int ns (abs s)) /\
  Inv (snd (match_int N ns s)) /\
  (fst (match_int N ns s) <> None -> (0 < rpos (snd (match_int N ns s)))%nat).
Proof.
  intros I. unfold match_int, a_match_int.
  set (s0 := if ns then s else skipws N s).
  set (a0 := if ns then abs s else a_skipws (abs s)).
  assert (H0 : Inv s0 /\ abs s0 = a0).
  { subst s0 a0. destruct ns; [auto|]. apply (skipws_spec N HN s I). }
  destruct H0 as (I0 & A0). clearbody s0 a0. subst a0.
  rewrite <- (peek_abs N s0 I0).
  set (sg := peek s0).
  set (s1 := if (sg =? 43) || (sg =? 45) then rget N s0 else s0).
  set (l1 := if (sg =? 43) || (sg =? 45) then tl (rest (abs s0)) else rest (abs s0)).
  assert (H1 : Inv s1 /\ rest (abs s1) = l1 /\ line s1 = line s0).
  { subst s1 l1. destruct ((sg =? 43) || (sg =? 45)) eqn:Sg; [|auto].
    assert (Hnz : peek s0 <> 0) by (fold sg; lia).
    destruct (peek_nonzero_win N s0 I0 Hnz) as (c & w & Ew & _).
    destruct (rget_spec N HN s0 c w I0 Ew) as (I1 & A1 & _).
    split; [exact I1|]. split.
    - rewrite A1, rest_abs, Ew. reflexivity.
    - apply (line_rget N HN s0 c w I0 Ew). }
  destruct H1 as (I1 & E1 & L1). clearbody s1 l1. rewrite aline_abs.
  rewrite (peek_abs N s1 I1). unfold a_peek. rewrite E1.
  destruct l1 as [|c r].
  - change (is_digit 0) with false. cbn [negb fst snd].
    split; [reflexivity|]. split; [rewrite (abs_eta s1), E1, L1; reflexivity|]. split; [exact I1 | congruence].
  - destruct (is_digit c) eqn:D; cbn [negb].
    + destruct (win_cons s1 c r I1 E1) as (w & Ew & Hr).
      destruct (rget_spec N HN s1 c w I1 Ew) as (I2 & A2 & R2).
      assert (Er2 : rest (abs (rget N s1)) = r) by (rewrite A2; cbn [rest]; exact Hr).
      assert (L2 : line (rget N s1) = line s1) by (apply (line_rget N HN s1 c w I1 Ew)).
      destruct (digits_f_spec (S (remaining (rget N s1))) (rget N s1) (to_digit c) true I2
                  ltac:(rewrite remaining_abs; lia) R2) as (res & g & s3 & Ed & Ea & I3 & L3 & R3).
      rewrite Ed. rewrite Er2 in Ea. rewrite Ea. cbn [fst snd].
      split; [reflexivity|]. split; [|split; [exact I3 | intros _; exact R3]].
      rewrite (abs_eta s3). f_equal. congruence.
    + cbn [fst snd]. split; [reflexivity|]. split; [rewrite (abs_eta s1), E1, L1; reflexivity|].
      split; [exact I1 | congruence].
Qed.

(* ---------- raw copy ---------- *)
Lemma copy_f_spec fuel : forall s n acc, Inv s -> (length (rest (abs s)) < fuel)%nat ->
  exists bs s', copy_f N fuel n acc s = (bs, s') /\
    bs = acc ++ firstn n (rest (abs s)) /\
    rest (abs s') = skipn n (rest (abs s)) /\
    line s' = line s + count_eq 10 (firstn n (rest (abs s))) /\ Inv s' /\
    ((0 < length (firstn n (rest (abs s))))%nat -> (0 < rpos s')%nat).
Proof.
  induction fuel as [|f IH]; intros s n acc I Hf; [lia|].
  cbn [copy_f]. rewrite (peek_abs N s I). unfold a_peek.
  destruct (Nat.eqb_spec n 0) as [->|Hn]; cbn [orb].
  { exists acc, s. cbn [firstn skipn count_eq length]. rewrite app_nil_r, Z.add_0_r. split_and; auto. lia. }
  destruct (rest (abs s)) as [|c r] eqn:Er.
  { change (0 =? 0) with true. exists acc, s. rewrite firstn_nil, skipn_nil, app_nil_r. cbn [count_eq length].
    rewrite Z.add_0_r, Er. split_and; auto. lia. }
  destruct (win_cons s c r I Er) as (w & Ew & Hr).
  pose proof (inv_win N s I) as Hnf. rewrite Ew in Hnf. apply nul_free_cons_inv in Hnf. destruct Hnf as [Hc Hnf].
  destruct (Z.eqb_spec c 0) as [|_]; [contradiction|].
  set (m := Nat.min n (length (win s))).
  assert (Hm : (1 <= m <= n)%nat /\ (m <= length (win s))%nat) by (subst m; rewrite Ew; cbn [length]; lia).
  set (w' := skipn m (win s)).
  set (s1 := mk (rpos s + m) w' (src s) (ok s) (line s + count_eq 10 (firstn m (win s))) (fault s)).
  set (s2 := match w' with [] => underflow N true s1 | _ :: _ => s1 end).
  assert (Hw' : length w' = (length (win s) - m)%nat) by (subst w'; apply skipn_length).
  pose proof I as [Il Iw Is If Ie Iu Ia].
  assert (H2 : Inv s2 /\ rest (abs s2) = skipn m (rest (abs s)) /\ line s2 = line s1 /\ (0 < rpos s2)%nat).
  { rewrite (rest_abs s), (skipn_app_l _ _ _ (proj2 Hm)). fold w'. subst s2.
    destruct w' as [|d w''] eqn:Ew'.
    - destruct (underflow_spec N HN s1) as [I2 A2]; subst s1; cbn [win src ok fault rpos]; try assumption; try reflexivity.
      + cbn [length] in Hw'. lia.
      + split; [exact I2|]. split; [rewrite A2; reflexivity|]. split.
        * change (aline (abs (underflow N true
            {| rpos := rpos s + m; win := []; src := src s; ok := ok s;
               line := line s + count_eq 10 (firstn m (win s)); fault := fault s |})) = line s + count_eq 10 (firstn m (win s))).
          rewrite A2. reflexivity.
        * unfold underflow. cbn [ok rpos]. destruct (ok s); cbn [negb rpos]; [|lia].
          destruct (Nat.ltb_spec 0 (rpos s + m)); cbn; lia.
    - split; [|split; [reflexivity | split; [reflexivity | subst s1; cbn [rpos]; lia]]].
      subst s1. constructor; cbn [rpos win src ok fault]; try assumption.
      + rewrite Hw'. lia.
      + rewrite <- Ew'. apply nul_free_skipn. assumption.
      + discriminate.
      + intros H. specialize (Iu H). rewrite Hw'. lia. }
  destruct H2 as (I2 & E2 & L2 & R2). clearbody s2.
  assert (Hf2 : (length (rest (abs s2)) < f)%nat).
  { rewrite E2, skipn_length, Er. cbn [length] in *. lia. }
  destruct (IH s2 (n - m)%nat (acc ++ firstn m (win s)) I2 Hf2) as (bs & s' & Ec & Eb & Es & El & I' & R').
  exists bs, s'. rewrite Ec. split; [reflexivity|].
  assert (Hfw : firstn m (win s) = firstn m (rest (abs s))).
  { rewrite rest_abs. symmetry. apply firstn_app_l. lia. }
  assert (Hsplit : firstn n (rest (abs s)) = firstn m (rest (abs s)) ++ firstn (n - m) (skipn m (rest (abs s)))).
  { apply firstn_split. lia. }
  rewrite <- Er. split; [|split; [|split; [|split]]].
  - rewrite Eb, E2, Hsplit, Hfw, app_assoc. reflexivity.
  - rewrite Es, E2, skipn_skipn'. f_equal. lia.
  - rewrite El, L2, E2, Hsplit, count_eq_app. subst s1. cbn [Model.line]. rewrite Hfw. ring.
  - exact I'.
  - intros _. destruct (Nat.eq_dec (n - m) 0) as [Hz|Hnz].
    + (* nothing more was copied: s' = s2 up to the loop exit *)
      clear - Ec Hz R2 I2 Hf2 HN. rewrite Hz in Ec. destruct f as [|f']; [lia|]. cbn [copy_f] in Ec.
      cbn [Nat.eqb orb] in Ec. injection Ec as _ <-. exact R2.
    + destruct (rest (abs s2)) as [|x y] eqn:E2'.
      * clear - Ec E2' R2 I2 Hf2 HN Hnz. destruct f as [|f']; [lia|]. cbn [copy_f] in Ec.
        rewrite (peek_abs N s2 I2) in Ec. unfold a_peek in Ec. rewrite E2' in Ec.
        change (0 =? 0) with true in Ec. rewrite orb_true_r in Ec. injection Ec as _ <-. exact R2.
      * apply R'. destruct (n - m)%nat; [lia|]. cbn. lia.
Qed.

Lemma copy_spec k s : Inv s ->
  fst (copy N k s) = fst (a_copy k (abs s)) /\ abs (snd (copy N k s)) = snd (a_copy k (abs s)) /\
  Inv (snd (copy N k s)) /\ (0 < fst (fst (copy N k s)) -> (0 < rpos (snd (copy N k s)))%nat).
Proof.
  intros I. unfold copy, a_copy. destruct (Z.ltb_spec k 0) as [Hk|Hk]; cbn [fst snd].
  - split; [reflexivity|]. split; [reflexivity|]. split; [exact I|lia].
  - destruct (copy_f_spec (S (remaining s)) s (Z.to_nat k) [] I ltac:(rewrite remaining_abs; lia))
      as (bs & s' & Ec & Eb & Es & El & I' & R').
    rewrite Ec. cbn [fst snd]. cbn [app] in Eb. subst bs.
    split; [reflexivity|]. split; [|split; [exact I'|]].
    + rewrite (abs_eta s'), Es, El. reflexivity.
    + intros H. apply R'. lia.
Qed.
End Refine3.
