(* C09 - executable model of Potassco::BufferedStream (src/match_basic_types.cpp).

   The character array buf_[0..BUF_SIZE] is modelled by what the code can see of it:
     rpos  = rpos_                       (index of the read position)
     win   = buf_[rpos_ .. first NUL)    (the bytes between the read position and the sentinel)
   Cells before rpos_ are never read (unget overwrites the cell it steps back to), cells behind
   the sentinel are never read either - every place where the code computes an index or a length
   is modelled with that computation and checked against the window (Fault otherwise).
     src   = bytes the std::istream has not delivered yet
     ok    = the istream is still good() (read() of fewer bytes than requested sets failbit)
   std::istream::read is the one library call that is modelled, not verified.                    *)
Require Import V.Lib.Base.
Local Open Scope Z_scope.

Record st := mk { rpos : nat; win : list Z; src : list Z; ok : bool; line : Z; fault : bool }.

Section Buf.
Variable N : nat. (* BUF_SIZE ; ALLOC_SIZE = N + 1 *)

Definition set_line (s : st) (l : Z) := mk (rpos s) (win s) (src s) (ok s) l (fault s).
Definition set_fault (s : st) := mk (rpos s) (win s) (src s) (ok s) (line s) true.

(* void underflow(bool up): called with the read position on the sentinel (win = []) *)
Definition underflow (up : bool) (s : st) : st :=
  if negb (ok s) then s else
  let rp := if up && (0 <? rpos s)%nat then 1%nat else rpos s in
  let n := (N - rp)%nat in                       (* ALLOC_SIZE - (1 + rpos_) *)
  mk rp (cut0 (firstn n (src s))) (skipn n (src s)) (n <=? length (src s))%nat (line s) (fault s).

Definition init (input : list Z) : st := underflow true (mk 0 [] input true 1 false).

Definition peek (s : st) : Z := match win s with [] => 0 | c :: _ => c end.
Definition at_end (s : st) : bool := peek s =? 0.

(* char rget(): c = peek(); if (!buf_[++rpos_]) underflow(); -- only called with peek() != 0 *)
Definition rget (s : st) : st :=
  match win s with
  | [] => set_fault s     (* would step over the sentinel *)
  | _ :: w =>
      let s' := mk (S (rpos s)) w (src s) (ok s) (line s) (fault s) in
      match w with [] => underflow true s' | _ => s' end
  end.

Definition get (s : st) : Z * st :=
  let c := peek s in
  if c =? 0 then (0, s) else
  let s1 := rget s in
  if c =? 13 then
    let s2 := if peek s1 =? 10 then rget s1 else s1 in
    (10, set_line s2 (line s2 + 1))
  else if c =? 10 then (10, set_line s1 (line s1 + 1))
  else (c, s1).

Fixpoint skipws_f (fuel : nat) (s : st) : st :=
  match fuel with
  | O => set_fault s
  | S f => if is_ws (peek s) then skipws_f f (snd (get s)) else s
  end.
Definition remaining (s : st) : nat := (length (win s) + length (src s))%nat.
Definition skipws (s : st) : st := skipws_f (S (remaining s)) s.

Definition unget (c : Z) (s : st) : bool * st :=
  match rpos s with
  | O => (false, s)
  | S p => (true, mk p (c :: win s) (src s) (ok s) (if c =? 10 then line s - 1 else line s) (fault s))
  end.

(* bool match(const char* w) *)
Definition compact (s : st) : st :=
  let bLen := (N - rpos s)%nat in
  (* memcpy(buf_, buf_ + rpos_, bLen): source range [rpos_, rpos_+bLen) = [rpos_, N) lies in the array *)
  if negb (ok s) then mk 0 (win s) (src s) false (line s) (fault s)
  else
    let n := (N - bLen)%nat in                    (* rpos_ = bLen; underflow(false) reads ALLOC_SIZE-(1+bLen) *)
    let w' := if (length (win s) =? bLen)%nat then win s ++ cut0 (firstn n (src s)) else win s in
    mk 0 w' (skipn n (src s)) (n <=? length (src s))%nat (line s) (fault s).

(* result: 0 = false, 1 = true, 2 = POTASSCO_ASSERT (token longer than BUF_SIZE) *)
Definition match_tok (w : list Z) (s : st) : Z * st :=
  let wLen := length w in
  let bLen := (N - rpos s)%nat in
  if (bLen <? wLen)%nat && negb (wLen <=? N)%nat then (2, s) else
  let s1 := if (bLen <? wLen)%nat then compact s else s in
  if list_eqb (firstn wLen (win s1)) w then
    let w' := skipn wLen (win s1) in
    let s2 := mk (rpos s1 + wLen) w' (src s1) (ok s1) (line s1) (fault s1) in
    (1, match w' with [] => underflow true s2 | _ => s2 end)
  else (0, s1).

(* bool match(int64_t& res, bool noSkipWs): digits are accumulated while the value fits int64;
   once it does not, the remaining digits are still extracted and the match fails. *)
Definition INT64_MAX : Z := 9223372036854775807.
Fixpoint digits_f (fuel : nat) (res : Z) (good : bool) (s : st) : Z * bool * st :=
  match fuel with
  | O => (res, good, set_fault s)
  | S f =>
      if is_digit (peek s) then
        let d := to_digit (peek s) in
        let s' := rget s in
        if good && (res <=? (INT64_MAX - d) / 10) then digits_f f (res * 10 + d) true s'
        else digits_f f res false s'
      else (res, good, s)
  end.

Definition match_int (noskip : bool) (s : st) : option Z * st :=
  let s0 := if noskip then s else skipws s in
  let sg := peek s0 in
  let s1 := if (sg =? 43) || (sg =? 45) then rget s0 else s0 in
  if negb (is_digit (peek s1)) then (None, s1) else
  let d0 := to_digit (peek s1) in
  let s2 := rget s1 in
  let '(res, good, s3) := digits_f (S (remaining s2)) d0 true s2 in
  let v := if sg =? 45 then - res else res in
  (if good then Some v else None, s3).

(* int copy(char* out, int max) *)
Fixpoint copy_f (fuel : nat) (n : nat) (acc : list Z) (s : st) : list Z * st :=
  match fuel with
  | O => (acc, set_fault s)
  | S f =>
      if (n =? 0)%nat || (peek s =? 0) then (acc, s) else
      let b := length (win s) in                  (* strlen(buf_ + rpos_) *)
      let m := Nat.min n b in
      let chunk := firstn m (win s) in
      let w' := skipn m (win s) in
      let s1 := mk (rpos s + m) w' (src s) (ok s) (line s + count_eq 10 chunk) (fault s) in
      let s2 := match w' with [] => underflow true s1 | _ => s1 end in
      copy_f f (n - m) (acc ++ chunk) s2
  end.
Definition copy (max : Z) (s : st) : Z * list Z * st :=
  if max <? 0 then (max, [], s) else
  let '(bytes, s') := copy_f (S (remaining s)) (Z.to_nat max) [] s in
  (Z.of_nat (length bytes), bytes, s').

(* ---- operations as data, and the interpreter used by the correspondence check ---- *)
Inductive op :=
| OPeek | OGet | OUnget (c : Z) | OSkipWs | OMatch (w : list Z) | OInt (noskip : bool) | OCopy (k : Z) | OLine | OEnd.

Definition step (s : st) (o : op) : list Z * st :=
  match o with
  | OPeek => ([peek s], s)
  | OGet => let '(c, s') := get s in ([c], s')
  | OUnget c => let '(b, s') := unget c s in ([b2z b], s')
  | OSkipWs => ([], skipws s)
  | OMatch w => let '(r, s') := match_tok w s in ([r], s')
  | OInt ns => match match_int ns s with
               | (Some v, s') => ([1; v], s')
               | (None, s') => ([0], s')
               end
  | OCopy k => let '(n, bs, s') := copy k s in (n :: bs, s')
  | OLine => ([line s], s)
  | OEnd => ([b2z (at_end s)], s)
  end.

Fixpoint run_ops (s : st) (ops : list op) : list Z * st :=
  match ops with
  | [] => ([], s)
  | o :: r => let '(o1, s1) := step s o in let '(o2, s2) := run_ops s1 r in (o1 ++ o2, s2)
  end.

Definition run (input : list Z) (ops : list op) : list Z :=
  let '(outs, s) := run_ops (init input) ops in
  outs ++ [line s; b2z (at_end s); b2z (fault s)].
End Buf.

(* ---- case decoding:  [N; len; input bytes...; op codes...] ---- *)
Fixpoint decode_ops (fuel : nat) (l : list Z) : list op :=
  match fuel with
  | O => []
  | S f =>
      match l with
      | 0 :: r => OPeek :: decode_ops f r
      | 1 :: r => OGet :: decode_ops f r
      | 2 :: c :: r => OUnget c :: decode_ops f r
      | 3 :: r => OSkipWs :: decode_ops f r
      | 4 :: n :: r => OMatch (firstn (Z.to_nat n) r) :: decode_ops f (skipn (Z.to_nat n) r)
      | 5 :: b :: r => OInt (negb (b =? 0)) :: decode_ops f r
      | 6 :: k :: r => OCopy k :: decode_ops f r
      | 7 :: r => OLine :: decode_ops f r
      | 8 :: r => OEnd :: decode_ops f r
      | _ => []
      end
  end.

Definition run_case (c : list Z) : list Z :=
  match c with
  | n :: len :: r =>
      let input := firstn (Z.to_nat len) r in
      let ops := decode_ops (length r) (skipn (Z.to_nat len) r) in
      run (Z.to_nat n) input ops
  | _ => []
  end.
