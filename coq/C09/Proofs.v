(* C09 - refinement proof: the buffer-window machine (Model.v) refines the plain-list
   specification (Spec.v) for every buffer size N >= 2. *)
Require Import V.Lib.Base V.C09.Spec V.C09.Model V.C09.ARun.
Require Import ZifyBool.
Local Open Scope Z_scope.

Section Refine.
Variable N : nat.
Hypothesis HN : (2 <= N)%nat.

Definition abs (s : st) : ast := amk (win s ++ src s) (line s).

Record Inv (s : st) : Prop := {
  inv_len : (rpos s + length (win s) <= N)%nat;
  inv_win : nul_free (win s);
  inv_src : nul_free (src s);
  inv_fail : ok s = false -> src s = [];
  inv_empty : win s = [] -> src s = [];
  inv_full : ok s = true -> (rpos s + length (win s) = N)%nat;
  inv_fault : fault s = false
}.

Lemma nul_free_firstn n l : nul_free l -> nul_free (firstn n l).
Proof. unfold nul_free. intros H. rewrite <- (firstn_skipn n l) in H. apply Forall_app in H. tauto. Qed.
Lemma nul_free_skipn n l : nul_free l -> nul_free (skipn n l).
Proof. unfold nul_free. intros H. rewrite <- (firstn_skipn n l) in H. apply Forall_app in H. tauto. Qed.
Lemma nul_free_app a b : nul_free a -> nul_free b -> nul_free (a ++ b).
Proof. unfold nul_free. intros. apply Forall_app; auto. Qed.
Lemma nul_free_cons_inv c l : nul_free (c :: l) -> c <> 0 /\ nul_free l.
Proof. intros H; inversion H; auto. Qed.

Lemma peek_abs s : Inv s -> peek s = a_peek (abs s).
Proof.
  intros I. unfold peek, a_peek, abs; cbn [rest].
  destruct (win s) as [|c w] eqn:E; [|reflexivity].
  rewrite (inv_empty s I E). reflexivity.
Qed.

(* ---- underflow(true) on a state whose window is exhausted ---- *)
Lemma underflow_spec s :
  win s = [] -> nul_free (src s) -> (ok s = false -> src s = []) -> fault s = false -> (rpos s <= N)%nat ->
  Inv (underflow N true s) /\ abs (underflow N true s) = amk (src s) (line s).
Proof.
  intros Hw Hs Hf Hfa Hr. unfold underflow.
  destruct (ok s) eqn:Eok; cbn [negb].
  - set (rp := if true && (0 <? rpos s)%nat then 1%nat else rpos s).
    assert (Hrp : (rp <= 1)%nat /\ (rp <= N)%nat).
    { subst rp. cbn [andb]. destruct (Nat.ltb_spec 0 (rpos s)); lia. }
    set (n := (N - rp)%nat).
    assert (Hn : (1 <= n)%nat) by (subst n; lia).
    rewrite (cut0_nul_free (firstn n (src s))) by (apply nul_free_firstn; assumption).
    split.
    + constructor; cbn [rpos win src ok fault Model.line].
      * rewrite firstn_length. subst n. lia.
      * apply nul_free_firstn; assumption.
      * apply nul_free_skipn; assumption.
      * intros H. apply Nat.leb_gt in H. apply skipn_all2. lia.
      * intros H. destruct (src s) as [|c r]; [destruct n; reflexivity|].
        destruct n; [lia|]. cbn in H. discriminate.
      * intros H. apply Nat.leb_le in H. rewrite firstn_length. subst n. lia.
      * assumption.
    + unfold abs; cbn [win src Model.line]. rewrite firstn_skipn. reflexivity.
  - split.
    + constructor; rewrite ?Hw; cbn [length]; try assumption.
      * lia.
      * constructor.
      * intros _. apply Hf. reflexivity.
      * intros _. apply Hf. reflexivity.
      * intros H. rewrite Eok in H. discriminate.
    + unfold abs. rewrite Hw. reflexivity.
Qed.

(* ---- rget ---- *)
Lemma rget_spec s c w : Inv s -> win s = c :: w ->
  Inv (rget N s) /\ abs (rget N s) = amk (w ++ src s) (line s) /\ (0 < rpos (rget N s))%nat.
Proof.
  intros I E. unfold rget. rewrite E.
  pose proof (inv_win s I) as Hw. rewrite E in Hw. apply nul_free_cons_inv in Hw. destruct Hw as [Hc Hw].
  pose proof (inv_len s I) as Hl. rewrite E in Hl. cbn [length] in Hl.
  destruct w as [|d w'].
  - destruct (underflow_spec (mk (S (rpos s)) [] (src s) (ok s) (line s) (fault s))) as [I' A'];
      cbn [win src ok fault rpos]; try reflexivity.
    + apply (inv_src s I). + apply (inv_fail s I). + apply (inv_fault s I). + lia.
    + split; [exact I'|]. split; [exact A'|].
      unfold underflow. cbn [ok rpos]. destruct (ok s); cbn; lia.
  - split; [|split; [reflexivity | cbn; lia]].
    constructor; cbn [rpos win src ok fault Model.line length] in *.
    + lia.
    + exact Hw.
    + apply (inv_src s I).
    + apply (inv_fail s I).
    + discriminate.
    + intros H. pose proof (inv_full s I H) as F. rewrite E in F. cbn [length] in F. lia.
    + apply (inv_fault s I).
Qed.

Lemma set_line_inv s l : Inv s -> Inv (set_line s l).
Proof. intros [? ? ? ? ? ? ?]. constructor; assumption. Qed.
Lemma set_line_abs s l : abs (set_line s l) = amk (rest (abs s)) l.
Proof. reflexivity. Qed.

(* ---- get ---- *)
Lemma line_rget s c w : Inv s -> win s = c :: w -> line (rget N s) = line s.
Proof.
  intros I E. destruct (rget_spec s c w I E) as (_ & A & _).
  change (aline (abs (rget N s)) = line s). rewrite A. reflexivity.
Qed.

Lemma is_ten d : d <> 10 -> forall (A : Type) (x y : A), match d with 10 => x | _ => y end = y.
Proof.
  intros H A x y. destruct d as [|p|p]; try reflexivity.
  destruct p as [p|p|]; try reflexivity; destruct p as [p|p|]; try reflexivity;
  destruct p as [p|p|]; try reflexivity; destruct p as [p|p|]; try reflexivity. congruence.
Qed.

Lemma get_spec s : Inv s ->
  a_get (abs s) = (fst (get N s), abs (snd (get N s))) /\ Inv (snd (get N s)) /\
  (fst (get N s) <> 0 -> (0 < rpos (snd (get N s)))%nat).
Proof.
  intros I. unfold get. rewrite (peek_abs s I).
  destruct (win s) as [|c w] eqn:E.
  - assert (Habs : abs s = amk [] (line s)) by (unfold abs; rewrite E, (inv_empty s I E); reflexivity).
    rewrite Habs. cbn. rewrite <- Habs. split; [reflexivity|]. split; [exact I|congruence].
  - assert (Habs : abs s = amk (c :: w ++ src s) (line s)) by (unfold abs; rewrite E; reflexivity).
    rewrite Habs. unfold a_get, a_peek. cbn [rest aline].
    pose proof (inv_win s I) as Hw. rewrite E in Hw. apply nul_free_cons_inv in Hw. destruct Hw as [Hc Hw].
    destruct (Z.eqb_spec c 0) as [|_]; [contradiction|].
    destruct (rget_spec s c w I E) as (I1 & A1 & R1).
    pose proof (line_rget s c w I E) as L1.
    destruct (Z.eqb_spec c 13) as [E13|N13].
    + rewrite (peek_abs _ I1), A1. unfold a_peek; cbn [rest].
      destruct (w ++ src s) as [|d r] eqn:Er.
      * cbn [fst snd]. rewrite Z.eqb_refl || cbn. 
        change (0 =? 10) with false. cbn [fst snd].
        split; [|split]; [| apply set_line_inv; exact I1 | intros _; exact R1].
        rewrite set_line_abs, A1, L1. reflexivity.
      * destruct (Z.eqb_spec d 10) as [E10|N10].
        -- subst d. cbn [fst snd].
           assert (exists w1, win (rget N s) = 10 :: w1 /\ w1 ++ src (rget N s) = r) as (w1 & Ew1 & Er1).
           { assert (Hr : win (rget N s) ++ src (rget N s) = 10 :: r).
             { change (rest (abs (rget N s)) = 10 :: r). rewrite A1. reflexivity. }
             destruct (win (rget N s)) as [|x w1] eqn:Ew.
             - rewrite (inv_empty _ I1 Ew) in Hr. discriminate.
             - cbn in Hr. injection Hr as -> Hr. eauto. }
           destruct (rget_spec _ 10 w1 I1 Ew1) as (I2 & A2 & R2).
           pose proof (line_rget _ 10 w1 I1 Ew1) as L2.
           split; [|split]; [| apply set_line_inv; exact I2 | intros _; exact R2].
           rewrite set_line_abs, A2. cbn [rest]. rewrite Er1, L2, L1. reflexivity.
        -- cbn [fst snd]. split; [|split]; [| apply set_line_inv; exact I1 | intros _; exact R1].
           rewrite set_line_abs, A1, L1. cbn [rest]. rewrite (is_ten d N10). reflexivity.
    + destruct (Z.eqb_spec c 10) as [E10|N10]; cbn [fst snd].
      * split; [|split]; [| apply set_line_inv; exact I1 | intros _; exact R1].
        rewrite set_line_abs, A1, L1. reflexivity.
      * split; [|split]; [| exact I1 | intros _; exact R1].
        rewrite A1. reflexivity.
Qed.
End Refine.
