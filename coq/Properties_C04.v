(* C04 - Readers are total and memory-safe on arbitrary input; consumer contract.
   What is logic is proved here for EVERY byte string; crashes / out-of-bounds / UB / leaks of the compiled C++ are exhibited
   only by the sanitizer runs of the correspondence check (see DESIGN.md: partial by nature).                                 *)
Require Import V.Lib.Base V.Lib.Calls V.Lib.Contract.
Require V.C09.Model V.C04.BufSafe V.C04.Model.
Require V.C10.Model V.C10.ProofsContract V.C10.ProofsFuel.
Require V.C01.Read V.C03.ProofsContract.
Require V.C07.Model V.C07.ProofsStream V.C07.ProofsContract.
Require V.C01.Write V.C01.Wf V.C02.Model V.C05.Model V.C05.Spec V.C06.Model V.C08.Model.
Require V.C04.Pipe V.C04.ProofsPipe V.C04.ProofsText V.C04.ProofsTrip.
Local Open Scope Z_scope.

(* Index safety and termination of the read buffer for arbitrary bytes (NUL, CR/LF mixes, ...), arbitrary operation
   lists and every buffer size: the read position and the visible window never leave the array (rpos + |win| <= N, the
   array has N+1 cells), the machine never steps over the sentinel and none of the loops of skipWs / match(int64_t&) /
   copy runs out of fuel (each iteration consumes input: the termination argument of the real loops). *)
Theorem c04_buffer_safe : forall (N : nat) (input : list Z) (ops : list V.C09.Model.op),
  let s := snd (V.C09.Model.run_ops N (V.C09.Model.init N input) ops) in
  (V.C09.Model.rpos s + length (V.C09.Model.win s) <= N)%nat /\ V.C09.Model.fault s = false.
Proof. exact V.C04.BufSafe.buffer_safe. Qed.
Print Assumptions c04_buffer_safe.

(* Ground-text reader: for EVERY byte string the delivered calls respect the consumer contract (initProgram first and once,
   directives only between beginStep and endStep, atoms in 1..2^31-1, literals non-zero with such an atom, rule-body weights
   >= 0, enumeration values valid, priorities 0..2^31-1) and an accepted input leaves no step open. The reader model is a
   total function: it returns a result for every input. *)
Theorem c04_text_contract : forall t,
  contract_ok (V.C10.ProofsContract.delivered (V.C10.Model.read_text t)) = true /\
  (V.C10.ProofsContract.accepted (V.C10.Model.read_text t) = true ->
   steps_closed (V.C10.ProofsContract.delivered (V.C10.Model.read_text t)) = true).
Proof. exact V.C10.ProofsContract.contract_all. Qed.
Print Assumptions c04_text_contract.

Theorem c04_text_no_fuel_exhaustion : forall t c, V.C10.Model.read_text t <> V.C10.Model.RErr (-1) c.
Proof. exact V.C10.ProofsFuel.no_fuel_exhaustion. Qed.
Print Assumptions c04_text_no_fuel_exhaustion.

(* aspif reader: the same for EVERY byte string (both read modes agree by c01_modes); an exhausted loop would be the only source
   of error line 0, and never happens; every reported line lies inside the text. *)
Theorem c04_aspif_contract : forall t,
  contract_ok (fst (V.C01.Read.read_all t)) = true /\
  (forall cs, V.C01.Read.read_all t = (cs, V.C01.Read.Ok) -> steps_closed cs = true) /\
  (forall cs, V.C01.Read.read_all t <> (cs, V.C01.Read.Err 0)).
Proof.
  intro t. split; [exact (V.C03.ProofsContract.reader_contract t)|].
  split; [exact (V.C03.ProofsContract.reader_steps_closed t) | exact (V.C03.ProofsContract.no_fuel_exhaustion t)].
Qed.
Print Assumptions c04_aspif_contract.

(* smodels reader (claspExt / filter arbitrary, cEdge = cHeuristic = false): the same for EVERY byte string and every option set.
   Protocol order and every range clause of the contract hold unconditionally, except that the priority handed to minimize() is
   the reader's counter of optimize statements (minPrio++), known to lie in 0 .. |t|: the full contract_ok therefore carries the
   hypothesis |t| < 2^31.  An accepted input leaves no step open; no loop of the model runs out of fuel (each iteration consumes
   input); every reported line lies inside the text. *)
Theorem c04_smodels_contract : forall (o : V.C07.Model.opts) (t : list Z),
  (protocol_ok 0 (fst (V.C07.Model.read_smodels o t)) = true /\
   forall c, In c (fst (V.C07.Model.read_smodels o t)) ->
     match c with
     | CMin p l => 0 <= p <= Z.of_nat (length t) /\ forallb (wlit_ok false) l = true
     | _ => call_ok c = true
     end) /\
  (Z.of_nat (length t) < 2 ^ 31 -> contract_ok (fst (V.C07.Model.read_smodels o t)) = true) /\
  (forall u, snd (V.C07.Model.read_smodels o t) = V.C07.Model.Ok u -> steps_closed (fst (V.C07.Model.read_smodels o t)) = true) /\
  snd (V.C07.Model.read_smodels o t) <> V.C07.Model.Fuel /\
  (forall ln, snd (V.C07.Model.read_smodels o t) = V.C07.Model.Err ln -> 1 <= ln <= 1 + V.C07.ProofsStream.nl t).
Proof.
  intros o t. split; [exact (V.C07.ProofsContract.delivered_calls o t)|].
  split; [exact (V.C07.ProofsContract.reader_contract o t)|].
  split; [exact (V.C07.ProofsContract.reader_steps_closed o t)|].
  split; [exact (V.C07.ProofsContract.no_fuel_exhaustion o t) | exact (V.C07.ProofsContract.line_bound o t)].
Qed.
Print Assumptions c04_smodels_contract.

(* the contract predicate is not vacuous: it rejects a directive outside a step and a zero literal *)
Example c04_contract_discriminates :
  contract_ok [CInit false; CBegin; CRule 0 [1] [2; -3]; CEnd] = true /\
  contract_ok [CInit false; CRule 0 [1] []] = false /\
  contract_ok [CInit false; CBegin; CRule 0 [1] [0]; CEnd] = false /\
  contract_ok [CInit false; CBegin; CWRule 0 [1] 1 [(2, -1)]; CEnd] = false.
Proof. vm_compute. repeat split; reflexivity. Qed.

(* ===================================== the lpconvert pipelines (V.C04.Pipe) =====================================
   lpconvert = reader o consumer, composed from the separately validated models: aspif reader (C01/C03), smodels reader (C07, with the
   special-predicate pass of C08 under -p), SmodelsConvert (C02) in front of SmodelsOutput (C05), AspifOutput (C01), AspifTextOutput (C06).
   The consumers run incrementally: the output of a failing run is what was written before the failure; a consumer that refuses a call
   ends the run with an error at the line where the reader delivered that call. *)

(* The aspif reader re-stated with the line of every delivery (needed for the error line of a refusing consumer) delivers exactly the calls
   of the reader model of C01/C03 with the same outcome - so every theorem about read_all (C01, C03, c04_aspif_contract) is about the
   pipelines' reader. *)
Theorem c04_aspif_lines_agree : forall t,
  map fst (fst (V.C04.Pipe.read_all_ln t)) = fst (V.C01.Read.read_all t) /\
  snd (V.C04.Pipe.read_all_ln t) = snd (V.C01.Read.read_all t).
Proof. intro t. split; [exact (V.C04.ProofsPipe.read_all_ln_calls t) | exact (V.C04.ProofsPipe.read_all_ln_outcome t)]. Qed.
Print Assumptions c04_aspif_lines_agree.

(* The smodels reader with the special-predicate options (cEdge / cHeuristic / filter: lpconvert -p [-f]) walks the input exactly like C07's
   reader - same outcome, same error line, for EVERY byte string - and IS C07's reader when neither conversion is enabled; so
   c04_smodels_contract's no-fuel and error-line clauses hold for every option set. *)
Theorem c04_smodels_options : forall (o : V.C07.Model.opts) (ro : V.C08.Model.ropts) (t : list Z),
  snd (V.C04.Pipe.read_smodels_x o ro t) = snd (V.C07.Model.read_smodels o t) /\
  (V.C08.Model.cE ro = false /\ V.C08.Model.cH ro = false -> V.C04.Pipe.read_smodels_x o ro t = V.C07.Model.read_smodels o t).
Proof. intros o ro t. split; [exact (V.C04.ProofsPipe.read_smodels_x_outcome o ro t) | exact (V.C04.ProofsPipe.read_smodels_x_plain o ro t)]. Qed.
Print Assumptions c04_smodels_options.

(* Totality: for EVERY byte string the composed pipeline returns "accepted" or "error at a line" together with the bytes written - never a
   fault or fuel outcome of one of the models - for the conversions to smodels and to aspif under every option set, and for the conversion
   of smodels input to ground text without -p.  (The reader loops never run out of fuel: c03_line / c07_no_fuel_exhaustion; the converter,
   SmodelsOutput and AspifOutput models are total functions without a fault outcome; C07's reader never delivers a theory atom, so the text
   writer's endStep has nothing to print, and its sum -> count bound stays in range by c06_count_bound_range.)  The aspif reader never reports
   the fuel marker line 0. *)
Theorem c04_pipeline_total : forall (t : list Z),
  (forall potassco, V.C04.ProofsPipe.no_fault (V.C04.Pipe.pipe_a2s potassco t)) /\
  (forall potassco filter, V.C04.ProofsPipe.no_fault (V.C04.Pipe.pipe_s2a potassco filter t)) /\
  (forall filter, V.C04.ProofsPipe.no_fault (V.C04.Pipe.pipe_s2t false filter t)) /\
  snd (V.C04.Pipe.read_all_ln t) <> V.C01.Read.Err 0.
Proof.
  intro t. split; [intro p; exact (V.C04.ProofsPipe.a2s_total p t)|].
  split; [intros p f; exact (V.C04.ProofsPipe.s2a_total p f t)|].
  split; [intro f; exact (V.C04.ProofsText.s2t_total f t) | exact (V.C04.ProofsPipe.aspif_reader_line t)].
Qed.
Print Assumptions c04_pipeline_total.

(* The remaining conversions to ground text.  PARTIAL: proved is that for aspif input the ONLY place where the text model can give up is
   inside an endStep - its theory-term printer running out of fuel, which by c06_fuel_sufficient cannot happen for acyclic terms; the
   repaired writer reports a cyclic theory term as an error, and the observation function treats the fault so - and that for smodels input
   no reader loop runs out of fuel under any option set.  NOT proved: (a) that the fault happens ONLY for cyclic terms is C06's statement
   in one direction (acyclic => no fault); (b) smodels input under -p: the calls of the reader with the special-predicate pass are
   characterised in outcome and line (c04_smodels_options), not in kind and range, so fault-freedom of the text writer is not derived. *)
Theorem c04_text_pipeline_total_partial : forall (t : list Z),
  V.C04.ProofsPipe.fault_at_end (V.C04.Pipe.pipe_a2t t) /\
  (forall potassco filter, V.C04.Pipe.pipe_s2t potassco filter t <> V.C04.Pipe.PFuel).
Proof.
  intro t. split; [exact (V.C04.ProofsPipe.a2t_total_partial t) | intros p f; exact (V.C04.ProofsPipe.s2t_no_fuel p f t)].
Qed.
Print Assumptions c04_text_pipeline_total_partial.

(* lpconvert (without -p) on the smodels text of an in-fragment program p (C05's fragment, extensions off, any false atom f) accepts, writes
   the aspif text of the normal form sm_norm f p, and the aspif reader (mode 0) reads that text back as sm_norm f p with weight-0 literals
   dropped (c05_roundtrip o c01_roundtrip).  The range hypothesis is the aspif writer's documented one (C01/Wf.v: counts <= 2^32-1, names
   <= 2^31-1 bytes, 32-bit integers), stated on the normal form: in_fragment alone bounds neither the length of a name nor the number of
   minimize statements (whose running index becomes the priority).  That the normal form is a well-framed one-step program IS derived. *)
Theorem c04_lpconvert_roundtrip_aspif : forall (filter : bool) (f : Z) (p : list call),
  V.C05.Spec.in_fragment false f p = true ->
  forallb V.C01.Wf.wf_call (V.C05.Spec.sm_norm f p) = true ->
  exists t a, V.C05.Spec.sm_write false f p = Some t /\ V.C04.Pipe.pipe_s2a false filter t = V.C04.Pipe.POk a /\
              V.C01.Read.read_all a = (V.C01.Wf.norm (V.C05.Spec.sm_norm f p), V.C01.Read.Ok).
Proof. exact V.C04.ProofsTrip.roundtrip_aspif. Qed.
Print Assumptions c04_lpconvert_roundtrip_aspif.

(* lpconvert on the aspif text of a program p within the documented ranges (c01_roundtrip's hypotheses): -t writes exactly what
   AspifTextOutput writes when handed norm p directly, and the smodels conversion what SmodelsConvert + SmodelsOutput write for norm p
   (same class of outcome, same bytes; `strip` forgets only the error line): rendering a read-back program = rendering the original. *)
Theorem c04_lpconvert_of_written_aspif : forall (p : list call), V.C01.Wf.wf_trace p -> forallb V.C01.Wf.wf_call p = true ->
  V.C04.ProofsPipe.strip (V.C04.Pipe.pipe_a2t (V.C01.Write.write_prog p)) =
    V.C04.ProofsPipe.strip (V.C04.Pipe.pipe V.C04.Pipe.step_text V.C06.Model.out V.C06.Model.init_st
                                            (V.C04.Pipe.at_line 0 (V.C01.Wf.norm p)) V.C04.Pipe.ROk) /\
  forall potassco,
  V.C04.ProofsPipe.strip (V.C04.Pipe.pipe_a2s potassco (V.C01.Write.write_prog p)) =
    V.C04.ProofsPipe.strip (V.C04.Pipe.pipe (V.C04.Pipe.step_conv potassco) V.C04.Pipe.c_out (V.C04.Pipe.conv0 potassco)
                                            (V.C04.Pipe.at_line 0 (V.C01.Wf.norm p)) V.C04.Pipe.ROk).
Proof.
  intros p Ht Hc. split; [exact (V.C04.ProofsTrip.text_of_written p Ht Hc) | intro e; exact (V.C04.ProofsTrip.smodels_of_written e p Ht Hc)].
Qed.
Print Assumptions c04_lpconvert_of_written_aspif.

(* non-vacuity: a program with a disjunction, a choice, an integrity constraint (false atom 6), a weight rule, a minimize statement with a
   negative weight, two symbols and a compute statement satisfies the hypotheses of c04_lpconvert_roundtrip_aspif; the pipelines on concrete
   texts: an accepted conversion, a reader error in the middle (the first rule is already written), a consumer refusing a directive
   (project is not expressible in smodels format: error at the line of that directive), a cyclic theory term under -t (error, nothing written),
   lpconvert refusing an unrecognised first byte. *)
Definition ex_p : list call :=
  [CInit false; CBegin; CRule 0 [1; 2] [3; -4]; CRule 1 [2; 3] []; CRule 0 [] [1]; CWRule 0 [4] 2 [(1, 1); (-2, 3)];
   CMin 5 [(1, -2); (3, 0)]; COutput [97] [1]; COutput [98; 40; 49; 41] [2]; CAssume [1; -4]; CEnd].
Example c04_roundtrip_hypotheses :
  V.C05.Spec.in_fragment false 6 ex_p = true /\ forallb V.C01.Wf.wf_call (V.C05.Spec.sm_norm 6 ex_p) = true.
Proof. split; vm_compute; reflexivity. Qed.
Example c04_pipeline_examples :
  (* "asp 1 0 0\n1 0 1 1 0 1 -2\n0\n" -> smodels *)
  V.C04.Pipe.pipe_a2s false [97;115;112;32;49;32;48;32;48;10;49;32;48;32;49;32;49;32;48;32;49;32;45;50;10;48;10] =
    V.C04.Pipe.POk [49;32;50;32;49;32;49;32;51;10;48;10;48;10;66;43;10;48;10;66;45;10;49;10;48;10;49;10] /\
  (* "asp 1 0 0\n1 0 1 1 0 0\n1 0 x" : the fact is written, then the reader fails on line 3 *)
  V.C04.Pipe.pipe_a2s false [97;115;112;32;49;32;48;32;48;10;49;32;48;32;49;32;49;32;48;32;48;10;49;32;48;32;120] =
    V.C04.Pipe.PErr 3 [49;32;50;32;48;32;48;10] /\
  (* "asp 1 0 0\n\n3 0\n0\n" : #project refused by the converter at line 3 *)
  V.C04.Pipe.pipe_a2s true [97;115;112;32;49;32;48;32;48;10;10;51;32;48;10;48;10] = V.C04.Pipe.PErr 3 [] /\
  (* "asp 1 0 0\n9 2 5 5 0\n9 5 0 5 0\n0\n" : term 5 = 5(), used by a theory atom *)
  V.C04.ProofsPipe.strip (V.C04.Pipe.pipe_a2t [97;115;112;32;49;32;48;32;48;10;57;32;50;32;53;32;53;32;48;10;57;32;53;32;48;32;53;32;48;10;48;10]) = (2, []) /\
  V.C04.Pipe.lpconvert 0 [32; 49] = None.
Proof. repeat split; vm_compute; reflexivity. Qed.
