(* C04 - Readers are total and memory-safe on arbitrary input; consumer contract.
   What is logic is proved here for EVERY byte string; crashes / out-of-bounds / UB / leaks of the compiled C++ are exhibited
   only by the sanitizer runs of the correspondence check (see DESIGN.md: partial by nature).                                 *)
Require Import V.Lib.Base V.Lib.Calls V.Lib.Contract.
Require V.C09.Model V.C04.BufSafe V.C04.Model.
Require V.C10.Model V.C10.ProofsContract V.C10.ProofsFuel.
Require V.C01.Read V.C03.ProofsContract.
Require V.C07.Model V.C07.ProofsStream V.C07.ProofsContract.
Local Open Scope Z_scope.

(* Index safety and termination of the read buffer for arbitrary bytes (NUL, CR/LF mixes, ...), arbitrary operation
   lists and every buffer size: the read position and the visible window never leave the array (rpos + |win| <= N, the
   array has N+1 cells), the machine never steps over the sentinel and none of the loops of skipWs / match(int64_t&) /
   copy runs out of fuel (each iteration consumes input: the termination argument of the real loops). *)
Theorem c04_buffer_safe : forall (N : nat) (input : list Z) (ops : list V.C09.Model.op),
  let s := snd (V.C09.Model.run_ops N (V.C09.Model.init N input) ops) in
  (V.C09.Model.rpos s + length (V.C09.Model.win s) <= N)%nat /\ V.C09.Model.fault s = false.
Proof. exact V.C04.BufSafe.buffer_safe. Qed.
Print Assumptions c04_buffer_safe.

(* Ground-text reader: for EVERY byte string the delivered calls respect the consumer contract (initProgram first and once,
   directives only between beginStep and endStep, atoms in 1..2^31-1, literals non-zero with such an atom, rule-body weights
   >= 0, enumeration values valid, priorities 0..2^31-1) and an accepted input leaves no step open. The reader model is a
   total function: it returns a result for every input. *)
Theorem c04_text_contract : forall t,
  contract_ok (V.C10.ProofsContract.delivered (V.C10.Model.read_text t)) = true /\
  (V.C10.ProofsContract.accepted (V.C10.Model.read_text t) = true ->
   steps_closed (V.C10.ProofsContract.delivered (V.C10.Model.read_text t)) = true).
Proof. exact V.C10.ProofsContract.contract_all. Qed.
Print Assumptions c04_text_contract.

Theorem c04_text_no_fuel_exhaustion : forall t c, V.C10.Model.read_text t <> V.C10.Model.RErr (-1) c.
Proof. exact V.C10.ProofsFuel.no_fuel_exhaustion. Qed.
Print Assumptions c04_text_no_fuel_exhaustion.

(* aspif reader: the same for EVERY byte string (both read modes agree by c01_modes); an exhausted loop would be the only source
   of error line 0, and never happens; every reported line lies inside the text. *)
Theorem c04_aspif_contract : forall t,
  contract_ok (fst (V.C01.Read.read_all t)) = true /\
  (forall cs, V.C01.Read.read_all t = (cs, V.C01.Read.Ok) -> steps_closed cs = true) /\
  (forall cs, V.C01.Read.read_all t <> (cs, V.C01.Read.Err 0)).
Proof.
  intro t. split; [exact (V.C03.ProofsContract.reader_contract t)|].
  split; [exact (V.C03.ProofsContract.reader_steps_closed t) | exact (V.C03.ProofsContract.no_fuel_exhaustion t)].
Qed.
Print Assumptions c04_aspif_contract.

(* smodels reader (claspExt / filter arbitrary, cEdge = cHeuristic = false): the same for EVERY byte string and every option set.
   Protocol order and every range clause of the contract hold unconditionally, except that the priority handed to minimize() is
   the reader's counter of optimize statements (minPrio++), known to lie in 0 .. |t|: the full contract_ok therefore carries the
   hypothesis |t| < 2^31.  An accepted input leaves no step open; no loop of the model runs out of fuel (each iteration consumes
   input); every reported line lies inside the text. *)
Theorem c04_smodels_contract : forall (o : V.C07.Model.opts) (t : list Z),
  (protocol_ok 0 (fst (V.C07.Model.read_smodels o t)) = true /\
   forall c, In c (fst (V.C07.Model.read_smodels o t)) ->
     match c with
     | CMin p l => 0 <= p <= Z.of_nat (length t) /\ forallb (wlit_ok false) l = true
     | _ => call_ok c = true
     end) /\
  (Z.of_nat (length t) < 2 ^ 31 -> contract_ok (fst (V.C07.Model.read_smodels o t)) = true) /\
  (forall u, snd (V.C07.Model.read_smodels o t) = V.C07.Model.Ok u -> steps_closed (fst (V.C07.Model.read_smodels o t)) = true) /\
  snd (V.C07.Model.read_smodels o t) <> V.C07.Model.Fuel /\
  (forall ln, snd (V.C07.Model.read_smodels o t) = V.C07.Model.Err ln -> 1 <= ln <= 1 + V.C07.ProofsStream.nl t).
Proof.
  intros o t. split; [exact (V.C07.ProofsContract.delivered_calls o t)|].
  split; [exact (V.C07.ProofsContract.reader_contract o t)|].
  split; [exact (V.C07.ProofsContract.reader_steps_closed o t)|].
  split; [exact (V.C07.ProofsContract.no_fuel_exhaustion o t) | exact (V.C07.ProofsContract.line_bound o t)].
Qed.
Print Assumptions c04_smodels_contract.

(* the contract predicate is not vacuous: it rejects a directive outside a step and a zero literal *)
Example c04_contract_discriminates :
  contract_ok [CInit false; CBegin; CRule 0 [1] [2; -3]; CEnd] = true /\
  contract_ok [CInit false; CRule 0 [1] []] = false /\
  contract_ok [CInit false; CBegin; CRule 0 [1] [0]; CEnd] = false /\
  contract_ok [CInit false; CBegin; CWRule 0 [1] 1 [(2, -1)]; CEnd] = false.
Proof. vm_compute. repeat split; reflexivity. Qed.
