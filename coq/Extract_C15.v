Require Import ExtrOcamlBasic.
Require Import V.C15.Model.
Extraction "model.ml" run_case.
