(* C13 - command-line, command-string and config-file parsing return the intended values.
   Model: V.C13.Model (parsers of src/program_options.cpp over the C14 lookup model); spec: V.C13.Spec.
   `spells c attrs allow pos afv items toks` enumerates every supported spelling of one chunk of intended items
   (option occurrences `Occ o v`, tokens to be left in the remaining arguments `Rem t`) with its side conditions:
     --n=v (v non-empty; flags only when flag values are allowed), --n v (required-argument options; v arbitrary),
     --n (flag / implicit), n = any key that C14's name-or-prefix lookup resolves to o (full name, unique prefix,
     alias name), --no-n (negatable, "no-n" itself names nothing), -xyz[a[v]] [v] (grouped flags, then at most one
     valued alias with adjacent, implicit or separate value), positional tokens through the handler, unknown tokens
     (only when unregistered options are allowed), and `--` followed by anything.                                  *)
Require Import V.Lib.Base V.Gen.Consts_C14 V.Gen.Consts_C13 V.C14.Model V.C14.Spec V.C14.Proofs4
               V.C13.Model V.C13.Spec V.C13.ProofsArgv V.C13.ProofsErr V.C13.ProofsString V.C13.ProofsCfg.
Local Open Scope Z_scope.

(* every mixture of supported spellings parses to exactly the intended pairs, in order, and leaves exactly the unknown
   tokens (and everything after "--") in order in the remaining arguments *)
Theorem c13_argv : forall c attrs allow pos afv itss tokss, Forall2 (spells c attrs allow pos afv) itss tokss ->
  parse_argv c attrs allow pos afv (concat tokss) = POk (occs (concat itss)) (rems (concat itss)) /\
  forall rest, parse_argv c attrs allow pos afv (concat tokss ++ DD :: rest) = POk (occs (concat itss)) (rems (concat itss) ++ rest).
Proof. exact argv_thm. Qed.
Print Assumptions c13_argv.

(* parseCommandLine rewrites argv to argv[0] followed by just those remaining arguments *)
Theorem c13_argv_rewrite : forall c attrs allow pos afv itss tokss a0, Forall2 (spells c attrs allow pos afv) itss tokss ->
  command_line c attrs allow pos afv (a0 :: concat tokss) =
    (POk (occs (concat itss)) (rems (concat itss)), a0 :: rems (concat itss)) /\
  forall rest, command_line c attrs allow pos afv (a0 :: concat tokss ++ DD :: rest) =
    (POk (occs (concat itss)) (rems (concat itss) ++ rest), a0 :: rems (concat itss) ++ rest).
Proof.
  intros c attrs allow pos afv itss tokss a0 H. destruct (argv_thm c attrs allow pos afv itss tokss H) as [H1 H2].
  unfold command_line. split; [rewrite H1; reflexivity|]. intros rest. rewrite (H2 rest). reflexivity.
Qed.
Print Assumptions c13_argv_rewrite.

(* what "resolves" means, through C14: in a reachable context over the C14 domain a key resolves to o exactly when o is
   the single matching option (exact name first, otherwise unique prefix; alias names count) *)
Theorem c13_resolves : forall c al allow n o, built c al -> domain c al -> key_ok find_name_or_prefix n ->
  (resolves c allow n o <-> matches c al find_name_or_prefix n = [o]).
Proof.
  intros c al allow n o Hb Hd Hk. unfold resolves.
  destruct (getoption_thm c al find_name_or_prefix n Hb Hd Hk allow) as (H0 & H1 & H2).
  split.
  - intros Hf. destruct (matches c al find_name_or_prefix n) as [|i [|j l]] eqn:EM.
    + rewrite (H0 eq_refl) in Hf. destruct allow; discriminate.
    + rewrite (H1 i eq_refl) in Hf. congruence.
    + destruct H2 as (S & HS & _); [simpl; lia|]. rewrite HS in Hf. discriminate.
  - intros HM. apply H1. exact HM.
Qed.
Print Assumptions c13_resolves.

(* command strings: for ALL tokens (blanks, quotes, backslashes, empty) tokenising the rendered string gives the tokens
   back, whatever mixture of bare / single-quoted / double-quoted rendering is used; hence the same parse result *)
Theorem c13_string : forall sts, Forall (fun st => style_ok (fst st) (snd st)) sts ->
  tokenize (quote_join sts) = map snd sts.
Proof. exact string_thm. Qed.
Print Assumptions c13_string.

Theorem c13_string_parse : forall c attrs allow pos afv sts, Forall (fun st => style_ok (fst st) (snd st)) sts ->
  parse_string c attrs allow pos afv (quote_join sts) = parse_argv c attrs allow pos afv (map snd sts).
Proof. intros. unfold parse_string. rewrite string_thm by assumption. reflexivity. Qed.
Print Assumptions c13_string_parse.

(* config files: sections "key = value" (any blanks around key, '=' and value), continuation lines, blank lines and
   comment lines yield exactly the pairs (key resolved by name-or-prefix, value = first part and continuation parts
   joined by one blank); the last line may lack its newline *)
Theorem c13_cfg : forall c allow ls ps, cfg_file c allow ls ps -> Forall no_nl ls ->
  parse_cfg c allow (cfg_text ls) = POk ps [] /\
  (forall ls' l, ls = ls' ++ [l] -> l <> [] -> parse_cfg c allow (cfg_text ls' ++ l) = POk ps []).
Proof. exact cfg_thm. Qed.
Print Assumptions c13_cfg.

(* errors: after any valid prefix, a value for a flag, an ambiguous abbreviation, an unknown option / positional token
   (unregistered options not allowed) raise the documented error, and a last option that still needs its value raises
   missing-value; no partial result is returned (the result is PErr) *)
Theorem c13_errors : forall c attrs allow pos afv itss tokss, Forall2 (spells c attrs allow pos afv) itss tokss ->
  (forall e t rest, bad_token c attrs allow pos afv e t -> parse_argv c attrs allow pos afv (concat tokss ++ t :: rest) = PErr e) /\
  (forall t, needs_value c attrs allow t -> parse_argv c attrs allow pos afv (concat tokss ++ [t]) = PErr EMissing).
Proof. exact errors_thm. Qed.
Print Assumptions c13_errors.

(* ---- non-vacuity ---- *)
Definition S_alpha := [97;108;112;104;97].  Definition S_beta := [98;101;116;97].  Definition S_flag := [102;108;97;103].
Definition S_level := [108;101;118;101;108]. Definition S_file := [102;105;108;101].
Definition ex_opts := [mkOpt S_alpha 97; mkOpt S_beta 98; mkOpt S_flag 102; mkOpt S_level 108; mkOpt S_file 0].
(* alpha, beta, file: required; flag: negatable flag; level: implicit *)
Definition ex_attrs := [mkAttr false false false; mkAttr false false false; mkAttr false true true; mkAttr true false false; mkAttr false false false].
Definition ex_ctx := fst (add_group [] ex_opts empty_ctx).
Definition ex_pos : option (token -> option (list Z)) := Some (fun _ => Some S_file).

(* --al=3  --beta -x  --no-flag  -ffl2  -a 1  in.lp  --zeta  --  --alpha=9 *)
Definition ex_items : list (list item) :=
  [[Occ 0 [51]]; [Occ 1 [45;120]]; [Occ 2 NO_VALUE]; [Occ 2 []; Occ 2 []; Occ 3 [50]]; [Occ 0 [49]]; [Occ 4 [105;110;46;108;112]]; [Rem (DD ++ [122;101;116;97])]].
Definition ex_toks : list (list token) :=
  [[DD ++ [97;108] ++ EQ :: [51]]; [DD ++ S_beta; [45;120]]; [DD ++ NO_PREFIX ++ S_flag];
   (DASH :: map fst [(102, 2%nat); (102, 2%nat)] ++ stail_chars (st_adj 108 3 [50])) :: stail_more (st_adj 108 3 [50]);
   (DASH :: map fst (@nil (Z * nat)) ++ stail_chars (st_sep 97 0 [49])) :: stail_more (st_sep 97 0 [49]);
   [[105;110;46;108;112]]; [DD ++ [122;101;116;97]]].

Example ex_spells : Forall2 (spells ex_ctx ex_attrs true ex_pos false) ex_items ex_toks.
Proof.
  unfold ex_items, ex_toks.
  constructor; [apply sp_long_eq; [reflexivity|discriminate|vm_compute; reflexivity|discriminate]|].
  constructor; [apply sp_long_sep; [reflexivity|discriminate|vm_compute; reflexivity|reflexivity]|].
  constructor; [apply sp_long_no; [reflexivity|vm_compute; reflexivity|reflexivity|right; vm_compute; reflexivity]|].
  constructor; [apply (sp_short ex_ctx ex_attrs true ex_pos false [(102, 2%nat); (102, 2%nat)] (st_adj 108 3 [50]));
                [repeat constructor; vm_compute; reflexivity|split; [vm_compute; reflexivity|split; [reflexivity|discriminate]]|discriminate|discriminate]|].
  constructor; [apply (sp_short ex_ctx ex_attrs true ex_pos false [] (st_sep 97 0 [49]));
                [constructor|split; [vm_compute; reflexivity|reflexivity]|discriminate|discriminate]|].
  constructor; [apply sp_pos; [reflexivity|vm_compute; reflexivity]|].
  constructor; [apply sp_unknown_long; [reflexivity|discriminate|vm_compute; reflexivity|discriminate]|].
  constructor.
Qed.
Example ex_parse : command_line ex_ctx ex_attrs true ex_pos false ([112] :: concat ex_toks ++ DD :: [DD ++ S_alpha ++ [EQ; 57]]) =
  (POk [(0%nat, [51]); (1%nat, [45;120]); (2%nat, NO_VALUE); (2%nat, []); (2%nat, []); (3%nat, [50]); (0%nat, [49]); (4%nat, [105;110;46;108;112])]
       [DD ++ [122;101;116;97]; DD ++ S_alpha ++ [EQ; 57]],
   [[112]; DD ++ [122;101;116;97]; DD ++ S_alpha ++ [EQ; 57]]).
Proof. vm_compute. reflexivity. Qed.
(* quoting: a token with blanks, quotes and a backslash, an empty token, a bare token *)
Example ex_styles : Forall (fun st => style_ok (fst st) (snd st))
  [(QQuote QUOTE2, [97;32;34;39;92;98]); (QQuote QUOTE1, []); (QBare, [45;45;120;61;39])].
Proof. repeat constructor; try discriminate. Qed.
Example ex_tokenize : tokenize (quote_join [(QQuote QUOTE2, [97;32;34;39;92;98]); (QQuote QUOTE1, []); (QBare, [45;45;120;61;39])])
  = [[97;32;34;39;92;98]; []; [45;45;120;61;39]].
Proof. vm_compute. reflexivity. Qed.
(* config file:  "# c" / " alpha = 1 2 " + "  3" / "" / "le=" *)
Example ex_cfg : cfg_file ex_ctx false
  [[35;32;99]; [32] ++ S_alpha ++ [32] ++ CFG_SEP :: [32] ++ [49;32;50] ++ [32]; [32;32] ++ [51] ++ []; []; [] ++ [108;101] ++ [] ++ CFG_SEP :: [] ++ [] ++ []]
  [(0%nat, [49;32;50;32;51]); (3%nat, [])].
Proof.
  apply cf_noise; [apply (noise_comment [] [32;99]); constructor|].
  apply (cf_sec ex_ctx false S_alpha [49;32;50] [[51]] _ [[32;32] ++ [51] ++ []] 0%nat).
  - repeat split; try discriminate; reflexivity.
  - right. repeat split; try discriminate; reflexivity.
  - apply sec_line_intro; repeat constructor.
  - constructor; [|constructor]. split; [repeat split; try discriminate; reflexivity|apply cont_line_intro; repeat constructor].
  - vm_compute. reflexivity.
  - apply cf_noise; [apply (noise_blank []); constructor|].
    apply (cf_sec ex_ctx false [108;101] [] [] _ [] 3%nat _ []).
    + repeat split; try discriminate; reflexivity.
    + left. reflexivity.
    + apply sec_line_intro; constructor.
    + constructor.
    + vm_compute. reflexivity.
    + constructor.
Qed.
(* errors *)
Example ex_bad : bad_token ex_ctx ex_attrs false ex_pos false EExtra (DD ++ S_flag ++ EQ :: [49]) /\
  needs_value ex_ctx ex_attrs false (DD ++ S_beta) /\ bad_token ex_ctx ex_attrs false None false EUnknown (DD ++ [122]).
Proof.
  split; [apply (bt_extra ex_ctx ex_attrs false ex_pos false S_flag [49] 2%nat); [reflexivity|discriminate|vm_compute; reflexivity|reflexivity|reflexivity]|].
  split; [apply (nv_long ex_ctx ex_attrs false S_beta 1%nat); [reflexivity|discriminate|vm_compute; reflexivity|reflexivity]|].
  apply bt_unknown_long; [reflexivity|discriminate|vm_compute; reflexivity|discriminate].
Qed.

(* Contexts that were put together with REFUSED adds in between (seeded change C13-r6): the case format carries those adds in a
   trailer behind the payload and the generator's intent; run_case never looks behind the payload, i.e. for the model a refused
   option is simply not an option of the context and its long name is an ordinary unknown name.  Non-vacuity on the demonstration
   scenario  options[help,-h; number,-n; output,-o], add of `verbose,-h` refused after two options, allowUnreg,
   argv = --number=4 --verbose=3 -o x.lp :  pairs (number,4) (output,x.lp), remaining arguments --verbose=3 - with and without the trailer. *)
Definition ex_refused_case : list Z :=
  [3; 4;104;101;108;112; 104;0;0; 6;110;117;109;98;101;114; 110;2;0; 6;111;117;116;112;117;116; 111;2;1; 0; 1;0;0;0; 0;
   4; 10;45;45;110;117;109;98;101;114;61;52; 11;45;45;118;101;114;98;111;115;101;61;51; 2;45;111; 4;120;46;108;112;
   1;0;2; 1;1;52; 2;4;120;46;108;112; 1; 11;45;45;118;101;114;98;111;115;101;61;51].
Definition ex_refused_trailer : list Z := [1; 2;1; 7;118;101;114;98;111;115;101; 104;0;0].
Example ex_refused_names_are_unknown :
  run_case (ex_refused_case ++ ex_refused_trailer) = run_case ex_refused_case /\
  run_case ex_refused_case = [0; 2; 1; 1;52; 2; 4;120;46;108;112; 1; 11;45;45;118;101;114;98;111;115;101;61;51].
Proof. split; vm_compute; reflexivity. Qed.
