(* C18 - Signals: delivered at once when unblocked, deferred exactly once while blocked.
   Model: V.C18.Model (small-step, one atomic step of application.cpp per transition; [step true] = the code as it is).
   All theorems quantify over every well nested main flow o (bal 0 o), every answer list a and every schedule
   (reach o a s: any list of decisions "step / signal d arrives", see Proofs.v).
   Section 6 (OS-level entry point): V.C18.Disp layers the dispositions signal() manipulates (Application::sigHandler's
   ScopedSig, the installation loop of Application::main) around that model; its theorems quantify over every set of
   numbers the environment had ignored (pre), every sequence of runs of main() with well nested flows, every answer list
   and every schedule of OS-level arrivals and steps (oreach pre s, see ProofsDisp.v).                                  *)
Require Import V.Lib.Base V.C18.Model V.C18.Proofs V.C18.ProofsTok V.C18.ProofsThm V.C18.ProofsRun.
Require Import V.C18.Disp V.C18.ProofsDisp V.C18.ProofsDispThm V.C18.ProofsShut V.C18.ProofsRunCb.
Require V.Gen.Consts_C18.
Local Open Scope Z_scope.

(* ---- 0. the model is written for the code as the translator (tools/consts/C18.py) finds it in src/application.cpp ---- *)
Example c18_code_shape :
  Consts_C18.take_atomic = true /\ Consts_C18.deliver_at = 0 /\ Consts_C18.release_at = 1 /\
  Consts_C18.yields_process = [1; 2; 4; 5; 6] /\ Consts_C18.yields_unblock = [9].
Proof. repeat split; reflexivity. Qed.

Theorem c18_model_uses_code_constants : forall at_ s,
  (forall f rest, stack s = f :: rest -> h_pc f = HInc ->
     (exists f', stack (step at_ 0 s) = f' :: rest /\ h_r f' = blocked s /\
                 (h_pc f' = HCbEnter <-> blocked s = Consts_C18.deliver_at) /\ (h_pc f' = HCbEnter \/ h_pc f' = HTest))) /\
  (forall dl o, stack s = [] -> mpc_ s = MOp -> ops s = Unblock dl :: o ->
     (mpc_ (step at_ 0 s) = MTake dl <-> blocked s = Consts_C18.release_at) /\
     (mpc_ (step at_ 0 s) = MTake dl \/ mpc_ (step at_ 0 s) = MOp)).
Proof.
  intros at_ s. split.
  - intros f rest Hs Hpc. unfold step. simpl. rewrite Hs. unfold hstep. rewrite Hpc. eexists. split; [reflexivity|].
    simpl. unfold Consts_C18.deliver_at. destruct (Z.eqb_spec (blocked s) 0); repeat split; auto; try congruence; intro; discriminate.
  - intros dl o Hs Hm Ho. unfold step. simpl. rewrite Hs. unfold mstep. rewrite Hm, Ho. simpl.
    unfold Consts_C18.release_at. destruct (Z.eqb_spec (blocked s) 1); repeat split; auto; try congruence; intro; discriminate.
Qed.
Print Assumptions c18_model_uses_code_constants.

(* ---- 1. never a callback while blocked or while another callback is active ---- *)
(* [reach] now contains the histories in which a running callback calls blockSignals() itself (Proofs.reach_cbb /
   Model.cb_block), any number of times, in any callback; [depth s] = the blocks the application holds (taken by the
   main flow or by a callback, not yet released).
   Whenever an activation f is about to enter / is inside the callback (anywhere in the stack of nested handlers):
   no callback has answered stop, every activation below f has not even incremented yet, no other activation is in the
   callback, and blocked_ = 1 + the blocks held + the (remembering) activations above f; when f is ABOUT TO ENTER the
   callback the application holds no block at all (so inside the callback every block held is one this very callback
   took: depth only changes by the main flow, which does not run, or by cb_block of the running callback). *)
Theorem c18_never_while_blocked : forall o a s pre f post,
  bal 0 o = true -> reach o a s -> stack s = pre ++ f :: post -> in_cb f = true ->
  (h_pc f = HCbEnter -> depth s = 0) /\ stops s = 0 /\ blocked s = 1 + depth s + nactive pre /\
  Forall (fun g => in_cb g = false) (pre ++ post) /\ Forall (fun g => h_pc g = HInc) post.
Proof. exact never_while_blocked. Qed.
Print Assumptions c18_never_while_blocked.

Theorem c18_callback_entry_unblocked : forall o a s f rest,
  bal 0 o = true -> reach o a s -> stack s = f :: rest -> h_pc f = HCbEnter ->
  depth s = 0 /\ stops s = 0 /\ blocked s = 1 /\ h_r f = 0 /\ Forall (fun g => h_pc g = HInc) rest.
Proof. exact callback_entry_unblocked. Qed.
Print Assumptions c18_callback_entry_unblocked.

(* while the application holds a block - its own or one that a callback took and left to the main flow - no activation
   is about to enter the callback *)
Theorem c18_no_entry_while_holding : forall o a s,
  bal 0 o = true -> reach o a s -> 1 <= depth s -> Forall (fun f => h_pc f <> HCbEnter) (stack s).
Proof. exact no_entry_while_holding. Qed.
Print Assumptions c18_no_entry_while_holding.

(* ---- 1b. callbacks that take blocks themselves ---- *)
(* An arrival is about to enter the callback (so: entry value of blocked_ = h_r f = 0, no block held).  The callback is
   entered, calls blockSignals() k times (k arbitrary), answers continue and returns; the activation executes its own
   decrement.  Then: blocked_ = entry value + k, the application holds exactly k blocks, the activation is gone, the
   slot / main flow / stop count are untouched, the state is reachable (so every theorem of this file applies from
   there) - and for k >= 1 no activation is about to enter the callback; by c18_no_entry_while_holding this stays so in
   EVERY state reachable later in which the blocks have not all been released (depth >= 1). *)
Theorem c18_callback_taken_blocks : forall o a s f rest k,
  bal 0 o = true -> reach o a s -> stack s = f :: rest -> h_pc f = HCbEnter -> answer s = true ->
  let s1 := Nat.iter k cb_block (step true 0 s) in
  let s3 := step true 0 (step true 0 s1) in
  reach o a s3 /\ h_r f = 0 /\ depth s = 0 /\
  blocked s1 = 1 + Z.of_nat k /\
  blocked s3 = h_r f + Z.of_nat k /\ depth s3 = Z.of_nat k /\ cbt s3 = cbt s + Z.of_nat k /\ stack s3 = rest /\
  stops s3 = stops s /\ pending s3 = pending s /\ ops s3 = ops s /\ mpc_ s3 = mpc_ s /\
  (1 <= Z.of_nat k -> Forall (fun g => h_pc g <> HCbEnter) (stack s3)).
Proof. exact callback_taken_blocks. Qed.
Print Assumptions c18_callback_taken_blocks.

(* non-vacuity: signal 1 arrives and finds blocked_ = 0; its callback takes 2 blocks and continues: afterwards blocked_ = 2
   = blocks held.  The main flow now decides to release them (reach_ops: [Unblock true; Unblock true] is well nested from
   depth 2).  Signal 2 arrives: remembered, not delivered; the first Unblock(true) brings blocked_ to 1: still no
   delivery; the second (outermost) one hands signal 2 to the callback. *)
Example ex_callback_taken_blocks :
  let s := exec [1; 0] (init [] []) in
  let s3 := step true 0 (step true 0 (Nat.iter 2 cb_block (step true 0 s))) in
  let t0 := set_ops s3 [Unblock true; Unblock true] in
  let t := exec [2; 0; 0; 0; 0; 0] t0 in
  let u := exec [0; 0; 0; 0; 0; 0] t in
  (reach [] [] s /\ bal 0 [] = true /\ stack s = [mkH 1 0 false HCbEnter 0] /\ answer s = true) /\
  (blocked s3 = 2 /\ depth s3 = 2 /\ cbt s3 = 2 /\ stack s3 = []) /\
  reach [] [] u /\
  (pending t = 2 /\ blocked t = 1 /\ depth t = 1 /\ fates t = [(O, FDelivered 1)] /\ mpc_ t = MOp) /\
  (blocked u = 0 /\ depth u = 0 /\ fates u = [(1%nat, FDelivered 2); (O, FDelivered 1)]).
Proof.
  cbv zeta. split; [split; [apply reach_exec; constructor|vm_compute; repeat split; reflexivity]|].
  split; [vm_compute; repeat split; reflexivity|].
  split.
  - apply reach_exec. apply reach_exec. apply reach_ops; [|vm_compute; reflexivity..].
    apply reach_step. apply reach_step. apply (reach_iter_cbb [] [] 2). apply reach_step. apply reach_exec. constructor.
  - vm_compute; repeat split; reflexivity.
Qed.

(* the same at the OS level, as the harness prints it (case -1 0 0 1 4 1: first main(), empty flow, one callback with answer code 4,
   decision: signal 1 arrives): inside the callback "3 2 0" (blocked_ = 2: the callback has called blockSignals()), after the
   activation's own decrement "6 2 0" -> the run ends with blocked_ = 1 = the block the callback took *)
Example c18_os_cb_block_smoke :
  Disp.run_case [-1; 0; 0; 1; 4; 1] =
    [0; 0; 0; 40; 1; 1; 1; 0; 1; 30; 1;   1; 0; 0; 40; 2; 1; 1; 0; 1;   2; 1; 0; 40; 2; 1; 1; 0; 1; 20; 1;
     3; 2; 0; 40; 2; 1; 1; 0; 1; 21; 1;   6; 2; 0; 40; 2; 1; 1; 0; 1;   0; 1; 0; 40; 1; 1; 1; 0; 1;   41; 1; 1; 1; 0; 1;   42; 0].
Proof. vm_compute. reflexivity. Qed.

(* ---- 2. an arrival that finds blocked_ = 0 is delivered within its own activation ---- *)
Theorem c18_immediate : forall at_ s f rest,
  stack s = f :: rest ->
  (h_pc f = HInc -> blocked s = 0 ->
     stack (step at_ 0 s) = mkH (h_sig f) (h_id f) (h_def f) HCbEnter 0 :: rest /\ blocked (step at_ 0 s) = 1) /\
  (h_pc f = HCbEnter ->
     fates (step at_ 0 s) = (h_id f, FDelivered (h_sig f)) :: fates s /\
     emit 0 s = [2; blocked s; pending s; 20; h_sig f] /\ stack (step at_ 0 s) = set_pc f HCbExit :: rest) /\
  (forall d, exists top, stack (step at_ d s) = top ++ rest /\ (length top <= 2)%nat).
Proof.
  intros at_ s f rest Hs. split; [|split].
  - intros H1 H2. exact (immediate_branch at_ s f rest Hs H1 H2).
  - intros H1. exact (enter_delivers at_ s f rest Hs H1).
  - intro d. exact (below_stable at_ d s f rest Hs).
Qed.
Print Assumptions c18_immediate.

Theorem c18_immediate_never_diverted : forall o a s f,
  bal 0 o = true -> reach o a s -> In f (stack s) -> h_pc f <> HInc -> h_r f = 0 ->
  h_pc f = HCbEnter \/ In (h_id f, FDelivered (h_sig f)) (fates s).
Proof. exact found_unblocked_is_delivered. Qed.
Print Assumptions c18_immediate_never_diverted.

(* ---- 3. one slot: at most one signal is remembered ---- *)
Theorem c18_one_remembered : forall at_ s f rest,
  stack s = f :: rest -> h_pc f = HTest ->
  (pending s <> 0 ->
     pending (step at_ 0 s) = pending s /\ pend_id (step at_ 0 s) = pend_id s /\
     fates (step at_ 0 s) = (h_id f, if h_def f then FStopLost else FDiscarded) :: fates s) /\
  (pending s = 0 ->
     let s2 := step at_ 0 (step at_ 0 s) in
     pending s2 = h_sig f /\ pend_id s2 = h_id f /\ fates s2 = fates s /\ stack s2 = set_pc f HDec :: rest).
Proof.
  intros at_ s f rest Hs Hpc. split; intro Hp.
  - exact (occupied_discards at_ s f rest Hs Hpc Hp).
  - exact (empty_remembers at_ s f rest Hs Hpc Hp).
Qed.
Print Assumptions c18_one_remembered.

Theorem c18_slot_changes_only : forall at_ d s,
  pending (step at_ d s) <> pending s \/ pend_id (step at_ d s) <> pend_id s ->
  d = 0 /\ ((exists f rest, stack s = f :: rest /\ h_pc f = HWrite) \/
            (stack s = [] /\ exists dl, mpc_ s = MTake dl \/ exists p pid, mpc_ s = MClear dl p pid)).
Proof. exact slot_changes_only. Qed.
Print Assumptions c18_slot_changes_only.

Theorem c18_slot_token_fresh : forall o a s,
  bal 0 o = true -> reach o a s -> pending s <> 0 ->
  (pend_id s < length (arrs s))%nat /\ nth_error (arrs s) (pend_id s) = Some (pending s) /\
  ~ In (pend_id s) (map fst (fates s)) /\ cnt_stack (pend_id s) (stack s) = 0.
Proof. exact slot_token_fresh. Qed.
Print Assumptions c18_slot_token_fresh.

(* ---- 4. exactly once: never lost, never twice ---- *)
(* Every arrival i is, in every reachable state, in exactly one place: an activation that still has to decide
   (own or deferred), the pending slot, or exactly one entry of the fate list. *)
Theorem c18_exactly_once : forall o a s,
  bal 0 o = true -> reach o a s ->
  (forall i, cnt_stack i (stack s) + cnt_slot i s + cnt_fates i (fates s) = (if (i <? length (arrs s))%nat then 1 else 0)) /\
  NoDup (map fst (fates s)) /\
  (forall i, ~ In (i, FLost) (fates s)) /\
  (forall i, In (i, FStopLost) (fates s) -> 0 < stops s + cbt s) /\   (* cbt = blocks callbacks took so far (never decreases) *)
  (forall i x, In (i, FDelivered x) (fates s) -> nth_error (arrs s) i = Some x).
Proof.
  intros o a s Hb Hr. split; [|split; [|split; [|split]]].
  - intro i. exact (one_place o a s i Hb Hr).
  - exact (never_twice o a s Hb Hr).
  - intro i. exact (proj1 (never_lost o a s i Hb Hr)).
  - intro i. exact (proj2 (never_lost o a s i Hb Hr)).
  - intros i x. exact (delivered_number o a s i x Hb Hr).
Qed.
Print Assumptions c18_exactly_once.

(* the remembered signal leaves the slot at the take of the next outermost release: to the nested processSignal if
   delivery is requested, dropped otherwise; the take follows a decrement 1 -> 0 of a main flow that holds no block *)
Theorem c18_release_hands_over : forall o a s dl,
  bal 0 o = true -> reach o a s -> stack s = [] -> mpc_ s = MTake dl ->
  0 <= depth s <= cbt s /\     (* no block held - except blocks a callback took between the decrement and the take *)
  (pending s <> 0 ->
     let s' := step true 0 s in
     pending s' = 0 /\ mpc_ s' = MOp /\
     (if dl then stack s' = [mkH (pending s) (pend_id s) true HInc 0] /\ fates s' = fates s
      else stack s' = [] /\ fates s' = (pend_id s, FDropped) :: fates s)).
Proof.
  intros o a s dl Hb Hr Hs Hm. split.
  - exact (take_is_outermost o a s dl Hb Hr Hm).
  - intro Hp. exact (take_hands_over s dl Hs Hm Hp).
Qed.
Print Assumptions c18_release_hands_over.

Theorem c18_take_after_release : forall at_ s dl,
  stack s = [] -> mpc_ s = MOp -> mpc_ (step at_ 0 s) = MTake dl ->
  blocked s = 1 /\ blocked (step at_ 0 s) = 0 /\ exists o', ops s = Unblock dl :: o'.
Proof. exact take_after_release. Qed.
Print Assumptions c18_take_after_release.

Theorem c18_deferred_runs : forall o a s f rest,
  bal 0 o = true -> reach o a s -> stack s = f :: rest -> h_def f = true -> h_pc f = HInc ->
  rest = [] /\ blocked s = depth s + stops s /\ 0 <= depth s <= cbt s /\ (stops s = 0 -> cbt s = 0 -> blocked s = 0).
Proof. exact deferred_runs. Qed.
Print Assumptions c18_deferred_runs.

(* ---- 5. the nesting count is restored ---- *)
(* [extra (depth s) f] = the blocks the callback of f took: 0 unless f's increment returned 0 (only then the callback ran),
   and then every block the application holds (the entry depth was 0: c18_callback_entry_unblocked, c18_callback_taken_blocks) *)
Theorem c18_nesting_restored : forall o a s f rest,
  bal 0 o = true -> reach o a s -> stack s = f :: rest -> h_pc f = HDec ->
  blocked (step true 0 s) = h_r f + extra (depth s) f /\ stack (step true 0 s) = rest /\
  (h_r f <> 0 -> blocked (step true 0 s) = h_r f) /\ (depth s = 0 -> blocked (step true 0 s) = h_r f).
Proof. exact nesting_restored. Qed.
Print Assumptions c18_nesting_restored.

Theorem c18_nesting_general : forall o a s pre f post,
  bal 0 o = true -> reach o a s -> stack s = pre ++ f :: post -> h_pc f <> HInc ->
  blocked s = h_r f + 1 + extra (depth s) f + nactive pre.
Proof. exact nesting_general. Qed.
Print Assumptions c18_nesting_general.

Theorem c18_callback_continue_restores : forall o a s f rest,
  bal 0 o = true -> reach o a s -> stack s = f :: rest -> h_pc f = HCbExit -> answer s = true ->
  let s2 := step true 0 (step true 0 s) in
  blocked s2 = depth s /\ depth s2 = depth s /\ stack s2 = rest /\ stops s2 = stops s /\ (depth s = 0 -> blocked s2 = 0).
Proof. exact callback_continue_restores. Qed.
Print Assumptions c18_callback_continue_restores.

(* ---- the trace producer used by the correspondence check stays inside [reach] and never runs out of fuel ---- *)
Theorem c18_run_reachable : forall o a n ds s, reach o a s -> reach o a (snd (run true n ds s)).
Proof. exact run_reach. Qed.
Print Assumptions c18_run_reachable.

Theorem c18_fuel_sufficient : forall at_ n ds s,
  (measure s + 6 * length ds < n)%nat -> run at_ (S n) ds s = run at_ n ds s.
Proof. exact fuel_sufficient. Qed.
Print Assumptions c18_fuel_sufficient.

(* ---- the code before the repair (read pending_, then clear it) loses a remembered signal ---- *)
Definition lost_case : list Z := [2; 1; 3; 0; 0; 0; 0; 1; 0; 0; 2].
Theorem c18_lost_refuted_before_repair :
  exists c, In (1%nat, FLost) (fates (snd (run_with false c))) /\
            ~ In (1%nat, FLost) (fates (snd (run_with true c))) /\ pending (snd (run_with true c)) = 2.
Proof.
  exists lost_case. split; [vm_compute; left; reflexivity|split; [|vm_compute; reflexivity]].
  vm_compute. intuition discriminate.
Qed.
Print Assumptions c18_lost_refuted_before_repair.

(* ---- non-vacuity: concrete reachable states that satisfy the hypotheses ---- *)
(* signal 1 is in its callback, signal 2 arrived during it and has incremented: pre = [2's activation] *)
Example ex_in_callback :
  let s := exec [1; 0; 0; 2; 0] (init [] []) in
  reach [] [] s /\ bal 0 [] = true /\
  stack s = [mkH 2 1 false HTest 1] ++ mkH 1 0 false HCbExit 0 :: [] /\ in_cb (mkH 1 0 false HCbExit 0) = true /\
  blocked s = 2 /\ answer s = true.
Proof. split; [apply reach_exec; constructor|vm_compute; repeat split; reflexivity]. Qed.

Example ex_callback_entry :
  let s := exec [1; 0] (init [Block; Unblock true] [true]) in
  reach [Block; Unblock true] [true] s /\ bal 0 [Block; Unblock true] = true /\
  stack s = [mkH 1 0 false HCbEnter 0] /\ blocked s = 1.
Proof. split; [apply reach_exec; constructor|vm_compute; repeat split; reflexivity]. Qed.

(* Block; signal 1 arrives and is remembered; Unblock(true) decrements: the take is next, the slot is occupied *)
Example ex_take :
  let s := exec [0; 1; 0; 0; 0; 0; 0] (init [Block; Unblock true] []) in
  reach [Block; Unblock true] [] s /\ stack s = [] /\ mpc_ s = MTake true /\ pending s = 1 /\ pend_id s = O /\
  stack (step true 0 s) = [mkH 1 0 true HInc 0] /\
  fates (exec [0; 0; 0; 0; 0] s) = [(O, FDelivered 1)] /\ blocked (exec [0; 0; 0; 0; 0] s) = 0.
Proof. split; [apply reach_exec; constructor|vm_compute; repeat split; reflexivity]. Qed.

(* an activation in the remember branch with the slot occupied / empty; one about to decrement *)
Example ex_test_occupied :
  let s := exec [0; 1; 0; 0; 0; 0; 2; 0] (init [Block] []) in
  reach [Block] [] s /\ stack s = [mkH 2 1 false HTest 1] /\ pending s = 1 /\
  fates (step true 0 s) = [(1%nat, FDiscarded)].
Proof. split; [apply reach_exec; constructor|vm_compute; repeat split; reflexivity]. Qed.

Example ex_dec :
  let s := exec [0; 1; 0; 0; 0] (init [Block] []) in
  reach [Block] [] s /\ stack s = [mkH 1 0 false HDec 1] /\ blocked s = 2 /\ blocked (step true 0 s) = 1.
Proof. split; [apply reach_exec; constructor|vm_compute; repeat split; reflexivity]. Qed.

(* a deferred activation after a stop: re-queued, not delivered (why c18_deferred_runs needs stops = 0) *)
Example ex_deferred_after_stop :
  let s := exec [0; 1; 0; 0; 0; 0; 0; 2; 0; 0; 0; 0; 0; 0; 0; 0] (init [Block; Unblock true] [false]) in
  reach [Block; Unblock true] [false] s /\ stops s = 1 /\ blocked s = 1 /\ pending s = 1 /\
  fates s = [(1%nat, FDelivered 2)].
Proof. split; [apply reach_exec; constructor|vm_compute; repeat split; reflexivity]. Qed.

Example c18_smoke : run_direct [2; 1; 3; 0; 0; 0; 1; 0; 0; 2] =
  [7;0;0; 8;1;0; 9;0;0; 30;1; 1;0;0; 2;1;0; 20;1; 3;1;0; 30;2; 1;1;0; 4;2;0; 5;2;0; 6;2;2; 3;1;2; 21;1; 6;1;2;
   9;0;2; 1;0;0; 2;1;0; 20;2; 3;1;0; 21;1; 6;1;0; 0;0;0].
Proof. vm_compute. reflexivity. Qed.

(* ==== 6. the OS-level entry point: Application::sigHandler / the handlers installed by Application::main ==== *)
(* the model is written for the code as the translator finds it: signal(sig, SIG_IGN) before processSignal, an
   unconditional signal(sig, sigHandler) in ~ScopedSig, main() keeps ignored signals ignored and restores nothing *)
Example c18_os_code_shape :
  Consts_C18.handler_ignores_first = true /\ Consts_C18.handler_reinstalls_always = true /\
  Consts_C18.main_keeps_ignored = true /\ Consts_C18.main_restores_dispositions = false /\ Consts_C18.main_resets_state = true /\
  Consts_C18.reset_only_if_registered = true /\ Consts_C18.dtor_resets = true /\ Consts_C18.main_registers = true /\
  Consts_C18.ctor_registers = false /\
  Consts_C18.setalarm_installs_unconditionally = true /\ Consts_C18.killalarm_only_cancels = true /\
  Consts_C18.main_arms_time_limit = true.
Proof. repeat split; reflexivity. Qed.

Theorem c18_os_model_uses_code_constants : forall s x r,
  (hs s = mkS x PEnter :: r -> inst (reg s) = Some O ->
     (dsp (ostep 0 s) x = DIgnore <-> Consts_C18.handler_ignores_first = true)) /\
  (hs s = mkS x PExit :: r -> (dsp (ostep 0 s) x = DHandler <-> Consts_C18.handler_reinstalls_always = true)) /\
  (forall tl d r0 f a ra, is_reg x = true -> d x = DIgnore ->
     (dsp (os_main tl d r0 f a ra) x = DIgnore <-> Consts_C18.main_keeps_ignored = true) /\
     (blocked (core (os_main tl d r0 f a ra)) = 0 /\ pending (core (os_main tl d r0 f a ra)) = 0 <-> Consts_C18.main_resets_state = true) /\
     (inst (reg (os_main tl d r0 f a ra)) = Some O <-> Consts_C18.main_registers = true)) /\
  (* ~Application of another object b / of the running object; new App() *)
  (forall b, b <> O -> (reset_inst b (Some O) = Some O <-> Consts_C18.reset_only_if_registered = true)) /\
  (reset_inst O (Some O) = None <-> Consts_C18.dtor_resets = true) /\
  (forall r0 fl r', oflow r0 = ONew :: fl -> objstep r0 = Some r' -> (inst r' = inst r0 <-> Consts_C18.ctor_registers = false)).
Proof.
  intros s x r. split; [|split; [|split; [|split; [|split]]]].
  - intros H Hi. unfold ostep. simpl. rewrite H. simpl. rewrite Hi. simpl. unfold upd. rewrite Z.eqb_refl. split; reflexivity.
  - intro H. unfold ostep. simpl. rewrite H. simpl. unfold upd. rewrite Z.eqb_refl. split; reflexivity.
  - intros tl d r0 f a ra Hx Hd. simpl. rewrite Hx, Hd. simpl. repeat split; reflexivity.
  - intros b Hb. destruct b; [contradiction|]. split; reflexivity.
  - split; reflexivity.
  - intros r0 fl r' Hf Ho. unfold objstep in Ho. rewrite Hf in Ho. inversion Ho. simpl. split; reflexivity.
Qed.
Print Assumptions c18_os_model_uses_code_constants.

(* (a) In every reachable state the registered signal numbers that are ignored are exactly those the environment had
   ignored before main() and those whose sigHandler activation is in progress (past signal(sig,SIG_IGN), before
   signal(sig,sigHandler)); every other registered number has the handler installed - whatever blocked_ is. *)
Theorem c18_os_dispositions : forall pre s x, oreach pre s -> is_reg x = true ->
  (dsp s x = DIgnore <-> pre x = true \/ In x (busy (hs s))) /\
  (dsp s x = DHandler <-> pre x = false /\ ~ In x (busy (hs s))) /\
  dsp s x <> DDefault.
Proof. exact os_dispositions. Qed.
Print Assumptions c18_os_dispositions.

(* the sigHandler activations: at most one per registered number is past its first statement (SIGALRM can have several:
   a callback may re-install its handler, see section 7); those in their processSignal call
   are exactly the activations of the core model that are not the nested call of unblockSignals; only registered,
   not environment-ignored numbers ever get one *)
Theorem c18_os_handlers : forall pre s, oreach pre s ->
  NoDup (filter is_reg (busy (hs s))) /\
  map h_sig (nondef (stack (core s))) = running (hs s) /\
  (forall x, In x (running (hs s)) -> In x (busy (hs s))) /\
  (forall x, In x (map s_sig (hs s)) -> x = alarm_sig \/ (is_reg x = true /\ pre x = false)).
Proof. exact os_handlers. Qed.
Print Assumptions c18_os_handlers.

(* (b) at quiescence (no sigHandler activation) every registered number has the handler installed *)
Theorem c18_os_quiescent : forall pre s x,
  oreach pre s -> is_reg x = true -> pre x = false -> hs s = [] -> dsp s x = DHandler.
Proof. exact os_quiescent. Qed.
Print Assumptions c18_os_quiescent.

(* (c) an arrival of a registered number d that the environment did not have ignored is discarded by the OS iff a handler
   for d is in progress; otherwise sigHandler starts and its next step is the call processSignal(d) = an arrival of the
   core model (with d ignored from then on) *)
Theorem c18_os_arrival : forall pre s d, oreach pre s -> is_reg d = true -> pre d = false ->
  (In d (busy (hs s)) -> ostep d s = mkO (core s) (dsp s) (hs s) (acc s) (drp s ++ [d]) (reg s)) /\
  (~ In d (busy (hs s)) ->
     ostep d s = mkO (core s) (dsp s) (mkS d PEnter :: hs s) (acc s ++ [d]) (drp s) (reg s) /\
     let s2 := ostep 0 (ostep d s) in
     core s2 = arrive d (core s) /\ hs s2 = mkS d PRun :: hs s /\ dsp s2 d = DIgnore /\ drp s2 = drp s).
Proof. exact os_arrival. Qed.
Print Assumptions c18_os_arrival.

(* ... and this is the only way a signal fails to reach the application object *)
Theorem c18_os_dropped_only_if : forall pre s d, oreach pre s -> drp (ostep d s) <> drp s ->
  d <> 0 /\
  ((is_reg d = true /\ (pre d = true \/ In d (busy (hs s)))) \/
   (d = alarm_sig /\ ((alarm_set (reg s) = false /\ pre alarm_sig = true) \/ In alarm_sig (busy (hs s))))) /\
  ostep d s = mkO (core s) (dsp s) (hs s) (acc s) (drp s ++ [d]) (reg s).
Proof. exact os_dropped_only_if. Qed.
Print Assumptions c18_os_dropped_only_if.

(* the application object of every OS-level reachable state is a reachable state of the core model:
   c18_never_while_blocked ... c18_callback_continue_restores all apply to [core s] *)
Theorem c18_os_core_reach : forall pre s, oreach pre s -> exists o a, bal 0 o = true /\ reach o a (core s).
Proof. exact os_core_reach. Qed.
Print Assumptions c18_os_core_reach.

(* exactly once, read from the OS-level arrival: every arrival that started sigHandler is either still before its
   processSignal call or is an arrival of the application object, and each of those is in exactly one place *)
Theorem c18_os_exactly_once : forall pre s, oreach pre s ->
  (forall x, count_eq x (acc s) = count_eq x (arrs (core s)) + count_eq x (entering (hs s))) /\
  (forall i, cnt_stack i (stack (core s)) + cnt_slot i (core s) + cnt_fates i (fates (core s))
             = (if (i <? length (arrs (core s)))%nat then 1 else 0)) /\
  NoDup (map fst (fates (core s))) /\
  (forall i, ~ In (i, FLost) (fates (core s))) /\
  (forall i, In (i, FStopLost) (fates (core s)) -> 0 < stops (core s) + cbt (core s)) /\
  (forall i x, In (i, FDelivered x) (fates (core s)) -> nth_error (arrs (core s)) i = Some x).
Proof. exact os_exactly_once. Qed.
Print Assumptions c18_os_exactly_once.

(* immediate, read from the OS-level arrival (step level, any state): handler installed, the running object registered and blocked_ = 0 -> after the
   steps of its own activation the callback has been entered with d *)
Theorem c18_os_immediate : forall s d, d <> 0 -> is_sig d = true -> dsp s d = DHandler -> inst (reg s) = Some O -> blocked (core s) = 0 ->
  let s4 := oexec [d; 0; 0; 0] s in
  fates (core s4) = (length (arrs (core s)), FDelivered d) :: fates (core s) /\
  arrs (core s4) = arrs (core s) ++ [d] /\
  stack (core s4) = mkH d (length (arrs (core s))) false HCbExit 0 :: stack (core s) /\
  blocked (core s4) = (if hd false (tl (rearm (reg s))) then 2 else 1) /\   (* 2: the entered callback has called blockSignals() itself *)
  hs s4 = mkS d PRun :: hs s /\
  dsp s4 d = (if (d =? alarm_sig) && hd false (rearm (reg s)) then DHandler else DIgnore) /\
  drp s4 = drp s /\ acc s4 = acc s ++ [d].
Proof. exact os_immediate. Qed.
Print Assumptions c18_os_immediate.

(* "so that later signals are still handled" *)
Theorem c18_os_later_signal_handled : forall pre s d,
  oreach pre s -> is_reg d = true -> pre d = false -> ~ In d (busy (hs s)) -> blocked (core s) = 0 ->
  let s4 := oexec [d; 0; 0; 0] s in
  In (length (arrs (core s)), FDelivered d) (fates (core s4)) /\ drp s4 = drp s /\ acc s4 = acc s ++ [d] /\ oreach pre s4.
Proof. exact os_later_signal_handled. Qed.
Print Assumptions c18_os_later_signal_handled.

Theorem c18_os_below_stable : forall d s e r,
  hs s = e :: r -> exists top, hs (ostep d s) = top ++ r /\ (length top <= 2)%nat.
Proof. exact os_below_stable. Qed.
Print Assumptions c18_os_below_stable.

(* ---- which object sigHandler delivers to (instance_s) ----
   While main() of the application object (number 0) runs - any run, any main flow including construction / destruction of
   other application objects and copy-and-drop of the running one, any answers, any schedule - instance_s is the running
   object, so (c18_os_arrival, c18_os_later_signal_handled) every arrival the OS does not discard reaches ITS processSignal;
   sigHandler never calls through a null or foreign pointer. *)
Theorem c18_os_registered : forall pre s, oreach pre s ->
  inst (reg s) = Some O /\ fault (reg s) = false /\ Forall (fun b => b <> O) (live (reg s)).
Proof. exact os_registered. Qed.
Print Assumptions c18_os_registered.

(* the operations on other objects are steps of the main flow that change neither the application object nor the registration *)
Theorem c18_os_other_objects : forall pre s r',
  oreach pre s -> hs s = [] -> at_op (core s) = true -> objstep (reg s) = Some r' ->
  ostep 0 s = mkO (core s) (objdsp (reg s) (dsp s)) [] (acc s) (drp s) r' /\ inst r' = Some O.
Proof. exact os_other_objects. Qed.
Print Assumptions c18_os_other_objects.

(* after the destruction of the application object nothing is registered *)
Theorem c18_os_destroyed : forall pre s, oreach pre s -> inst (reg (os_destroy s)) = None.
Proof. exact os_destroyed. Qed.
Print Assumptions c18_os_destroyed.

(* the OS-level trace producer stays inside [oreach] and never runs out of fuel *)
Theorem c18_os_run_reachable : forall pre n ds s, oreach pre s -> oreach pre (snd (orun n ds s)).
Proof. exact orun_reach. Qed.
Print Assumptions c18_os_run_reachable.

Theorem c18_os_fuel_sufficient : forall n ds s,
  (omeasure s + 8 * length ds < n)%nat -> orun (S n) ds s = orun n ds s.
Proof. exact ofuel_sufficient. Qed.
Print Assumptions c18_os_fuel_sufficient.

Theorem c18_os_run_with_fuel : forall m mask n r tlim dsp0 r0 a ra (ds : list Z),
  let c := m :: mask :: n :: r in
  let f := decode_fops (firstn (Z.to_nat n) r) in
  let r1 := skipn (Z.to_nat n) r in
  let k := Z.to_nat (hd 0 r1) in
  let r2 := skipn k (tl r1) in
  (length ds <= length r2)%nat -> (omeasure (os_main tlim dsp0 r0 f a ra) + 8 * length ds < ofuel_of c)%nat.
Proof. exact orun_with_fuel. Qed.
Print Assumptions c18_os_run_with_fuel.

(* ---- the trace producer on flows that are NOT well nested from 0 (answer code 4: a callback takes a block, the main flow
   releases it).  c18_os_run_reachable needs a start state inside [oreach], i.e. a flow with bal 0.  For ANY flow:
   every state the decoded case passes through ([case_visits]: the states at which [orun] prints, c18_os_trace_is_visits;
   [case_runs] are the runs [orun_with] performs, c18_os_case_runs) is - with the ghost plan emptied (set_flow s [] : [ops] of
   the core and [oflow] of the registry, nothing else) - a state of an [oreach] history, provided the flow is well nested
   relative to the blocks held ([wn_case] / [wn_run]: whenever the main flow executes an operation at depth k - blocks of
   its own or callback-taken, not yet released - the operation is legal at k: an unblockSignals finds k >= 1).  The history
   re-plans (oreach_flow / reach_ops) to each operation when the main flow executes it.  So every theorem of this file
   about [oreach] / [reach] states that does not mention the plan applies to the states of the answer-4 traces
   (c18_os_run_reachable_cb_core, and c18_no_entry_on_trace as an instance). ---- *)
Theorem c18_os_run_reachable_cb : forall pre n ds s g,
  oreach pre (set_flow s []) -> set_flow s g = s -> wn_run n ds s = true ->
  Forall (fun s' => oreach pre (set_flow s' [])) (ovisits n ds s).
Proof. exact orun_reach_cb. Qed.
Print Assumptions c18_os_run_reachable_cb.

Theorem c18_os_case_reachable_cb : forall c, wn_case c = true ->
  Forall (fun s => oreach (case_pre c) (set_flow s [])) (case_visits c).
Proof. exact case_reach_cb. Qed.
Print Assumptions c18_os_case_reachable_cb.

(* the core state of a visited state, plan emptied, is a [reach] state of a flow that is well nested from 0 *)
Theorem c18_run_reachable_cb : forall c s, wn_case c = true -> In s (case_visits c) ->
  exists o a, bal 0 o = true /\ reach o a (set_ops (core s) []).
Proof.
  intros c s Hw Hin. apply (shadowed_core (case_pre c)).
  exact (proj1 (Forall_forall _ _) (case_reach_cb c Hw) s Hin).
Qed.
Print Assumptions c18_run_reachable_cb.

(* the special case of the notes: when the main flow executes its first operation after callbacks took k blocks, the flow is bal k *)
Theorem c18_os_bal_k_is_well_nested : forall pre tl f a ra n ds,
  wn_bal_run n ds (os_main tl (boot pre) reg0 f a ra) = true -> wn_run n ds (os_main tl (boot pre) reg0 f a ra) = true.
Proof. exact wn_bal_wn_main. Qed.
Print Assumptions c18_os_bal_k_is_well_nested.

(* [ovisits] are the states at which [orun] prints, [case_runs] the runs of [orun_with] *)
Theorem c18_os_trace_is_visits : forall n ds s, exists tail, (tail = [] \/ tail = [-1]) /\
  fst (orun n ds s) = flat_map (fun p => oemit (fst p) (snd p)) (combine (odecs n ds s) (ovisits n ds s)) ++ tail.
Proof. exact orun_trace. Qed.
Print Assumptions c18_os_trace_is_visits.

Theorem c18_os_case_runs : forall c t,
  In t (map (fun p => fst (orun (ofuel_of c) (fst p) (snd p))) (case_runs c)) -> exists x y, orun_with c = x ++ t ++ y.
Proof. exact orun_with_runs. Qed.
Print Assumptions c18_os_case_runs.

(* instance: on such a trace no activation is about to enter the callback while the application holds a block *)
Theorem c18_no_entry_on_trace : forall c s, wn_case c = true -> In s (case_visits c) -> 1 <= depth (core s) ->
  Forall (fun f => h_pc f <> HCbEnter) (stack (core s)).
Proof.
  intros c s Hw Hin. apply (shadowed_no_entry (case_pre c)).
  exact (proj1 (Forall_forall _ _) (case_reach_cb c Hw) s Hin).
Qed.
Print Assumptions c18_no_entry_on_trace.

(* non-vacuity on harness cases (corpus/C18/regress.txt): signal 1 arrives before the first operation, its callback takes a
   block (answer 4), signal 2 arrives while it is held, the main flow's unblockSignals(true) releases the block and delivers 2.
   The flow [Unblock true] is not well nested from 0 (c18_os_run_reachable does not apply), it is well nested relative to the
   blocks held; 8 of the 17 visited states hold the callback's block. *)
Example ex_run_reachable_cb :
  let c := [-1; 0; 1; 3; 1; 4; 1; 0; 0; 2] in
  bal 0 (core_of (decode_fops [3])) = false /\ wn_case c = true /\
  map (fun s => depth (core s)) (case_visits c) = [0; 0; 0; 1; 1; 1; 1; 1; 1; 1; 1; 0; 0; 0; 0; 0; 0] /\
  Forall (fun s => oreach (case_pre c) (set_flow s [])) (case_visits c).
Proof.
  cbv zeta. split; [reflexivity|]. split; [vm_compute; reflexivity|]. split; [vm_compute; reflexivity|].
  apply case_reach_cb. vm_compute. reflexivity.
Qed.

(* two callback-taken blocks released one after the other (the flow [Unblock true; Unblock true] is bal k for no k the run
   reaches: depth is 1 at the first release): the history re-plans twice; and the shrunk case of C18-r15 *)
Example ex_run_reachable_cb_twice :
  let c := [-1; 0; 2; 3; 3; 2; 4; 4; 1; 0; 0; 0; 0; 0; 0; 2] in
  wn_case c = true /\ map (fun s => depth (core s)) (case_visits c) = [0; 0; 0; 1; 1; 1; 0; 0; 0; 0; 1; 1; 1; 0; 0] /\
  wn_case [-1; 0; 0; 1; 4; 1] = true /\ map (fun s => depth (core s)) (case_visits [-1; 0; 0; 1; 4; 1]) = [0; 0; 0; 1; 1; 1] /\
  (* not everything is accepted: a release without a block *)
  wn_case [-1; 0; 1; 3; 0] = false.
Proof. cbv zeta. repeat split; vm_compute; reflexivity. Qed.

(* ---- non-vacuity ---- *)
Definition nopre : Z -> bool := fun _ => false.
Definition os0 (o : list op) (a : list bool) : ost := os_main false (boot nopre) reg0 (map FCore o) a [].

(* Block; signal 1 arrives through sigHandler while the application holds the block: remembered, handler re-installed
   although blocked_ = 1 ... *)
Example ex_os_blocked_arrival :
  let s := oexec [0; 1; 0; 0; 0; 0; 0; 0] (os0 [Block; Unblock true] []) in
  oreach nopre s /\ hs s = [] /\ blocked (core s) = 1 /\ pending (core s) = 1 /\
  map (dsp s) registered = [DHandler; DHandler; DHandler] /\ acc s = [1] /\ drp s = [].
Proof. split; [apply oreach_oexec; constructor; reflexivity|vm_compute; repeat split; reflexivity]. Qed.

(* ... delivered by the release; a later arrival of the SAME number is delivered at once (its callback is running) *)
Example ex_os_blocked_then_later :
  let s := oexec ([0; 1; 0; 0; 0; 0; 0; 0] ++ [0; 0; 0; 0; 0; 0] ++ [1; 0; 0; 0]) (os0 [Block; Unblock true] []) in
  oreach nopre s /\ fates (core s) = [(1%nat, FDelivered 1); (O, FDelivered 1)] /\ acc s = [1; 1] /\ drp s = [] /\
  hs s = [mkS 1 PRun] /\ busy (hs s) = [1] /\ map (dsp s) registered = [DIgnore; DHandler; DHandler].
Proof. split; [apply oreach_oexec; constructor; reflexivity|vm_compute; repeat split; reflexivity]. Qed.

(* the hypotheses of c18_os_later_signal_handled at the state between the two deliveries *)
Example ex_os_later_hyps :
  let s := oexec ([0; 1; 0; 0; 0; 0; 0; 0] ++ [0; 0; 0; 0; 0; 0]) (os0 [Block; Unblock true] []) in
  oreach nopre s /\ is_reg 1 = true /\ nopre 1 = false /\ ~ In 1 (busy (hs s)) /\ blocked (core s) = 0 /\
  fates (core s) = [(O, FDelivered 1)].
Proof.
  split; [apply oreach_oexec; constructor; reflexivity|]. vm_compute. repeat split; try reflexivity. intro H; exact H.
Qed.

(* during the callback of signal 1 a second 1 is discarded by the OS, a 2 starts its own handler *)
Example ex_os_discarded_during_handler :
  let s := oexec [1; 0; 0; 0; 1; 2; 0] (os0 [] []) in
  oreach nopre s /\ drp s = [1] /\ acc s = [1; 2] /\ hs s = [mkS 2 PRun; mkS 1 PRun] /\
  map (dsp s) registered = [DIgnore; DIgnore; DHandler] /\ In 1 (busy (hs (oexec [1; 0; 0; 0] (os0 [] [])))).
Proof. split; [apply oreach_oexec; constructor; reflexivity|vm_compute; repeat split; try reflexivity]. left. reflexivity. Qed.

(* a stop answer: processSignal returns early, the destructor still re-installs the handler *)
Example ex_os_stop_reinstalls :
  let s := oexec [1; 0; 0; 0; 0; 0] (os0 [] [false]) in
  oreach nopre s /\ hs s = [] /\ blocked (core s) = 1 /\ stops (core s) = 1 /\ map (dsp s) registered = [DHandler; DHandler; DHandler].
Proof. split; [apply oreach_oexec; constructor; reflexivity|vm_compute; repeat split; reflexivity]. Qed.

(* a number the environment had ignored stays ignored; a second run of main() starts from the dispositions of the first *)
Example ex_os_environment_and_second_run :
  let pre := fun x => x =? 2 in
  let s1 := oexec [2; 1; 0; 0; 0; 0; 0; 0] (os_main false (boot pre) reg0 [] [] []) in
  let s2 := oexec [1; 0; 0; 0] (os_main false (dsp s1) (reg s1) [FCore Block; FCore (Unblock true)] [] []) in
  oreach pre s1 /\ idle s1 = true /\ drp s1 = [2] /\ acc s1 = [1] /\ oreach pre s2 /\
  map (dsp s2) registered = [DIgnore; DIgnore; DHandler] /\ acc s2 = [1].
Proof.
  cbv zeta.
  assert (H1 : oreach (fun x => x =? 2) (oexec [2; 1; 0; 0; 0; 0; 0; 0] (os_main false (boot (fun x => x =? 2)) reg0 [] [] []))).
  { apply oreach_oexec. constructor. reflexivity. }
  split; [exact H1|]. split; [vm_compute; reflexivity|]. split; [vm_compute; reflexivity|]. split; [vm_compute; reflexivity|].
  split; [|vm_compute; split; reflexivity].
  apply oreach_oexec. apply oreach_again; [exact H1|vm_compute; reflexivity|reflexivity].
Qed.

(* an arrival interrupts sigHandler before its signal(sig, SIG_IGN): both activations of the same number are handled *)
Example ex_os_entry_interrupted :
  let s := oexec [1; 1; 0; 0; 0; 0; 0; 0; 0] (os0 [] []) in
  oreach nopre s /\ acc s = [1; 1] /\ drp s = [] /\ hs s = [mkS 1 PRun] /\ arrs (core s) = [1; 1] /\
  fates (core s) = [(O, FDelivered 1)].
Proof. split; [apply oreach_oexec; constructor; reflexivity|vm_compute; repeat split; reflexivity]. Qed.

Example c18_os_smoke : Disp.run_case [-1; 0; 2; 1; 3; 0; 0; 1; 0; 0; 0; 0; 0; 0; 0; 0; 0; 0; 1] =
  [7;0;0;40;1;1;1;0;1; 8;1;0;40;1;1;1;0;1; 30;1; 1;1;0;40;2;1;1;0;1; 4;2;0;40;2;1;1;0;1; 5;2;0;40;2;1;1;0;1; 6;2;1;40;2;1;1;0;1;
   8;1;1;40;1;1;1;0;1; 9;0;1;40;1;1;1;0;1; 1;0;0;40;1;1;1;0;1; 2;1;0;40;1;1;1;0;1; 20;1; 3;1;0;40;1;1;1;0;1; 21;1; 6;1;0;40;1;1;1;0;1;
   0;0;0;40;1;1;1;0;1; 30;1; 1;0;0;40;2;1;1;0;1; 2;1;0;40;2;1;1;0;1; 20;1; 3;1;0;40;2;1;1;0;1; 21;1; 6;1;0;40;2;1;1;0;1;
   0;0;0;40;1;1;1;0;1; 41;1;1;1;0;1; 42;0].
Proof. vm_compute. reflexivity. Qed.

(* other application objects come and go (construct, destroy, copy-and-drop of the running object) before a signal
   arrives: the running object stays registered and the arrival is in its callback after its own three steps *)
Example ex_os_other_objects_then_arrival :
  let s := oexec [0; 0; 0; 1; 0; 0; 0] (os_main false (boot nopre) reg0 [FNew; FDel; FCopy] [] []) in
  oreach nopre s /\ inst (reg s) = Some O /\ live (reg s) = [] /\ nxt (reg s) = 3%nat /\ fault (reg s) = false /\
  fates (core s) = [(O, FDelivered 1)] /\ acc s = [1] /\ drp s = [] /\
  objstep (reg (oexec [0] (os_main false (boot nopre) reg0 [FNew; FDel; FCopy] [] []))) <> None.
Proof.
  split; [apply oreach_oexec; constructor; reflexivity|]. vm_compute. repeat split; try reflexivity. discriminate.
Qed.

(* another object is still alive when the run ends and is destroyed in the next run of main(), between two arrivals *)
Example ex_os_other_object_across_runs :
  let s1 := oexec [0; 1; 0; 0; 0; 0; 0; 0] (os_main false (boot nopre) reg0 [FNew] [] []) in
  let s2 := oexec [2; 0; 0; 0; 0; 0; 0; 0; 2; 0; 0; 0] (os_main false (dsp s1) (reg s1) [FDel] [] []) in
  oreach nopre s1 /\ idle s1 = true /\ live (reg s1) = [1%nat] /\ oreach nopre s2 /\ live (reg s2) = [] /\
  inst (reg s2) = Some O /\ fates (core s2) = [(1%nat, FDelivered 2); (O, FDelivered 2)] /\
  inst (reg (os_destroy s2)) = None.
Proof.
  cbv zeta.
  assert (H1 : oreach nopre (oexec [0; 1; 0; 0; 0; 0; 0; 0] (os_main false (boot nopre) reg0 [FNew] [] []))).
  { apply oreach_oexec. constructor. reflexivity. }
  split; [exact H1|]. split; [vm_compute; reflexivity|]. split; [vm_compute; reflexivity|].
  split; [|vm_compute; repeat split; reflexivity].
  apply oreach_oexec. apply oreach_again; [exact H1|vm_compute; reflexivity|reflexivity].
Qed.

(* what the model says about the code as it is AFTER the application object was destroyed (outside the property: no running
   application object): the handlers are still installed, an arrival calls processSignal through a null pointer *)
Example ex_os_arrival_after_destruction :
  let s := os_destroy (oexec [1; 0; 0; 0; 0; 0; 0] (os0 [] [])) in
  inst (reg s) = None /\ dsp s 1 = DHandler /\ fault (reg (oexec [1; 0] s)) = true.
Proof. vm_compute. repeat split; reflexivity. Qed.

(* ==== 7. SIGALRM: setAlarm / killAlarm, the time limit of main(), callbacks that re-arm the alarm ==== *)
(* SIGALRM (number 4) is not in getSignals(); setAlarm(n > 0) installs its handler UNCONDITIONALLY (it does not keep an
   ignored SIGALRM ignored, unlike main()'s loop), killAlarm / setAlarm(0) only cancel the timer.  For every environment
   (pre), run (with or without time limit), flow (incl. FSetAlarm / FKillAlarm), answers (incl. re-arming callbacks) and
   schedule: *)
Theorem c18_os_alarm_model_uses_code_constants : forall s fl,
  (hs s = [] -> at_op (core s) = true -> oflow (reg s) = OSetAlarm :: fl ->
     (forall v, dsp s alarm_sig = v -> dsp (ostep 0 s) alarm_sig = DHandler) <-> Consts_C18.setalarm_installs_unconditionally = true) /\
  (hs s = [] -> at_op (core s) = true -> oflow (reg s) = OKillAlarm :: fl ->
     (dsp (ostep 0 s) alarm_sig = dsp s alarm_sig <-> Consts_C18.killalarm_only_cancels = true)) /\
  (forall d r f a ra, dsp (os_main true d r f a ra) alarm_sig = DHandler <-> Consts_C18.main_arms_time_limit = true).
Proof.
  intros s fl. split; [|split].
  - intros Hh Ha Hf. split; [reflexivity|]. intros _ v _. apply (os_setalarm_step s fl Hh Ha Hf).
  - intros Hh Ha Hf. unfold ostep. simpl. rewrite Hh, Ha. unfold objstep, objdsp. rewrite Hf. simpl. split; reflexivity.
  - intros. split; reflexivity.
Qed.
Print Assumptions c18_os_alarm_model_uses_code_constants.

(* once setAlarm(n > 0) has been executed and no SIGALRM handler activation is in progress, the handler is installed -
   even if the environment had SIGALRM ignored (case B) ... *)
Theorem c18_os_alarm_installed : forall pre s, oreach pre s ->
  alarm_set (reg s) = true -> ~ In alarm_sig (busy (hs s)) -> dsp s alarm_sig = DHandler.
Proof. exact os_alarm_installed. Qed.
Print Assumptions c18_os_alarm_installed.

(* ... so an expiring alarm starts sigHandler, whose next step is processSignal on the running object ... *)
Theorem c18_os_alarm_arrival : forall pre s, oreach pre s -> alarm_set (reg s) = true -> ~ In alarm_sig (busy (hs s)) ->
  ostep alarm_sig s = mkO (core s) (dsp s) (mkS alarm_sig PEnter :: hs s) (acc s ++ [alarm_sig]) (drp s) (reg s) /\
  let s2 := ostep 0 (ostep alarm_sig s) in
  core s2 = arrive alarm_sig (core s) /\ hs s2 = mkS alarm_sig PRun :: hs s /\ drp s2 = drp s.
Proof. exact os_alarm_arrival. Qed.
Print Assumptions c18_os_alarm_arrival.

(* ... and with blocked_ = 0 it is in the callback after its own three steps *)
Theorem c18_os_alarm_handled : forall pre s, oreach pre s -> alarm_set (reg s) = true -> ~ In alarm_sig (busy (hs s)) ->
  blocked (core s) = 0 ->
  let s4 := oexec [alarm_sig; 0; 0; 0] s in
  In (length (arrs (core s)), FDelivered alarm_sig) (fates (core s4)) /\ drp s4 = drp s /\ oreach pre s4.
Proof. exact os_alarm_handled. Qed.
Print Assumptions c18_os_alarm_handled.

(* before any setAlarm: the disposition is what the environment left, no SIGALRM activation exists *)
Theorem c18_os_alarm_unset : forall pre s, oreach pre s -> alarm_set (reg s) = false ->
  dsp s alarm_sig = boot pre alarm_sig /\ ~ In alarm_sig (map s_sig (hs s)).
Proof. exact os_alarm_unset. Qed.
Print Assumptions c18_os_alarm_unset.

(* the three places that execute setAlarm(n > 0): the main flow (any state: also over an ignored disposition), main() with
   a time limit, and a re-arming callback at its entry (also inside a SIGALRM activation whose ScopedSig has set SIG_IGN:
   case A - the code as it is leaves the handler INSTALLED while that activation is still in progress) *)
Theorem c18_os_setalarm_step : forall s fl, hs s = [] -> at_op (core s) = true -> oflow (reg s) = OSetAlarm :: fl ->
  dsp (ostep 0 s) alarm_sig = DHandler /\ alarm_set (reg (ostep 0 s)) = true /\ core (ostep 0 s) = core s /\
  hs (ostep 0 s) = [] /\ (forall y, y <> alarm_sig -> dsp (ostep 0 s) y = dsp s y).
Proof. exact os_setalarm_step. Qed.
Print Assumptions c18_os_setalarm_step.

Theorem c18_os_rearm_step : forall s,
  match hs s with [] => True | e :: _ => s_ph e = PRun end ->
  cb_enter (core s) = true -> hd false (rearm (reg s)) = true ->
  dsp (ostep 0 s) alarm_sig = DHandler /\ alarm_set (reg (ostep 0 s)) = true /\ core (ostep 0 s) = cstep (core s) (reg s).   (* cstep = the atomic step + the entered callback's own blockSignals(), if it takes one *)
Proof. exact os_rearm_step. Qed.
Print Assumptions c18_os_rearm_step.

(* whenever the handler of a number is installed (registered or SIGALRM, activation of the same number in progress or not)
   an arrival is not discarded: it starts sigHandler and reaches processSignal.  With c18_os_rearm_step: an alarm that expires
   after the running callback re-armed it is NOT lost - in this no-mask, one-thread reading it re-enters sigHandler, finds
   blocked_ <> 0 and is remembered / discarded by the application object like any arrival during a callback. *)
Theorem c18_os_handler_arrival : forall pre s d, oreach pre s -> is_sig d = true -> dsp s d = DHandler ->
  ostep d s = mkO (core s) (dsp s) (mkS d PEnter :: hs s) (acc s ++ [d]) (drp s) (reg s) /\
  let s2 := ostep 0 (ostep d s) in
  core s2 = arrive d (core s) /\ hs s2 = mkS d PRun :: hs s /\ dsp s2 d = DIgnore /\ drp s2 = drp s.
Proof. exact os_handler_arrival. Qed.
Print Assumptions c18_os_handler_arrival.

(* case B: the environment had SIGALRM ignored; setAlarm from the main flow; the alarm is in the callback at once *)
Example ex_os_alarm_env_ignored :
  let pre := fun x => x =? 4 in
  let s0 := os_main false (boot pre) reg0 [FSetAlarm] [] [] in
  let s := oexec [0; 4; 0; 0; 0] s0 in
  oreach pre s /\ dsp s0 alarm_sig = DIgnore /\ drp (ostep 4 s0) = [4] /\
  dsp (ostep 0 s0) alarm_sig = DHandler /\ fates (core s) = [(O, FDelivered 4)] /\ drp s = [] /\ acc s = [4].
Proof. split; [apply oreach_oexec; constructor; reflexivity|vm_compute; repeat split; reflexivity]. Qed.

(* case B through main() with a time limit *)
Example ex_os_alarm_time_limit :
  let pre := fun x => x =? 4 in
  let s := oexec [4; 0; 0; 0] (os_main true (boot pre) reg0 [] [] []) in
  oreach pre s /\ fates (core s) = [(O, FDelivered 4)] /\ drp s = [].
Proof. split; [apply oreach_oexec; constructor; reflexivity|vm_compute; repeat split; reflexivity]. Qed.

(* case A: the callback of the first alarm re-arms it; the second alarm arrives while that callback still runs: it is not
   discarded by the OS, it is remembered by the application object (pending_ = 4) and the handler is installed at the end *)
Example ex_os_alarm_rearm_in_callback :
  let s0 := os_main false (boot nopre) reg0 [FSetAlarm] [true] [true] in
  let s3 := oexec [0; 4; 0; 0; 0] s0 in
  let s := oexec [4; 0; 0; 0; 0; 0; 0; 0; 0; 0] s3 in
  oreach nopre s /\ busy (hs s3) = [4] /\ dsp s3 alarm_sig = DHandler /\
  drp s = [] /\ acc s = [4; 4] /\ pending (core s) = 4 /\ fates (core s) = [(O, FDelivered 4)] /\
  hs s = [] /\ blocked (core s) = 0 /\ dsp s alarm_sig = DHandler.
Proof. split; [apply oreach_oexec; apply oreach_oexec; constructor; reflexivity|vm_compute; repeat split; reflexivity]. Qed.

(* hypotheses of c18_os_alarm_handled / c18_os_rearm_step are satisfiable *)
Example ex_os_alarm_hyps :
  let s := oexec [0] (os_main false (boot nopre) reg0 [FSetAlarm] [] []) in
  let t := oexec [0; 4; 0; 0] (os_main false (boot nopre) reg0 [FSetAlarm] [true] [true]) in
  oreach nopre s /\ alarm_set (reg s) = true /\ ~ In alarm_sig (busy (hs s)) /\ blocked (core s) = 0 /\
  oreach nopre t /\ match hs t with [] => True | e :: _ => s_ph e = PRun end /\ cb_enter (core t) = true /\
  hd false (rearm (reg t)) = true /\ dsp t alarm_sig = DIgnore.
Proof.
  cbv zeta. split; [apply oreach_oexec; constructor; reflexivity|].
  split; [reflexivity|]. split; [vm_compute; tauto|]. split; [reflexivity|].
  split; [apply oreach_oexec; constructor; reflexivity|]. vm_compute. repeat split; reflexivity.
Qed.

(* the direct-processSignal cases are unchanged *)
Example c18_run_case_direct : forall m r, (m <? 0) = false -> Disp.run_case (m :: r) = run_direct (m :: r).
Proof. intros m r H. unfold Disp.run_case. rewrite H. reflexivity. Qed.

(* ---- 8. shutdown(bool) blocks delivery for good - also during the error report of shutdown(true) ----
     void Application::shutdown(bool hasError) { fetch_and_inc(blocked_); killAlarm(); if (hasError) { onUnhandledException(); } shutdown(); }
   main():  try { setup(); run(); shutdown(false); } catch (...) { shutdown(true); }
   The increment is the LAST block / unblock operation of the main flow of a run (FCore Block with nothing of the core flow behind it);
   the error report of shutdown(true) - an onUnhandledException() override that returns (the default one exits) - is the main-flow step
   FReport behind it: application code in front of which, and during which, signals arrive (scheduling-point code 16).
   [shut s] = the main flow has executed its last operation, the application holds at least one block (1 <= depth) and no activation
   is inside a callback (shutdown starts in the main flow, with no activation at all: c18_shutdown_starts): nothing can release the block,
   and no running callback exists that could hold blocks of its own (Model.cb_block).
   [delivered c] = the arrivals handed to the callback so far (the FDelivered entries of the fate list). *)

(* for EVERY schedule ds of arrivals and steps from a state in which shutdown has started: the application still holds a block
   (depth > 0; [shut] is an invariant of every OS-level step), blocked_ >= 1, no activation is about to enter / inside the callback, no callback entry or exit
   is the next step, NOTHING is handed to the callback (the list of deliveries does not grow), and the increment of every arrival sends
   it to the remember / discard path (HTest) *)
Theorem c18_shutdown_blocks_for_good : forall pre s ds,
  oreach pre s -> shut s ->
  let s' := oexec ds s in
  oreach pre s' /\ shut s' /\
  1 <= blocked (core s') /\
  Forall (fun f => in_cb f = false) (stack (core s')) /\ cb_enter (core s') = false /\ cb_exit (core s') = false /\
  delivered (core s') = delivered (core s) /\
  (forall f rest, stack (core s') = f :: rest -> h_pc f = HInc ->
     exists f', stack (step true 0 (core s')) = f' :: rest /\ h_pc f' = HTest /\ h_sig f' = h_sig f /\ h_id f' = h_id f).
Proof. exact shutdown_blocks_for_good. Qed.
Print Assumptions c18_shutdown_blocks_for_good.

(* the step that starts it: the main flow (no handler in progress) executes the increment of its last core operation - shutdown(false)
   at the end of run() or shutdown(true) from main()'s catch; whatever blocks the flow already holds *)
Theorem c18_shutdown_starts : forall pre s fl, oreach pre s -> hs s = [] -> at_op (core s) = true ->
  ops (core s) = [Block] -> oflow (reg s) = OCore :: fl ->
  shut (ostep 0 s) /\ blocked (core (ostep 0 s)) = blocked (core s) + 1 /\ fates (core (ostep 0 s)) = fates (core s) /\
  oflow (reg (ostep 0 s)) = fl /\ hs (ostep 0 s) = [] /\ dsp (ostep 0 s) = dsp s.
Proof. exact shutdown_starts. Qed.
Print Assumptions c18_shutdown_starts.

(* from the start of shutdown(true | false) to the end of the run (any number of further steps and arrivals, incl. all of the error
   report): no callback entry, nothing handed to the callback *)
Theorem c18_no_callback_from_shutdown_to_end_of_run : forall pre s fl ds, oreach pre s -> hs s = [] -> at_op (core s) = true ->
  ops (core s) = [Block] -> oflow (reg s) = OCore :: fl ->
  let s' := oexec (0 :: ds) s in
  oreach pre s' /\ 1 <= depth (core s') /\ 1 <= blocked (core s') /\
  Forall (fun f => in_cb f = false) (stack (core s')) /\ cb_enter (core s') = false /\ cb_exit (core s') = false /\
  delivered (core s') = delivered (core s).
Proof. exact no_callback_from_shutdown. Qed.
Print Assumptions c18_no_callback_from_shutdown_to_end_of_run.

(* the error report is a scheduling point of its own (code 16) whose step - the report returns - changes nothing of the signal state *)
Theorem c18_error_report_step : forall s fl, hs s = [] -> at_op (core s) = true -> oflow (reg s) = OReport :: fl ->
  ocode s = 16 /\ core (ostep 0 s) = core s /\ dsp (ostep 0 s) = dsp s /\ hs (ostep 0 s) = [] /\
  acc (ostep 0 s) = acc s /\ drp (ostep 0 s) = drp s /\
  oflow (reg (ostep 0 s)) = fl /\ inst (reg (ostep 0 s)) = inst (reg s) /\ alarm_set (reg (ostep 0 s)) = alarm_set (reg s).
Proof. exact error_report_step. Qed.
Print Assumptions c18_error_report_step.

(* case op 10 = "run() throws": the increment, then the report, and nothing of the flow after it *)
Example c18_shutdown_error_decoding :
  decode_fops [10] = [FCore Block; FReport] /\ decode_fops [1; 10; 3] = [FCore Block; FCore Block; FReport] /\
  core_of (decode_fops [1; 10; 3]) = [Block; Block] /\ bal 0 (core_of (decode_fops [1; 10; 3])) = true.
Proof. repeat split; reflexivity. Qed.

(* run() throws at once; INSIDE the error report (code 16, blocked_ = 1) signal 1 arrives through sigHandler: remembered (pending_ = 1),
   not delivered; then signal 2: discarded by the application object; the report returns; the run is over with blocked_ = 1, pending_ = 1,
   all handlers re-installed, nothing ever handed to the callback.  s1 satisfies the hypothesis [shut] of c18_shutdown_blocks_for_good,
   s0 the hypotheses of c18_shutdown_starts / c18_no_callback_from_shutdown_to_end_of_run, s1 those of c18_error_report_step. *)
Example ex_os_shutdown_error_report :
  let s0 := os_main false (boot nopre) reg0 (decode_fops [10]) [] [] in
  let s1 := oexec [0] s0 in
  let s2 := oexec [1; 0; 0; 0; 0; 0; 0] s1 in
  let s3 := oexec [2; 0; 0; 0; 0; 0] s2 in
  let s4 := oexec [0] s3 in
  oreach nopre s0 /\ hs s0 = [] /\ at_op (core s0) = true /\ ops (core s0) = [Block] /\ oflow (reg s0) = [OCore; OReport] /\
  oreach nopre s1 /\ shut s1 /\ at_op (core s1) = true /\ oflow (reg s1) = [OReport] /\
  map ocode [s0; s1; s2; s3; s4] = [7; 16; 16; 16; 0] /\
  blocked (core s2) = 1 /\ pending (core s2) = 1 /\ fates (core s2) = [] /\
  blocked (core s3) = 1 /\ pending (core s3) = 1 /\ fates (core s3) = [(1%nat, FDiscarded)] /\ delivered (core s3) = [] /\
  acc s3 = [1; 2] /\ drp s3 = [] /\ hs s3 = [] /\ map (dsp s3) registered = [DHandler; DHandler; DHandler] /\
  idle s4 = true /\ blocked (core s4) = 1 /\ pending (core s4) = 1 /\ delivered (core s4) = [].
Proof.
  cbv zeta. split; [constructor; reflexivity|].
  split; [reflexivity|]. split; [reflexivity|]. split; [reflexivity|]. split; [reflexivity|].
  split; [apply oreach_oexec; constructor; reflexivity|].
  split; [vm_compute; repeat split; first [reflexivity|discriminate|constructor]|].
  vm_compute. repeat split; reflexivity.
Qed.

(* the same run as the harness prints it (case -1 0 1 10 0 0 1 0 0 0 0 2: first main(), flow [run() throws], decisions: increment,
   signal 1 inside the report, its four steps, signal 2 inside the report, ...): records "16 1 p" = inside the error report with
   blocked_ = 1, never a record "20 s" (callback entry) *)
Example c18_os_shutdown_error_smoke :
  Disp.run_case [-1; 0; 1; 10; 0; 0; 1; 0; 0; 0; 0; 2] =
    [7; 0; 0; 40; 1; 1; 1; 0; 1;   16; 1; 0; 40; 1; 1; 1; 0; 1; 30; 1;
     1; 1; 0; 40; 2; 1; 1; 0; 1;   4; 2; 0; 40; 2; 1; 1; 0; 1;   5; 2; 0; 40; 2; 1; 1; 0; 1;   6; 2; 1; 40; 2; 1; 1; 0; 1;
     16; 1; 1; 40; 1; 1; 1; 0; 1; 30; 2;
     1; 1; 1; 40; 1; 2; 1; 0; 1;   4; 2; 1; 40; 1; 2; 1; 0; 1;   6; 2; 1; 40; 1; 2; 1; 0; 1;
     16; 1; 1; 40; 1; 1; 1; 0; 1;   0; 1; 1; 40; 1; 1; 1; 0; 1;   41; 1; 1; 1; 0; 1;   42; 0].
Proof. vm_compute. reflexivity. Qed.

(* the order of the statements of shutdown(bool) and main()'s two calls of it, as the translator (tools/consts/C18.py) finds them:
   the block is taken before the error report runs - what the decoding of op 10 (increment, then report) is written for *)
Theorem c18_shutdown_model_uses_code_constants :
  (decode_fops [10] = [FCore Block; FReport] <-> Consts_C18.shutdown_blocks_before_report = true) /\
  Consts_C18.main_error_path_is_shutdown_true = true.
Proof. split; [split; intro; reflexivity | reflexivity]. Qed.
Print Assumptions c18_shutdown_model_uses_code_constants.
