(* C18 - Signals: delivered at once when unblocked, deferred exactly once while blocked.
   Model: V.C18.Model (small-step, one atomic step of application.cpp per transition; [step true] = the code as it is).
   All theorems quantify over every well nested main flow o (bal 0 o), every answer list a and every schedule
   (reach o a s: any list of decisions "step / signal d arrives", see Proofs.v).                                        *)
Require Import V.Lib.Base V.C18.Model V.C18.Proofs V.C18.ProofsTok V.C18.ProofsThm V.C18.ProofsRun.
Require V.Gen.Consts_C18.
Local Open Scope Z_scope.

(* ---- 0. the model is written for the code as the translator (tools/consts/C18.py) finds it in src/application.cpp ---- *)
Example c18_code_shape :
  Consts_C18.take_atomic = true /\ Consts_C18.deliver_at = 0 /\ Consts_C18.release_at = 1 /\
  Consts_C18.yields_process = [1; 2; 4; 5; 6] /\ Consts_C18.yields_unblock = [9].
Proof. repeat split; reflexivity. Qed.

Theorem c18_model_uses_code_constants : forall at_ s,
  (forall f rest, stack s = f :: rest -> h_pc f = HInc ->
     (exists f', stack (step at_ 0 s) = f' :: rest /\ h_r f' = blocked s /\
                 (h_pc f' = HCbEnter <-> blocked s = Consts_C18.deliver_at) /\ (h_pc f' = HCbEnter \/ h_pc f' = HTest))) /\
  (forall dl o, stack s = [] -> mpc_ s = MOp -> ops s = Unblock dl :: o ->
     (mpc_ (step at_ 0 s) = MTake dl <-> blocked s = Consts_C18.release_at) /\
     (mpc_ (step at_ 0 s) = MTake dl \/ mpc_ (step at_ 0 s) = MOp)).
Proof.
  intros at_ s. split.
  - intros f rest Hs Hpc. unfold step. simpl. rewrite Hs. unfold hstep. rewrite Hpc. eexists. split; [reflexivity|].
    simpl. unfold Consts_C18.deliver_at. destruct (Z.eqb_spec (blocked s) 0); repeat split; auto; try congruence; intro; discriminate.
  - intros dl o Hs Hm Ho. unfold step. simpl. rewrite Hs. unfold mstep. rewrite Hm, Ho. simpl.
    unfold Consts_C18.release_at. destruct (Z.eqb_spec (blocked s) 1); repeat split; auto; try congruence; intro; discriminate.
Qed.
Print Assumptions c18_model_uses_code_constants.

(* ---- 1. never a callback while blocked or while another callback is active ---- *)
(* Whenever an activation f is about to enter / is inside the callback (anywhere in the stack of nested handlers):
   the main flow holds no block, no callback has answered stop, every activation below f has not even incremented yet,
   no other activation is in the callback, and blocked_ = 1 + the (remembering) activations above f. *)
Theorem c18_never_while_blocked : forall o a s pre f post,
  bal 0 o = true -> reach o a s -> stack s = pre ++ f :: post -> in_cb f = true ->
  depth s = 0 /\ stops s = 0 /\ blocked s = 1 + nactive pre /\
  Forall (fun g => in_cb g = false) (pre ++ post) /\ Forall (fun g => h_pc g = HInc) post.
Proof. exact never_while_blocked. Qed.
Print Assumptions c18_never_while_blocked.

Theorem c18_callback_entry_unblocked : forall o a s f rest,
  bal 0 o = true -> reach o a s -> stack s = f :: rest -> h_pc f = HCbEnter ->
  depth s = 0 /\ stops s = 0 /\ blocked s = 1 /\ h_r f = 0 /\ Forall (fun g => h_pc g = HInc) rest.
Proof. exact callback_entry_unblocked. Qed.
Print Assumptions c18_callback_entry_unblocked.

(* ---- 2. an arrival that finds blocked_ = 0 is delivered within its own activation ---- *)
Theorem c18_immediate : forall at_ s f rest,
  stack s = f :: rest ->
  (h_pc f = HInc -> blocked s = 0 ->
     stack (step at_ 0 s) = mkH (h_sig f) (h_id f) (h_def f) HCbEnter 0 :: rest /\ blocked (step at_ 0 s) = 1) /\
  (h_pc f = HCbEnter ->
     fates (step at_ 0 s) = (h_id f, FDelivered (h_sig f)) :: fates s /\
     emit 0 s = [2; blocked s; pending s; 20; h_sig f] /\ stack (step at_ 0 s) = set_pc f HCbExit :: rest) /\
  (forall d, exists top, stack (step at_ d s) = top ++ rest /\ (length top <= 2)%nat).
Proof.
  intros at_ s f rest Hs. split; [|split].
  - intros H1 H2. exact (immediate_branch at_ s f rest Hs H1 H2).
  - intros H1. exact (enter_delivers at_ s f rest Hs H1).
  - intro d. exact (below_stable at_ d s f rest Hs).
Qed.
Print Assumptions c18_immediate.

Theorem c18_immediate_never_diverted : forall o a s f,
  bal 0 o = true -> reach o a s -> In f (stack s) -> h_pc f <> HInc -> h_r f = 0 ->
  h_pc f = HCbEnter \/ In (h_id f, FDelivered (h_sig f)) (fates s).
Proof. exact found_unblocked_is_delivered. Qed.
Print Assumptions c18_immediate_never_diverted.

(* ---- 3. one slot: at most one signal is remembered ---- *)
Theorem c18_one_remembered : forall at_ s f rest,
  stack s = f :: rest -> h_pc f = HTest ->
  (pending s <> 0 ->
     pending (step at_ 0 s) = pending s /\ pend_id (step at_ 0 s) = pend_id s /\
     fates (step at_ 0 s) = (h_id f, if h_def f then FStopLost else FDiscarded) :: fates s) /\
  (pending s = 0 ->
     let s2 := step at_ 0 (step at_ 0 s) in
     pending s2 = h_sig f /\ pend_id s2 = h_id f /\ fates s2 = fates s /\ stack s2 = set_pc f HDec :: rest).
Proof.
  intros at_ s f rest Hs Hpc. split; intro Hp.
  - exact (occupied_discards at_ s f rest Hs Hpc Hp).
  - exact (empty_remembers at_ s f rest Hs Hpc Hp).
Qed.
Print Assumptions c18_one_remembered.

Theorem c18_slot_changes_only : forall at_ d s,
  pending (step at_ d s) <> pending s \/ pend_id (step at_ d s) <> pend_id s ->
  d = 0 /\ ((exists f rest, stack s = f :: rest /\ h_pc f = HWrite) \/
            (stack s = [] /\ exists dl, mpc_ s = MTake dl \/ exists p pid, mpc_ s = MClear dl p pid)).
Proof. exact slot_changes_only. Qed.
Print Assumptions c18_slot_changes_only.

Theorem c18_slot_token_fresh : forall o a s,
  bal 0 o = true -> reach o a s -> pending s <> 0 ->
  (pend_id s < length (arrs s))%nat /\ nth_error (arrs s) (pend_id s) = Some (pending s) /\
  ~ In (pend_id s) (map fst (fates s)) /\ cnt_stack (pend_id s) (stack s) = 0.
Proof. exact slot_token_fresh. Qed.
Print Assumptions c18_slot_token_fresh.

(* ---- 4. exactly once: never lost, never twice ---- *)
(* Every arrival i is, in every reachable state, in exactly one place: an activation that still has to decide
   (own or deferred), the pending slot, or exactly one entry of the fate list. *)
Theorem c18_exactly_once : forall o a s,
  bal 0 o = true -> reach o a s ->
  (forall i, cnt_stack i (stack s) + cnt_slot i s + cnt_fates i (fates s) = (if (i <? length (arrs s))%nat then 1 else 0)) /\
  NoDup (map fst (fates s)) /\
  (forall i, ~ In (i, FLost) (fates s)) /\
  (forall i, In (i, FStopLost) (fates s) -> 0 < stops s) /\
  (forall i x, In (i, FDelivered x) (fates s) -> nth_error (arrs s) i = Some x).
Proof.
  intros o a s Hb Hr. split; [|split; [|split; [|split]]].
  - intro i. exact (one_place o a s i Hb Hr).
  - exact (never_twice o a s Hb Hr).
  - intro i. exact (proj1 (never_lost o a s i Hb Hr)).
  - intro i. exact (proj2 (never_lost o a s i Hb Hr)).
  - intros i x. exact (delivered_number o a s i x Hb Hr).
Qed.
Print Assumptions c18_exactly_once.

(* the remembered signal leaves the slot at the take of the next outermost release: to the nested processSignal if
   delivery is requested, dropped otherwise; the take follows a decrement 1 -> 0 of a main flow that holds no block *)
Theorem c18_release_hands_over : forall o a s dl,
  bal 0 o = true -> reach o a s -> stack s = [] -> mpc_ s = MTake dl ->
  depth s = 0 /\
  (pending s <> 0 ->
     let s' := step true 0 s in
     pending s' = 0 /\ mpc_ s' = MOp /\
     (if dl then stack s' = [mkH (pending s) (pend_id s) true HInc 0] /\ fates s' = fates s
      else stack s' = [] /\ fates s' = (pend_id s, FDropped) :: fates s)).
Proof.
  intros o a s dl Hb Hr Hs Hm. split.
  - exact (take_is_outermost o a s dl Hb Hr Hm).
  - intro Hp. exact (take_hands_over s dl Hs Hm Hp).
Qed.
Print Assumptions c18_release_hands_over.

Theorem c18_take_after_release : forall at_ s dl,
  stack s = [] -> mpc_ s = MOp -> mpc_ (step at_ 0 s) = MTake dl ->
  blocked s = 1 /\ blocked (step at_ 0 s) = 0 /\ exists o', ops s = Unblock dl :: o'.
Proof. exact take_after_release. Qed.
Print Assumptions c18_take_after_release.

Theorem c18_deferred_runs : forall o a s f rest,
  bal 0 o = true -> reach o a s -> stack s = f :: rest -> h_def f = true -> h_pc f = HInc -> stops s = 0 ->
  rest = [] /\ blocked s = 0.
Proof. exact deferred_runs. Qed.
Print Assumptions c18_deferred_runs.

(* ---- 5. the nesting count is restored ---- *)
Theorem c18_nesting_restored : forall o a s f rest,
  bal 0 o = true -> reach o a s -> stack s = f :: rest -> h_pc f = HDec ->
  blocked (step true 0 s) = h_r f /\ stack (step true 0 s) = rest.
Proof. exact nesting_restored. Qed.
Print Assumptions c18_nesting_restored.

Theorem c18_nesting_general : forall o a s pre f post,
  bal 0 o = true -> reach o a s -> stack s = pre ++ f :: post -> h_pc f <> HInc ->
  blocked s = h_r f + 1 + nactive pre.
Proof. exact nesting_general. Qed.
Print Assumptions c18_nesting_general.

Theorem c18_callback_continue_restores : forall o a s f rest,
  bal 0 o = true -> reach o a s -> stack s = f :: rest -> h_pc f = HCbExit -> answer s = true ->
  let s2 := step true 0 (step true 0 s) in blocked s2 = 0 /\ stack s2 = rest /\ stops s2 = stops s.
Proof. exact callback_continue_restores. Qed.
Print Assumptions c18_callback_continue_restores.

(* ---- the trace producer used by the correspondence check stays inside [reach] and never runs out of fuel ---- *)
Theorem c18_run_reachable : forall o a n ds s, reach o a s -> reach o a (snd (run true n ds s)).
Proof. exact run_reach. Qed.
Print Assumptions c18_run_reachable.

Theorem c18_fuel_sufficient : forall at_ n ds s,
  (measure s + 6 * length ds < n)%nat -> run at_ (S n) ds s = run at_ n ds s.
Proof. exact fuel_sufficient. Qed.
Print Assumptions c18_fuel_sufficient.

(* ---- the code before the repair (read pending_, then clear it) loses a remembered signal ---- *)
Definition lost_case : list Z := [2; 1; 3; 0; 0; 0; 0; 1; 0; 0; 2].
Theorem c18_lost_refuted_before_repair :
  exists c, In (1%nat, FLost) (fates (snd (run_with false c))) /\
            ~ In (1%nat, FLost) (fates (snd (run_with true c))) /\ pending (snd (run_with true c)) = 2.
Proof.
  exists lost_case. split; [vm_compute; left; reflexivity|split; [|vm_compute; reflexivity]].
  vm_compute. intuition discriminate.
Qed.
Print Assumptions c18_lost_refuted_before_repair.

(* ---- non-vacuity: concrete reachable states that satisfy the hypotheses ---- *)
(* signal 1 is in its callback, signal 2 arrived during it and has incremented: pre = [2's activation] *)
Example ex_in_callback :
  let s := exec [1; 0; 0; 2; 0] (init [] []) in
  reach [] [] s /\ bal 0 [] = true /\
  stack s = [mkH 2 1 false HTest 1] ++ mkH 1 0 false HCbExit 0 :: [] /\ in_cb (mkH 1 0 false HCbExit 0) = true /\
  blocked s = 2 /\ answer s = true.
Proof. split; [apply reach_exec; constructor|vm_compute; repeat split; reflexivity]. Qed.

Example ex_callback_entry :
  let s := exec [1; 0] (init [Block; Unblock true] [true]) in
  reach [Block; Unblock true] [true] s /\ bal 0 [Block; Unblock true] = true /\
  stack s = [mkH 1 0 false HCbEnter 0] /\ blocked s = 1.
Proof. split; [apply reach_exec; constructor|vm_compute; repeat split; reflexivity]. Qed.

(* Block; signal 1 arrives and is remembered; Unblock(true) decrements: the take is next, the slot is occupied *)
Example ex_take :
  let s := exec [0; 1; 0; 0; 0; 0; 0] (init [Block; Unblock true] []) in
  reach [Block; Unblock true] [] s /\ stack s = [] /\ mpc_ s = MTake true /\ pending s = 1 /\ pend_id s = O /\
  stack (step true 0 s) = [mkH 1 0 true HInc 0] /\
  fates (exec [0; 0; 0; 0; 0] s) = [(O, FDelivered 1)] /\ blocked (exec [0; 0; 0; 0; 0] s) = 0.
Proof. split; [apply reach_exec; constructor|vm_compute; repeat split; reflexivity]. Qed.

(* an activation in the remember branch with the slot occupied / empty; one about to decrement *)
Example ex_test_occupied :
  let s := exec [0; 1; 0; 0; 0; 0; 2; 0] (init [Block] []) in
  reach [Block] [] s /\ stack s = [mkH 2 1 false HTest 1] /\ pending s = 1 /\
  fates (step true 0 s) = [(1%nat, FDiscarded)].
Proof. split; [apply reach_exec; constructor|vm_compute; repeat split; reflexivity]. Qed.

Example ex_dec :
  let s := exec [0; 1; 0; 0; 0] (init [Block] []) in
  reach [Block] [] s /\ stack s = [mkH 1 0 false HDec 1] /\ blocked s = 2 /\ blocked (step true 0 s) = 1.
Proof. split; [apply reach_exec; constructor|vm_compute; repeat split; reflexivity]. Qed.

(* a deferred activation after a stop: re-queued, not delivered (why c18_deferred_runs needs stops = 0) *)
Example ex_deferred_after_stop :
  let s := exec [0; 1; 0; 0; 0; 0; 0; 2; 0; 0; 0; 0; 0; 0; 0; 0] (init [Block; Unblock true] [false]) in
  reach [Block; Unblock true] [false] s /\ stops s = 1 /\ blocked s = 1 /\ pending s = 1 /\
  fates s = [(1%nat, FDelivered 2)].
Proof. split; [apply reach_exec; constructor|vm_compute; repeat split; reflexivity]. Qed.

Example c18_smoke : run_case [2; 1; 3; 0; 0; 0; 1; 0; 0; 2] =
  [7;0;0; 8;1;0; 9;0;0; 30;1; 1;0;0; 2;1;0; 20;1; 3;1;0; 30;2; 1;1;0; 4;2;0; 5;2;0; 6;2;2; 3;1;2; 21;1; 6;1;2;
   9;0;2; 1;0;0; 2;1;0; 20;2; 3;1;0; 21;1; 6;1;0; 0;0;0].
Proof. vm_compute. reflexivity. Qed.
