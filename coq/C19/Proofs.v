(* C19 - proofs: the option formatter (buffer safety, decorations), placeholders, the help text. *)
Require Import V.Lib.Base V.Gen.Consts_C19 V.C19.Model V.C19.Spec.
Local Open Scope Z_scope.

Lemma len_app a b : len (a ++ b) = len a + len b.
Proof. unfold len. rewrite app_length. lia. Qed.
Lemma len_cons c s : len (c :: s) = 1 + len s.
Proof. unfold len. simpl length. lia. Qed.
Lemma len_nil : len [] = 0. Proof. reflexivity. Qed.
Lemma len_nonneg s : 0 <= len s. Proof. unfold len. lia. Qed.
Lemma len_repeat c n : len (repeat c n) = Z.of_nat n.
Proof. unfold len. now rewrite repeat_length. Qed.
Lemma is_nil_len s : is_nil s = true <-> len s = 0.
Proof.
  destruct s as [|c s]; [split; reflexivity|].
  split; intros H; [discriminate|]. rewrite len_cons in H. pose proof (len_nonneg s). lia.
Qed.
Lemma is_nil_false_len s : is_nil s = false <-> 0 < len s.
Proof.
  destruct s as [|c s].
  - split; intros H; [discriminate|]. rewrite len_nil in H. lia.
  - split; intros H; [|reflexivity]. rewrite len_cons. pose proof (len_nonneg s). lia.
Qed.

(* ---------- the five sprintf calls, evaluated on the format strings taken from the source ---------- *)
Lemma sprintf_name np nm : sprintf FMT_NAME [AS np; AS nm] = [32; 32; 45; 45] ++ np ++ nm.
Proof. unfold sprintf. cbn. now rewrite app_nil_r. Qed.
Lemma sprintf_implicit_arg arg ap : sprintf FMT_IMPLICIT_ARG [AS arg; AS ap] = [91; 61] ++ arg ++ ap ++ [93].
Proof. unfold sprintf. cbn. reflexivity. Qed.
Lemma sprintf_alias a : sprintf FMT_ALIAS [AC a] = [44; 45; a].
Proof. unfold sprintf. cbn. reflexivity. Qed.
Lemma sprintf_arg c arg ap : sprintf FMT_ARG [AC c; AS arg; AS ap] = c :: arg ++ ap.
Proof. unfold sprintf. cbn. now rewrite app_nil_r. Qed.
Lemma sprintf_pad w : 0 < w -> sprintf FMT_PAD [AI w; AI w; AS PAD_STR] = repeat 32 (Z.to_nat w).
Proof.
  intros Hw. unfold sprintf. cbn. rewrite app_nil_r. unfold pad_left, PAD_STR.
  destruct (Z.to_nat w) as [|k] eqn:E; [lia|]. cbn [firstn]. rewrite firstn_nil.
  unfold len. cbn [length]. replace (Z.to_nat (w - Z.of_nat 1)) with k by lia. reflexivity.
Qed.

Lemma neg_prefix_eq o : (if v_neg o && is_nil (v_arg o) then NEG_PREFIX else []) = neg_prefix o.
Proof. reflexivity. Qed.
Lemma neg_suffix_eq o : (if v_neg o && negb (is_nil (v_arg o)) then NEG_SUFFIX else []) = neg_suffix o.
Proof. reflexivity. Qed.

(* the state after the first four sprintf calls *)
Definition s3_of (bs : Z) (o : vopt) : str * bool :=
  let arg := v_arg o in
  let s0 := sp bs ([], false) FMT_NAME [AS (neg_prefix o); AS (v_name o)] in
  let s1 := if v_implicit o && negb (is_nil arg) then sp bs s0 FMT_IMPLICIT_ARG [AS arg; AS (neg_suffix o)] else s0 in
  let s2 := if negb (v_alias o =? 0) then sp bs s1 FMT_ALIAS [AC (v_alias o)] else s1 in
  if negb (v_implicit o)
  then sp bs s2 FMT_ARG [AC (if v_alias o =? 0 then ARG_SEP_NOALIAS else ARG_SEP_ALIAS); AS arg; AS (neg_suffix o)] else s2.

Lemma s3_text bs o : fst (s3_of bs o) = header o.
Proof.
  unfold s3_of, header, sp. cbn [fst snd].
  rewrite sprintf_name.
  destruct (v_implicit o) eqn:Ei; destruct (is_nil (v_arg o)) eqn:En; destruct (v_alias o =? 0) eqn:Ea;
    cbn [negb andb fst snd app]; rewrite ?sprintf_implicit_arg, ?sprintf_alias, ?sprintf_arg, ?app_nil_r;
    unfold ARG_SEP_NOALIAS, ARG_SEP_ALIAS; repeat rewrite <- app_assoc; reflexivity.
Qed.

Lemma len_neg_prefix o : len (neg_prefix o) = if v_neg o && is_nil (v_arg o) then 5 else 0.
Proof. unfold neg_prefix. destruct (v_neg o && is_nil (v_arg o)); reflexivity. Qed.
Lemma len_neg_suffix o : len (neg_suffix o) = if v_neg o && negb (is_nil (v_arg o)) then 3 else 0.
Proof. unfold neg_suffix. destruct (v_neg o && negb (is_nil (v_arg o))); reflexivity. Qed.

(* written = maxColumn (+1 for an empty argument name of a non-implicit option) *)
Lemma len_header o :
  len (header o) = max_column o + (if negb (v_implicit o) && is_nil (v_arg o) then 1 else 0).
Proof.
  unfold header, max_column, COL_BASE, COL_ALIAS, COL_ARG, COL_IMPLICIT, COL_NEG_ARG, COL_NEG_NOARG.
  pose proof (len_nonneg (v_arg o)) as Hn. pose proof (len_neg_prefix o) as Hp. pose proof (len_neg_suffix o) as Hs.
  destruct (is_nil (v_arg o)) eqn:En; rewrite ?En in Hp, Hs.
  - pose proof (proj1 (is_nil_len _) En) as Hz. destruct (0 <? len (v_arg o)) eqn:E0; [apply Z.ltb_lt in E0; lia|].
    destruct (v_implicit o), (v_alias o =? 0), (v_neg o); cbn [negb andb] in *;
      repeat (rewrite ?len_app, ?len_cons, ?len_nil); lia.
  - pose proof (proj1 (is_nil_false_len _) En) as Hz. destruct (0 <? len (v_arg o)) eqn:E0; [|apply Z.ltb_ge in E0; lia].
    destruct (v_implicit o), (v_alias o =? 0), (v_neg o); cbn [negb andb] in *;
      repeat (rewrite ?len_app, ?len_cons, ?len_nil); lia.
Qed.

Lemma len_header_pos o : 4 <= len (header o).
Proof.
  unfold header. rewrite <- app_assoc. cbn [app]. rewrite !len_cons.
  match goal with |- context [len ?s] => pose proof (len_nonneg s) end. lia.
Qed.

(* no intermediate sprintf overflows a buffer that holds the whole header plus its NUL *)
Lemma s3_fault bs o : len (header o) + 1 <= bs -> snd (s3_of bs o) = false.
Proof.
  intros Hb. pose proof (s3_text bs o) as Ht. revert Ht. unfold s3_of, header, sp. cbn [fst snd].
  rewrite sprintf_name.
  pose proof (len_nonneg (v_arg o)). pose proof (len_nonneg (neg_suffix o)). pose proof (len_nonneg (neg_prefix o)). pose proof (len_nonneg (v_name o)).
  destruct (v_implicit o) eqn:Ei; destruct (is_nil (v_arg o)) eqn:En; destruct (v_alias o =? 0) eqn:Ea;
    cbn [negb andb fst snd app orb]; rewrite ?sprintf_implicit_arg, ?sprintf_alias, ?sprintf_arg; intros Ht;
    unfold header in Hb; rewrite Ei, En, Ea in Hb; cbn [negb andb app] in Hb;
    repeat (rewrite ?len_app, ?len_cons, ?len_nil in Hb); repeat (rewrite ?len_app, ?len_cons, ?len_nil);
    repeat match goal with |- context [?a <? ?b] => destruct (Z.ltb_spec a b); [lia|] end; reflexivity.
Qed.

Lemma format_opt_unfold bs o maxW :
  format_opt bs o maxW =
  (let s3 := s3_of bs o in
   let n := len (fst s3) in
   let s4 := if n <? maxW then sp bs s3 FMT_PAD [AI (maxW - n); AI (maxW - n); AS PAD_STR] else s3 in
   (fst s4, snd s4 || (bs <? len (fst s4)))).
Proof. reflexivity. Qed.

(* c19_header: the text written for an option is its decorated name padded with blanks to maxW *)
Theorem format_opt_text bs o maxW : fst (format_opt bs o maxW) = pad_to maxW (header o).
Proof.
  rewrite format_opt_unfold. cbn zeta. rewrite s3_text. unfold pad_to.
  destruct (Z.ltb_spec (len (header o)) maxW) as [Hl|Hl]; cbn [fst].
  - unfold sp. cbn [fst]. rewrite s3_text, sprintf_pad by lia. reflexivity.
  - rewrite s3_text. replace (Z.to_nat (maxW - len (header o))) with 0%nat by lia. now rewrite app_nil_r.
Qed.

(* c19_no_overflow *)
Theorem format_opt_no_fault o maxW : snd (format_opt (buf_size o maxW) o maxW) = false.
Proof.
  rewrite format_opt_unfold. cbn zeta.
  set (bs := buf_size o maxW).
  assert (Hbs : Z.max maxW (len (header o)) + 1 <= bs).
  { unfold bs, buf_size, BUF_SLACK. rewrite len_header.
    pose proof (len_nonneg NEG_SUFFIX).
    destruct (negb (v_implicit o) && is_nil (v_arg o)); destruct (v_neg o && negb (is_nil (v_arg o))); lia. }
  rewrite s3_text.
  destruct (Z.ltb_spec (len (header o)) maxW) as [Hl|Hl].
  - unfold sp. cbn [fst snd]. rewrite s3_text, s3_fault by lia. rewrite sprintf_pad by lia.
    rewrite len_app, len_repeat. cbn [orb].
    destruct (Z.ltb_spec bs (len (header o) + Z.of_nat (Z.to_nat (maxW - len (header o))) + 1)); [lia|].
    destruct (Z.ltb_spec bs (len (header o) + Z.of_nat (Z.to_nat (maxW - len (header o))))); [lia|]. reflexivity.
  - rewrite s3_text, s3_fault by lia. cbn [orb]. destruct (Z.ltb_spec bs (len (header o))); [lia | reflexivity].
Qed.

(* ---------- placeholders ---------- *)
Lemma span_lit_spec d : forall lit rest, span_lit d = (lit, rest) ->
  d = lit ++ rest /\ (forall c, In c lit -> (c =? PH_ESC) = false) /\ (match rest with c :: _ => (c =? PH_ESC) = true | [] => True end).
Proof.
  induction d as [|c r IH]; intros lit rest H; simpl in H.
  - inversion H; subst. repeat split; auto. intros ? [].
  - destruct (c =? PH_ESC) eqn:E.
    + inversion H; subst. repeat split; auto. intros ? [].
    + destruct (span_lit r) as [a b] eqn:Es. inversion H; subst. destruct (IH a rest eq_refl) as (H1 & H2 & H3).
      split; [simpl; now rewrite <- H1|]. split; [|assumption]. intros x [<-|Hx]; auto.
Qed.

Lemma subst_lit lit : forall rest o, (forall c, In c lit -> (c =? PH_ESC) = false) -> subst (lit ++ rest) o = lit ++ subst rest o.
Proof.
  induction lit as [|c l IH]; intros rest o H; [reflexivity|].
  simpl app. cbn [subst]. assert (Hc : (c =? 37) = false) by (apply (H c); now left). rewrite Hc.
  rewrite IH; [reflexivity|]. intros x Hx. apply H. now right.
Qed.

Theorem desc_loop_subst o : forall fuel d, (length d < fuel)%nat -> desc_loop fuel d o = subst d o.
Proof.
  induction fuel as [|f IH]; intros d Hl; [lia|].
  cbn [desc_loop]. destruct (span_lit d) as [lit rest] eqn:Es.
  destruct (span_lit_spec d lit rest Es) as (Hd & Hlit & Hrest). subst d.
  rewrite subst_lit by assumption.
  destruct rest as [|p [|c r]].
  - now rewrite app_nil_r.
  - cbn [subst]. unfold PH_ESC in Hrest. rewrite Hrest. now rewrite app_nil_r.
  - cbn [subst]. unfold PH_ESC in Hrest. rewrite Hrest.
    rewrite IH; [reflexivity|]. rewrite app_length in Hl. simpl in Hl. lia.
Qed.

Theorem format_desc_spec o : format_desc o = [58; 32] ++ subst (v_desc o) o ++ [10].
Proof. unfold format_desc. rewrite desc_loop_subst by lia. reflexivity. Qed.

(* ---------- the help text ---------- *)
Lemma print_option_spec o maxW : print_option o maxW = (entry maxW o, false).
Proof.
  unfold print_option. destruct (format_opt (buf_size o maxW) o maxW) as [s f] eqn:E.
  pose proof (format_opt_text (buf_size o maxW) o maxW) as Ht. pose proof (format_opt_no_fault o maxW) as Hf.
  rewrite E in Ht, Hf. simpl in Ht, Hf. subst. unfold entry. now rewrite format_desc_spec.
Qed.

Lemma print_opts_spec dl maxW os : print_opts dl maxW os = (flat_map (entry maxW) (filter (opt_visible dl) os), false).
Proof.
  induction os as [|o r IH]; [reflexivity|].
  cbn [print_opts filter]. rewrite IH. change (opt_visible dl o) with (v_level o <=? dl). destruct (v_level o <=? dl); [|reflexivity].
  rewrite print_option_spec. reflexivity.
Qed.

Lemma format_group_spec g : format_group g = caption g.
Proof. reflexivity. Qed.

Lemma print_groups_spec dl maxW gs :
  print_groups dl maxW gs =
  (flat_map (fun g => caption g ++ flat_map (entry maxW) (filter (opt_visible dl) (g_opts g))) (filter (group_visible dl) gs), false).
Proof.
  induction gs as [|g r IH]; [reflexivity|].
  cbn [print_groups filter]. rewrite IH. unfold print_group. change (group_visible dl g) with (g_level g <=? dl).
  destruct (g_level g <=? dl); [|reflexivity]. rewrite print_opts_spec, format_group_spec. reflexivity.
Qed.

(* c19_visible *)
Theorem description_spec dl ctx : description dl ctx = (help_text dl ctx, false).
Proof.
  unfold description, help_text, out_order. destruct ctx as [|g0 rest]; [reflexivity|].
  apply print_groups_spec.
Qed.
