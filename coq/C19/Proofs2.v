(* C19 - proofs, part 2: the default command line - what it mentions, how it is tokenised and read back. *)
Require Import V.Lib.Base V.Gen.Consts_C19 V.C19.Model V.C19.Spec V.C19.Proofs.
Local Open Scope Z_scope.

Definition render (bods : list (str * (vopt * str))) : str := flat_map (fun x => fst x ++ mention (snd x) ++ [32]) bods.

Lemma render_app a b : render (a ++ b) = render a ++ render b.
Proof. unfold render. apply flat_map_app. Qed.

Lemma with_default_app a b : with_default (a ++ b) = with_default a ++ with_default b.
Proof. induction a as [|o r IH]; [reflexivity|]. simpl. destruct (v_dflt o); simpl; now rewrite IH. Qed.

Lemma def_text_mention o d : def_text o d = mention (o, d).
Proof. reflexivity. Qed.

Lemma defaults_opts_spec dl n : forall os line acc,
  exists bods line', defaults_opts dl n os line acc = (line', acc ++ render bods) /\
    map snd bods = with_default (filter (opt_visible dl) os) /\ Forall (fun x => is_break n (fst x)) bods.
Proof.
  induction os as [|o r IH]; intros line acc.
  - exists [], line. simpl. rewrite app_nil_r. auto.
  - cbn [defaults_opts filter]. change (opt_visible dl o) with (v_level o <=? dl).
    destruct (v_dflt o) as [d|] eqn:Ed.
    + destruct (v_level o <=? dl) eqn:El.
      * destruct (LINE_WIDTH <? line + len (def_text o d)).
        -- destruct (IH (n + len (def_text o d) + 1) ((acc ++ [10] ++ repeat 32 (Z.to_nat n)) ++ def_text o d ++ [32])) as (bods & l' & E & M & F).
           exists ((10 :: repeat 32 (Z.to_nat n), (o, d)) :: bods), l'. rewrite E. split; [|split].
           ++ f_equal. unfold render. cbn [flat_map fst snd]. rewrite def_text_mention. now rewrite <- !app_assoc.
           ++ cbn [map snd with_default]. rewrite Ed, M. reflexivity.
           ++ constructor; [right; reflexivity | assumption].
        -- destruct (IH (line + len (def_text o d) + 1) (acc ++ def_text o d ++ [32])) as (bods & l' & E & M & F).
           exists (([], (o, d)) :: bods), l'. rewrite E. split; [|split].
           ++ f_equal. unfold render. cbn [flat_map fst snd app]. rewrite def_text_mention. now rewrite <- !app_assoc.
           ++ cbn [map snd with_default]. rewrite Ed, M. reflexivity.
           ++ constructor; [left; reflexivity | assumption].
      * destruct (IH line acc) as (bods & l' & E & M & F). exists bods, l'. auto.
    + destruct (v_level o <=? dl); destruct (IH line acc) as (bods & l' & E & M & F); exists bods, l'; rewrite E; cbn [with_default]; rewrite ?Ed; auto.
Qed.

Lemma defaults_groups_spec dl n : forall gs line acc,
  exists bods line', defaults_groups dl n gs line acc = (line', acc ++ render bods) /\
    map snd bods = with_default (flat_map (fun g => filter (opt_visible dl) (g_opts g)) (filter (group_visible dl) gs)) /\
    Forall (fun x => is_break n (fst x)) bods.
Proof.
  induction gs as [|g r IH]; intros line acc.
  - exists [], line. simpl. rewrite app_nil_r. auto.
  - cbn [defaults_groups filter]. change (group_visible dl g) with (g_level g <=? dl).
    destruct (g_level g <=? dl).
    + destruct (defaults_opts_spec dl n (g_opts g) line acc) as (b1 & l1 & E1 & M1 & F1). rewrite E1.
      destruct (IH l1 (acc ++ render b1)) as (b2 & l2 & E2 & M2 & F2).
      exists (b1 ++ b2), l2. rewrite E2. split; [|split].
      * now rewrite render_app, app_assoc.
      * cbn [flat_map]. now rewrite map_app, with_default_app, M1, M2.
      * apply Forall_app. auto.
    + apply IH.
Qed.

(* c19_defaults_mention *)
Theorem defaults_spec dl n ctx :
  exists bods, defaults dl n ctx = render bods /\ map snd bods = with_default (visible_opts dl ctx) /\
               Forall (fun x => is_break n (fst x)) bods.
Proof.
  unfold defaults, visible_opts, out_order. destruct ctx as [|g0 rest].
  - exists []. repeat split. constructor.
  - destruct (defaults_groups_spec dl n (rest ++ [g0]) n []) as (bods & l' & E & M & F).
    exists bods. rewrite E. auto.
Qed.

(* ---------- tokenising the default command line ---------- *)
Lemma plain_not_space c : plain c = true -> is_space c = false.
Proof. unfold plain. intros H. destruct (is_space c); [discriminate | reflexivity]. Qed.

Lemma skip_ws_spaces k r : skip_ws (repeat 32 k ++ r) = skip_ws r.
Proof. induction k; [reflexivity|]. simpl repeat. simpl app. cbn [skip_ws]. now replace (is_space 32) with true by reflexivity. Qed.

Lemma skip_ws_break n b r : is_break n b -> skip_ws (b ++ r) = skip_ws r.
Proof.
  intros [->| ->]; [reflexivity|]. simpl app. cbn [skip_ws]. replace (is_space 10) with true by reflexivity. apply skip_ws_spaces.
Qed.

Lemma tok_scan_plain : forall m acc r, all_plain m = true -> tok_scan (m ++ 32 :: r) 32 acc = (acc ++ m, 32 :: r).
Proof.
  induction m as [|c m IH]; intros acc r H.
  - simpl. now rewrite app_nil_r.
  - simpl in H. apply andb_true_iff in H. destruct H as [Hc Hm].
    simpl app. cbn [tok_scan]. unfold plain in Hc.
    destruct (is_space c) eqn:Es; [discriminate|]. destruct (c =? 39) eqn:E1; [discriminate|].
    destruct (c =? 34) eqn:E2; [discriminate|]. destruct (c =? 92) eqn:E3; [discriminate|].
    assert (E0 : (c =? 32) = false).
    { destruct (c =? 32) eqn:E; [|reflexivity]. apply Z.eqb_eq in E. subst c. discriminate. }
    rewrite E0. cbn [orb andb negb]. rewrite IH by assumption. now rewrite <- app_assoc.
Qed.

Lemma mention_shape od : exists m, mention od = 45 :: 45 :: m /\ m = v_name (fst od) ++ 61 :: snd od.
Proof. eexists. split; reflexivity. Qed.

Lemma all_plain_app a b : all_plain (a ++ b) = all_plain a && all_plain b.
Proof. unfold all_plain. apply forallb_app. Qed.

Definition tok_safe (od : vopt * str) : Prop := all_plain (snd od) = true /\ all_plain (v_name (fst od)) = true.

Lemma mention_plain od : tok_safe od -> all_plain (mention od) = true.
Proof.
  intros [Hd Hn]. unfold mention. rewrite !all_plain_app, Hd, Hn. reflexivity.
Qed.

Lemma tokens_render n : forall bods fuel,
  Forall (fun x => is_break n (fst x)) bods -> Forall (fun x => tok_safe (snd x)) bods ->
  (length (render bods) < fuel)%nat ->
  tokens fuel (render bods) = map (fun x => mention (snd x)) bods.
Proof.
  induction bods as [|[b od] r IH]; intros fuel Hb Hs Hl.
  - destruct fuel; [lia|]. reflexivity.
  - inversion Hb as [|? ? Hb1 Hb2]; subst. inversion Hs as [|? ? Hs1 Hs2]; subst. cbn [fst snd] in *.
    destruct fuel as [|f]; [lia|].
    unfold render in *. cbn [flat_map fst snd] in *. fold (render r) in *.
    cbn [tokens]. rewrite <- !app_assoc. rewrite (skip_ws_break n b _ Hb1).
    destruct (mention_shape od) as (m & Hm & _). rewrite Hm. simpl app. cbn [skip_ws].
    replace (is_space 45) with false by reflexivity.
    change (45 :: 45 :: m ++ 32 :: render r) with ((45 :: 45 :: m) ++ 32 :: render r).
    rewrite tok_scan_plain by (rewrite <- Hm; now apply mention_plain).
    cbn [app map snd]. rewrite Hm. f_equal.
    (* the rest: a blank, then the remaining mentions *)
    destruct f as [|f']; [rewrite Hm in Hl; rewrite !app_length in Hl; cbn [length] in Hl; lia|].
    assert (Hstep : forall s, tokens (S f') (32 :: s) = tokens (S f') s).
    { intros s. cbn [tokens skip_ws]. replace (is_space 32) with true by reflexivity. reflexivity. }
    rewrite Hstep. apply IH; try assumption.
    rewrite Hm in Hl. rewrite !app_length in Hl. cbn [length] in Hl. lia.
Qed.

(* ---------- reading the tokens back ---------- *)
Lemma split_eq_name : forall nm d, existsb (Z.eqb 61) nm = false -> split_eq (nm ++ 61 :: d) = (nm, Some d).
Proof.
  induction nm as [|c nm IH]; intros d H; [reflexivity|].
  cbn [existsb] in H. apply orb_false_iff in H. destruct H as [Hc Hn]. simpl app. cbn [split_eq].
  rewrite Z.eqb_sym in Hc. rewrite Hc. now rewrite IH.
Qed.

Lemma str_eqb_eq a : forall b, str_eqb a b = true <-> a = b.
Proof.
  induction a as [|x a IH]; intros [|y b]; simpl; split; intros H; try reflexivity; try discriminate.
  - apply andb_true_iff in H. destruct H as [H1 H2]. apply Z.eqb_eq in H1. apply IH in H2. congruence.
  - inversion H; subst. rewrite Z.eqb_refl. simpl. now apply IH.
Qed.

Lemma find_unique (keys : list (str * nat)) k i :
  NoDup (map fst keys) -> In (k, i) keys -> find (fun e => str_eqb (fst e) k) keys = Some (k, i).
Proof.
  induction keys as [|[k' i'] r IH]; intros Hnd Hin; [destruct Hin|].
  simpl in Hnd. inversion Hnd as [|? ? Hni Hnd']; subst. cbn [find fst].
  destruct (str_eqb k' k) eqn:E.
  - apply str_eqb_eq in E. subst k'. destruct Hin as [Heq|Hin]; [congruence|].
    exfalso. apply Hni. apply in_map_iff. exists (k, i). auto.
  - destruct Hin as [Heq|Hin]; [inversion Heq; subst; rewrite (proj2 (str_eqb_eq k k) eq_refl) in E; discriminate|].
    now apply IH.
Qed.

Lemma keys_from_in : forall os i0 j o, nth_error os j = Some o -> In (v_name o, (i0 + j)%nat) (keys_from i0 os).
Proof.
  induction os as [|x r IH]; intros i0 j o H; [destruct j; discriminate|].
  cbn [keys_from]. apply in_or_app. right. destruct j as [|j].
  - simpl in H. inversion H; subst. left. f_equal. lia.
  - simpl in H. right. replace (i0 + S j)%nat with (S i0 + j)%nat by lia. now apply IH.
Qed.

Definition dummy : vopt := mkO [] 0 [] false [] false None 0 [].

(* every mention names an option of the context by its position *)
Definition placed (os : list vopt) (x : nat * (vopt * str)) : Prop := nth_error os (fst x) = Some (fst (snd x)).

Lemma parse_mentions os keys : keys = keys_from 0 os -> NoDup (map fst keys) ->
  forall (l : list (nat * (vopt * str))) acc,
    Forall (placed os) l -> Forall (fun x => cmd_safe (snd x) = true) l ->
    parse_toks os keys (map (fun x => mention (snd x)) l) acc = POk (acc ++ map (fun x => (fst x, snd (snd x))) l).
Proof.
  intros Hk Hnd. induction l as [|[i [o d]] r IH]; intros acc Hp Hs.
  - simpl. now rewrite app_nil_r.
  - inversion Hp as [|? ? Hp1 Hp2]; subst. inversion Hs as [|? ? Hs1 Hs2]; subst.
    unfold placed in Hp1. cbn [fst snd] in *.
    unfold cmd_safe in Hs1. cbn [fst snd] in Hs1.
    apply andb_true_iff in Hs1. destruct Hs1 as [Hs1 Himp]. apply andb_true_iff in Hs1. destruct Hs1 as [Hs1 Heq].
    apply negb_true_iff in Heq.
    cbn [map snd]. unfold mention at 1. cbn [fst snd app]. cbn [parse_toks].
    destruct (v_name o ++ 61 :: d) as [|c0 b0] eqn:Eb; [destruct (v_name o); discriminate|].
    cbv iota beta. rewrite <- Eb.
    rewrite (split_eq_name (v_name o) d Heq).
    assert (Hin : In (v_name o, i) (keys_from 0 os)) by (apply (keys_from_in os 0%nat i o Hp1)).
    assert (Hl : lookup (keys_from 0 os) (v_name o) = Found i).
    { unfold lookup. rewrite (find_unique (keys_from 0 os) (v_name o) i); [reflexivity | assumption | assumption]. }
    assert (Hnth : nth i os dummy = o) by (apply nth_error_nth; assumption).
    assert (Hsel : forall on, match lookup (keys_from 0 os) (v_name o) with
                              | Found i1 => inl (i1, d)
                              | Ambiguous => inr 2
                              | Unknown => match on with Some i1 => inl (i1, [110; 111]) | None => inr 1 end
                              end = (inl (i, d) : (nat * str) + Z)).
    { intros on. now rewrite Hl. }
    match goal with |- context [match ?sel with inr e => PErr e | inl p => _ end] =>
      replace sel with (inl (i, d) : (nat * str) + Z) by (symmetry; apply Hsel) end.
    fold dummy. rewrite Hnth.
    assert (Hni : negb (v_implicit o) && is_nil d = false).
    { destruct (v_implicit o); [reflexivity|]. simpl in Himp. apply negb_true_iff in Himp. now rewrite Himp. }
    rewrite Hni. rewrite IH by assumption. now rewrite <- app_assoc.
Qed.

(* ---------- c19_defaults_parse ---------- *)
Lemma with_default_in l o d : In (o, d) (with_default l) -> In o l /\ v_dflt o = Some d.
Proof.
  induction l as [|x r IH]; [intros []|]. simpl. destruct (v_dflt x) as [dx|] eqn:E.
  - intros [Heq|Hin]; [inversion Heq; subst; auto | destruct (IH Hin); auto].
  - intros Hin. destruct (IH Hin); auto.
Qed.

Lemma visible_in_ctx dl ctx o : In o (visible_opts dl ctx) -> In o (all_opts ctx).
Proof.
  unfold visible_opts, all_opts. intros H. apply in_flat_map in H. destruct H as (g & Hg & Ho).
  apply filter_In in Hg. destruct Hg as [Hg _]. apply filter_In in Ho. destruct Ho as [Ho _].
  apply in_flat_map. exists g. split; [|assumption].
  unfold out_order in Hg. destruct ctx as [|g0 rest]; [destruct Hg|].
  apply in_app_or in Hg. destruct Hg as [Hg|[<-|[]]]; [now right | now left].
Qed.

Lemma place_all os : forall ods : list (vopt * str), (forall od, In od ods -> In (fst od) os) ->
  exists l : list (nat * (vopt * str)), map snd l = ods /\ Forall (placed os) l.
Proof.
  induction ods as [|od r IH]; intros H.
  - exists []. split; [reflexivity | constructor].
  - destruct IH as (l & Hm & Hp); [intros x Hx; apply H; now right|].
    destruct (In_nth_error os (fst od) (H od (or_introl eq_refl))) as (i & Hi).
    exists ((i, od) :: l). split; [simpl; now rewrite Hm | constructor; assumption].
Qed.

Theorem defaults_parse dl n ctx :
  NoDup (map fst (keys_from 0 (all_opts ctx))) ->
  forallb cmd_safe (with_default (visible_opts dl ctx)) = true ->
  exists l : list (nat * (vopt * str)),
    map snd l = with_default (visible_opts dl ctx) /\ Forall (placed (all_opts ctx)) l /\
    parse_cmd ctx (defaults dl n ctx) = POk (map (fun x => (fst x, snd (snd x))) l).
Proof.
  intros Hnd Hsafe.
  destruct (defaults_spec dl n ctx) as (bods & Ed & Mb & Fb).
  destruct (place_all (all_opts ctx) (with_default (visible_opts dl ctx))) as (l & Ml & Pl).
  { intros [o d] Hin. apply with_default_in in Hin. destruct Hin as [Hin _]. now apply (visible_in_ctx dl ctx). }
  exists l. split; [assumption|]. split; [assumption|].
  assert (Hall : forall od, In od (with_default (visible_opts dl ctx)) -> cmd_safe od = true).
  { intros od. apply forallb_forall. exact Hsafe. }
  unfold parse_cmd, parse_cmd_os. rewrite Ed.
  rewrite (tokens_render n bods (S (length (render bods)))); [|assumption| |lia].
  - replace (map (fun x => mention (snd x)) bods) with (map (fun x : nat * (vopt * str) => mention (snd x)) l).
    + rewrite (parse_mentions (all_opts ctx) (keys_from 0 (all_opts ctx)) eq_refl Hnd l []); [reflexivity | assumption|].
      apply Forall_forall. intros x Hx. apply Hall. rewrite <- Ml. apply in_map_iff. exists x. auto.
    + rewrite <- (map_map snd mention l), <- (map_map snd mention bods). now rewrite Ml, Mb.
  - apply Forall_forall. intros x Hx.
    assert (Hc : cmd_safe (snd x) = true) by (apply Hall; rewrite <- Mb; apply in_map_iff; exists x; auto).
    unfold cmd_safe in Hc. apply andb_true_iff in Hc. destruct Hc as [Hc _]. apply andb_true_iff in Hc. destruct Hc as [Hc _].
    apply andb_true_iff in Hc. destruct Hc as [H1 H2]. split; assumption.
Qed.
