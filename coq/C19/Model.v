(* C19 - executable model of the help / default-command-line output of Potassco::ProgramOptions
   (src/program_options.cpp: Option::maxColumn, DefaultFormat::format x3, OptionGroup::format/maxColumn,
    OptionContext::add(const OptionGroup&) [merge by caption, level = min], description/defaults/setActiveDescLevel,
    Value::arg/implicit/defaultsTo) and of the part of
   parseCommandString that reads the default command line back (CommandStringParser::next, handleLongOpt,
   OptionContext::findImpl for long names).

   Each sprintf(buffer+n, fmt, ...) into the bufSize-sized vector is "append the formatted bytes, write a NUL
   behind them; Fault if n + k + 1 > bufSize".  The buffer size is an explicit parameter of format_opt.
   The format strings, decorations and all numeric constants come from Gen/Consts_C19.v (translator).       *)
Require Import V.Lib.Base V.Gen.Consts_C19 V.C19.Key.
Local Open Scope Z_scope.

Definition str := list Z.
Definition len (s : str) : Z := Z.of_nat (length s).
Definition is_nil (s : str) : bool := match s with [] => true | _ => false end.

Record vopt := mkO {
  v_name : str; v_alias : Z;           (* alias 0 = none *)
  v_arg : str;                         (* Value::arg() *)
  v_implicit : bool; v_impstr : str;   (* isImplicit(), implicit() *)
  v_neg : bool;                        (* isNegatable() *)
  v_dflt : option str;                 (* defaultsTo() *)
  v_level : Z; v_desc : str }.
Record group := mkG { g_caption : str; g_level : Z; g_opts : list vopt }.

(* ---------------- sprintf ---------------- *)
Inductive farg := AS (s : str) | AC (c : Z) | AI (n : Z).

Fixpoint is_prefix (p s : str) : option str :=
  match p, s with
  | [], _ => Some s
  | a :: p', b :: s' => if a =? b then is_prefix p' s' else None
  | _ :: _, [] => None
  end.

Definition pad_left (s : str) (w : Z) : str := s ++ repeat 32 (Z.to_nat (w - len s)).

(* the directives that occur: %s %c %% %-*.*s ; anything else is copied *)
Fixpoint fmt_out (fuel : nat) (fmt : str) (args : list farg) : str :=
  match fuel with
  | O => []
  | S f =>
      match fmt with
      | [] => []
      | c :: r =>
          if c =? 37 then
            match r with
            | [] => [c]
            | d :: r1 =>
                if d =? 115 then match args with AS s :: a => s ++ fmt_out f r1 a | _ => fmt_out f r1 (tl args) end
                else if d =? 99 then match args with AC ch :: a => ch :: fmt_out f r1 a | _ => fmt_out f r1 (tl args) end
                else if d =? 37 then 37 :: fmt_out f r1 args
                else match is_prefix [45; 42; 46; 42; 115] r with
                     | Some r2 => match args with
                                  | AI w :: AI p :: AS s :: a => pad_left (firstn (Z.to_nat p) s) w ++ fmt_out f r2 a
                                  | _ => fmt_out f r2 []
                                  end
                     | None => c :: fmt_out f r args
                     end
            end
          else c :: fmt_out f r args
      end
  end.
Definition sprintf (fmt : str) (args : list farg) : str := fmt_out (S (length fmt)) fmt args.

(* n += sprintf(buffer + n, fmt, args) into a buffer of bufSize bytes *)
Definition sp (bufSize : Z) (st : str * bool) (fmt : str) (args : list farg) : str * bool :=
  let out := sprintf fmt args in
  (fst st ++ out, snd st || (bufSize <? len (fst st) + len out + 1)).

(* ---------------- Option::maxColumn / DefaultFormat::format(buf, Option, maxW) ---------------- *)
Definition max_column (o : vopt) : Z :=
  let col := COL_BASE + len (v_name o) in
  let col := if v_alias o =? 0 then col else col + COL_ALIAS in
  let argN := len (v_arg o) in
  if 0 <? argN then
    let col := col + (argN + COL_ARG) in
    let col := if v_implicit o then col + COL_IMPLICIT else col in
    if v_neg o then col + COL_NEG_ARG else col
  else if v_neg o then col + COL_NEG_NOARG else col.

Definition buf_size (o : vopt) (maxW : Z) : Z :=
  Z.max maxW (max_column o) + BUF_SLACK + (if v_neg o && negb (is_nil (v_arg o)) then len NEG_SUFFIX else 0).

Definition format_opt (bufSize : Z) (o : vopt) (maxW : Z) : str * bool :=
  let arg := v_arg o in
  let np := if v_neg o && is_nil arg then NEG_PREFIX else [] in
  let ap := if v_neg o && negb (is_nil arg) then NEG_SUFFIX else [] in
  let s0 := sp bufSize ([], false) FMT_NAME [AS np; AS (v_name o)] in
  let s1 := if v_implicit o && negb (is_nil arg) then sp bufSize s0 FMT_IMPLICIT_ARG [AS arg; AS ap] else s0 in
  let s2 := if negb (v_alias o =? 0) then sp bufSize s1 FMT_ALIAS [AC (v_alias o)] else s1 in
  let s3 := if negb (v_implicit o)
            then sp bufSize s2 FMT_ARG [AC (if v_alias o =? 0 then ARG_SEP_NOALIAS else ARG_SEP_ALIAS); AS arg; AS ap] else s2 in
  let n := len (fst s3) in
  let s4 := if n <? maxW then sp bufSize s3 FMT_PAD [AI (maxW - n); AI (maxW - n); AS PAD_STR] else s3 in
  (fst s4, snd s4 || (bufSize <? len (fst s4))).                        (* assert(n <= bufSize) *)

(* ---------------- DefaultFormat::format(buf, desc, value, maxW) ---------------- *)
Fixpoint span_lit (d : str) : str * str :=
  match d with
  | [] => ([], [])
  | c :: r => if c =? PH_ESC then ([], d) else let '(a, b) := span_lit r in (c :: a, b)
  end.

Fixpoint desc_loop (fuel : nat) (d : str) (o : vopt) : str :=
  match fuel with
  | O => []
  | S f =>
      let '(lit, rest) := span_lit d in
      match rest with
      | [] => lit
      | _ :: [] => lit
      | _ :: c :: r =>
          let sub := if c =? PH_DEFAULT then match v_dflt o with Some x => x | None => [] end
                     else if c =? PH_ARG then v_arg o
                     else if c =? PH_IMPLICIT then (if v_implicit o then v_impstr o else [])
                     else [c] in
          lit ++ sub ++ desc_loop f r o
      end
  end.
Definition format_desc (o : vopt) : str := DESC_LEAD ++ desc_loop (S (length (v_desc o))) (v_desc o) o ++ DESC_END.

(* ---------------- DefaultFormat::format(buf, group) ---------------- *)
Definition format_group (g : group) : str :=
  if is_nil (g_caption g) then [] else GROUP_LEAD ++ g_caption g ++ GROUP_END.

(* ---------------- OptionGroup::maxColumn / format, OptionContext::description ---------------- *)
Definition group_max_col (dl : Z) (g : group) : Z :=
  fold_left (fun m o => if v_level o <=? dl then Z.max m (max_column o) else m) (g_opts g) 0.
Definition ctx_max_w (dl : Z) (ctx : list group) : Z :=
  fold_left (fun m g => Z.max m (group_max_col dl g)) ctx MIN_COLUMN.

Definition print_option (o : vopt) (maxW : Z) : str * bool :=
  let '(s, f) := format_opt (buf_size o maxW) o maxW in (s ++ format_desc o, f).

Fixpoint print_opts (dl maxW : Z) (os : list vopt) : str * bool :=
  match os with
  | [] => ([], false)
  | o :: r =>
      let '(s2, f2) := print_opts dl maxW r in
      if v_level o <=? dl then let '(s1, f1) := print_option o maxW in (s1 ++ s2, f1 || f2) else (s2, f2)
  end.

Definition print_group (dl maxW : Z) (g : group) : str * bool :=
  if g_level g <=? dl then let '(s, f) := print_opts dl maxW (g_opts g) in (format_group g ++ s, f) else ([], false).

Fixpoint print_groups (dl maxW : Z) (gs : list group) : str * bool :=
  match gs with
  | [] => ([], false)
  | g :: r => let '(s1, f1) := print_group dl maxW g in let '(s2, f2) := print_groups dl maxW r in (s1 ++ s2, f1 || f2)
  end.

Definition active_level (x : Z) : Z := Z.min x LEVEL_ALL.      (* setActiveDescLevel *)

Definition description (dl : Z) (ctx : list group) : str * bool :=
  let maxW := ctx_max_w dl ctx in
  match ctx with
  | [] => ([], false)
  | g0 :: rest => print_groups dl maxW (rest ++ [g0])
  end.

(* ---------------- OptionContext::defaults(n) ---------------- *)
Definition def_text (o : vopt) (d : str) : str := DEF_PREFIX ++ v_name o ++ DEF_ASSIGN ++ d.

Fixpoint defaults_opts (dl n : Z) (os : list vopt) (line : Z) (acc : str) : Z * str :=
  match os with
  | [] => (line, acc)
  | o :: r =>
      match v_dflt o with
      | Some d =>
          if v_level o <=? dl then
            let opt := def_text o d in
            let '(line1, acc1) := if LINE_WIDTH <? line + len opt then (n, acc ++ [10] ++ repeat 32 (Z.to_nat n)) else (line, acc) in
            defaults_opts dl n r (line1 + len opt + 1) (acc1 ++ opt ++ [32])
          else defaults_opts dl n r line acc
      | None => defaults_opts dl n r line acc
      end
  end.

Fixpoint defaults_groups (dl n : Z) (gs : list group) (line : Z) (acc : str) : Z * str :=
  match gs with
  | [] => (line, acc)
  | g :: r =>
      if g_level g <=? dl then let '(l1, a1) := defaults_opts dl n (g_opts g) line acc in defaults_groups dl n r l1 a1
      else defaults_groups dl n r line acc
  end.

Definition defaults (dl n : Z) (ctx : list group) : str :=
  match ctx with
  | [] => []
  | g0 :: rest => snd (defaults_groups dl n (rest ++ [g0]) n [])
  end.

(* ---------------- reading the default command line back ---------------- *)
Definition is_space (c : Z) : bool := ((9 <=? c) && (c <=? 13)) || (c =? 32).
Fixpoint skip_ws (s : str) : str :=
  match s with
  | c :: r => if is_space c then skip_ws r else s
  | [] => []
  end.

(* CommandStringParser::next, the scanning loop with terminator t *)
Fixpoint tok_scan (s : str) (t : Z) (acc : str) : str * str :=
  match s with
  | [] => (acc, [])
  | c :: r =>
      if c =? t then (if t =? 32 then (acc, s) else tok_scan r 32 acc)
      else if ((c =? 39) || (c =? 34)) && (t =? 32) then tok_scan r c acc
      else if negb (c =? 92) then tok_scan r t (acc ++ [c])
      else match r with
           | n :: r' => if (n =? 34) || (n =? 39) || (n =? 92) then tok_scan r' t (acc ++ [n]) else tok_scan r t (acc ++ [c])
           | [] => tok_scan r t (acc ++ [c])
           end
  end.

Fixpoint tokens (fuel : nat) (s : str) : list str :=
  match fuel with
  | O => []
  | S f => match skip_ws s with
           | [] => []
           | s' => let '(t, rest) := tok_scan s' 32 [] in t :: tokens f rest
           end
  end.

(* index_ : alias keys "-a" and long names, each mapped to the option's position in the context *)
Fixpoint keys_from (i : nat) (os : list vopt) : list (str * nat) :=
  match os with
  | [] => []
  | o :: r => (if v_alias o =? 0 then [] else [([45; v_alias o], i)]) ++ (v_name o, i) :: keys_from (S i) r
  end.
Definition all_opts (ctx : list group) : list vopt := flat_map g_opts ctx.

Fixpoint str_eqb (a b : str) : bool :=
  match a, b with
  | [], [] => true
  | x :: a', y :: b' => (x =? y) && str_eqb a' b'
  | _, _ => false
  end.

Inductive found := Found (i : nat) | Unknown | Ambiguous.
(* findImpl(key, find_name_or_prefix): exact key, else the unique key with this prefix *)
Definition lookup (keys : list (str * nat)) (k : str) : found :=
  match find (fun e => str_eqb (fst e) k) keys with
  | Some e => Found (snd e)
  | None => match filter (fun e => match is_prefix k (fst e) with Some _ => true | None => false end) keys with
            | [] => Unknown
            | [e] => Found (snd e)
            | _ => Ambiguous
            end
  end.

Fixpoint split_eq (s : str) : str * option str :=
  match s with
  | [] => ([], None)
  | c :: r => if c =? 61 then ([], Some r) else let '(a, b) := split_eq r in (c :: a, b)
  end.

Inductive pres := POk (l : list (nat * str)) | PErr (cls : Z).     (* 1 unknown, 2 ambiguous, 3 syntax, 8 not modelled *)

Definition POSITIONAL : str := [80; 111; 115; 105; 116; 105; 111; 110; 97; 108; 32; 79; 112; 116; 105; 111; 110].
Definition NO_PREFIX : str := [110; 111; 45].

Fixpoint parse_toks (os : list vopt) (keys : list (str * nat)) (toks : list str) (acc : list (nat * str)) : pres :=
  match toks with
  | [] => POk acc
  | t :: r =>
      match t with
      | 45 :: 45 :: [] => POk acc
      | 45 :: 45 :: body =>
          let '(name, v) := split_eq body in
          let value := match v with Some x => x | None => [] end in
          let on := if is_nil value then
                      match is_prefix NO_PREFIX body with
                      | Some rest => match lookup keys rest with
                                     | Found i => if v_neg (nth i os (mkO [] 0 [] false [] false None 0 [])) then Some i else None
                                     | _ => None
                                     end
                      | None => None
                      end
                    else None in
          let sel := match lookup keys name with
                     | Found i => inl (i, value)
                     | Ambiguous => inr 2
                     | Unknown => match on with Some i => inl (i, [110; 111]) | None => inr 1 end
                     end in
          match sel with
          | inr e => PErr e
          | inl (i, value) =>
              let o := nth i os (mkO [] 0 [] false [] false None 0 []) in
              if negb (v_implicit o) && is_nil value then
                match r with
                | nv :: r' => parse_toks os keys r' (acc ++ [(i, nv)])
                | [] => PErr 3
                end
              else parse_toks os keys r (acc ++ [(i, value)])
          end
      | 45 :: _ :: _ => PErr 8
      | _ => match lookup keys POSITIONAL with
             | Found i => parse_toks os keys r (acc ++ [(i, t)])
             | Ambiguous => PErr 2
             | Unknown => PErr 1
             end
      end
  end.

(* parseCommandString against a context whose options_ vector (registration order) is os *)
Definition parse_cmd_os (os : list vopt) (cmd : str) : pres :=
  parse_toks os (keys_from 0 os) (tokens (S (length cmd)) cmd) [].
Definition parse_cmd (ctx : list group) (cmd : str) : pres := parse_cmd_os (all_opts ctx) cmd.

(* ---------------- OptionContext::add(const OptionGroup&) ----------------
   findGroupKey(caption): the first group with this caption (std::string ==).  None: push_back(OptionGroup(caption, level)),
   then the options are appended one by one (insertOption; every add of the model succeeds, refused adds are the
   harness's business) and finally  groups_[k].setDescriptionLevel(std::min(options.descLevel(), groups_[k].descLevel())).
   groups_ keeps the order of the first add of each caption; options_ (the registration order, used by the index)
   is the concatenation of the groups as they were handed to add.                                                  *)
Fixpoint add_group (g : group) (ctx : list group) : list group :=
  match ctx with
  | [] => [mkG (g_caption g) (Z.min (g_level g) (g_level g)) (g_opts g)]
  | h :: r =>
      if str_eqb (g_caption h) (g_caption g)
      then mkG (g_caption h) (Z.min (g_level g) (g_level h)) (g_opts h ++ g_opts g) :: r
      else h :: add_group g r
  end.
Definition build_ctx (pieces : list group) : list group := fold_left (fun c g => add_group g c) pieces [].
Definition registered (pieces : list group) : list vopt := flat_map g_opts pieces.

(* ---------------- case decoding and observation ---------------- *)
Definition take_str (l : list Z) : str * list Z :=
  match l with
  | n :: r => (firstn (Z.to_nat n) r, skipn (Z.to_nat n) r)
  | [] => ([], [])
  end.
Definition take_opt_str (l : list Z) : option str * list Z :=
  match l with
  | [] => (None, [])
  | 0 :: r => (None, r)
  | _ :: r => let '(s, r') := take_str r in (Some s, r')
  end.

(* option: name alias neg level flag arg? impl? dflt? desc
   flag bit 0: the value is a flag;  flag bit 1: the option is DECLARED THROUGH ITS KEY STRING - `name` holds the key
   (name[!][,alias][,@level], any bytes), `level` is the level the value has before the declaration (Value::level), alias / neg are
   not read - and the option is what  group.addOptions()(key, value, desc)  makes of it (Key.parse_key with the level the group has at
   that moment); a key the init helper refuses (Error) declares nothing: None.  Without bit 1 the harness writes the key
   name[!][,alias],@level itself.                                                                                            *)
Fixpoint dec_opts (gl : Z) (n : nat) (l : list Z) : list (option vopt) * list Z :=
  match n with
  | O => ([], l)
  | S n' =>
      let '(name, r0) := take_str l in
      match r0 with
      | alias :: neg :: level :: flag :: r1 =>
          let '(arg, r2) := take_opt_str r1 in
          let '(impl, r3) := take_opt_str r2 in
          let '(dflt, r4) := take_opt_str r3 in
          let '(desc, r5) := take_str r4 in
          let isflag := Z.odd flag in
          let keyed := Z.odd (flag / 2) in
          let arg' := match arg with Some a => a | None => if isflag then ARG_FLAG else ARG_DEFAULT end in
          let implicit := isflag || match impl with Some _ => true | None => false end in
          let impstr := match impl with Some (c :: i) => c :: i | _ => IMPLICIT_DEFAULT end in
          let o := if keyed
                   then match parse_key gl name level with
                        | Some k => Some (mkO (k_name k) (k_alias k) arg' implicit impstr (k_neg k) dflt (k_level k) desc)
                        | None => None
                        end
                   else Some (mkO name alias arg' implicit impstr (negb (neg =? 0)) dflt level desc) in
          let '(os, r6) := dec_opts gl n' r5 in
          (o :: os, r6)
      | _ => ([], [])
      end
  end.

Definition keep (ds : list (option vopt)) : list vopt := flat_map (fun d => match d with Some o => [o] | None => [] end) ds.

(* group: caption level nOpts options.  level < 8: the group is created with this level and handed to add with it.
   level >= 8: the group is created with level  level / 8 - 1, the options are declared in it, and then its level is changed
   (OptionGroup::setDescriptionLevel) to  level mod 8  before it is handed to OptionContext::add.                              *)
Definition decl_level (L : Z) : Z := if L <? 8 then L else L / 8 - 1.
Definition add_level (L : Z) : Z := if L <? 8 then L else L mod 8.

(* the groups as handed to add, each with its declarations (None = a key the init helper refused) *)
Fixpoint dec_groups (n : nat) (l : list Z) : list (group * list (option vopt)) :=
  match n with
  | O => []
  | S n' =>
      let '(cap, r0) := take_str l in
      match r0 with
      | level :: nopts :: r1 =>
          let '(ds, r2) := dec_opts (decl_level level) (Z.to_nat nopts) r1 in
          (mkG cap (add_level level) (keep ds), ds) :: dec_groups n' r2
      | _ => []
      end
  end.

Definition obs_str (s : str) : list Z := len s :: s.

Definition obs_parse (p : pres) : list Z :=
  match p with
  | PErr e => [e]
  | POk l => 0 :: Z.of_nat (length l) :: flat_map (fun iv => Z.of_nat (fst iv) :: obs_str (snd iv)) l
  end.

Definition run_case (c : list Z) : list Z :=
  match c with
  | active :: n :: ng :: r =>
      let dgs := dec_groups (Z.to_nat ng) r in
      let pieces := map fst dgs in                     (* the OptionGroups in the order they are handed to add *)
      let decls := flat_map snd dgs in                 (* every declaration, in order: the option, or None = key refused *)
      let ctx := build_ctx pieces in
      let os := registered pieces in
      let dl := active_level active in
      let '(d, f) := description dl ctx in
      let defs := defaults dl n ctx in
      flat_map (fun x => match x with
                         | Some o => obs_str (v_name o) ++ [v_alias o; v_level o; b2z (v_neg o)]
                         | None => [-1]
                         end) decls
      ++ obs_str d ++ [b2z f] ++ obs_str defs ++ obs_parse (parse_cmd_os os defs)
  | _ => []
  end.
