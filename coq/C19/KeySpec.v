(* C19 - the key syntax  name[!][,alias][,@level]  declaratively: which byte strings are keys, and what each denotes.
   Definitions only.  `key_form gl vl key d`: with gl = level of the owning group at the time of the declaration and vl = level of the
   value handed in, `key` is accepted and declares the option d.  The forms that go beyond the documented syntax are marked LENIENT. *)
Require Import V.Lib.Base V.Gen.Consts_C19 V.C19.Key.
Local Open Scope Z_scope.

Definition no_sep (s : list Z) : Prop := ~ In KEY_SEP s.
Definition all_digits (ds : list Z) : Prop := Forall (fun c => KEY_DIGIT_LO <= c <= KEY_DIGIT_HI) ds.

(* the number a digit string stands for in an `unsigned` accumulator, and as a plain decimal number *)
Fixpoint dec_acc (ds : list Z) (acc : Z) : Z :=
  match ds with [] => acc | d :: r => dec_acc r ((acc * KEY_BASE + (d - KEY_DIGIT_LO)) mod UINT_MOD) end.
Fixpoint dec_plain (ds : list Z) (acc : Z) : Z :=
  match ds with [] => acc | d :: r => dec_plain r (acc * 10 + (d - 48)) end.

(* the name part -> (long name, negatable) *)
Inductive name_form : list Z -> list Z -> bool -> Prop :=
| nf_plain ln : ~ (exists p, ln = p ++ [KEY_NEG]) -> name_form ln ln false                       (* name *)
| nf_neg p c : c <> KEY_ESC -> name_form (p ++ [c; KEY_NEG]) (p ++ [c]) true                     (* name!   negatable *)
| nf_esc p : name_form (p ++ [KEY_ESC; KEY_NEG]) (p ++ [KEY_NEG]) false.                         (* name\!  the name ends in '!' *)

(* the text behind the first ',' -> (alias, level);  an omitted @level means the level gl of the group *)
Inductive tail_form (gl : Z) : list Z -> Z -> Z -> Prop :=
| tf_alias a : gl <= LEVEL_HIDDEN -> tail_form gl [a] a gl                                       (* ,a *)
| tf_alias_sep a : gl <= LEVEL_HIDDEN -> tail_form gl [a; KEY_SEP] a gl                          (* ,a,        LENIENT: trailing ',' *)
| tf_alias_level a ds : all_digits ds -> dec_acc ds 0 <= LEVEL_HIDDEN ->
    tail_form gl (a :: KEY_SEP :: KEY_LEVEL :: ds) a (dec_acc ds 0)                              (* ,a,@N      LENIENT: N may be empty (= 0) *)
| tf_level d ds : all_digits (d :: ds) -> dec_acc (d :: ds) 0 <= LEVEL_HIDDEN ->
    tail_form gl (KEY_LEVEL :: d :: ds) 0 (dec_acc (d :: ds) 0).                                 (* ,@N *)

Inductive key_form (gl vl : Z) : list Z -> keyd -> Prop :=
| kf_plain ln nm neg : ln <> [] -> no_sep ln -> hd 0 ln <> KEY_NEG -> name_form ln nm neg ->
    key_form gl vl ln (mkK nm neg 0 vl)                                                          (* no ',' part: the value keeps its own level *)
| kf_parts ln n a lv nm neg : ln <> [] -> no_sep ln -> hd 0 ln <> KEY_NEG -> tail_form gl n a lv -> name_form ln nm neg ->
    key_form gl vl (ln ++ KEY_SEP :: n) (mkK nm neg a lv).

(* the level a key renders: explicit, or the defaults *)
Definition denoted_level (gl vl alias : Z) (lv : option Z) : Z :=
  match lv with Some l => l | None => if alias =? 0 then vl else gl end.
