(* C19 - OptionContext::add merges groups by caption: options appended, level = minimum. *)
Require Import V.Lib.Base V.Gen.Consts_C19 V.C19.Model V.C19.Spec V.C19.Proofs V.C19.Proofs2.
Require Import Permutation.
Local Open Scope Z_scope.

Definition fo_step (acc : list str) (x : str) : list str :=
  if existsb (fun y => str_eqb y x) acc then acc else acc ++ [x].

Lemma first_occ_snoc l x : first_occ (l ++ [x]) = fo_step (first_occ l) x.
Proof. unfold first_occ. rewrite fold_left_app. reflexivity. Qed.

Lemma existsb_str_in x acc : existsb (fun y => str_eqb y x) acc = true <-> In x acc.
Proof.
  rewrite existsb_exists. split.
  - intros (y & Hy & He). apply str_eqb_eq in He. now subst.
  - intros H. exists x. split; [assumption | now apply str_eqb_eq].
Qed.

Lemma fo_step_in acc x y : In y (fo_step acc x) <-> In y acc \/ y = x.
Proof.
  unfold fo_step. destruct (existsb (fun y0 => str_eqb y0 x) acc) eqn:E.
  - apply existsb_str_in in E. split; [auto | intros [H| ->]; assumption].
  - rewrite in_app_iff. simpl. intuition.
Qed.

Lemma first_occ_in l : forall x, In x (first_occ l) <-> In x l.
Proof.
  induction l as [|a l IH] using rev_ind; intros x; [reflexivity|].
  rewrite first_occ_snoc, fo_step_in, IH, in_app_iff. simpl. intuition.
Qed.

Lemma first_occ_nodup l : NoDup (first_occ l).
Proof.
  induction l as [|a l IH] using rev_ind; [constructor|].
  rewrite first_occ_snoc. unfold fo_step. destruct (existsb (fun y => str_eqb y a) (first_occ l)) eqn:E; [assumption|].
  assert (Hn : ~ In a (first_occ l)) by (intros H; apply existsb_str_in in H; congruence).
  clear E. revert IH Hn. generalize (first_occ l). intros m. induction m as [|b m IHm]; intros Hnd Hn.
  - repeat constructor. intros [].
  - inversion Hnd; subst. simpl. constructor.
    + rewrite in_app_iff. simpl. intros [H|[H|[]]]; [contradiction | subst; apply Hn; now left].
    + apply IHm; [assumption | intros H; apply Hn; now right].
Qed.

Lemma first_occ_hd l : hd_error (first_occ l) = hd_error l.
Proof.
  induction l as [|a l IH] using rev_ind; [reflexivity|].
  rewrite first_occ_snoc. unfold fo_step. destruct l as [|b l].
  - reflexivity.
  - simpl app. simpl hd_error at 2. simpl hd_error in IH.
    destruct (existsb (fun y => str_eqb y a) (first_occ (b :: l))); [assumption|].
    destruct (first_occ (b :: l)); [discriminate | exact IH].
Qed.

(* ---------- one add ---------- *)
Lemma add_group_caps g : forall c, map g_caption (add_group g c) = fo_step (map g_caption c) (g_caption g).
Proof.
  induction c as [|h r IH]; [reflexivity|].
  cbn [add_group map]. unfold fo_step. cbn [existsb].
  destruct (str_eqb (g_caption h) (g_caption g)) eqn:E; cbn [orb map g_caption]; [reflexivity|].
  rewrite IH. unfold fo_step. destruct (existsb (fun y => str_eqb y (g_caption g)) (map g_caption r)); reflexivity.
Qed.

Definition merged_into (h g : group) : group := mkG (g_caption h) (Z.min (g_level g) (g_level h)) (g_opts h ++ g_opts g).

Lemma str_eqb_false a b : str_eqb a b = false -> a <> b.
Proof. intros H E. apply str_eqb_eq in E. congruence. Qed.

Lemma add_group_in g : forall c, NoDup (map g_caption c) -> forall G, In G (add_group g c) ->
  (In G c /\ g_caption G <> g_caption g) \/
  (exists h, In h c /\ g_caption h = g_caption g /\ G = merged_into h g) \/
  ((forall h, In h c -> g_caption h <> g_caption g) /\ G = mkG (g_caption g) (Z.min (g_level g) (g_level g)) (g_opts g)).
Proof.
  induction c as [|h r IH]; intros Hnd G H.
  - right. right. destruct H as [<-|[]]. split; [intros ? []| reflexivity].
  - cbn [map] in Hnd. inversion Hnd as [|? ? Hnotin Hnd']; subst.
    cbn [add_group] in H. destruct (str_eqb (g_caption h) (g_caption g)) eqn:E.
    + apply str_eqb_eq in E. destruct H as [<-|H].
      * right. left. exists h. split; [now left|]. split; [assumption | reflexivity].
      * left. split; [now right|]. intros Heq. apply Hnotin. rewrite E, <- Heq. now apply in_map.
    + apply str_eqb_false in E. destruct H as [<-|H].
      * left. split; [now left | assumption].
      * destruct (IH Hnd' G H) as [[Hin Hne]|[(h' & Hin & Hc & HG)|[Hall HG]]].
        -- left. split; [now right | assumption].
        -- right. left. exists h'. split; [now right|]. split; assumption.
        -- right. right. split; [|assumption]. intros h' [<-|Hin]; [assumption | now apply Hall].
Qed.

Lemma fo_step_nodup acc x : NoDup acc -> NoDup (fo_step acc x).
Proof.
  intros Hnd. unfold fo_step. destruct (existsb (fun y => str_eqb y x) acc) eqn:E; [assumption|].
  assert (Hn : ~ In x acc) by (intros H; apply existsb_str_in in H; congruence).
  clear E. induction acc as [|b m IHm].
  - repeat constructor. intros [].
  - inversion Hnd; subst. simpl. constructor.
    + rewrite in_app_iff. simpl. intros [H|[H|[]]]; [contradiction | subst; apply Hn; now left].
    + apply IHm; [assumption | intros H; apply Hn; now right].
Qed.

(* ---------- all adds ---------- *)
Lemma build_snoc ps g : build_ctx (ps ++ [g]) = add_group g (build_ctx ps).
Proof. unfold build_ctx. rewrite fold_left_app. reflexivity. Qed.

Definition group_spec (ps : list group) (G : group) : Prop :=
  g_opts G = cap_opts (g_caption G) ps /\
  forall L, g_level G <= L <-> exists p, In p ps /\ g_caption p = g_caption G /\ g_level p <= L.

Lemma same_cap_true cap g : same_cap cap g = true <-> g_caption g = cap.
Proof. unfold same_cap. apply str_eqb_eq. Qed.
Lemma same_cap_false cap g : g_caption g <> cap -> same_cap cap g = false.
Proof. intros H. destruct (same_cap cap g) eqn:E; [apply same_cap_true in E; contradiction | reflexivity]. Qed.

Lemma cap_opts_snoc cap ps g : cap_opts cap (ps ++ [g]) = cap_opts cap ps ++ (if same_cap cap g then g_opts g else []).
Proof.
  unfold cap_opts. rewrite filter_app, flat_map_app. f_equal. cbn [filter]. destruct (same_cap cap g); simpl; [now rewrite app_nil_r | reflexivity].
Qed.

Lemma cap_opts_none cap ps : (forall p, In p ps -> g_caption p <> cap) -> cap_opts cap ps = [].
Proof.
  induction ps as [|p r IH]; intros H; [reflexivity|].
  unfold cap_opts. cbn [filter]. rewrite same_cap_false by (apply H; now left).
  apply IH. intros q Hq. apply H. now right.
Qed.

Theorem merge_spec : forall ps,
  map g_caption (build_ctx ps) = first_occ (map g_caption ps) /\
  forall G, In G (build_ctx ps) -> group_spec ps G.
Proof.
  induction ps as [|g ps IH] using rev_ind.
  - split; [reflexivity | intros G []].
  - destruct IH as [IHc IHg]. rewrite build_snoc. split.
    + rewrite add_group_caps, IHc, map_app. cbn [map]. now rewrite first_occ_snoc.
    + intros G HG.
      assert (Hnd : NoDup (map g_caption (build_ctx ps))) by (rewrite IHc; apply first_occ_nodup).
      destruct (add_group_in g (build_ctx ps) Hnd G HG) as [[Hin Hne]|[(h & Hin & Hc & ->)|[Hall ->]]].
      * destruct (IHg G Hin) as [Ho Hl]. split.
        -- rewrite cap_opts_snoc, same_cap_false by (intros E; apply Hne; now symmetry). now rewrite app_nil_r.
        -- intros L. rewrite Hl. split; intros (p & Hp & Hcp & Hlp).
           ++ exists p. split; [apply in_or_app; now left | auto].
           ++ apply in_app_or in Hp. destruct Hp as [Hp|[<-|[]]]; [exists p; auto | congruence].
      * destruct (IHg h Hin) as [Ho Hl]. unfold merged_into. split; cbn [g_opts g_caption g_level].
        -- rewrite cap_opts_snoc, Ho. f_equal. assert (E : same_cap (g_caption h) g = true) by (apply same_cap_true; now symmetry). now rewrite E.
        -- intros L. split.
           ++ intros Hm. destruct (Z.min_spec (g_level g) (g_level h)) as [[_ Em]|[_ Em]]; rewrite Em in Hm.
              ** exists g. split; [apply in_or_app; right; now left|]. split; [now symmetry | assumption].
              ** apply Hl in Hm. destruct Hm as (p & Hp & Hcp & Hlp). exists p. split; [apply in_or_app; now left | auto].
           ++ intros (p & Hp & Hcp & Hlp). apply in_app_or in Hp. destruct Hp as [Hp|[<-|[]]].
              ** assert (g_level h <= L) by (apply Hl; exists p; auto). lia.
              ** lia.
      * split; cbn [g_opts g_caption g_level].
        -- rewrite cap_opts_snoc, cap_opts_none.
           ++ assert (E : same_cap (g_caption g) g = true) by (now apply same_cap_true). now rewrite E.
           ++ intros p Hp Hcp. assert (Hi : In (g_caption g) (map g_caption (build_ctx ps))).
              { rewrite IHc. apply first_occ_in. rewrite <- Hcp. now apply in_map. }
              apply in_map_iff in Hi. destruct Hi as (h & Hh & Hin). exact (Hall h Hin Hh).
        -- intros L. rewrite Z.min_id. split.
           ++ intros Hm. exists g. split; [apply in_or_app; right; now left | auto].
           ++ intros (p & Hp & Hcp & Hlp). apply in_app_or in Hp. destruct Hp as [Hp|[<-|[]]]; [|assumption].
              exfalso. assert (Hi : In (g_caption g) (map g_caption (build_ctx ps))).
              { rewrite IHc. apply first_occ_in. rewrite <- Hcp. now apply in_map. }
              apply in_map_iff in Hi. destruct Hi as (h & Hh & Hin). exact (Hall h Hin Hh).
Qed.

(* ---------- what is visible after the adds ---------- *)
Lemma out_order_in ctx G : In G (out_order ctx) <-> In G ctx.
Proof. destruct ctx as [|g0 r]; [reflexivity|]. unfold out_order. rewrite in_app_iff. simpl. intuition. Qed.

Lemma visible_opts_in dl ctx o :
  In o (visible_opts dl ctx) <-> exists G, In G ctx /\ g_level G <= dl /\ In o (g_opts G) /\ v_level o <= dl.
Proof.
  unfold visible_opts. rewrite in_flat_map. split.
  - intros (G & HG & Ho). apply filter_In in HG. destruct HG as [HG Hv]. apply filter_In in Ho. destruct Ho as [Ho Hov].
    exists G. rewrite out_order_in in HG. unfold group_visible in Hv. unfold opt_visible in Hov. repeat split; try assumption; lia.
  - intros (G & HG & Hl & Ho & Hol). exists G. split; apply filter_In; split; try assumption.
    + now apply out_order_in.
    + unfold group_visible. lia.
    + unfold opt_visible. lia.
Qed.

Lemma cap_opts_in cap ps o : In o (cap_opts cap ps) <-> exists p, In p ps /\ g_caption p = cap /\ In o (g_opts p).
Proof.
  unfold cap_opts. rewrite in_flat_map. split.
  - intros (p & Hp & Ho). apply filter_In in Hp. destruct Hp as [Hp Hc]. apply same_cap_true in Hc. exists p. auto.
  - intros (p & Hp & Hc & Ho). exists p. split; [|assumption]. apply filter_In. split; [assumption | now apply same_cap_true].
Qed.

Theorem merged_visible ps dl o :
  In o (visible_opts dl (build_ctx ps)) <->
  exists p, In p ps /\ In o (g_opts p) /\ v_level o <= dl /\ exists q, In q ps /\ g_caption q = g_caption p /\ g_level q <= dl.
Proof.
  destruct (merge_spec ps) as [Hc Hg]. rewrite visible_opts_in. split.
  - intros (G & HG & Hl & Ho & Hol). destruct (Hg G HG) as [Eo El].
    rewrite Eo in Ho. apply cap_opts_in in Ho. destruct Ho as (p & Hp & Hcp & Ho).
    exists p. repeat split; try assumption. apply El in Hl. destruct Hl as (q & Hq & Hcq & Hlq). exists q. repeat split; try assumption. congruence.
  - intros (p & Hp & Ho & Hol & q & Hq & Hcq & Hlq).
    assert (Hi : In (g_caption p) (map g_caption (build_ctx ps))) by (rewrite Hc; apply first_occ_in; now apply in_map).
    apply in_map_iff in Hi. destruct Hi as (G & HGc & HG). destruct (Hg G HG) as [Eo El].
    exists G. repeat split; try assumption.
    + apply El. exists q. repeat split; try assumption. congruence.
    + rewrite Eo. apply cap_opts_in. exists p. auto.
Qed.

Lemma cap_shown_iff dl cap ps : cap_shown dl cap ps = true <-> exists q, In q ps /\ g_caption q = cap /\ g_level q <= dl.
Proof.
  unfold cap_shown. rewrite existsb_exists. split.
  - intros (q & Hq & H). apply andb_true_iff in H. destruct H as [H1 H2]. apply same_cap_true in H1. exists q. repeat split; try assumption. lia.
  - intros (q & Hq & Hc & Hl). exists q. split; [assumption|]. apply andb_true_iff. split; [now apply same_cap_true | lia].
Qed.

Lemma rot_map {A B} (h : A -> B) l : rot (map h l) = map h (rot l).
Proof. destruct l; [reflexivity|]. simpl. now rewrite map_app. Qed.
Lemma rot_in {A} (l : list A) x : In x (rot l) <-> In x l.
Proof. destruct l; [reflexivity|]. simpl. rewrite in_app_iff. simpl. intuition. Qed.

Lemma flat_filter_caps {B} (f : group -> list B) (gv : group -> bool) (F : str -> list B) (P : str -> bool) :
  forall l, (forall G, In G l -> gv G = P (g_caption G) /\ f G = F (g_caption G)) ->
  flat_map f (filter gv l) = flat_map F (filter P (map g_caption l)).
Proof.
  induction l as [|G r IH]; intros H; [reflexivity|].
  destruct (H G (or_introl eq_refl)) as [H1 H2]. cbn [filter map]. rewrite <- H1.
  assert (IH' := IH (fun G' HG' => H G' (or_intror HG'))).
  destruct (gv G); [cbn [flat_map]; now rewrite H2, IH' | exact IH'].
Qed.

(* the exact list, with multiplicity and order: captions in the order of their first add (the first one last), each caption
   shown iff some add gave it a level <= dl, its options in the order of the adds, filtered by their own level *)
Theorem merged_visible_list ps dl :
  visible_opts dl (build_ctx ps) =
  flat_map (fun cap => filter (opt_visible dl) (cap_opts cap ps))
           (filter (fun cap => cap_shown dl cap ps) (rot (first_occ (map g_caption ps)))).
Proof.
  destruct (merge_spec ps) as [Hc Hg]. rewrite <- Hc, rot_map. unfold visible_opts.
  assert (Er : out_order (build_ctx ps) = rot (build_ctx ps)) by reflexivity. rewrite Er. clear Er.
  apply (flat_filter_caps (fun g => filter (opt_visible dl) (g_opts g)) (group_visible dl)
                          (fun cap => filter (opt_visible dl) (cap_opts cap ps)) (fun cap => cap_shown dl cap ps)).
  intros G HG. apply (proj1 (rot_in _ _)) in HG. destruct (Hg G HG) as [Eo El]. split; [|now rewrite Eo].
  unfold group_visible. destruct (cap_shown dl (g_caption G) ps) eqn:E.
  - apply cap_shown_iff in E. apply El in E. lia.
  - destruct (g_level G <=? dl) eqn:E2; [|reflexivity]. assert (H : g_level G <= dl) by lia.
    apply El in H. apply cap_shown_iff in H. congruence.
Qed.

(* ---------- reading the default command line back against the registration order ---------- *)
Theorem defaults_parse_os dl n ctx os :
  NoDup (map fst (keys_from 0 os)) -> (forall o, In o (all_opts ctx) -> In o os) ->
  forallb cmd_safe (with_default (visible_opts dl ctx)) = true ->
  exists l : list (nat * (vopt * str)),
    map snd l = with_default (visible_opts dl ctx) /\ Forall (placed os) l /\
    parse_cmd_os os (defaults dl n ctx) = POk (map (fun x => (fst x, snd (snd x))) l).
Proof.
  intros Hnd Hsub Hsafe.
  destruct (defaults_spec dl n ctx) as (bods & Ed & Mb & Fb).
  destruct (place_all os (with_default (visible_opts dl ctx))) as (l & Ml & Pl).
  { intros [o d] Hin. apply with_default_in in Hin. destruct Hin as [Hin _]. apply Hsub. now apply (visible_in_ctx dl ctx). }
  exists l. split; [assumption|]. split; [assumption|].
  assert (Hall : forall od, In od (with_default (visible_opts dl ctx)) -> cmd_safe od = true).
  { intros od. apply forallb_forall. exact Hsafe. }
  unfold parse_cmd_os. rewrite Ed.
  rewrite (tokens_render n bods (S (length (render bods)))); [|assumption| |lia].
  - replace (map (fun x => mention (snd x)) bods) with (map (fun x : nat * (vopt * str) => mention (snd x)) l).
    + rewrite (parse_mentions os (keys_from 0 os) eq_refl Hnd l []); [reflexivity | assumption|].
      apply Forall_forall. intros x Hx. apply Hall. rewrite <- Ml. apply in_map_iff. exists x. auto.
    + rewrite <- (map_map snd mention l), <- (map_map snd mention bods). now rewrite Ml, Mb.
  - apply Forall_forall. intros x Hx.
    assert (Hc : cmd_safe (snd x) = true) by (apply Hall; rewrite <- Mb; apply in_map_iff; exists x; auto).
    unfold cmd_safe in Hc. apply andb_true_iff in Hc. destruct Hc as [Hc _]. apply andb_true_iff in Hc. destruct Hc as [Hc _].
    apply andb_true_iff in Hc. destruct Hc as [H1 H2]. split; assumption.
Qed.

Lemma merged_opts_registered ps o : In o (all_opts (build_ctx ps)) -> In o (registered ps).
Proof.
  unfold all_opts, registered. rewrite !in_flat_map. intros (G & HG & Ho).
  destruct (merge_spec ps) as [_ Hg]. destruct (Hg G HG) as [Eo _]. rewrite Eo in Ho.
  apply cap_opts_in in Ho. destruct Ho as (p & Hp & _ & Ho). exists p. auto.
Qed.

Theorem merged_defaults_parse dl n ps :
  NoDup (map fst (keys_from 0 (registered ps))) ->
  forallb cmd_safe (with_default (visible_opts dl (build_ctx ps))) = true ->
  exists l : list (nat * (vopt * str)),
    map snd l = with_default (visible_opts dl (build_ctx ps)) /\
    Forall (fun x => nth_error (registered ps) (fst x) = Some (fst (snd x))) l /\
    parse_cmd_os (registered ps) (defaults dl n (build_ctx ps)) = POk (map (fun x => (fst x, snd (snd x))) l).
Proof. intros Hnd Hs. apply (defaults_parse_os dl n (build_ctx ps) (registered ps) Hnd (merged_opts_registered ps) Hs). Qed.

(* the help text of a context put together by adds, in terms of what the adds said *)
Theorem merged_description ps dl :
  description dl (build_ctx ps) =
  (flat_map (fun cap => cap_frame cap ++ flat_map (entry (ctx_max_w dl (build_ctx ps))) (filter (opt_visible dl) (cap_opts cap ps)))
            (filter (fun cap => cap_shown dl cap ps) (rot (first_occ (map g_caption ps)))), false).
Proof.
  rewrite description_spec. f_equal. unfold help_text.
  destruct (merge_spec ps) as [Hc Hg]. rewrite <- Hc, rot_map.
  assert (Er : out_order (build_ctx ps) = rot (build_ctx ps)) by reflexivity. rewrite Er. clear Er.
  apply (flat_filter_caps (fun g => caption g ++ flat_map (entry (ctx_max_w dl (build_ctx ps))) (filter (opt_visible dl) (g_opts g))) (group_visible dl)
                          (fun cap => cap_frame cap ++ flat_map (entry (ctx_max_w dl (build_ctx ps))) (filter (opt_visible dl) (cap_opts cap ps)))
                          (fun cap => cap_shown dl cap ps)).
  intros G HG. apply (proj1 (rot_in _ _)) in HG. destruct (Hg G HG) as [Eo El]. split; [|now rewrite Eo].
  unfold group_visible. destruct (cap_shown dl (g_caption G) ps) eqn:E.
  - apply cap_shown_iff in E. apply El in E. lia.
  - destruct (g_level G <=? dl) eqn:E2; [|reflexivity]. assert (H : g_level G <= dl) by lia.
    apply El in H. apply cap_shown_iff in H. congruence.
Qed.

Theorem merge_full : forall ps : list group,
  let ctx := build_ctx ps in
  map g_caption ctx = first_occ (map g_caption ps) /\ NoDup (map g_caption ctx) /\
  hd_error (map g_caption ctx) = hd_error (map g_caption ps) /\
  (forall cap, In cap (map g_caption ctx) <-> In cap (map g_caption ps)) /\
  forall G, In G ctx ->
    g_opts G = cap_opts (g_caption G) ps /\
    (forall L, g_level G <= L <-> exists p, In p ps /\ g_caption p = g_caption G /\ g_level p <= L).
Proof.
  intros ps ctx. destruct (merge_spec ps) as [Hc Hg]. subst ctx. rewrite Hc.
  split; [reflexivity|]. split; [apply first_occ_nodup|]. split; [apply first_occ_hd|]. split; [intros cap; apply first_occ_in | exact Hg].
Qed.

Theorem merged_any_order : forall (ps ps' : list group) (dl : Z) (o : vopt), Permutation ps ps' ->
  (In o (visible_opts dl (build_ctx ps)) <-> In o (visible_opts dl (build_ctx ps'))).
Proof.
  assert (H : forall ps ps' dl o, Permutation ps ps' -> In o (visible_opts dl (build_ctx ps)) -> In o (visible_opts dl (build_ctx ps'))).
  { intros ps ps' dl o Hp Hin. apply merged_visible in Hin. destruct Hin as (p & Hp1 & Ho & Hl & q & Hq & Hc & Hlq).
    apply merged_visible. exists p. split; [now apply (Permutation_in _ Hp)|]. split; [assumption|]. split; [assumption|].
    exists q. split; [now apply (Permutation_in _ Hp) | auto]. }
  intros ps ps' dl o Hp. split; apply H; [assumption | now apply Permutation_sym].
Qed.
