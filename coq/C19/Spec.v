(* C19 - what the help text and the default command line are supposed to contain (definitions only). *)
Require Import V.Lib.Base V.Gen.Consts_C19 V.C19.Model.
Local Open Scope Z_scope.

(* the decorated option name:   --[no-]name[=arg|no][,-a](=| )arg[|no]   *)
Definition neg_prefix (o : vopt) : str := if v_neg o && is_nil (v_arg o) then [91; 110; 111; 45; 93] else [].      (* "[no-]" *)
Definition neg_suffix (o : vopt) : str := if v_neg o && negb (is_nil (v_arg o)) then [124; 110; 111] else [].      (* "|no" *)
Definition header (o : vopt) : str :=
  ([32; 32; 45; 45] ++ neg_prefix o ++ v_name o)
  ++ (if v_implicit o && negb (is_nil (v_arg o)) then [91; 61] ++ v_arg o ++ neg_suffix o ++ [93] else [])
  ++ (if v_alias o =? 0 then [] else [44; 45; v_alias o])
  ++ (if v_implicit o then [] else (if v_alias o =? 0 then 61 else 32) :: v_arg o ++ neg_suffix o).

Definition pad_to (w : Z) (s : str) : str := s ++ repeat 32 (Z.to_nat (w - len s)).

(* description text with placeholders replaced: %D default, %A argument name, %I implicit value, %% percent,
   any other %x -> x, a trailing % is dropped *)
Fixpoint subst (d : str) (o : vopt) : str :=
  match d with
  | [] => []
  | c :: r =>
      if c =? 37 then
        match r with
        | [] => []
        | x :: r' =>
            (if x =? 68 then match v_dflt o with Some v => v | None => [] end
             else if x =? 65 then v_arg o
             else if x =? 73 then (if v_implicit o then v_impstr o else [])
             else [x]) ++ subst r' o
        end
      else c :: subst r o
  end.

(* the entry of one option in the help text *)
Definition entry (maxW : Z) (o : vopt) : str := pad_to maxW (header o) ++ [58; 32] ++ subst (v_desc o) o ++ [10].

Definition caption (g : group) : str := if is_nil (g_caption g) then [] else [10] ++ g_caption g ++ [58; 10; 10].

Definition opt_visible (dl : Z) (o : vopt) : bool := v_level o <=? dl.
Definition group_visible (dl : Z) (g : group) : bool := g_level g <=? dl.

(* groups in output order: sub groups 1.., then the main group 0 *)
Definition out_order (ctx : list group) : list group := match ctx with [] => [] | g0 :: rest => rest ++ [g0] end.

(* the visible options in output order *)
Definition visible_opts (dl : Z) (ctx : list group) : list vopt :=
  flat_map (fun g => filter (opt_visible dl) (g_opts g)) (filter (group_visible dl) (out_order ctx)).

Definition help_text (dl : Z) (ctx : list group) : str :=
  let maxW := ctx_max_w dl ctx in
  flat_map (fun g => caption g ++ flat_map (entry maxW) (filter (opt_visible dl) (g_opts g))) (filter (group_visible dl) (out_order ctx)).

(* visible options with a default, with that default *)
Fixpoint with_default (os : list vopt) : list (vopt * str) :=
  match os with
  | [] => []
  | o :: r => match v_dflt o with Some d => (o, d) :: with_default r | None => with_default r end
  end.

Definition mention (od : vopt * str) : str := [45; 45] ++ v_name (fst od) ++ [61] ++ snd od.

(* a line break of defaults(n): newline followed by n blanks, or nothing *)
Definition is_break (n : Z) (s : str) : Prop := s = [] \/ s = 10 :: repeat 32 (Z.to_nat n).

(* byte classes of the command-string syntax *)
Definition plain (c : Z) : bool := negb (is_space c) && negb (c =? 39) && negb (c =? 34) && negb (c =? 92).
Definition all_plain (s : str) : bool := forallb plain s.
(* a default that survives the trip through the command string: plain bytes, and not empty if the option requires an argument *)
Definition cmd_safe (od : vopt * str) : bool :=
  all_plain (snd od) && all_plain (v_name (fst od)) && negb (existsb (Z.eqb 61) (v_name (fst od)))
  && (v_implicit (fst od) || negb (is_nil (snd od))).

(* ---------------- groups handed to OptionContext::add one after the other ---------------- *)
Definition same_cap (cap : str) (g : group) : bool := str_eqb (g_caption g) cap.
(* the captions in the order in which each is seen first *)
Definition first_occ (caps : list str) : list str :=
  fold_left (fun acc x => if existsb (fun y => str_eqb y x) acc then acc else acc ++ [x]) caps [].
(* everything the adds said about one caption: its options in the order of the adds, and whether some add gave it a level <= L *)
Definition cap_opts (cap : str) (pieces : list group) : list vopt := flat_map g_opts (filter (same_cap cap) pieces).
Definition cap_shown (dl : Z) (cap : str) (pieces : list group) : bool :=
  existsb (fun q => same_cap cap q && (g_level q <=? dl)) pieces.
(* sub groups first, then the main group - on any list *)
Definition rot {A} (l : list A) : list A := match l with [] => [] | x :: r => r ++ [x] end.
(* the caption line of the help text *)
Definition cap_frame (cap : str) : str := if is_nil cap then [] else [10] ++ cap ++ [58; 10; 10].
