(* C19 - proofs about the key syntax (Key.v) against its declarative description (KeySpec.v). *)
Require Import V.Lib.Base V.Gen.Consts_C19 V.C19.Key V.C19.KeySpec.
Local Open Scope Z_scope.

Ltac consts := unfold KEY_SEP, KEY_NEG, KEY_ESC, KEY_LEVEL, KEY_DIGIT_LO, KEY_DIGIT_HI, KEY_BASE, LEVEL_HIDDEN in *.

Lemma is_digit_iff c : is_digit c = true <-> KEY_DIGIT_LO <= c <= KEY_DIGIT_HI.
Proof. unfold is_digit. rewrite andb_true_iff, !Z.leb_le. tauto. Qed.

(* ---- strchr ---- *)
Lemma split_sep_spec s : forall ln rest, split_sep s = (ln, rest) ->
  no_sep ln /\ match rest with None => s = ln | Some n => s = ln ++ KEY_SEP :: n end.
Proof.
  induction s as [|c r IH]; intros ln rest H; cbn [split_sep] in H.
  - inversion H. split; [intros []|reflexivity].
  - destruct (c =? KEY_SEP) eqn:E.
    + inversion H. apply Z.eqb_eq in E. subst. split; [intros []|reflexivity].
    + destruct (split_sep r) as [a b] eqn:Er. inversion H. subst ln rest. destruct (IH a b eq_refl) as [Hn Hs].
      apply Z.eqb_neq in E. split.
      * intros [Hc|Hc]; [congruence|exact (Hn Hc)].
      * destruct b; cbn [app]; f_equal; exact Hs.
Qed.

Lemma split_sep_plain ln : no_sep ln -> split_sep ln = (ln, None).
Proof.
  induction ln as [|c r IH]; intros H; [reflexivity|]. cbn [split_sep].
  destruct (c =? KEY_SEP) eqn:E; [apply Z.eqb_eq in E; exfalso; apply H; left; congruence|].
  rewrite IH; [reflexivity|]. intros Hc. apply H. right. exact Hc.
Qed.

Lemma split_sep_app ln n : no_sep ln -> split_sep (ln ++ KEY_SEP :: n) = (ln, Some n).
Proof.
  induction ln as [|c r IH]; intros H; cbn [app split_sep].
  - rewrite Z.eqb_refl. reflexivity.
  - destruct (c =? KEY_SEP) eqn:E; [apply Z.eqb_eq in E; exfalso; apply H; left; congruence|].
    rewrite IH; [reflexivity|]. intros Hc. apply H. right. exact Hc.
Qed.

(* ---- the level number ---- *)
Lemma level_digits_all ds : forall a, all_digits ds -> level_digits ds a = (dec_acc ds a, []).
Proof.
  induction ds as [|d r IH]; intros a H; [reflexivity|]. inversion H as [|? ? Hd Hr]; subst.
  cbn [level_digits dec_acc]. rewrite (proj2 (is_digit_iff d) Hd). apply IH. exact Hr.
Qed.

Lemma level_digits_nil x : forall a lv, level_digits x a = (lv, []) -> all_digits x /\ lv = dec_acc x a.
Proof.
  induction x as [|c r IH]; intros a lv H; cbn [level_digits] in H.
  - inversion H. split; [constructor|reflexivity].
  - destruct (is_digit c) eqn:E; [|discriminate]. apply is_digit_iff in E.
    destruct (IH _ _ H) as [H1 H2]. split; [constructor; assumption|exact H2].
Qed.

(* without wrap-around: up to 9 digits the accumulator holds the plain decimal value *)
Lemma dec_acc_plain ds : forall a, all_digits ds -> 0 <= a -> a * 10 ^ Z.of_nat (length ds) + 10 ^ Z.of_nat (length ds) <= UINT_MOD ->
  dec_acc ds a = dec_plain ds a.
Proof.
  induction ds as [|d r IH]; intros a H Ha Hb; [reflexivity|]. inversion H as [|? ? Hd Hr]; subst. cbn [dec_acc dec_plain].
  consts. cbn [length] in Hb. rewrite Nat2Z.inj_succ, Z.pow_succ_r in Hb by lia.
  assert (Hp : 0 < 10 ^ Z.of_nat (length r)) by (apply Z.pow_pos_nonneg; lia).
  assert (Hs : a * 10 + (d - 48) < UINT_MOD) by (unfold UINT_MOD in *; nia).
  rewrite Z.mod_small by lia. apply IH; [exact Hr|lia|]. unfold UINT_MOD in *. nia.
Qed.

Lemma dec_acc_small ds : all_digits ds -> (length ds <= 9)%nat -> dec_acc ds 0 = dec_plain ds 0.
Proof.
  intros H Hl. apply dec_acc_plain; [exact H|lia|]. cbn [Z.mul].
  assert (10 ^ Z.of_nat (length ds) <= 10 ^ 9) by (apply Z.pow_le_mono_r; lia).
  unfold UINT_MOD. change (10 ^ 9) with 1000000000 in H0. lia.
Qed.

(* ---- the part behind the first ',' ---- *)
Lemma key_tail_sound gl n a lv : key_tail gl n = Some (a, lv) -> tail_form gl n a lv.
Proof.
  unfold key_tail. intros H. destruct n as [|a0 [|b r]].
  - discriminate.
  - cbn [nil_str orb negb] in H. destruct (LEVEL_HIDDEN <? gl) eqn:E; [discriminate|]. inversion H; subst.
    apply Z.ltb_ge in E. apply tf_alias. exact E.
  - destruct (b =? KEY_SEP) eqn:Eb.
    + apply Z.eqb_eq in Eb. subst b. destruct r as [|c r'].
      * cbn [nil_str orb negb] in H. destruct (LEVEL_HIDDEN <? gl) eqn:E; [discriminate|]. inversion H; subst.
        apply Z.ltb_ge in E. apply tf_alias_sep. exact E.
      * destruct (c =? KEY_LEVEL) eqn:Ec.
        -- apply Z.eqb_eq in Ec. subst c. destruct (level_digits r' 0) as [l x'] eqn:El.
           cbn [nil_str orb] in H. destruct x' as [|y x'']; [|discriminate]. cbn [nil_str negb orb] in H.
           destruct (LEVEL_HIDDEN <? l) eqn:E; [discriminate|]. inversion H; subst. apply Z.ltb_ge in E.
           destruct (level_digits_nil _ _ _ El) as [Hd Hl]. subst lv. apply tf_alias_level; assumption.
        -- cbn [nil_str orb negb] in H. discriminate.
    + destruct (a0 =? KEY_LEVEL) eqn:Ea.
      * apply Z.eqb_eq in Ea. subst a0. destruct (level_digits (b :: r) 0) as [l x'] eqn:El.
        cbn [nil_str orb] in H. destruct x' as [|y x'']; [|discriminate]. cbn [nil_str negb orb] in H.
        destruct (LEVEL_HIDDEN <? l) eqn:E; [discriminate|]. inversion H; subst. apply Z.ltb_ge in E.
        destruct (level_digits_nil _ _ _ El) as [Hd Hl]. subst lv. apply tf_level; assumption.
      * cbn [nil_str orb negb] in H. discriminate.
Qed.

Lemma key_tail_complete gl n a lv : tail_form gl n a lv -> key_tail gl n = Some (a, lv).
Proof.
  intros H. unfold key_tail. inversion H as [a0 Hg|a0 Hg|a0 ds Hd Hl|d ds Hd Hl]; subst.
  - cbn [nil_str orb negb]. rewrite (proj2 (Z.ltb_ge _ _) Hg). reflexivity.
  - rewrite Z.eqb_refl. cbn [nil_str orb negb]. rewrite (proj2 (Z.ltb_ge _ _) Hg). reflexivity.
  - rewrite !Z.eqb_refl, (level_digits_all ds 0 Hd). cbn [nil_str orb negb]. rewrite (proj2 (Z.ltb_ge _ _) Hl). reflexivity.
  - inversion Hd as [|? ? Hd0 Hds]; subst.
    assert (E : (d =? KEY_SEP) = false) by (apply Z.eqb_neq; consts; lia). rewrite E, Z.eqb_refl.
    rewrite (level_digits_all (d :: ds) 0 Hd). cbn [nil_str orb negb]. rewrite (proj2 (Z.ltb_ge _ _) Hl). reflexivity.
Qed.

(* ---- the name part ---- *)
Lemma rev_eq {A} (l m : list A) : rev l = m -> l = rev m.
Proof. intros H. rewrite <- H, rev_involutive. reflexivity. Qed.

Lemma key_name_sound ln nm neg : ln <> [] -> hd 0 ln <> KEY_NEG -> key_name ln = (nm, neg) -> name_form ln nm neg.
Proof.
  unfold key_name. intros Hn Hh H. destruct (rev ln) as [|c [|p r]] eqn:E; apply rev_eq in E; cbn [rev app] in E.
  - contradiction.
  - inversion H; subst. apply nf_plain. intros [q Hq]. destruct q as [|y q]; cbn [app] in Hq.
    + inversion Hq; subst. apply Hh. reflexivity.
    + inversion Hq as [[Hy Hq']]. destruct q; discriminate.
  - rewrite <- app_assoc in E. cbn [app] in E. destruct (c =? KEY_NEG) eqn:Ec.
    + apply Z.eqb_eq in Ec. subst c. destruct (p =? KEY_ESC) eqn:Ep.
      * apply Z.eqb_eq in Ep. inversion H; subst. apply nf_esc.
      * apply Z.eqb_neq in Ep. inversion H; subst. cbn [rev]. apply nf_neg. exact Ep.
    + apply Z.eqb_neq in Ec. inversion H; subst nm neg. apply nf_plain. intros [q Hq]. rewrite E in Hq.
      change (rev r ++ [p; c]) with (rev r ++ [p] ++ [c]) in Hq. rewrite app_assoc in Hq.
      apply app_inj_tail in Hq. destruct Hq as [_ Hq]. contradiction.
Qed.

Lemma key_name_complete ln nm neg : name_form ln nm neg -> key_name ln = (nm, neg).
Proof.
  intros H. destruct H as [ln Hl|p c Hc|p]; unfold key_name.
  - destruct (rev ln) as [|c [|p r]] eqn:E; try reflexivity. apply rev_eq in E. cbn [rev] in E.
    destruct (c =? KEY_NEG) eqn:Ec; [|reflexivity]. apply Z.eqb_eq in Ec. subst c. exfalso. apply Hl. exists (rev r ++ [p]). exact E.
  - rewrite rev_app_distr. cbn [rev app]. rewrite Z.eqb_refl. apply Z.eqb_neq in Hc. rewrite Hc. cbn [rev]. rewrite rev_involutive. reflexivity.
  - rewrite rev_app_distr. cbn [rev app]. rewrite !Z.eqb_refl, rev_involutive. reflexivity.
Qed.

(* ---- the whole key ---- *)
Theorem parse_key_sound gl key vl d : parse_key gl key vl = Some d -> key_form gl vl key d.
Proof.
  unfold parse_key. intros H. destruct key as [|c k]; [discriminate|].
  destruct ((c =? KEY_SEP) || (c =? KEY_NEG)) eqn:Ec; [discriminate|]. apply orb_false_iff in Ec. destruct Ec as [E1 E2].
  apply Z.eqb_neq in E1. apply Z.eqb_neq in E2.
  destruct (split_sep (c :: k)) as [ln rest] eqn:Es.
  assert (Hln : ln <> [] /\ hd 0 ln = c).
  { cbn [split_sep] in Es. apply Z.eqb_neq in E1. rewrite E1 in Es. destruct (split_sep k). inversion Es. split; [discriminate|reflexivity]. }
  destruct Hln as [Hne Hhd]. destruct (split_sep_spec _ _ _ Es) as [Hns Hk].
  destruct rest as [n|].
  - destruct (key_tail gl n) as [[a lv]|] eqn:Et; [|discriminate]. destruct (key_name ln) as [nm neg] eqn:En. inversion H; subst d.
    rewrite Hk. apply kf_parts; try assumption; [congruence|apply key_tail_sound; exact Et|apply key_name_sound; try assumption; congruence].
  - destruct (key_name ln) as [nm neg] eqn:En. inversion H; subst d. rewrite Hk.
    apply kf_plain; try assumption; [congruence|apply key_name_sound; try assumption; congruence].
Qed.

Theorem parse_key_complete gl key vl d : key_form gl vl key d -> parse_key gl key vl = Some d.
Proof.
  intros H. destruct H as [ln nm neg Hne Hns Hh Hf|ln n a lv nm neg Hne Hns Hh Ht Hf].
  - unfold parse_key. destruct ln as [|c k]; [contradiction|]. cbn [hd] in Hh.
    assert (E1 : (c =? KEY_SEP) = false) by (apply Z.eqb_neq; intros ->; apply Hns; left; reflexivity).
    assert (E2 : (c =? KEY_NEG) = false) by (apply Z.eqb_neq; exact Hh).
    rewrite E1, E2. cbn [orb]. rewrite (split_sep_plain _ Hns), (key_name_complete _ _ _ Hf). reflexivity.
  - unfold parse_key. destruct ln as [|c k]; [contradiction|]. cbn [hd] in Hh. cbn [app].
    assert (E1 : (c =? KEY_SEP) = false) by (apply Z.eqb_neq; intros ->; apply Hns; left; reflexivity).
    assert (E2 : (c =? KEY_NEG) = false) by (apply Z.eqb_neq; exact Hh).
    rewrite E1, E2. cbn [orb]. change (c :: k ++ KEY_SEP :: n) with ((c :: k) ++ KEY_SEP :: n).
    rewrite (split_sep_app _ n Hns), (key_tail_complete _ _ _ _ Ht), (key_name_complete _ _ _ Hf). reflexivity.
Qed.

Theorem parse_key_iff gl key vl d : parse_key gl key vl = Some d <-> key_form gl vl key d.
Proof. split; [apply parse_key_sound|apply parse_key_complete]. Qed.

(* every byte string that is not a key is refused *)
Theorem parse_key_refuses gl key vl : (forall d, ~ key_form gl vl key d) -> parse_key gl key vl = None.
Proof.
  intros H. destruct (parse_key gl key vl) as [d|] eqn:E; [|reflexivity]. exfalso. exact (H d (parse_key_sound _ _ _ _ E)).
Qed.

(* ---- rendering and reading back ---- *)
Lemma render_name_form nm neg : nm <> [] -> (neg = true -> ~ exists p, nm = p ++ [KEY_ESC]) -> name_form (render_name nm neg) nm neg.
Proof.
  intros Hne Hesc. unfold render_name. destruct neg.
  - destruct (rev nm) as [|c r] eqn:E; apply rev_eq in E; cbn [rev] in E; [contradiction|]. subst nm.
    rewrite <- app_assoc. cbn [app]. apply nf_neg. intros ->. apply (Hesc eq_refl). exists (rev r). reflexivity.
  - destruct (rev nm) as [|c r] eqn:E; apply rev_eq in E; cbn [rev] in E; [contradiction|]. subst nm.
    destruct (c =? KEY_NEG) eqn:Ec.
    + apply Z.eqb_eq in Ec. subst c. apply nf_esc.
    + apply Z.eqb_neq in Ec. apply nf_plain. intros [q Hq]. apply app_inj_tail in Hq. destruct Hq as [_ Hq]. contradiction.
Qed.

Lemma render_name_hd nm neg : nm <> [] -> hd 0 nm <> KEY_NEG -> no_sep nm ->
  render_name nm neg <> [] /\ hd 0 (render_name nm neg) <> KEY_NEG /\ no_sep (render_name nm neg).
Proof.
  intros Hne Hh Hns. unfold render_name. destruct neg.
  - destruct nm as [|c k]; [contradiction|]. cbn [app hd]. split; [discriminate|]. split; [exact Hh|].
    intros Hi. change (c :: k ++ [KEY_NEG]) with ((c :: k) ++ [KEY_NEG]) in Hi. apply in_app_or in Hi. destruct Hi as [Hi|[Hi|[]]]; [exact (Hns Hi)|consts; discriminate].
  - destruct (rev nm) as [|c r] eqn:E; [split; [exact Hne|split; assumption]|].
    destruct (c =? KEY_NEG) eqn:Ec; [|split; [exact Hne|split; assumption]].
    apply rev_eq in E. cbn [rev] in E. subst nm. destruct (rev r) as [|y q] eqn:Er.
    + cbn [app hd] in *. apply Z.eqb_eq in Ec. contradiction.
    + cbn [app hd] in *. split; [discriminate|]. split; [exact Hh|].
      intros Hi. change (y :: q ++ [KEY_ESC; KEY_NEG]) with ((y :: q) ++ [KEY_ESC; KEY_NEG]) in Hi. apply in_app_or in Hi.
      destruct Hi as [Hi|[Hi|[Hi|[]]]]; [|consts; discriminate|consts; discriminate].
      apply Hns. change (y :: q ++ [c]) with ((y :: q) ++ [c]). apply in_or_app. left. exact Hi.
Qed.

Theorem render_parse gl vl nm neg alias lv :
  nm <> [] -> no_sep nm -> hd 0 nm <> KEY_NEG -> (neg = true -> ~ exists p, nm = p ++ [KEY_ESC]) ->
  (forall l, lv = Some l -> 0 <= l <= LEVEL_HIDDEN) -> (lv = None -> alias <> 0 -> gl <= LEVEL_HIDDEN) ->
  parse_key gl (render_key nm neg alias lv) vl = Some (mkK nm neg alias (denoted_level gl vl alias lv)).
Proof.
  intros Hne Hns Hh Hesc Hlv Hgl. apply parse_key_complete. unfold render_key, denoted_level.
  destruct (render_name_hd nm neg Hne Hh Hns) as (R1 & R2 & R3). pose proof (render_name_form nm neg Hne Hesc) as Hf.
  assert (Hdig : forall l, 0 <= l <= LEVEL_HIDDEN -> all_digits [KEY_DIGIT_LO + l] /\ dec_acc [KEY_DIGIT_LO + l] 0 = l).
  { intros l Hl. split; [constructor; [consts; lia|constructor]|]. cbn [dec_acc]. consts. unfold UINT_MOD.
    replace (0 * 10 + (48 + l - 48)) with l by lia. apply Z.mod_small. lia. }
  destruct (alias =? 0) eqn:Ea.
  - apply Z.eqb_eq in Ea. subst alias. destruct lv as [l|]; cbn [app].
    + destruct (Hdig l (Hlv l eq_refl)) as [D1 D2]. rewrite <- D2 at 2.
      apply kf_parts; try assumption. apply tf_level; [exact D1|rewrite D2; apply (Hlv l eq_refl)].
    + rewrite app_nil_r. apply kf_plain; assumption.
  - apply Z.eqb_neq in Ea. destruct lv as [l|]; cbn [app].
    + destruct (Hdig l (Hlv l eq_refl)) as [D1 D2]. rewrite <- D2 at 2.
      apply kf_parts; try assumption. apply tf_alias_level; [exact D1|rewrite D2; apply (Hlv l eq_refl)].
    + apply kf_parts; try assumption. apply tf_alias. apply Hgl; [reflexivity|exact Ea].
Qed.
