(* C19 - the key syntax  name[!][,alias][,@level]  of OptionInitHelper::operator()(const char* key, Value* val, const char* desc)
   (src/program_options.cpp), with which options are declared through  group.addOptions()(key, value, description).
   Definitions only (executable model; the proofs are in ProofsKey.v).  All characters and bounds come from Gen/Consts_C19.v,
   i.e. from the sources.

     if (!name || !*name || *name == ',' || *name == '!') throw Error("Invalid empty option name");
     const char* n = strchr(name, ',');
     if (!n) longName = name;                                  // the value keeps ITS OWN level
     else {
       longName.assign(name, n);
       unsigned level = owner_->descLevel();                   // default: the level of the group the option is declared in
       const char* x = ++n;
       if ( *x && (!x[1] || x[1] == ',')) { shortName = *x++; x += *x == ','; }
       if ( *x == '@') { ++x; level = 0; while ( *x >= '0' && *x <= '9') { level *= 10; level += *x - '0'; ++x; } }
       if (!*n || *x || level > desc_level_hidden) throw Error("Invalid Key '...'");
       val->level(DescriptionLevel(level));
     }
     if ( *(longName.end()-1) == '!') {
       bool neg = *(longName.end()-2) != '\\';
       longName.erase(longName.end() - (1+!neg), longName.end());
       if (neg) val->negatable(); else longName += '!';
     }
     owner_->addOption(SharedOptPtr(new Option(longName, shortName, desc, val)));                                              *)
Require Import V.Lib.Base V.Gen.Consts_C19.
Local Open Scope Z_scope.

(* what a key denotes: long name, negatable, alias (0 = none), description level *)
Record keyd := mkK { k_name : list Z; k_neg : bool; k_alias : Z; k_level : Z }.

(* strchr(name, ','): the text in front of the first ',' and - if there is one - the text behind it *)
Fixpoint split_sep (s : list Z) : list Z * option (list Z) :=
  match s with
  | [] => ([], None)
  | c :: r => if c =? KEY_SEP then ([], Some r) else let '(a, b) := split_sep r in (c :: a, b)
  end.

Definition is_digit (c : Z) : bool := (KEY_DIGIT_LO <=? c) && (c <=? KEY_DIGIT_HI).

(* while ('0' <= *x && *x <= '9') { level *= 10; level += *x - '0'; ++x; }      `level` is an unsigned: arithmetic modulo 2^32 *)
Fixpoint level_digits (x : list Z) (level : Z) : Z * list Z :=
  match x with
  | c :: r => if is_digit c then level_digits r ((level * KEY_BASE + (c - KEY_DIGIT_LO)) mod UINT_MOD) else (level, x)
  | [] => (level, [])
  end.

Definition nil_str (s : list Z) : bool := match s with [] => true | _ => false end.

(* the text n behind the first ',':  [alias][,][@digits]   gl = owner_->descLevel();  None = Error("Invalid Key") *)
Definition key_tail (gl : Z) (n : list Z) : option (Z * Z) :=
  let '(short, x) := match n with
                     | a :: [] => (a, [])                                     (* x[0] != 0 && x[1] == 0 *)
                     | a :: b :: r => if b =? KEY_SEP then (a, r) else (0, n)  (* x[0] != 0 && x[1] == ',' : alias, the ',' is skipped *)
                     | [] => (0, n)
                     end in
  let '(level, x') := match x with
                      | c :: r => if c =? KEY_LEVEL then level_digits r 0 else (gl, x)
                      | [] => (gl, x)
                      end in
  if nil_str n || negb (nil_str x') || (LEVEL_HIDDEN <? level) then None else Some (short, level).

(* the name part: a trailing '!' makes the option negatable, unless it is written "\!" (then the name ends in '!') *)
Definition key_name (ln : list Z) : list Z * bool :=
  match rev ln with
  | c :: p :: r =>
      if c =? KEY_NEG then (if p =? KEY_ESC then (rev r ++ [KEY_NEG], false) else (rev (p :: r), true)) else (ln, false)
  | _ => (ln, false)              (* a one-character name; "!" alone never gets here: keys starting with '!' are refused *)
  end.

(* gl = level of the owning group at the time of the declaration, vl = level of the value handed in *)
Definition parse_key (gl : Z) (key : list Z) (vl : Z) : option keyd :=
  match key with
  | [] => None                                                       (* "Invalid empty option name" *)
  | c :: _ =>
      if (c =? KEY_SEP) || (c =? KEY_NEG) then None
      else
        let '(ln, rest) := split_sep key in
        match (match rest with None => Some (0, vl) | Some n => key_tail gl n end) with
        | None => None                                               (* "Invalid Key" *)
        | Some (short, level) => let '(nm, neg) := key_name ln in Some (mkK nm neg short level)
        end
  end.

(* the key that denotes (name, negatable, alias, level): lv = None leaves the level to the defaults *)
Definition render_name (nm : list Z) (neg : bool) : list Z :=
  if neg then nm ++ [KEY_NEG]
  else match rev nm with
       | c :: r => if c =? KEY_NEG then rev r ++ [KEY_ESC; KEY_NEG] else nm
       | [] => nm
       end.
Definition render_key (nm : list Z) (neg : bool) (alias : Z) (lv : option Z) : list Z :=
  render_name nm neg
  ++ (if alias =? 0 then [] else [KEY_SEP; alias])
  ++ match lv with Some l => [KEY_SEP; KEY_LEVEL; KEY_DIGIT_LO + l] | None => [] end.
