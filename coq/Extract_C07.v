Require Import ExtrOcamlBasic.
Require Import V.C07.Model.
Extraction "model.ml" run_case.
