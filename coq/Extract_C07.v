Require Import ExtrOcamlBasic.
Require Import V.C07.Run.
Extraction "model.ml" run_case.
