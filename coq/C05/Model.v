(* C05 - executable model of Potassco::SmodelsOutput (src/smodels.cpp) and its composition with the
   reader model of C07.  sm_step mirrors one AbstractProgram call on the writer: the new state and the bytes
   written, or Err for everything the writer refuses (POTASSCO_REQUIRE -> exception).
   Values are the C values after the call's parameter conversion (atoms 0..2^32-1, literals / weights int32). *)
Require Import V.Lib.Base V.Lib.Calls V.Lib.Dec V.C09.Spec V.Gen.Consts V.Gen.Consts_C07 V.C07.Model.
Local Open Scope Z_scope.

Record wstate := mkw { w_false : Z; w_ext : bool; w_sec : Z; w_inc : bool; w_fhead : bool }.
Definition w_init (ext : bool) (fatom : Z) : wstate := mkw fatom ext 0 false false.

Inductive wres := WOk (st : wstate) (bytes : list Z) | WErr.

Definition u32 (z : Z) : Z := z mod 4294967296.           (* static_cast<unsigned> *)
Definition add_u (x : Z) : list Z := 32 :: print_nat (u32 x).   (* add(unsigned): os << " " << i *)
Definition adds (l : list Z) : list Z := flat_map add_u l.
Definition eol : list Z := [10].

(* smLit: the literal whose sign decides the section; SmWeight: |weight| *)
Definition sm_lit (p : Z * Z) : Z := if 0 <=? snd p then fst p else - fst p.
Definition negs {A} (sl : A -> Z) (l : list A) : list A := filter (fun x => sl x <? 0) l.
Definition poss {A} (sl : A -> Z) (l : list A) : list A := filter (fun x => negb (sl x <? 0)) l.

(* add(const LitSpan&): " size neg" then the atoms of the negative literals, then of the others *)
Definition w_body (b : list Z) : list Z :=
  let n := negs (fun x => x) b in let p := poss (fun x => x) b in
  add_u (Z.of_nat (length b)) ++ add_u (Z.of_nat (length n)) ++ adds (map Z.abs n) ++ adds (map Z.abs p).

(* add(Weight_t, const WeightLitSpan&, bool card) *)
Definition w_sum (bnd : Z) (b : list (Z * Z)) (card : bool) : list Z :=
  let n := negs sm_lit b in let p := poss sm_lit b in
  (if card then [] else add_u bnd) ++
  add_u (Z.of_nat (length b)) ++ add_u (Z.of_nat (length n)) ++
  (if card then add_u bnd else []) ++
  adds (map (fun x => Z.abs (fst x)) n) ++ adds (map (fun x => Z.abs (fst x)) p) ++
  (if card then [] else adds (map (fun x => Z.abs (snd x)) n) ++ adds (map (fun x => Z.abs (snd x)) p)).

(* add(Head_t, const AtomSpan&) *)
Definition w_head (ht : Z) (h : list Z) : list Z :=
  (if (ht =? Head_t_Choice) || (1 <? Z.of_nat (length h)) then add_u (Z.of_nat (length h)) else []) ++ adds h.

Definition is_sm_head (ht : Z) (h : list Z) : Z :=
  match h with
  | [] => Sm_End
  | _ => if ht =? Head_t_Choice then Sm_Choice else if (length h =? 1)%nat then Sm_Basic else Sm_Disjunctive
  end.
Definition is_sm_rule (ht : Z) (h : list Z) (bnd : Z) (b : list (Z * Z)) : Z :=
  if negb (is_sm_head ht h =? Sm_Basic) || (bnd <? 0) then Sm_End
  else if forallb (fun x => snd x =? 1) b then Sm_Cardinality else Sm_Weight.

Definition set_sec (s : wstate) (sec : Z) := mkw (w_false s) (w_ext s) sec (w_inc s) (w_fhead s).
Definition set_fhead (s : wstate) := mkw (w_false s) (w_ext s) (w_sec s) (w_inc s) true.

Definition w_rule (s : wstate) (ht : Z) (h b : list Z) : wres :=
  if negb (w_sec s =? 0) then WErr else
  match h with
  | [] => if ht =? Head_t_Choice then WOk s []
          else if w_false s =? 0 then WErr
          else WOk (set_fhead s) (print_nat Sm_Basic ++ w_head ht [w_false s] ++ w_body b ++ eol)
  | _ => WOk s (print_nat (is_sm_head ht h) ++ w_head ht h ++ w_body b ++ eol)
  end.

Definition w_wrule (s : wstate) (ht : Z) (h : list Z) (bnd : Z) (b : list (Z * Z)) : wres :=
  if negb (w_sec s =? 0) then WErr else
  let '(s1, h1, bad) := match h with
                        | [] => (set_fhead s, [w_false s], w_false s =? 0)
                        | _ => (s, h, false)
                        end in
  if bad then WErr else
  let rt := is_sm_rule ht h1 bnd b in
  if rt =? Sm_End then WErr else
  WOk s1 (print_nat rt ++ w_head ht h1 ++ w_sum bnd b (rt =? Sm_Cardinality) ++ eol).

Definition w_assume_text (s : wstate) (lits : list Z) : list Z :=
  smw_kw_bplus ++ eol ++ flat_map (fun x => print_nat (u32 (Z.abs x)) ++ eol) (filter (fun x => 0 <? x) lits) ++
  [48] ++ eol ++ smw_kw_bminus ++ eol ++ flat_map (fun x => print_nat (u32 (Z.abs x)) ++ eol) (filter (fun x => x <? 0) lits) ++
  (if w_fhead s && negb (w_false s =? 0) then print_nat (w_false s) ++ eol else []) ++ [48] ++ eol.

Definition w_assume (s : wstate) (lits : list Z) : wres :=
  if negb (w_sec s <? 2) then WErr else
  WOk (set_sec s 2) ((if w_sec s =? 0 then [48] ++ eol ++ [48] ++ eol else [48] ++ eol) ++ w_assume_text s lits).

Definition sm_step (s : wstate) (c : call) : wres :=
  match c with
  | CInit inc => if inc && negb (w_ext s) then WErr
                 else WOk (mkw (w_false s) (w_ext s) (w_sec s) inc (w_fhead s)) []
  | CBegin => WOk (mkw (w_false s) (w_ext s) 0 (w_inc s) false)
                  (if w_ext s && w_inc s then print_nat Sm_ClaspIncrement ++ add_u 0 ++ eol else [])
  | CRule ht h b => w_rule s ht h b
  | CWRule ht h bnd b => w_wrule s ht h bnd b
  | CMin _ l => WOk s (print_nat Sm_Optimize ++ w_sum 0 l false ++ eol)
  | COutput name cond =>
      if negb (w_sec s <=? 1) then WErr else
      match cond with
      | [a] => if 0 <? a then
                 WOk (set_sec s 1) ((if w_sec s =? 0 then [48] ++ eol else []) ++ print_nat (u32 a) ++ [32] ++ name ++ eol)
               else WErr
      | _ => WErr
      end
  | CExternal a v =>
      if negb (w_ext s) then WErr else
      if v =? Value_t_Release then WOk s (print_nat Sm_ClaspReleaseExt ++ add_u a ++ eol)
      else WOk s (print_nat Sm_ClaspAssignExt ++ add_u a ++ add_u (Z.lxor v smw_extval_xor - smw_extval_sub) ++ eol)
  | CAssume l => w_assume s l
  | CEnd =>
      match (if w_sec s <? 2 then w_assume s [] else WOk s []) with
      | WOk s1 t => WOk s1 (t ++ print_nat smw_models ++ eol)
      | WErr => WErr
      end
  | _ => WErr   (* project / heuristic / edge / theory: AbstractProgram's default throws *)
  end.

(* a call sequence: stops at the first refusal; returns the text written so far and whether all calls went through *)
Fixpoint sm_run (s : wstate) (cs : list call) : list Z * bool :=
  match cs with
  | [] => ([], true)
  | c :: r => match sm_step s c with
              | WOk s1 t => let '(t2, ok) := sm_run s1 r in (t ++ t2, ok)
              | WErr => ([], false)
              end
  end.

(* ---- a caller that catches the refusal and CONTINUES with the same writer ----
   A refusal is a C++ exception thrown by POTASSCO_REQUIRE (or by AbstractProgram's default for unsupported directives).  No member
   function writes anything before its last REQUIRE, so a refused call writes nothing; a member assigned BEFORE the failing REQUIRE
   keeps the new value - the only such place is
     initProgram(b):            inc_ = b;  REQUIRE(!inc_ || ext_)                         -> inc_ changed
   (rule(ht, {}, bound, body) sets fHead_ only AFTER the recursive call on {false_} has written the rule: repaired in /repo 82b5ba2;
   before, a refused weight rule with empty head left fHead_ set).  Every other refusal happens before any assignment. *)
Definition sm_refused_state (s : wstate) (c : call) : wstate :=
  match c with
  | CInit inc => mkw (w_false s) (w_ext s) (w_sec s) inc (w_fhead s)
  | _ => s
  end.

(* the whole history: text written, and for every call whether it was accepted *)
Fixpoint sm_run_c (s : wstate) (cs : list call) : list Z * list bool :=
  match cs with
  | [] => ([], [])
  | c :: r => match sm_step s c with
              | WOk s1 t => let '(t2, fl) := sm_run_c s1 r in (t ++ t2, true :: fl)
              | WErr => let '(t2, fl) := sm_run_c (sm_refused_state s c) r in (t2, false :: fl)
              end
  end.

(* ---- case:  N e falseAtom <encoded calls>   e = 0/1: ext off/on, feeding stops at the first refusal;
                                               e = 2/3: ext off/on, the caller catches every refusal and continues
        observation: written bytes (len-prefixed), ok flag (all calls accepted), [continue mode: number of calls, one accepted flag per call,]
        then the C07 observation of the reader (claspExt = ext) on those bytes ---- *)
Definition run_case (c : list Z) : list Z :=
  match c with
  | _ :: e :: f :: r =>
      let cont := (e =? 2) || (e =? 3) in
      let ext := if cont then e =? 3 else negb (e =? 0) in
      let cs := dec_calls (length r) r in
      if cont then
        let '(t, fl) := sm_run_c (w_init ext f) cs in
        Z.of_nat (length t) :: t ++ [b2z (forallb (fun b => b) fl)] ++ Z.of_nat (length fl) :: map b2z fl ++
        encode_result (read_smodels (mkopts ext false) t)
      else
        let '(t, ok) := sm_run (w_init ext f) cs in
        Z.of_nat (length t) :: t ++ [b2z ok] ++ encode_result (read_smodels (mkopts ext false) t)
  | _ => []
  end.
