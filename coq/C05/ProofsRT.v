(* C05 - partial round trip: the line the writer produces for a NORMAL rule (basic / choice / disjunctive head) is read
   back by the reader's rule dispatcher as the rule with its body in negative-first order. *)
Require Import V.Lib.Base V.Lib.Calls V.Lib.Dec V.C09.Spec V.Gen.Consts V.Gen.Consts_C07 V.C07.Model V.C07.Spec V.C07.ProofsLex V.C07.ProofsGram V.C05.Model V.C05.Spec V.C05.Proofs.
Local Open Scope Z_scope.
Ltac Zify.zify_post_hook ::= Z.div_mod_to_equations.


Lemma u32_id a : 0 <= a <= 4294967295 -> u32 a = a.
Proof. unfold u32. intros. lia. Qed.

Lemma adds_nums l : Forall (fun a => 0 <= a <= 4294967295) l -> adds l = r_nums (map sp1 l).
Proof.
  induction 1 as [|a l Ha Hl IH]; [reflexivity|]. unfold adds, r_nums in *. cbn [flat_map map]. rewrite IH.
  unfold add_u, r_num, sp1. cbn [fst snd app]. rewrite u32_id by assumption. reflexivity.
Qed.

Lemma filter_len {A} (f : A -> bool) l : (length (filter f l) + length (filter (fun x => negb (f x)) l) = length l)%nat.
Proof. induction l as [|a l IH]; cbn [filter length]; [reflexivity|]. destruct (f a); cbn [negb length]; lia. Qed.


Lemma forallb_Forall {A} (f : A -> bool) l : forallb f l = true -> Forall (fun x => f x = true) l.
Proof. intros H. apply Forall_forall. now apply forallb_forall. Qed.

Lemma norm_body_in b x : In x (norm_body b) -> In x b.
Proof. unfold norm_body, negs, poss. intros H. apply in_app_or in H. destruct H as [H|H]; apply filter_In in H; tauto. Qed.

Lemma w_body_text b : forallb lit_rng b = true -> Z.of_nat (length b) <= 4294967295 ->
  w_body b = r_counts (lay_body b) ++ r_nums (b_atoms (lay_body b)).
Proof.
  intros Hb Hlen. unfold w_body, r_counts, r_cnt, lay_body. cbn [b_lws b_neg b_atoms]. rewrite !map_length.
  unfold norm_body. rewrite app_length. fold (negs (fun x => x) b) (poss (fun x => x) b).
  pose proof (filter_len (fun x => x <? 0) b) as Hfl. unfold negs, poss in *.
  rewrite Hfl. unfold add_u at 1 2. unfold r_num, sp1. cbn [fst snd]. rewrite !u32_id by lia.
  rewrite map_app, map_app. unfold r_nums. rewrite flat_map_app. fold (r_nums (map sp1 (map Z.abs (filter (fun x => x <? 0) b)))).
  fold (r_nums (map sp1 (map Z.abs (filter (fun x => negb (x <? 0)) b)))).
  assert (Hr : forall l, (forall x, In x l -> In x b) -> Forall (fun a => 0 <= a <= 4294967295) (map Z.abs l)).
  { intros l Hin. apply Forall_forall. intros a Ha. apply in_map_iff in Ha. destruct Ha as (x & <- & Hx).
    rewrite forallb_forall in Hb. specialize (Hb x (Hin x Hx)). unfold lit_rng, atomMax in Hb. lia. }
  rewrite <- !adds_nums by (apply Hr; intros x Hx; apply filter_In in Hx; tauto).
  cbn [app]. rewrite <- !app_assoc. reflexivity.
Qed.

Lemma lay_body_ok b : body_ok (lay_body b) = true.
Proof.
  unfold body_ok, lay_body. cbn [b_lws b_neg b_atoms]. apply andb_true_intro. split; [apply andb_true_intro; split|].
  - reflexivity.
  - unfold num_ok, sp1. cbn [fst snd]. apply andb_true_intro. split; [reflexivity | lia].
  - apply forallb_forall. intros n Hn. apply in_map_iff in Hn. destruct Hn as (x & <- & Hx).
    unfold num_ok, sp1. cbn [fst snd]. apply andb_true_intro. split; [reflexivity|].
    apply in_map_iff in Hx. destruct Hx as (y & <- & _). lia.
Qed.

Lemma lay_body_in b : forallb lit_rng b = true -> Z.of_nat (length b) <= 4294967295 ->
  body_in (lay_body b) && forallb atom_in (b_atoms (lay_body b)) = true.
Proof.
  intros Hb Hlen. unfold body_in, lay_body, count_in. cbn [b_lws b_neg b_atoms snd sp1]. rewrite !map_length.
  pose proof (filter_len (fun x => x <? 0) b) as Hfl. unfold norm_body, negs, poss in *. rewrite app_length.
  unfold UINT_MAX. cbv beta in *. repeat (apply andb_true_intro; split); try lia.
  apply forallb_forall. intros n Hn. apply in_map_iff in Hn. destruct Hn as (x & <- & Hx).
  apply in_map_iff in Hx. destruct Hx as (y & <- & Hy). unfold atom_in. cbn [snd].
  rewrite forallb_forall in Hb. assert (Hin : In y b). { apply in_app_or in Hy. destruct Hy as [H|H]; apply filter_In in H; tauto. }
  specialize (Hb y Hin). unfold lit_rng, atomMax in *. unfold sp1. cbn [snd]. lia.
Qed.

Lemma lay_body_denote b : forallb lit_rng b = true -> d_body (lay_body b) = norm_body b.
Proof.
  intros Hb. unfold d_body, lay_body, vals. cbn [b_neg b_atoms snd sp1].
  rewrite Nat2Z.id. rewrite map_map. cbn [snd]. rewrite map_map. unfold norm_body at 1 2.
  rewrite map_app, firstn_app, skipn_app, !map_length, Nat.sub_diag. cbn [firstn skipn]. rewrite app_nil_r.
  rewrite firstn_all2 by (rewrite map_length; lia). rewrite skipn_all2 by (rewrite map_length; lia). cbn [app].
  unfold norm_body. f_equal.
  - rewrite map_map. rewrite <- (map_id (negs (fun x => x) b)) at 2. apply map_ext_in. intros x Hx.
    apply filter_In in Hx. destruct Hx as [_ Hx]. unfold sp1. cbn [snd]. cbv beta in Hx. lia.
  - rewrite <- (map_id (poss (fun x => x) b)) at 2. apply map_ext_in. intros x Hx.
    apply filter_In in Hx. destruct Hx as [_ Hx]. unfold sp1. cbn [snd]. cbv beta in Hx. lia.
Qed.

(* the line written for  rule(Disjunctive, [a], body)  is read back as the rule with its body in negative-first order *)
Theorem rt_basic (o : opts) a b prio r ln :
  atom_rng a = true -> forallb lit_rng b = true -> Z.of_nat (length b) <= 4294967295 -> delim r ->
  exists ln', read_rule o prio Sm_Basic (amk (w_head Head_t_Disjunctive [a] ++ w_body b ++ r) ln)
              = Ok ([CRule Head_t_Disjunctive [a] (norm_body b)], prio, amk r ln').
Proof.
  intros Ha Hb Hlen Hr. unfold atom_rng, atomMax in Ha.
  pose (rl := RBasic [] (sp1 a) (lay_body b)).
  assert (Hok : rule_ok rl = true).
  { cbn [rl rule_ok]. rewrite lay_body_ok. unfold num_ok, sp1. cbn [fst snd]. assert (E : (0 <=? a) = true) by lia. rewrite E. reflexivity. }
  pose proof (read_rule_spec o rl prio r ln Hok Hr) as Hs.
  assert (Hin : rule_in (claspExt o) rl = true).
  { cbn [rl rule_in]. rewrite <- andb_assoc, (lay_body_in b Hb Hlen). unfold atom_in, sp1, atomMax. cbn [snd]. lia. }
  rewrite Hin in Hs. destruct Hs as [ln' E]. exists ln'.
  cbn [rl rule_type rule_fields d_rule] in E. rewrite (lay_body_denote b Hb) in E. cbn [sp1 snd] in E.
  rewrite <- E. f_equal. f_equal. rewrite (w_body_text b Hb Hlen).
  unfold w_head. change (Head_t_Disjunctive =? Head_t_Choice) with false. change (1 <? Z.of_nat (length [a])) with false. cbn [orb app].
  unfold adds. cbn [flat_map]. unfold add_u, r_num, sp1. cbn [fst snd]. rewrite u32_id by lia. rewrite app_nil_r, <- !app_assoc. reflexivity.
Qed.
