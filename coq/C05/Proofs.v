(* C05 - proofs about the writer model *)
Require Import V.Lib.Base V.Lib.Calls V.Lib.Dec V.C09.Spec V.Gen.Consts V.Gen.Consts_C07 V.C07.Model V.C07.Spec V.C07.ProofsLex V.C07.ProofsGram V.C05.Model V.C05.Spec.
Require Import Permutation.
Local Open Scope Z_scope.
Ltac Zify.zify_post_hook ::= Z.div_mod_to_equations.

Ltac both_err := split; intros _; reflexivity.
Ltac both_ok := split; intros Hx; discriminate Hx.
Lemma refuses_iff s c : refused s c = true <-> sm_step s c = WErr.
Proof.
  destruct c as [inc| | |ht head body|ht head bound body|prio lits|atoms|name cond|a v|lits|a t bias prio cond|s0 t cond|id n|id s0|id c args|id terms cond|a t elems|a t elems op rhs];
    cbn [refused sm_step].
  - (* init *) destruct (inc && negb (w_ext s)); [both_err | both_ok].
  - (* begin *) both_ok.
  - (* end *) unfold w_assume. destruct (w_sec s <? 2) eqn:E; cbn [negb]; both_ok.
  - (* rule *) unfold w_rule. destruct (w_sec s =? 0); cbn [negb orb]; [|both_err].
    destruct head as [|a h]; cbn [isnil andb]; [|both_ok].
    destruct (ht =? Head_t_Choice); cbn [negb andb]; [both_ok|].
    destruct (w_false s =? 0); [both_err | both_ok].
  - (* weight rule *) unfold w_wrule. destruct (w_sec s =? 0); cbn [negb orb]; [|both_err].
    destruct head as [|a h].
    + cbn [isnil andb length]. destruct (w_false s =? 0); cbn [orb]; [both_err|].
      unfold is_sm_rule, is_sm_head. cbn [length Nat.eqb]. change (1 <? Z.of_nat 0) with false. cbn [orb].
      destruct (ht =? Head_t_Choice); cbn [orb negb].
      * change (Sm_Choice =? Sm_Basic) with false. cbn [negb orb]. change (Sm_End =? Sm_End) with true. both_err.
      * change (Sm_Basic =? Sm_Basic) with true. cbn [negb orb]. destruct (bound <? 0).
        -- change (Sm_End =? Sm_End) with true. both_err.
        -- destruct (forallb _ body); both_ok.
    + cbn [isnil andb orb]. unfold is_sm_rule, is_sm_head.
      destruct (ht =? Head_t_Choice); cbn [orb].
      * change (Sm_Choice =? Sm_Basic) with false. cbn [negb orb]. change (Sm_End =? Sm_End) with true. both_err.
      * destruct h as [|a2 h2].
        -- cbn [length Nat.eqb]. change (1 <? Z.of_nat 1) with false. change (Sm_Basic =? Sm_Basic) with true. cbn [negb orb].
           destruct (bound <? 0); [change (Sm_End =? Sm_End) with true; both_err|].
           destruct (forallb _ body); both_ok.
        -- cbn [length Nat.eqb]. assert (E : (1 <? Z.of_nat (S (S (length h2)))) = true) by lia. rewrite E.
           change (Sm_Disjunctive =? Sm_Basic) with false. cbn [negb orb]. change (Sm_End =? Sm_End) with true. both_err.
  - (* minimize *) both_ok.
  - both_err.
  - (* output *) destruct (w_sec s <=? 1); cbn [negb orb]; [|both_err].
    destruct cond as [|a [|a2 c2]]; cbn [single_pos negb]; try both_err.
    destruct (0 <? a); cbn [negb]; [both_ok | both_err].
  - (* external *) destruct (w_ext s); cbn [negb]; [|both_err].
    destruct (v =? Value_t_Release); both_ok.
  - (* assume *) unfold w_assume. destruct (w_sec s <? 2); cbn [negb]; [both_ok | both_err].
  - both_err. - both_err. - both_err. - both_err. - both_err. - both_err. - both_err. - both_err.
Qed.

(* ---- the normal form of a body is a permutation of the body ---- *)
Lemma partition_perm {A} (f : A -> bool) l : Permutation (filter f l ++ filter (fun x => negb (f x)) l) l.
Proof.
  induction l as [|a l IH]; cbn [filter]; [constructor|].
  destruct (f a); cbn [negb app].
  - now constructor.
  - apply Permutation_sym. apply Permutation_cons_app. now apply Permutation_sym.
Qed.
Lemma norm_body_perm b : Permutation (norm_body b) b.
Proof. apply partition_perm. Qed.
Lemma norm_wbody_perm b : Permutation (norm_wbody b) b.
Proof. apply partition_perm. Qed.
