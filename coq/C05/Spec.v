(* C05 - declarative side of the round trip (definitions only, no proofs):
   - [refused]     : what the writer documents as refused (independent of sm_step);
   - [in_fragment] : the call sequences the property quantifies over (boolean);
   - [sm_norm]     : the normal form that has to come back from the reader (bodies stably partitioned
                     negative-first, minimize priorities renumbered in write order, empty heads -> false atom,
                     compute statement returned as integrity constraints);
   - [lay_step]    : the laid-out program (C07/Spec.v) the writer's text is a rendering of.            *)
Require Import V.Lib.Base V.Lib.Calls V.Lib.Dec V.Gen.Consts V.Gen.Consts_C07 V.C07.Model V.C07.Spec V.C05.Model.
Local Open Scope Z_scope.

(* ---- what the writer documents as refused (independent of sm_step) ---- *)
Definition single_pos (cond : list Z) : bool := match cond with [a] => 0 <? a | _ => false end.
Definition refused (s : wstate) (c : call) : bool :=
  match c with
  | CInit inc => inc && negb (w_ext s)                                   (* incremental programs need the extensions *)
  | CBegin | CEnd | CMin _ _ => false
  | CRule ht h b => negb (w_sec s =? 0)                                   (* rules after symbols *)
                    || (isnil h && negb (ht =? Head_t_Choice) && (w_false s =? 0))   (* integrity constraint without false atom *)
  | CWRule ht h bnd b => negb (w_sec s =? 0) || (isnil h && (w_false s =? 0))
                         || (ht =? Head_t_Choice) || (1 <? Z.of_nat (length h))       (* sum body only with a single normal head *)
                         || (bnd <? 0)
  | COutput _ cond => negb (w_sec s <=? 1) || negb (single_pos cond)     (* symbols after compute; general conditions *)
  | CExternal _ _ => negb (w_ext s)
  | CAssume _ => negb (w_sec s <? 2)                                      (* one compute statement per step *)
  | _ => true                                                            (* project, heuristic, edge, theory *)
  end.

(* ---- normal forms of bodies ---- *)
Definition norm_body (b : list Z) : list Z := negs (fun x => x) b ++ poss (fun x => x) b.
Definition norm_wbody (b : list (Z * Z)) : list (Z * Z) := negs fst b ++ poss fst b.
(* minimize: a negative weight comes back as its absolute value on the complementary literal *)
Definition flipw (p : Z * Z) : Z * Z := if snd p <? 0 then (- fst p, - snd p) else p.
Definition norm_min (l : list (Z * Z)) : list (Z * Z) := norm_wbody (map flipw l).

(* ---- value ranges of the fragment ---- *)
Definition atom_rng (a : Z) : bool := (1 <=? a) && (a <=? atomMax).
Definition lit_rng (l : Z) : bool := negb (l =? 0) && (Z.abs l <=? atomMax).
Definition wlit_rng (p : Z * Z) : bool := lit_rng (fst p) && (0 <=? snd p) && (snd p <=? INT_MAX).       (* rule bodies: weights 0..2^31-1 *)
Definition mlit_rng (p : Z * Z) : bool := lit_rng (fst p) && (Z.abs (snd p) <=? INT_MAX).                (* minimize: |weight| <= 2^31-1 *)
Definition len_ok {A} (l : list A) : bool := Z.of_nat (length l) <=? UINT_MAX.

(* ---- a call sequence split into steps:  begin; (rule | weight rule | minimize | external)*; output*; [assume]; end ---- *)
Record sstep := mks { k_rules : list call; k_syms : list call; k_assume : option (list Z) }.
Definition is_rule_call (c : call) : bool :=
  match c with CRule _ _ _ | CWRule _ _ _ _ | CMin _ _ | CExternal _ _ => true | _ => false end.
Definition is_out_call (c : call) : bool := match c with COutput _ _ => true | _ => false end.
Fixpoint span {A} (f : A -> bool) (l : list A) : list A * list A :=
  match l with
  | [] => ([], [])
  | a :: r => if f a then let '(x, y) := span f r in (a :: x, y) else ([], l)
  end.
Fixpoint parse_steps (fuel : nat) (l : list call) : option (list sstep) :=
  match fuel with
  | O => None
  | S fu =>
      match l with
      | [] => Some []
      | CBegin :: r =>
          let '(rules, r1) := span is_rule_call r in
          let '(syms, r2) := span is_out_call r1 in
          match r2 with
          | CAssume a :: CEnd :: r3 => option_map (cons (mks rules syms (Some a))) (parse_steps fu r3)
          | CEnd :: r3 => option_map (cons (mks rules syms None)) (parse_steps fu r3)
          | _ => None
          end
      | _ => None
      end
  end.
Definition parse (p : list call) : option (bool * list sstep) :=
  match p with
  | CInit inc :: r => option_map (pair inc) (parse_steps (S (length r)) r)
  | _ => None
  end.
(* the call sequence a list of steps stands for *)
Definition flat_step (st : sstep) : list call :=
  CBegin :: k_rules st ++ k_syms st ++ match k_assume st with Some a => [CAssume a; CEnd] | None => [CEnd] end.
Definition flat_prog (inc : bool) (sts : list sstep) : list call := CInit inc :: flat_map flat_step sts.

(* ---- the fragment ---- *)
Definition frag_rule (ext : bool) (f : Z) (c : call) : bool :=
  match c with
  | CRule ht h b =>
      ((ht =? Head_t_Disjunctive) || (ht =? Head_t_Choice)) && forallb atom_rng h && (Z.of_nat (length h) <=? atomMax)
      && forallb lit_rng b && len_ok b
      && (negb (isnil h) || (ht =? Head_t_Choice) || atom_rng f)           (* integrity constraint: needs the false atom *)
  | CWRule ht h bnd b =>
      (ht =? Head_t_Disjunctive) && (Z.of_nat (length h) <=? 1) && forallb atom_rng h && (negb (isnil h) || atom_rng f)
      && (0 <=? bnd) && (bnd <=? INT_MAX) && forallb wlit_rng b && len_ok b
  | CMin _ l => forallb mlit_rng l && len_ok l
  | CExternal a v => ext && atom_rng a && (0 <=? v) && (v <=? 3)
  | _ => false
  end.
Definition name_free (n : list Z) : bool := forallb (fun c => negb ((c =? 0) || (c =? 10) || (c =? 13))) n.   (* no NUL / LF / CR *)
Definition frag_sym (c : call) : bool :=
  match c with COutput n [a] => atom_rng a && name_free n | _ => false end.
Definition assume_of (st : sstep) : list Z := match k_assume st with Some a => a | None => [] end.
Definition frag_step (ext : bool) (f : Z) (st : sstep) : bool :=
  forallb (frag_rule ext f) (k_rules st) && forallb frag_sym (k_syms st) && forallb lit_rng (assume_of st).
(* a call that writes nothing: a choice rule with an empty head *)
Definition writes_nothing (c : call) : bool := match c with CRule ht [] _ => ht =? Head_t_Choice | _ => false end.
(* the first line of the step's text is an external directive (first byte '9': KNOWN finding probe-leading-9) *)
Definition first_ext (st : sstep) : bool :=
  match filter (fun c => negb (writes_nothing c)) (k_rules st) with CExternal _ _ :: _ => true | _ => false end.
Definition frag_steps (ext : bool) (f : Z) (inc : bool) (sts : list sstep) : bool :=
  forallb (frag_step ext f) sts &&
  (if inc then ext && negb (isnil sts)                                   (* incremental: extensions on, any number (>= 1) of steps *)
   else match sts with [st] => negb (first_ext st) | _ => false end).    (* otherwise exactly one step *)
(* the fragment INCLUDING the probe shape, and what the reader then takes for the incremental flag *)
Definition frag_steps_probe (ext : bool) (f : Z) (inc : bool) (sts : list sstep) : bool :=
  forallb (frag_step ext f) sts && (if inc then ext && negb (isnil sts) else match sts with [_] => true | _ => false end).
Definition probe (inc : bool) (sts : list sstep) : bool :=
  negb inc && match sts with st :: _ => first_ext st | [] => false end.
Definition in_fragment (ext : bool) (f : Z) (p : list call) : bool :=
  match parse p with Some (inc, sts) => frag_steps ext f inc sts | None => false end.

(* ---- the normal form ---- *)
Definition empty_head (c : call) : bool :=
  match c with CRule ht [] _ => negb (ht =? Head_t_Choice) | CWRule _ [] _ _ => true | _ => false end.
(* prio = number of minimize statements written so far in the step *)
Definition norm_rule (f prio : Z) (c : call) : list call * Z :=
  match c with
  | CRule ht [] b => if ht =? Head_t_Choice then ([], prio) else ([CRule ht [f] (norm_body b)], prio)
  | CRule ht h b => ([CRule ht h (norm_body b)], prio)
  | CWRule ht h bnd b => ([CWRule Head_t_Disjunctive (match h with [] => [f] | _ => h end) bnd (norm_wbody b)], prio)
  | CMin _ l => ([CMin prio (norm_min l)], prio + 1)
  | c => ([c], prio)
  end.
Fixpoint norm_rules (f prio : Z) (l : list call) : list call :=
  match l with
  | [] => []
  | c :: r => fst (norm_rule f prio c) ++ norm_rules f (snd (norm_rule f prio c)) r
  end.
(* assume(l) comes back as one integrity constraint per literal: first the positive ones (B+), then the negative ones (B-) *)
Definition norm_assume (l : list Z) : list call :=
  map (fun x => CRule Head_t_Disjunctive [] [- x]) (filter (fun x => 0 <? x) l) ++
  map (fun x => CRule Head_t_Disjunctive [] [- x]) (filter (fun x => x <? 0) l).
Definition uses_false (f : Z) (st : sstep) : bool := existsb empty_head (k_rules st) && negb (f =? 0).
Definition norm_step (f : Z) (st : sstep) : list call :=
  [CBegin] ++ norm_rules f 0 (k_rules st) ++ k_syms st ++ norm_assume (assume_of st) ++
  (if uses_false f st then [CRule Head_t_Disjunctive [] [f]] else []) ++ [CEnd].
Definition sm_norm (f : Z) (p : list call) : list call :=
  match parse p with Some (inc, sts) => CInit inc :: flat_map (norm_step f) sts | None => p end.

(* the same normal form as ONE pass over the raw call sequence (no parser): state = (false atom used in this step, number of minimize
   statements seen in this step, literals of the step's compute statement) *)
Record nstate := mkn { n_fh : bool; n_prio : Z; n_assume : list Z }.
Fixpoint norm_fold (f : Z) (st : nstate) (p : list call) : list call :=
  match p with
  | [] => []
  | c :: r =>
      match c with
      | CBegin => CBegin :: norm_fold f (mkn false 0 []) r
      | CAssume l => norm_fold f (mkn (n_fh st) (n_prio st) l) r
      | CEnd => norm_assume (n_assume st) ++ (if n_fh st && negb (f =? 0) then [CRule Head_t_Disjunctive [] [f]] else []) ++
                CEnd :: norm_fold f st r
      | _ => fst (norm_rule f (n_prio st) c) ++
             norm_fold f (mkn (n_fh st || empty_head c) (snd (norm_rule f (n_prio st) c)) (n_assume st)) r
      end
  end.
Definition sm_norm_fold (f : Z) (p : list call) : list call := norm_fold f (mkn false 0 []) p.

(* the writer as a partial function *)
Definition sm_write (ext : bool) (f : Z) (p : list call) : option (list Z) :=
  let '(t, ok) := sm_run (w_init ext f) p in if ok then Some t else None.

(* ---- the layout the writer uses: one blank between the fields of a line, one LF between lines ---- *)
Definition sp1 (a : Z) : num := ([32], a).
Definition nl1 (a : Z) : num := ([10], a).
Definition lay_body (b : list Z) : lbody :=
  mkbody [32] (sp1 (Z.of_nat (length (negs (fun x => x) b)))) (map sp1 (map Z.abs (norm_body b))).
Definition sum_order (b : list (Z * Z)) : list (Z * Z) := negs sm_lit b ++ poss sm_lit b.
Definition lay_wbody (b : list (Z * Z)) : lbody :=
  mkbody [32] (sp1 (Z.of_nat (length (negs sm_lit b)))) (map sp1 (map (fun x => Z.abs (fst x)) (sum_order b))).
Definition lay_wts (b : list (Z * Z)) : list num := map sp1 (map (fun x => Z.abs (snd x)) (sum_order b)).
Definition is_card (b : list (Z * Z)) : bool := forallb (fun x => snd x =? 1) b.
Definition lay_rule (f : Z) (c : call) : list lrule :=
  match c with
  | CRule ht h b =>
      match h with
      | [] => if ht =? Head_t_Choice then [] else [RBasic [10] (sp1 f) (lay_body b)]
      | [a] => if ht =? Head_t_Choice then [RMulti true [10] [32] [sp1 a] (lay_body b)] else [RBasic [10] (sp1 a) (lay_body b)]
      | _ => [RMulti (ht =? Head_t_Choice) [10] [32] (map sp1 h) (lay_body b)]
      end
  | CWRule ht h bnd b =>
      let a := match h with [] => f | a :: _ => a end in
      if is_card b then [RCard [10] (sp1 a) (lay_wbody b) (sp1 bnd)]
      else [RWeight [10] (sp1 a) (sp1 bnd) (lay_wbody b) (lay_wts b)]
  | CMin _ l => [RMin [10] (sp1 0) (lay_wbody l) (lay_wts l)]
  | CExternal a v =>
      if v =? Value_t_Release then [RRelease [10] (sp1 a)]
      else [RAssign [10] (sp1 a) (sp1 (Z.lxor v smw_extval_xor - smw_extval_sub))]
  | _ => []
  end.
Definition lay_sym (c : call) : list lsym :=
  match c with COutput n [a] => [mksym (nl1 a) 32 n] | _ => [] end.
Definition lay_step (ext inc : bool) (f : Z) (st : sstep) : lstep :=
  mkstep ((if ext && inc then [RInc [10] (sp1 0)] else []) ++ flat_map (lay_rule f) (k_rules st)) [10]
         (flat_map lay_sym (k_syms st)) [10]
         [10] (map (fun x => nl1 (Z.abs x)) (filter (fun x => 0 <? x) (assume_of st))) [10]
         [10] (map (fun x => nl1 (Z.abs x)) (filter (fun x => x <? 0) (assume_of st)) ++ (if uses_false f st then [nl1 f] else [])) [10]
         None (nl1 smw_models).
