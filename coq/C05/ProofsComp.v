(* C05 - composition: the text written for a call sequence of the fragment is the rendering of a laid-out program
   (C07/Spec.v) that is well-formed, in range and denotes the normal form; with C07's completeness theorem this is the
   round trip  read (write p) = sm_norm p. *)
Require Import V.Lib.Base V.Lib.Calls V.Lib.Dec V.C09.Spec V.Gen.Consts V.Gen.Consts_C07 V.C07.Model V.C07.Spec V.C07.ProofsLex V.C07.ProofsGram V.C07.ProofsTop.
Require Import V.C05.Model V.C05.Spec V.C05.Proofs V.C05.ProofsRT V.C05.ProofsLines.
Local Open Scope Z_scope.
Ltac Zify.zify_post_hook ::= Z.div_mod_to_equations.

(* ================= A. the parser only splits ================= *)
Lemma span_spec {A} (f : A -> bool) l x y : span f l = (x, y) -> l = x ++ y /\ forallb f x = true.
Proof.
  revert x y. induction l as [|a l IH]; intros x y H; cbn [span] in H.
  - inversion H. split; reflexivity.
  - destruct (f a) eqn:E.
    + destruct (span f l) as [x1 y1]. inversion H; subst. destruct (IH x1 y eq_refl) as [-> Hx]. split; [reflexivity|]. cbn [forallb]. now rewrite E, Hx.
    + inversion H. split; reflexivity.
Qed.
Lemma parse_steps_sound : forall fuel l sts, parse_steps fuel l = Some sts -> l = flat_map flat_step sts.
Proof.
  induction fuel as [|fu IH]; intros l sts H; [discriminate|]. cbn [parse_steps] in H.
  destruct l as [|c r]; [inversion H; reflexivity|]. destruct c; try discriminate H.
  destruct (span is_rule_call r) as [rules r1] eqn:E1. destruct (span is_out_call r1) as [syms r2] eqn:E2.
  destruct (span_spec _ _ _ _ E1) as [-> _]. destruct (span_spec _ _ _ _ E2) as [-> _].
  destruct r2 as [|c2 r3]; [discriminate|]. destruct c2; try discriminate H.
  - (* end *)
    destruct (parse_steps fu r3) as [sts'|] eqn:E3; [|discriminate]. cbn [option_map] in H. inversion H; subst.
    rewrite (IH r3 sts' E3). cbn [flat_map]. unfold flat_step. cbn [k_rules k_syms k_assume app]. rewrite <- ?app_assoc. cbn [app]. reflexivity.
  - (* assume; end *)
    destruct r3 as [|c3 r4]; [discriminate|]. destruct c3; try discriminate H.
    destruct (parse_steps fu r4) as [sts'|] eqn:E3; [|discriminate]. cbn [option_map] in H. inversion H; subst.
    rewrite (IH r4 sts' E3). cbn [flat_map]. unfold flat_step. cbn [k_rules k_syms k_assume app]. rewrite <- ?app_assoc. cbn [app]. reflexivity.
Qed.
Lemma parse_sound p inc sts : parse p = Some (inc, sts) -> p = flat_prog inc sts.
Proof.
  destruct p as [|c r]; [discriminate|]. destruct c; try discriminate. cbn [parse].
  destruct (parse_steps (S (length r)) r) as [s|] eqn:E; [|discriminate]. cbn [option_map]. intros H. inversion H; subst.
  unfold flat_prog. now rewrite (parse_steps_sound _ _ _ E).
Qed.

(* ================= B. the writer over one step ================= *)
Definition prep (t : list Z) (x : list Z * bool) : list Z * bool := (t ++ fst x, snd x).
Lemma run_cons s c r s1 t : sm_step s c = WOk s1 t -> sm_run s (c :: r) = prep t (sm_run s1 r).
Proof. intros H. cbn [sm_run]. rewrite H. destruct (sm_run s1 r). reflexivity. Qed.
Lemma prep_prep a b x : prep a (prep b x) = prep (a ++ b) x.
Proof. unfold prep. cbn [fst snd]. now rewrite app_assoc. Qed.
Lemma prep_nil x : prep [] x = x.
Proof. destruct x. reflexivity. Qed.

Lemma step_line ext f s c : w_sec s = 0 -> w_false s = f -> w_ext s = ext -> frag_rule ext f c = true ->
  sm_step s c = WOk (if empty_head c then set_fhead s else s) (flat_map line (lay_rule f c)).
Proof.
  intros Hsec Hf He H.
  destruct c as [inc| | |ht h b|ht h bnd b|p l|atoms|name cond|a v|lits|a t bias prio0 cond|s0 t cond|id n|id s0|id c args|id terms cond|a t elems|a t elems op rhs];
    try discriminate H.
  - now apply (step_rule ext).
  - now apply (step_wrule ext).
  - now apply (step_min ext).
  - now apply (step_ext ext).
Qed.

Lemma run_rules ext f inc : forall rules fh rest, forallb (frag_rule ext f) rules = true ->
  sm_run (mkw f ext 0 inc fh) (rules ++ rest) =
  prep (flat_map line (flat_map (lay_rule f) rules)) (sm_run (mkw f ext 0 inc (fh || existsb empty_head rules)) rest).
Proof.
  induction rules as [|c rules IH]; intros fh rest H.
  - cbn [app flat_map existsb]. rewrite orb_false_r, prep_nil. reflexivity.
  - cbn [forallb] in H. apply andb_prop in H. destruct H as [Hc Hr]. cbn [app].
    rewrite (run_cons _ _ _ _ _ (step_line ext f (mkw f ext 0 inc fh) c eq_refl eq_refl eq_refl Hc)).
    assert (Es : (if empty_head c then set_fhead (mkw f ext 0 inc fh) else mkw f ext 0 inc fh) = mkw f ext 0 inc (fh || empty_head c)).
    { destruct (empty_head c); unfold set_fhead; cbn [w_false w_ext w_sec w_inc w_fhead]; [now rewrite orb_true_r | now rewrite orb_false_r]. }
    rewrite Es, (IH _ rest Hr), prep_prep. cbn [flat_map existsb]. rewrite flat_map_app, orb_assoc. reflexivity.
Qed.

Definition sym_line (c : call) : list Z := match c with COutput n [a] => print_nat a ++ [32] ++ n ++ eol | _ => [] end.
Lemma frag_sym_inv c : frag_sym c = true -> exists n a, c = COutput n [a] /\ atom_rng a = true /\ name_ok n = true.
Proof.
  destruct c; try discriminate. cbn [frag_sym]. destruct cond as [|a [|a2 c2]]; try discriminate. intros H. apply andb_prop in H. destruct H as [Ha Hn].
  exists name, a. repeat split; assumption.
Qed.
Lemma step_sym f ext sec inc fh c : (sec = 0 \/ sec = 1) -> frag_sym c = true ->
  sm_step (mkw f ext sec inc fh) c = WOk (mkw f ext 1 inc fh) ((if sec =? 0 then [48] ++ eol else []) ++ sym_line c).
Proof.
  intros Hs H. destruct (frag_sym_inv c H) as (n & a & -> & Ha & Hn). cbn [sm_step w_sec]. assert (E : (sec <=? 1) = true) by lia. rewrite E. cbn [negb].
  pose proof (atom_rng_u32 a Ha) as Hu. assert (E2 : (0 <? a) = true) by (unfold atom_rng in Ha; lia). rewrite E2. unfold set_sec. cbn [w_false w_ext w_sec w_inc w_fhead sym_line].
  rewrite (u32_id a Hu). reflexivity.
Qed.
Lemma run_syms1 f ext inc fh : forall syms rest, forallb frag_sym syms = true ->
  sm_run (mkw f ext 1 inc fh) (syms ++ rest) = prep (flat_map sym_line syms) (sm_run (mkw f ext 1 inc fh) rest).
Proof.
  induction syms as [|c syms IH]; intros rest H; [cbn [app flat_map]; now rewrite prep_nil|].
  cbn [forallb] in H. apply andb_prop in H. destruct H as [Hc Hr]. cbn [app].
  rewrite (run_cons _ _ _ _ _ (step_sym f ext 1 inc fh c (or_intror eq_refl) Hc)). change (1 =? 0) with false. cbv iota.
  rewrite (IH rest Hr), prep_prep. reflexivity.
Qed.
(* after the rule section: "0", the symbol lines, "0", the compute statement, the number of models *)
Definition tail_text (f : Z) (st : sstep) : list Z :=
  [48] ++ eol ++ flat_map sym_line (k_syms st) ++ [48] ++ eol ++
  w_assume_text (mkw f false 0 false (existsb empty_head (k_rules st))) (assume_of st) ++ print_nat smw_models ++ eol.
Lemma assume_text_state f e1 e2 s1 s2 i1 i2 fh l :
  w_assume_text (mkw f e1 s1 i1 fh) l = w_assume_text (mkw f e2 s2 i2 fh) l.
Proof. reflexivity. Qed.

Lemma run_close f ext inc fh st rest : forallb frag_sym (k_syms st) = true -> existsb empty_head (k_rules st) = fh ->
  sm_run (mkw f ext 0 inc fh) ((k_syms st ++ match k_assume st with Some a => [CAssume a; CEnd] | None => [CEnd] end) ++ rest) =
  prep (tail_text f st) (sm_run (mkw f ext 2 inc fh) rest).
Proof.
  intros Hs Hfh. unfold tail_text. rewrite Hfh. rewrite <- app_assoc.
  assert (Hend : forall sec, (sec = 0 \/ sec = 1) ->
    sm_run (mkw f ext sec inc fh) (match k_assume st with Some a => [CAssume a; CEnd] | None => [CEnd] end ++ rest) =
    prep ((if sec =? 0 then [48] ++ eol ++ [48] ++ eol else [48] ++ eol) ++ w_assume_text (mkw f false 0 false fh) (assume_of st) ++ print_nat smw_models ++ eol)
         (sm_run (mkw f ext 2 inc fh) rest)).
  { intros sec Hsec. assert (E : (sec <? 2) = true) by lia. unfold assume_of. destruct (k_assume st) as [a|]; cbn [app].
    - erewrite run_cons; [|cbn [sm_step]; unfold w_assume; cbn [w_sec]; rewrite E; cbn [negb]; reflexivity].
      erewrite run_cons; [|cbn [sm_step]; unfold set_sec; cbn [w_sec w_false w_ext w_inc w_fhead]; change (2 <? 2) with false; cbv iota; reflexivity].
      rewrite prep_prep. f_equal; try (cbn [app]; rewrite <- ?app_assoc; reflexivity).
    - erewrite run_cons; [|cbn [sm_step]; unfold w_assume; cbn [w_sec]; rewrite E; cbn [negb]; reflexivity].
      f_equal; try (unfold set_sec; cbn [w_sec w_false w_ext w_inc w_fhead]; rewrite <- ?app_assoc; reflexivity). }
  destruct (k_syms st) as [|c syms] eqn:Ek.
  - cbn [app flat_map]. rewrite (Hend 0 (or_introl eq_refl)). change (0 =? 0) with true. cbv iota. f_equal.
  - cbn [forallb] in Hs. apply andb_prop in Hs. destruct Hs as [Hc Hr]. cbn [app].
    rewrite (run_cons _ _ _ _ _ (step_sym f ext 0 inc fh c (or_introl eq_refl) Hc)). change (0 =? 0) with true. cbv iota.
    rewrite (run_syms1 f ext inc fh syms _ Hr), (Hend 1 (or_intror eq_refl)). change (1 =? 0) with false. cbv iota.
    rewrite !prep_prep. f_equal; try (cbn [flat_map]; rewrite <- ?app_assoc; reflexivity).
Qed.

Definition begin_rules (ext inc : bool) : list lrule := if ext && inc then [RInc [10] (sp1 0)] else [].
Definition step_text (ext inc : bool) (f : Z) (st : sstep) : list Z :=
  flat_map line (begin_rules ext inc ++ flat_map (lay_rule f) (k_rules st)) ++ tail_text f st.

Lemma run_step ext f inc st sec0 fh0 rest : frag_step ext f st = true ->
  sm_run (mkw f ext sec0 inc fh0) (flat_step st ++ rest) =
  prep (step_text ext inc f st) (sm_run (mkw f ext 2 inc (existsb empty_head (k_rules st))) rest).
Proof.
  intros H. unfold frag_step in H. apply andb_prop in H. destruct H as [H Ha]. apply andb_prop in H. destruct H as [Hr Hs].
  unfold flat_step. cbn [app].
  erewrite run_cons; [|cbn [sm_step w_false w_ext w_sec w_inc w_fhead]; reflexivity].
  rewrite <- app_assoc, (run_rules ext f inc (k_rules st) false _ Hr). cbn [orb].
  rewrite app_assoc, (run_close f ext inc _ st rest Hs eq_refl), !prep_prep. f_equal.
  unfold step_text, begin_rules. rewrite flat_map_app. f_equal. f_equal.
  destruct (ext && inc); [|reflexivity]. rewrite line_nil. cbn [rule_type rule_fields]. unfold r_num, sp1, add_u. cbn [fst snd].
  rewrite <- ?app_assoc. reflexivity.
Qed.

(* ================= C. the text of a step is the rendering of its layout, shifted by one line break ================= *)
Definition shifts (X Y : list Z) : Prop := X ++ [10] = [10] ++ Y.
Lemma shifts_nil : shifts [] [].
Proof. reflexivity. Qed.
Lemma shifts_app X1 Y1 X2 Y2 : shifts X1 Y1 -> shifts X2 Y2 -> shifts (X1 ++ X2) (Y1 ++ Y2).
Proof. unfold shifts. intros H1 H2. rewrite <- app_assoc, H2. rewrite app_assoc, H1. rewrite <- app_assoc. reflexivity. Qed.
Lemma shifts_flat {A} (g h : A -> list Z) l : (forall a, In a l -> shifts (g a) (h a)) -> shifts (flat_map g l) (flat_map h l).
Proof.
  induction l as [|a l IH]; intros H; [apply shifts_nil|]. cbn [flat_map]. apply shifts_app; [apply H; now left | apply IH; intros b Hb; apply H; now right].
Qed.
Lemma shifts_line X : shifts ([10] ++ X) (X ++ [10]).
Proof. unfold shifts. rewrite <- app_assoc. reflexivity. Qed.
Lemma flat_map_map {A B C} (g : A -> B) (h : B -> list C) l : flat_map h (map g l) = flat_map (fun x => h (g x)) l.
Proof. induction l as [|a l IH]; [reflexivity|]. cbn [map flat_map]. now rewrite IH. Qed.

(* every laid-out rule of the step: leading whitespace = one LF, well-formed, in range *)
Lemma lay_rules_wf ext inc f rules rl : forallb (frag_rule ext f) rules = true ->
  In rl (begin_rules ext inc ++ flat_map (lay_rule f) rules) -> rule_ok rl = true /\ rule_tw rl = [10] /\ rule_in ext rl = true.
Proof.
  intros H Hin. apply in_app_or in Hin. destruct Hin as [Hin|Hin].
  - unfold begin_rules in Hin. destruct (ext && inc) eqn:E; [|destruct Hin]. destruct Hin as [<-|[]]. apply andb_prop in E. destruct E as [-> _].
    repeat split.
  - apply in_flat_map in Hin. destruct Hin as (c & Hc & Hrl). rewrite forallb_forall in H. apply (lay_rule_wf ext f c rl (H c Hc) Hrl).
Qed.

Lemma shifts_rules l : (forall rl, In rl l -> rule_tw rl = [10]) -> shifts (flat_map r_rule l) (flat_map line l).
Proof.
  intros H. apply shifts_flat. intros rl Hrl. unfold r_rule, line, shifts, eol. rewrite (H rl Hrl). rewrite <- !app_assoc. reflexivity.
Qed.
Lemma shifts_syms syms : forallb frag_sym syms = true -> shifts (flat_map r_sym (flat_map lay_sym syms)) (flat_map sym_line syms).
Proof.
  induction syms as [|c syms IH]; intros H; [apply shifts_nil|]. cbn [forallb] in H. apply andb_prop in H. destruct H as [Hc Hr].
  destruct (frag_sym_inv c Hc) as (n & a & -> & Ha & Hn). cbn [flat_map lay_sym sym_line app]. apply shifts_app; [|now apply IH].
  unfold r_sym, r_num, nl1, shifts. cbn [y_atom y_sep y_name fst snd]. rewrite <- !app_assoc. reflexivity.
Qed.
Lemma shifts_atoms l : forallb lit_rng l = true ->
  shifts (r_nums (map (fun x => nl1 (Z.abs x)) l)) (flat_map (fun x => print_nat (u32 (Z.abs x)) ++ eol) l).
Proof.
  intros H. unfold r_nums. rewrite flat_map_map. apply shifts_flat. intros x Hx. rewrite forallb_forall in H. specialize (H x Hx).
  rewrite u32_id by (unfold lit_rng, atomMax in H; lia). unfold r_num, nl1. cbn [fst snd]. apply shifts_line.
Qed.
Lemma forallb_filter {A} (p q : A -> bool) l : forallb p l = true -> forallb p (filter q l) = true.
Proof. intros H. apply forallb_forall. intros x Hx. apply filter_In in Hx. rewrite forallb_forall in H. now apply H. Qed.

Lemma step_shifts ext inc f st : frag_step ext f st = true ->
  shifts (r_step (lay_step ext inc f st)) (step_text ext inc f st).
Proof.
  intros H. unfold frag_step in H. apply andb_prop in H. destruct H as [H Ha]. apply andb_prop in H. destruct H as [Hr Hs].
  set (L := lay_step ext inc f st).
  assert (EX : r_step L = flat_map r_rule (s_rules L) ++ r_zero [10] ++ flat_map r_sym (s_syms L) ++ r_zero [10] ++
                 ([10] ++ sm_kw_bplus) ++ r_nums (s_bplus L) ++ r_zero [10] ++ ([10] ++ sm_kw_bminus) ++ r_nums (s_bminus L) ++ r_zero [10] ++
                 r_num (nl1 smw_models)).
  { unfold r_step, L, lay_step. cbn [s_rules s_rend s_syms s_send s_bpw s_bplus s_bpend s_bmw s_bminus s_bmend s_ext s_models r_ext].
    rewrite <- !app_assoc. reflexivity. }
  assert (EY : step_text ext inc f st =
                 flat_map line (s_rules L) ++ ([48] ++ eol) ++ flat_map sym_line (k_syms st) ++ ([48] ++ eol) ++
                 (smw_kw_bplus ++ eol) ++ flat_map (fun x => print_nat (u32 (Z.abs x)) ++ eol) (filter (fun x => 0 <? x) (assume_of st)) ++ ([48] ++ eol) ++
                 (smw_kw_bminus ++ eol) ++
                 (flat_map (fun x => print_nat (u32 (Z.abs x)) ++ eol) (filter (fun x => x <? 0) (assume_of st)) ++
                  (if uses_false f st then print_nat f ++ eol else [])) ++ ([48] ++ eol) ++ (print_nat smw_models ++ eol)).
  { unfold step_text, tail_text, w_assume_text, uses_false, L, lay_step. cbn [s_rules w_fhead w_false]. rewrite <- !app_assoc. reflexivity. }
  rewrite EX, EY. unfold L, lay_step. cbn [s_rules s_syms s_bplus s_bminus].
  apply shifts_app; [apply shifts_rules; intros rl Hrl; apply (lay_rules_wf ext inc f (k_rules st) rl Hr Hrl)|].
  apply shifts_app; [reflexivity|].
  apply shifts_app; [now apply shifts_syms|].
  apply shifts_app; [reflexivity|].
  apply shifts_app; [reflexivity|].
  apply shifts_app; [apply shifts_atoms; now apply forallb_filter|].
  apply shifts_app; [reflexivity|].
  apply shifts_app; [reflexivity|].
  apply shifts_app.
  { rewrite r_nums_app. apply shifts_app; [apply shifts_atoms; now apply forallb_filter|].
    destruct (uses_false f st); [|apply shifts_nil]. unfold r_nums. cbn [flat_map]. rewrite app_nil_r. unfold r_num, nl1. cbn [fst snd]. apply shifts_line. }
  apply shifts_app; [reflexivity|].
  unfold r_num, nl1. cbn [fst snd]. apply shifts_line.
Qed.

(* ================= D. the layout of a step is well-formed, in range and denotes the normal form ================= *)
Lemma rules_ok_nl l : (forall rl, In rl l -> rule_ok rl = true /\ rule_tw rl = [10]) -> rules_ok true l = true.
Proof.
  induction l as [|rl l IH]; intros H; [reflexivity|]. cbn [rules_ok]. destruct (H rl (or_introl eq_refl)) as [Hok Htw].
  rewrite Htw, Hok, IH by (intros x Hx; apply H; now right). reflexivity.
Qed.
Lemma syms_ok_lay syms : forallb frag_sym syms = true -> forall b, syms_ok b (flat_map lay_sym syms) = true.
Proof.
  induction syms as [|c syms IH]; intros H b; [reflexivity|]. cbn [forallb] in H. apply andb_prop in H. destruct H as [Hc Hr].
  destruct (frag_sym_inv c Hc) as (n & a & -> & Ha & Hn). cbn [flat_map lay_sym app syms_ok y_atom y_sep y_name nl1 fst snd].
  rewrite Hn, (IH Hr true). assert (E : (1 <=? a) = true) by (unfold atom_rng in Ha; lia). rewrite E. destruct b; reflexivity.
Qed.
Lemma atoms_ok_nl l : (forall a, In a l -> fst a = [10] /\ 1 <= snd a) -> forall b, atoms_ok b l = true.
Proof.
  induction l as [|a l IH]; intros H b; [reflexivity|]. cbn [atoms_ok]. destruct (H a (or_introl eq_refl)) as [Hw Hv].
  rewrite Hw, IH by (intros x Hx; apply H; now right). assert (E : (1 <=? snd a) = true) by lia. rewrite E. destruct b; reflexivity.
Qed.
Lemma end_ok_nl b : end_ok b [10] = true.
Proof. destruct b; reflexivity. Qed.
Lemma abs_atoms_in l x : forallb lit_rng l = true -> In x (map (fun x => nl1 (Z.abs x)) l) -> fst x = [10] /\ 1 <= snd x /\ atom_in x = true.
Proof.
  intros H Hx. apply in_map_iff in Hx. destruct Hx as (y & <- & Hy). rewrite forallb_forall in H. specialize (H y Hy).
  unfold lit_rng, atomMax in H. unfold nl1, atom_in, atomMax. cbn [fst snd]. repeat split; lia.
Qed.
Lemma uses_false_rng ext f st : forallb (frag_rule ext f) (k_rules st) = true -> uses_false f st = true -> atom_rng f = true.
Proof.
  intros H Hu. unfold uses_false in Hu. apply andb_prop in Hu. destruct Hu as [Hu _]. apply existsb_exists in Hu. destruct Hu as (c & Hc & He).
  rewrite forallb_forall in H. specialize (H c Hc). destruct c; try discriminate He; destruct head as [|a h]; try discriminate He.
  - destruct (frag_crule _ _ _ _ _ H) as (_ & _ & _ & _ & _ & Hfa). cbn [empty_head] in He. cbn [isnil negb orb] in Hfa.
    destruct (ht =? Head_t_Choice); [discriminate He | exact Hfa].
  - destruct (frag_cwrule _ _ _ _ _ _ H) as (_ & _ & _ & Hfa & _). exact Hfa.
Qed.
Lemma bminus_in ext f st x : frag_step ext f st = true ->
  In x (map (fun x => nl1 (Z.abs x)) (filter (fun x => x <? 0) (assume_of st)) ++ (if uses_false f st then [nl1 f] else [])) ->
  fst x = [10] /\ 1 <= snd x /\ atom_in x = true.
Proof.
  intros H Hx. unfold frag_step in H. apply andb_prop in H. destruct H as [H Ha]. apply andb_prop in H. destruct H as [Hr Hs].
  apply in_app_or in Hx. destruct Hx as [Hx|Hx]; [apply (abs_atoms_in _ x (forallb_filter _ _ _ Ha) Hx)|].
  destruct (uses_false f st) eqn:Eu; [|destruct Hx]. destruct Hx as [<-|[]]. pose proof (uses_false_rng ext f st Hr Eu) as Hf.
  unfold atom_rng in Hf. unfold nl1, atom_in. cbn [fst snd]. repeat split; lia.
Qed.

Lemma lay_step_ok ext inc f st : frag_step ext f st = true -> step_ok true (lay_step ext inc f st) = true.
Proof.
  intros H. pose proof H as H0. unfold frag_step in H. apply andb_prop in H. destruct H as [H Ha]. apply andb_prop in H. destruct H as [Hr Hs].
  unfold step_ok, lay_step. cbn [s_rules s_rend s_syms s_send s_bpw s_bplus s_bpend s_bmw s_bminus s_bmend s_ext s_models ext_ok].
  rewrite rules_ok_nl by (intros rl Hrl; destruct (lay_rules_wf ext inc f (k_rules st) rl Hr Hrl) as (? & ? & _); split; assumption).
  rewrite (syms_ok_lay _ Hs false), !end_ok_nl.
  rewrite (atoms_ok_nl _ (fun a Ha' => let '(conj x (conj y _)) := abs_atoms_in _ a (forallb_filter _ _ _ Ha) Ha' in conj x y) true).
  rewrite (atoms_ok_nl _ (fun a Ha' => let '(conj x (conj y _)) := bminus_in ext f st a H0 Ha' in conj x y) true).
  reflexivity.
Qed.

Lemma lay_step_in ext inc f st : frag_step ext f st = true -> step_in ext (lay_step ext inc f st) = true.
Proof.
  intros H. pose proof H as H0. unfold frag_step in H. apply andb_prop in H. destruct H as [H Ha]. apply andb_prop in H. destruct H as [Hr Hs].
  unfold step_in, lay_step. cbn [s_rules s_syms s_bplus s_bminus s_ext s_models ext_in].
  assert (E1 : forallb (rule_in ext) (begin_rules ext inc ++ flat_map (lay_rule f) (k_rules st)) = true).
  { apply forallb_forall. intros rl Hrl. apply (lay_rules_wf ext inc f (k_rules st) rl Hr Hrl). }
  assert (E2 : forallb (fun y => atom_in (y_atom y)) (flat_map lay_sym (k_syms st)) = true).
  { clear - Hs. induction (k_syms st) as [|c syms IH]; [reflexivity|]. cbn [forallb] in Hs. apply andb_prop in Hs. destruct Hs as [Hc Hr].
    destruct (frag_sym_inv c Hc) as (n & a & -> & Ha & Hn). cbn [flat_map lay_sym app forallb y_atom]. rewrite (IH Hr), andb_true_r.
    unfold atom_in, nl1. cbn [snd]. exact Ha. }
  assert (E3 : forallb atom_in (map (fun x => nl1 (Z.abs x)) (filter (fun x => 0 <? x) (assume_of st))) = true).
  { apply forallb_forall. intros x Hx. apply (abs_atoms_in _ x (forallb_filter _ _ _ Ha) Hx). }
  assert (E4 : forallb atom_in (map (fun x => nl1 (Z.abs x)) (filter (fun x => x <? 0) (assume_of st)) ++ (if uses_false f st then [nl1 f] else [])) = true).
  { apply forallb_forall. intros x Hx. apply (bminus_in ext f st x H0 Hx). }
  unfold begin_rules in E1. rewrite E1, E2, E3, E4. reflexivity.
Qed.

Lemma d_rules_lay ext f : forall rules prio, forallb (frag_rule ext f) rules = true ->
  d_rules prio (flat_map (lay_rule f) rules) = norm_rules f prio rules.
Proof.
  induction rules as [|c rules IH]; intros prio H; [reflexivity|]. cbn [forallb] in H. apply andb_prop in H. destruct H as [Hc Hr].
  cbn [flat_map norm_rules]. rewrite (lay_rule_denote ext f prio c _ Hc), (IH _ Hr). reflexivity.
Qed.
Lemma d_syms_lay syms : forallb frag_sym syms = true ->
  map (fun y => COutput (y_name y) [snd (y_atom y)]) (flat_map lay_sym syms) = syms.
Proof.
  induction syms as [|c syms IH]; intros H; [reflexivity|]. cbn [forallb] in H. apply andb_prop in H. destruct H as [Hc Hr].
  destruct (frag_sym_inv c Hc) as (n & a & -> & Ha & Hn). cbn [flat_map lay_sym app map y_name y_atom nl1 snd]. now rewrite (IH Hr).
Qed.

Lemma lay_step_denote ext inc f st : frag_step ext f st = true -> d_step (lay_step ext inc f st) = norm_step f st.
Proof.
  intros H. unfold frag_step in H. apply andb_prop in H. destruct H as [H Ha]. apply andb_prop in H. destruct H as [Hr Hs].
  unfold d_step, norm_step, lay_step. cbn [s_rules s_syms s_bplus s_bminus s_ext d_ext].
  assert (E1 : d_rules 0 (begin_rules ext inc ++ flat_map (lay_rule f) (k_rules st)) = norm_rules f 0 (k_rules st)).
  { unfold begin_rules. destruct (ext && inc); cbn [app d_rules d_rule fst snd]; now apply (d_rules_lay ext). }
  unfold begin_rules in E1. rewrite E1, (d_syms_lay _ Hs). unfold norm_assume. rewrite map_app, !map_map. cbn [nl1 snd app].
  f_equal. f_equal. f_equal. rewrite <- !app_assoc. f_equal.
  { apply map_ext_in. intros x Hx. apply filter_In in Hx. destruct Hx as [_ Hx]. cbv beta in Hx. f_equal. f_equal. lia. }
  f_equal.
  { apply map_ext_in. intros x Hx. apply filter_In in Hx. destruct Hx as [_ Hx]. cbv beta in Hx. f_equal. f_equal. lia. }
  destruct (uses_false f st); reflexivity.
Qed.

(* ================= E. the whole program ================= *)
Definition lay_prog (ext inc : bool) (f : Z) (sts : list sstep) : lprog :=
  mkprog (match map (lay_step ext inc f) sts with [] => [] | L :: r => set_fw [] L :: r end) [10].
Definition prog_text (ext inc : bool) (f : Z) (sts : list sstep) : list Z := flat_map (step_text ext inc f) sts.

Lemma run_steps ext f inc : forall sts sec fh, forallb (frag_step ext f) sts = true ->
  sm_run (mkw f ext sec inc fh) (flat_map flat_step sts) = (prog_text ext inc f sts, true).
Proof.
  induction sts as [|st sts IH]; intros sec fh H; [reflexivity|]. cbn [forallb] in H. apply andb_prop in H. destruct H as [Hs Hr].
  cbn [flat_map]. rewrite (run_step ext f inc st sec fh _ Hs), (IH _ _ Hr). reflexivity.
Qed.
Lemma frag_steps_inv ext f inc sts : frag_steps ext f inc sts = true ->
  forallb (frag_step ext f) sts = true /\ sts <> [] /\ (inc = true -> ext = true) /\
  (inc = false -> exists st, sts = [st] /\ first_ext st = false).
Proof.
  unfold frag_steps. intros H. apply andb_prop in H. destruct H as [H1 H2]. split; [exact H1|]. destruct inc.
  - apply andb_prop in H2. destruct H2 as [He Hn]. repeat split; [destruct sts; [discriminate | discriminate] | now intros _ | discriminate].
  - destruct sts as [|st [|st2 sts]]; try discriminate H2. repeat split; [discriminate | discriminate |]. intros _. exists st. split; [reflexivity|].
    now apply negb_true_iff in H2.
Qed.
Lemma run_prog ext f inc sts : frag_steps ext f inc sts = true ->
  sm_run (w_init ext f) (flat_prog inc sts) = (prog_text ext inc f sts, true).
Proof.
  intros H. destruct (frag_steps_inv _ _ _ _ H) as (Hs & _ & Hie & _). unfold flat_prog, w_init.
  assert (E : inc && negb ext = false) by (destruct inc; [rewrite (Hie eq_refl)|]; reflexivity).
  erewrite run_cons; [|cbn [sm_step w_ext w_false w_sec w_inc w_fhead]; rewrite E; reflexivity].
  rewrite (run_steps ext f inc sts 0 false Hs). reflexivity.
Qed.

Lemma lay_step_fw ext inc f st : frag_step ext f st = true -> step_fw (lay_step ext inc f st) = [10].
Proof.
  intros H. unfold frag_step in H. apply andb_prop in H. destruct H as [H _]. apply andb_prop in H. destruct H as [Hr _].
  unfold step_fw. destruct (s_rules (lay_step ext inc f st)) as [|rl t] eqn:E; [reflexivity|].
  apply (lay_rules_wf ext inc f (k_rules st) rl Hr). unfold lay_step in E. cbn [s_rules] in E. unfold begin_rules. rewrite E. now left.
Qed.
Lemma render_text ext inc f sts : forallb (frag_step ext f) sts = true -> sts <> [] ->
  render (lay_prog ext inc f sts) = prog_text ext inc f sts.
Proof.
  intros H Hne. destruct sts as [|st sts]; [congruence|]. cbn [forallb] in H. apply andb_prop in H. destruct H as [Hs Hr].
  assert (S : shifts (flat_map r_step (map (lay_step ext inc f) (st :: sts))) (prog_text ext inc f (st :: sts))).
  { unfold prog_text. rewrite flat_map_map. apply shifts_flat. intros a Ha. apply step_shifts.
    assert (Hall : forallb (frag_step ext f) (st :: sts) = true) by (cbn [forallb]; now rewrite Hs, Hr). rewrite forallb_forall in Hall. now apply Hall. }
  unfold shifts in S. apply (app_inv_head [10]). rewrite <- S. unfold render, lay_prog. cbn [map p_steps p_tail flat_map].
  rewrite (r_step_split (lay_step ext inc f st)), (lay_step_fw ext inc f st Hs). unfold step_body. rewrite <- !app_assoc. reflexivity.
Qed.

Lemma steps_ok_lay ext inc f sts : forallb (frag_step ext f) sts = true -> steps_ok true (map (lay_step ext inc f) sts) = true.
Proof.
  induction sts as [|st sts IH]; intros H; [reflexivity|]. cbn [forallb] in H. apply andb_prop in H. destruct H as [Hs Hr].
  cbn [map steps_ok]. now rewrite (lay_step_ok ext inc f st Hs), (IH Hr).
Qed.
Lemma lay_prog_ok ext inc f sts : forallb (frag_step ext f) sts = true -> sts <> [] -> layout_ok (lay_prog ext inc f sts) = true.
Proof.
  intros H Hne. destruct sts as [|st sts]; [congruence|]. cbn [forallb] in H. apply andb_prop in H. destruct H as [Hs Hr].
  unfold layout_ok, lay_prog. cbn [map p_steps p_tail steps_ok isnil negb].
  rewrite (set_fw_ok true _ (lay_step_ok ext inc f st Hs)), (steps_ok_lay ext inc f sts Hr). reflexivity.
Qed.
Lemma lay_prog_steps_in ext inc f sts : forallb (frag_step ext f) sts = true ->
  forallb (step_in ext) (p_steps (lay_prog ext inc f sts)) = true /\
  flat_map d_step (p_steps (lay_prog ext inc f sts)) = flat_map (norm_step f) sts.
Proof.
  intros H.
  assert (G : forallb (step_in ext) (map (lay_step ext inc f) sts) = true /\ flat_map d_step (map (lay_step ext inc f) sts) = flat_map (norm_step f) sts).
  { induction sts as [|st sts IH]; [split; reflexivity|]. cbn [forallb] in H. apply andb_prop in H. destruct H as [Hs Hr]. destruct (IH Hr) as [I1 I2].
    cbn [map forallb flat_map]. rewrite (lay_step_in ext inc f st Hs), I1, (lay_step_denote ext inc f st Hs), I2. split; reflexivity. }
  unfold lay_prog. cbn [p_steps]. destruct (map (lay_step ext inc f) sts) as [|L r]; [exact G|].
  cbn [forallb flat_map] in *. destruct (set_fw_sem [] L ext) as [E1 E2]. rewrite E1, E2. exact G.
Qed.

(* the first byte decides what the reader takes for the incremental flag *)
Lemma pn_basic : print_nat Sm_Basic = [49]. Proof. reflexivity. Qed.
Lemma pn_card : print_nat Sm_Cardinality = [50]. Proof. reflexivity. Qed.
Lemma pn_choice : print_nat Sm_Choice = [51]. Proof. reflexivity. Qed.
Lemma pn_weight : print_nat Sm_Weight = [53]. Proof. reflexivity. Qed.
Lemma pn_opt : print_nat Sm_Optimize = [54]. Proof. reflexivity. Qed.
Lemma pn_disj : print_nat Sm_Disjunctive = [56]. Proof. reflexivity. Qed.
Lemma pn_inc : print_nat Sm_ClaspIncrement = [57; 48]. Proof. reflexivity. Qed.

Definition low_type (rl : lrule) : bool :=
  match rl with RBasic _ _ _ | RMulti _ _ _ _ _ | RCard _ _ _ _ | RWeight _ _ _ _ _ | RMin _ _ _ _ => true | _ => false end.
Lemma low_type_hd rl Y : low_type rl = true -> hd 0 (line rl ++ Y) <> 57.
Proof.
  unfold line. destruct rl as [tw h b|ch tw nw hs b|tw h b bnd|tw h bnd b wts|tw bnd b wts|tw z|tw a v|tw a|t0]; try discriminate; intros _; cbn [rule_type].
  all: try destruct ch; rewrite ?pn_basic, ?pn_choice, ?pn_disj, ?pn_card, ?pn_weight, ?pn_opt; cbn [app hd]; discriminate.
Qed.
Lemma lay_rule_low f c : is_rule_call c = true -> match c with CExternal _ _ => false | _ => true end = true ->
  forall rl, In rl (lay_rule f c) -> low_type rl = true.
Proof.
  intros Hrc Hne rl Hin. destruct c; try discriminate Hrc; try discriminate Hne; cbn [lay_rule] in Hin.
  - destruct head as [|a [|a2 h2]]; [destruct (ht =? Head_t_Choice) | destruct (ht =? Head_t_Choice) |]; repeat (destruct Hin as [<-|Hin]; [reflexivity|]); destruct Hin.
  - destruct (is_card body); destruct Hin as [<-|[]]; reflexivity.
  - destruct Hin as [<-|[]]; reflexivity.
Qed.
Lemma first_line_low ext f : forall rules Y, forallb (frag_rule ext f) rules = true ->
  match filter (fun c => negb (writes_nothing c)) rules with CExternal _ _ :: _ => true | _ => false end = false ->
  hd 0 (flat_map line (flat_map (lay_rule f) rules) ++ 48 :: Y) <> 57.
Proof.
  induction rules as [|c rules IH]; intros Y H Hf; [cbn [flat_map app hd]; discriminate|].
  cbn [forallb] in H. apply andb_prop in H. destruct H as [Hc Hr]. cbn [filter] in Hf. cbn [flat_map].
  destruct (writes_nothing c) eqn:Ew; cbn [negb] in Hf.
  - assert (El : lay_rule f c = []). { destruct c; try discriminate Ew. destruct head; [|discriminate Ew]. cbn [writes_nothing] in Ew. cbn [lay_rule]. now rewrite Ew. }
    rewrite El. cbn [app]. now apply IH.
  - assert (Hrc : is_rule_call c = true) by (destruct c; try discriminate Hc; reflexivity).
    assert (Hne : match c with CExternal _ _ => false | _ => true end = true) by (destruct c; try reflexivity; discriminate Hf).
    pose proof (lay_rule_low f c Hrc Hne) as Hlow.
    pose proof (lay_rule_denote1 ext f 0 c Hc) as D.
    destruct (lay_rule f c) as [|rl [|rl2 l2]] eqn:El; [|clear D|destruct D].
    + exfalso. destruct c; try discriminate Hc; cbn [lay_rule] in El.
      * destruct head as [|a [|a2 h2]]; [|destruct (ht =? Head_t_Choice); discriminate El | discriminate El].
        cbn [writes_nothing] in Ew. rewrite Ew in El. discriminate El.
      * destruct (is_card body); discriminate El.
      * discriminate El.
      * discriminate Hne.
    + cbn [flat_map app]. rewrite <- app_assoc. apply low_type_hd. apply Hlow. now left.
Qed.

Lemma lay_prog_incremental ext f inc sts : frag_steps ext f inc sts = true -> incremental (lay_prog ext inc f sts) = inc.
Proof.
  intros H. destruct (frag_steps_inv _ _ _ _ H) as (Hs & Hne & Hie & Hni). unfold incremental, first_byte.
  rewrite (render_text ext inc f sts Hs Hne). unfold prog_text. destruct inc.
  - rewrite (Hie eq_refl). destruct sts as [|st sts]; [congruence|]. cbn [flat_map]. unfold step_text, begin_rules. cbn [andb app flat_map].
    unfold line at 1. cbn [rule_type]. rewrite pn_inc. reflexivity.
  - destruct (Hni eq_refl) as (st & -> & Hfe). cbn [flat_map]. rewrite app_nil_r. unfold step_text, begin_rules. rewrite andb_false_r. cbn [app].
    cbn [forallb] in Hs. rewrite andb_true_r in Hs. unfold frag_step in Hs. apply andb_prop in Hs. destruct Hs as [Hs _]. apply andb_prop in Hs. destruct Hs as [Hr _].
    apply Z.eqb_neq. unfold tail_text. cbn [app]. apply (first_line_low ext f (k_rules st) _ Hr). exact Hfe.
Qed.

Lemma lay_prog_in_range ext f inc sts : frag_steps ext f inc sts = true -> in_range ext (lay_prog ext inc f sts) = true.
Proof.
  intros H. destruct (frag_steps_inv _ _ _ _ H) as (Hs & Hne & Hie & Hni). unfold in_range.
  rewrite (proj1 (lay_prog_steps_in ext inc f sts Hs)), (lay_prog_incremental ext f inc sts H). cbn [andb].
  destruct inc.
  - rewrite (Hie eq_refl). apply orb_true_r.
  - destruct (Hni eq_refl) as (st & -> & _). reflexivity.
Qed.

(* ---- (3) the round trip ---- *)
Theorem roundtrip_steps (ext flt : bool) (f : Z) (inc : bool) (sts : list sstep) : frag_steps ext f inc sts = true ->
  sm_run (w_init ext f) (flat_prog inc sts) = (prog_text ext inc f sts, true) /\
  read_smodels (mkopts ext flt) (prog_text ext inc f sts) = (CInit inc :: flat_map (norm_step f) sts, Ok tt).
Proof.
  intros H. split; [now apply run_prog|]. destruct (frag_steps_inv _ _ _ _ H) as (Hs & Hne & _ & _).
  rewrite <- (render_text ext inc f sts Hs Hne).
  rewrite (complete (mkopts ext flt) (lay_prog ext inc f sts) (lay_prog_ok ext inc f sts Hs Hne) (lay_prog_in_range ext f inc sts H)).
  unfold denote. rewrite (lay_prog_incremental ext f inc sts H), (proj2 (lay_prog_steps_in ext inc f sts Hs)). reflexivity.
Qed.

Theorem roundtrip (ext flt : bool) (f : Z) (p : list call) : in_fragment ext f p = true ->
  exists t, sm_run (w_init ext f) p = (t, true) /\ sm_write ext f p = Some t /\
            read_smodels (mkopts ext flt) t = (sm_norm f p, Ok tt).
Proof.
  unfold in_fragment, sm_norm, sm_write. intros H. destruct (parse p) as [[inc sts]|] eqn:Ep; [|discriminate].
  rewrite (parse_sound p inc sts Ep). destruct (roundtrip_steps ext flt f inc sts H) as [E1 E2].
  exists (prog_text ext inc f sts). rewrite E1. repeat split. exact E2.
Qed.

(* ================= F. the parser is complete on structured sequences (in_fragment is not vacuous by construction) ================= *)
Lemma span_app {A} (f : A -> bool) a b : forallb f a = true -> match b with [] => True | c :: _ => f c = false end -> span f (a ++ b) = (a, b).
Proof.
  intros Ha Hb. induction a as [|x a IH]; cbn [app span].
  - destruct b as [|c b]; [reflexivity|]. cbn [span]. now rewrite Hb.
  - cbn [forallb] in Ha. apply andb_prop in Ha. destruct Ha as [Hx Ha]. rewrite Hx, (IH Ha). reflexivity.
Qed.
Lemma frag_rule_call ext f c : frag_rule ext f c = true -> is_rule_call c = true.
Proof. destruct c; try discriminate; reflexivity. Qed.
Lemma frag_sym_call c : frag_sym c = true -> is_out_call c = true.
Proof. destruct c; try discriminate; reflexivity. Qed.
Lemma parse_steps_complete ext f : forall sts fuel, (length sts < fuel)%nat -> forallb (frag_step ext f) sts = true ->
  parse_steps fuel (flat_map flat_step sts) = Some sts.
Proof.
  induction sts as [|st sts IH]; intros fuel Hfu H; (destruct fuel as [|fu]; [cbn in Hfu; lia|]); [reflexivity|].
  cbn [forallb] in H. apply andb_prop in H. destruct H as [Hs Hr]. unfold frag_step in Hs. apply andb_prop in Hs. destruct Hs as [Hs _]. apply andb_prop in Hs. destruct Hs as [Hru Hsy].
  cbn [flat_map]. unfold flat_step at 1. cbn [app parse_steps]. rewrite <- !app_assoc.
  rewrite (span_app is_rule_call (k_rules st)); [| apply (forallb_imp (frag_rule ext f)); [intros x _; apply frag_rule_call | exact Hru] |].
  2:{ destruct (k_syms st) as [|c sy] eqn:Ek; cbn [app].
      - destruct (k_assume st); reflexivity.
      - cbn [forallb] in Hsy. apply andb_prop in Hsy. destruct Hsy as [Hc _]. destruct (frag_sym_inv c Hc) as (n & a & -> & _). reflexivity. }
  rewrite (span_app is_out_call (k_syms st)); [| apply (forallb_imp frag_sym); [intros x _; apply frag_sym_call | exact Hsy] | destruct (k_assume st); reflexivity].
  cbn [length] in Hfu. destruct st as [ru sy [a|]]; cbn [k_assume k_rules k_syms app]; rewrite (IH fu ltac:(lia) Hr); reflexivity.
Qed.
Lemma flat_steps_len sts : (length sts <= length (flat_map flat_step sts))%nat.
Proof. induction sts as [|a l IH]; [cbn; lia|]. cbn [flat_map length]. rewrite app_length. unfold flat_step at 1. cbn [length]. lia. Qed.
Lemma parse_complete ext f inc sts : forallb (frag_step ext f) sts = true -> parse (flat_prog inc sts) = Some (inc, sts).
Proof.
  intros H. unfold flat_prog. cbn [parse]. pose proof (flat_steps_len sts) as Hl.
  rewrite (parse_steps_complete ext f sts (S (length (flat_map flat_step sts))) ltac:(lia) H). reflexivity.
Qed.
Lemma fragment_complete ext f inc sts : frag_steps ext f inc sts = true ->
  in_fragment ext f (flat_prog inc sts) = true /\ sm_norm f (flat_prog inc sts) = CInit inc :: flat_map (norm_step f) sts.
Proof.
  intros H. destruct (frag_steps_inv _ _ _ _ H) as (Hs & _). unfold in_fragment, sm_norm. rewrite (parse_complete ext f inc sts Hs). split; [exact H | reflexivity].
Qed.

(* ================= G. (2) the sections, as whole-program corollaries ================= *)
(* symbol table: entries for single atoms with names free of LF/CR/NUL come back identically *)
Corollary rt_symbols (ext flt : bool) f syms : forallb frag_sym syms = true ->
  exists t, sm_run (w_init ext f) ([CInit false; CBegin] ++ syms ++ [CEnd]) = (t, true) /\
            read_smodels (mkopts ext flt) t = ([CInit false; CBegin] ++ syms ++ [CEnd], Ok tt).
Proof.
  intros H. assert (F : frag_steps ext f false [mks [] syms None] = true).
  { unfold frag_steps, frag_step. cbn [forallb k_rules k_syms assume_of k_assume]. rewrite H. reflexivity. }
  destruct (roundtrip_steps ext flt f false _ F) as [E1 E2].
  unfold flat_prog, flat_step in E1. cbn [flat_map k_rules k_syms k_assume app] in E1. rewrite app_nil_r in E1.
  eexists. split; [exact E1|]. rewrite E2.
  unfold norm_step, uses_false. cbn [flat_map norm_rules k_rules k_syms assume_of k_assume norm_assume filter map app existsb andb]. rewrite app_nil_r. reflexivity.
Qed.
(* compute statement: assume(l) comes back as integrity constraints (B+ first, then B-); with an integrity constraint in the
   rule section the false atom f is listed in B- and comes back as  :- f  *)
Corollary rt_compute (ext flt : bool) f lits : forallb lit_rng lits = true ->
  exists t, sm_run (w_init ext f) [CInit false; CBegin; CAssume lits; CEnd] = (t, true) /\
            read_smodels (mkopts ext flt) t = ([CInit false; CBegin] ++ norm_assume lits ++ [CEnd], Ok tt).
Proof.
  intros H. assert (F : frag_steps ext f false [mks [] [] (Some lits)] = true).
  { unfold frag_steps, frag_step. cbn [forallb k_rules k_syms assume_of k_assume]. rewrite H. reflexivity. }
  destruct (roundtrip_steps ext flt f false _ F) as [E1 E2]. eexists. split; [exact E1|]. rewrite E2.
  unfold norm_step, uses_false. cbn [flat_map norm_rules k_rules k_syms assume_of k_assume app existsb andb]. rewrite app_nil_r. reflexivity.
Qed.
Corollary rt_compute_false (ext flt : bool) f b lits : atom_rng f = true -> forallb lit_rng b = true -> len_ok b = true -> forallb lit_rng lits = true ->
  exists t, sm_run (w_init ext f) [CInit false; CBegin; CRule Head_t_Disjunctive [] b; CAssume lits; CEnd] = (t, true) /\
            read_smodels (mkopts ext flt) t =
              ([CInit false; CBegin; CRule Head_t_Disjunctive [f] (norm_body b)] ++ norm_assume lits ++ [CRule Head_t_Disjunctive [] [f]; CEnd], Ok tt).
Proof.
  intros Hf Hb Hl H. assert (F : frag_steps ext f false [mks [CRule Head_t_Disjunctive [] b] [] (Some lits)] = true).
  { unfold frag_steps, frag_step, first_ext. cbn [forallb k_rules k_syms assume_of k_assume frag_rule isnil negb orb length]. rewrite H, Hb, Hl, Hf. reflexivity. }
  destruct (roundtrip_steps ext flt f false _ F) as [E1 E2]. eexists. split; [exact E1|]. rewrite E2.
  assert (E0 : (f =? 0) = false) by (unfold atom_rng in Hf; lia).
  unfold norm_step, uses_false. cbn [flat_map norm_rules norm_rule k_rules k_syms assume_of k_assume app existsb empty_head fst snd].
  change (Head_t_Disjunctive =? Head_t_Choice) with false. cbn [negb orb andb fst snd app]. rewrite E0. cbn [negb app]. rewrite app_nil_r. reflexivity.
Qed.
(* step structure: an incremental program (extensions on) with any number of steps; every step is opened by "90 0" *)
Corollary rt_steps (flt : bool) f sts : forallb (frag_step true f) sts = true -> sts <> [] ->
  exists t, sm_run (w_init true f) (flat_prog true sts) = (t, true) /\ hd 0 t = 57 /\
            read_smodels (mkopts true flt) t = (CInit true :: flat_map (norm_step f) sts, Ok tt).
Proof.
  intros H Hne. assert (F : frag_steps true f true sts = true).
  { unfold frag_steps. rewrite H. destruct sts; [congruence | reflexivity]. }
  destruct (roundtrip_steps true flt f true sts F) as [E1 E2]. eexists. split; [exact E1|]. split; [|exact E2].
  pose proof (lay_prog_incremental true f true sts F) as Hi. unfold incremental, first_byte in Hi. rewrite (render_text true true f sts H Hne) in Hi.
  now apply Z.eqb_eq in Hi.
Qed.
(* extensions off: externals and incremental programs are refused, begin writes no step marker *)
Lemma ext_off s : w_ext s = false ->
  (forall a v, sm_step s (CExternal a v) = WErr) /\ sm_step s (CInit true) = WErr /\ (exists s1, sm_step s CBegin = WOk s1 []).
Proof.
  intros H. cbn [sm_step]. rewrite H. cbn [negb andb]. repeat split. eexists. reflexivity.
Qed.
(* the step marker line *)
Lemma rt_step_marker (o : opts) s prio r ln : w_ext s = true -> w_inc s = true -> claspExt o = true -> delim r ->
  exists s1 t ln', sm_step s CBegin = WOk s1 (print_nat Sm_ClaspIncrement ++ t ++ eol) /\ w_sec s1 = 0 /\ w_fhead s1 = false /\
                   read_rule o prio Sm_ClaspIncrement (amk (t ++ r) ln) = Ok ([], prio, amk r ln').
Proof.
  intros He Hi Ho Hr. pose proof (read_rule_spec o (RInc [10] (sp1 0)) prio r ln eq_refl Hr) as Hs.
  cbn [rule_in rule_type rule_fields d_rule] in Hs. rewrite Ho in Hs. destruct Hs as [ln' E].
  eexists _, (r_num (sp1 0)), ln'. cbn [sm_step]. rewrite He, Hi. cbn [andb]. repeat split. exact E.
Qed.

(* ================= H. the one-pass normal form (no parser) agrees with sm_norm on the fragment ================= *)
Lemma fold_rules f : forall rules fh prio a rest, forallb is_rule_call rules = true ->
  exists prio', norm_fold f (mkn fh prio a) (rules ++ rest) =
                norm_rules f prio rules ++ norm_fold f (mkn (fh || existsb empty_head rules) prio' a) rest.
Proof.
  induction rules as [|c rules IH]; intros fh prio a rest H.
  - exists prio. cbn [app norm_rules existsb]. now rewrite orb_false_r.
  - cbn [forallb] in H. apply andb_prop in H. destruct H as [Hc Hr].
    destruct (IH (fh || empty_head c) (snd (norm_rule f prio c)) a rest Hr) as [prio' E]. exists prio'.
    cbn [norm_rules existsb]. rewrite orb_assoc, <- app_assoc, <- E.
    destruct c; try discriminate Hc; reflexivity.
Qed.
Lemma fold_syms f : forall syms st rest, forallb is_out_call syms = true ->
  norm_fold f st (syms ++ rest) = syms ++ norm_fold f st rest.
Proof.
  induction syms as [|c syms IH]; intros st rest H; [reflexivity|]. cbn [forallb] in H. apply andb_prop in H. destruct H as [Hc Hr].
  destruct c; try discriminate Hc. cbn [app norm_fold norm_rule empty_head fst snd]. rewrite orb_false_r. destruct st as [fh prio a]. cbn [n_fh n_prio n_assume].
  now rewrite (IH _ rest Hr).
Qed.
Lemma fold_step ext f st st0 rest : frag_step ext f st = true ->
  exists prio', norm_fold f st0 (flat_step st ++ rest) = norm_step f st ++ norm_fold f (mkn (existsb empty_head (k_rules st)) prio' (assume_of st)) rest.
Proof.
  intros H. unfold frag_step in H. apply andb_prop in H. destruct H as [H _]. apply andb_prop in H. destruct H as [Hr Hs].
  assert (Hr' : forallb is_rule_call (k_rules st) = true) by (apply (forallb_imp (frag_rule ext f)); [intros x _; apply frag_rule_call | exact Hr]).
  assert (Hs' : forallb is_out_call (k_syms st) = true) by (apply (forallb_imp frag_sym); [intros x _; apply frag_sym_call | exact Hs]).
  unfold flat_step. cbn [app norm_fold]. rewrite <- !app_assoc.
  destruct (fold_rules f (k_rules st) false 0 [] (k_syms st ++ match k_assume st with Some a => [CAssume a; CEnd] | None => [CEnd] end ++ rest) Hr') as [prio' E].
  rewrite E. cbn [orb]. rewrite (fold_syms f _ _ _ Hs'). exists prio'. unfold norm_step, uses_false, assume_of.
  destruct (k_assume st) as [a|]; cbn [app norm_fold n_fh n_prio n_assume]; rewrite <- ?app_assoc; cbn [app]; reflexivity.
Qed.
Lemma fold_steps ext f : forall sts st0, forallb (frag_step ext f) sts = true ->
  norm_fold f st0 (flat_map flat_step sts) = flat_map (norm_step f) sts.
Proof.
  induction sts as [|st sts IH]; intros st0 H; [reflexivity|]. cbn [forallb] in H. apply andb_prop in H. destruct H as [Hs Hr].
  cbn [flat_map]. destruct (fold_step ext f st st0 (flat_map flat_step sts) Hs) as [prio' E]; rewrite E, (IH _ Hr); reflexivity.
Qed.
Lemma norm_fold_eq ext f p : in_fragment ext f p = true -> sm_norm_fold f p = sm_norm f p.
Proof.
  unfold in_fragment, sm_norm, sm_norm_fold. intros H. destruct (parse p) as [[inc sts]|] eqn:Ep; [|discriminate].
  rewrite (parse_sound p inc sts Ep). destruct (frag_steps_inv _ _ _ _ H) as (Hs & _). unfold flat_prog.
  cbn [norm_fold norm_rule empty_head fst snd n_fh n_prio n_assume app orb]. now rewrite (fold_steps ext f sts _ Hs).
Qed.
Theorem roundtrip_fold (ext flt : bool) (f : Z) (p : list call) : in_fragment ext f p = true ->
  exists t, sm_run (w_init ext f) p = (t, true) /\ read_smodels (mkopts ext flt) t = (sm_norm_fold f p, Ok tt).
Proof.
  intros H. destruct (roundtrip ext flt f p H) as (t & E1 & _ & E2). exists t. split; [exact E1|]. now rewrite (norm_fold_eq ext f p H).
Qed.

(* ================= I. the probe shape (KNOWN finding probe-leading-9): the ONLY deviation is the incremental flag ================= *)
Lemma pn_assign : print_nat Sm_ClaspAssignExt = [57; 49]. Proof. reflexivity. Qed.
Lemma pn_release : print_nat Sm_ClaspReleaseExt = [57; 50]. Proof. reflexivity. Qed.
Lemma first_line_ext ext f : forall rules Y, forallb (frag_rule ext f) rules = true ->
  match filter (fun c => negb (writes_nothing c)) rules with CExternal _ _ :: _ => true | _ => false end = true ->
  hd 0 (flat_map line (flat_map (lay_rule f) rules) ++ Y) = 57.
Proof.
  induction rules as [|c rules IH]; intros Y H Hf; [discriminate Hf|].
  cbn [forallb] in H. apply andb_prop in H. destruct H as [Hc Hr]. cbn [filter] in Hf. cbn [flat_map].
  destruct (writes_nothing c) eqn:Ew; cbn [negb] in Hf.
  - assert (El : lay_rule f c = []). { destruct c; try discriminate Ew. destruct head; [|discriminate Ew]. cbn [writes_nothing] in Ew. cbn [lay_rule]. now rewrite Ew. }
    rewrite El. cbn [app]. now apply IH.
  - destruct c; try discriminate Hf. cbn [lay_rule]. destruct (v =? Value_t_Release); cbn [flat_map app]; unfold line at 1; cbn [rule_type];
      [rewrite pn_release | rewrite pn_assign]; reflexivity.
Qed.
Lemma frag_steps_probe_inv ext f inc sts : frag_steps_probe ext f inc sts = true ->
  forallb (frag_step ext f) sts = true /\ sts <> [] /\ (inc = true -> ext = true) /\ (inc = false -> exists st, sts = [st]).
Proof.
  unfold frag_steps_probe. intros H. apply andb_prop in H. destruct H as [H1 H2]. split; [exact H1|]. destruct inc.
  - apply andb_prop in H2. destruct H2 as [He Hn]. repeat split; [destruct sts; discriminate | now intros _ | discriminate].
  - destruct sts as [|st [|st2 sts]]; try discriminate H2. repeat split; [discriminate | discriminate |]. intros _. now exists st.
Qed.
Lemma lay_prog_incremental_probe ext f inc sts : frag_steps_probe ext f inc sts = true ->
  incremental (lay_prog ext inc f sts) = inc || probe inc sts.
Proof.
  intros H. destruct (frag_steps_probe_inv _ _ _ _ H) as (Hs & Hne & Hie & Hni). unfold incremental, first_byte, probe.
  rewrite (render_text ext inc f sts Hs Hne). unfold prog_text. destruct inc; cbn [negb andb orb].
  - rewrite (Hie eq_refl). destruct sts as [|st sts]; [congruence|]. cbn [flat_map]. unfold step_text, begin_rules. cbn [andb app flat_map].
    unfold line at 1. cbn [rule_type]. rewrite pn_inc. reflexivity.
  - destruct (Hni eq_refl) as (st & ->). cbn [flat_map]. rewrite app_nil_r. unfold step_text, begin_rules. rewrite andb_false_r. cbn [app].
    cbn [forallb] in Hs. rewrite andb_true_r in Hs. unfold frag_step in Hs. apply andb_prop in Hs. destruct Hs as [Hs _]. apply andb_prop in Hs. destruct Hs as [Hr _].
    destruct (first_ext st) eqn:Hfe.
    + apply Z.eqb_eq. apply (first_line_ext ext f (k_rules st) _ Hr). exact Hfe.
    + apply Z.eqb_neq. unfold tail_text. cbn [app]. apply (first_line_low ext f (k_rules st) _ Hr). exact Hfe.
Qed.
Theorem roundtrip_steps_probe (ext flt : bool) (f : Z) (inc : bool) (sts : list sstep) : frag_steps_probe ext f inc sts = true ->
  sm_run (w_init ext f) (flat_prog inc sts) = (prog_text ext inc f sts, true) /\
  read_smodels (mkopts ext flt) (prog_text ext inc f sts) = (CInit (inc || probe inc sts) :: flat_map (norm_step f) sts, Ok tt).
Proof.
  intros H. destruct (frag_steps_probe_inv _ _ _ _ H) as (Hs & Hne & Hie & Hni). split.
  - unfold flat_prog, w_init.
    assert (E : inc && negb ext = false) by (destruct inc; [rewrite (Hie eq_refl)|]; reflexivity).
    erewrite run_cons; [|cbn [sm_step w_ext w_false w_sec w_inc w_fhead]; rewrite E; reflexivity].
    rewrite (run_steps ext f inc sts 0 false Hs). reflexivity.
  - rewrite <- (render_text ext inc f sts Hs Hne).
    assert (Hin : in_range ext (lay_prog ext inc f sts) = true).
    { unfold in_range. rewrite (proj1 (lay_prog_steps_in ext inc f sts Hs)), (lay_prog_incremental_probe ext f inc sts H). cbn [andb].
      destruct inc; [rewrite (Hie eq_refl); apply orb_true_r | destruct (Hni eq_refl) as (st & ->); reflexivity]. }
    rewrite (complete (mkopts ext flt) (lay_prog ext inc f sts) (lay_prog_ok ext inc f sts Hs Hne) Hin).
    unfold denote. rewrite (lay_prog_incremental_probe ext f inc sts H), (proj2 (lay_prog_steps_in ext inc f sts Hs)). reflexivity.
Qed.
