(* C05 - ONE writer object used for several programs: initProgram(b) assigns inc_ (SmodelsOutput::initProgram: inc_ = b, whatever it was),
   beginStep assigns sec_ and fHead_; false_ and ext_ are constructor arguments.  So a program - initProgram; beginStep; ... - that is
   handed to a writer in ANY state (after a complete incremental program, after a program abandoned in the rule section / behind its symbol
   table / behind its compute statement, after refused calls) gets the statuses and appends exactly the text it gets from a new writer with
   the same extensions flag and false atom.  (The model's sm_step returns the bytes a call APPENDS, so "behind the bytes already written"
   is built into sm_run / sm_run_c.) *)
Require Import V.Lib.Base V.Lib.Calls V.Lib.Dec V.C09.Spec V.Gen.Consts V.Gen.Consts_C07 V.C07.Model.
Require Import V.C05.Model V.C05.Spec V.C05.Proofs V.C05.ProofsComp V.C05.ProofsCont.
Local Open Scope Z_scope.

(* the new writer with the constructor arguments of s *)
Definition fresh_of (s : wstate) : wstate := w_init (w_ext s) (w_false s).
(* same constructor arguments *)
Definition ctor_eq (s s' : wstate) : Prop := w_false s = w_false s' /\ w_ext s = w_ext s'.
(* same constructor arguments and same program kind: what initProgram leaves equal; sec_ / fHead_ may still be those of the earlier program *)
Definition prog_eq (s s' : wstate) : Prop := w_false s = w_false s' /\ w_ext s = w_ext s' /\ w_inc s = w_inc s'.
Definition is_init (c : call) : bool := match c with CInit _ => true | _ => false end.

Lemma ctor_eq_fresh s : ctor_eq s (fresh_of s).
Proof. split; reflexivity. Qed.

(* ---- initProgram: same status, nothing written, and afterwards (accepted or refused-and-caught) the two writers differ at most in sec_ / fHead_ ---- *)
Lemma init_prog_eq s s' inc : ctor_eq s s' ->
  match sm_step s (CInit inc), sm_step s' (CInit inc) with
  | WOk a t, WOk b t' => t = [] /\ t' = [] /\ prog_eq a b /\ w_sec a = w_sec s /\ w_fhead a = w_fhead s
  | WErr, WErr => prog_eq (sm_refused_state s (CInit inc)) (sm_refused_state s' (CInit inc))
  | _, _ => False
  end.
Proof.
  intros [Hf He]. cbn [sm_step sm_refused_state]. rewrite <- He.
  destruct (inc && negb (w_ext s)); unfold prog_eq; cbn [w_false w_ext w_inc w_sec w_fhead]; repeat split; assumption.
Qed.

(* ---- beginStep forgets what is left of the earlier program: EQUAL results (bytes and state) ---- *)
Lemma begin_eq s s' : prog_eq s s' -> sm_step s CBegin = sm_step s' CBegin.
Proof. intros (Hf & He & Hi). cbn [sm_step]. rewrite Hf, He, Hi. reflexivity. Qed.

(* ---- whole programs: initProgram (possibly repeated, e.g. a refused initProgram(true) that the caller catches), beginStep, then ANY calls ---- *)
Lemma run_c_inits cs : forall ins s s', forallb is_init ins = true -> prog_eq s s' ->
  sm_run_c s (ins ++ CBegin :: cs) = sm_run_c s' (ins ++ CBegin :: cs).
Proof.
  induction ins as [|c r IH]; intros s s' Hi Hq.
  - cbn [app sm_run_c]. rewrite (begin_eq s s' Hq). reflexivity.
  - cbn [forallb] in Hi. apply andb_prop in Hi. destruct Hi as [Hc Hr]. destruct c as [inc| | | | | | | | | | | | | | | | |]; try discriminate Hc.
    destruct Hq as (Hf & He & _). pose proof (init_prog_eq s s' inc (conj Hf He)) as H.
    cbn [app sm_run_c]. destruct (sm_step s (CInit inc)) as [a t|], (sm_step s' (CInit inc)) as [b t'|]; try contradiction.
    + destruct H as (-> & -> & Hq' & _). rewrite (IH a b Hr Hq'). reflexivity.
    + rewrite (IH _ _ Hr H). reflexivity.
Qed.
Lemma run_inits cs : forall ins s s', forallb is_init ins = true -> prog_eq s s' ->
  sm_run s (ins ++ CBegin :: cs) = sm_run s' (ins ++ CBegin :: cs).
Proof.
  induction ins as [|c r IH]; intros s s' Hi Hq.
  - cbn [app sm_run]. rewrite (begin_eq s s' Hq). reflexivity.
  - cbn [forallb] in Hi. apply andb_prop in Hi. destruct Hi as [Hc Hr]. destruct c as [inc| | | | | | | | | | | | | | | | |]; try discriminate Hc.
    destruct Hq as (Hf & He & _). pose proof (init_prog_eq s s' inc (conj Hf He)) as H.
    cbn [app sm_run]. destruct (sm_step s (CInit inc)) as [a t|], (sm_step s' (CInit inc)) as [b t'|]; try contradiction.
    + destruct H as (-> & -> & Hq' & _). rewrite (IH a b Hr Hq'). reflexivity.
    + reflexivity.
Qed.

Theorem second_program_like_fresh s inc ins cs : forallb is_init ins = true ->
  sm_run s (CInit inc :: ins ++ CBegin :: cs) = sm_run (fresh_of s) (CInit inc :: ins ++ CBegin :: cs) /\
  sm_run_c s (CInit inc :: ins ++ CBegin :: cs) = sm_run_c (fresh_of s) (CInit inc :: ins ++ CBegin :: cs).
Proof.
  intros Hi. pose proof (init_prog_eq s (fresh_of s) inc (ctor_eq_fresh s)) as H.
  cbn [sm_run sm_run_c]. destruct (sm_step s (CInit inc)) as [a t|], (sm_step (fresh_of s) (CInit inc)) as [b t'|]; try contradiction.
  - destruct H as (-> & -> & Hq & _). rewrite (run_inits cs ins a b Hi Hq), (run_c_inits cs ins a b Hi Hq). split; reflexivity.
  - split; [reflexivity|]. rewrite (run_c_inits cs ins _ _ Hi H). reflexivity.
Qed.

(* ---- property level: a program of the fragment handed to a writer in any state is written completely and read back as its normal form ---- *)
Lemma fragment_starts ext f p : in_fragment ext f p = true -> exists inc r, p = CInit inc :: CBegin :: r.
Proof.
  unfold in_fragment. intros H. destruct (parse p) as [[inc sts]|] eqn:Ep; [|discriminate].
  destruct (frag_steps_inv _ _ _ _ H) as (_ & Hne & _). rewrite (parse_sound p inc sts Ep).
  destruct sts as [|st sts]; [contradiction Hne; reflexivity|]. exists inc. eexists. unfold flat_prog, flat_step. cbn [flat_map app]. reflexivity.
Qed.

Theorem second_program_roundtrip s flt p : in_fragment (w_ext s) (w_false s) p = true ->
  exists t, sm_run s p = (t, true) /\ sm_run (fresh_of s) p = (t, true) /\
            read_smodels (mkopts (w_ext s) flt) t = (sm_norm (w_false s) p, Ok tt).
Proof.
  intros H. destruct (roundtrip (w_ext s) flt (w_false s) p H) as (t & E1 & _ & E2).
  destruct (fragment_starts _ _ _ H) as (inc & r & ->). exists t.
  destruct (second_program_like_fresh s inc [] r eq_refl) as [E _]. cbn [app] in E. rewrite E. unfold fresh_of. repeat split; assumption.
Qed.

(* ---- the history form: an arbitrary first history (caller catches refusals) on a new writer, then a program of the fragment ---- *)
Fixpoint sm_state_c (s : wstate) (cs : list call) : wstate :=
  match cs with
  | [] => s
  | c :: r => match sm_step s c with WOk s1 _ => sm_state_c s1 r | WErr => sm_state_c (sm_refused_state s c) r end
  end.

Lemma step_ctor s c s1 t : sm_step s c = WOk s1 t -> ctor_eq s1 s.
Proof.
  destruct s as [f e sec i fh]. unfold ctor_eq.
  destruct c; cbn [sm_step w_false w_ext w_sec w_inc w_fhead]; intros H; try discriminate H.
  - destruct (inc && negb e); [discriminate|]. injection H as <- _. split; reflexivity.
  - injection H as <- _. split; reflexivity.
  - unfold w_assume in H; cbn [w_sec set_sec w_false w_ext w_inc w_fhead] in H. destruct (sec <? 2); cbn [negb] in H.
    + injection H as <- _. split; reflexivity.
    + injection H as <- _. split; reflexivity.
  - unfold w_rule in H; cbn [w_sec w_false set_fhead w_ext w_inc w_fhead] in H. destruct (negb (sec =? 0)); [discriminate|].
    destruct head as [|a h].
    + destruct (ht =? Head_t_Choice); [injection H as <- _; split; reflexivity|]. destruct (f =? 0); [discriminate|]. injection H as <- _. split; reflexivity.
    + injection H as <- _. split; reflexivity.
  - unfold w_wrule in H; cbn [w_sec w_false set_fhead w_ext w_inc w_fhead] in H. destruct (negb (sec =? 0)); [discriminate|].
    destruct head as [|a h].
    + destruct (f =? 0); [discriminate|]. destruct (is_sm_rule ht [f] bound body =? Sm_End); [discriminate|]. injection H as <- _. split; reflexivity.
    + destruct (is_sm_rule ht (a :: h) bound body =? Sm_End); [discriminate|]. injection H as <- _. split; reflexivity.
  - injection H as <- _. split; reflexivity.
  - destruct (negb (sec <=? 1)); [discriminate|]. destruct cond as [|a [|a2 c2]]; try discriminate H. destruct (0 <? a); [|discriminate].
    injection H as <- _. split; reflexivity.
  - destruct (negb e); [discriminate|]. destruct (v =? Value_t_Release); injection H as <- _; split; reflexivity.
  - unfold w_assume in H; cbn [w_sec set_sec w_false w_ext w_inc w_fhead] in H. destruct (negb (sec <? 2)); [discriminate|].
    injection H as <- _. split; reflexivity.
Qed.
Lemma refused_ctor s c : ctor_eq (sm_refused_state s c) s.
Proof. destruct c; split; reflexivity. Qed.
Lemma state_c_ctor cs : forall s, ctor_eq (sm_state_c s cs) s.
Proof.
  induction cs as [|c r IH]; intros s; cbn [sm_state_c]; [split; reflexivity|].
  destruct (sm_step s c) as [s1 t|] eqn:E.
  - destruct (IH s1) as [A B], (step_ctor s c s1 t E) as [A' B']. split; congruence.
  - destruct (IH (sm_refused_state s c)) as [A B], (refused_ctor s c) as [A' B']. split; congruence.
Qed.

Lemma run_c_app a : forall s b,
  sm_run_c s (a ++ b) = (fst (sm_run_c s a) ++ fst (sm_run_c (sm_state_c s a) b), snd (sm_run_c s a) ++ snd (sm_run_c (sm_state_c s a) b)).
Proof.
  induction a as [|c r IH]; intros s b; cbn [app sm_run_c sm_state_c].
  - cbn [fst snd app]. destruct (sm_run_c s b); reflexivity.
  - destruct (sm_step s c) as [s1 t|].
    + rewrite (IH s1 b). destruct (sm_run_c s1 r) as [t2 fl2]. cbn [fst snd]. rewrite app_assoc. reflexivity.
    + rewrite (IH _ b). destruct (sm_run_c (sm_refused_state s c) r) as [t2 fl2]. cbn [fst snd]. reflexivity.
Qed.

Lemma run_all_accepted p : forall s t, sm_run s p = (t, true) -> sm_run_c s p = (t, repeat true (length p)).
Proof.
  induction p as [|c r IH]; intros s t H; cbn [sm_run sm_run_c] in *.
  - injection H as <-. reflexivity.
  - destruct (sm_step s c) as [s1 t1|]; [|discriminate]. destruct (sm_run s1 r) as [t2 ok] eqn:E. injection H as <- ->.
    rewrite (IH s1 t2 E). reflexivity.
Qed.

Theorem history_then_program ext f flt cs1 p : in_fragment ext f p = true ->
  exists t2, sm_run_c (w_init ext f) (cs1 ++ p) =
               (fst (sm_run_c (w_init ext f) cs1) ++ t2, snd (sm_run_c (w_init ext f) cs1) ++ repeat true (length p)) /\
             sm_run (w_init ext f) p = (t2, true) /\
             read_smodels (mkopts ext flt) t2 = (sm_norm f p, Ok tt).
Proof.
  intros H. set (s := sm_state_c (w_init ext f) cs1).
  destruct (state_c_ctor cs1 (w_init ext f)) as [Hf He]. fold s in Hf, He. cbn [w_init w_false w_ext] in Hf, He.
  assert (H' : in_fragment (w_ext s) (w_false s) p = true) by (rewrite Hf, He; exact H).
  destruct (second_program_roundtrip s flt p H') as (t2 & E1 & E2 & E3). unfold fresh_of in E2. rewrite Hf, He in E2, E3.
  exists t2. repeat split; [|exact E2|exact E3].
  rewrite run_c_app. fold s. rewrite (run_all_accepted p s t2 E1). reflexivity.
Qed.
