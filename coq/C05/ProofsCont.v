(* C05 - a caller that catches a refusal and continues with the same writer (sm_run_c / sm_refused_state of Model.v):
   what a refused call leaves behind, and that the text of the whole history is the text of the accepted calls alone. *)
Require Import V.Lib.Base V.Lib.Calls V.Lib.Dec V.C09.Spec V.Gen.Consts V.Gen.Consts_C07 V.C07.Model V.C05.Model V.C05.Spec V.C05.Proofs V.C05.ProofsComp.
Local Open Scope Z_scope.

(* the calls of a history that were accepted *)
Fixpoint keep {A} (l : list A) (fl : list bool) : list A :=
  match l, fl with
  | a :: l', b :: fl' => if b then a :: keep l' fl' else keep l' fl'
  | _, _ => []
  end.

(* the one shape in which a refused call changes a member (see Model.v, sm_refused_state) *)
Definition inc_leak (s : wstate) (c : call) : bool :=
  match c with CInit inc => negb (Bool.eqb inc (w_inc s)) | _ => false end.

(* states no future history can tell apart: inc_ is read only as ext_ && inc_ *)
Definition obs_eq (s s' : wstate) : Prop :=
  w_false s = w_false s' /\ w_ext s = w_ext s' /\ w_sec s = w_sec s' /\ w_fhead s = w_fhead s' /\ (w_ext s = true -> w_inc s = w_inc s').

Lemma obs_eq_refl s : obs_eq s s.
Proof. unfold obs_eq. tauto. Qed.
Lemma obs_eq_sym s s' : obs_eq s s' -> obs_eq s' s.
Proof. unfold obs_eq. intros (A & B & C & D & E). repeat split; try congruence. intros H. symmetry. apply E. congruence. Qed.
Lemma obs_eq_trans a b c : obs_eq a b -> obs_eq b c -> obs_eq a c.
Proof.
  unfold obs_eq. intros (A & B & C & D & E) (A' & B' & C' & D' & E'). repeat split; try congruence.
  intros H. rewrite (E H). apply E'. congruence.
Qed.

(* ---- (1) what a refused call leaves behind, exactly ---- *)
Lemma refused_state_exact s c : sm_step s c = WErr -> (sm_refused_state s c = s <-> inc_leak s c = false).
Proof.
  intros _. destruct s as [f e sec i fh].
  destruct c; cbn [sm_refused_state inc_leak w_false w_ext w_sec w_inc w_fhead]; try (split; reflexivity).
  split.
  - intros H. injection H as ->. now destruct i.
  - intros H. f_equal. destruct inc, i; cbn in H; congruence.
Qed.

(* a refused call writes nothing (sm_run_c adds no text for it) and leaves an indistinguishable state *)
Lemma refused_obs_eq s c : sm_step s c = WErr -> obs_eq (sm_refused_state s c) s.
Proof.
  intros Herr. destruct c; cbn [sm_refused_state]; try apply obs_eq_refl.
  (* init: refused only with ext off *) cbn [sm_step] in Herr. destruct (inc && negb (w_ext s)) eqn:E; [|discriminate].
  apply andb_true_iff in E. destruct E as [_ E]. apply negb_true_iff in E.
  unfold obs_eq; cbn. repeat split; try reflexivity. intros H. congruence.
Qed.
(* with the extensions on (where inc_ matters) no refused call changes anything *)
Lemma refused_state_ext s c : sm_step s c = WErr -> w_ext s = true -> sm_refused_state s c = s.
Proof.
  intros Herr He. destruct c; cbn [sm_refused_state]; try reflexivity.
  cbn [sm_step] in Herr. rewrite He in Herr. cbn [negb] in Herr. rewrite andb_false_r in Herr. discriminate.
Qed.

(* ---- indistinguishable states take the same step ---- *)
Definition res_eq (a b : wres) : Prop :=
  match a, b with
  | WOk s t, WOk s' t' => t = t' /\ obs_eq s s'
  | WErr, WErr => True
  | _, _ => False
  end.
Lemma res_eq_refl a : res_eq a a.
Proof. destruct a; cbn; [split; [reflexivity | apply obs_eq_refl] | exact I]. Qed.

Lemma step_obs_eq s s' c : obs_eq s s' -> res_eq (sm_step s c) (sm_step s' c).
Proof.
  destruct s as [f e sec i fh], s' as [f' e' sec' i' fh']. unfold obs_eq; cbn [w_false w_ext w_sec w_inc w_fhead].
  intros (-> & -> & -> & -> & Hi). destruct e'.
  - rewrite (Hi eq_refl). apply res_eq_refl.
  - clear Hi.
    assert (OE : forall sec0 fh0, obs_eq (mkw f' false sec0 i fh0) (mkw f' false sec0 i' fh0)).
    { intros. unfold obs_eq; cbn. repeat split; try reflexivity. intros H; discriminate H. }
    destruct c; cbn [sm_step w_false w_ext w_sec w_inc w_fhead negb andb]; try exact I.
    + (* init *) rewrite andb_true_r. destruct inc; cbn; [exact I|]. split; [reflexivity|]. unfold obs_eq; cbn. repeat split; try reflexivity.
    + (* begin *) cbn. split; [reflexivity | apply OE].
    + (* end *) unfold w_assume; cbn [w_sec w_false w_fhead w_assume_text]. destruct (sec' <? 2); cbn [negb].
      * cbn. split; [reflexivity | apply OE].
      * cbn. split; [reflexivity | apply OE].
    + (* rule *) unfold w_rule; cbn [w_sec w_false set_fhead w_ext w_inc w_fhead]. destruct (sec' =? 0); cbn [negb]; [|exact I].
      destruct head as [|a h].
      * destruct (ht =? Head_t_Choice); [cbn; split; [reflexivity | apply OE]|].
        destruct (f' =? 0); [exact I|]. cbn. split; [reflexivity | apply OE].
      * cbn. split; [reflexivity | apply OE].
    + (* weight rule *) unfold w_wrule; cbn [w_sec w_false set_fhead w_ext w_inc w_fhead]. destruct (sec' =? 0); cbn [negb]; [|exact I].
      destruct head as [|a h].
      * destruct (f' =? 0); [exact I|]. destruct (is_sm_rule ht [f'] bound body =? Sm_End); [exact I|]. cbn. split; [reflexivity | apply OE].
      * destruct (is_sm_rule ht (a :: h) bound body =? Sm_End); [exact I|]. cbn. split; [reflexivity | apply OE].
    + (* minimize *) cbn. split; [reflexivity | apply OE].
    + (* output *) destruct (sec' <=? 1); cbn [negb]; [|exact I].
      destruct cond as [|a [|a2 c2]]; try exact I. destruct (0 <? a); [|exact I].
      unfold set_sec; cbn [w_sec w_false w_ext w_inc w_fhead]. cbn. split; [reflexivity | apply OE].
    + (* assume *) unfold w_assume; cbn [w_sec w_false w_fhead w_assume_text set_sec w_ext w_inc]. destruct (sec' <? 2); cbn [negb]; [|exact I].
      cbn. split; [reflexivity | apply OE].
Qed.

(* ---- (2) the whole history ---- *)
Lemma run_c_length cs : forall s t fl, sm_run_c s cs = (t, fl) -> length fl = length cs.
Proof.
  induction cs as [|c r IH]; intros s t fl H; cbn [sm_run_c] in H.
  - injection H as _ <-. reflexivity.
  - destruct (sm_step s c) as [s1 t1|].
    + destruct (sm_run_c s1 r) as [t2 fl2] eqn:E. injection H as _ <-. cbn. f_equal. eapply IH; eassumption.
    + destruct (sm_run_c (sm_refused_state s c) r) as [t2 fl2] eqn:E. injection H as _ <-. cbn. f_equal. eapply IH; eassumption.
Qed.

Theorem cont_accepted cs : forall s s' t fl, obs_eq s s' -> sm_run_c s cs = (t, fl) -> sm_run s' (keep cs fl) = (t, true).
Proof.
  induction cs as [|c r IH]; intros s s' t fl Hq H; cbn [sm_run_c] in H.
  - injection H as <- <-. reflexivity.
  - pose proof (step_obs_eq s s' c Hq) as Hs. destruct (sm_step s c) as [s1 t1|] eqn:E1.
    + destruct (sm_step s' c) as [s1' t1'|] eqn:E1'; [|contradiction]. cbn [res_eq] in Hs. destruct Hs as [<- Hq1].
      destruct (sm_run_c s1 r) as [t2 fl2] eqn:E. injection H as <- <-. cbn [keep sm_run]. rewrite E1'.
      rewrite (IH s1 s1' t2 fl2 Hq1 E). reflexivity.
    + destruct (sm_run_c (sm_refused_state s c) r) as [t2 fl2] eqn:E. injection H as <- <-. cbn [keep].
      apply (IH (sm_refused_state s c) s' t2 fl2); [|exact E].
      eapply obs_eq_trans; [apply refused_obs_eq; assumption | exact Hq].
Qed.

(* the accepted calls are exactly the calls of the history that are not refused in the state they meet *)
Lemma run_c_flags cs : forall s t fl, sm_run_c s cs = (t, fl) ->
  match cs, fl with
  | c :: _, b :: _ => b = negb (refused s c)
  | [], [] => True
  | _, _ => False
  end.
Proof.
  destruct cs as [|c r]; intros s t fl H; cbn [sm_run_c] in H.
  - injection H as _ <-. exact I.
  - destruct (sm_step s c) as [s1 t1|] eqn:E.
    + destruct (sm_run_c s1 r) as [t2 fl2]. injection H as _ <-. destruct (refused s c) eqn:R; [|reflexivity].
      apply refuses_iff in R. congruence.
    + destruct (sm_run_c _ r) as [t2 fl2]. injection H as _ <-. apply refuses_iff in E. now rewrite E.
Qed.

(* ---- (3) property level: what is read back is the normal form of the accepted calls ---- *)
Theorem cont_roundtrip (ext flt : bool) (f : Z) (cs : list call) (t : list Z) (fl : list bool) :
  sm_run_c (w_init ext f) cs = (t, fl) -> in_fragment ext f (keep cs fl) = true ->
  read_smodels (mkopts ext flt) t = (sm_norm f (keep cs fl), Ok tt).
Proof.
  intros Hr Hf. destruct (roundtrip ext flt f _ Hf) as (t' & E1 & _ & E2).
  rewrite (cont_accepted cs _ _ t fl (obs_eq_refl _) Hr) in E1. injection E1 as <-. exact E2.
Qed.
