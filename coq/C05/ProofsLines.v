(* C05 - every line the writer emits in the rule section (rule types 1 2 3 5 6 8 90 91 92) is the rendering of a
   laid-out rule (C07/Spec.v) that is well-formed, in range and denotes the normal form of the call. *)
Require Import V.Lib.Base V.Lib.Calls V.Lib.Dec V.C09.Spec V.Gen.Consts V.Gen.Consts_C07 V.C07.Model V.C07.Spec V.C07.ProofsLex V.C07.ProofsGram.
Require Import V.C05.Model V.C05.Spec V.C05.Proofs V.C05.ProofsRT.
Local Open Scope Z_scope.
Ltac Zify.zify_post_hook ::= Z.div_mod_to_equations.

(* the text of one line of the rule section *)
Definition line (rl : lrule) : list Z := print_nat (rule_type rl) ++ rule_fields rl ++ eol.

(* ---------- generic list facts ---------- *)
Lemma adds_app a b : adds (a ++ b) = adds a ++ adds b.
Proof. unfold adds. apply flat_map_app. Qed.
Lemma r_nums_app a b : r_nums (a ++ b) = r_nums a ++ r_nums b.
Proof. unfold r_nums. apply flat_map_app. Qed.
Lemma filter_map_comm {A B} (g : A -> B) (p : B -> bool) l : filter p (map g l) = map g (filter (fun x => p (g x)) l).
Proof. induction l as [|a l IH]; [reflexivity|]. cbn [map filter]. destruct (p (g a)); cbn [map]; now rewrite IH. Qed.
Lemma combine_map {A B C} (g : A -> B) (h : A -> C) l : combine (map g l) (map h l) = map (fun x => (g x, h x)) l.
Proof. induction l as [|a l IH]; [reflexivity|]. cbn [map combine]. now rewrite IH. Qed.
Lemma forallb_map {A B} (p : B -> bool) (g : A -> B) l : forallb p (map g l) = forallb (fun x => p (g x)) l.
Proof. induction l as [|a l IH]; [reflexivity|]. cbn [map forallb]. now rewrite IH. Qed.
Lemma forallb_imp {A} (p q : A -> bool) l : (forall x, In x l -> p x = true -> q x = true) -> forallb p l = true -> forallb q l = true.
Proof.
  intros H Hp. apply forallb_forall. intros x Hx. apply H; [assumption|]. rewrite forallb_forall in Hp. now apply Hp.
Qed.
Lemma sum_order_in b x : In x (sum_order b) -> In x b.
Proof. unfold sum_order, negs, poss. intros H. apply in_app_or in H. destruct H as [H|H]; apply filter_In in H; tauto. Qed.
Lemma sum_order_len b : length (sum_order b) = length b.
Proof. unfold sum_order, negs, poss. rewrite app_length. apply filter_len. Qed.
Lemma negs_len_le {A} (sl : A -> Z) b : (length (negs sl b) <= length b)%nat.
Proof. unfold negs. rewrite <- (filter_len (fun x => sl x <? 0) b). apply Nat.le_add_r. Qed.
Lemma forallb_sum_order (p : Z * Z -> bool) b : forallb p b = true -> forallb p (sum_order b) = true.
Proof. intros H. apply forallb_forall. intros x Hx. rewrite forallb_forall in H. apply H. now apply sum_order_in. Qed.

Lemma len_ok_le {A} (b : list A) : len_ok b = true -> Z.of_nat (length b) <= 4294967295.
Proof. intros H. unfold len_ok in H. apply Z.leb_le in H. exact H. Qed.
Lemma nat_le_u32 (n m : nat) : (n <= m)%nat -> Z.of_nat m <= 4294967295 -> 0 <= Z.of_nat n <= 4294967295.
Proof. lia. Qed.

(* ---------- u32 / add_u ---------- *)
Lemma add_u_num a : 0 <= a <= 4294967295 -> add_u a = r_num (sp1 a).
Proof. intros H. unfold add_u, r_num, sp1. cbn [fst snd app]. now rewrite u32_id. Qed.
Lemma adds_map_nums {A} (g : A -> Z) l : (forall x, In x l -> 0 <= g x <= 4294967295) -> adds (map g l) = r_nums (map sp1 (map g l)).
Proof.
  intros H. apply adds_nums. apply Forall_forall. intros a Ha. apply in_map_iff in Ha. destruct Ha as (x & <- & Hx). now apply H.
Qed.

(* ---------- heads ---------- *)
Lemma w_head_single ht a : (ht =? Head_t_Choice) = false -> 0 <= a <= 4294967295 -> w_head ht [a] = r_num (sp1 a).
Proof.
  intros Hc Ha. unfold w_head. rewrite Hc. change (1 <? Z.of_nat (length [a])) with false. cbn [orb app].
  unfold adds. cbn [flat_map]. rewrite app_nil_r. now apply add_u_num.
Qed.
Lemma w_head_multi ht h : (ht =? Head_t_Choice) || (1 <? Z.of_nat (length h)) = true -> forallb atom_rng h = true ->
  Z.of_nat (length h) <= atomMax -> w_head ht h = r_cnt [32] (length (map sp1 h)) ++ r_nums (map sp1 h).
Proof.
  intros Hc Hh Hl. unfold w_head. rewrite Hc. rewrite map_length. unfold atomMax in Hl.
  rewrite add_u_num by lia. unfold r_cnt, r_num, sp1. cbn [fst snd]. f_equal.
  apply adds_nums. apply Forall_forall. intros a Ha. rewrite forallb_forall in Hh. specialize (Hh a Ha). unfold atom_rng, atomMax in Hh. lia.
Qed.

(* ---------- sum bodies (cardinality / weight / minimize) ---------- *)
Lemma mlit_abs x : mlit_rng x = true -> 1 <= Z.abs (fst x) <= atomMax /\ 0 <= Z.abs (snd x) <= INT_MAX.
Proof. unfold mlit_rng, lit_rng. intros H. bsplit. lia. Qed.

Lemma w_sum_text bnd b card : forallb mlit_rng b = true -> len_ok b = true -> 0 <= bnd <= 4294967295 ->
  w_sum bnd b card =
    (if card then [] else r_num (sp1 bnd)) ++ r_counts (lay_wbody b) ++ (if card then r_num (sp1 bnd) else []) ++
    r_nums (b_atoms (lay_wbody b)) ++ (if card then [] else r_nums (lay_wts b)).
Proof.
  intros Hb Hlen Hbnd. apply len_ok_le in Hlen. unfold w_sum, r_counts, r_cnt, lay_wbody, lay_wts. cbn [b_lws b_neg b_atoms].
  rewrite !map_length, sum_order_len.
  assert (X : 0 <= Z.of_nat (length b) <= 4294967295) by lia.
  assert (Y : 0 <= Z.of_nat (length (negs sm_lit b)) <= 4294967295) by (apply (nat_le_u32 _ _ (negs_len_le sm_lit b) Hlen)).
  rewrite !add_u_num by assumption. unfold sum_order. rewrite !map_app, !r_nums_app.
  assert (Ha : forall l, (forall x, In x l -> In x b) -> adds (map (fun x => Z.abs (fst x)) l) = r_nums (map sp1 (map (fun x => Z.abs (fst x)) l))).
  { intros l Hl. apply adds_map_nums. intros x Hx. rewrite forallb_forall in Hb. pose proof (mlit_abs x (Hb x (Hl x Hx))). unfold atomMax in *. lia. }
  assert (Hw : forall l, (forall x, In x l -> In x b) -> adds (map (fun x => Z.abs (snd x)) l) = r_nums (map sp1 (map (fun x => Z.abs (snd x)) l))).
  { intros l Hl. apply adds_map_nums. intros x Hx. rewrite forallb_forall in Hb. pose proof (mlit_abs x (Hb x (Hl x Hx))). unfold INT_MAX in *. lia. }
  assert (Hin1 : forall x, In x (negs sm_lit b) -> In x b) by (intros x Hx; apply filter_In in Hx; tauto).
  assert (Hin2 : forall x, In x (poss sm_lit b) -> In x b) by (intros x Hx; apply filter_In in Hx; tauto).
  rewrite (Ha _ Hin1), (Ha _ Hin2), (Hw _ Hin1), (Hw _ Hin2).
  unfold r_num, sp1. cbn [fst snd]. destruct card; cbn [app]; rewrite <- ?app_assoc; cbn [app]; rewrite ?app_nil_r; reflexivity.
Qed.

Lemma lay_wbody_ok b : body_ok (lay_wbody b) = true.
Proof.
  unfold body_ok, lay_wbody. cbn [b_lws b_neg b_atoms]. apply andb_true_intro. split; [apply andb_true_intro; split|].
  - reflexivity.
  - unfold num_ok, sp1. cbn [fst snd]. apply andb_true_intro. split; [reflexivity | lia].
  - rewrite !forallb_map. apply forallb_forall. intros x _. unfold num_ok, sp1. cbn [fst snd]. apply andb_true_intro. split; [reflexivity | lia].
Qed.
Lemma lay_wts_ok b : forallb num_ok (lay_wts b) = true /\ length (lay_wts b) = length (b_atoms (lay_wbody b)).
Proof.
  unfold lay_wts, lay_wbody. cbn [b_atoms]. split; [|now rewrite !map_length].
  rewrite !forallb_map. apply forallb_forall. intros x _. unfold num_ok, sp1. cbn [fst snd]. apply andb_true_intro. split; [reflexivity | lia].
Qed.
Lemma lay_wbody_in b : forallb mlit_rng b = true -> len_ok b = true ->
  body_in (lay_wbody b) = true /\ forallb atom_in (b_atoms (lay_wbody b)) = true /\ forallb weight_in (lay_wts b) = true.
Proof.
  intros Hb Hlen. apply len_ok_le in Hlen. unfold body_in, lay_wbody, lay_wts, count_in. cbn [b_lws b_neg b_atoms snd sp1].
  rewrite !map_length, sum_order_len. pose proof (nat_le_u32 _ _ (negs_len_le sm_lit b) Hlen) as Hn. pose proof (negs_len_le sm_lit b) as Hn2.
  apply Nat2Z.inj_le in Hn2. change UINT_MAX with 4294967295. repeat split.
  - repeat (apply andb_true_intro; split); apply Z.leb_le; [exact Hlen | apply Hn | exact Hn2].
  - rewrite !forallb_map. apply (forallb_imp mlit_rng); [|now apply forallb_sum_order].
    intros x _ Hx. pose proof (mlit_abs x Hx). unfold atom_in, sp1. cbn [snd]. lia.
  - rewrite !forallb_map. apply (forallb_imp mlit_rng); [|now apply forallb_sum_order].
    intros x _ Hx. pose proof (mlit_abs x Hx). unfold weight_in, sp1. cbn [snd]. lia.
Qed.

Lemma sm_lit_flip x : sm_lit x = fst (flipw x).
Proof. unfold sm_lit, flipw. destruct (0 <=? snd x) eqn:E1, (snd x <? 0) eqn:E2; cbn [fst]; lia. Qed.
Lemma flipw_pair x : (sm_lit x, Z.abs (snd x)) = flipw x.
Proof. unfold sm_lit, flipw. destruct x as [l w]. cbn [fst snd]. destruct (0 <=? w) eqn:E1, (w <? 0) eqn:E2; f_equal; lia. Qed.
Lemma sum_order_flip b : map flipw (sum_order b) = norm_min b.
Proof.
  unfold norm_min, norm_wbody, sum_order, negs, poss. rewrite map_app, !filter_map_comm. f_equal; f_equal; apply filter_ext; intros x; now rewrite sm_lit_flip.
Qed.
Lemma flipw_id b : forallb (fun x => 0 <=? snd x) b = true -> map flipw b = b.
Proof.
  intros H. rewrite <- (map_id b) at 2. apply map_ext_in. intros x Hx. rewrite forallb_forall in H. specialize (H x Hx).
  unfold flipw. destruct (snd x <? 0) eqn:E; [lia | reflexivity].
Qed.

Lemma lay_wbody_dbody b : d_body (lay_wbody b) = map sm_lit (sum_order b).
Proof.
  unfold d_body, lay_wbody, vals. cbn [b_neg b_atoms snd sp1]. rewrite Nat2Z.id. rewrite !map_map. cbn [snd].
  unfold sum_order. rewrite !map_app, firstn_app, skipn_app, !map_length, Nat.sub_diag. cbn [firstn skipn]. rewrite app_nil_r.
  rewrite firstn_all2 by (rewrite map_length; lia). rewrite skipn_all2 by (rewrite map_length; lia). cbn [app].
  rewrite map_map. f_equal; apply map_ext_in; intros x Hx; apply filter_In in Hx; destruct Hx as [_ Hx]; cbv beta in Hx; unfold sm_lit in *; unfold sp1; cbn [snd];
    destruct (0 <=? snd x); lia.
Qed.
Lemma lay_w_denote b : combine (d_body (lay_wbody b)) (vals (lay_wts b)) = norm_min b.
Proof.
  rewrite lay_wbody_dbody. unfold lay_wts, vals. rewrite !map_map. cbn [snd sp1]. rewrite combine_map.
  rewrite <- sum_order_flip. apply map_ext. intros x. apply flipw_pair.
Qed.
Lemma lay_c_denote b : is_card b = true -> map (fun l => (l, 1)) (d_body (lay_wbody b)) = norm_min b.
Proof.
  intros Hc. rewrite lay_wbody_dbody, map_map, <- sum_order_flip. apply map_ext_in. intros x Hx. apply sum_order_in in Hx.
  unfold is_card in Hc. rewrite forallb_forall in Hc. specialize (Hc x Hx). rewrite <- flipw_pair. f_equal. lia.
Qed.

(* ---------- one call of the rule section ---------- *)
Lemma atom_rng_u32 a : atom_rng a = true -> 0 <= a <= 4294967295.
Proof. unfold atom_rng, atomMax. lia. Qed.
Lemma atom_rng_in a : atom_rng a = true -> atom_in (sp1 a) = true.
Proof. unfold atom_rng, atom_in, sp1. cbn [snd]. trivial. Qed.
Lemma sp1_ok a : 0 <= a -> num_ok (sp1 a) = true.
Proof. intros H. unfold num_ok, sp1. cbn [fst snd]. apply andb_true_intro. split; [reflexivity | lia]. Qed.
Lemma line_nil rl : flat_map line [rl] = print_nat (rule_type rl) ++ rule_fields rl ++ eol.
Proof. cbn [flat_map]. unfold line. now rewrite app_nil_r. Qed.
Lemma len_ok_u32 {A} (b : list A) : len_ok b = true -> Z.of_nat (length b) <= 4294967295.
Proof. apply len_ok_le. Qed.

Lemma frag_crule ext f ht h b : frag_rule ext f (CRule ht h b) = true ->
  (ht =? Head_t_Disjunctive) || (ht =? Head_t_Choice) = true /\ forallb atom_rng h = true /\ Z.of_nat (length h) <= atomMax /\
  forallb lit_rng b = true /\ len_ok b = true /\ negb (isnil h) || (ht =? Head_t_Choice) || atom_rng f = true.
Proof. cbn [frag_rule]. intros H. bsplit. repeat split; try assumption. lia. Qed.
Lemma frag_cwrule ext f ht h bnd b : frag_rule ext f (CWRule ht h bnd b) = true ->
  (ht =? Head_t_Disjunctive) = true /\ Z.of_nat (length h) <= 1 /\ forallb atom_rng h = true /\ negb (isnil h) || atom_rng f = true /\
  0 <= bnd <= INT_MAX /\ forallb wlit_rng b = true /\ len_ok b = true.
Proof. cbn [frag_rule]. intros H. bsplit. repeat split; try assumption; lia. Qed.

Lemma step_rule ext f s ht h b : w_sec s = 0 -> w_false s = f -> frag_rule ext f (CRule ht h b) = true ->
  sm_step s (CRule ht h b) = WOk (if empty_head (CRule ht h b) then set_fhead s else s) (flat_map line (lay_rule f (CRule ht h b))).
Proof.
  intros Hsec Hf H. destruct (frag_crule _ _ _ _ _ H) as (Hht & Hh & Hhl & Hb & Hbl & Hfa).
  pose proof (len_ok_le b Hbl) as Hbl'.
  cbn [sm_step]. unfold w_rule. rewrite Hsec. cbn [Z.eqb negb]. cbn [empty_head lay_rule].
  destruct (ht =? Head_t_Choice) eqn:Ec.
  - (* choice *)
    destruct h as [|a [|a2 h2]].
    + reflexivity.
    + cbn [negb]. rewrite line_nil. cbn [rule_type rule_fields]. unfold is_sm_head. rewrite Ec.
      rewrite (w_head_multi ht [a]) by (rewrite ?Ec; try reflexivity; assumption).
      rewrite (w_body_text b Hb Hbl'). cbn [map]. rewrite <- !app_assoc. reflexivity.
    + rewrite line_nil. cbn [rule_type rule_fields]. unfold is_sm_head. rewrite Ec.
      rewrite (w_head_multi ht (a :: a2 :: h2)) by (rewrite ?Ec; try reflexivity; assumption).
      rewrite (w_body_text b Hb Hbl'). rewrite <- !app_assoc. reflexivity.
  - (* disjunctive *)
    cbn [negb]. destruct h as [|a [|a2 h2]].
    + cbn [isnil negb orb] in Hfa. rewrite Hf. pose proof (atom_rng_u32 f Hfa) as Hfu.
      assert (E0 : (f =? 0) = false) by (unfold atom_rng in Hfa; lia). rewrite E0.
      rewrite line_nil. cbn [rule_type rule_fields].
      rewrite (w_head_single ht f Ec Hfu), (w_body_text b Hb Hbl'). rewrite <- !app_assoc. reflexivity.
    + cbn [forallb] in Hh. bsplit. rewrite line_nil. cbn [rule_type rule_fields]. unfold is_sm_head. rewrite Ec. cbn [length Nat.eqb].
      rewrite (w_head_single ht a Ec (atom_rng_u32 a ltac:(assumption))), (w_body_text b Hb Hbl'). rewrite <- !app_assoc. reflexivity.
    + rewrite line_nil. cbn [rule_type rule_fields]. unfold is_sm_head. rewrite Ec. cbn [length Nat.eqb].
      rewrite (w_head_multi ht (a :: a2 :: h2)); [| rewrite Ec; cbn [orb length]; lia | assumption | assumption].
      rewrite (w_body_text b Hb Hbl'). rewrite <- !app_assoc. reflexivity.
Qed.

Lemma wlit_mlit b : forallb wlit_rng b = true -> forallb mlit_rng b = true.
Proof.
  apply forallb_imp. intros x _. unfold wlit_rng, mlit_rng. intros H. bsplit.
  apply andb_true_intro; split; [assumption | unfold INT_MAX in *; lia].
Qed.
Lemma wlit_nonneg b : forallb wlit_rng b = true -> forallb (fun x => 0 <=? snd x) b = true.
Proof. apply forallb_imp. intros x _. unfold wlit_rng. intros H. bsplit. assumption. Qed.

Lemma step_wrule ext f s ht h bnd b : w_sec s = 0 -> w_false s = f -> frag_rule ext f (CWRule ht h bnd b) = true ->
  sm_step s (CWRule ht h bnd b) =
  WOk (if empty_head (CWRule ht h bnd b) then set_fhead s else s) (flat_map line (lay_rule f (CWRule ht h bnd b))).
Proof.
  intros Hsec Hf H. destruct (frag_cwrule _ _ _ _ _ _ H) as (Hht & Hhl & Hh & Hfa & Hbnd & Hb & Hbl).
  apply Z.eqb_eq in Hht. subst ht. pose proof (wlit_mlit b Hb) as Hm.
  assert (Hbu : 0 <= bnd <= 4294967295) by (unfold INT_MAX in Hbnd; lia).
  cbn [sm_step]. unfold w_wrule. rewrite Hsec. cbn [Z.eqb negb]. cbn [empty_head lay_rule].
  assert (Hgen : forall a s1, atom_rng a = true ->
      (let rt := is_sm_rule Head_t_Disjunctive [a] bnd b in
       if rt =? Sm_End then WErr else WOk s1 (print_nat rt ++ w_head Head_t_Disjunctive [a] ++ w_sum bnd b (rt =? Sm_Cardinality) ++ eol))
      = WOk s1 (flat_map line (if is_card b then [RCard [10] (sp1 a) (lay_wbody b) (sp1 bnd)]
                               else [RWeight [10] (sp1 a) (sp1 bnd) (lay_wbody b) (lay_wts b)]))).
  { intros a s1 Ha. cbv zeta. unfold is_sm_rule, is_sm_head. change (Head_t_Disjunctive =? Head_t_Choice) with false. cbn [length Nat.eqb].
    change (Sm_Basic =? Sm_Basic) with true. cbn [negb orb]. assert (E : (bnd <? 0) = false) by lia. rewrite E.
    fold (is_card b). rewrite (w_head_single Head_t_Disjunctive a eq_refl (atom_rng_u32 a Ha)).
    destruct (is_card b).
    - change (Sm_Cardinality =? Sm_End) with false. change (Sm_Cardinality =? Sm_Cardinality) with true. cbv iota.
      rewrite line_nil. cbn [rule_type rule_fields]. rewrite (w_sum_text bnd b true Hm Hbl Hbu).
      cbn [app]. rewrite ?app_nil_r, <- ?app_assoc. reflexivity.
    - change (Sm_Weight =? Sm_End) with false. change (Sm_Weight =? Sm_Cardinality) with false. cbv iota.
      rewrite line_nil. cbn [rule_type rule_fields]. rewrite (w_sum_text bnd b false Hm Hbl Hbu).
      cbn [app]. rewrite ?app_nil_r, <- ?app_assoc. reflexivity. }
  destruct h as [|a [|a2 h2]].
  - cbn [isnil negb orb] in Hfa. rewrite Hf. assert (E0 : (f =? 0) = false) by (unfold atom_rng in Hfa; lia). rewrite E0.
    apply (Hgen f (set_fhead s) Hfa).
  - cbn [forallb] in Hh. bsplit. apply (Hgen a s). assumption.
  - cbn [length] in Hhl. lia.
Qed.

Lemma frag_cmin ext f p l : frag_rule ext f (CMin p l) = true -> forallb mlit_rng l = true /\ len_ok l = true.
Proof. cbn [frag_rule]. intros H. bsplit. split; assumption. Qed.
Lemma step_min ext f s p l : frag_rule ext f (CMin p l) = true ->
  sm_step s (CMin p l) = WOk s (flat_map line (lay_rule f (CMin p l))).
Proof.
  intros H. destruct (frag_cmin _ _ _ _ H) as (Hm & Hl). cbn [sm_step lay_rule]. rewrite line_nil. cbn [rule_type rule_fields].
  rewrite (w_sum_text 0 l false Hm Hl ltac:(lia)). cbn [app]. rewrite ?app_nil_r, <- ?app_assoc. reflexivity.
Qed.

Lemma frag_cext ext f a v : frag_rule ext f (CExternal a v) = true -> ext = true /\ atom_rng a = true /\ 0 <= v <= 3.
Proof. cbn [frag_rule]. intros H. bsplit. repeat split; try assumption; lia. Qed.
Lemma extval_rng v : 0 <= v <= 3 -> (v =? Value_t_Release) = false -> 0 <= Z.lxor v smw_extval_xor - smw_extval_sub <= 2.
Proof.
  intros Hv E. unfold Value_t_Release in E. assert (C : v = 0 \/ v = 1 \/ v = 2) by lia. destruct C as [C|[C|C]]; subst v; cbv; split; discriminate.
Qed.
Lemma step_ext ext f s a v : w_ext s = ext -> frag_rule ext f (CExternal a v) = true ->
  sm_step s (CExternal a v) = WOk s (flat_map line (lay_rule f (CExternal a v))).
Proof.
  intros He H. destruct (frag_cext _ _ _ _ H) as (Hext & Ha & Hv). rewrite Hext in He. cbn [sm_step lay_rule]. rewrite He. cbn [negb].
  pose proof (atom_rng_u32 a Ha) as Hau.
  destruct (v =? Value_t_Release) eqn:E; rewrite line_nil; cbn [rule_type rule_fields].
  - rewrite (add_u_num a Hau). reflexivity.
  - pose proof (extval_rng v Hv E) as Hx.
    assert (Hx' : 0 <= Z.lxor v smw_extval_xor - smw_extval_sub <= 4294967295) by lia.
    rewrite (add_u_num a Hau), (add_u_num _ Hx'). rewrite <- ?app_assoc. reflexivity.
Qed.

(* ---------- the laid-out rule of a call: well-formed, in range, denotes the normal form ---------- *)
Lemma vals_sp1 h : vals (map sp1 h) = h.
Proof. unfold vals. rewrite map_map. cbn [sp1 snd]. apply map_id. Qed.
Lemma atoms_sp1_ok h : forallb atom_rng h = true -> forallb num_ok (map sp1 h) = true /\ forallb atom_in (map sp1 h) = true.
Proof.
  intros H. rewrite !forallb_map. split; apply (forallb_imp atom_rng); try assumption; intros x _ Hx.
  - apply sp1_ok. unfold atom_rng in Hx. lia.
  - now apply atom_rng_in.
Qed.
Lemma lay_body_in' b : forallb lit_rng b = true -> len_ok b = true ->
  body_in (lay_body b) = true /\ forallb atom_in (b_atoms (lay_body b)) = true.
Proof. intros Hb Hl. pose proof (lay_body_in b Hb (len_ok_le b Hl)) as H. apply andb_prop in H. exact H. Qed.
Lemma and3 (a b c : bool) : a = true -> b = true -> c = true -> a && b && c = true.
Proof. intros -> -> ->. reflexivity. Qed.

Lemma lay_rule_wf ext f c rl : frag_rule ext f c = true -> In rl (lay_rule f c) ->
  rule_ok rl = true /\ rule_tw rl = [10] /\ rule_in ext rl = true.
Proof.
  intros H Hin. destruct c as [inc| | |ht h b|ht h bnd b|p l|atoms|name cond|a v|lits|a t bias prio cond|s0 t cond|id n|id s0|id c args|id terms cond|a t elems|a t elems op rhs];
    try discriminate H.
  - (* rule *)
    destruct (frag_crule _ _ _ _ _ H) as (Hht & Hh & Hhl & Hb & Hbl & Hfa).
    destruct (lay_body_in' b Hb Hbl) as [Hbi Hba]. pose proof (lay_body_ok b) as Hbo.
    assert (HB : forall x, atom_rng x = true -> rule_ok (RBasic [10] (sp1 x) (lay_body b)) = true /\ rule_tw (RBasic [10] (sp1 x) (lay_body b)) = [10]
                           /\ rule_in ext (RBasic [10] (sp1 x) (lay_body b)) = true).
    { intros x Hx. cbn [rule_ok rule_tw rule_in]. rewrite Hbo, Hbi, Hba, (atom_rng_in x Hx), sp1_ok by (unfold atom_rng in Hx; lia). repeat split. }
    assert (HM : forall c0 hs, hs <> [] -> forallb atom_rng hs = true -> Z.of_nat (length hs) <= atomMax ->
                   rule_ok (RMulti c0 [10] [32] (map sp1 hs) (lay_body b)) = true /\ rule_tw (RMulti c0 [10] [32] (map sp1 hs) (lay_body b)) = [10]
                   /\ rule_in ext (RMulti c0 [10] [32] (map sp1 hs) (lay_body b)) = true).
    { intros c0 hs Hne Hhs Hl. destruct (atoms_sp1_ok hs Hhs) as [Ho Hi]. cbn [rule_ok rule_tw rule_in]. rewrite Hbo, Hbi, Hba, Ho, Hi, map_length.
      assert (E1 : (1 <=? Z.of_nat (length hs)) = true) by (destruct hs; [congruence | cbn [length]; lia]).
      assert (E2 : (Z.of_nat (length hs) <=? atomMax) = true) by lia. rewrite E1, E2. repeat split. }
    cbn [lay_rule] in Hin. destruct h as [|a [|a2 h2]].
    + destruct (ht =? Head_t_Choice) eqn:Ec; [destruct Hin|]. destruct Hin as [<-|[]]. apply HB. cbn [isnil negb orb] in Hfa. exact Hfa.
    + cbn [forallb] in Hh. destruct (ht =? Head_t_Choice) eqn:Ec; destruct Hin as [<-|[]].
      * apply (HM true [a]); [discriminate | exact Hh | exact Hhl].
      * apply HB. bsplit. assumption.
    + destruct Hin as [<-|[]]. apply HM; [discriminate | exact Hh | exact Hhl].
  - (* weight rule *)
    destruct (frag_cwrule _ _ _ _ _ _ H) as (Hht & Hhl & Hh & Hfa & Hbnd & Hb & Hbl). pose proof (wlit_mlit b Hb) as Hm.
    destruct (lay_wbody_in b Hm Hbl) as (Hbi & Hba & Hbw). pose proof (lay_wbody_ok b) as Hbo. destruct (lay_wts_ok b) as [Hwo Hwl].
    assert (Ha : atom_rng (match h with [] => f | a :: _ => a end) = true).
    { destruct h as [|a h2]; [exact Hfa|]. cbn [forallb] in Hh. bsplit. assumption. }
    set (a := match h with [] => f | a :: _ => a end) in *.
    assert (Hbo' : num_ok (sp1 bnd) = true) by (apply sp1_ok; lia).
    assert (Hci : count_in (snd (sp1 bnd)) = true) by (unfold count_in, sp1, UINT_MAX, INT_MAX in *; cbn [snd]; lia).
    assert (Hwi : weight_in (sp1 bnd) = true) by (unfold weight_in, sp1; cbn [snd]; lia).
    cbn [lay_rule] in Hin. fold a in Hin. destruct (is_card b); destruct Hin as [<-|[]]; cbn [rule_ok rule_tw rule_in];
      rewrite Hbo, Hbi, Hba, Hbo', Hci, Hwi, (atom_rng_in a Ha), sp1_ok by (unfold atom_rng in Ha; lia).
    + repeat split.
    + rewrite Hwo, Hbw, Hwl, Nat.eqb_refl. repeat split.
  - (* minimize *)
    destruct (frag_cmin _ _ _ _ H) as (Hm & Hl).
    destruct (lay_wbody_in l Hm Hl) as (Hbi & Hba & Hbw). pose proof (lay_wbody_ok l) as Hbo. destruct (lay_wts_ok l) as [Hwo Hwl].
    cbn [lay_rule] in Hin. destruct Hin as [<-|[]]. cbn [rule_ok rule_tw rule_in].
    rewrite Hbo, Hbi, Hba, Hwo, Hbw, Hwl, Nat.eqb_refl. repeat split.
  - (* external *)
    destruct (frag_cext _ _ _ _ H) as (Hext & Ha & Hv). subst ext. cbn [lay_rule] in Hin.
    destruct (v =? Value_t_Release) eqn:E; destruct Hin as [<-|[]]; cbn [rule_ok rule_tw rule_in];
      rewrite (atom_rng_in a Ha), sp1_ok by (unfold atom_rng in Ha; lia).
    + repeat split.
    + pose proof (extval_rng v Hv E) as Hx. rewrite sp1_ok by lia. unfold sp1 at 1. cbn [snd].
      assert (E2 : (Z.lxor v smw_extval_xor - smw_extval_sub <=? 2) = true) by lia. rewrite E2. repeat split.
Qed.

Lemma lay_rule_denote1 ext f prio c : frag_rule ext f c = true ->
  match lay_rule f c with
  | [] => norm_rule f prio c = ([], prio)
  | [rl] => d_rule prio rl = norm_rule f prio c
  | _ => False
  end.
Proof.
  intros H. destruct c as [inc| | |ht h b|ht h bnd b|p l|atoms|name cond|a v|lits|a t bias prio0 cond|s0 t cond|id n|id s0|id c args|id terms cond|a t elems|a t elems op rhs];
    try discriminate H.
  - destruct (frag_crule _ _ _ _ _ H) as (Hht & Hh & Hhl & Hb & Hbl & Hfa).
    pose proof (lay_body_denote b Hb) as Hd. cbn [lay_rule norm_rule].
    destruct (ht =? Head_t_Choice) eqn:Ec.
    + apply Z.eqb_eq in Ec. subst ht. destruct h as [|a [|a2 h2]]; cbn [d_rule fst snd sp1]; rewrite ?Hd; try reflexivity.
      rewrite vals_sp1. reflexivity.
    + assert (Hz : ht = Head_t_Disjunctive) by (rewrite ?Ec, orb_false_r in Hht; now apply Z.eqb_eq in Hht). subst ht.
      destruct h as [|a [|a2 h2]]; cbn [d_rule fst snd sp1]; rewrite ?Hd; try reflexivity.
      rewrite vals_sp1. reflexivity.
  - destruct (frag_cwrule _ _ _ _ _ _ H) as (Hht & Hhl & Hh & Hfa & Hbnd & Hb & Hbl).
    assert (Hn : norm_min b = norm_wbody b) by (unfold norm_min; now rewrite (flipw_id b (wlit_nonneg b Hb))).
    cbn [lay_rule norm_rule]. destruct h as [|a [|a2 h2]]; [| |cbn [length] in Hhl; lia];
      (destruct (is_card b) eqn:Ecard; cbn [d_rule fst snd sp1]; [rewrite (lay_c_denote b Ecard) | rewrite lay_w_denote]; rewrite Hn; reflexivity).
  - cbn [lay_rule norm_rule d_rule fst snd]. rewrite lay_w_denote. reflexivity.
  - destruct (frag_cext _ _ _ _ H) as (Hext & Ha & Hv). cbn [lay_rule norm_rule].
    destruct (v =? Value_t_Release) eqn:E; cbn [d_rule fst snd sp1].
    + apply Z.eqb_eq in E. subst v. reflexivity.
    + unfold Value_t_Release in E. assert (C : v = 0 \/ v = 1 \/ v = 2) by lia. destruct C as [C|[C|C]]; subst v; reflexivity.
Qed.
Lemma lay_rule_denote ext f prio c rest : frag_rule ext f c = true ->
  d_rules prio (lay_rule f c ++ rest) = fst (norm_rule f prio c) ++ d_rules (snd (norm_rule f prio c)) rest.
Proof.
  intros H. pose proof (lay_rule_denote1 ext f prio c H) as D. destruct (lay_rule f c) as [|rl [|rl2 l2]]; [| |destruct D].
  - rewrite D. reflexivity.
  - cbn [app d_rules]. rewrite D. reflexivity.
Qed.

(* ---------- (1) per-line round trip: the line written for a call is read back by the reader's rule dispatcher as the normal form ---------- *)
Lemma rt_line (o : opts) f s c rl prio r ln :
  w_sec s = 0 -> w_false s = f -> w_ext s = claspExt o -> frag_rule (claspExt o) f c = true -> lay_rule f c = [rl] -> delim r ->
  exists t ln', sm_step s c = WOk (if empty_head c then set_fhead s else s) (print_nat (rule_type rl) ++ t ++ eol) /\
                read_rule o prio (rule_type rl) (amk (t ++ r) ln) = Ok (norm_rule f prio c, amk r ln').
Proof.
  intros Hsec Hf He H Hl Hr.
  destruct (lay_rule_wf _ f c rl H ltac:(rewrite Hl; now left)) as (Hok & _ & Hin).
  pose proof (read_rule_spec o rl prio r ln Hok Hr) as Hs. rewrite Hin in Hs. destruct Hs as [ln' E].
  pose proof (lay_rule_denote1 _ f prio c H) as D. rewrite Hl in D. rewrite D in E.
  exists (rule_fields rl), ln'. split; [|exact E].
  rewrite <- (line_nil rl), <- Hl.
  destruct c as [inc| | |ht h b|ht h bnd b|p l|atoms|name cond|a v|lits|a t bias prio0 cond|s0 t cond|id n|id s0|id c args|id terms cond|a t elems|a t elems op rhs];
    try discriminate H.
  - now apply (step_rule (claspExt o)).
  - now apply (step_wrule (claspExt o)).
  - now apply (step_min (claspExt o)).
  - now apply (step_ext (claspExt o)).
Qed.

Ltac use_rt_line o s prio r ln Hsec He H Hr rlx :=
  let t := fresh "t" in let ln' := fresh "ln'" in let E1 := fresh "E1" in let E2 := fresh "E2" in
  destruct (rt_line o (w_false s) s _ rlx prio r ln Hsec eq_refl He H eq_refl Hr) as (t & ln' & E1 & E2);
  exists t, ln'; split; [exact E1 | exact E2].

(* choice rule (type 3), any non-empty head *)
Lemma rt_choice (o : opts) s h b prio r ln : w_sec s = 0 -> w_ext s = claspExt o -> h <> [] ->
  frag_rule (claspExt o) (w_false s) (CRule Head_t_Choice h b) = true -> delim r ->
  exists t ln', sm_step s (CRule Head_t_Choice h b) = WOk s (print_nat Sm_Choice ++ t ++ eol) /\
                read_rule o prio Sm_Choice (amk (t ++ r) ln) = Ok ([CRule Head_t_Choice h (norm_body b)], prio, amk r ln').
Proof.
  intros Hsec He Hne H Hr. destruct h as [|a [|a2 h2]]; [congruence| |].
  - use_rt_line o s prio r ln Hsec He H Hr (RMulti true [10] [32] [sp1 a] (lay_body b)).
  - use_rt_line o s prio r ln Hsec He H Hr (RMulti true [10] [32] (map sp1 (a :: a2 :: h2)) (lay_body b)).
Qed.
(* disjunctive rule (type 8), two or more head atoms *)
Lemma rt_disjunctive (o : opts) s a a2 h b prio r ln : w_sec s = 0 -> w_ext s = claspExt o ->
  frag_rule (claspExt o) (w_false s) (CRule Head_t_Disjunctive (a :: a2 :: h) b) = true -> delim r ->
  exists t ln', sm_step s (CRule Head_t_Disjunctive (a :: a2 :: h) b) = WOk s (print_nat Sm_Disjunctive ++ t ++ eol) /\
                read_rule o prio Sm_Disjunctive (amk (t ++ r) ln) = Ok ([CRule Head_t_Disjunctive (a :: a2 :: h) (norm_body b)], prio, amk r ln').
Proof.
  intros Hsec He H Hr. use_rt_line o s prio r ln Hsec He H Hr (RMulti false [10] [32] (map sp1 (a :: a2 :: h)) (lay_body b)).
Qed.
(* integrity constraint: written with the false atom as head (type 1), the writer remembers that the false atom is used *)
Lemma rt_false_atom (o : opts) s b prio r ln : w_sec s = 0 -> w_ext s = claspExt o ->
  frag_rule (claspExt o) (w_false s) (CRule Head_t_Disjunctive [] b) = true -> delim r ->
  exists t ln', sm_step s (CRule Head_t_Disjunctive [] b) = WOk (set_fhead s) (print_nat Sm_Basic ++ t ++ eol) /\
                read_rule o prio Sm_Basic (amk (t ++ r) ln) = Ok ([CRule Head_t_Disjunctive [w_false s] (norm_body b)], prio, amk r ln').
Proof.
  intros Hsec He H Hr. use_rt_line o s prio r ln Hsec He H Hr (RBasic [10] (sp1 (w_false s)) (lay_body b)).
Qed.
(* cardinality rule (type 2): all weights 1 *)
Lemma rt_cardinality (o : opts) s a bnd b prio r ln : w_sec s = 0 -> w_ext s = claspExt o -> is_card b = true ->
  frag_rule (claspExt o) (w_false s) (CWRule Head_t_Disjunctive [a] bnd b) = true -> delim r ->
  exists t ln', sm_step s (CWRule Head_t_Disjunctive [a] bnd b) = WOk s (print_nat Sm_Cardinality ++ t ++ eol) /\
                read_rule o prio Sm_Cardinality (amk (t ++ r) ln) = Ok ([CWRule Head_t_Disjunctive [a] bnd (norm_wbody b)], prio, amk r ln').
Proof.
  intros Hsec He Hc H Hr.
  assert (Hl : lay_rule (w_false s) (CWRule Head_t_Disjunctive [a] bnd b) = [RCard [10] (sp1 a) (lay_wbody b) (sp1 bnd)]) by (cbn [lay_rule]; now rewrite Hc).
  destruct (rt_line o (w_false s) s _ _ prio r ln Hsec eq_refl He H Hl Hr) as (t & ln' & E1 & E2). exists t, ln'. split; [exact E1 | exact E2].
Qed.
(* weight rule (type 5): some weight differs from 1 (weight 0 included); bound first *)
Lemma rt_weight (o : opts) s a bnd b prio r ln : w_sec s = 0 -> w_ext s = claspExt o -> is_card b = false ->
  frag_rule (claspExt o) (w_false s) (CWRule Head_t_Disjunctive [a] bnd b) = true -> delim r ->
  exists t ln', sm_step s (CWRule Head_t_Disjunctive [a] bnd b) = WOk s (print_nat Sm_Weight ++ t ++ eol) /\
                read_rule o prio Sm_Weight (amk (t ++ r) ln) = Ok ([CWRule Head_t_Disjunctive [a] bnd (norm_wbody b)], prio, amk r ln').
Proof.
  intros Hsec He Hc H Hr.
  assert (Hl : lay_rule (w_false s) (CWRule Head_t_Disjunctive [a] bnd b) = [RWeight [10] (sp1 a) (sp1 bnd) (lay_wbody b) (lay_wts b)]) by (cbn [lay_rule]; now rewrite Hc).
  destruct (rt_line o (w_false s) s _ _ prio r ln Hsec eq_refl He H Hl Hr) as (t & ln' & E1 & E2). exists t, ln'. split; [exact E1 | exact E2].
Qed.
(* a sum rule with an empty head: false atom as head *)
Lemma rt_false_atom_sum (o : opts) s bnd b prio r ln : w_sec s = 0 -> w_ext s = claspExt o ->
  frag_rule (claspExt o) (w_false s) (CWRule Head_t_Disjunctive [] bnd b) = true -> delim r ->
  exists t ln', sm_step s (CWRule Head_t_Disjunctive [] bnd b) = WOk (set_fhead s) (print_nat (if is_card b then Sm_Cardinality else Sm_Weight) ++ t ++ eol) /\
                read_rule o prio (if is_card b then Sm_Cardinality else Sm_Weight) (amk (t ++ r) ln)
                = Ok ([CWRule Head_t_Disjunctive [w_false s] bnd (norm_wbody b)], prio, amk r ln').
Proof.
  intros Hsec He H Hr. destruct (is_card b) eqn:Hc.
  - assert (Hl : lay_rule (w_false s) (CWRule Head_t_Disjunctive [] bnd b) = [RCard [10] (sp1 (w_false s)) (lay_wbody b) (sp1 bnd)]) by (cbn [lay_rule]; now rewrite Hc).
    destruct (rt_line o (w_false s) s _ _ prio r ln Hsec eq_refl He H Hl Hr) as (t & ln' & E1 & E2). exists t, ln'. split; [exact E1 | exact E2].
  - assert (Hl : lay_rule (w_false s) (CWRule Head_t_Disjunctive [] bnd b) = [RWeight [10] (sp1 (w_false s)) (sp1 bnd) (lay_wbody b) (lay_wts b)]) by (cbn [lay_rule]; now rewrite Hc).
    destruct (rt_line o (w_false s) s _ _ prio r ln Hsec eq_refl He H Hl Hr) as (t & ln' & E1 & E2). exists t, ln'. split; [exact E1 | exact E2].
Qed.
(* minimize (type 6): bound 0, sign normalisation, priority = number of minimize statements read so far *)
Lemma rt_minimize (o : opts) s p l prio r ln : w_sec s = 0 -> w_ext s = claspExt o ->
  frag_rule (claspExt o) (w_false s) (CMin p l) = true -> delim r ->
  exists t ln', sm_step s (CMin p l) = WOk s (print_nat Sm_Optimize ++ t ++ eol) /\
                read_rule o prio Sm_Optimize (amk (t ++ r) ln) = Ok ([CMin prio (norm_min l)], prio + 1, amk r ln').
Proof.
  intros Hsec He H Hr. use_rt_line o s prio r ln Hsec He H Hr (RMin [10] (sp1 0) (lay_wbody l) (lay_wts l)).
Qed.
(* externals (types 91 / 92): only with the extensions; value coding (v xor 3) - 1 *)
Lemma rt_external (o : opts) s a v prio r ln : w_sec s = 0 -> w_ext s = claspExt o ->
  frag_rule (claspExt o) (w_false s) (CExternal a v) = true -> delim r ->
  exists t ln', sm_step s (CExternal a v) = WOk s (print_nat (if v =? Value_t_Release then Sm_ClaspReleaseExt else Sm_ClaspAssignExt) ++ t ++ eol) /\
                read_rule o prio (if v =? Value_t_Release then Sm_ClaspReleaseExt else Sm_ClaspAssignExt) (amk (t ++ r) ln)
                = Ok ([CExternal a v], prio, amk r ln').
Proof.
  intros Hsec He H Hr. destruct (v =? Value_t_Release) eqn:Ev.
  - assert (Hl : lay_rule (w_false s) (CExternal a v) = [RRelease [10] (sp1 a)]) by (cbn [lay_rule]; now rewrite Ev).
    destruct (rt_line o (w_false s) s _ _ prio r ln Hsec eq_refl He H Hl Hr) as (t & ln' & E1 & E2). exists t, ln'. split; [exact E1 | exact E2].
  - assert (Hl : lay_rule (w_false s) (CExternal a v) = [RAssign [10] (sp1 a) (sp1 (Z.lxor v smw_extval_xor - smw_extval_sub))]) by (cbn [lay_rule]; now rewrite Ev).
    destruct (rt_line o (w_false s) s _ _ prio r ln Hsec eq_refl He H Hl Hr) as (t & ln' & E1 & E2). exists t, ln'. split; [exact E1 | exact E2].
Qed.
(* basic rule (type 1), stated without the fragment predicate *)
Lemma rt_basic_line (o : opts) (s : wstate) a b prio r ln :
  w_sec s = 0 -> atom_rng a = true -> forallb lit_rng b = true -> Z.of_nat (length b) <= 4294967295 -> delim r ->
  exists t ln', sm_step s (CRule Head_t_Disjunctive [a] b) = WOk s (print_nat Sm_Basic ++ t ++ eol) /\
                read_rule o prio Sm_Basic (amk (t ++ r) ln) = Ok ([CRule Head_t_Disjunctive [a] (norm_body b)], prio, amk r ln').
Proof.
  intros Hsec Ha Hb Hlen Hr.
  destruct (rt_basic o a b prio r ln Ha Hb Hlen Hr) as [ln' E].
  exists (w_head Head_t_Disjunctive [a] ++ w_body b), ln'. split.
  - cbn [sm_step]. unfold w_rule. rewrite Hsec. cbn [Z.eqb negb]. rewrite <- app_assoc. reflexivity.
  - rewrite <- app_assoc. exact E.
Qed.
