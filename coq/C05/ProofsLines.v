(* C05 - every line the writer emits in the rule section (rule types 1 2 3 5 6 8 90 91 92) is the rendering of a
   laid-out rule (C07/Spec.v) that is well-formed, in range and denotes the normal form of the call. *)
Require Import V.Lib.Base V.Lib.Calls V.Lib.Dec V.C09.Spec V.Gen.Consts V.Gen.Consts_C07 V.C07.Model V.C07.Spec V.C07.ProofsLex V.C07.ProofsGram.
Require Import V.C05.Model V.C05.Spec V.C05.Proofs V.C05.ProofsRT.
Local Open Scope Z_scope.
Ltac Zify.zify_post_hook ::= Z.div_mod_to_equations.

(* the text of one line of the rule section *)
Definition line (rl : lrule) : list Z := print_nat (rule_type rl) ++ rule_fields rl ++ eol.

(* ---------- generic list facts ---------- *)
Lemma adds_app a b : adds (a ++ b) = adds a ++ adds b.
Proof. unfold adds. apply flat_map_app. Qed.
Lemma r_nums_app a b : r_nums (a ++ b) = r_nums a ++ r_nums b.
Proof. unfold r_nums. apply flat_map_app. Qed.
Lemma filter_map_comm {A B} (g : A -> B) (p : B -> bool) l : filter p (map g l) = map g (filter (fun x => p (g x)) l).
Proof. induction l as [|a l IH]; [reflexivity|]. cbn [map filter]. destruct (p (g a)); cbn [map]; now rewrite IH. Qed.
Lemma combine_map {A B C} (g : A -> B) (h : A -> C) l : combine (map g l) (map h l) = map (fun x => (g x, h x)) l.
Proof. induction l as [|a l IH]; [reflexivity|]. cbn [map combine]. now rewrite IH. Qed.
Lemma forallb_map {A B} (p : B -> bool) (g : A -> B) l : forallb p (map g l) = forallb (fun x => p (g x)) l.
Proof. induction l as [|a l IH]; [reflexivity|]. cbn [map forallb]. now rewrite IH. Qed.
Lemma forallb_imp {A} (p q : A -> bool) l : (forall x, In x l -> p x = true -> q x = true) -> forallb p l = true -> forallb q l = true.
Proof.
  intros H Hp. apply forallb_forall. intros x Hx. apply H; [assumption|]. rewrite forallb_forall in Hp. now apply Hp.
Qed.
Lemma sum_order_in b x : In x (sum_order b) -> In x b.
Proof. unfold sum_order, negs, poss. intros H. apply in_app_or in H. destruct H as [H|H]; apply filter_In in H; tauto. Qed.
Lemma sum_order_len b : length (sum_order b) = length b.
Proof. unfold sum_order, negs, poss. rewrite app_length. apply filter_len. Qed.
Lemma negs_len_le {A} (sl : A -> Z) b : (length (negs sl b) <= length b)%nat.
Proof. unfold negs. rewrite <- (filter_len (fun x => sl x <? 0) b). apply Nat.le_add_r. Qed.
Lemma forallb_sum_order (p : Z * Z -> bool) b : forallb p b = true -> forallb p (sum_order b) = true.
Proof. intros H. apply forallb_forall. intros x Hx. rewrite forallb_forall in H. apply H. now apply sum_order_in. Qed.

(* ---------- u32 / add_u ---------- *)
Lemma add_u_num a : 0 <= a <= 4294967295 -> add_u a = r_num (sp1 a).
Proof. intros H. unfold add_u, r_num, sp1. cbn [fst snd app]. now rewrite u32_id. Qed.
Lemma adds_map_nums {A} (g : A -> Z) l : (forall x, In x l -> 0 <= g x <= 4294967295) -> adds (map g l) = r_nums (map sp1 (map g l)).
Proof.
  intros H. apply adds_nums. apply Forall_forall. intros a Ha. apply in_map_iff in Ha. destruct Ha as (x & <- & Hx). now apply H.
Qed.

(* ---------- heads ---------- *)
Lemma w_head_single ht a : (ht =? Head_t_Choice) = false -> 0 <= a <= 4294967295 -> w_head ht [a] = r_num (sp1 a).
Proof.
  intros Hc Ha. unfold w_head. rewrite Hc. change (1 <? Z.of_nat (length [a])) with false. cbn [orb app].
  unfold adds. cbn [flat_map]. rewrite app_nil_r. now apply add_u_num.
Qed.
Lemma w_head_multi ht h : (ht =? Head_t_Choice) || (1 <? Z.of_nat (length h)) = true -> forallb atom_rng h = true ->
  Z.of_nat (length h) <= atomMax -> w_head ht h = r_cnt [32] (length (map sp1 h)) ++ r_nums (map sp1 h).
Proof.
  intros Hc Hh Hl. unfold w_head. rewrite Hc. rewrite map_length. unfold atomMax in Hl.
  rewrite add_u_num by lia. unfold r_cnt, r_num, sp1. cbn [fst snd]. f_equal.
  apply adds_nums. apply Forall_forall. intros a Ha. rewrite forallb_forall in Hh. specialize (Hh a Ha). unfold atom_rng, atomMax in Hh. lia.
Qed.

(* ---------- sum bodies (cardinality / weight / minimize) ---------- *)
Lemma mlit_abs x : mlit_rng x = true -> 1 <= Z.abs (fst x) <= atomMax /\ 0 <= Z.abs (snd x) <= INT_MAX.
Proof. unfold mlit_rng, lit_rng. intros H. bsplit. lia. Qed.

Lemma w_sum_text bnd b card : forallb mlit_rng b = true -> len_ok b = true -> 0 <= bnd <= 4294967295 ->
  w_sum bnd b card =
    (if card then [] else r_num (sp1 bnd)) ++ r_counts (lay_wbody b) ++ (if card then r_num (sp1 bnd) else []) ++
    r_nums (b_atoms (lay_wbody b)) ++ (if card then [] else r_nums (lay_wts b)).
Proof.
  intros Hb Hlen Hbnd. unfold len_ok, UINT_MAX in Hlen. unfold w_sum, r_counts, r_cnt, lay_wbody, lay_wts. cbn [b_lws b_neg b_atoms].
  rewrite !map_length, sum_order_len. pose proof (negs_len_le sm_lit b) as Hn.
  assert (X : 0 <= Z.of_nat (length b) <= 4294967295) by lia.
  assert (Y : 0 <= Z.of_nat (length (negs sm_lit b)) <= 4294967295) by lia.
  rewrite !add_u_num by assumption. unfold sum_order. rewrite !map_app, !r_nums_app.
  assert (Ha : forall l, (forall x, In x l -> In x b) -> adds (map (fun x => Z.abs (fst x)) l) = r_nums (map sp1 (map (fun x => Z.abs (fst x)) l))).
  { intros l Hl. apply adds_map_nums. intros x Hx. rewrite forallb_forall in Hb. pose proof (mlit_abs x (Hb x (Hl x Hx))). unfold atomMax in *. lia. }
  assert (Hw : forall l, (forall x, In x l -> In x b) -> adds (map (fun x => Z.abs (snd x)) l) = r_nums (map sp1 (map (fun x => Z.abs (snd x)) l))).
  { intros l Hl. apply adds_map_nums. intros x Hx. rewrite forallb_forall in Hb. pose proof (mlit_abs x (Hb x (Hl x Hx))). unfold INT_MAX in *. lia. }
  assert (Hin1 : forall x, In x (negs sm_lit b) -> In x b) by (intros x Hx; apply filter_In in Hx; tauto).
  assert (Hin2 : forall x, In x (poss sm_lit b) -> In x b) by (intros x Hx; apply filter_In in Hx; tauto).
  rewrite (Ha _ Hin1), (Ha _ Hin2), (Hw _ Hin1), (Hw _ Hin2).
  unfold r_num, sp1. cbn [fst snd]. destruct card; cbn [app]; rewrite <- ?app_assoc; cbn [app]; rewrite ?app_nil_r; reflexivity.
Qed.

Lemma lay_wbody_ok b : body_ok (lay_wbody b) = true.
Proof.
  unfold body_ok, lay_wbody. cbn [b_lws b_neg b_atoms]. apply andb_true_intro. split; [apply andb_true_intro; split|].
  - reflexivity.
  - unfold num_ok, sp1. cbn [fst snd]. apply andb_true_intro. split; [reflexivity | lia].
  - rewrite !forallb_map. apply forallb_forall. intros x _. unfold num_ok, sp1. cbn [fst snd]. apply andb_true_intro. split; [reflexivity | lia].
Qed.
Lemma lay_wts_ok b : forallb num_ok (lay_wts b) = true /\ length (lay_wts b) = length (b_atoms (lay_wbody b)).
Proof.
  unfold lay_wts, lay_wbody. cbn [b_atoms]. split; [|now rewrite !map_length].
  rewrite !forallb_map. apply forallb_forall. intros x _. unfold num_ok, sp1. cbn [fst snd]. apply andb_true_intro. split; [reflexivity | lia].
Qed.
Lemma lay_wbody_in b : forallb mlit_rng b = true -> len_ok b = true ->
  body_in (lay_wbody b) = true /\ forallb atom_in (b_atoms (lay_wbody b)) = true /\ forallb weight_in (lay_wts b) = true.
Proof.
  intros Hb Hlen. unfold len_ok in Hlen. unfold body_in, lay_wbody, lay_wts, count_in. cbn [b_lws b_neg b_atoms snd sp1].
  rewrite !map_length, sum_order_len. pose proof (negs_len_le sm_lit b) as Hn. unfold UINT_MAX in *. repeat split.
  - repeat (apply andb_true_intro; split); lia.
  - rewrite !forallb_map. apply (forallb_imp mlit_rng); [|now apply forallb_sum_order].
    intros x _ Hx. pose proof (mlit_abs x Hx). unfold atom_in, sp1. cbn [snd]. lia.
  - rewrite !forallb_map. apply (forallb_imp mlit_rng); [|now apply forallb_sum_order].
    intros x _ Hx. pose proof (mlit_abs x Hx). unfold weight_in, sp1. cbn [snd]. lia.
Qed.

Lemma sm_lit_flip x : sm_lit x = fst (flipw x).
Proof. unfold sm_lit, flipw. destruct (0 <=? snd x) eqn:E1, (snd x <? 0) eqn:E2; cbn [fst]; lia. Qed.
Lemma flipw_pair x : (sm_lit x, Z.abs (snd x)) = flipw x.
Proof. unfold sm_lit, flipw. destruct x as [l w]. cbn [fst snd]. destruct (0 <=? w) eqn:E1, (w <? 0) eqn:E2; f_equal; lia. Qed.
Lemma sum_order_flip b : map flipw (sum_order b) = norm_min b.
Proof.
  unfold norm_min, norm_wbody, sum_order, negs, poss. rewrite map_app, !filter_map_comm. f_equal; f_equal; apply filter_ext; intros x; now rewrite sm_lit_flip.
Qed.
Lemma flipw_id b : forallb (fun x => 0 <=? snd x) b = true -> map flipw b = b.
Proof.
  intros H. rewrite <- (map_id b) at 2. apply map_ext_in. intros x Hx. rewrite forallb_forall in H. specialize (H x Hx).
  unfold flipw. destruct (snd x <? 0) eqn:E; [lia | reflexivity].
Qed.

Lemma lay_wbody_dbody b : d_body (lay_wbody b) = map sm_lit (sum_order b).
Proof.
  unfold d_body, lay_wbody, vals. cbn [b_neg b_atoms snd sp1]. rewrite Nat2Z.id. rewrite !map_map. cbn [snd].
  unfold sum_order. rewrite !map_app, firstn_app, skipn_app, !map_length, Nat.sub_diag. cbn [firstn skipn]. rewrite app_nil_r.
  rewrite firstn_all2 by (rewrite map_length; lia). rewrite skipn_all2 by (rewrite map_length; lia). cbn [app].
  rewrite map_map. f_equal; apply map_ext_in; intros x Hx; apply filter_In in Hx; destruct Hx as [_ Hx]; unfold sm_lit in *; cbn [snd];
    destruct (0 <=? snd x); lia.
Qed.
Lemma lay_w_denote b : combine (d_body (lay_wbody b)) (vals (lay_wts b)) = norm_min b.
Proof.
  rewrite lay_wbody_dbody. unfold lay_wts, vals. rewrite !map_map. cbn [snd sp1]. rewrite combine_map.
  rewrite <- sum_order_flip. apply map_ext. intros x. apply flipw_pair.
Qed.
Lemma lay_c_denote b : is_card b = true -> map (fun l => (l, 1)) (d_body (lay_wbody b)) = norm_min b.
Proof.
  intros Hc. rewrite lay_wbody_dbody, map_map, <- sum_order_flip. apply map_ext_in. intros x Hx. apply sum_order_in in Hx.
  unfold is_card in Hc. rewrite forallb_forall in Hc. specialize (Hc x Hx). rewrite <- flipw_pair. f_equal. lia.
Qed.
