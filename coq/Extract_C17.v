Require Import ExtrOcamlBasic.
Require Import V.C17.Model.
Extraction "model.ml" run_case.
