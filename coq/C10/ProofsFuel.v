(* C10 - the loops of the model never run out of fuel: every loop is started with fuel S (length rest) and every
   iteration that continues consumes at least one byte.  Errors of the real reader carry a line number >= 1; the
   marker of an exhausted loop is the line number -1 (Model.oof), which read_text therefore never returns. *)
Require Import V.Lib.Base V.Lib.Calls V.C09.Spec V.Gen.Consts_C10 V.C10.Model.
Local Open Scope Z_scope.

Definition len (s : rs) : nat := length (rest (str s)).
Definition lok (s : rs) : Prop := 1 <= aline (str s).

(* the result of running something from state s: no more input than before, lines stay >= 1, errors are real ones *)
Definition ok {A} (s : rs) (r : rres A) : Prop :=
  match r with ROk _ s' => (len s' <= len s)%nat /\ lok s' | RErr l _ => 1 <= l end.
Definition oks {A} (s : rs) (r : rres A) : Prop :=
  match r with ROk _ s' => (len s' < len s)%nat /\ lok s' | RErr l _ => 1 <= l end.

Lemma oks_ok {A} s (r : rres A) : oks s r -> ok s r.
Proof. destruct r; simpl; [intros [H1 H2]; split; [lia | exact H2] | auto]. Qed.

Lemma ok_bind {A B} (m : M A) (k : A -> M B) s : ok s (m s) ->
  (forall a s1, m s = ROk a s1 -> (len s1 <= len s)%nat -> lok s1 -> ok s1 (k a s1)) -> ok s (bind m k s).
Proof.
  intros Hm Hk. unfold bind. destruct (m s) as [a s1|l c] eqn:E; [|exact Hm]. destruct Hm as [H1 H2].
  specialize (Hk a s1 eq_refl H1 H2). destruct (k a s1); simpl in *; [destruct Hk; split; [lia | assumption] | exact Hk].
Qed.
Lemma oks_bind_l {A B} (m : M A) (k : A -> M B) s : oks s (m s) ->
  (forall a s1, m s = ROk a s1 -> (len s1 < len s)%nat -> lok s1 -> ok s1 (k a s1)) -> oks s (bind m k s).
Proof.
  intros Hm Hk. unfold bind. destruct (m s) as [a s1|l c] eqn:E; [|exact Hm]. destruct Hm as [H1 H2].
  specialize (Hk a s1 eq_refl H1 H2). destruct (k a s1); simpl in *; [destruct Hk; split; [lia | assumption] | exact Hk].
Qed.
Lemma oks_bind_r {A B} (m : M A) (k : A -> M B) s : ok s (m s) ->
  (forall a s1, m s = ROk a s1 -> (len s1 <= len s)%nat -> lok s1 -> oks s1 (k a s1)) -> oks s (bind m k s).
Proof.
  intros Hm Hk. unfold bind. destruct (m s) as [a s1|l c] eqn:E; [|exact Hm]. destruct Hm as [H1 H2].
  specialize (Hk a s1 eq_refl H1 H2). destruct (k a s1); simpl in *; [destruct Hk; split; [lia | assumption] | exact Hk].
Qed.

Lemma ok_ret {A} (a : A) s : lok s -> ok s (ret a s).
Proof. intros H. split; [lia | exact H]. Qed.
Lemma ok_fail {A} s : lok s -> ok s (@fail A s).
Proof. intros H. exact H. Qed.
Lemma ok_require b s : lok s -> ok s (require b s).
Proof. intros H. unfold require. destruct b; [split; [lia | exact H] | exact H]. Qed.
Lemma require_inv b s s1 : require b s = ROk tt s1 -> b = true /\ s1 = s.
Proof. unfold require. destruct b; intros E; [inversion E; auto | discriminate]. Qed.
Lemma ok_emit c s : lok s -> ok s (emit c s).
Proof. intros H. unfold emit, ok, len, lok in *. simpl. split; [lia | exact H]. Qed.
Lemma ok_remaining s : lok s -> ok s (remaining s).
Proof. intros H. split; [lia | exact H]. Qed.
Lemma remaining_inv s n s1 : remaining s = ROk n s1 -> n = S (len s) /\ s1 = s.
Proof. unfold remaining. intros E. inversion E. auto. Qed.

(* ---------- the stream operations ---------- *)
Lemma match10x {A} (l : list Z) (f : list Z -> A) (d : A) :
  (match l with 10 :: r' => f r' | _ => d end) = match l with x :: r' => if x =? 10 then f r' else d | [] => d end.
Proof.
  destruct l as [|x r']; [reflexivity|]. destruct (Z.eqb_spec x 10) as [->|n]; [reflexivity|].
  destruct x as [|p|p]; try reflexivity.
  repeat (try reflexivity; destruct p as [p|p|]); try reflexivity. exfalso. apply n. reflexivity.
Qed.

Lemma skipws_l_mono n : forall l ln, (length l <= n)%nat ->
  (length (rest (a_skipws_l l ln)) <= length l)%nat /\ ln <= aline (a_skipws_l l ln).
Proof.
  induction n as [|n IH]; intros l ln Hl.
  - destruct l; [simpl; split; lia | simpl in Hl; lia].
  - destruct l as [|c r]; [simpl; split; lia|]. cbn [a_skipws_l]. destruct (is_ws c); [|simpl; split; lia].
    destruct (c =? 13).
    + rewrite match10x. destruct r as [|x r'].
      * destruct (IH [] (ln + 1) ltac:(simpl; lia)) as [A B]. simpl in *. split; lia.
      * destruct (x =? 10).
        -- destruct (IH r' (ln + 1) ltac:(simpl in *; lia)) as [A B]. simpl in *. split; lia.
        -- destruct (IH (x :: r') (ln + 1) ltac:(simpl in *; lia)) as [A B]. simpl in *. split; lia.
    + destruct (IH r (if c =? 10 then ln + 1 else ln) ltac:(simpl in Hl; lia)) as [A B]. simpl. destruct (c =? 10); split; lia.
Qed.

Lemma a_skipws_mono t : (length (rest (a_skipws t)) <= length (rest t))%nat /\ aline t <= aline (a_skipws t).
Proof. unfold a_skipws. apply (skipws_l_mono (length (rest t))). lia. Qed.

Lemma a_get_mono t : (length (rest (snd (a_get t))) <= length (rest t))%nat /\ aline t <= aline (snd (a_get t)) /\
                     (a_peek t <> 0 -> (length (rest (snd (a_get t))) < length (rest t))%nat).
Proof.
  destruct t as [l ln]. unfold a_get, a_peek. cbn [rest aline]. destruct l as [|c r]; [cbn; repeat split; try lia; intros H; congruence|].
  destruct (c =? 13).
  - rewrite match10x. destruct r as [|x r']; [cbn; repeat split; lia|]. destruct (x =? 10); cbn; repeat split; lia.
  - destruct (c =? 10); cbn; repeat split; lia.
Qed.

Lemma a_digits_mono l : forall res g, (length (snd (a_digits l res g)) <= length l)%nat.
Proof.
  induction l as [|c r IH]; intros res g; [simpl; lia|]. cbn [a_digits]. destruct (is_digit c); [|simpl; lia].
  destruct (g && (res <=? (INT64_MAX - to_digit c) / 10)); [specialize (IH (res * 10 + to_digit c) true) | specialize (IH res false)]; simpl; lia.
Qed.

Lemma a_match_int_mono b t : (length (rest (snd (a_match_int b t))) <= length (rest t))%nat /\ aline t <= aline (snd (a_match_int b t)).
Proof.
  unfold a_match_int. set (s0 := if b then t else a_skipws t).
  assert (H0 : (length (rest s0) <= length (rest t))%nat /\ aline t <= aline s0).
  { unfold s0. destruct b; [split; lia | apply a_skipws_mono]. }
  destruct H0 as [A B].
  set (l1 := if (a_peek s0 =? 43) || (a_peek s0 =? 45) then tl (rest s0) else rest s0).
  assert (H1 : (length l1 <= length (rest s0))%nat).
  { unfold l1. destruct ((a_peek s0 =? 43) || (a_peek s0 =? 45)); [destruct (rest s0); simpl; lia | lia]. }
  destruct l1 as [|c r]; [simpl; split; lia|]. destruct (is_digit c); [|simpl in *; split; lia].
  pose proof (a_digits_mono r (to_digit c) true) as HD. destruct (a_digits r (to_digit c) true) as [[res good] l2].
  simpl in *. split; lia.
Qed.

Lemma a_match_tok_mono w t : (length (rest (snd (a_match_tok w t))) <= length (rest t))%nat /\ aline (snd (a_match_tok w t)) = aline t /\
  (fst (a_match_tok w t) = true -> w <> [] -> (length (rest (snd (a_match_tok w t))) < length (rest t))%nat).
Proof.
  unfold a_match_tok. destruct (list_eqb (firstn (length w) (rest t)) w) eqn:E; cbn [fst snd rest aline].
  - apply list_eqb_eq in E. rewrite skipn_length. repeat split; try lia. intros _ Hw.
    assert (length w <= length (rest t))%nat by (rewrite <- E at 1; rewrite firstn_length; lia).
    destruct w; [congruence|]. simpl in *. lia.
  - repeat split; try lia; try discriminate.
Qed.

(* ---------- primitives of the monad ---------- *)
Lemma ok_on_str {A} (f : ast -> A * ast) s : lok s ->
  (length (rest (snd (f (str s)))) <= length (rest (str s)))%nat -> aline (str s) <= aline (snd (f (str s))) -> ok s (on_str f s).
Proof. intros H H1 H2. unfold on_str. destruct (f (str s)) as [a t]. simpl in *. unfold ok, len, lok in *. simpl. split; lia. Qed.

Lemma ok_skipws s : lok s -> ok s (skipws s).
Proof. intros H. unfold skipws. apply ok_on_str; [exact H | apply a_skipws_mono | apply a_skipws_mono]. Qed.
Lemma ok_peek b s : lok s -> ok s (peek b s).
Proof.
  intros H. unfold peek. apply ok_on_str; [exact H | |]; cbn [snd]; destruct b; try lia; apply a_skipws_mono.
Qed.
Lemma peek_inv b s c s1 : peek b s = ROk c s1 -> c = a_peek (str s1) /\ acc s1 = acc s /\ (b = false -> s1 = s).
Proof.
  unfold peek, on_str. intros E. inversion E; subst. cbn [str acc]. repeat split. intros ->. destruct s. reflexivity.
Qed.
Lemma ok_get s : lok s -> ok s (get s).
Proof.
  intros H. unfold get. destruct (a_get_mono (str s)) as (A & B & _). apply ok_on_str; assumption.
Qed.
Lemma oks_get s : lok s -> a_peek (str s) <> 0 -> oks s (get s).
Proof.
  intros H Hp. unfold get, on_str. destruct (a_get_mono (str s)) as (A & B & C). specialize (C Hp).
  destruct (a_get (str s)) as [c t]. simpl in *. unfold oks, len, lok in *. simpl. split; lia.
Qed.
Lemma get_inv s c s1 : get s = ROk c s1 -> a_peek (str s) = 0 -> c = 0.
Proof.
  unfold get, on_str, a_get, a_peek. destruct (rest (str s)) as [|x r]; [intros E _; inversion E; reflexivity|].
  intros E H0. subst x. inversion E. reflexivity.
Qed.

Lemma ok_mtok w req s : lok s -> ok s (mtok w req s).
Proof.
  intros H. unfold mtok. apply ok_bind.
  - destruct (a_match_tok_mono w (str s)) as (A & B & _). apply ok_on_str; [exact H | exact A | lia].
  - intros b s1 _ _ H1. destruct b.
    + apply ok_bind; [now apply ok_skipws | intros; now apply ok_ret].
    + apply ok_bind; [now apply ok_require | intros; now apply ok_ret].
Qed.
Lemma mtok_true w req s s1 : w <> [] -> lok s -> mtok w req s = ROk true s1 -> (len s1 < len s)%nat /\ lok s1.
Proof.
  intros Hw H E. unfold mtok, bind, on_str in E. destruct (a_match_tok_mono w (str s)) as (A & B & C).
  destruct (a_match_tok w (str s)) as [b t]. cbn [fst snd] in *. destruct b.
  - specialize (C eq_refl Hw). unfold skipws, on_str in E. cbn [str acc] in E. inversion E; subst.
    destruct (a_skipws_mono t) as [D F]. unfold len, lok in *. cbn [str rest aline]. split; lia.
  - unfold require in E. destruct (negb req); [inversion E | discriminate].
Qed.

Lemma ok_m_int s : lok s -> ok s (m_int s).
Proof.
  intros H. unfold m_int, m_int_raw. apply ok_bind.
  - apply ok_bind.
    + destruct (a_match_int_mono false (str s)) as [A B]. apply ok_on_str; assumption.
    + intros r s1 _ _ H1. destruct r; [apply ok_bind; [now apply ok_require | intros; now apply ok_ret] | now apply ok_fail].
  - intros v s1 _ _ H1. apply ok_bind; [now apply ok_skipws | intros; now apply ok_ret].
Qed.

Lemma lower_nz c : is_lower c = true -> c <> 0.
Proof. unfold is_lower. lia. Qed.

(* matchId consumes at least its first character *)
Lemma oks_m_id s : lok s -> oks s (m_id s).
Proof.
  intros H. unfold m_id. destruct (Z.eq_dec (a_peek (str s)) 0) as [E0|N0].
  - (* at the end of the input get() returns 0 and the <id> check fails: a real error *)
    unfold bind. pose proof (ok_get s H) as Hg. destruct (get s) as [c s1|l c] eqn:Eg; [|exact Hg].
    pose proof (get_inv s c s1 Eg E0) as ->. destruct Hg as [G1 G2].
    pose proof (ok_peek false s1 G2) as Hp. destruct (peek false s1) as [n s2|l c]; [|exact Hp]. destruct Hp as [P1 P2].
    unfold require. change (is_lower 0) with false. exact P2.
  - apply oks_bind_l; [now apply oks_get|]. intros c s1 _ L1 H1.
    apply ok_bind; [now apply ok_peek|]. intros n s2 _ _ H2.
    apply ok_bind; [now apply ok_require|]. intros _ s3 _ _ H3.
    apply ok_bind; [now apply ok_require|]. intros _ s4 _ _ H4.
    destruct ((c =? 120) && (is_digit n || (n =? 95))).
    + apply ok_bind; [destruct (n =? 95); [now apply ok_get | now apply ok_ret]|]. intros _ s5 _ _ H5.
      apply ok_bind; [now apply ok_m_int|]. intros i s6 _ _ H6.
      apply ok_bind; [now apply ok_require | intros; now apply ok_ret].
    + apply ok_bind; [now apply ok_skipws | intros; now apply ok_ret].
Qed.

Lemma oks_m_lit s : lok s -> oks s (m_lit s).
Proof.
  intros H. unfold m_lit. apply oks_bind_r.
  - destruct (a_match_tok_mono t_not (str s)) as (A & B & _). apply ok_on_str; [exact H | exact A | lia].
  - intros b s1 _ _ H1. apply oks_bind_r.
    + destruct b; [|now apply ok_ret]. apply ok_bind; [now apply ok_peek|]. intros n s2 _ _ H2.
      apply ok_bind; [now apply ok_require | intros; now apply ok_skipws].
    + intros _ s2 _ _ H2. apply oks_bind_l; [now apply oks_m_id | intros; now apply ok_ret].
Qed.

(* ---------- loops ---------- *)
Lemma ok_atoms_loop seps fuel : forall s, lok s -> (len s < fuel)%nat -> ok s (m_atoms_loop fuel seps s).
Proof.
  induction fuel as [|f IH]; intros s H Hf; [lia|]. cbn [m_atoms_loop].
  apply oks_ok. apply oks_bind_l; [now apply oks_m_lit|]. intros x s1 _ L1 H1.
  apply ok_bind; [now apply ok_require|]. intros u s2 E2 _ H2. destruct u. apply require_inv in E2. destruct E2 as [_ ->].
  apply ok_bind; [now apply ok_peek|]. intros c s3 E3 L3 H3.
  destruct (negb (c =? 0) && mem c seps); [|now apply ok_ret].
  apply ok_bind; [now apply ok_get|]. intros _ s4 _ L4 H4.
  apply ok_bind; [now apply ok_skipws|]. intros _ s5 _ L5 H5.
  apply ok_bind; [apply IH; [exact H5 | lia] | intros; now apply ok_ret].
Qed.
Lemma ok_m_atoms seps s : lok s -> ok s (m_atoms seps s).
Proof.
  intros H. unfold m_atoms. apply ok_bind; [now apply ok_peek|]. intros c s1 _ _ H1.
  destruct (is_lower c); [|now apply ok_ret]. apply ok_bind; [now apply ok_remaining|].
  intros n s2 E _ H2. apply remaining_inv in E. destruct E as [-> ->]. apply ok_atoms_loop; [exact H2 | lia].
Qed.

Lemma ok_lits_loop fuel : forall s, lok s -> (len s < fuel)%nat -> ok s (m_lits_loop fuel s).
Proof.
  induction fuel as [|f IH]; intros s H Hf; [lia|]. cbn [m_lits_loop].
  apply oks_ok. apply oks_bind_l; [now apply oks_m_lit|]. intros x s1 _ L1 H1.
  apply ok_bind; [now apply ok_mtok|]. intros b s2 _ L2 H2. destruct b; [|now apply ok_ret].
  apply ok_bind; [apply IH; [exact H2 | lia] | intros; now apply ok_ret].
Qed.
Lemma ok_m_lits s : lok s -> ok s (m_lits s).
Proof.
  intros H. unfold m_lits. apply ok_bind; [now apply ok_peek|]. intros c s1 _ _ H1.
  destruct (is_lower c); [|now apply ok_ret]. apply ok_bind; [now apply ok_remaining|].
  intros n s2 E _ H2. apply remaining_inv in E. destruct E as [-> ->]. apply ok_lits_loop; [exact H2 | lia].
Qed.
Lemma ok_m_cond s : lok s -> ok s (m_cond s).
Proof.
  intros H. unfold m_cond. apply ok_bind; [now apply ok_mtok|]. intros b s1 _ _ H1. destruct b; [now apply ok_m_lits | now apply ok_ret].
Qed.

Lemma ok_agg_loop fuel : forall s, lok s -> (len s < fuel)%nat -> ok s (m_agg_loop fuel s).
Proof.
  induction fuel as [|f IH]; intros s H Hf; [lia|]. cbn [m_agg_loop].
  apply oks_ok. apply oks_bind_l; [now apply oks_m_lit|]. intros x s1 _ L1 H1.
  apply ok_bind; [now apply ok_mtok|]. intros e s2 _ L2 H2.
  apply ok_bind; [destruct e; [now apply ok_m_int | now apply ok_ret]|]. intros w s3 _ L3 H3.
  apply ok_bind; [now apply ok_mtok|]. intros b s4 _ L4 H4. destruct b; [|now apply ok_ret].
  apply ok_bind; [apply IH; [exact H4 | lia] | intros; now apply ok_ret].
Qed.
Lemma ok_m_agg s : lok s -> ok s (m_agg s).
Proof.
  intros H. unfold m_agg. apply ok_bind; [now apply ok_mtok|]. intros _ s1 _ _ H1.
  apply ok_bind; [now apply ok_mtok|]. intros b s2 _ _ H2. destruct b; [now apply ok_ret|].
  apply ok_bind; [now apply ok_remaining|]. intros n s3 E _ H3. apply remaining_inv in E. destruct E as [-> ->].
  apply ok_bind; [apply ok_agg_loop; [exact H3 | lia]|]. intros r s4 _ _ H4.
  apply ok_bind; [now apply ok_mtok | intros; now apply ok_ret].
Qed.

(* the identifier loop is entered with a character to read *)
Lemma ok_ident_loop fuel : forall sym s, lok s -> (len s < fuel)%nat -> a_peek (str s) <> 0 -> ok s (m_ident_loop fuel sym s).
Proof.
  induction fuel as [|f IH]; intros sym s H Hf Hp; [lia|]. cbn [m_ident_loop].
  apply oks_ok. apply oks_bind_l; [now apply oks_get|]. intros c s1 _ L1 H1.
  apply ok_bind; [now apply ok_peek|]. intros n s2 E2 L2 H2. destruct (peek_inv false s1 n s2 E2) as (En & _ & Es). specialize (Es eq_refl). subst s2.
  destruct (is_alnum n || (n =? 95)) eqn:En2; [|now apply ok_ret].
  apply IH; [exact H2 | lia |]. rewrite <- En. intro E0. rewrite E0 in En2. discriminate En2.
Qed.

Lemma ok_str_loop fuel : forall q sym s, lok s -> (len s < fuel)%nat -> ok s (m_str_loop fuel q sym s).
Proof.
  induction fuel as [|f IH]; intros q sym s H Hf; [lia|]. cbn [m_str_loop].
  apply ok_bind; [now apply ok_peek|]. intros c s1 E1 L1 H1. destruct (peek_inv false s c s1 E1) as (Ec & _ & Es). specialize (Es eq_refl). subst s1.
  destruct (negb (c =? 0) && (negb (c =? 34) || q)) eqn:Eb; [|now apply ok_ret].
  assert (Hc : a_peek (str s) <> 0) by (rewrite <- Ec; intro E0; rewrite E0 in Eb; discriminate Eb).
  apply oks_ok. apply oks_bind_l; [now apply oks_get|]. intros g s2 _ L2 H2. apply IH; [exact H2 | lia].
Qed.
Lemma ok_m_str sym s : lok s -> ok s (m_str sym s).
Proof.
  intros H. unfold m_str. apply ok_bind.
  - destruct (a_match_tok_mono t_quote (str s)) as (A & B & _). apply ok_on_str; [exact H | exact A | lia].
  - intros b s1 _ _ H1. apply ok_bind; [now apply ok_require|]. intros _ s2 _ _ H2.
    apply ok_bind; [now apply ok_remaining|]. intros n s3 E _ H3. apply remaining_inv in E. destruct E as [-> ->].
    apply ok_bind; [apply ok_str_loop; [exact H3 | lia]|]. intros r s4 _ _ H4.
    apply ok_bind; [now apply ok_mtok | intros; now apply ok_ret].
Qed.
(* a string starts with its quote: entered at a quote, matchStr consumes *)
Lemma oks_m_str sym s : lok s -> a_peek (str s) = 34 -> oks s (m_str sym s).
Proof.
  intros H Hq. unfold m_str. unfold bind at 1. unfold on_str.
  assert (E : a_match_tok t_quote (str s) = (true, amk (tl (rest (str s))) (aline (str s)))).
  { unfold a_match_tok, a_peek in *. change t_quote with [34]. destruct (rest (str s)) as [|c r]; [discriminate|]. subst c. reflexivity. }
  rewrite E. assert (Hl : (len (mkR (amk (tl (rest (str s))) (aline (str s))) (acc s)) < len s)%nat).
  { unfold len, a_peek in *. cbn [str rest]. destruct (rest (str s)); [discriminate | simpl; lia]. }
  set (s1 := mkR (amk (tl (rest (str s))) (aline (str s))) (acc s)) in *.
  assert (H1 : lok s1) by exact H.
  assert (G : ok s1 ((require true ;;; n <- remaining ;; r <- m_str_loop n false (sym ++ [34]) ;; mtok t_quote true ;;; ret (r ++ [34])) s1)).
  { apply ok_bind; [now apply ok_require|]. intros _ s2 _ _ H2.
    apply ok_bind; [now apply ok_remaining|]. intros n s3 E3 _ H3. apply remaining_inv in E3. destruct E3 as [-> ->].
    apply ok_bind; [apply ok_str_loop; [exact H3 | lia]|]. intros r s4 _ _ H4.
    apply ok_bind; [now apply ok_mtok | intros; now apply ok_ret]. }
  destruct ((require true ;;; n <- remaining ;; r <- m_str_loop n false (sym ++ [34]) ;; mtok t_quote true ;;; ret (r ++ [34])) s1) as [a s5|l c]; simpl in *; [destruct G; split; [lia | assumption] | exact G].
Qed.

Lemma ok_arg_loop fuel : forall p sym s, lok s -> (len s < fuel)%nat -> ok s (m_arg_loop fuel p sym s).
Proof.
  induction fuel as [|f IH]; intros p sym s H Hf; [lia|]. cbn [m_arg_loop].
  apply ok_bind; [now apply ok_peek|]. intros c s1 E1 L1 H1. destruct (peek_inv false s c s1 E1) as (Ec & _ & Es). specialize (Es eq_refl). subst s1.
  destruct (Z.eqb_spec c 0) as [E0|N0]; [now apply ok_ret|].
  destruct (Z.eqb_spec c 34) as [E34|N34].
  - apply oks_ok. apply oks_bind_l; [apply oks_m_str; [exact H | congruence]|]. intros r s2 _ L2 H2. apply IH; [exact H2 | lia].
  - destruct ((c =? 41) && (p - 1 <? 0)); [now apply ok_ret|].
    destruct ((c =? 44) && ((if c =? 41 then p - 1 else p) =? 0)); [now apply ok_ret|].
    apply oks_ok. apply oks_bind_l; [apply oks_get; [exact H | congruence]|]. intros g s2 _ L2 H2.
    apply ok_bind; [now apply ok_skipws|]. intros _ s3 _ L3 H3. apply IH; [exact H3 | lia].
Qed.
Lemma ok_args_loop fuel : forall sym s, lok s -> (len s < fuel)%nat -> ok s (m_args_loop fuel sym s).
Proof.
  induction fuel as [|f IH]; intros sym s H Hf; [lia|]. cbn [m_args_loop].
  apply ok_bind; [now apply ok_remaining|]. intros n s1 E _ H1. apply remaining_inv in E. destruct E as [-> ->].
  apply ok_bind; [apply ok_arg_loop; [exact H1 | lia]|]. intros r s2 _ L2 H2.
  unfold bind. pose proof (ok_mtok t_comma false s2 H2) as Hm. destruct (mtok t_comma false s2) as [b s3|l c] eqn:Em; [|exact Hm].
  destruct b; [|exact Hm].
  destruct (mtok_true t_comma false s2 s3 ltac:(discriminate) H2 Em) as [L3 H3].
  pose proof (IH (r ++ [44]) s3 H3 ltac:(lia)) as G. destruct (m_args_loop f (r ++ [44]) s3); simpl in *; [destruct G; split; [lia | assumption] | exact G].
Qed.

Lemma ok_m_term s : lok s -> ok s (m_term s).
Proof.
  intros H. unfold m_term. apply ok_bind; [now apply ok_peek|]. intros c s1 E1 _ H1. destruct (peek_inv false s c s1 E1) as (Ec & _ & Es). specialize (Es eq_refl). subst s1.
  apply ok_bind.
  - destruct (is_lower c || (c =? 95)) eqn:El.
    + apply ok_bind; [now apply ok_remaining|]. intros n s2 E _ H2. apply remaining_inv in E. destruct E as [-> ->].
      apply ok_bind.
      * apply ok_ident_loop; [exact H2 | lia |]. rewrite <- Ec. intro E0. rewrite E0 in El. discriminate El.
      * intros s0 s3 _ _ H3. apply ok_bind; [now apply ok_skipws|]. intros _ s4 _ _ H4.
        apply ok_bind; [now apply ok_mtok|]. intros b s5 _ _ H5. destruct b; [|now apply ok_ret].
        apply ok_bind; [now apply ok_remaining|]. intros n2 s6 E _ H6. apply remaining_inv in E. destruct E as [-> ->].
        apply ok_bind; [apply ok_args_loop; [exact H6 | lia]|]. intros r s7 _ _ H7.
        apply ok_bind; [now apply ok_mtok | intros; now apply ok_ret].
    + destruct (c =? 34); [now apply ok_m_str | now apply ok_fail].
  - intros sym s2 _ _ H2. apply ok_bind; [now apply ok_skipws | intros; now apply ok_ret].
Qed.

Lemma ok_m_kw tab : forall s, lok s -> ok s (m_kw tab s).
Proof.
  induction tab as [|[v w] tab IH]; intros s H; [now apply ok_ret|]. cbn [m_kw].
  apply ok_bind; [now apply ok_mtok|]. intros b s1 _ _ H1. destruct b; [now apply ok_ret | now apply IH].
Qed.

Lemma ok_skip_line fuel : forall s, lok s -> (len s < fuel)%nat -> ok s (skip_line fuel s).
Proof.
  induction fuel as [|f IH]; intros s H Hf; [lia|]. cbn [skip_line].
  apply ok_bind; [now apply ok_peek|]. intros c s1 E1 _ H1. destruct (peek_inv false s c s1 E1) as (Ec & _ & Es). specialize (Es eq_refl). subst s1.
  destruct (Z.eqb_spec c 0) as [E0|N0]; [now apply ok_ret|].
  apply oks_ok. apply oks_bind_l; [apply oks_get; [exact H | congruence]|]. intros g s2 _ L2 H2.
  destruct (g =? 10); [now apply ok_ret | apply IH; [exact H2 | lia]].
Qed.
(* skipLine entered at a '%' consumes it *)
Lemma oks_m_skip_line s : lok s -> a_peek (str s) <> 0 -> oks s (m_skip_line s).
Proof.
  intros H Hp. unfold m_skip_line, bind, remaining. cbn [skip_line]. unfold bind.
  assert (Epk : peek false s = ROk (a_peek (str s)) s) by (unfold peek, on_str; destruct s as [[r l] a]; reflexivity).
  rewrite Epk.
  destruct (Z.eqb_spec (a_peek (str s)) 0); [contradiction|].
  pose proof (oks_get s H Hp) as Hg. destruct (get s) as [g s1|l c]; [|exact Hg]. destruct Hg as [L1 H1].
  destruct (g =? 10); [split; [exact L1 | exact H1]|].
  pose proof (ok_skip_line (length (rest (str s))) s1 H1 ltac:(unfold len in *; lia)) as G.
  destruct (skip_line (length (rest (str s))) s1); simpl in *; [destruct G; split; [lia | assumption] | exact G].
Qed.

(* ---------- statements ---------- *)
Lemma mtok_req w s b s1 : mtok w true s = ROk b s1 -> b = true.
Proof.
  unfold mtok, bind, on_str. destruct (a_match_tok w (str s)) as [x t]. destruct x.
  - unfold skipws, on_str. cbn. intros E. inversion E. reflexivity.
  - unfold require. cbn. discriminate.
Qed.
(* a required token at the end makes the whole thing consume *)
Lemma oks_mtok_req {B} w (k : bool -> M B) s : w <> [] -> lok s -> (forall s1, lok s1 -> ok s1 (k true s1)) -> oks s (bind (mtok w true) k s).
Proof.
  intros Hw H Hk. unfold bind. pose proof (ok_mtok w true s H) as Hm. destruct (mtok w true s) as [b s1|l c] eqn:E; [|exact Hm].
  pose proof (mtok_req w s b s1 E) as ->. destruct (mtok_true w true s s1 Hw H E) as [L1 H1].
  specialize (Hk s1 H1). destruct (k true s1); simpl in *; [destruct Hk; split; [lia | assumption] | exact Hk].
Qed.

Lemma oks_m_rule c s : lok s -> oks s (m_rule c s).
Proof.
  intros H. unfold m_rule. apply oks_bind_r.
  - destruct (c =? 123).
    + apply ok_bind; [now apply ok_mtok|]. intros _ s1 _ _ H1. apply ok_bind; [now apply ok_m_atoms|]. intros h s2 _ _ H2.
      apply ok_bind; [now apply ok_mtok | intros; now apply ok_ret].
    + apply ok_bind; [now apply ok_m_atoms | intros; now apply ok_ret].
  - intros [ht h] s1 _ _ H1. apply oks_bind_r; [now apply ok_mtok|]. intros b s2 _ _ H2.
    apply oks_bind_r.
    + destruct b; [|now apply ok_ret]. apply ok_bind; [now apply ok_peek|]. intros c2 s3 _ _ H3.
      destruct (negb (is_digit c2) && negb (c2 =? 45)).
      * apply ok_bind; [now apply ok_m_lits | intros; now apply ok_ret].
      * apply ok_bind; [now apply ok_m_int|]. intros bd s4 _ _ H4. apply ok_bind; [now apply ok_m_agg|]. intros a s5 _ _ H5.
        apply ok_bind; [now apply ok_require | intros; now apply ok_ret].
    + intros r s3 _ _ H3. apply oks_mtok_req; [discriminate | exact H3 | intros; now apply ok_emit].
Qed.

(* b <- mtok kw false ;; if b then X else Y : consumes if X is harmless and Y consumes *)
Lemma oks_dispatch {B} kw (X Y : M B) s : kw <> [] -> lok s ->
  (forall s1, lok s1 -> ok s1 (X s1)) -> (forall s1, lok s1 -> oks s1 (Y s1)) ->
  oks s ((b <- mtok kw false ;; if b then X else Y) s).
Proof.
  intros Hk H HX HY. unfold bind. pose proof (ok_mtok kw false s H) as Hm. destruct (mtok kw false s) as [b s1|l c] eqn:E; [|exact Hm].
  destruct b.
  - destruct (mtok_true kw false s s1 Hk H E) as [L1 H1]. specialize (HX s1 H1). destruct (X s1); simpl in *; [destruct HX; split; [lia | assumption] | exact HX].
  - destruct Hm as [L1 H1]. specialize (HY s1 H1). destruct (Y s1); simpl in *; [destruct HY; split; [lia | assumption] | exact HY].
Qed.

Ltac okb L := apply ok_bind; [now apply L | intros ? ? _ _ ?].

Lemma oks_m_directive inc s : lok s -> oks s (m_directive inc s).
Proof.
  intros H. unfold m_directive.
  apply oks_dispatch; [discriminate | exact H | intros s1 H1 | intros s1 H1].
  { okb ok_m_agg. okb ok_mtok. apply ok_bind; [destruct a0; [now apply ok_m_int | now apply ok_ret] | intros ? ? _ _ ?].
    okb ok_mtok. apply ok_bind; [now apply ok_emit | intros; now apply ok_ret]. }
  apply oks_dispatch; [discriminate | exact H1 | intros s2 H2 | intros s2 H2].
  { okb ok_mtok. apply ok_bind; [destruct a; [okb ok_m_atoms; okb ok_mtok; now apply ok_ret | now apply ok_ret] | intros ? ? _ _ ?].
    okb ok_mtok. apply ok_bind; [now apply ok_emit | intros; now apply ok_ret]. }
  apply oks_dispatch; [discriminate | exact H2 | intros s3 H3 | intros s3 H3].
  { okb ok_m_term. okb ok_m_cond. okb ok_mtok. apply ok_bind; [now apply ok_emit | intros; now apply ok_ret]. }
  apply oks_dispatch; [discriminate | exact H3 | intros s4 H4 | intros s4 H4].
  { apply ok_bind; [apply oks_ok; now apply oks_m_id | intros ? ? _ _ ?]. okb ok_mtok. okb ok_mtok.
    apply ok_bind.
    - destruct a1; [|now apply ok_ret]. okb ok_m_kw.
      apply ok_bind; [destruct a1; [now apply ok_ret | okb ok_mtok; now apply ok_ret] | intros ? ? _ _ ?]. okb ok_mtok. now apply ok_ret.
    - intros ? ? _ _ ?. apply ok_bind; [now apply ok_emit | intros; now apply ok_ret]. }
  apply oks_dispatch; [discriminate | exact H4 | intros s5 H5 | intros s5 H5].
  { okb ok_mtok. apply ok_bind; [destruct a; [okb ok_m_lits; okb ok_mtok; now apply ok_ret | now apply ok_ret] | intros ? ? _ _ ?].
    okb ok_mtok. apply ok_bind; [now apply ok_emit | intros; now apply ok_ret]. }
  apply oks_dispatch; [discriminate | exact H5 | intros s6 H6 | intros s6 H6].
  { apply ok_bind; [apply oks_ok; now apply oks_m_id | intros ? ? _ _ ?]. okb ok_m_cond. okb ok_mtok. okb ok_mtok. okb ok_m_int. okb ok_mtok.
    apply ok_bind; [destruct a4; [okb ok_m_int; okb ok_require; now apply ok_ret | now apply ok_ret] | intros ? ? _ _ ?].
    okb ok_mtok. okb ok_m_kw. match goal with |- ok _ (match ?k with Some _ => _ | None => _ end _) => destruct k; [|now apply ok_fail] end. okb ok_skipws. okb ok_mtok.
    apply ok_bind; [now apply ok_emit | intros; now apply ok_ret]. }
  apply oks_dispatch; [discriminate | exact H6 | intros s7 H7 | intros s7 H7].
  { okb ok_mtok. okb ok_m_int. okb ok_mtok. okb ok_m_int. okb ok_mtok. okb ok_m_cond. okb ok_mtok.
    apply ok_bind; [now apply ok_emit | intros; now apply ok_ret]. }
  apply oks_dispatch; [discriminate | exact H7 | intros s8 H8 | intros s8 H8].
  { okb ok_require. okb ok_mtok. now apply ok_ret. }
  apply oks_dispatch; [discriminate | exact H8 | intros s9 H9 | intros s9 H9].
  { okb ok_mtok. now apply ok_ret. }
  exact H9.
Qed.

Lemma skipws_at_zero t : a_peek t = 0 -> a_skipws t = t.
Proof.
  destruct t as [l ln]. unfold a_peek, a_skipws. cbn [rest aline]. destruct l as [|c r]; [reflexivity|]. intros ->. reflexivity.
Qed.

Lemma ok_statements inc fuel : forall s, lok s -> (len s < fuel)%nat ->
  ok s (m_statements fuel inc s) /\
  (forall u s', m_statements fuel inc s = ROk u s' -> a_peek (str s') = 0 \/ (len s' < len s)%nat).
Proof.
  induction fuel as [|f IH]; intros s H Hf; [lia|].
  pose proof (ok_peek true s H) as Hp. destruct (peek true s) as [c s1|l cc] eqn:Ep.
  2: { cbn [m_statements]. unfold bind at 1. unfold bind at 2. rewrite Ep. split; [exact Hp | discriminate]. }
  assert (Eq : m_statements (S f) inc s =
               (if c =? 0 then ret tt
                else if c =? 46 then mtok t_dot true ;;; m_statements f inc
                else if c =? 35 then (b <- m_directive inc ;; if b then m_statements f inc else ret tt)
                else if c =? 37 then m_skip_line ;;; m_statements f inc
                else m_rule c ;;; m_statements f inc) s1).
  { cbn [m_statements]. unfold bind at 1. rewrite Ep. reflexivity. }
  rewrite Eq. clear Eq.
  destruct Hp as [L1 H1]. destruct (peek_inv true s c s1 Ep) as (Ec & _ & _).
  destruct (Z.eqb_spec c 0) as [E0|N0].
  { split; [split; assumption|]. intros u s' E. inversion E; subst. left. congruence. }
  assert (Hnz : a_peek (str s1) <> 0) by congruence.
  (* every other branch: something that consumes, then the loop again (or stop) *)
  assert (Hgen : forall (m : M bool), oks s1 (m s1) ->
            ok s ((b <- m ;; if b then m_statements f inc else ret tt) s1) /\
            (forall u s', (b <- m ;; if b then m_statements f inc else ret tt) s1 = ROk u s' -> a_peek (str s') = 0 \/ (len s' < len s)%nat)).
  { intros m Hm. unfold bind. destruct (m s1) as [b s2|l cc]; [|split; [exact Hm | discriminate]]. destruct Hm as [L2 H2].
    destruct b.
    - destruct (IH s2 H2 ltac:(lia)) as [A B]. split.
      + destruct (m_statements f inc s2); simpl in *; [destruct A; split; [lia | assumption] | exact A].
      + intros u s' E. destruct (B u s' E) as [Z0|Z1]; [now left | right; lia].
    - split; [split; [lia | exact H2]|]. intros u s' E. inversion E; subst. right. lia. }
  destruct (Z.eqb_spec c 46) as [E46|N46].
  { specialize (Hgen (fun s => match mtok t_dot true s with ROk _ s' => ROk true s' | RErr l c => RErr l c end)).
    assert (Hm : oks s1 (match mtok t_dot true s1 with ROk _ s' => ROk true s' | RErr l c => RErr l c end)).
    { pose proof (ok_mtok t_dot true s1 H1) as Hk. destruct (mtok t_dot true s1) as [b s2|l cc] eqn:E; [|exact Hk].
      pose proof (mtok_req _ _ _ _ E) as ->. exact (mtok_true t_dot true s1 s2 ltac:(discriminate) H1 E). }
    destruct (Hgen Hm) as [A B]. unfold bind in *. destruct (mtok t_dot true s1); [exact (conj A B) | exact (conj A B)]. }
  destruct (Z.eqb_spec c 35) as [E35|N35].
  { exact (Hgen (m_directive inc) (oks_m_directive inc s1 H1)). }
  destruct (Z.eqb_spec c 37) as [E37|N37].
  { specialize (Hgen (fun s => match m_skip_line s with ROk _ s' => ROk true s' | RErr l c => RErr l c end)).
    assert (Hm : oks s1 (match m_skip_line s1 with ROk _ s' => ROk true s' | RErr l c => RErr l c end)).
    { pose proof (oks_m_skip_line s1 H1 Hnz) as Hk. destruct (m_skip_line s1); exact Hk. }
    destruct (Hgen Hm) as [A B]. unfold bind in *. destruct (m_skip_line s1); [exact (conj A B) | exact (conj A B)]. }
  { specialize (Hgen (fun s => match m_rule c s with ROk _ s' => ROk true s' | RErr l c => RErr l c end)).
    assert (Hm : oks s1 (match m_rule c s1 with ROk _ s' => ROk true s' | RErr l c => RErr l c end)).
    { pose proof (oks_m_rule c s1 H1) as Hk. destruct (m_rule c s1); exact Hk. }
    destruct (Hgen Hm) as [A B]. unfold bind in *. destruct (m_rule c s1); [exact (conj A B) | exact (conj A B)]. }
Qed.

Lemma ok_steps inc fuel : forall s, lok s -> (len s < fuel)%nat -> ok s (m_steps fuel inc s).
Proof.
  induction fuel as [|f IH]; intros s H Hf; [lia|]. cbn [m_steps].
  apply ok_bind; [now apply ok_emit|]. intros u0 s1 E1 L1 H1.
  assert (Hs1 : str s1 = str s) by (unfold emit in E1; inversion E1; reflexivity).
  apply ok_bind; [now apply ok_remaining|]. intros n s2 E2 _ H2. apply remaining_inv in E2. destruct E2 as [-> ->].
  destruct (ok_statements inc (S (len s1)) s1 H1 ltac:(lia)) as [A B].
  unfold bind at 1. destruct (m_statements (S (len s1)) inc s1) as [u s3|l c] eqn:E3; [|exact A]. destruct A as [L3 H3].
  specialize (B u s3 eq_refl).
  (* emit CEnd; skipws; peek *)
  unfold bind at 1. unfold emit at 1. set (s4 := mkR (str s3) (CEnd :: acc s3)).
  assert (H4 : lok s4) by exact H3. assert (L4 : len s4 = len s3) by reflexivity.
  unfold bind at 1. pose proof (ok_skipws s4 H4) as Hk. destruct (skipws s4) as [u5 s5|l c] eqn:E5; [|exact Hk]. destruct Hk as [L5 H5].
  unfold bind at 1. pose proof (ok_peek true s5 H5) as Hp. destruct (peek true s5) as [c s6|l cc] eqn:E6; [|exact Hp]. destruct Hp as [L6 H6].
  destruct (peek_inv true s5 c s6 E6) as (Ec & _ & _).
  unfold bind at 1. unfold require. destruct ((c =? 0) || inc); [|exact H6].
  destruct (Z.eqb_spec c 0) as [E0|N0]; [split; [unfold len in *; lia | exact H6]|].
  destruct B as [Z0|Z1].
  - (* the statements ended at the end of the input: nothing can follow *)
    exfalso. apply N0. unfold skipws, on_str in E5. inversion E5; subst s5. unfold peek, on_str in E6. cbn [str acc] in E6. inversion E6; subst.
    cbn [str]. assert (Es : a_skipws (str s3) = str s3) by (apply skipws_at_zero; exact Z0). rewrite Es. rewrite Es. exact Z0.
  - pose proof (IH s6 H6 ltac:(unfold len in *; rewrite Hs1 in *; lia)) as G.
    destruct (m_steps f inc s6); simpl in *; [destruct G; split; [unfold len in *; lia | assumption] | exact G].
Qed.

Lemma ok_skip_comments fuel : forall s, lok s -> (len s < fuel)%nat -> ok s (m_skip_comments fuel s).
Proof.
  induction fuel as [|f IH]; intros s H Hf; [lia|]. cbn [m_skip_comments].
  apply ok_bind; [now apply ok_peek|]. intros c s1 E1 L1 H1. destruct (peek_inv true s c s1 E1) as (Ec & _ & _).
  destruct (Z.eqb_spec c 37) as [E37|N37]; [|now apply ok_ret].
  apply oks_ok. apply oks_bind_l; [apply oks_m_skip_line; [exact H1 | rewrite <- Ec, E37; discriminate]|].
  intros _ s2 _ L2 H2. apply IH; [exact H2 | lia].
Qed.

Lemma ok_program s : lok s -> ok s (m_program s).
Proof.
  intros H. unfold m_program. apply ok_bind; [now apply ok_peek|]. intros n s1 _ _ H1.
  destruct ((n =? 0) || is_lower n || mem n attach_chars); [|now apply ok_fail].
  apply ok_bind; [now apply ok_remaining|]. intros k s2 E _ H2. apply remaining_inv in E. destruct E as [-> ->].
  apply ok_bind; [apply ok_skip_comments; [exact H2 | lia]|]. intros _ s3 _ _ H3.
  apply ok_bind; [now apply ok_mtok|]. intros b s4 _ _ H4.
  apply ok_bind; [destruct b; [apply ok_bind; [now apply ok_mtok | intros; now apply ok_ret] | now apply ok_ret]|]. intros inc s5 _ _ H5.
  apply ok_bind; [now apply ok_emit|]. intros _ s6 _ _ H6.
  apply ok_bind; [now apply ok_remaining|]. intros k2 s7 E _ H7. apply remaining_inv in E. destruct E as [-> ->].
  apply ok_steps; [exact H7 | lia].
Qed.

(* no loop of the model ever runs out of fuel, on any input *)
Theorem no_fuel_exhaustion t : forall c, read_text t <> RErr (-1) c.
Proof.
  intros c E. pose proof (ok_program (mkR (a_init t) []) ltac:(unfold lok; simpl; lia)) as H.
  unfold read_text in E. rewrite E in H. simpl in H. lia.
Qed.
