(* C10 - statements of a step, steps, whole programs: the round trip. *)
Require Import V.Lib.Base V.Lib.Calls V.Lib.Dec V.C09.Spec V.Gen.Consts_C10 V.C10.Model V.C10.Grammar V.C10.ProofsStream V.C10.ProofsRead V.C10.ProofsStmt.
Local Open Scope Z_scope.

(* ---------- how a statement / filler / step text can start ---------- *)
Definition dir_kws : list (list Z) := [t_minimize; t_project; t_output; t_external; t_assume; t_heuristic; t_edge; t_step].
Definition start_ok (l : list Z) : Prop :=
  l = [] \/ is_lower (hd 0 l) = true \/ hd 0 l = 123 \/ hd 0 l = 58 \/ hd 0 l = 37 \/ hd 0 l = 46 \/
  exists kw l', In kw dir_kws /\ l = kw ++ l'.

Lemma start_okS l : start_ok l -> okS l.
Proof.
  unfold okS, nws. intros [->|[H|[H|[H|[H|[H|(kw & l' & Hk & ->)]]]]]].
  - split; [reflexivity | discriminate].
  - unfold is_lower, is_ws in *. lia.
  - rewrite H. split; [reflexivity | discriminate].
  - rewrite H. split; [reflexivity | discriminate].
  - rewrite H. split; [reflexivity | discriminate].
  - rewrite H. split; [reflexivity | discriminate].
  - cbn in Hk. destruct Hk as [<-|[<-|[<-|[<-|[<-|[<-|[<-|[<-|[]]]]]]]]]; split; (reflexivity || discriminate).
Qed.

Lemma start_kw kw w l : In kw dir_kws -> start_ok ((kw ++ w) ++ l).
Proof. intros H. right. right. right. right. right. right. exists kw, (w ++ l). split; [exact H | now rewrite app_assoc]. Qed.

Lemma head_start ht h th l : (ht = 0 \/ ht = 1) -> Forall atom_ok h -> G_head ht h th -> hd 0 l = 58 \/ (hd 0 l = 46 /\ (ht <> 0 \/ h <> [])) ->
  start_ok (th ++ l).
Proof.
  intros Hht HP HG Hl. unfold G_head in HG. destruct Hht as [-> | ->].
  - change (0 =? 0) with true in HG. cbv iota in HG. destruct h as [|x r].
    + simpl in HG. subst th. cbn [app]. destruct Hl as [E|[E [C|C]]]; try congruence. right. right. right. now left.
    + right. left. apply (atoms_hd t_disj_seps (x :: r)); [exact HP | exact HG | discriminate].
  - change (1 =? 0) with false in HG. cbv iota in HG. destruct HG as (t1 & t2 & t3 & G1 & _ & _ & ->).
    right. right. left. rewrite <- !app_assoc. now rewrite (tok_hd t_lbrace t1 _ G1) by discriminate.
Qed.

Lemma stmt_start c t l : stmt_ok c -> G_stmt c t -> start_ok (t ++ l).
Proof.
  intros Hc HG. destruct c as [ | | |ht head body|ht head bound body|prio lits|atoms|name0 cond|a v|lits|a hm bias prio cond|es et cond| | | | | | ]; simpl in Hc; try contradiction; cbn [G_stmt] in HG.
  - destruct Hc as (Hht & HPh & _). destruct HG as (th & tb & td & Gh & Gd & -> & Hb). rewrite <- !app_assoc.
    apply (head_start ht head th _ Hht HPh Gh). destruct Hb as [(_ & Hne & ->) | (ti & tl & Gi & _ & ->)].
    + right. cbn [app]. split; [now apply dot_hd | exact Hne].
    + left. rewrite <- !app_assoc. now rewrite (tok_hd t_if ti _ Gi) by discriminate.
  - destruct Hc as (Hht & HPh & _). destruct HG as (th & ti & tn & ta & td & Gh & Gi & _ & _ & _ & ->). rewrite <- !app_assoc.
    apply (head_start ht head th _ Hht HPh Gh). left. now rewrite (tok_hd t_if ti _ Gi) by discriminate.
  - destruct HG as (t0 & ta & tp & td & (w & _ & ->) & _ & _ & -> & _). rewrite <- !app_assoc, (app_assoc t_minimize). apply start_kw. cbn. auto.
  - destruct HG as (t0 & tb & td & (w & _ & ->) & _ & -> & _). rewrite <- !app_assoc, (app_assoc t_project). apply start_kw. cbn. auto.
  - destruct HG as (w0 & tt0 & tc & td & _ & _ & _ & _ & ->). rewrite <- !app_assoc, (app_assoc t_output). apply start_kw. cbn. auto.
  - destruct HG as (t0 & ta & td & tv & (w & _ & ->) & _ & _ & -> & _). rewrite <- !app_assoc, (app_assoc t_external). apply start_kw. cbn. auto.
  - destruct HG as (t0 & tb & td & (w & _ & ->) & _ & -> & _). rewrite <- !app_assoc, (app_assoc t_assume). apply start_kw. cbn. auto 10.
  - destruct HG as (t0 & ta & tc & td & t1 & tb & tp & t2 & name & t3 & t4 & (w & _ & ->) & _ & _ & _ & _ & _ & _ & _ & _ & _ & -> & _).
    rewrite <- !app_assoc, (app_assoc t_heuristic). apply start_kw. cbn. auto 10.
  - destruct HG as (t0 & t1 & tx & t2 & ty & t3 & tc & td & (w & _ & ->) & _ & _ & _ & _ & _ & _ & _ & ->).
    rewrite <- !app_assoc, (app_assoc t_edge). apply start_kw. cbn. auto 10.
Qed.

Lemma filler_start f l : G_filler f -> start_ok l -> start_ok (f ++ l).
Proof.
  intros Hf Hl. destruct Hf as [|body nl w r _ _ _ _ | t r Gt _].
  - exact Hl.
  - right. right. right. right. now left.
  - right. right. right. right. right. left. rewrite <- app_assoc. now apply dot_hd.
Qed.

Lemma stmts_start cs txt l : Forall stmt_ok cs -> G_stmts cs txt -> start_ok l -> start_ok (txt ++ l).
Proof.
  intros HP HG Hl. destruct HG as [f Hf | c cs' f t r Hf Ht Hr].
  - now apply filler_start.
  - rewrite <- app_assoc. apply filler_start; [exact Hf|]. rewrite <- app_assoc. apply (stmt_start c t _ (Forall_inv HP) Ht).
Qed.

Lemma dot_hd0 td : G_tok t_dot td -> hd 0 td = 46.
Proof. intros G. pose proof (dot_hd td [] G) as H. now rewrite app_nil_r in H. Qed.

(* ---------- one statement through the dispatcher ---------- *)
Lemma r_stmt inc c t : stmt_ok c -> G_stmt c t ->
  (hd 0 t = 35 /\ reads (m_directive inc) t true [norm_call c] okS) \/
  (hd 0 t <> 0 /\ hd 0 t <> 46 /\ hd 0 t <> 35 /\ hd 0 t <> 37 /\ reads (m_rule (hd 0 t)) t tt [norm_call c] okS).
Proof.
  intros Hc HG. pose proof (stmt_start c t [] Hc HG) as Hs. rewrite app_nil_r in Hs.
  destruct c as [ | | |ht head body|ht head bound body|prio lits|atoms|name0 cond|a v|lits|a hm bias prio cond|es et cond| | | | | | ]; simpl in Hc; try contradiction.
  1,2: right.
  3-9: left.
  - assert (Hh : hd 0 t <> 0 /\ hd 0 t <> 46 /\ hd 0 t <> 35 /\ hd 0 t <> 37).
    { cbn [G_stmt] in HG. destruct Hc as (Hht & HPh & _). destruct HG as (th & tb & td & Gh & Gd & -> & Hb).
      assert (Hx : hd 0 (tb ++ td) = 58 \/ (hd 0 (tb ++ td) = 46 /\ (ht <> 0 \/ head <> []))).
      { destruct Hb as [(_ & Hne & ->) | (ti & tl & Gi & _ & ->)]; [right; cbn [app]; split; [now apply dot_hd0 | exact Hne] | left; rewrite <- !app_assoc; now rewrite (tok_hd t_if ti _ Gi) by discriminate]. }
      unfold G_head in Gh. destruct Hht as [-> | ->].
      - change (0 =? 0) with true in Gh. cbv iota in Gh. destruct head as [|x r].
        + simpl in Gh. subst th. cbn [app]. destruct Hx as [E|[E [C|C]]]; try congruence. rewrite E. repeat split; discriminate.
        + pose proof (atoms_hd t_disj_seps (x :: r) th (tb ++ td) HPh Gh ltac:(discriminate)) as Hl. unfold is_lower in Hl. lia.
      - change (1 =? 0) with false in Gh. cbv iota in Gh. destruct Gh as (t1 & t2 & t3 & G1 & _ & _ & ->).
        rewrite <- !app_assoc. rewrite (tok_hd t_lbrace t1 _ G1) by discriminate. repeat split; discriminate. }
    destruct Hh as (A & B & C & D). repeat split; try assumption. now apply r_rule_n.
  - assert (Hh : hd 0 t <> 0 /\ hd 0 t <> 46 /\ hd 0 t <> 35 /\ hd 0 t <> 37).
    { cbn [G_stmt] in HG. destruct Hc as (Hht & HPh & _). destruct HG as (th & ti & tn & ta & td & Gh & Gi & _ & _ & _ & ->).
      unfold G_head in Gh. destruct Hht as [-> | ->].
      - change (0 =? 0) with true in Gh. cbv iota in Gh. destruct head as [|x r].
        + simpl in Gh. subst th. cbn [app]. rewrite (tok_hd t_if ti _ Gi) by discriminate. repeat split; discriminate.
        + pose proof (atoms_hd t_disj_seps (x :: r) th (ti ++ tn ++ ta ++ td) HPh Gh ltac:(discriminate)) as Hl. unfold is_lower in Hl. lia.
      - change (1 =? 0) with false in Gh. cbv iota in Gh. destruct Gh as (t1 & t2 & t3 & G1 & _ & _ & ->).
        rewrite <- !app_assoc. rewrite (tok_hd t_lbrace t1 _ G1) by discriminate. repeat split; discriminate. }
    destruct Hh as (A & B & C & D). repeat split; try assumption. now apply r_rule_w.
  - split; [|now apply r_min]. cbn [G_stmt] in HG. destruct HG as (t0 & ta & tp & td & (w & _ & ->) & _ & _ & -> & _). reflexivity.
  - split; [|now apply r_project]. cbn [G_stmt] in HG. destruct HG as (t0 & tb & td & (w & _ & ->) & _ & -> & _). reflexivity.
  - split; [|now apply r_output]. cbn [G_stmt] in HG. destruct HG as (w0 & tt0 & tc & td & _ & _ & _ & _ & ->). reflexivity.
  - split; [|now apply r_external]. cbn [G_stmt] in HG. destruct HG as (t0 & ta & td & tv & (w & _ & ->) & _ & _ & -> & _). reflexivity.
  - split; [|now apply r_assume]. cbn [G_stmt] in HG. destruct HG as (t0 & tb & td & (w & _ & ->) & _ & -> & _). reflexivity.
  - split; [|now apply r_heuristic]. cbn [G_stmt] in HG.
    destruct HG as (t0 & ta & tc & td & t1 & tb & tp & t2 & name & t3 & t4 & (w & _ & ->) & _ & _ & _ & _ & _ & _ & _ & _ & _ & -> & _). reflexivity.
  - split; [|now apply r_edge]. cbn [G_stmt] in HG.
    destruct HG as (t0 & t1 & tx & t2 & ty & t3 & tc & td & (w & _ & ->) & _ & _ & _ & _ & _ & _ & _ & ->). reflexivity.
Qed.

(* ---------- comment lines ---------- *)
Lemma get_nl nl l ln ac : (nl = [10] \/ (nl = [13] /\ hd 0 l <> 10) \/ nl = [13; 10]) ->
  exists ln', get (mkR (amk (nl ++ l) ln) ac) = ROk 10 (mkR (amk l ln') ac).
Proof.
  intros [-> | [[-> H] | ->]]; unfold get, on_str, a_get; cbn [app str acc rest aline].
  - change (10 =? 13) with false. change (10 =? 10) with true. eexists. reflexivity.
  - change (13 =? 13) with true. cbv iota. rewrite match10. destruct l as [|x r]; [eexists; reflexivity|].
    simpl in H. destruct (Z.eqb_spec x 10); [contradiction|]. eexists. reflexivity.
  - change (13 =? 13) with true. cbv iota. eexists. reflexivity.
Qed.

Lemma r_skip_line_loop body : forall nl fuel, no_nl body -> (length body < fuel)%nat ->
  forall l ln ac, (nl = [10] \/ (nl = [13] /\ hd 0 l <> 10) \/ nl = [13; 10]) ->
  exists ln', skip_line fuel (mkR (amk (body ++ nl ++ l) ln) ac) = ROk tt (mkR (amk l ln') ac).
Proof.
  induction body as [|c body IH]; intros nl fuel Hb Hf l ln ac Hnl; (destruct fuel as [|fu]; [simpl in Hf; lia|]); cbn [skip_line app]; unfold bind; rewrite peek_false.
  - assert (Hh : hd 0 (nl ++ l) <> 0) by (destruct Hnl as [-> | [[-> _] | ->]]; discriminate).
    destruct (Z.eqb_spec (hd 0 (nl ++ l)) 0); [contradiction|].
    destruct (get_nl nl l ln ac Hnl) as [ln1 E1]. rewrite E1. change (10 =? 10) with true. eexists. reflexivity.
  - inversion Hb as [|? ? (C10 & C13 & C0) Hb']; subst. cbn [hd]. destruct (Z.eqb_spec c 0); [contradiction|].
    destruct (get_plain c (body ++ nl ++ l) ln ac C13) as [ln1 E1]. rewrite E1. destruct (Z.eqb_spec c 10); [contradiction|].
    apply (IH nl fu Hb' ltac:(simpl in Hf; lia) l ln1 ac Hnl).
Qed.

Lemma r_comment body nl l ln ac : no_nl body -> (nl = [10] \/ (nl = [13] /\ hd 0 l <> 10) \/ nl = [13; 10]) ->
  exists ln', m_skip_line (mkR (amk ([37] ++ body ++ nl ++ l) ln) ac) = ROk tt (mkR (amk l ln') ac).
Proof.
  intros Hb Hnl. unfold m_skip_line, bind, remaining. cbn [str rest].
  apply (r_skip_line_loop (37 :: body) nl); [constructor; [repeat split; discriminate | exact Hb] | cbn [app length]; rewrite !app_length; lia | exact Hnl].
Qed.

(* m_statements starts by skipping white space: leading white space does not matter *)
Lemma stmts_ws inc f w X ln ac : wsl w -> nws X -> exists ln', m_statements (S f) inc (mkR (amk (w ++ X) ln) ac) = m_statements (S f) inc (mkR (amk X ln') ac).
Proof.
  intros Hw Hx. destruct (a_skipws_ws w X ln Hw Hx) as [ln' E]. exists ln'. cbn [m_statements]. unfold bind, peek, on_str. cbn [str acc].
  rewrite E. rewrite (a_skipws_nws X ln' Hx). reflexivity.
Qed.

Definition stmts_body (inc : bool) (f : nat) (c : Z) : M unit :=
  if c =? 0 then ret tt
  else if c =? 46 then mtok t_dot true ;;; m_statements f inc
  else if c =? 35 then (b <- m_directive inc ;; if b then m_statements f inc else ret tt)
  else if c =? 37 then m_skip_line ;;; m_statements f inc
  else m_rule c ;;; m_statements f inc.

Lemma stmts_unfold inc f X ln ac : nws X ->
  m_statements (S f) inc (mkR (amk X ln) ac) = stmts_body inc f (hd 0 X) (mkR (amk X ln) ac).
Proof. intros H. cbn [m_statements]. unfold bind at 1. rewrite peek_true_nws by exact H. reflexivity. Qed.

Section Statements.
Variable inc : bool.
Variable tend : list Z.
Variable okE : list Z -> Prop.
Hypothesis Hend : forall f tail ln ac, okE tail ->
  exists ln', m_statements (S f) inc (mkR (amk (tend ++ tail) ln) ac) = ROk tt (mkR (amk tail ln') ac).
Hypothesis Hstart_end : forall tail, okE tail -> start_ok (tend ++ tail).

(* running the statements reader on text X with n+1 fuel or more yields the calls eff and leaves tail *)
Definition runs (X tail : list Z) (n : nat) (eff : list call) : Prop :=
  forall fuel ln ac, (n < fuel)%nat -> exists ln', m_statements fuel inc (mkR (amk X ln) ac) = ROk tt (mkR (amk tail ln') (eff ++ ac)).

Lemma r_filler f : G_filler f -> forall X tail n eff, start_ok X -> runs X tail n eff -> runs (f ++ X) tail (length f + n) eff.
Proof.
  induction 1 as [|body nl w r Hb Hnl Hw Hr IH | t r Gt Hr IH]; intros X tail n eff HX Hrun.
  - exact Hrun.
  - intros fuel ln ac Hf. destruct fuel as [|fu]; [lia|].
    assert (Hlen : (length ([37%Z] ++ body ++ nl ++ w ++ r) >= 2 + length r)%nat).
    { rewrite !app_length. cbn [length]. destruct Hnl as [-> | [[-> _] | ->]]; simpl; lia. }
    rewrite stmts_unfold by reflexivity. rewrite <- !app_assoc. cbn [app hd]. unfold stmts_body.
    change (37 =? 0) with false. change (37 =? 46) with false. change (37 =? 35) with false. change (37 =? 37) with true. cbv iota.
    unfold bind.
    assert (Hnl' : nl = [10] \/ (nl = [13] /\ hd 0 (w ++ r ++ X) <> 10) \/ nl = [13; 10]).
    { destruct Hnl as [E | [[E H] | E]]; auto. right. left. split; [exact E|].
      destruct (w ++ r) as [|c q] eqn:Ewr.
      - apply app_eq_nil in Ewr. destruct Ewr as [-> ->]. cbn [app]. pose proof (start_okS X HX) as [Hn _]. unfold nws in Hn. intro E10. rewrite E10 in Hn. discriminate.
      - rewrite app_assoc, Ewr. exact H. }
    destruct (r_comment body nl (w ++ r ++ X) ln ac Hb Hnl') as [ln1 E1]. change (37 :: body ++ nl ++ w ++ r ++ X) with ([37] ++ body ++ nl ++ w ++ r ++ X). rewrite E1.
    destruct fu as [|fu']; [lia|].
    assert (Hnw : nws (r ++ X)) by (apply (proj1 (start_okS _ (filler_start r X Hr HX)))).
    destruct (stmts_ws inc fu' w (r ++ X) ln1 ac Hw Hnw) as [ln2 E2]. rewrite E2.
    apply (IH X tail n eff HX Hrun (S fu') ln2 ac). lia.
  - intros fuel ln ac Hf. destruct fuel as [|fu]; [lia|]. destruct Gt as (w & Hw & ->).
    rewrite <- !app_assoc. rewrite stmts_unfold by reflexivity. change (hd 0 (t_dot ++ w ++ r ++ X)) with 46. unfold stmts_body.
    change (46 =? 0) with false. change (46 =? 46) with true. cbv iota. unfold bind.
    assert (Hnw : nws (r ++ X)) by (apply (proj1 (start_okS _ (filler_start r X Hr HX)))).
    destruct (reads_tok t_dot w true Hw (r ++ X) ln ac Hnw) as [ln1 E1]. rewrite <- !app_assoc in E1. rewrite E1.
    destruct (IH X tail n eff HX Hrun fu ln1 ([] ++ ac)) as [ln2 E2]; [rewrite !app_length in Hf; change (length t_dot) with 1%nat in Hf; lia|].
    rewrite E2. eexists. reflexivity.
Qed.

Lemma r_statements cs txt : Forall stmt_ok cs -> G_stmts cs txt -> forall tail, okE tail ->
  runs (txt ++ tend ++ tail) tail (length txt) (rev (map norm_call cs)).
Proof.
  intros HP HG. induction HG as [f Hf | c cs f t r Hf Ht Hr IH]; intros tail Htail.
  - replace (length f) with (length f + 0)%nat by lia. apply r_filler; [exact Hf | now apply Hstart_end |].
    intros fuel ln ac Hfu. destruct fuel as [|fu]; [lia|]. apply Hend. exact Htail.
  - inversion HP as [|? ? Hc HPcs]; subst. rewrite <- !app_assoc.
    replace (length (f ++ t ++ r)) with (length f + (length t + length r))%nat by (rewrite !app_length; lia).
    assert (HXs : start_ok (r ++ tend ++ tail)) by (apply (stmts_start cs r _ HPcs Hr); now apply Hstart_end).
    apply r_filler; [exact Hf | apply (stmt_start c t _ Hc Ht) |].
    intros fuel ln ac Hfu. destruct fuel as [|fu]; [lia|].
    assert (Hnw : nws (t ++ r ++ tend ++ tail)) by (apply (proj1 (start_okS _ (stmt_start c t _ Hc Ht)))).
    rewrite stmts_unfold by exact Hnw.
    assert (Htne : exists x q, t = x :: q).
    { destruct t as [|x q]; [|eauto]. exfalso. destruct (r_stmt inc c [] Hc Ht) as [[E _] | (E & _)]; [discriminate E | apply E; reflexivity]. }
    destruct Htne as (x & q & Et).
    assert (Hhd : hd 0 (t ++ r ++ tend ++ tail) = hd 0 t) by (rewrite Et; reflexivity).
    assert (Htl : (1 <= length t)%nat) by (rewrite Et; simpl; lia).
    rewrite Hhd. unfold stmts_body.
    destruct (r_stmt inc c t Hc Ht) as [[E35 Hd] | (N0 & N46 & N35 & N37 & Hrule)].
    + rewrite E35. change (35 =? 0) with false. change (35 =? 46) with false. change (35 =? 35) with true. cbv iota. unfold bind.
      destruct (Hd (r ++ tend ++ tail) ln ac (start_okS _ HXs)) as [ln1 E1]. rewrite E1.
      destruct (IH HPcs tail Htail fu ln1 ([norm_call c] ++ ac) ltac:(lia)) as [ln2 E2]. rewrite E2.
      eexists. f_equal. f_equal. cbn [map rev]. rewrite <- app_assoc. reflexivity.
    + destruct (Z.eqb_spec (hd 0 t) 0); [contradiction|]. destruct (Z.eqb_spec (hd 0 t) 46); [contradiction|].
      destruct (Z.eqb_spec (hd 0 t) 35); [contradiction|]. destruct (Z.eqb_spec (hd 0 t) 37); [contradiction|]. unfold bind.
      destruct (Hrule (r ++ tend ++ tail) ln ac (start_okS _ HXs)) as [ln1 E1]. rewrite E1.
      destruct (IH HPcs tail Htail fu ln1 ([norm_call c] ++ ac) ltac:(lia)) as [ln2 E2]. rewrite E2.
      eexists. f_equal. f_equal. cbn [map rev]. rewrite <- app_assoc. reflexivity.
Qed.
End Statements.

(* ---------- the two ways a step ends ---------- *)
Lemma end_eof inc f tail ln ac : tail = [] ->
  exists ln', m_statements (S f) inc (mkR (amk ([] ++ tail) ln) ac) = ROk tt (mkR (amk tail ln') ac).
Proof. intros ->. eexists. reflexivity. Qed.

Lemma end_step ts td f tail ln ac : G_tok t_step ts -> G_tok t_dot td -> nws tail ->
  exists ln', m_statements (S f) true (mkR (amk ((ts ++ td) ++ tail) ln) ac) = ROk tt (mkR (amk tail ln') ac).
Proof.
  intros (w1 & Hw1 & ->) Gd Ht. rewrite <- !app_assoc. rewrite stmts_unfold by reflexivity.
  change (hd 0 (t_step ++ w1 ++ td ++ tail)) with 35. unfold stmts_body.
  change (35 =? 0) with false. change (35 =? 46) with false. change (35 =? 35) with true. cbv iota. unfold bind at 1.
  assert (H : reads (m_directive true) (t_step ++ w1 ++ td) false [] nws).
  { unfold m_directive. eapply reads_eff.
    - eapply (reads_bind0 _ _ _ false _ _ _ _ nws); [apply (reads_tok_mism t_minimize t_step); reflexivity | cbv beta iota | intros ? _; cbv beta; rewrite <- ?app_assoc; eexists; reflexivity].
      eapply (reads_bind0 _ _ _ false _ _ _ _ nws); [apply (reads_tok_mism t_project t_step); reflexivity | cbv beta iota | intros ? _; cbv beta; rewrite <- ?app_assoc; eexists; reflexivity].
      eapply (reads_bind0 _ _ _ false _ _ _ _ nws); [apply (reads_tok_mism t_output t_step); reflexivity | cbv beta iota | intros ? _; cbv beta; rewrite <- ?app_assoc; eexists; reflexivity].
      eapply (reads_bind0 _ _ _ false _ _ _ _ nws); [apply (reads_tok_mism t_external t_step); reflexivity | cbv beta iota | intros ? _; cbv beta; rewrite <- ?app_assoc; eexists; reflexivity].
      eapply (reads_bind0 _ _ _ false _ _ _ _ nws); [apply (reads_tok_mism t_assume t_step); reflexivity | cbv beta iota | intros ? _; cbv beta; rewrite <- ?app_assoc; eexists; reflexivity].
      eapply (reads_bind0 _ _ _ false _ _ _ _ nws); [apply (reads_tok_mism t_heuristic t_step); reflexivity | cbv beta iota | intros ? _; cbv beta; rewrite <- ?app_assoc; eexists; reflexivity].
      eapply (reads_bind0 _ _ _ false _ _ _ _ nws); [apply (reads_tok_mism t_edge t_step); reflexivity | cbv beta iota | intros ? _; cbv beta; rewrite <- ?app_assoc; eexists; reflexivity].
      eapply (reads_bind _ _ (t_step ++ w1) _ _ _ _ _ _ nws); [apply (reads_tok t_step w1 false Hw1) | cbv beta iota | intros tail0 _; apply (tok_nws t_dot); [exact Gd | discriminate | reflexivity]].
      eapply (reads_bind0 _ _ _ tt _ _ _ _ nws); [apply (reads_require (fun _ => True)) | | intros; exact I].
      eapply reads_eq; [eapply (reads_bind _ _ td [] _ _ _ _ _ nws); [apply (r_tok _ _ true Gd) | apply reads_ret | intros tail0 Ht0; rewrite app_nil_l; exact Ht0] | now rewrite app_nil_r].
    - reflexivity. }
  destruct (H tail ln ac Ht) as [ln1 E1]. rewrite <- !app_assoc in E1. rewrite E1. eexists. reflexivity.
Qed.

(* ---------- steps ---------- *)
Definition step_calls (cs : list call) : list call := CBegin :: map norm_call cs ++ [CEnd].

Lemma rev_step_calls cs : rev (step_calls cs) = CEnd :: rev (map norm_call cs) ++ [CBegin].
Proof. unfold step_calls. cbn [rev]. rewrite rev_app_distr. reflexivity. Qed.

Lemma steps_start steps txt : Forall (Forall stmt_ok) steps -> G_steps steps txt -> start_ok txt.
Proof.
  intros HP HG. destruct steps as [|cs more]; [contradiction|]. inversion HP as [|? ? Hcs Hmore]; subst. cbn [G_steps] in HG. destruct more as [|cs2 more'].
  - pose proof (stmts_start cs txt [] Hcs HG (or_introl eq_refl)) as H. now rewrite app_nil_r in H.
  - destruct HG as (t1 & ts & td & t2 & G1 & (w & Hw & ->) & _ & _ & _ & ->).
    apply (stmts_start cs t1 _ Hcs G1). rewrite <- !app_assoc, (app_assoc t_step). apply start_kw. cbn. auto 10.
Qed.

Lemma start_nonzero l : start_ok l -> l <> [] -> hd 0 l <> 0.
Proof.
  intros [->|[H|[H|[H|[H|[H|(kw & l' & Hk & ->)]]]]]] Hne; try congruence; try (unfold is_lower in H; lia).
  cbn in Hk. destruct Hk as [<-|[<-|[<-|[<-|[<-|[<-|[<-|[<-|[]]]]]]]]]; discriminate.
Qed.

Lemma steps_len steps txt : G_steps steps txt -> (length steps <= S (length txt))%nat.
Proof.
  revert txt. induction steps as [|cs more IH]; intros txt HG; [contradiction|]. cbn [G_steps] in HG. destruct more as [|cs2 more'].
  - simpl. lia.
  - destruct HG as (t1 & ts & td & t2 & _ & (w & _ & ->) & _ & G2 & _ & ->). specialize (IH t2 G2).
    rewrite !app_length. change (length t_step) with 5%nat. cbn [length] in *. lia.
Qed.

Lemma r_steps inc steps : forall txt, Forall (Forall stmt_ok) steps -> G_steps steps txt -> (inc = true \/ length steps = 1%nat) ->
  forall fuel ln ac, (length steps <= fuel)%nat ->
  exists ln', m_steps fuel inc (mkR (amk txt ln) ac) = ROk tt (mkR (amk [] ln') (rev (flat_map step_calls steps) ++ ac)).
Proof.
  induction steps as [|cs more IH]; intros txt HP HG Hinc fuel ln ac Hf; [contradiction|].
  inversion HP as [|? ? Hcs Hmore]; subst. destruct fuel as [|fu]; [simpl in Hf; lia|].
  cbn [m_steps]. unfold bind, emit, remaining. cbn [str acc rest]. cbn [G_steps] in HG. destruct more as [|cs2 more'].
  - pose proof (r_statements inc [] (fun tail => tail = []) (end_eof inc) (fun tail E => or_introl E) cs txt Hcs HG [] eq_refl) as Hrun.
    rewrite !app_nil_r in Hrun. destruct (Hrun (S (length txt)) ln (CBegin :: ac) ltac:(lia)) as [ln1 E1]. rewrite E1.
    unfold skipws, on_str. cbn [str acc]. change (a_skipws (amk [] ln1)) with (amk [] ln1).
    unfold peek, on_str. cbn [str acc]. change (a_skipws (amk [] ln1)) with (amk [] ln1). cbn [a_peek rest].
    change (0 =? 0) with true. cbn [orb]. unfold require.
    eexists. unfold ret. f_equal. f_equal. cbn [flat_map]. rewrite app_nil_r, rev_step_calls. cbn [app]. rewrite <- app_assoc. reflexivity.
  - destruct HG as (t1 & ts & td & t2 & G1 & Gs & Gd & G2 & Hne & ->).
    assert (Hi : inc = true) by (destruct Hinc as [E|E]; [exact E | simpl in E; lia]). subst inc.
    pose proof (steps_start _ t2 Hmore G2) as Hst.
    assert (Hnw : nws t2) by (apply (proj1 (start_okS _ Hst))).
    pose proof (r_statements true (ts ++ td) nws (fun f tail ln ac => end_step ts td f tail ln ac Gs Gd)) as Hrs.
    assert (Hse : forall tail, nws tail -> start_ok ((ts ++ td) ++ tail)).
    { intros tail _. destruct Gs as (w & _ & ->). rewrite <- !app_assoc, (app_assoc t_step). apply start_kw. cbn. auto 10. }
    specialize (Hrs Hse cs t1 Hcs G1 t2 Hnw).
    destruct (Hrs (S (length (t1 ++ ts ++ td ++ t2))) ln (CBegin :: ac)) as [ln1 E1]; [rewrite !app_length; lia|].
    rewrite <- !app_assoc in E1. rewrite E1.
    unfold skipws, on_str. cbn [str acc]. rewrite (a_skipws_nws t2 ln1 Hnw).
    unfold peek, on_str. cbn [str acc]. rewrite (a_skipws_nws t2 ln1 Hnw).
    assert (Hc0 : a_peek (amk t2 ln1) <> 0).
    { pose proof (start_nonzero t2 Hst Hne) as H. destruct t2; [congruence | exact H]. }
    destruct (Z.eqb_spec (a_peek (amk t2 ln1)) 0); [contradiction|]. cbn [orb]. unfold require.
    destruct (IH t2 Hmore G2 (or_introl eq_refl) fu ln1 (CEnd :: rev (map norm_call cs) ++ CBegin :: ac) ltac:(simpl in Hf |- *; lia)) as [ln2 E2].
    exists ln2. rewrite E2. f_equal. f_equal. change (flat_map step_calls (cs :: cs2 :: more')) with (step_calls cs ++ flat_map step_calls (cs2 :: more')).
    rewrite rev_app_distr, rev_step_calls. rewrite <- !app_assoc. cbn [app]. rewrite <- app_assoc. reflexivity.
Qed.

(* ---------- leading comments and the whole program ---------- *)
Lemma r_comments tc : G_comments tc -> forall X, nws X -> hd 0 X <> 37 -> forall fuel ln ac, (length tc < fuel)%nat ->
  exists ln', m_skip_comments fuel (mkR (amk (tc ++ X) ln) ac) = ROk tt (mkR (amk X ln') ac).
Proof.
  induction 1 as [|body nl w r Hb Hnl Hw Hr IH]; intros X HX H37 fuel ln ac Hf; (destruct fuel as [|fu]; [lia|]); cbn [m_skip_comments]; unfold bind.
  - cbn [app]. rewrite peek_true_nws by exact HX. destruct (Z.eqb_spec (hd 0 X) 37); [contradiction|]. eexists. reflexivity.
  - rewrite <- !app_assoc. rewrite peek_true_nws by reflexivity. cbn [app hd]. change (37 =? 37) with true. cbv iota.
    assert (Hnl' : nl = [10] \/ (nl = [13] /\ hd 0 (w ++ r ++ X) <> 10) \/ nl = [13; 10]).
    { destruct Hnl as [E | [[E H] | E]]; auto. right. left. split; [exact E|].
      destruct (w ++ r) as [|c q] eqn:Ewr.
      - apply app_eq_nil in Ewr. destruct Ewr as [-> ->]. cbn [app]. unfold nws in HX. intro E10. rewrite E10 in HX. discriminate.
      - rewrite app_assoc, Ewr. exact H. }
    destruct (r_comment body nl (w ++ r ++ X) ln ac Hb Hnl') as [ln1 E1]. change (37 :: body ++ nl ++ w ++ r ++ X) with ([37] ++ body ++ nl ++ w ++ r ++ X). rewrite E1.
    assert (Hlen : (length r < fu)%nat).
    { rewrite !app_length in Hf. cbn [length] in Hf. lia. }
    assert (Hnw : nws (r ++ X)).
    { destruct Hr; [exact HX | reflexivity]. }
    destruct fu as [|fu']; [lia|]. cbn [m_skip_comments]. unfold bind, peek, on_str. cbn [str acc].
    destruct (a_skipws_ws w (r ++ X) ln1 Hw Hnw) as [ln2 E2]. rewrite E2.
    destruct (IH X HX H37 (S fu') ln2 ac ltac:(lia)) as [ln3 E3]. cbn [m_skip_comments] in E3. unfold bind, peek, on_str in E3. cbn [str acc] in E3.
    rewrite (a_skipws_nws (r ++ X) ln2 Hnw) in E3. rewrite E3. eexists. reflexivity.
Qed.

Lemma comments_start tc X : G_comments tc -> nws X -> nws (tc ++ X) /\ (tc <> [] -> hd 0 (tc ++ X) = 37).
Proof. intros H HX. destruct H; [split; [exact HX | congruence] | split; [reflexivity | reflexivity]]. Qed.

Lemma start_attach l : start_ok l -> ((hd 0 l =? 0) || is_lower (hd 0 l) || mem (hd 0 l) attach_chars) = true.
Proof.
  intros [->|[H|[H|[H|[H|[H|(kw & l' & Hk & ->)]]]]]]; try reflexivity; try (rewrite H; reflexivity).
  - rewrite H. now rewrite orb_true_r.
  - cbn in Hk. destruct Hk as [<-|[<-|[<-|[<-|[<-|[<-|[<-|[<-|[]]]]]]]]]; reflexivity.
Qed.

Lemma incremental_absent l ln ac : start_ok l -> hd 0 l <> 37 ->
  mtok t_incremental false (mkR (amk l ln) ac) = ROk false (mkR (amk l ln) ac).
Proof.
  intros Hs H37. assert (Hd : forall c, c <> 35 -> hd 0 l = c -> mtok t_incremental false (mkR (amk l ln) ac) = ROk false (mkR (amk l ln) ac)).
  { intros c Hc E. change t_incremental with (35 :: [105; 110; 99; 114; 101; 109; 101; 110; 116; 97; 108]). apply mtok_absent; [congruence | discriminate]. }
  destruct Hs as [->|[H|[H|[H|[H|[H|(kw & l' & Hk & ->)]]]]]].
  - reflexivity.
  - apply (Hd (hd 0 l)); [unfold is_lower in H; lia | reflexivity].
  - now apply (Hd 123).
  - now apply (Hd 58).
  - contradiction.
  - now apply (Hd 46).
  - assert (Hm : mism t_incremental kw = true) by (cbn in Hk; destruct Hk as [<-|[<-|[<-|[<-|[<-|[<-|[<-|[<-|[]]]]]]]]]; reflexivity).
    destruct (reads_tok_mism t_incremental kw Hm (kw ++ l') ln ac (ex_intro _ l' eq_refl)) as [ln' E]. cbn [app] in E.
    unfold mtok, bind, on_str in *. cbn [str acc] in *. unfold a_match_tok in *. cbn [rest aline] in *.
    rewrite (list_eqb_mism t_incremental kw l' Hm). reflexivity.
Qed.

Lemma program_calls_eq inc steps : program_calls inc steps = CInit inc :: flat_map step_calls steps.
Proof. reflexivity. Qed.

Theorem roundtrip inc steps txt : Forall (Forall stmt_ok) steps -> G_program inc steps txt ->
  observe (read_text txt) = 1 :: 0 :: enc_calls (program_calls inc steps).
Proof.
  intros HP (w0 & tc & ti & ts & Hw0 & Hc & Hs & -> & Hinc).
  pose proof (steps_start steps ts HP Hs) as Hst. pose proof (start_okS _ Hst) as [Hnws _].
  assert (Hti : nws (ti ++ ts) /\ hd 0 (ti ++ ts) <> 37 /\ ((hd 0 (ti ++ ts) =? 0) || is_lower (hd 0 (ti ++ ts)) || mem (hd 0 (ti ++ ts)) attach_chars) = true).
  { destruct inc.
    - destruct Hinc as (t1 & t2 & (w1 & _ & ->) & _ & ->). rewrite <- !app_assoc. repeat split; discriminate.
    - destruct Hinc as (-> & _ & H37). cbn [app]. repeat split; [exact Hnws | exact H37 | now apply start_attach]. }
  destruct Hti as (Tn & T37 & Tatt).
  destruct (comments_start tc (ti ++ ts) Hc Tn) as [Cn C37].
  assert (Hatt : ((hd 0 (tc ++ ti ++ ts) =? 0) || is_lower (hd 0 (tc ++ ti ++ ts)) || mem (hd 0 (tc ++ ti ++ ts)) attach_chars) = true).
  { destruct tc as [|c q]; [exact Tatt|]. rewrite (C37 ltac:(discriminate)). reflexivity. }
  unfold read_text, m_program, a_init. unfold bind at 1. unfold peek, on_str. cbn [str acc].
  destruct (a_skipws_ws w0 (tc ++ ti ++ ts) 1 Hw0 Cn) as [ln0 E0]. rewrite E0.
  assert (a_peek (amk (tc ++ ti ++ ts) ln0) = hd 0 (tc ++ ti ++ ts)) as -> by (destruct (tc ++ ti ++ ts); reflexivity).
  rewrite Hatt. unfold bind, remaining. cbn [str rest].
  destruct (r_comments tc Hc (ti ++ ts) Tn T37 (S (length (tc ++ ti ++ ts))) ln0 [] ltac:(rewrite app_length; lia)) as [ln1 E1]. rewrite E1.
  destruct inc.
  - destruct Hinc as (t1 & t2 & (w1 & Hw1 & ->) & (w2 & Hw2 & ->) & ->). rewrite <- !app_assoc.
    destruct (reads_tok t_incremental w1 false Hw1 (t_dot ++ w2 ++ ts) ln1 [] ltac:(reflexivity)) as [ln2 E2]. rewrite <- !app_assoc in E2. rewrite E2.
    change ([] ++ [] : list call) with (@nil call). destruct (reads_tok t_dot w2 true Hw2 ts ln2 [] Hnws) as [ln3 E3]. rewrite <- !app_assoc in E3. cbn [app] in E3. rewrite E3.
    unfold ret at 1. unfold emit at 1. cbn [str acc].
    destruct (r_steps true steps ts HP Hs (or_introl eq_refl) (S (length ts)) ln3 [CInit true] (steps_len steps ts Hs)) as [ln4 E4]. cbn [rest]. rewrite E4.
    unfold observe. cbn [acc]. rewrite rev_app_distr, rev_involutive. reflexivity.
  - destruct Hinc as (-> & H1 & H37). cbn [app]. rewrite (incremental_absent ts ln1 [] Hst H37).
    unfold ret at 1. unfold emit at 1. cbn [str acc].
    destruct (r_steps false steps ts HP Hs (or_intror H1) (S (length ts)) ln1 [CInit false] (steps_len steps ts Hs)) as [ln4 E4]. cbn [rest]. rewrite E4.
    unfold observe. cbn [acc]. rewrite rev_app_distr, rev_involutive. reflexivity.
Qed.
