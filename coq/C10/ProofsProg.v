(* C10 - statements of a step, steps, whole programs: the round trip. *)
Require Import V.Lib.Base V.Lib.Calls V.Lib.Dec V.C09.Spec V.Gen.Consts_C10 V.C10.Model V.C10.Grammar V.C10.ProofsStream V.C10.ProofsRead V.C10.ProofsStmt.
Local Open Scope Z_scope.

(* ---------- how a statement / filler / step text can start ---------- *)
Definition dir_kws : list (list Z) := [t_minimize; t_project; t_output; t_external; t_assume; t_heuristic; t_edge; t_step].
Definition start_ok (l : list Z) : Prop :=
  l = [] \/ is_lower (hd 0 l) = true \/ hd 0 l = 123 \/ hd 0 l = 58 \/ hd 0 l = 37 \/ hd 0 l = 46 \/
  exists kw l', In kw dir_kws /\ l = kw ++ l'.

Lemma start_okS l : start_ok l -> okS l.
Proof.
  unfold okS, nws. intros [->|[H|[H|[H|[H|[H|(kw & l' & Hk & ->)]]]]]].
  - split; [reflexivity | discriminate].
  - unfold is_lower, is_ws in *. lia.
  - rewrite H. split; [reflexivity | discriminate].
  - rewrite H. split; [reflexivity | discriminate].
  - rewrite H. split; [reflexivity | discriminate].
  - rewrite H. split; [reflexivity | discriminate].
  - cbn in Hk. destruct Hk as [<-|[<-|[<-|[<-|[<-|[<-|[<-|[<-|[]]]]]]]]]; split; (reflexivity || discriminate).
Qed.

Lemma start_kw kw w l : In kw dir_kws -> start_ok ((kw ++ w) ++ l).
Proof. intros H. right. right. right. right. right. right. exists kw, (w ++ l). split; [exact H | now rewrite app_assoc]. Qed.

Lemma head_start ht h th l : (ht = 0 \/ ht = 1) -> Forall atom_ok h -> G_head ht h th -> hd 0 l = 58 \/ (hd 0 l = 46 /\ (ht <> 0 \/ h <> [])) ->
  start_ok (th ++ l).
Proof.
  intros Hht HP HG Hl. unfold G_head in HG. destruct Hht as [-> | ->].
  - change (0 =? 0) with true in HG. cbv iota in HG. destruct h as [|x r].
    + simpl in HG. subst th. cbn [app]. destruct Hl as [E|[E [C|C]]]; try congruence. right. right. right. now left.
    + right. left. apply (atoms_hd t_disj_seps (x :: r)); [exact HP | exact HG | discriminate].
  - change (1 =? 0) with false in HG. cbv iota in HG. destruct HG as (t1 & t2 & t3 & G1 & _ & _ & ->).
    right. right. left. rewrite <- !app_assoc. now rewrite (tok_hd t_lbrace t1 _ G1) by discriminate.
Qed.

Lemma stmt_start c t l : stmt_ok c -> G_stmt c t -> start_ok (t ++ l).
Proof.
  intros Hc HG. destruct c as [ | | |ht head body|ht head bound body|prio lits|atoms|name0 cond|a v|lits|a hm bias prio cond|es et cond| | | | | | ]; simpl in Hc; try contradiction; cbn [G_stmt] in HG.
  - destruct Hc as (Hht & HPh & _). destruct HG as (th & tb & td & Gh & Gd & -> & Hb). rewrite <- !app_assoc.
    apply (head_start ht head th _ Hht HPh Gh). destruct Hb as [(_ & Hne & ->) | (ti & tl & Gi & _ & ->)].
    + right. cbn [app]. split; [now apply dot_hd | exact Hne].
    + left. rewrite <- !app_assoc. now rewrite (tok_hd t_if ti _ Gi) by discriminate.
  - destruct Hc as (Hht & HPh & _). destruct HG as (th & ti & tn & ta & td & Gh & Gi & _ & _ & _ & ->). rewrite <- !app_assoc.
    apply (head_start ht head th _ Hht HPh Gh). left. now rewrite (tok_hd t_if ti _ Gi) by discriminate.
  - destruct HG as (t0 & ta & tp & td & (w & _ & ->) & _ & _ & -> & _). rewrite <- !app_assoc, (app_assoc t_minimize). apply start_kw. cbn. auto.
  - destruct HG as (t0 & tb & td & (w & _ & ->) & _ & -> & _). rewrite <- !app_assoc, (app_assoc t_project). apply start_kw. cbn. auto.
  - destruct HG as (w0 & tt0 & tc & td & _ & _ & _ & _ & ->). rewrite <- !app_assoc, (app_assoc t_output). apply start_kw. cbn. auto.
  - destruct HG as (t0 & ta & td & tv & (w & _ & ->) & _ & _ & -> & _). rewrite <- !app_assoc, (app_assoc t_external). apply start_kw. cbn. auto.
  - destruct HG as (t0 & tb & td & (w & _ & ->) & _ & -> & _). rewrite <- !app_assoc, (app_assoc t_assume). apply start_kw. cbn. auto 10.
  - destruct HG as (t0 & ta & tc & td & t1 & tb & tp & t2 & name & t3 & t4 & (w & _ & ->) & _ & _ & _ & _ & _ & _ & _ & _ & _ & -> & _).
    rewrite <- !app_assoc, (app_assoc t_heuristic). apply start_kw. cbn. auto 10.
  - destruct HG as (t0 & t1 & tx & t2 & ty & t3 & tc & td & (w & _ & ->) & _ & _ & _ & _ & _ & _ & _ & ->).
    rewrite <- !app_assoc, (app_assoc t_edge). apply start_kw. cbn. auto 10.
Qed.

Lemma filler_start f l : G_filler f -> start_ok l -> start_ok (f ++ l).
Proof.
  intros Hf Hl. destruct Hf as [|body nl w r _ _ _ _ | t r Gt _].
  - exact Hl.
  - right. right. right. right. now left.
  - right. right. right. right. right. left. rewrite <- app_assoc. now apply dot_hd.
Qed.

Lemma stmts_start cs txt l : Forall stmt_ok cs -> G_stmts cs txt -> start_ok l -> start_ok (txt ++ l).
Proof.
  intros HP HG Hl. destruct HG as [f Hf | c cs' f t r Hf Ht Hr].
  - now apply filler_start.
  - rewrite <- app_assoc. apply filler_start; [exact Hf|]. rewrite <- app_assoc. apply (stmt_start c t _ (Forall_inv HP) Ht).
Qed.

Lemma dot_hd0 td : G_tok t_dot td -> hd 0 td = 46.
Proof. intros G. pose proof (dot_hd td [] G) as H. now rewrite app_nil_r in H. Qed.

(* ---------- one statement through the dispatcher ---------- *)
Lemma r_stmt inc c t : stmt_ok c -> G_stmt c t ->
  (hd 0 t = 35 /\ reads (m_directive inc) t true [norm_call c] okS) \/
  (hd 0 t <> 0 /\ hd 0 t <> 46 /\ hd 0 t <> 35 /\ hd 0 t <> 37 /\ reads (m_rule (hd 0 t)) t tt [norm_call c] okS).
Proof.
  intros Hc HG. pose proof (stmt_start c t [] Hc HG) as Hs. rewrite app_nil_r in Hs.
  destruct c as [ | | |ht head body|ht head bound body|prio lits|atoms|name0 cond|a v|lits|a hm bias prio cond|es et cond| | | | | | ]; simpl in Hc; try contradiction.
  1,2: right.
  3-9: left.
  - assert (Hh : hd 0 t <> 0 /\ hd 0 t <> 46 /\ hd 0 t <> 35 /\ hd 0 t <> 37).
    { cbn [G_stmt] in HG. destruct Hc as (Hht & HPh & _). destruct HG as (th & tb & td & Gh & Gd & -> & Hb).
      assert (Hx : hd 0 (tb ++ td) = 58 \/ (hd 0 (tb ++ td) = 46 /\ (ht <> 0 \/ head <> []))).
      { destruct Hb as [(_ & Hne & ->) | (ti & tl & Gi & _ & ->)]; [right; cbn [app]; split; [now apply dot_hd0 | exact Hne] | left; rewrite <- !app_assoc; now rewrite (tok_hd t_if ti _ Gi) by discriminate]. }
      unfold G_head in Gh. destruct Hht as [-> | ->].
      - change (0 =? 0) with true in Gh. cbv iota in Gh. destruct head as [|x r].
        + simpl in Gh. subst th. cbn [app]. destruct Hx as [E|[E [C|C]]]; try congruence. rewrite E. repeat split; discriminate.
        + pose proof (atoms_hd t_disj_seps (x :: r) th (tb ++ td) HPh Gh ltac:(discriminate)) as Hl. unfold is_lower in Hl. lia.
      - change (1 =? 0) with false in Gh. cbv iota in Gh. destruct Gh as (t1 & t2 & t3 & G1 & _ & _ & ->).
        rewrite <- !app_assoc. rewrite (tok_hd t_lbrace t1 _ G1) by discriminate. repeat split; discriminate. }
    destruct Hh as (A & B & C & D). repeat split; try assumption. now apply r_rule_n.
  - assert (Hh : hd 0 t <> 0 /\ hd 0 t <> 46 /\ hd 0 t <> 35 /\ hd 0 t <> 37).
    { cbn [G_stmt] in HG. destruct Hc as (Hht & HPh & _). destruct HG as (th & ti & tn & ta & td & Gh & Gi & _ & _ & _ & ->).
      unfold G_head in Gh. destruct Hht as [-> | ->].
      - change (0 =? 0) with true in Gh. cbv iota in Gh. destruct head as [|x r].
        + simpl in Gh. subst th. cbn [app]. rewrite (tok_hd t_if ti _ Gi) by discriminate. repeat split; discriminate.
        + pose proof (atoms_hd t_disj_seps (x :: r) th (ti ++ tn ++ ta ++ td) HPh Gh ltac:(discriminate)) as Hl. unfold is_lower in Hl. lia.
      - change (1 =? 0) with false in Gh. cbv iota in Gh. destruct Gh as (t1 & t2 & t3 & G1 & _ & _ & ->).
        rewrite <- !app_assoc. rewrite (tok_hd t_lbrace t1 _ G1) by discriminate. repeat split; discriminate. }
    destruct Hh as (A & B & C & D). repeat split; try assumption. now apply r_rule_w.
  - split; [|now apply r_min]. cbn [G_stmt] in HG. destruct HG as (t0 & ta & tp & td & (w & _ & ->) & _ & _ & -> & _). reflexivity.
  - split; [|now apply r_project]. cbn [G_stmt] in HG. destruct HG as (t0 & tb & td & (w & _ & ->) & _ & -> & _). reflexivity.
  - split; [|now apply r_output]. cbn [G_stmt] in HG. destruct HG as (w0 & tt0 & tc & td & _ & _ & _ & _ & ->). reflexivity.
  - split; [|now apply r_external]. cbn [G_stmt] in HG. destruct HG as (t0 & ta & td & tv & (w & _ & ->) & _ & _ & -> & _). reflexivity.
  - split; [|now apply r_assume]. cbn [G_stmt] in HG. destruct HG as (t0 & tb & td & (w & _ & ->) & _ & -> & _). reflexivity.
  - split; [|now apply r_heuristic]. cbn [G_stmt] in HG.
    destruct HG as (t0 & ta & tc & td & t1 & tb & tp & t2 & name & t3 & t4 & (w & _ & ->) & _ & _ & _ & _ & _ & _ & _ & _ & _ & -> & _). reflexivity.
  - split; [|now apply r_edge]. cbn [G_stmt] in HG.
    destruct HG as (t0 & t1 & tx & t2 & ty & t3 & tc & td & (w & _ & ->) & _ & _ & _ & _ & _ & _ & _ & ->). reflexivity.
Qed.

(* ---------- comment lines ---------- *)
Lemma get_nl nl l ln ac : (nl = [10] \/ (nl = [13] /\ hd 0 l <> 10) \/ nl = [13; 10]) ->
  exists ln', get (mkR (amk (nl ++ l) ln) ac) = ROk 10 (mkR (amk l ln') ac).
Proof.
  intros [-> | [[-> H] | ->]]; unfold get, on_str, a_get; cbn [app str acc rest aline].
  - change (10 =? 13) with false. change (10 =? 10) with true. eexists. reflexivity.
  - change (13 =? 13) with true. cbv iota. rewrite match10. destruct l as [|x r]; [eexists; reflexivity|].
    simpl in H. destruct (Z.eqb_spec x 10); [contradiction|]. eexists. reflexivity.
  - change (13 =? 13) with true. cbv iota. eexists. reflexivity.
Qed.

Lemma r_skip_line_loop body : forall nl fuel, no_nl body -> (length body < fuel)%nat ->
  forall l ln ac, (nl = [10] \/ (nl = [13] /\ hd 0 l <> 10) \/ nl = [13; 10]) ->
  exists ln', skip_line fuel (mkR (amk (body ++ nl ++ l) ln) ac) = ROk tt (mkR (amk l ln') ac).
Proof.
  induction body as [|c body IH]; intros nl fuel Hb Hf l ln ac Hnl; (destruct fuel as [|fu]; [simpl in Hf; lia|]); cbn [skip_line app]; unfold bind; rewrite peek_false.
  - assert (Hh : hd 0 (nl ++ l) <> 0) by (destruct Hnl as [-> | [[-> _] | ->]]; discriminate).
    destruct (Z.eqb_spec (hd 0 (nl ++ l)) 0); [contradiction|].
    destruct (get_nl nl l ln ac Hnl) as [ln1 E1]. rewrite E1. change (10 =? 10) with true. eexists. reflexivity.
  - inversion Hb as [|? ? (C10 & C13 & C0) Hb']; subst. cbn [hd]. destruct (Z.eqb_spec c 0); [contradiction|].
    destruct (get_plain c (body ++ nl ++ l) ln ac C13) as [ln1 E1]. rewrite E1. destruct (Z.eqb_spec c 10); [contradiction|].
    apply (IH nl fu Hb' ltac:(simpl in Hf; lia) l ln1 ac Hnl).
Qed.

Lemma r_comment body nl l ln ac : no_nl body -> (nl = [10] \/ (nl = [13] /\ hd 0 l <> 10) \/ nl = [13; 10]) ->
  exists ln', m_skip_line (mkR (amk ([37] ++ body ++ nl ++ l) ln) ac) = ROk tt (mkR (amk l ln') ac).
Proof.
  intros Hb Hnl. unfold m_skip_line, bind, remaining. cbn [str rest].
  apply (r_skip_line_loop (37 :: body) nl); [constructor; [repeat split; discriminate | exact Hb] | cbn [app length]; rewrite !app_length; lia | exact Hnl].
Qed.

(* m_statements starts by skipping white space: leading white space does not matter *)
Lemma stmts_ws inc f w X ln ac : wsl w -> nws X -> exists ln', m_statements (S f) inc (mkR (amk (w ++ X) ln) ac) = m_statements (S f) inc (mkR (amk X ln') ac).
Proof.
  intros Hw Hx. destruct (a_skipws_ws w X ln Hw Hx) as [ln' E]. exists ln'. cbn [m_statements]. unfold bind, peek, on_str. cbn [str acc].
  rewrite E. rewrite (a_skipws_nws X ln' Hx). reflexivity.
Qed.

Definition stmts_body (inc : bool) (f : nat) (c : Z) : M unit :=
  if c =? 0 then ret tt
  else if c =? 46 then mtok t_dot true ;;; m_statements f inc
  else if c =? 35 then (b <- m_directive inc ;; if b then m_statements f inc else ret tt)
  else if c =? 37 then m_skip_line ;;; m_statements f inc
  else m_rule c ;;; m_statements f inc.

Lemma stmts_unfold inc f X ln ac : nws X ->
  m_statements (S f) inc (mkR (amk X ln) ac) = stmts_body inc f (hd 0 X) (mkR (amk X ln) ac).
Proof. intros H. cbn [m_statements]. unfold bind at 1. rewrite peek_true_nws by exact H. reflexivity. Qed.

Section Statements.
Variable inc : bool.
Variable tend : list Z.
Variable okE : list Z -> Prop.
Hypothesis Hend : forall f tail ln ac, okE tail ->
  exists ln', m_statements (S f) inc (mkR (amk (tend ++ tail) ln) ac) = ROk tt (mkR (amk tail ln') ac).
Hypothesis Hstart_end : forall tail, okE tail -> start_ok (tend ++ tail).

(* running the statements reader on text X with n+1 fuel or more yields the calls eff and leaves tail *)
Definition runs (X tail : list Z) (n : nat) (eff : list call) : Prop :=
  forall fuel ln ac, (n < fuel)%nat -> exists ln', m_statements fuel inc (mkR (amk X ln) ac) = ROk tt (mkR (amk tail ln') (eff ++ ac)).

Lemma r_filler f : G_filler f -> forall X tail n eff, start_ok X -> runs X tail n eff -> runs (f ++ X) tail (length f + n) eff.
Proof.
  induction 1 as [|body nl w r Hb Hnl Hw Hr IH | t r Gt Hr IH]; intros X tail n eff HX Hrun.
  - exact Hrun.
  - intros fuel ln ac Hf. destruct fuel as [|fu]; [lia|].
    assert (Hlen : (length ([37%Z] ++ body ++ nl ++ w ++ r) >= 2 + length r)%nat).
    { rewrite !app_length. cbn [length]. destruct Hnl as [-> | [[-> _] | ->]]; simpl; lia. }
    rewrite stmts_unfold by reflexivity. rewrite <- !app_assoc. cbn [app hd]. unfold stmts_body.
    change (37 =? 0) with false. change (37 =? 46) with false. change (37 =? 35) with false. change (37 =? 37) with true. cbv iota.
    unfold bind.
    assert (Hnl' : nl = [10] \/ (nl = [13] /\ hd 0 (w ++ r ++ X) <> 10) \/ nl = [13; 10]).
    { destruct Hnl as [E | [[E H] | E]]; auto. right. left. split; [exact E|].
      destruct (w ++ r) as [|c q] eqn:Ewr.
      - apply app_eq_nil in Ewr. destruct Ewr as [-> ->]. cbn [app]. pose proof (start_okS X HX) as [Hn _]. unfold nws in Hn. intro E10. rewrite E10 in Hn. discriminate.
      - rewrite app_assoc, Ewr. exact H. }
    destruct (r_comment body nl (w ++ r ++ X) ln ac Hb Hnl') as [ln1 E1]. change (37 :: body ++ nl ++ w ++ r ++ X) with ([37] ++ body ++ nl ++ w ++ r ++ X). rewrite E1.
    destruct fu as [|fu']; [lia|].
    assert (Hnw : nws (r ++ X)) by (apply (proj1 (start_okS _ (filler_start r X Hr HX)))).
    destruct (stmts_ws inc fu' w (r ++ X) ln1 ac Hw Hnw) as [ln2 E2]. rewrite E2.
    apply (IH X tail n eff HX Hrun (S fu') ln2 ac). lia.
  - intros fuel ln ac Hf. destruct fuel as [|fu]; [lia|]. destruct Gt as (w & Hw & ->).
    rewrite <- !app_assoc. rewrite stmts_unfold by reflexivity. change (hd 0 (t_dot ++ w ++ r ++ X)) with 46. unfold stmts_body.
    change (46 =? 0) with false. change (46 =? 46) with true. cbv iota. unfold bind.
    assert (Hnw : nws (r ++ X)) by (apply (proj1 (start_okS _ (filler_start r X Hr HX)))).
    destruct (reads_tok t_dot w true Hw (r ++ X) ln ac Hnw) as [ln1 E1]. rewrite <- !app_assoc in E1. rewrite E1.
    destruct (IH X tail n eff HX Hrun fu ln1 ([] ++ ac)) as [ln2 E2]; [rewrite !app_length in Hf; change (length t_dot) with 1%nat in Hf; lia|].
    rewrite E2. eexists. reflexivity.
Qed.

Lemma r_statements cs txt : Forall stmt_ok cs -> G_stmts cs txt -> forall tail, okE tail ->
  runs (txt ++ tend ++ tail) tail (length txt) (rev (map norm_call cs)).
Proof.
  intros HP HG. induction HG as [f Hf | c cs f t r Hf Ht Hr IH]; intros tail Htail.
  - replace (length f) with (length f + 0)%nat by lia. apply r_filler; [exact Hf | now apply Hstart_end |].
    intros fuel ln ac Hfu. destruct fuel as [|fu]; [lia|]. apply Hend. exact Htail.
  - inversion HP as [|? ? Hc HPcs]; subst. rewrite <- !app_assoc.
    replace (length (f ++ t ++ r)) with (length f + (length t + length r))%nat by (rewrite !app_length; lia).
    assert (HXs : start_ok (r ++ tend ++ tail)) by (apply (stmts_start cs r _ HPcs Hr); now apply Hstart_end).
    apply r_filler; [exact Hf | apply (stmt_start c t _ Hc Ht) |].
    intros fuel ln ac Hfu. destruct fuel as [|fu]; [lia|].
    assert (Hnw : nws (t ++ r ++ tend ++ tail)) by (apply (proj1 (start_okS _ (stmt_start c t _ Hc Ht)))).
    rewrite stmts_unfold by exact Hnw.
    assert (Htne : exists x q, t = x :: q).
    { destruct t as [|x q]; [|eauto]. exfalso. destruct (r_stmt inc c [] Hc Ht) as [[E _] | (E & _)]; [discriminate E | apply E; reflexivity]. }
    destruct Htne as (x & q & Et).
    assert (Hhd : hd 0 (t ++ r ++ tend ++ tail) = hd 0 t) by (rewrite Et; reflexivity).
    assert (Htl : (1 <= length t)%nat) by (rewrite Et; simpl; lia).
    rewrite Hhd. unfold stmts_body.
    destruct (r_stmt inc c t Hc Ht) as [[E35 Hd] | (N0 & N46 & N35 & N37 & Hrule)].
    + rewrite E35. change (35 =? 0) with false. change (35 =? 46) with false. change (35 =? 35) with true. cbv iota. unfold bind.
      destruct (Hd (r ++ tend ++ tail) ln ac (start_okS _ HXs)) as [ln1 E1]. rewrite E1.
      destruct (IH HPcs tail Htail fu ln1 ([norm_call c] ++ ac) ltac:(lia)) as [ln2 E2]. rewrite E2.
      eexists. f_equal. f_equal. cbn [map rev]. rewrite <- app_assoc. reflexivity.
    + destruct (Z.eqb_spec (hd 0 t) 0); [contradiction|]. destruct (Z.eqb_spec (hd 0 t) 46); [contradiction|].
      destruct (Z.eqb_spec (hd 0 t) 35); [contradiction|]. destruct (Z.eqb_spec (hd 0 t) 37); [contradiction|]. unfold bind.
      destruct (Hrule (r ++ tend ++ tail) ln ac (start_okS _ HXs)) as [ln1 E1]. rewrite E1.
      destruct (IH HPcs tail Htail fu ln1 ([norm_call c] ++ ac) ltac:(lia)) as [ln2 E2]. rewrite E2.
      eexists. f_equal. f_equal. cbn [map rev]. rewrite <- app_assoc. reflexivity.
Qed.
End Statements.
