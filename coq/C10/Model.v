(* C10 - executable model of Potassco::AspifTextInput (src/aspif_text.cpp, as repaired) on top of the ABSTRACT input
   stream of C09/Spec.v (C09 proves BufferedStream refines it for every buffer size).  One Gallina function per C++
   member; loops carry fuel (the number of remaining input bytes + 1 always suffices).  The RuleBuilder the code fills
   is modelled by the values it delivers: head atoms / body literals in order, a weighted literal with weight 0 is
   dropped (RuleBuilder::addGoal), a literal without weight has weight 1.
   State: the stream and the calls delivered so far (newest first); an exception ends the run with the line number. *)
Require Import V.Lib.Base V.Lib.Calls V.C09.Spec V.Gen.Consts_C10.
Local Open Scope Z_scope.

Record rs := mkR { str : ast; acc : list call }.
Inductive rres (A : Type) := ROk (a : A) (s : rs) | RErr (line : Z) (calls : list call).
Arguments ROk {A} a s. Arguments RErr {A} line calls.
Definition M (A : Type) := rs -> rres A.
Definition ret {A} (a : A) : M A := fun s => ROk a s.
Definition bind {A B} (m : M A) (k : A -> M B) : M B :=
  fun s => match m s with ROk a s' => k a s' | RErr l c => RErr l c end.
Notation "x <- m ;; k" := (bind m (fun x => k)) (at level 61, m at next level, right associativity).
Notation "m ;;; k" := (bind m (fun _ => k)) (at level 61, right associativity).

Definition fail {A} : M A := fun s => RErr (aline (str s)) (acc s).
(* a loop of the MODEL ran out of fuel (never happens: C10/ProofsFuel.v); line numbers of real errors are >= 1 *)
Definition oof {A} : M A := fun s => RErr (-1) (acc s).
Definition require (b : bool) : M unit := fun s => if b then ROk tt s else RErr (aline (str s)) (acc s).
Definition emit (c : call) : M unit := fun s => ROk tt (mkR (str s) (c :: acc s)).
Definition on_str {A} (f : ast -> A * ast) : M A := fun s => let '(a, t) := f (str s) in ROk a (mkR t (acc s)).

Definition skipws : M unit := on_str (fun t => (tt, a_skipws t)).
Definition peek (skip : bool) : M Z := on_str (fun t => let t' := if skip then a_skipws t else t in (a_peek t', t')).
Definition get : M Z := on_str a_get.
Definition remaining : M nat := fun s => ROk (S (length (rest (str s)))) s.

(* bool AspifTextInput::match(const char* term, bool req): literal at the current position, then skipws() *)
Definition mtok (w : list Z) (req : bool) : M bool :=
  b <- on_str (a_match_tok w) ;;
  if b then skipws ;;; ret true else require (negb req) ;;; ret false.

Definition INT_MIN : Z := -2147483648.
Definition INT_MAX : Z := 2147483647.
Definition in_int (z : Z) : bool := (INT_MIN <=? z) && (z <=? INT_MAX).
(* ProgramReader::matchInt(): BufferedStream::match(int64&) (skips leading white space) and a range check *)
Definition m_int_raw : M Z :=
  r <- on_str (a_match_int false) ;;
  match r with
  | Some v => require (in_int v) ;;; ret v
  | None => fail
  end.
(* int AspifTextInput::matchInt() *)
Definition m_int : M Z := v <- m_int_raw ;; skipws ;;; ret v.

Definition is_lower (c : Z) : bool := (97 <=? c) && (c <=? 122).
Definition is_upper (c : Z) : bool := (65 <=? c) && (c <=? 90).
Definition is_alnum (c : Z) : bool := is_lower c || is_upper c || is_digit c.

(* Atom_t AspifTextInput::matchId() *)
Definition m_id : M Z :=
  c <- get ;; n <- peek false ;;
  require (is_lower c) ;;; require (negb (is_lower n)) ;;;
  if (c =? 120) && (is_digit n || (n =? 95)) then
    (if n =? 95 then get else ret 0) ;;; i <- m_int ;; require (0 <? i) ;;; ret i
  else skipws ;;; ret (c - 97 + 1).

(* Lit_t AspifTextInput::matchLit(): the keyword, then white space (any), then the atom *)
Definition m_lit : M Z :=
  b <- on_str (a_match_tok t_not) ;;
  (if b then n <- peek false ;; require (is_ws n) ;;; skipws else ret tt) ;;;
  a <- m_id ;; ret (if b then - a else a).

Definition mem (c : Z) (l : list Z) : bool := existsb (Z.eqb c) l.

(* void matchAtoms(const char* seps) - at end of input strchr finds the terminator but get() returns 0 *)
Fixpoint m_atoms_loop (fuel : nat) (seps : list Z) : M (list Z) :=
  match fuel with
  | O => oof
  | S f =>
      x <- m_lit ;; require (0 <? x) ;;;
      c <- peek false ;;
      if negb (c =? 0) && mem c seps then get ;;; skipws ;;; r <- m_atoms_loop f seps ;; ret (x :: r)
      else ret [x]
  end.
Definition m_atoms (seps : list Z) : M (list Z) :=
  c <- peek true ;; if is_lower c then (n <- remaining ;; m_atoms_loop n seps) else ret [].

Fixpoint m_lits_loop (fuel : nat) : M (list Z) :=
  match fuel with
  | O => oof
  | S f => x <- m_lit ;; b <- mtok t_comma false ;; if b then (r <- m_lits_loop f ;; ret (x :: r)) else ret [x]
  end.
Definition m_lits : M (list Z) :=
  c <- peek true ;; if is_lower c then (n <- remaining ;; m_lits_loop n) else ret [].
Definition m_cond : M (list Z) := b <- mtok t_colon false ;; if b then m_lits else ret [].

Fixpoint m_agg_loop (fuel : nat) : M (list (Z * Z)) :=
  match fuel with
  | O => oof
  | S f =>
      l <- m_lit ;; e <- mtok t_eq false ;; w <- (if e then m_int else ret 1) ;;
      b <- mtok t_comma false ;;
      if b then (r <- m_agg_loop f ;; ret ((l, w) :: r)) else ret [(l, w)]
  end.
(* RuleBuilder::addGoal(WeightLit_t) ignores weight 0 *)
Definition drop0 (l : list (Z * Z)) : list (Z * Z) := filter (fun x => negb (snd x =? 0)) l.
Definition m_agg : M (list (Z * Z)) :=
  mtok t_lbrace true ;;; b <- mtok t_rbrace false ;;
  if b then ret [] else (n <- remaining ;; r <- m_agg_loop n ;; mtok t_rbrace true ;;; ret (drop0 r)).

(* ---------- #output terms ---------- *)
Fixpoint m_ident_loop (fuel : nat) (sym : list Z) : M (list Z) :=
  match fuel with
  | O => oof
  | S f => c <- get ;; n <- peek false ;;
           if is_alnum n || (n =? 95) then m_ident_loop f (sym ++ [c]) else ret (sym ++ [c])
  end.
Fixpoint m_str_loop (fuel : nat) (quoted : bool) (sym : list Z) : M (list Z) :=
  match fuel with
  | O => oof
  | S f => c <- peek false ;;
           if negb (c =? 0) && (negb (c =? 34) || quoted) then
             g <- get ;; m_str_loop f (negb quoted && (c =? 92)) (sym ++ [g])
           else ret sym
  end.
(* void matchStr(): the opening quote is matched without skipping the white space that follows it *)
Definition m_str (sym : list Z) : M (list Z) :=
  b <- on_str (a_match_tok t_quote) ;; require b ;;;
  n <- remaining ;; s1 <- m_str_loop n false (sym ++ [34]) ;;
  mtok t_quote true ;;; ret (s1 ++ [34]).
Fixpoint m_arg_loop (fuel : nat) (p : Z) (sym : list Z) : M (list Z) :=
  match fuel with
  | O => oof
  | S f =>
      c <- peek false ;;
      if c =? 0 then ret sym
      else if c =? 34 then (s1 <- m_str sym ;; m_arg_loop f p s1)
      else if (c =? 41) && (p - 1 <? 0) then ret sym
      else
        let p1 := if c =? 41 then p - 1 else p in
        if (c =? 44) && (p1 =? 0) then ret sym
        else g <- get ;; skipws ;;; m_arg_loop f (p1 + (if c =? 40 then 1 else 0)) (sym ++ [g])
  end.
Fixpoint m_args_loop (fuel : nat) (sym : list Z) : M (list Z) :=
  match fuel with
  | O => oof
  | S f => n <- remaining ;; s1 <- m_arg_loop n 0 sym ;; b <- mtok t_comma false ;;
           if b then m_args_loop f (s1 ++ [44]) else ret s1
  end.
Definition m_term : M (list Z) :=
  c <- peek false ;;
  sym <- (if is_lower c || (c =? 95) then
            n <- remaining ;; s0 <- m_ident_loop n [] ;; skipws ;;;
            b <- mtok t_lpar false ;;
            if b then (n2 <- remaining ;; s1 <- m_args_loop n2 (s0 ++ [40]) ;; mtok t_rpar true ;;; ret (s1 ++ [41])) else ret s0
          else if c =? 34 then m_str []
          else fail) ;;
  skipws ;;; ret sym.

(* ---------- statements ---------- *)
(* void matchRule(char c) *)
Definition m_rule (c : Z) : M unit :=
  ht_head <- (if c =? 123 then mtok t_lbrace true ;;; h <- m_atoms t_choice_seps ;; mtok t_rbrace true ;;; ret (1, h)
              else h <- m_atoms t_disj_seps ;; ret (0, h)) ;;
  let '(ht, h) := ht_head in
  b <- mtok t_if false ;;
  r <- (if b then
          c2 <- peek true ;;
          if negb (is_digit c2) && negb (c2 =? 45) then (l <- m_lits ;; ret (CRule ht h l))
          else (bd <- m_int ;; a <- m_agg ;; require (forallb (fun x => 0 <=? snd x) a) ;;; ret (CWRule ht h bd a))
        else ret (CRule ht h [])) ;;
  mtok t_dot true ;;; emit r.

Fixpoint m_kw (tab : list (Z * list Z)) : M (option Z) :=
  match tab with
  | [] => ret None
  | (v, s) :: r => b <- mtok s false ;; if b then ret (Some v) else m_kw r
  end.

(* bool matchDirective(): false after #step *)
Definition m_directive (inc : bool) : M bool :=
  b <- mtok t_minimize false ;;
  if b then a <- m_agg ;; at_ <- mtok t_at false ;; p <- (if at_ then m_int else ret 0) ;; mtok t_dot true ;;; emit (CMin p a) ;;; ret true else
  b <- mtok t_project false ;;
  if b then o <- mtok t_lbrace false ;; a <- (if o then (a <- m_atoms t_comma ;; mtok t_rbrace true ;;; ret a) else ret []) ;;
            mtok t_dot true ;;; emit (CProject a) ;;; ret true else
  b <- mtok t_output false ;;
  if b then t <- m_term ;; c <- m_cond ;; mtok t_dot true ;;; emit (COutput t c) ;;; ret true else
  b <- mtok t_external false ;;
  if b then a <- m_id ;; mtok t_dot true ;;; o <- mtok t_lbrack false ;;
            v <- (if o then
                    (k <- m_kw ext_tab ;; v <- (match k with Some v => ret v | None => mtok t_false true ;;; ret ext_false end) ;;
                     mtok t_rbrack true ;;; ret v)
                  else ret ext_false) ;;
            emit (CExternal a v) ;;; ret true else
  b <- mtok t_assume false ;;
  if b then o <- mtok t_lbrace false ;; a <- (if o then (a <- m_lits ;; mtok t_rbrace true ;;; ret a) else ret []) ;;
            mtok t_dot true ;;; emit (CAssume a) ;;; ret true else
  b <- mtok t_heuristic false ;;
  if b then a <- m_id ;; c <- m_cond ;; mtok t_dot true ;;; mtok t_lbrack true ;;; v <- m_int ;;
            at_ <- mtok t_at false ;; p <- (if at_ then (p <- m_int ;; require (0 <=? p) ;;; ret p) else ret 0) ;;
            mtok t_comma true ;;; k <- m_kw heu_tab ;;
            match k with
            | Some h => skipws ;;; mtok t_rbrack true ;;; emit (CHeuristic a h v p c) ;;; ret true
            | None => fail
            end else
  b <- mtok t_edge false ;;
  if b then mtok t_lpar true ;;; x <- m_int ;; mtok t_comma true ;;; y <- m_int ;; mtok t_rpar true ;;;
            c <- m_cond ;; mtok t_dot true ;;; emit (CEdge x y c) ;;; ret true else
  b <- mtok t_step false ;;
  if b then require inc ;;; mtok t_dot true ;;; ret false else
  b <- mtok t_incremental false ;;
  if b then mtok t_dot true ;;; ret true else fail.

Fixpoint skip_line (fuel : nat) : M unit :=
  match fuel with
  | O => oof
  | S f => c <- peek false ;; if c =? 0 then ret tt else g <- get ;; if g =? 10 then ret tt else skip_line f
  end.
Definition m_skip_line : M unit := n <- remaining ;; skip_line n.

(* bool parseStatements() *)
Fixpoint m_statements (fuel : nat) (inc : bool) : M unit :=
  match fuel with
  | O => oof
  | S f =>
      c <- peek true ;;
      if c =? 0 then ret tt
      else if c =? 46 then mtok t_dot true ;;; m_statements f inc
      else if c =? 35 then (b <- m_directive inc ;; if b then m_statements f inc else ret tt)
      else if c =? 37 then m_skip_line ;;; m_statements f inc
      else m_rule c ;;; m_statements f inc
  end.

(* ProgramReader::parse(Complete): doParse() = beginStep; parseStatements; endStep *)
Fixpoint m_steps (fuel : nat) (inc : bool) : M unit :=
  match fuel with
  | O => oof
  | S f =>
      emit CBegin ;;; n <- remaining ;; m_statements n inc ;;; emit CEnd ;;; skipws ;;;
      c <- peek true ;; require ((c =? 0) || inc) ;;;
      if c =? 0 then ret tt else m_steps f inc
  end.

Fixpoint m_skip_comments (fuel : nat) : M unit :=
  match fuel with
  | O => oof
  | S f => c <- peek true ;; if c =? 37 then m_skip_line ;;; m_skip_comments f else ret tt
  end.

(* bool doAttach(bool& inc) and readProgram *)
Definition m_program : M unit :=
  n <- peek true ;;
  if (n =? 0) || is_lower n || mem n attach_chars then
    k <- remaining ;; m_skip_comments k ;;;
    b <- mtok t_incremental false ;;
    inc <- (if b then mtok t_dot true ;;; ret true else ret false) ;;
    emit (CInit inc) ;;; k2 <- remaining ;; m_steps k2 inc
  else fail.

Definition read_text (input : list Z) : rres unit := m_program (mkR (a_init input) []).

(* observation: status (1 accepted, 0 parse error), error line (0 if none), the calls delivered *)
Definition observe (r : rres unit) : list Z :=
  match r with
  | ROk _ s => 1 :: 0 :: enc_calls (rev (acc s))
  | RErr l c => 0 :: l :: enc_calls (rev c)
  end.

Definition run_case (c : list Z) : list Z :=
  match c with
  | n :: r => observe (read_text (firstn (Z.to_nat n) r))
  | [] => []
  end.
