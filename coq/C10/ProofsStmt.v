(* C10 - statements: rules and directives are read back as written. *)
Require Import V.Lib.Base V.Lib.Calls V.Lib.Dec V.C09.Spec V.Gen.Consts_C10 V.C10.Model V.C10.Grammar V.C10.ProofsStream V.C10.ProofsRead.
Local Open Scope Z_scope.

(* after a statement: not white space, and not '[' (which would be taken for the value of #external) *)
Definition okS (tail : list Z) : Prop := nws tail /\ hd 0 tail <> 91.

Lemma tok_hd t txt l : G_tok t txt -> t <> [] -> hd 0 (txt ++ l) = hd 0 t.
Proof. intros (w & _ & ->) Hne. destruct t; [congruence | reflexivity]. Qed.
Lemma tok_nws t txt l : G_tok t txt -> t <> [] -> is_ws (hd 0 t) = false -> nws (txt ++ l).
Proof. intros H Hne Hw. unfold nws. now rewrite (tok_hd t txt l H Hne). Qed.
Lemma tok_pun t txt l : G_tok t txt -> t <> [] -> pun t -> pun (txt ++ l).
Proof. intros H Hne Hp. unfold pun in *. now rewrite (tok_hd t txt l H Hne). Qed.

Lemma r_tok t txt req : G_tok t txt -> reads (mtok t req) txt true [] nws.
Proof. intros (w & Hw & ->). now apply reads_tok. Qed.

Lemma atoms_hd seps xs txt l : Forall atom_ok xs -> G_list0 G_atom (G_sep seps) xs txt -> xs <> [] ->
  is_lower (hd 0 (txt ++ l)) = true.
Proof.
  intros HP HG Hne. destruct xs as [|x r]; [congruence|]. cbn [G_list0] in HG.
  assert (Hx1 : 1 <= x) by (inversion HP; subst; unfold atom_ok in *; lia).
  destruct r as [|y r'].
  - destruct (atom_text_hd x txt HG Hx1) as (c & q & -> & Hc & _). exact Hc.
  - apply G_list1_cons in HG. destruct HG as (u1 & us & u2 & Hu & _ & _ & ->).
    destruct (atom_text_hd x u1 Hu Hx1) as (c & q & -> & Hc & _). exact Hc.
Qed.
Lemma lits_hd xs txt l : Forall lit_ok xs -> G_list0 G_lit (G_tok t_comma) xs txt -> xs <> [] ->
  is_lower (hd 0 (txt ++ l)) = true.
Proof.
  intros HP HG Hne. destruct xs as [|x r]; [congruence|]. cbn [G_list0] in HG. destruct r as [|y r'].
  - destruct (lit_text_hd x txt (Forall_inv HP) HG) as (c & q & -> & Hc). exact Hc.
  - apply G_list1_cons in HG. destruct HG as (u1 & us & u2 & Hu & _ & _ & ->).
    destruct (lit_text_hd x u1 (Forall_inv HP) Hu) as (c & q & -> & Hc). exact Hc.
Qed.
Lemma lower_nws c : is_lower c = true -> is_ws c = false.
Proof. unfold is_lower, is_ws. lia. Qed.
Lemma lower_facts c : is_lower c = true -> is_ws c = false /\ is_digit c = false /\ c <> 45 /\ c <> 123 /\ c <> 125 /\ c <> 58 /\ c <> 46 /\ c <> 0.
Proof. unfold is_lower, is_ws, is_digit. lia. Qed.

Lemma sep_ok_disj : sep_ok t_disj_seps.
Proof. repeat constructor; discriminate. Qed.
Lemma sep_ok_choice : sep_ok t_choice_seps.
Proof. repeat constructor; discriminate. Qed.
Lemma sep_ok_comma : sep_ok t_comma.
Proof. repeat constructor; discriminate. Qed.

(* what follows a rule head: ":-" or "." *)
Definition ok_head (tail : list Z) : Prop := hd 0 tail = 58 \/ hd 0 tail = 46.

Definition m_head (c : Z) : M (Z * list Z) :=
  if c =? 123 then mtok t_lbrace true ;;; h <- m_atoms t_choice_seps ;; mtok t_rbrace true ;;; ret (1, h)
  else h <- m_atoms t_disj_seps ;; ret (0, h).

Lemma r_head ht h txt : (ht = 0 \/ ht = 1) -> Forall atom_ok h -> G_head ht h txt ->
  forall c, (ht = 1 -> c = 123) -> (ht = 0 -> c <> 123) -> reads (m_head c) txt (ht, h) [] ok_head.
Proof.
  intros Hht HP HG c H1 H0. unfold m_head, G_head in *. destruct Hht as [-> | ->].
  - specialize (H0 eq_refl). destruct (Z.eqb_spec c 123); [contradiction|]. change (0 =? 0) with true in HG. cbv iota in HG.
    eapply reads_eff; [eapply reads_eq; [eapply reads_bind; [apply (r_atoms t_disj_seps h txt sep_ok_disj HP HG) | apply reads_ret |] | now rewrite app_nil_r] | reflexivity].
    intros tail [E|E]; rewrite app_nil_l; split; try (unfold pun; rewrite E; repeat split; discriminate); rewrite E; reflexivity.
  - rewrite (H1 eq_refl). change (123 =? 123) with true. cbv iota. change (1 =? 0) with false in HG. cbv iota in HG.
    destruct HG as (t1 & t2 & t3 & G1 & G2 & G3 & ->).
    eapply reads_eff; [eapply reads_bind; [apply (r_tok _ _ true G1) | eapply reads_bind; [apply (r_atoms t_choice_seps h t2 sep_ok_choice HP G2) |
      eapply reads_eq; [eapply reads_bind; [apply (r_tok _ _ true G3) | apply reads_ret |] | now rewrite app_nil_r] |] |] | reflexivity].
    + intros tail [E|E]; rewrite app_nil_l; unfold nws; rewrite E; reflexivity.
    + intros tail Ht. split.
      * apply (tok_pun t_rbrace); [exact G3 | discriminate | repeat split; discriminate].
      * rewrite (tok_hd t_rbrace t3 tail G3) by discriminate. reflexivity.
    + intros tail Ht. destruct h as [|x r].
      * simpl in G2. subst t2. cbn [app]. apply (tok_nws t_rbrace); [exact G3 | discriminate | reflexivity].
      * unfold nws. rewrite <- app_assoc. apply lower_nws. apply (atoms_hd t_choice_seps (x :: r)); [exact HP | exact G2 | discriminate].
Qed.

Lemma okS_nws l : okS l -> nws l.
Proof. intros [H _]. exact H. Qed.

Lemma head_first ht h th rest0 : (ht = 0 \/ ht = 1) -> Forall atom_ok h -> G_head ht h th ->
  (h = [] -> ht = 0 -> hd 0 rest0 = 58) ->
  (ht = 1 -> hd 0 (th ++ rest0) = 123) /\ (ht = 0 -> hd 0 (th ++ rest0) <> 123).
Proof.
  intros Hht HP HG Hr. unfold G_head in HG. split; intros E; subst ht.
  - change (1 =? 0) with false in HG. cbv iota in HG. destruct HG as (t1 & t2 & t3 & G1 & _ & _ & ->).
    rewrite <- !app_assoc. now rewrite (tok_hd t_lbrace t1 _ G1) by discriminate.
  - change (0 =? 0) with true in HG. cbv iota in HG. destruct h as [|x r].
    + simpl in HG. subst th. cbn [app]. rewrite (Hr eq_refl eq_refl). discriminate.
    + pose proof (atoms_hd t_disj_seps (x :: r) th rest0 HP HG ltac:(discriminate)) as Hl.
      destruct (lower_facts _ Hl) as (_ & _ & _ & H & _). exact H.
Qed.

Lemma r_rule_n ht h b txt : stmt_ok (CRule ht h b) -> G_stmt (CRule ht h b) txt ->
  reads (m_rule (hd 0 txt)) txt tt [CRule ht h b] okS.
Proof.
  intros (Hht & HPh & HPb) (th & tb & td & Gh & Gd & -> & Hb).
  assert (Hfirst : (ht = 1 -> hd 0 (th ++ tb ++ td) = 123) /\ (ht = 0 -> hd 0 (th ++ tb ++ td) <> 123)).
  { apply (head_first ht h th (tb ++ td) Hht HPh Gh). intros Eh E0. destruct Hb as [(_ & [C|C] & _) | (ti & tl & Gi & _ & ->)]; [congruence | congruence |].
    rewrite <- app_assoc. now rewrite (tok_hd t_if ti _ Gi) by discriminate. }
  destruct Hfirst as [F1 F0]. unfold m_rule. fold (m_head (hd 0 (th ++ tb ++ td))).
  eapply reads_eff; [eapply reads_bind; [apply (r_head ht h th Hht HPh Gh _ F1 F0) | cbv beta iota |] | ].
  - destruct Hb as [(-> & _ & ->) | (ti & tl & Gi & Gl & ->)].
    + (* no body *)
      cbn [app]. eapply (reads_bind0 _ _ td false); [apply (reads_tok_absent 58 [45]); discriminate | cbv beta iota | ].
      * eapply (reads_bind0 _ _ td); [apply reads_ret | cbv beta | intros tail _; exact I].
        eapply reads_eq; [eapply reads_bind; [apply (r_tok _ _ true Gd) | apply reads_emit | intros tail Ht; rewrite app_nil_l; exact (okS_nws _ Ht)] | now rewrite app_nil_r].
      * intros tail _. rewrite (tok_hd t_dot td tail Gd) by discriminate. discriminate.
    + (* ":-" literals *)
      rewrite <- app_assoc. eapply reads_bind; [apply (r_tok _ _ false Gi) | cbv beta iota | ].
      * eapply reads_bind; [ | cbv beta | ].
        -- apply (reads_bind_peek _ (fun c => is_digit c = false /\ c <> 45) tl (CRule ht h b) [] (fun tail => hd 0 tail = 46)).
           ++ intros c (Hd & H45). rewrite Hd. destruct (Z.eqb_spec c 45); [contradiction|]. cbn [negb andb].
              eapply reads_eff; [eapply reads_eq; [eapply reads_bind; [apply (r_lits b tl HPb Gl) | apply reads_ret | ] | now rewrite app_nil_r] | reflexivity].
              intros tail Ht. rewrite app_nil_l. split; [unfold pun; rewrite Ht; repeat split; discriminate | rewrite Ht; discriminate].
           ++ intros tail Ht. destruct b as [|x r].
              ** simpl in Gl. subst tl. cbn [app]. rewrite Ht. repeat split; discriminate.
              ** pose proof (lits_hd (x :: r) tl tail HPb Gl ltac:(discriminate)) as Hl.
                 destruct (lower_facts _ Hl) as (A1 & A2 & A3 & _). repeat split; assumption.
        -- eapply reads_eq; [eapply reads_bind; [apply (r_tok _ _ true Gd) | apply reads_emit | intros tail Ht; rewrite app_nil_l; exact (okS_nws _ Ht)] | now rewrite app_nil_r].
        -- intros tail Ht. now rewrite (tok_hd t_dot td tail Gd) by discriminate.
      * intros tail Ht. destruct b as [|x r].
        -- simpl in Gl. subst tl. cbn [app]. apply (tok_nws t_dot); [exact Gd | discriminate | reflexivity].
        -- unfold nws. rewrite <- app_assoc. apply lower_nws. apply (lits_hd (x :: r)); [exact HPb | exact Gl | discriminate].
  - intros tail Ht. destruct Hb as [(-> & _ & ->) | (ti & tl & Gi & Gl & ->)].
    + right. cbn [app]. now rewrite (tok_hd t_dot td tail Gd) by discriminate.
    + left. rewrite <- !app_assoc. now rewrite (tok_hd t_if ti _ Gi) by discriminate.
  - reflexivity.
Qed.
