(* C10 - statements: rules and directives are read back as written. *)
Require Import V.Lib.Base V.Lib.Calls V.Lib.Dec V.C09.Spec V.Gen.Consts_C10 V.C10.Model V.C10.Args V.C10.Grammar V.C10.ProofsStream V.C10.ProofsRead V.C10.ProofsArgs.
Local Open Scope Z_scope.

(* after a statement: not white space, and not '[' (which would be taken for the value of #external) *)
Definition okS (tail : list Z) : Prop := nws tail /\ hd 0 tail <> 91.

Lemma tok_hd t txt l : G_tok t txt -> t <> [] -> hd 0 (txt ++ l) = hd 0 t.
Proof. intros (w & _ & ->) Hne. destruct t; [congruence | reflexivity]. Qed.
Lemma tok_nws t txt l : G_tok t txt -> t <> [] -> is_ws (hd 0 t) = false -> nws (txt ++ l).
Proof. intros H Hne Hw. unfold nws. now rewrite (tok_hd t txt l H Hne). Qed.
Lemma tok_pun t txt l : G_tok t txt -> t <> [] -> pun t -> pun (txt ++ l).
Proof. intros H Hne Hp. unfold pun in *. now rewrite (tok_hd t txt l H Hne). Qed.

Lemma r_tok t txt req : G_tok t txt -> reads (mtok t req) txt true [] nws.
Proof. intros (w & Hw & ->). now apply reads_tok. Qed.

Lemma atoms_hd seps xs txt l : Forall atom_ok xs -> G_list0 G_atom (G_sep seps) xs txt -> xs <> [] ->
  is_lower (hd 0 (txt ++ l)) = true.
Proof.
  intros HP HG Hne. destruct xs as [|x r]; [congruence|]. cbn [G_list0] in HG.
  assert (Hx1 : 1 <= x) by (inversion HP; subst; unfold atom_ok in *; lia).
  destruct r as [|y r'].
  - destruct (atom_text_hd x txt HG Hx1) as (c & q & -> & Hc & _). exact Hc.
  - apply G_list1_cons in HG. destruct HG as (u1 & us & u2 & Hu & _ & _ & ->).
    destruct (atom_text_hd x u1 Hu Hx1) as (c & q & -> & Hc & _). exact Hc.
Qed.
Lemma lits_hd xs txt l : Forall lit_ok xs -> G_list0 G_lit (G_tok t_comma) xs txt -> xs <> [] ->
  is_lower (hd 0 (txt ++ l)) = true.
Proof.
  intros HP HG Hne. destruct xs as [|x r]; [congruence|]. cbn [G_list0] in HG. destruct r as [|y r'].
  - destruct (lit_text_hd x txt (Forall_inv HP) HG) as (c & q & -> & Hc). exact Hc.
  - apply G_list1_cons in HG. destruct HG as (u1 & us & u2 & Hu & _ & _ & ->).
    destruct (lit_text_hd x u1 (Forall_inv HP) Hu) as (c & q & -> & Hc). exact Hc.
Qed.
Lemma lower_nws c : is_lower c = true -> is_ws c = false.
Proof. unfold is_lower, is_ws. lia. Qed.
Lemma lower_facts c : is_lower c = true -> is_ws c = false /\ is_digit c = false /\ c <> 45 /\ c <> 123 /\ c <> 125 /\ c <> 58 /\ c <> 46 /\ c <> 0.
Proof. unfold is_lower, is_ws, is_digit. lia. Qed.

Lemma sep_ok_disj : sep_ok t_disj_seps.
Proof. repeat constructor; discriminate. Qed.
Lemma sep_ok_choice : sep_ok t_choice_seps.
Proof. repeat constructor; discriminate. Qed.
Lemma sep_ok_comma : sep_ok t_comma.
Proof. repeat constructor; discriminate. Qed.

(* what follows a rule head: ":-" or "." *)
Definition ok_head (tail : list Z) : Prop := hd 0 tail = 58 \/ hd 0 tail = 46.

Definition m_head (c : Z) : M (Z * list Z) :=
  if c =? 123 then mtok t_lbrace true ;;; h <- m_atoms t_choice_seps ;; mtok t_rbrace true ;;; ret (1, h)
  else h <- m_atoms t_disj_seps ;; ret (0, h).

Lemma r_head ht h txt : (ht = 0 \/ ht = 1) -> Forall atom_ok h -> G_head ht h txt ->
  forall c, (ht = 1 -> c = 123) -> (ht = 0 -> c <> 123) -> reads (m_head c) txt (ht, h) [] ok_head.
Proof.
  intros Hht HP HG c H1 H0. unfold m_head, G_head in *. destruct Hht as [-> | ->].
  - specialize (H0 eq_refl). destruct (Z.eqb_spec c 123); [contradiction|]. change (0 =? 0) with true in HG. cbv iota in HG.
    eapply reads_eff; [eapply reads_eq; [eapply reads_bind; [apply (r_atoms t_disj_seps h txt sep_ok_disj HP HG) | apply reads_ret |] | now rewrite app_nil_r] | reflexivity].
    intros tail [E|E]; rewrite app_nil_l; split; try (unfold pun; rewrite E; repeat split; discriminate); rewrite E; reflexivity.
  - rewrite (H1 eq_refl). change (123 =? 123) with true. cbv iota. change (1 =? 0) with false in HG. cbv iota in HG.
    destruct HG as (t1 & t2 & t3 & G1 & G2 & G3 & ->).
    eapply reads_eff; [eapply reads_bind; [apply (r_tok _ _ true G1) | eapply reads_bind; [apply (r_atoms t_choice_seps h t2 sep_ok_choice HP G2) |
      eapply reads_eq; [eapply reads_bind; [apply (r_tok _ _ true G3) | apply reads_ret |] | now rewrite app_nil_r] |] |] | reflexivity].
    + intros tail [E|E]; rewrite app_nil_l; unfold nws; rewrite E; reflexivity.
    + intros tail Ht. split.
      * apply (tok_pun t_rbrace); [exact G3 | discriminate | repeat split; discriminate].
      * rewrite (tok_hd t_rbrace t3 tail G3) by discriminate. reflexivity.
    + intros tail Ht. destruct h as [|x r].
      * simpl in G2. subst t2. cbn [app]. apply (tok_nws t_rbrace); [exact G3 | discriminate | reflexivity].
      * unfold nws. rewrite <- app_assoc. apply lower_nws. apply (atoms_hd t_choice_seps (x :: r)); [exact HP | exact G2 | discriminate].
Qed.

Lemma okS_nws l : okS l -> nws l.
Proof. intros [H _]. exact H. Qed.

Lemma head_first ht h th rest0 : (ht = 0 \/ ht = 1) -> Forall atom_ok h -> G_head ht h th ->
  (h = [] -> ht = 0 -> hd 0 rest0 = 58) ->
  (ht = 1 -> hd 0 (th ++ rest0) = 123) /\ (ht = 0 -> hd 0 (th ++ rest0) <> 123).
Proof.
  intros Hht HP HG Hr. unfold G_head in HG. split; intros E; subst ht.
  - change (1 =? 0) with false in HG. cbv iota in HG. destruct HG as (t1 & t2 & t3 & G1 & _ & _ & ->).
    rewrite <- !app_assoc. now rewrite (tok_hd t_lbrace t1 _ G1) by discriminate.
  - change (0 =? 0) with true in HG. cbv iota in HG. destruct h as [|x r].
    + simpl in HG. subst th. cbn [app]. rewrite (Hr eq_refl eq_refl). discriminate.
    + pose proof (atoms_hd t_disj_seps (x :: r) th rest0 HP HG ltac:(discriminate)) as Hl.
      destruct (lower_facts _ Hl) as (_ & _ & _ & H & _). exact H.
Qed.

Lemma r_rule_n ht h b txt : stmt_ok (CRule ht h b) -> G_stmt (CRule ht h b) txt ->
  reads (m_rule (hd 0 txt)) txt tt [CRule ht h b] okS.
Proof.
  intros (Hht & HPh & HPb) (th & tb & td & Gh & Gd & -> & Hb).
  assert (Hfirst : (ht = 1 -> hd 0 (th ++ tb ++ td) = 123) /\ (ht = 0 -> hd 0 (th ++ tb ++ td) <> 123)).
  { apply (head_first ht h th (tb ++ td) Hht HPh Gh). intros Eh E0. destruct Hb as [(_ & [C|C] & _) | (ti & tl & Gi & _ & ->)]; [congruence | congruence |].
    rewrite <- app_assoc. now rewrite (tok_hd t_if ti _ Gi) by discriminate. }
  destruct Hfirst as [F1 F0]. unfold m_rule. fold (m_head (hd 0 (th ++ tb ++ td))).
  destruct Hb as [(-> & _ & ->) | (ti & tl & Gi & Gl & ->)].
  - (* no body *)
    eapply reads_eff; [eapply reads_bind; [apply (r_head ht h th Hht HPh Gh _ F1 F0) | cbv beta iota |] | ].
    + cbn [app]. eapply (reads_bind0 _ _ td false); [apply (reads_tok_absent 58 [45]); discriminate | cbv beta iota | ].
      * eapply (reads_bind0 _ _ td); [apply (reads_ret _ (fun _ => True)) | cbv beta | intros tail _; exact I].
        eapply reads_eq; [eapply reads_bind; [apply (r_tok _ _ true Gd) | apply reads_emit | intros tail Ht; rewrite app_nil_l; exact (okS_nws _ Ht)] | now rewrite app_nil_r].
      * intros tail _. cbv beta. rewrite (tok_hd t_dot td tail Gd) by discriminate. discriminate.
    + intros tail Ht. right. cbn [app]. now rewrite (tok_hd t_dot td tail Gd) by discriminate.
    + reflexivity.
  - (* ":-" literals *)
    eapply reads_eff; [eapply reads_bind; [apply (r_head ht h th Hht HPh Gh _ F1 F0) | cbv beta iota |] | ].
    + rewrite <- app_assoc. eapply reads_bind; [apply (r_tok _ _ false Gi) | cbv beta iota | ].
      * eapply reads_bind; [ | cbv beta | ].
        -- apply (reads_bind_peek _ (fun c => is_digit c = false /\ c <> 45) tl (CRule ht h b) [] (fun tail => hd 0 tail = 46)).
           ++ intros c (Hd & H45). rewrite Hd. destruct (Z.eqb_spec c 45); [contradiction|]. cbn [negb andb].
              eapply reads_eff; [eapply reads_eq; [eapply reads_bind; [apply (r_lits b tl HPb Gl) | apply reads_ret | ] | now rewrite app_nil_r] | reflexivity].
              intros tail Ht. rewrite app_nil_l. split; [unfold pun; rewrite Ht; repeat split; discriminate | rewrite Ht; discriminate].
           ++ intros tail Ht. destruct b as [|x r].
              ** simpl in Gl. subst tl. cbn [app]. rewrite Ht. split; [split; [reflexivity | discriminate] | unfold nws; rewrite Ht; reflexivity].
              ** pose proof (lits_hd (x :: r) tl tail HPb Gl ltac:(discriminate)) as Hl.
                 destruct (lower_facts _ Hl) as (A1 & A2 & A3 & _). repeat split; assumption.
        -- eapply reads_eq; [eapply reads_bind; [apply (r_tok _ _ true Gd) | apply reads_emit | intros tail Ht; rewrite app_nil_l; exact (okS_nws _ Ht)] | now rewrite app_nil_r].
        -- intros tail Ht. cbv beta. now rewrite (tok_hd t_dot td tail Gd) by discriminate.
      * intros tail Ht. destruct b as [|x r].
        -- simpl in Gl. subst tl. cbn [app]. apply (tok_nws t_dot); [exact Gd | discriminate | reflexivity].
        -- unfold nws. rewrite <- app_assoc. apply lower_nws. apply (lits_hd (x :: r)); [exact HPb | exact Gl | discriminate].
    + intros tail Ht. left. rewrite <- !app_assoc. now rewrite (tok_hd t_if ti _ Gi) by discriminate.
    + reflexivity.
Qed.

(* ---------- #output terms ---------- *)
Lemma idchar_not13 c : is_idchar c = true -> c <> 13 /\ is_ws c = false.
Proof. unfold is_idchar, is_alnum, is_lower, is_upper, is_digit, is_ws. lia. Qed.

Lemma r_ident_loop r : forall c sym fuel, is_idchar c = true -> forallb is_idchar r = true -> (length r < fuel)%nat ->
  reads (m_ident_loop fuel sym) (c :: r) (sym ++ c :: r) [] (fun tail => is_idchar (hd 0 tail) = false).
Proof.
  induction r as [|d r IH]; intros c sym fuel Hc Hr Hf tail ln ac Ht; (destruct fuel as [|fu]; [simpl in Hf; lia|]);
    cbn [m_ident_loop app]; unfold bind; destruct (idchar_not13 c Hc) as [C13 _].
  - destruct (get_plain c tail ln ac C13) as [ln1 E1]. rewrite E1. rewrite peek_false.
    unfold is_idchar in Ht. rewrite Ht. eexists. reflexivity.
  - cbn [forallb] in Hr. apply andb_true_iff in Hr. destruct Hr as [Hd Hr].
    destruct (get_plain c ((d :: r) ++ tail) ln ac C13) as [ln1 E1]. cbn [app] in E1. rewrite E1. rewrite peek_false. cbn [hd].
    unfold is_idchar in Hd. rewrite Hd.
    destruct (IH d (sym ++ [c]) fu Hd Hr ltac:(simpl in Hf; lia) tail ln1 ac Ht) as [ln2 E2]. cbn [app] in E2. rewrite E2.
    rewrite <- app_assoc. eexists. reflexivity.
Qed.

Definition ok_term (tail : list Z) : Prop := pun tail /\ hd 0 tail <> 40.

Lemma args_nws args : forall ta l, Forall (fun a => arg_ok 0 a = true) args -> G_args args ta -> nws l -> nws (ta ++ l).
Proof.
  destruct args as [|a more]; intros ta l HP HG Hl; [contradiction|]. cbn [G_args] in HG. destruct more as [|b more'].
  - apply (items_nws a 0 ta l (Forall_inv HP) HG Hl).
  - destruct HG as (t1 & w & t2 & G1 & _ & _ & ->). rewrite <- !app_assoc. apply (items_nws a 0 t1 _ (Forall_inv HP) G1). reflexivity.
Qed.

Lemma r_term n txt : G_term n txt -> reads m_term txt n [] ok_term.
Proof.
  intros [[Hn (w & Hw & ->)] | (c & r & args & w0 & w1 & ta & w2 & -> & Hc & Hr & Hargs & Hw0 & Hw1 & Hw2 & Ga & ->)]; intros tail ln ac (Hp & H40);
    unfold m_term, bind at 1; rewrite peek_false.
  - destruct (follow w tail Hw Hp) as [F1 F2].
    destruct Hn as [(c & r & -> & Hc & Hr) | (b & -> & Hb)].
    + cbn [app hd]. rewrite Hc.
      assert (Hidc : is_idchar c = true) by (unfold is_idchar, is_alnum; destruct (is_lower c); [reflexivity|]; cbn [orb] in *; now rewrite Hc, orb_true_r).
      unfold bind, remaining. cbn [str rest].
      destruct (r_ident_loop r c [] (S (length (c :: (r ++ w ++ tail)))) Hidc Hr ltac:(cbn [length]; rewrite !app_length; lia) (w ++ tail) ln ac) as [ln1 E1].
      { unfold is_idchar. rewrite F1. destruct (Z.eqb_spec (hd 0 (w ++ tail)) 95); [contradiction | reflexivity]. }
      cbn [app] in E1. rewrite <- (app_assoc r w tail). rewrite E1.
      destruct (skipws_run w tail ln1 ac Hw (pun_nws _ Hp)) as [ln2 E2]. rewrite E2.
      change t_lpar with [40]. rewrite mtok_absent by (auto; discriminate). unfold ret at 1.
      unfold skipws, on_str. cbn [str acc]. rewrite a_skipws_nws by now apply pun_nws. eexists. reflexivity.
    + cbn [app hd]. change (is_lower 34 || (34 =? 95)) with false. cbv iota. change (34 =? 34) with true. cbv iota.
      unfold bind.
      destruct (r_str b w [] Hb Hw tail ln ac (pun_nws _ Hp)) as [ln1 E1]. rewrite <- !app_assoc in E1. cbn [app] in E1. rewrite <- !app_assoc. cbn [app]. rewrite E1.
      unfold skipws, on_str. cbn [str acc]. rewrite a_skipws_nws by now apply pun_nws. eexists. reflexivity.
  - rewrite <- !app_assoc. cbn [app hd]. rewrite Hc.
    assert (Hidc : is_idchar c = true) by (unfold is_idchar, is_alnum; destruct (is_lower c); [reflexivity|]; cbn [orb] in *; now rewrite Hc, orb_true_r).
    unfold bind, remaining. cbn [str rest].
    set (X := w0 ++ 40 :: w1 ++ ta ++ 41 :: w2 ++ tail).
    assert (HX : is_idchar (hd 0 X) = false).
    { unfold X. destruct w0 as [|x q]; [reflexivity|]. unfold wsl in Hw0. simpl in Hw0. apply andb_true_iff in Hw0. destruct Hw0 as [Hx _].
      cbn [app hd]. unfold is_ws in Hx. unfold is_idchar, is_alnum, is_lower, is_upper, is_digit. lia. }
    destruct (r_ident_loop r c [] (S (length (c :: r ++ X))) Hidc Hr ltac:(cbn [length]; rewrite !app_length; lia) X ln ac HX) as [ln1 E1].
    cbn [app] in E1. rewrite E1. unfold X.
    assert (N1 : nws (40 :: w1 ++ ta ++ 41 :: w2 ++ tail)) by reflexivity.
    destruct (skipws_run w0 _ ln1 ac Hw0 N1) as [ln2 E2]. rewrite E2.
    assert (N2 : nws (ta ++ 41 :: w2 ++ tail)) by (apply (args_nws args ta _ Hargs Ga); reflexivity).
    destruct (reads_tok [40] w1 false Hw1 _ ln2 ac N2) as [ln3 E3]. rewrite <- !app_assoc in E3. cbn [app] in E3. change t_lpar with [40]. rewrite E3.
    destruct (r_args_loop args ((c :: r) ++ [40]) (S (length (ta ++ 41 :: w2 ++ tail))) ta Hargs Ga
               ltac:(pose proof (G_args_len args ta Ga); rewrite app_length; lia) (41 :: w2 ++ tail) ln3 ([] ++ ac) eq_refl) as [ln4 E4].
    cbn [app] in E4. cbn [app str rest]. rewrite E4.
    destruct (reads_tok [41] w2 true Hw2 tail ln4 ([] ++ [] ++ ac) (pun_nws _ Hp)) as [ln5 E5]. rewrite <- !app_assoc in E5. change t_rpar with [41]. cbn [app] in E5. cbn [app]. rewrite E5.
    unfold ret at 1. unfold skipws, on_str. cbn [str acc]. rewrite a_skipws_nws by now apply pun_nws.
    eexists. unfold ret. f_equal. rewrite <- !app_assoc. reflexivity.
Qed.

Lemma term_hd n txt l : G_term n txt -> nws (txt ++ l).
Proof.
  intros [[Hn (w & _ & ->)] | (c & r & args & w0 & w1 & ta & w2 & _ & Hc & _ & _ & _ & _ & _ & _ & ->)]; unfold nws.
  - destruct Hn as [(c & r & -> & Hc & _) | (b & -> & _)].
    + cbn [app hd]. unfold is_lower, is_ws in *. lia.
    + reflexivity.
  - cbn [app hd]. unfold is_lower, is_ws in *. lia.
Qed.

(* ---------- chaining ---------- *)
Ltac rb H := eapply (reads_bind _ _ _ _ _ _ _ _ _ okS); [apply H | cbv beta iota | ].
Ltac rb0 H := eapply (reads_bind0 _ _ _ _ _ _ _ _ okS); [apply H | cbv beta iota | ].

Lemma r_emit_ret {A} c (v : A) ok : reads (emit c ;;; ret v) [] v [c] ok.
Proof. intros tail ln ac _. eexists. reflexivity. Qed.

Lemma r_dot_emit {A} c (v : A) td : G_tok t_dot td -> reads (mtok t_dot true ;;; emit c ;;; ret v) td v [c] okS.
Proof.
  intros Gd. eapply reads_eff; [eapply reads_eq; [eapply reads_bind; [apply (r_tok _ _ true Gd) | apply (r_emit_ret c v okS) | intros tail Ht; rewrite app_nil_l; exact (okS_nws _ Ht)] | now rewrite app_nil_r] | reflexivity].
Qed.
Lemma r_dot_emit0 c td : G_tok t_dot td -> reads (mtok t_dot true ;;; emit c) td tt [c] okS.
Proof.
  intros Gd. eapply reads_eff; [eapply reads_eq; [eapply reads_bind; [apply (r_tok _ _ true Gd) | apply (reads_emit c okS) | intros tail Ht; rewrite app_nil_l; exact (okS_nws _ Ht)] | now rewrite app_nil_r] | reflexivity].
Qed.

Lemma dot_hd td l : G_tok t_dot td -> hd 0 (td ++ l) = 46.
Proof. intros G. now rewrite (tok_hd t_dot td l G) by discriminate. Qed.
Lemma dot_pun td l : G_tok t_dot td -> pun (td ++ l).
Proof. intros G. unfold pun. rewrite (dot_hd td l G). repeat split; discriminate. Qed.

Lemma print_Z_first v l : (is_digit (hd 0 (print_Z v ++ l)) || (hd 0 (print_Z v ++ l) =? 45)) = true.
Proof.
  unfold print_Z. destruct (Z.ltb_spec v 0); [reflexivity|].
  destruct (print_nat_hd v H) as (d & ds & -> & Hd). cbn [app hd]. now rewrite Hd.
Qed.
Lemma int_first v t l : G_int v t -> (is_digit (hd 0 (t ++ l)) || (hd 0 (t ++ l) =? 45)) = true /\ nws (t ++ l).
Proof. intros (w & _ & ->). rewrite <- app_assoc. split; [apply print_Z_first | apply print_Z_nws]. Qed.

Lemma drop0_nonneg b : Forall (fun x : Z * Z => 0 <= snd x) b -> forallb (fun x => 0 <=? snd x) (drop0 b) = true.
Proof.
  unfold drop0. induction 1 as [|x r Hx Hr IH]; [reflexivity|]. cbn [filter]. destruct (negb (snd x =? 0)); [|exact IH].
  cbn [forallb]. rewrite IH. apply andb_true_iff. split; [lia | reflexivity].
Qed.

Lemma r_rule_w ht h bd b txt : stmt_ok (CWRule ht h bd b) -> G_stmt (CWRule ht h bd b) txt ->
  reads (m_rule (hd 0 txt)) txt tt [CWRule ht h bd (drop0 b)] okS.
Proof.
  intros (Hht & HPh & Hbd & HPb & Hnn) (th & ti & tn & ta & td & Gh & Gi & Gn & Ga & Gd & ->).
  assert (Hfirst : (ht = 1 -> hd 0 (th ++ ti ++ tn ++ ta ++ td) = 123) /\ (ht = 0 -> hd 0 (th ++ ti ++ tn ++ ta ++ td) <> 123)).
  { apply (head_first ht h th _ Hht HPh Gh). intros _ _. now rewrite (tok_hd t_if ti _ Gi) by discriminate. }
  destruct Hfirst as [F1 F0]. unfold m_rule. fold (m_head (hd 0 (th ++ ti ++ tn ++ ta ++ td))).
  eapply reads_eff.
  - eapply (reads_bind _ _ _ _ _ _ _ _ _ okS); [apply (r_head ht h th Hht HPh Gh _ F1 F0) | cbv beta iota | ].
    2: { intros tail Ht. left. rewrite <- !app_assoc. now rewrite (tok_hd t_if ti _ Gi) by discriminate. }
    rb (r_tok _ _ false Gi). 2: { intros tail Ht. rewrite <- !app_assoc. apply (int_first bd tn _ Gn). }
    rewrite (app_assoc tn ta td).
    eapply (reads_bind _ _ _ _ _ _ _ _ _ okS); [ | cbv beta | ].
    + apply (reads_bind_peek _ (fun c => (is_digit c || (c =? 45)) = true) (tn ++ ta) (CWRule ht h bd (drop0 b)) [] nws).
      * intros c Hc. assert (E : negb (is_digit c) && negb (c =? 45) = false) by (destruct (is_digit c), (c =? 45); try reflexivity; discriminate Hc).
        rewrite E.
        eapply reads_eff; [eapply reads_bind; [apply (r_int bd tn Hbd Gn) | cbv beta | ] | ].
        -- eapply reads_eq; [eapply reads_bind; [apply (r_agg b ta HPb Ga) | cbv beta | ] | now rewrite app_nil_r].
           ++ rewrite (drop0_nonneg b Hnn). eapply (reads_bind0 _ _ [] tt); [apply (reads_require nws) | apply reads_ret | intros tail Ht; exact Ht].
           ++ intros tail Ht. rewrite app_nil_l. exact Ht.
        -- intros tail Ht. destruct Ga as (t1 & t2 & t3 & G1 & _ & _ & ->). rewrite <- !app_assoc.
           apply (tok_pun t_lbrace); [exact G1 | discriminate | repeat split; discriminate].
        -- reflexivity.
      * intros tail Ht. rewrite <- app_assoc. apply (int_first bd tn _ Gn).
    + apply (r_dot_emit0 _ td Gd).
    + intros tail Ht. apply (tok_nws t_dot); [exact Gd | discriminate | reflexivity].
  - reflexivity.
Qed.

(* ---------- directives ---------- *)
Ltac skipkw kj ki :=
  eapply (reads_bind0 _ _ _ false _ _ _ _ okS);
  [apply (reads_tok_mism kj ki); reflexivity | cbv beta iota | intros ? _; cbv beta; rewrite <- ?app_assoc; eexists; reflexivity].

Lemma opt_prio p tp td : in_int p = true -> G_tok t_dot td ->
  ((p = 0 /\ tp = []) \/ exists t1 t2, G_tok t_at t1 /\ G_int p t2 /\ tp = t1 ++ t2) ->
  forall {B} (k : Z -> M B) v e, reads (k p) td v e okS ->
  reads (at_ <- mtok t_at false ;; p <- (if at_ then m_int else ret 0) ;; k p) (tp ++ td) v (e ++ []) okS.
Proof.
  intros Hp Gd [[-> ->] | (t1 & t2 & G1 & G2 & ->)] B k v e Hk.
  - cbn [app]. eapply reads_eff; [rb0 (reads_tok_absent 64 []); [discriminate | | ] | ].
    + eapply (reads_bind0 _ _ _ 0 _ _ _ _ okS); [apply (reads_ret _ (fun _ => True)) | exact Hk | intros; exact I].
    + intros tail _. cbv beta. rewrite (dot_hd td tail Gd). discriminate.
    + now rewrite !app_nil_r.
  - rewrite <- app_assoc. eapply reads_eff; [rb (r_tok _ _ false G1) | ].
    + rb (r_int p t2 Hp G2); [exact Hk | intros tail _; now apply dot_pun].
    + intros tail _. rewrite <- app_assoc. apply (int_first p t2 _ G2).
    + now rewrite !app_nil_r.
Qed.

Lemma r_min inc p l txt : stmt_ok (CMin p l) -> G_stmt (CMin p l) txt -> reads (m_directive inc) txt true [CMin p (drop0 l)] okS.
Proof.
  intros (Hp & Hl) (t0 & ta & tp & td & G0 & Ga & Gd & -> & Hopt). unfold m_directive.
  eapply reads_eff; [rb (r_tok _ _ false G0) | ].
  - rb (r_agg l ta Hl Ga).
    + apply (opt_prio p tp td Hp Gd Hopt (fun p => mtok t_dot true ;;; emit (CMin p (drop0 l)) ;;; ret true)). apply (r_dot_emit _ true td Gd).
    + intros tail Ht. destruct Hopt as [[_ ->] | (t1 & t2 & G1 & _ & ->)].
      * cbn [app]. apply (tok_nws t_dot); [exact Gd | discriminate | reflexivity].
      * rewrite <- !app_assoc. apply (tok_nws t_at); [exact G1 | discriminate | reflexivity].
  - intros tail Ht. destruct Ga as (t1 & t2 & t3 & G1 & _ & _ & ->). rewrite <- !app_assoc. apply (tok_nws t_lbrace); [exact G1 | discriminate | reflexivity].
  - reflexivity.
Qed.

Lemma G_list0_tok_sep {A} (G : A -> list Z -> Prop) xs txt : G_list0 G (G_tok t_comma) xs txt -> G_list0 G (G_sep t_comma) xs txt.
Proof.
  destruct xs as [|x r]; [exact (fun H => H)|]. cbn [G_list0]. apply G_list1_sep_mono. intros t Ht. now apply G_tok_sep.
Qed.

Lemma r_project inc a txt : stmt_ok (CProject a) -> G_stmt (CProject a) txt -> reads (m_directive inc) txt true [CProject a] okS.
Proof.
  intros Ha (t0 & tb & td & (w0 & Hw0 & ->) & Gd & -> & Hb). unfold m_directive. rewrite <- !app_assoc.
  destruct Hb as [[-> ->] | (t1 & t2 & t3 & G1 & G2 & G3 & ->)].
  - eapply reads_eff.
    + skipkw t_minimize t_project.
      eapply (reads_bind _ _ (t_project ++ w0) _ _ _ _ _ _ okS); [apply (reads_tok t_project w0 false Hw0) | cbv beta iota | ].
      * cbn [app]. rb0 (reads_tok_absent 123 []); [discriminate | | intros tail _; cbv beta; rewrite (dot_hd td tail Gd); discriminate].
        eapply (reads_bind0 _ _ _ [] _ _ _ _ okS); [apply (reads_ret _ (fun _ => True)) | apply (r_dot_emit _ true td Gd) | intros; exact I].
      * intros tail Ht. cbn [app]. apply (tok_nws t_dot); [exact Gd | discriminate | reflexivity].
    + reflexivity.
  - eapply reads_eff.
    + skipkw t_minimize t_project.
      eapply (reads_bind _ _ (t_project ++ w0) _ _ _ _ _ _ okS); [apply (reads_tok t_project w0 false Hw0) | cbv beta iota | ].
      * rewrite <- !app_assoc. rb (r_tok _ _ false G1).
        -- rewrite (app_assoc t2 t3 td).
           eapply (reads_bind _ _ (t2 ++ t3) _ _ _ _ _ _ okS); [ | apply (r_dot_emit _ true td Gd) | intros tail _; apply (tok_nws t_dot); [exact Gd | discriminate | reflexivity]].
           eapply reads_eff; [eapply reads_bind; [apply (r_atoms t_comma a t2 sep_ok_comma Ha (G_list0_tok_sep _ _ _ G2)) | cbv beta | ] | ].
           ++ eapply reads_eq; [eapply reads_bind; [apply (r_tok _ _ true G3) | apply reads_ret | intros tail Ht; rewrite app_nil_l; exact Ht] | now rewrite app_nil_r].
           ++ intros tail Ht. split; [apply (tok_pun t_rbrace); [exact G3 | discriminate | repeat split; discriminate] | rewrite (tok_hd t_rbrace t3 tail G3) by discriminate; reflexivity].
           ++ reflexivity.
        -- intros tail Ht. rewrite <- !app_assoc. destruct a as [|x r].
           ++ simpl in G2. subst t2. cbn [app]. apply (tok_nws t_rbrace); [exact G3 | discriminate | reflexivity].
           ++ unfold nws. apply lower_nws. apply (atoms_hd t_comma (x :: r)); [exact Ha | exact (G_list0_tok_sep _ _ _ G2) | discriminate].
      * intros tail Ht. rewrite <- !app_assoc. apply (tok_nws t_lbrace); [exact G1 | discriminate | reflexivity].
    + reflexivity.
Qed.

Lemma cond_first c tc td l : Forall lit_ok c -> G_cond c tc -> G_tok t_dot td ->
  pun ((tc ++ td) ++ l) /\ (hd 0 ((tc ++ td) ++ l) = 58 \/ hd 0 ((tc ++ td) ++ l) = 46).
Proof.
  intros Hc [[_ ->] | (t1 & t2 & G1 & _ & ->)] Gd.
  - cbn [app]. split; [now apply dot_pun | right; now apply dot_hd].
  - rewrite <- !app_assoc. split; [apply (tok_pun t_colon); [exact G1 | discriminate | repeat split; discriminate] | left; now rewrite (tok_hd t_colon t1 _ G1) by discriminate].
Qed.

Lemma r_cond_dot {A} c tc td (k : list Z -> M A) v e : Forall lit_ok c -> G_cond c tc -> G_tok t_dot td ->
  reads (k c) td v e okS -> reads (x <- m_cond ;; k x) (tc ++ td) v (e ++ []) okS.
Proof.
  intros Hc Gc Gd Hk. eapply (reads_bind _ _ _ _ _ _ _ _ _ okS); [apply (r_cond c tc Hc Gc) | exact Hk | ].
  intros tail _. split; [now apply dot_pun | rewrite (dot_hd td tail Gd); split; discriminate].
Qed.

Lemma r_output inc n c txt : stmt_ok (COutput n c) -> G_stmt (COutput n c) txt -> reads (m_directive inc) txt true [COutput n c] okS.
Proof.
  intros (Hn & Hc) (w0 & tt0 & tc & td & Hw0 & Gt & Gc & Gd & ->). unfold m_directive.
  eapply reads_eff.
  - skipkw t_minimize t_output. skipkw t_project t_output.
    eapply (reads_bind _ _ (t_output ++ w0) _ _ _ _ _ _ okS); [apply (reads_tok t_output w0 false Hw0) | cbv beta iota | ].
    + rb (r_term n tt0 Gt).
      * apply (r_cond_dot c tc td (fun c => mtok t_dot true ;;; emit (COutput n c) ;;; ret true)); try assumption. apply (r_dot_emit _ true td Gd).
      * intros tail _. destruct (cond_first c tc td tail Hc Gc Gd) as [P [E|E]]; (split; [exact P | rewrite E; discriminate]).
    + intros tail _. rewrite <- !app_assoc. apply (term_hd n tt0 _ Gt).
  - reflexivity.
Qed.

Lemma atom_pun_first a ta l : atom_ok a -> G_atom a ta -> nws (ta ++ l).
Proof.
  intros Ha G. destruct (atom_text_hd a ta G ltac:(unfold atom_ok in Ha; lia)) as (c & r & -> & Hc & _).
  unfold nws. cbn [app hd]. now apply lower_nws.
Qed.

Lemma r_external inc a v txt : stmt_ok (CExternal a v) -> G_stmt (CExternal a v) txt -> reads (m_directive inc) txt true [CExternal a v] okS.
Proof.
  intros (Ha & Hv) (t0 & ta & td & tv & (w0 & Hw0 & ->) & Ga & Gd & -> & Hopt). unfold m_directive. rewrite <- !app_assoc.
  destruct Hopt as [[-> ->] | (t1 & t2 & t3 & name & G1 & G2 & G3 & -> & Hname)].
  - rewrite app_nil_r. eapply reads_eff.
    + skipkw t_minimize t_external. skipkw t_project t_external. skipkw t_output t_external.
      eapply (reads_bind _ _ (t_external ++ w0) _ _ _ _ _ _ okS); [apply (reads_tok t_external w0 false Hw0) | cbv beta iota | ].
      * rb (r_atom a ta Ha Ga); [ | intros tail _; now apply dot_pun].
        eapply reads_eq; [rb (r_tok _ _ true Gd) | now rewrite app_nil_r].
        -- rb0 (reads_tok_absent 91 []); [discriminate | | intros tail (_ & H); cbv beta; rewrite app_nil_l; congruence].
           eapply (reads_bind0 _ _ _ ext_false _ _ _ _ okS); [apply (reads_ret _ (fun _ => True)) | apply (r_emit_ret _ true okS) | intros; exact I].
        -- intros tail Ht. rewrite app_nil_l. exact (okS_nws _ Ht).
      * intros tail _. rewrite <- !app_assoc. apply (atom_pun_first a ta _ Ha Ga).
    + reflexivity.
  - destruct G2 as (w2 & Hw2 & ->).
    assert (Hk : reads (k <- m_kw ext_tab ;; v0 <- (match k with Some v0 => ret v0 | None => mtok t_false true ;;; ret ext_false end) ;; mtok t_rbrack true ;;; ret v0)
                   (name ++ w2 ++ t3) v [] okS).
    { rewrite app_assoc. destruct Hname as [Hin | [-> ->]].
      - assert (Hf : kw_first ext_tab name v = true).
        { cbn in Hin. destruct Hin as [E|[E|[E|[]]]]; inversion E; subst; reflexivity. }
        eapply reads_eff.
        + rb (r_kw ext_tab name v w2 Hf Hw2).
          * rb0 (reads_ret v (fun _ => True)); [ | intros; exact I].
            eapply reads_eq; [rb (r_tok _ _ true G3); [apply reads_ret | intros tail Ht; rewrite app_nil_l; exact (okS_nws _ Ht)] | now rewrite app_nil_r].
          * intros tail _. apply (tok_nws t_rbrack); [exact G3 | discriminate | reflexivity].
        + reflexivity.
      - eapply reads_eff.
        + rb0 (r_kw_none ext_tab t_false eq_refl).
          * eapply (reads_bind _ _ (t_false ++ w2) _ _ _ _ _ _ okS).
            -- eapply reads_eq; [eapply reads_bind; [apply (reads_tok t_false w2 true Hw2) | apply reads_ret | intros tail Ht; rewrite app_nil_l; exact Ht] | now rewrite app_nil_r].
            -- cbv beta. eapply reads_eq; [rb (r_tok _ _ true G3); [apply reads_ret | intros tail Ht; rewrite app_nil_l; exact (okS_nws _ Ht)] | now rewrite app_nil_r].
            -- intros tail _. apply (tok_nws t_rbrack); [exact G3 | discriminate | reflexivity].
          * intros tail _. cbv beta. rewrite <- !app_assoc. eexists. reflexivity.
        + reflexivity. }
    eapply reads_eff.
    + skipkw t_minimize t_external. skipkw t_project t_external. skipkw t_output t_external.
      eapply (reads_bind _ _ (t_external ++ w0) _ _ _ _ _ _ okS); [apply (reads_tok t_external w0 false Hw0) | cbv beta iota | ].
      * rb (r_atom a ta Ha Ga); [ | intros tail _; rewrite <- ?app_assoc; now apply dot_pun].
        rb (r_tok _ _ true Gd); [ | intros tail _; rewrite <- !app_assoc; apply (tok_nws t_lbrack); [exact G1 | discriminate | reflexivity]].
        rb (r_tok _ _ false G1); [ | intros tail _; rewrite <- !app_assoc; destruct Hname as [Hin | [_ ->]]; [cbn in Hin; destruct Hin as [E|[E|[E|[]]]]; inversion E; subst; reflexivity | reflexivity]].
        eapply reads_eq; [eapply (reads_bind _ _ (name ++ w2 ++ t3) [] _ _ _ _ _ okS); [exact Hk | apply (r_emit_ret _ true okS) | intros tail Ht; rewrite app_nil_l; exact Ht] | rewrite app_nil_r, <- ?app_assoc; reflexivity].
      * intros tail _. rewrite <- !app_assoc. apply (atom_pun_first a ta _ Ha Ga).
    + reflexivity.
Qed.

Lemma r_assume inc l txt : stmt_ok (CAssume l) -> G_stmt (CAssume l) txt -> reads (m_directive inc) txt true [CAssume l] okS.
Proof.
  intros Hl (t0 & tb & td & (w0 & Hw0 & ->) & Gd & -> & Hb). unfold m_directive. rewrite <- !app_assoc.
  destruct Hb as [[-> ->] | (t1 & t2 & t3 & G1 & G2 & G3 & ->)].
  - eapply reads_eff.
    + skipkw t_minimize t_assume. skipkw t_project t_assume. skipkw t_output t_assume. skipkw t_external t_assume.
      eapply (reads_bind _ _ (t_assume ++ w0) _ _ _ _ _ _ okS); [apply (reads_tok t_assume w0 false Hw0) | cbv beta iota | ].
      * cbn [app]. rb0 (reads_tok_absent 123 []); [discriminate | | intros tail _; cbv beta; rewrite (dot_hd td tail Gd); discriminate].
        eapply (reads_bind0 _ _ _ [] _ _ _ _ okS); [apply (reads_ret _ (fun _ => True)) | apply (r_dot_emit _ true td Gd) | intros; exact I].
      * intros tail Ht. cbn [app]. apply (tok_nws t_dot); [exact Gd | discriminate | reflexivity].
    + reflexivity.
  - eapply reads_eff.
    + skipkw t_minimize t_assume. skipkw t_project t_assume. skipkw t_output t_assume. skipkw t_external t_assume.
      eapply (reads_bind _ _ (t_assume ++ w0) _ _ _ _ _ _ okS); [apply (reads_tok t_assume w0 false Hw0) | cbv beta iota | ].
      * rewrite <- !app_assoc. rb (r_tok _ _ false G1).
        -- rewrite (app_assoc t2 t3 td).
           eapply (reads_bind _ _ (t2 ++ t3) _ _ _ _ _ _ okS); [ | apply (r_dot_emit _ true td Gd) | intros tail _; apply (tok_nws t_dot); [exact Gd | discriminate | reflexivity]].
           eapply reads_eff; [eapply reads_bind; [apply (r_lits l t2 Hl G2) | cbv beta | ] | ].
           ++ eapply reads_eq; [eapply reads_bind; [apply (r_tok _ _ true G3) | apply reads_ret | intros tail Ht; rewrite app_nil_l; exact Ht] | now rewrite app_nil_r].
           ++ intros tail Ht. split; [apply (tok_pun t_rbrace); [exact G3 | discriminate | repeat split; discriminate] | rewrite (tok_hd t_rbrace t3 tail G3) by discriminate; discriminate].
           ++ reflexivity.
        -- intros tail Ht. rewrite <- !app_assoc. destruct l as [|x r].
           ++ simpl in G2. subst t2. cbn [app]. apply (tok_nws t_rbrace); [exact G3 | discriminate | reflexivity].
           ++ unfold nws. apply lower_nws. apply (lits_hd (x :: r)); [exact Hl | exact G2 | discriminate].
      * intros tail Ht. rewrite <- !app_assoc. apply (tok_nws t_lbrace); [exact G1 | discriminate | reflexivity].
    + reflexivity.
Qed.

Lemma r_edge inc x y c txt : stmt_ok (CEdge x y c) -> G_stmt (CEdge x y c) txt -> reads (m_directive inc) txt true [CEdge x y c] okS.
Proof.
  intros (Hx & Hy & Hc) (t0 & t1 & tx & t2 & ty & t3 & tc & td & (w0 & Hw0 & ->) & G1 & Gx & G2 & Gy & G3 & Gc & Gd & ->).
  unfold m_directive. rewrite <- !app_assoc.
  eapply reads_eff.
  - skipkw t_minimize t_edge. skipkw t_project t_edge. skipkw t_output t_edge. skipkw t_external t_edge. skipkw t_assume t_edge. skipkw t_heuristic t_edge.
    eapply (reads_bind _ _ (t_edge ++ w0) _ _ _ _ _ _ okS); [apply (reads_tok t_edge w0 false Hw0) | cbv beta iota | ].
    + rb (r_tok _ _ true G1); [ | intros tail _; rewrite <- ?app_assoc; apply (int_first x tx _ Gx)].
      rb (r_int x tx Hx Gx); [ | intros tail _; rewrite <- ?app_assoc; apply (tok_pun t_comma); [exact G2 | discriminate | repeat split; discriminate]].
      rb (r_tok _ _ true G2); [ | intros tail _; rewrite <- ?app_assoc; apply (int_first y ty _ Gy)].
      rb (r_int y ty Hy Gy); [ | intros tail _; rewrite <- ?app_assoc; apply (tok_pun t_rpar); [exact G3 | discriminate | repeat split; discriminate]].
      rb (r_tok _ _ true G3); [ | intros tail _; apply (pun_nws _ (proj1 (cond_first c tc td tail Hc Gc Gd)))].
      apply (r_cond_dot c tc td (fun c => mtok t_dot true ;;; emit (CEdge x y c) ;;; ret true)); try assumption. apply (r_dot_emit _ true td Gd).
    + intros tail _. rewrite <- ?app_assoc. apply (tok_nws t_lpar); [exact G1 | discriminate | reflexivity].
  - reflexivity.
Qed.

Lemma r_heuristic inc a t b p c txt : stmt_ok (CHeuristic a t b p c) -> G_stmt (CHeuristic a t b p c) txt ->
  reads (m_directive inc) txt true [CHeuristic a t b p c] okS.
Proof.
  intros (Ha & Ht & Hb & Hp & Hc) (t0 & ta & tc & td & t1 & tb & tp & t2 & name & t3 & t4 &
    (w0 & Hw0 & ->) & Ga & Gc & Gd & G1 & Gb & G2 & Hin & (w3 & Hw3 & ->) & G4 & -> & Hopt).
  unfold m_directive. rewrite <- !app_assoc.
  assert (Hpi : in_int p = true) by (unfold in_int, INT_MIN, INT_MAX in *; lia).
  assert (Hf : kw_first heu_tab name t = true).
  { cbn in Hin. destruct Hin as [E|[E|[E|[E|[E|[E|[]]]]]]]; inversion E; subst; reflexivity. }
  assert (Hname : nws ((name ++ w3) ++ t4)).
  { cbn in Hin. destruct Hin as [E|[E|[E|[E|[E|[E|[]]]]]]]; inversion E; subst; reflexivity. }
  (* the part after the bias: [@p] , modifier ] *)
  assert (Hrest : forall pv, pv = p -> reads (mtok t_comma true ;;; k <- m_kw heu_tab ;;
                      match k with
                      | Some h => skipws ;;; mtok t_rbrack true ;;; emit (CHeuristic a h b pv c) ;;; ret true
                      | None => fail
                      end) (t2 ++ name ++ w3 ++ t4) true [CHeuristic a t b p c] okS).
  { intros pv ->. eapply reads_eff.
    - rb (r_tok _ _ true G2); [ | intros tail _; rewrite <- ?app_assoc; rewrite <- app_assoc in Hname; unfold nws in *; destruct name; [discriminate Hf | exact Hname]].
      rewrite (app_assoc name w3 t4).
      rb (r_kw heu_tab name t w3 Hf Hw3); [ | intros tail _; apply (tok_nws t_rbrack); [exact G4 | discriminate | reflexivity]].
      rb0 (skipws_reads [] eq_refl); [ | intros tail _; apply (tok_nws t_rbrack); [exact G4 | discriminate | reflexivity]].
      eapply reads_eq; [rb (r_tok _ _ true G4); [apply (r_emit_ret _ true okS) | intros tail Ht0; rewrite app_nil_l; exact (okS_nws _ Ht0)] | now rewrite app_nil_r].
    - reflexivity. }
  assert (Hcomma : forall l, hd 0 (t2 ++ l) = 44) by (intros l; now rewrite (tok_hd t_comma t2 l G2) by discriminate).
  destruct Hopt as [[-> ->] | (u1 & u2 & U1 & U2 & ->)].
  - eapply reads_eff.
    + skipkw t_minimize t_heuristic. skipkw t_project t_heuristic. skipkw t_output t_heuristic. skipkw t_external t_heuristic. skipkw t_assume t_heuristic.
      eapply (reads_bind _ _ (t_heuristic ++ w0) _ _ _ _ _ _ okS); [apply (reads_tok t_heuristic w0 false Hw0) | cbv beta iota | ].
      * rb (r_atom a ta Ha Ga); [ | intros tail _; rewrite <- ?app_assoc; rewrite (app_assoc tc td); apply (cond_first c tc td _ Hc Gc Gd)].
        rb (r_cond c tc Hc Gc); [ | intros tail _; rewrite <- ?app_assoc; split; [now apply dot_pun | rewrite (dot_hd td _ Gd); split; discriminate]].
        rb (r_tok _ _ true Gd); [ | intros tail _; rewrite <- ?app_assoc; apply (tok_nws t_lbrack); [exact G1 | discriminate | reflexivity]].
        rb (r_tok _ _ true G1); [ | intros tail _; rewrite <- ?app_assoc; apply (int_first b tb _ Gb)].
        rb (r_int b tb Hb Gb); [ | intros tail _; rewrite <- ?app_assoc; cbn [app]; apply (tok_pun t_comma); [exact G2 | discriminate | repeat split; discriminate]].
        cbn [app]. rb0 (reads_tok_absent 64 []); [discriminate | | intros tail _; cbv beta; rewrite <- ?app_assoc; rewrite Hcomma; discriminate].
        rb0 (reads_ret 0 (fun _ => True)); [ | intros; exact I].
        apply (Hrest 0 eq_refl).
      * intros tail _. rewrite <- ?app_assoc. apply (atom_pun_first a ta _ Ha Ga).
    + reflexivity.
  - eapply reads_eff.
    + skipkw t_minimize t_heuristic. skipkw t_project t_heuristic. skipkw t_output t_heuristic. skipkw t_external t_heuristic. skipkw t_assume t_heuristic.
      eapply (reads_bind _ _ (t_heuristic ++ w0) _ _ _ _ _ _ okS); [apply (reads_tok t_heuristic w0 false Hw0) | cbv beta iota | ].
      * rb (r_atom a ta Ha Ga); [ | intros tail _; rewrite <- ?app_assoc; rewrite (app_assoc tc td); apply (cond_first c tc td _ Hc Gc Gd)].
        rb (r_cond c tc Hc Gc); [ | intros tail _; rewrite <- ?app_assoc; split; [now apply dot_pun | rewrite (dot_hd td _ Gd); split; discriminate]].
        rb (r_tok _ _ true Gd); [ | intros tail _; rewrite <- ?app_assoc; apply (tok_nws t_lbrack); [exact G1 | discriminate | reflexivity]].
        rb (r_tok _ _ true G1); [ | intros tail _; rewrite <- ?app_assoc; apply (int_first b tb _ Gb)].
        rb (r_int b tb Hb Gb); [ | intros tail _; rewrite <- ?app_assoc; apply (tok_pun t_at); [exact U1 | discriminate | repeat split; discriminate]].
        rewrite <- ?app_assoc.
        rb (r_tok _ _ false U1); [ | intros tail _; rewrite <- ?app_assoc; apply (int_first p u2 _ U2)].
        eapply (reads_bind _ _ u2 _ p _ _ _ _ okS); [ | apply (Hrest p eq_refl) | intros tail _; rewrite <- ?app_assoc; apply (tok_pun t_comma); [exact G2 | discriminate | repeat split; discriminate]].
        eapply reads_eff; [eapply reads_eq; [eapply reads_bind; [apply (r_int p u2 Hpi U2) | cbv beta | intros tail Ht0; rewrite app_nil_l; exact Ht0] | now rewrite app_nil_r] | reflexivity].
        assert (0 <=? p = true) as -> by lia.
        eapply (reads_bind0 _ _ [] tt); [apply (reads_require pun) | apply reads_ret | intros tail Ht0; exact Ht0].
      * intros tail _. rewrite <- ?app_assoc. apply (atom_pun_first a ta _ Ha Ga).
    + reflexivity.
Qed.
