(* C10 - for EVERY byte list: what the text reader delivers respects the consumer contract (V.Lib.Contract), whether
   the input is accepted or not; an accepted input leaves no step open.  No validity hypothesis on the input. *)
Require Import V.Lib.Base V.Lib.Calls V.Lib.Contract V.C09.Spec V.Gen.Consts_C10 V.C10.Model.
Local Open Scope Z_scope.

Definition delivered (r : rres unit) : list call := match r with ROk _ s => rev (acc s) | RErr _ c => rev c end.
Definition accepted (r : rres unit) : bool := match r with ROk _ _ => true | RErr _ _ => false end.

(* ---------- functions that deliver nothing ---------- *)
Definition pure {A} (m : M A) (Q : A -> Prop) : Prop :=
  forall s, match m s with ROk a s' => Q a /\ acc s' = acc s | RErr _ c => c = acc s end.

Lemma pure_ret {A} (a : A) (Q : A -> Prop) : Q a -> pure (ret a) Q.
Proof. intros H s. split; [exact H | reflexivity]. Qed.
Lemma pure_bind {A B} (m : M A) (k : A -> M B) (P : A -> Prop) (Q : B -> Prop) :
  pure m P -> (forall a, P a -> pure (k a) Q) -> pure (bind m k) Q.
Proof.
  intros Hm Hk s. unfold bind. specialize (Hm s). destruct (m s) as [a s1|l c]; [|exact Hm].
  destruct Hm as [Pa E]. specialize (Hk a Pa s1). destruct (k a s1) as [b s2|l c].
  - destruct Hk as [Qb E2]. split; [exact Qb | congruence].
  - congruence.
Qed.
Lemma pure_weaken {A} (m : M A) (P Q : A -> Prop) : pure m P -> (forall a, P a -> Q a) -> pure m Q.
Proof. intros H HPQ s. specialize (H s). destruct (m s); [destruct H; split; auto | exact H]. Qed.
Lemma pure_fail {A} (Q : A -> Prop) : pure fail Q.
Proof. intros s. reflexivity. Qed.
Lemma pure_oof {A} (Q : A -> Prop) : pure oof Q.
Proof. intros s. reflexivity. Qed.
Lemma pure_require b : pure (require b) (fun _ => b = true).
Proof. intros s. unfold require. destruct b; [split; reflexivity | reflexivity]. Qed.
Lemma pure_on_str {A} (f : ast -> A * ast) : pure (on_str f) (fun _ => True).
Proof. intros s. unfold on_str. destruct (f (str s)). split; [exact I | reflexivity]. Qed.
Lemma pure_skipws : pure skipws (fun _ => True).
Proof. apply pure_on_str. Qed.
Lemma pure_peek b : pure (peek b) (fun _ => True).
Proof. apply pure_on_str. Qed.
Lemma pure_get : pure get (fun _ => True).
Proof. apply pure_on_str. Qed.
Lemma pure_remaining : pure remaining (fun _ => True).
Proof. intros s. split; [exact I | reflexivity]. Qed.

Ltac pb := eapply pure_bind; [ | intros ? ?].

Lemma pure_mtok w req : pure (mtok w req) (fun _ => True).
Proof.
  unfold mtok. pb; [apply pure_on_str|]. destruct a.
  - pb; [apply pure_skipws | now apply pure_ret].
  - pb; [apply pure_require | now apply pure_ret].
Qed.

Lemma pure_m_int : pure m_int (fun v => int_ok v = true).
Proof.
  unfold m_int, m_int_raw. pb.
  - pb; [apply pure_on_str|]. destruct a as [v|]; [|apply pure_fail].
    pb; [apply pure_require|]. apply pure_ret. exact H0.
  - pb; [apply pure_skipws|]. apply pure_ret. exact H.
Qed.

Lemma in_int_ok v : in_int v = true -> int_ok v = true.
Proof. intros H. exact H. Qed.

Lemma pure_m_id : pure m_id (fun a => atom_ok a = true).
Proof.
  unfold m_id. pb; [apply pure_get|]. pb; [apply pure_peek|]. pb; [apply pure_require|]. pb; [apply pure_require|].
  destruct ((a =? 120) && (is_digit a0 || (a0 =? 95))).
  - pb; [destruct (a0 =? 95); [apply pure_get | now apply (pure_ret 0 (fun _ => True))]|].
    pb; [apply pure_m_int|]. pb; [apply pure_require|]. apply pure_ret.
    unfold atom_ok, ATOM_MAX, int_ok in *. lia.
  - pb; [apply pure_skipws|]. apply pure_ret. unfold atom_ok, ATOM_MAX, is_lower in *. lia.
Qed.

Lemma pure_m_lit : pure m_lit (fun l => lit_ok l = true).
Proof.
  unfold m_lit. pb; [apply pure_on_str|]. pb.
  - destruct a; [pb; [apply pure_peek|]; pb; [apply pure_require | apply pure_skipws] | now apply (pure_ret tt (fun _ => True))].
  - pb; [apply pure_m_id|]. apply pure_ret. unfold lit_ok, atom_ok, ATOM_MAX in *. destruct a; [rewrite Z.abs_opp|]; rewrite Z.abs_eq by lia; lia.
Qed.

Definition all {A} (f : A -> bool) (l : list A) : Prop := forallb f l = true.

Lemma pure_atoms_loop seps fuel : pure (m_atoms_loop fuel seps) (all atom_ok).
Proof.
  induction fuel as [|f IH]; [apply pure_oof|]. cbn [m_atoms_loop].
  pb; [apply pure_m_lit|]. pb; [apply pure_require|]. pb; [apply pure_peek|].
  assert (Ha : atom_ok a = true).
  { unfold lit_ok, atom_ok, ATOM_MAX in *. rewrite Z.abs_eq in H by lia. lia. }
  destruct (negb (a1 =? 0) && mem a1 seps).
  - pb; [apply pure_get|]. pb; [apply pure_skipws|]. pb; [apply IH|]. apply pure_ret. unfold all in *. cbn [forallb]. now rewrite Ha.
  - apply pure_ret. unfold all. cbn [forallb]. now rewrite Ha.
Qed.
Lemma pure_m_atoms seps : pure (m_atoms seps) (all atom_ok).
Proof.
  unfold m_atoms. pb; [apply pure_peek|]. destruct (is_lower a); [|now apply pure_ret].
  pb; [apply pure_remaining | apply pure_atoms_loop].
Qed.

Lemma pure_lits_loop fuel : pure (m_lits_loop fuel) (all lit_ok).
Proof.
  induction fuel as [|f IH]; [apply pure_oof|]. cbn [m_lits_loop].
  pb; [apply pure_m_lit|]. pb; [apply pure_mtok|]. destruct a0.
  - pb; [apply IH|]. apply pure_ret. unfold all in *. cbn [forallb]. now rewrite H.
  - apply pure_ret. unfold all. cbn [forallb]. now rewrite H.
Qed.
Lemma pure_m_lits : pure m_lits (all lit_ok).
Proof.
  unfold m_lits. pb; [apply pure_peek|]. destruct (is_lower a); [|now apply pure_ret].
  pb; [apply pure_remaining | apply pure_lits_loop].
Qed.
Lemma pure_m_cond : pure m_cond (all lit_ok).
Proof. unfold m_cond. pb; [apply pure_mtok|]. destruct a; [apply pure_m_lits | now apply pure_ret]. Qed.

Lemma pure_agg_loop fuel : pure (m_agg_loop fuel) (all (wlit_ok false)).
Proof.
  induction fuel as [|f IH]; [apply pure_oof|]. cbn [m_agg_loop].
  pb; [apply pure_m_lit|]. pb; [apply pure_mtok|].
  eapply (pure_bind _ _ (fun v => int_ok v = true)); [destruct a0; [apply pure_m_int | now apply (pure_ret 1 (fun v => int_ok v = true))] | intros ? ?].
  assert (Hw : wlit_ok false (a, a1) = true) by (unfold wlit_ok; cbn [fst snd]; now rewrite H, H1).
  pb; [apply pure_mtok|]. destruct a2.
  - pb; [apply IH|]. apply pure_ret. unfold all in *. cbn [forallb]. now rewrite Hw.
  - apply pure_ret. unfold all. cbn [forallb]. now rewrite Hw.
Qed.
Lemma all_drop0 l : all (wlit_ok false) l -> all (wlit_ok false) (drop0 l).
Proof.
  unfold all, drop0. induction l as [|x r IH]; [reflexivity|]. cbn [forallb filter]. intros H. apply andb_true_iff in H. destruct H as [Hx Hr].
  destruct (negb (snd x =? 0)); [cbn [forallb]; now rewrite Hx, IH | now apply IH].
Qed.
Lemma pure_m_agg : pure m_agg (all (wlit_ok false)).
Proof.
  unfold m_agg. pb; [apply pure_mtok|]. pb; [apply pure_mtok|]. destruct a0; [now apply pure_ret|].
  pb; [apply pure_remaining|]. pb; [apply pure_agg_loop|]. pb; [apply pure_mtok|]. apply pure_ret. now apply all_drop0.
Qed.

(* terms: any byte string *)
Lemma pure_ident_loop fuel : forall sym, pure (m_ident_loop fuel sym) (fun _ => True).
Proof.
  induction fuel as [|f IH]; intros sym; [apply pure_oof|]. cbn [m_ident_loop].
  pb; [apply pure_get|]. pb; [apply pure_peek|]. destruct (is_alnum a0 || (a0 =? 95)); [apply IH | now apply pure_ret].
Qed.
Lemma pure_str_loop fuel : forall q sym, pure (m_str_loop fuel q sym) (fun _ => True).
Proof.
  induction fuel as [|f IH]; intros q sym; [apply pure_oof|]. cbn [m_str_loop].
  pb; [apply pure_peek|]. destruct (negb (a =? 0) && (negb (a =? 34) || q)); [|now apply pure_ret].
  pb; [apply pure_get | apply IH].
Qed.
Lemma pure_m_str sym : pure (m_str sym) (fun _ => True).
Proof.
  unfold m_str. pb; [apply pure_on_str|]. pb; [apply pure_require|]. pb; [apply pure_remaining|].
  pb; [apply pure_str_loop|]. pb; [apply pure_mtok|]. now apply pure_ret.
Qed.
Lemma pure_arg_loop fuel : forall p sym, pure (m_arg_loop fuel p sym) (fun _ => True).
Proof.
  induction fuel as [|f IH]; intros p sym; [apply pure_oof|]. cbn [m_arg_loop].
  pb; [apply pure_peek|]. destruct (a =? 0); [now apply pure_ret|].
  destruct (a =? 34); [pb; [apply pure_m_str | apply IH]|].
  destruct ((a =? 41) && (p - 1 <? 0)); [now apply pure_ret|].
  destruct ((a =? 44) && ((if a =? 41 then p - 1 else p) =? 0)); [now apply pure_ret|].
  pb; [apply pure_get|]. pb; [apply pure_skipws | apply IH].
Qed.
Lemma pure_args_loop fuel : forall sym, pure (m_args_loop fuel sym) (fun _ => True).
Proof.
  induction fuel as [|f IH]; intros sym; [apply pure_oof|]. cbn [m_args_loop].
  pb; [apply pure_remaining|]. pb; [apply pure_arg_loop|]. pb; [apply pure_mtok|]. destruct a1; [apply IH | now apply pure_ret].
Qed.
Lemma pure_m_term : pure m_term (fun _ => True).
Proof.
  unfold m_term. pb; [apply pure_peek|]. pb.
  - instantiate (1 := fun _ => True). destruct (is_lower a || (a =? 95)).
    + pb; [apply pure_remaining|]. pb; [apply pure_ident_loop|]. pb; [apply pure_skipws|]. pb; [apply pure_mtok|].
      destruct a3; [|now apply pure_ret]. pb; [apply pure_remaining|]. pb; [apply pure_args_loop|]. pb; [apply pure_mtok|]. now apply pure_ret.
    + destruct (a =? 34); [apply pure_m_str | apply pure_fail].
  - pb; [apply pure_skipws|]. now apply pure_ret.
Qed.

Lemma pure_m_kw tab : pure (m_kw tab) (fun k => match k with Some v => exists s, In (v, s) tab | None => True end).
Proof.
  induction tab as [|[v s] tab IH]; [now apply pure_ret|]. cbn [m_kw]. pb; [apply pure_mtok|]. destruct a.
  - apply pure_ret. exists s. now left.
  - eapply pure_weaken; [apply IH|]. intros [v0|] H0; [|exact I]. destruct H0 as [s0 H0]. exists s0. now right.
Qed.

Lemma pure_skip_line fuel : pure (skip_line fuel) (fun _ => True).
Proof.
  induction fuel as [|f IH]; [apply pure_oof|]. cbn [skip_line]. pb; [apply pure_peek|]. destruct (a =? 0); [now apply pure_ret|].
  pb; [apply pure_get|]. destruct (a0 =? 10); [now apply pure_ret | apply IH].
Qed.
Lemma pure_m_skip_line : pure m_skip_line (fun _ => True).
Proof. unfold m_skip_line. pb; [apply pure_remaining | apply pure_skip_line]. Qed.
Lemma pure_skip_comments fuel : pure (m_skip_comments fuel) (fun _ => True).
Proof.
  induction fuel as [|f IH]; [apply pure_oof|]. cbn [m_skip_comments]. pb; [apply pure_peek|].
  destruct (a =? 37); [pb; [apply pure_m_skip_line | apply IH] | now apply pure_ret].
Qed.

(* ---------- the invariant on the calls delivered so far (newest first) ---------- *)
Definition Inv (k : Z) (ac : list call) : Prop := contract_ok (rev ac) = true /\ final_state 0 (rev ac) = k.

Lemma protocol_app a : forall st b, protocol_ok st (a ++ b) = protocol_ok st a && protocol_ok (final_state st a) b.
Proof.
  induction a as [|c a IH]; intros st b; [reflexivity|].
  destruct c; cbn [app protocol_ok final_state]; rewrite IH; try (now rewrite andb_assoc).
  all: destruct (st =? 2) eqn:E; [apply Z.eqb_eq in E; subst st; reflexivity | reflexivity].
Qed.
Lemma final_app a : forall st b, final_state st (a ++ b) = final_state (final_state st a) b.
Proof. induction a as [|c a IH]; intros st b; [reflexivity|]. destruct c; cbn [app final_state]; apply IH. Qed.

Definition is_directive (c : call) : bool := match c with CInit _ | CBegin | CEnd => false | _ => true end.

Lemma inv_dir c ac : Inv 2 ac -> is_directive c = true -> call_ok c = true -> Inv 2 (c :: ac).
Proof.
  intros [H1 H2] Hd Hc. unfold Inv, contract_ok in *. cbn [rev]. apply andb_true_iff in H1. destruct H1 as [P F].
  rewrite protocol_app, forallb_app, final_app, H2, P, F. cbn [forallb]. rewrite Hc.
  destruct c; try discriminate Hd; split; reflexivity.
Qed.
Lemma inv_init b : Inv 1 [CInit b].
Proof. split; reflexivity. Qed.
Lemma inv_begin ac : Inv 1 ac -> Inv 2 (CBegin :: ac).
Proof.
  intros [H1 H2]. unfold Inv, contract_ok in *. cbn [rev]. apply andb_true_iff in H1. destruct H1 as [P F].
  rewrite protocol_app, forallb_app, final_app, H2, P, F. split; reflexivity.
Qed.
Lemma inv_end ac : Inv 2 ac -> Inv 1 (CEnd :: ac).
Proof.
  intros [H1 H2]. unfold Inv, contract_ok in *. cbn [rev]. apply andb_true_iff in H1. destruct H1 as [P F].
  rewrite protocol_app, forallb_app, final_app, H2, P, F. split; reflexivity.
Qed.

(* m started with invariant k ends with invariant k' (value Q), or fails with the invariant of some state *)
Definition safe {A} (k : Z) (m : M A) (Q : A -> Prop) (k' : Z) : Prop :=
  forall s, Inv k (acc s) -> match m s with ROk a s' => Q a /\ Inv k' (acc s') | RErr _ c => exists j, Inv j c end.

Lemma safe_pure {A} k (m : M A) Q : pure m Q -> safe k m Q k.
Proof. intros H s Hi. specialize (H s). destruct (m s) as [a s'|l c]; [destruct H as [Hq E]; rewrite E; auto | subst c; eauto]. Qed.
Lemma safe_bind {A B} k k1 k2 (m : M A) (f : A -> M B) P Q :
  safe k m P k1 -> (forall a, P a -> safe k1 (f a) Q k2) -> safe k (bind m f) Q k2.
Proof.
  intros Hm Hf s Hi. unfold bind. specialize (Hm s Hi). destruct (m s) as [a s1|l c]; [|exact Hm].
  destruct Hm as [Pa I1]. apply (Hf a Pa s1 I1).
Qed.
Lemma safe_emit_dir c : is_directive c = true -> call_ok c = true -> safe 2 (emit c) (fun _ => True) 2.
Proof. intros Hd Hc s Hi. split; [exact I | now apply inv_dir]. Qed.
Lemma safe_weaken {A} k k' (m : M A) (P Q : A -> Prop) : safe k m P k' -> (forall a, P a -> Q a) -> safe k m Q k'.
Proof. intros H HPQ s Hi. specialize (H s Hi). destruct (m s); [destruct H; split; auto | exact H]. Qed.

Lemma safe_fail {A} k k' (Q : A -> Prop) : safe k fail Q k'.
Proof. intros s Hi. exists k. exact Hi. Qed.

Ltac sp H := eapply safe_bind; [apply safe_pure; apply H | intros ? ?; cbv beta in *].

Lemma all_wlit_nonneg l : all (wlit_ok false) l -> forallb (fun x => 0 <=? snd x) l = true -> forallb (wlit_ok true) l = true.
Proof.
  unfold all. induction l as [|x r IH]; [reflexivity|]. cbn [forallb]. intros H1 H2.
  apply andb_true_iff in H1. apply andb_true_iff in H2. destruct H1 as [A1 A2], H2 as [B1 B2]. rewrite IH by assumption.
  unfold wlit_ok in *. rewrite B1. rewrite andb_true_r in A1. rewrite A1. reflexivity.
Qed.

Lemma safe_m_rule c : safe 2 (m_rule c) (fun _ => True) 2.
Proof.
  unfold m_rule.
  eapply (safe_bind 2 2 2 _ _ (fun x => (fst x = 0 \/ fst x = 1) /\ all atom_ok (snd x))).
  - apply safe_pure. destruct (c =? 123).
    + pb; [apply pure_mtok|]. pb; [apply pure_m_atoms|]. pb; [apply pure_mtok|]. apply pure_ret. split; [now right | exact H0].
    + pb; [apply pure_m_atoms|]. apply pure_ret. split; [now left | exact H].
  - intros [ht h] [Hht Hh]. cbn [fst snd] in *. sp pure_mtok.
    eapply (safe_bind 2 2 2 _ _ (fun r => is_directive r = true /\ call_ok r = true)).
    + apply safe_pure. assert (Hhtb : ((ht =? 0) || (ht =? 1)) = true) by (destruct Hht as [-> | ->]; reflexivity).
      destruct a.
      * pb; [apply pure_peek|]. destruct (negb (is_digit a) && negb (a =? 45)).
        -- pb; [apply pure_m_lits|]. apply pure_ret. split; [reflexivity|]. cbn [call_ok]. unfold all in *. now rewrite Hhtb, Hh, H1.
        -- pb; [apply pure_m_int|]. pb; [apply pure_m_agg|]. pb; [apply pure_require|]. apply pure_ret. split; [reflexivity|].
           cbn [call_ok]. unfold all in Hh. rewrite Hhtb, Hh, H1, (all_wlit_nonneg _ H2 H3). reflexivity.
      * apply pure_ret. split; [reflexivity|]. cbn [call_ok]. unfold all in Hh. now rewrite Hhtb, Hh.
    + intros r [Hd Hc]. sp pure_mtok. now apply safe_emit_dir.
Qed.

Lemma ext_tab_vals : forall v s, In (v, s) ext_tab -> 0 <= v <= 3.
Proof. intros v s H. cbn in H. destruct H as [E|[E|[E|[]]]]; inversion E; lia. Qed.
Lemma heu_tab_vals : forall v s, In (v, s) heu_tab -> 0 <= v <= 5.
Proof. intros v s H. cbn in H. destruct H as [E|[E|[E|[E|[E|[E|[]]]]]]]; inversion E; lia. Qed.

Lemma safe_m_directive inc : safe 2 (m_directive inc) (fun _ => True) 2.
Proof.
  unfold m_directive. sp pure_mtok. destruct a.
  { sp pure_m_agg. sp pure_mtok. eapply (safe_bind 2 2 2 _ _ (fun p => int_ok p = true)); [apply safe_pure; destruct a0; [apply pure_m_int | now apply pure_ret]|].
    intros p Hp. sp pure_mtok. eapply safe_bind; [apply safe_emit_dir; [reflexivity | cbn [call_ok]; unfold all in H0; now rewrite Hp, H0] | intros; now apply safe_pure, pure_ret]. }
  sp pure_mtok. destruct a.
  { sp pure_mtok. eapply (safe_bind 2 2 2 _ _ (all atom_ok)).
    - apply safe_pure. destruct a; [pb; [apply pure_m_atoms|]; pb; [apply pure_mtok | now apply pure_ret] | now apply pure_ret].
    - intros at0 Hat. sp pure_mtok. eapply safe_bind; [apply safe_emit_dir; [reflexivity | exact Hat] | intros; now apply safe_pure, pure_ret]. }
  sp pure_mtok. destruct a.
  { sp pure_m_term. sp pure_m_cond. sp pure_mtok.
    eapply safe_bind; [apply safe_emit_dir; [reflexivity | exact H3] | intros; now apply safe_pure, pure_ret]. }
  sp pure_mtok. destruct a.
  { sp pure_m_id. sp pure_mtok. sp pure_mtok. eapply (safe_bind 2 2 2 _ _ (fun v => 0 <= v <= 3)).
    - apply safe_pure. destruct a1; [|apply pure_ret; unfold ext_false; lia].
      pb; [apply pure_m_kw|]. pb.
      + destruct a1 as [v|].
        * apply (pure_ret v (fun v => 0 <= v <= 3)). destruct H6 as [s Hs]. exact (ext_tab_vals v s Hs).
        * pb; [apply pure_mtok|]. apply (pure_ret ext_false (fun v => 0 <= v <= 3)). unfold ext_false. lia.
      + pb; [apply pure_mtok|]. now apply pure_ret.
    - intros v Hv. eapply safe_bind; [apply safe_emit_dir; [reflexivity | cbn [call_ok]; rewrite H3; lia] | intros; now apply safe_pure, pure_ret]. }
  sp pure_mtok. destruct a.
  { sp pure_mtok. eapply (safe_bind 2 2 2 _ _ (all lit_ok)).
    - apply safe_pure. destruct a; [pb; [apply pure_m_lits|]; pb; [apply pure_mtok | now apply pure_ret] | now apply pure_ret].
    - intros l Hl. sp pure_mtok. eapply safe_bind; [apply safe_emit_dir; [reflexivity | exact Hl] | intros; now apply safe_pure, pure_ret]. }
  sp pure_mtok. destruct a.
  { sp pure_m_id. sp pure_m_cond. sp pure_mtok. sp pure_mtok. sp pure_m_int. sp pure_mtok.
    eapply (safe_bind 2 2 2 _ _ (fun p => 0 <= p <= 2147483647)).
    - apply safe_pure. destruct a4; [|apply pure_ret; lia]. pb; [apply pure_m_int|]. pb; [apply pure_require|]. apply pure_ret. unfold int_ok in *. lia.
    - intros p Hp. sp pure_mtok. sp pure_m_kw.
      match goal with Hk : match ?k with Some _ => _ | None => True end |- _ => destruct k as [h|]; [destruct Hk as [sn Hsn] | intros s Hi; exists 2; exact Hi] end.
      pose proof (heu_tab_vals h sn Hsn) as Hh. sp pure_skipws. sp pure_mtok.
      eapply safe_bind; [apply safe_emit_dir; [reflexivity | cbn [call_ok]; unfold all, ATOM_MAX in *;
        repeat match goal with Hx : _ = true |- _ => rewrite Hx; clear Hx end; lia] | intros; now apply safe_pure, pure_ret]. }
  sp pure_mtok. destruct a.
  { sp pure_mtok. sp pure_m_int. sp pure_mtok. sp pure_m_int. sp pure_mtok. sp pure_m_cond. sp pure_mtok.
    eapply safe_bind; [apply safe_emit_dir; [reflexivity | cbn [call_ok]; unfold all in H11; now rewrite H7, H9, H11] | intros; now apply safe_pure, pure_ret]. }
  sp pure_mtok. destruct a.
  { sp pure_require. sp pure_mtok. now apply safe_pure, pure_ret. }
  sp pure_mtok. destruct a.
  { sp pure_mtok. now apply safe_pure, pure_ret. }
  apply safe_pure, pure_fail.
Qed.

Lemma safe_m_statements inc fuel : safe 2 (m_statements fuel inc) (fun _ => True) 2.
Proof.
  induction fuel as [|f IH]; [apply safe_pure, pure_oof|]. cbn [m_statements].
  sp pure_peek. destruct (a =? 0); [now apply safe_pure, pure_ret|].
  destruct (a =? 46); [sp pure_mtok; exact IH|].
  destruct (a =? 35); [eapply safe_bind; [apply safe_m_directive | intros b _; destruct b; [exact IH | now apply safe_pure, pure_ret]]|].
  destruct (a =? 37); [sp pure_m_skip_line; exact IH|].
  eapply safe_bind; [apply safe_m_rule | intros; exact IH].
Qed.

Lemma safe_m_steps inc fuel : safe 1 (m_steps fuel inc) (fun _ => True) 1.
Proof.
  induction fuel as [|f IH]; [apply safe_pure, pure_oof|]. cbn [m_steps].
  eapply (safe_bind 1 2 1 _ _ (fun _ => True)); [intros s Hi; split; [exact I | now apply inv_begin]|]. intros _ _.
  sp pure_remaining. eapply safe_bind; [apply safe_m_statements|]. intros _ _.
  eapply (safe_bind 2 1 1 _ _ (fun _ => True)); [intros s Hi; split; [exact I | now apply inv_end]|]. intros _ _.
  sp pure_skipws. sp pure_peek. sp pure_require. destruct (a1 =? 0); [now apply safe_pure, pure_ret | exact IH].
Qed.

Lemma final_state_pos r : forall st, 1 <= st -> 1 <= final_state st r.
Proof. induction r as [|c r IH]; intros st H; [exact H|]. destruct c; cbn [final_state]; apply IH; lia. Qed.
Lemma inv0_nil ac : Inv 0 ac -> ac = [].
Proof.
  intros [H1 H2]. destruct (rev ac) as [|c r] eqn:E.
  - apply (f_equal (@rev call)) in E. now rewrite rev_involutive in E.
  - exfalso. unfold contract_ok in H1. apply andb_true_iff in H1. destruct H1 as [P _].
    destruct c; cbn [protocol_ok final_state] in *; try discriminate P.
    pose proof (final_state_pos r 1 ltac:(lia)). lia.
Qed.

Lemma safe_m_program : safe 0 m_program (fun _ => True) 1.
Proof.
  unfold m_program. sp pure_peek. destruct ((a =? 0) || is_lower a || mem a attach_chars); [|apply safe_fail].
  sp pure_remaining. sp pure_skip_comments. sp pure_mtok.
  eapply (safe_bind 0 0 1 _ _ (fun _ => True)); [apply safe_pure; destruct a2; [pb; [apply pure_mtok | now apply pure_ret] | now apply pure_ret]|].
  intros inc _. eapply (safe_bind 0 1 1 _ _ (fun _ => True)).
  - intros s Hi. split; [exact I|]. cbn [emit acc]. rewrite (inv0_nil _ Hi). apply inv_init.
  - intros _ _. sp pure_remaining. apply safe_m_steps.
Qed.

(* ---------- the theorem, for every byte list ---------- *)
Theorem contract_all t :
  contract_ok (delivered (read_text t)) = true /\
  (accepted (read_text t) = true -> steps_closed (delivered (read_text t)) = true).
Proof.
  unfold read_text. pose proof (safe_m_program (mkR (a_init t) []) (conj eq_refl eq_refl)) as H.
  destruct (m_program (mkR (a_init t) [])) as [u s|l c]; cbn [delivered accepted].
  - destruct H as [_ [H1 H2]]. split; [exact H1|]. intros _. unfold steps_closed. now rewrite H2.
  - destruct H as [j [H1 _]]. split; [exact H1 | discriminate].
Qed.
