(* C10 - the input syntax as a relation between programs (call sequences) and texts: G_x v txt says that txt is one
   of the ways to write v.  Every token may be followed by arbitrary white space (blank, tab, LF, CR: bytes 9..32); the
   white space after "not" must be non-empty; an atom occurrence may be spelled a..z (atoms 1..26), x<n> or x_<n>;
   comment lines and stray dots may stand between statements.  Quantifying over all txt with G_program p txt is
   quantifying over all spellings sigma and layouts l.  Definitions only. *)
Require Import V.Lib.Base V.Lib.Calls V.Lib.Dec V.C09.Spec V.Gen.Consts_C10 V.C10.Model V.C10.Args.
Local Open Scope Z_scope.

Definition wsl (w : list Z) : Prop := forallb is_ws w = true.

Definition G_tok (t : list Z) (txt : list Z) : Prop := exists w, wsl w /\ txt = t ++ w.

Definition atom_ok (a : Z) : Prop := 1 <= a <= INT_MAX.
Definition spelling (a : Z) (sp : list Z) : Prop :=
  (1 <= a <= 26 /\ sp = [96 + a]) \/ sp = 120 :: print_nat a \/ sp = 120 :: 95 :: print_nat a.
Definition G_atom (a : Z) (txt : list Z) : Prop := exists sp w, spelling a sp /\ wsl w /\ txt = sp ++ w.

Definition lit_ok (l : Z) : Prop := atom_ok (Z.abs l).
Definition G_lit (l : Z) (txt : list Z) : Prop :=
  if l <? 0 then exists w t, wsl w /\ w <> [] /\ G_atom (- l) t /\ txt = t_not ++ w ++ t
  else G_atom l txt.

Definition G_int (v : Z) (txt : list Z) : Prop := exists w, wsl w /\ txt = print_Z v ++ w.

(* non-empty separated lists *)
Fixpoint G_list1 {A} (G : A -> list Z -> Prop) (S : list Z -> Prop) (xs : list A) (txt : list Z) : Prop :=
  match xs with
  | [] => False
  | x :: r => match r with
              | [] => G x txt
              | _ => exists t1 ts t2, G x t1 /\ S ts /\ G_list1 G S r t2 /\ txt = t1 ++ ts ++ t2
              end
  end.
Definition G_list0 {A} (G : A -> list Z -> Prop) (S : list Z -> Prop) (xs : list A) (txt : list Z) : Prop :=
  match xs with [] => txt = [] | _ => G_list1 G S xs txt end.

Definition G_sep (seps : list Z) (txt : list Z) : Prop := exists c w, In c seps /\ wsl w /\ txt = c :: w.

Definition G_cond (c : list Z) (txt : list Z) : Prop :=
  (c = [] /\ txt = []) \/ exists t1 t2, G_tok t_colon t1 /\ G_list0 G_lit (G_tok t_comma) c t2 /\ txt = t1 ++ t2.

(* weighted literal: the weight may be omitted when it is 1 *)
Definition G_wlit (x : Z * Z) (txt : list Z) : Prop :=
  exists t1 t2, G_lit (fst x) t1 /\ txt = t1 ++ t2 /\
    ((snd x = 1 /\ t2 = []) \/ exists te ti, G_tok t_eq te /\ G_int (snd x) ti /\ t2 = te ++ ti).
Definition G_agg (l : list (Z * Z)) (txt : list Z) : Prop :=
  exists t1 t2 t3, G_tok t_lbrace t1 /\ G_list0 G_wlit (G_tok t_comma) l t2 /\ G_tok t_rbrace t3 /\ txt = t1 ++ t2 ++ t3.

(* #output terms: an identifier, a quoted string (no CR, NUL; quotes escaped by backslash), or an identifier with an
   argument list (C10/Args.v: characters and strings, balanced parentheses; white space may follow every character
   outside strings and is not part of the term) *)
Definition is_idchar (c : Z) : bool := is_alnum c || (c =? 95).
Definition simple_term (t : list Z) : Prop :=
  (exists c r, t = c :: r /\ (is_lower c || (c =? 95)) = true /\ forallb is_idchar r = true) \/
  (exists b, t = [34] ++ b ++ [34] /\ str_ok false b = true).
Definition args_term (t : list Z) : Prop :=
  exists c r args, t = (c :: r) ++ [40] ++ args_canon args ++ [41] /\ (is_lower c || (c =? 95)) = true /\
                   forallb is_idchar r = true /\ Forall (fun a => arg_ok 0 a = true) args /\ args <> [].
Definition term_ok (t : list Z) : Prop := simple_term t \/ args_term t.
Definition G_term (t : list Z) (txt : list Z) : Prop :=
  (simple_term t /\ exists w, wsl w /\ txt = t ++ w) \/
  (exists c r args w0 w1 ta w2,
     t = (c :: r) ++ [40] ++ args_canon args ++ [41] /\ (is_lower c || (c =? 95)) = true /\ forallb is_idchar r = true /\
     Forall (fun a => arg_ok 0 a = true) args /\ wsl w0 /\ wsl w1 /\ wsl w2 /\ G_args args ta /\
     txt = (c :: r) ++ w0 ++ [40] ++ w1 ++ ta ++ [41] ++ w2).

Definition wlits_ok (l : list (Z * Z)) : Prop := Forall (fun x => lit_ok (fst x) /\ in_int (snd x) = true) l.

(* one directive *)
Definition G_head (ht : Z) (h : list Z) (txt : list Z) : Prop :=
  if ht =? 0 then G_list0 G_atom (G_sep t_disj_seps) h txt
  else exists t1 t2 t3, G_tok t_lbrace t1 /\ G_list0 G_atom (G_sep t_choice_seps) h t2 /\ G_tok t_rbrace t3 /\ txt = t1 ++ t2 ++ t3.

Definition G_stmt (c : call) (txt : list Z) : Prop :=
  match c with
  | CRule ht h b =>
      exists th tb td, G_head ht h th /\ G_tok t_dot td /\ txt = th ++ tb ++ td /\
        ((b = [] /\ (ht <> 0 \/ h <> []) /\ tb = []) \/
         exists ti tl, G_tok t_if ti /\ G_list0 G_lit (G_tok t_comma) b tl /\ tb = ti ++ tl)
  | CWRule ht h bd b =>
      exists th ti tn ta td, G_head ht h th /\ G_tok t_if ti /\ G_int bd tn /\ G_agg b ta /\ G_tok t_dot td /\
        txt = th ++ ti ++ tn ++ ta ++ td
  | CMin p l =>
      exists t0 ta tp td, G_tok t_minimize t0 /\ G_agg l ta /\ G_tok t_dot td /\ txt = t0 ++ ta ++ tp ++ td /\
        ((p = 0 /\ tp = []) \/ exists t1 t2, G_tok t_at t1 /\ G_int p t2 /\ tp = t1 ++ t2)
  | CProject a =>
      exists t0 tb td, G_tok t_project t0 /\ G_tok t_dot td /\ txt = t0 ++ tb ++ td /\
        ((a = [] /\ tb = []) \/ exists t1 t2 t3, G_tok t_lbrace t1 /\ G_list0 G_atom (G_tok t_comma) a t2 /\ G_tok t_rbrace t3 /\ tb = t1 ++ t2 ++ t3)
  | COutput n c =>
      exists w0 tt tc td, wsl w0 /\ G_term n tt /\ G_cond c tc /\ G_tok t_dot td /\ txt = t_output ++ w0 ++ tt ++ tc ++ td
  | CExternal a v =>
      exists t0 ta td tv, G_tok t_external t0 /\ G_atom a ta /\ G_tok t_dot td /\ txt = t0 ++ ta ++ td ++ tv /\
        ((v = ext_false /\ tv = []) \/
         exists t1 t2 t3 name, G_tok t_lbrack t1 /\ G_tok name t2 /\ G_tok t_rbrack t3 /\ tv = t1 ++ t2 ++ t3 /\
           (In (v, name) ext_tab \/ (v = ext_false /\ name = t_false)))
  | CAssume l =>
      exists t0 tb td, G_tok t_assume t0 /\ G_tok t_dot td /\ txt = t0 ++ tb ++ td /\
        ((l = [] /\ tb = []) \/ exists t1 t2 t3, G_tok t_lbrace t1 /\ G_list0 G_lit (G_tok t_comma) l t2 /\ G_tok t_rbrace t3 /\ tb = t1 ++ t2 ++ t3)
  | CHeuristic a t b p c =>
      exists t0 ta tc td t1 tb tp t2 name t3 t4,
        G_tok t_heuristic t0 /\ G_atom a ta /\ G_cond c tc /\ G_tok t_dot td /\ G_tok t_lbrack t1 /\ G_int b tb /\
        G_tok t_comma t2 /\ In (t, name) heu_tab /\ G_tok name t3 /\ G_tok t_rbrack t4 /\
        txt = t0 ++ ta ++ tc ++ td ++ t1 ++ tb ++ tp ++ t2 ++ t3 ++ t4 /\
        ((p = 0 /\ tp = []) \/ exists u1 u2, G_tok t_at u1 /\ G_int p u2 /\ tp = u1 ++ u2)
  | CEdge x y c =>
      exists t0 t1 tx t2 ty t3 tc td,
        G_tok t_edge t0 /\ G_tok t_lpar t1 /\ G_int x tx /\ G_tok t_comma t2 /\ G_int y ty /\ G_tok t_rpar t3 /\
        G_cond c tc /\ G_tok t_dot td /\ txt = t0 ++ t1 ++ tx ++ t2 ++ ty ++ t3 ++ tc ++ td
  | _ => False
  end.

Definition stmt_ok (c : call) : Prop :=
  match c with
  | CRule ht h b => (ht = 0 \/ ht = 1) /\ Forall atom_ok h /\ Forall lit_ok b
  | CWRule ht h bd b => (ht = 0 \/ ht = 1) /\ Forall atom_ok h /\ in_int bd = true /\ wlits_ok b /\ Forall (fun x => 0 <= snd x) b
  | CMin p l => in_int p = true /\ wlits_ok l
  | CProject a => Forall atom_ok a
  | COutput n c => term_ok n /\ Forall lit_ok c
  | CExternal a v => atom_ok a /\ 0 <= v <= 3
  | CAssume l => Forall lit_ok l
  | CHeuristic a t b p c => atom_ok a /\ 0 <= t <= 5 /\ in_int b = true /\ 0 <= p <= INT_MAX /\ Forall lit_ok c
  | CEdge x y c => in_int x = true /\ in_int y = true /\ Forall lit_ok c
  | _ => False
  end.

(* what the reader delivers: weight 0 omitted *)
Definition norm_call (c : call) : call :=
  match c with
  | CWRule ht h bd b => CWRule ht h bd (drop0 b)
  | CMin p l => CMin p (drop0 l)
  | _ => c
  end.

(* filler between statements: comment lines (up to LF or CR) and stray dots *)
Definition no_nl (l : list Z) : Prop := Forall (fun c => c <> 10 /\ c <> 13 /\ c <> 0) l.
Inductive G_filler : list Z -> Prop :=
| F_nil : G_filler []
| F_comment body nl w r : no_nl body -> (nl = [10] \/ (nl = [13] /\ hd 0 (w ++ r) <> 10) \/ nl = [13; 10]) -> wsl w -> G_filler r ->
    G_filler ([37] ++ body ++ nl ++ w ++ r)
| F_dot t r : G_tok t_dot t -> G_filler r -> G_filler (t ++ r).

(* the statements of one step: filler, then statements each followed by filler *)
Inductive G_stmts : list call -> list Z -> Prop :=
| S_nil f : G_filler f -> G_stmts [] f
| S_cons c cs f t r : G_filler f -> G_stmt c t -> G_stmts cs r -> G_stmts (c :: cs) (f ++ t ++ r).

(* steps: in incremental programs separated by "#step" "." ; the text after a "#step." must not be empty (a trailing
   "#step." at the end of the input opens no step) *)
Fixpoint G_steps (steps : list (list call)) (txt : list Z) : Prop :=
  match steps with
  | [] => False
  | cs :: more =>
      match more with
      | [] => G_stmts cs txt
      | _ => exists t1 ts td t2, G_stmts cs t1 /\ G_tok t_step ts /\ G_tok t_dot td /\ G_steps more t2 /\ t2 <> [] /\
                                  txt = t1 ++ ts ++ td ++ t2
      end
  end.

(* comment lines before the first statement *)
Inductive G_comments : list Z -> Prop :=
| C_nil : G_comments []
| C_cons body nl w r : no_nl body -> (nl = [10] \/ (nl = [13] /\ hd 0 (w ++ r) <> 10) \/ nl = [13; 10]) -> wsl w -> G_comments r ->
    G_comments ([37] ++ body ++ nl ++ w ++ r).

Definition G_program (inc : bool) (steps : list (list call)) (txt : list Z) : Prop :=
  exists w0 tc ti ts, wsl w0 /\ G_comments tc /\ G_steps steps ts /\ txt = w0 ++ tc ++ ti ++ ts /\
    (if inc then exists t1 t2, G_tok t_incremental t1 /\ G_tok t_dot t2 /\ ti = t1 ++ t2
     else ti = [] /\ length steps = 1%nat /\ hd 0 ts <> 37).   (* leading comment lines are all counted to tc *)

Definition program_calls (inc : bool) (steps : list (list call)) : list call :=
  CInit inc :: flat_map (fun cs => CBegin :: map norm_call cs ++ [CEnd]) steps.
