(* C10 - whatever the printer writes is in the grammar; hence the round trip for every sigma and l. *)
Require Import V.Lib.Base V.Lib.Calls V.Lib.Dec V.C09.Spec V.Gen.Consts_C10 V.C10.Model V.C10.Args V.C10.Grammar
               V.C10.ProofsStream V.C10.ProofsRead V.C10.ProofsStmt V.C10.ProofsProg V.C10.Print.
Local Open Scope Z_scope.

Section P.
Variable sigma : nat -> nat.
Variable l : nat -> list Z.
Notation ws := (ws l).
Notation ptok := (ptok l).
Notation ptok1 := (ptok1 l).
Notation patom := (patom sigma l).
Notation plit := (plit sigma l).
Notation pint := (pint l).
Notation pcond := (pcond sigma l).
Notation pwlit := (pwlit sigma l).
Notation pagg := (pagg sigma l).
Notation phead := (phead sigma l).
Notation pstmt := (pstmt sigma l).
Notation pstmts := (pstmts sigma l).
Notation psteps := (psteps sigma l).

Lemma wsl_ws k : wsl (ws k).
Proof. unfold wsl, Print.ws. induction (l k) as [|c r IH]; [reflexivity|]. simpl. destruct (is_ws c) eqn:E; [simpl; now rewrite E, IH | exact IH]. Qed.
Lemma wsl_ws1 k : wsl (32 :: ws k).
Proof. unfold wsl. simpl. apply wsl_ws. Qed.

Lemma L_tok t k : G_tok t (fst (ptok t k)).
Proof. exists (ws k). split; [apply wsl_ws | reflexivity]. Qed.
Lemma L_tok1 t k : G_tok t (fst (ptok1 t k)).
Proof. exists (32 :: ws k). split; [apply wsl_ws1 | reflexivity]. Qed.
Lemma L_int v k : G_int v (fst (pint v k)).
Proof. exists (ws k). split; [apply wsl_ws | reflexivity]. Qed.

Lemma L_atom a k : atom_ok a -> G_atom a (fst (patom a k)).
Proof.
  intros Ha. exists (spell (sigma k) a), (ws k). split; [|split; [apply wsl_ws | reflexivity]].
  unfold spell, spelling. destruct (sigma k mod 3)%nat as [|[|n]].
  - destruct ((1 <=? a) && (a <=? 26)) eqn:E; [left; split; [lia | reflexivity] | right; left; reflexivity].
  - right. left. reflexivity.
  - right. right. reflexivity.
Qed.

Lemma L_lit x k : lit_ok x -> G_lit x (fst (plit x k)).
Proof.
  unfold lit_ok, G_lit, Print.plit. intros Hx. destruct (Z.ltb_spec x 0).
  - exists (32 :: ws k), (fst (patom (- x) (S k))). split; [apply wsl_ws1|]. split; [discriminate|]. split.
    + apply L_atom. now replace (- x) with (Z.abs x) by lia.
    + cbn [pcat Print.ptok1 fst snd]. now rewrite <- app_assoc.
  - apply L_atom. now replace x with (Z.abs x) by lia.
Qed.

Lemma L_list1 {A} (G : A -> list Z -> Prop) (S : list Z -> Prop) (f : A -> PT) (sep : PT) xs :
  (forall x k, In x xs -> G x (fst (f x k))) -> (forall k, S (fst (sep k))) -> xs <> [] ->
  forall k, G_list1 G S xs (fst (plist f sep xs k)).
Proof.
  induction xs as [|x r IH]; intros HG HS Hne k; [congruence|]. destruct r as [|y r'].
  - cbn. apply HG. now left.
  - apply G_list1_cons. cbn [plist]. eexists _, _, _. split; [apply (HG x k); now left|]. split; [apply HS|]. split.
    + apply IH; [intros z j Hz; apply HG; now right | exact HS | discriminate].
    + reflexivity.
Qed.
Lemma L_list0 {A} (G : A -> list Z -> Prop) (S : list Z -> Prop) (f : A -> PT) (sep : PT) xs :
  (forall x k, In x xs -> G x (fst (f x k))) -> (forall k, S (fst (sep k))) ->
  forall k, G_list0 G S xs (fst (plist f sep xs k)).
Proof. intros HG HS k. destruct xs as [|x r]; [reflexivity|]. apply L_list1; [exact HG | exact HS | discriminate]. Qed.

Lemma L_lits c k : Forall lit_ok c -> G_list0 G_lit (G_tok t_comma) c (fst (plist plit (ptok t_comma) c k)).
Proof. intros H. apply L_list0; [intros x j Hx; apply L_lit; rewrite Forall_forall in H; now apply H | intros j; apply L_tok]. Qed.
Lemma L_cond c k : Forall lit_ok c -> G_cond c (fst (pcond c k)).
Proof.
  intros H. destruct c as [|x r]; [left; split; reflexivity|]. right. cbn [Print.pcond pcat fst snd].
  eexists _, _. split; [apply L_tok|]. split; [now apply L_lits | reflexivity].
Qed.
Lemma L_wlit x k : lit_ok (fst x) -> G_wlit x (fst (pwlit x k)).
Proof.
  intros H. unfold Print.pwlit. cbn [pcat fst snd]. eexists _, _. split; [now apply L_lit|]. split; [reflexivity|].
  right. eexists _, _. split; [apply L_tok|]. split; [apply L_int | reflexivity].
Qed.
Lemma L_agg b k : wlits_ok b -> G_agg b (fst (pagg b k)).
Proof.
  intros H. unfold Print.pagg. cbn [pcat fst snd]. eexists _, _, _. split; [apply L_tok|]. split; [|split; [apply L_tok | reflexivity]].
  apply L_list0; [|intros j; apply L_tok]. intros x j Hx. apply L_wlit. unfold wlits_ok in H. rewrite Forall_forall in H. now apply H.
Qed.
Lemma G_tok_in_sep c seps t : In c seps -> G_tok [c] t -> G_sep seps t.
Proof. intros Hc (w & Hw & ->). exists c, w. auto. Qed.
Lemma L_head ht h k : (ht = 0 \/ ht = 1) -> Forall atom_ok h -> G_head ht h (fst (phead ht h k)).
Proof.
  intros Hht Hh. unfold G_head, Print.phead. destruct Hht as [-> | ->].
  - change (0 =? 0) with true. cbv iota. apply L_list0; [intros x j Hx; apply L_atom; rewrite Forall_forall in Hh; now apply Hh|].
    intros j. apply (G_tok_in_sep 59); [now left | apply L_tok].
  - change (1 =? 0) with false. cbv iota. cbn [pcat fst snd]. eexists _, _, _. split; [apply L_tok|]. split; [|split; [apply L_tok | reflexivity]].
    apply L_list0; [intros x j Hx; apply L_atom; rewrite Forall_forall in Hh; now apply Hh|].
    intros j. apply (G_tok_in_sep 59); [now left | apply L_tok].
Qed.

Lemma G_items_canon a : G_items a (canon a).
Proof. induction a as [|i r IH]; [reflexivity|]. cbn [G_items canon flat_map]. exists [], (canon r). split; [reflexivity|]. split; [exact IH | reflexivity]. Qed.
Lemma G_args_canon args : args <> [] -> G_args args (args_canon args).
Proof.
  induction args as [|a more IH]; intros Hne; [congruence|]. cbn [G_args args_canon]. destruct more as [|b more'].
  - apply G_items_canon.
  - exists (canon a), [], (args_canon (b :: more')). split; [apply G_items_canon|]. split; [reflexivity|]. split; [apply IH; discriminate | reflexivity].
Qed.
Lemma L_term n k : term_ok n -> G_term n (fst (ptok n k)).
Proof.
  intros [Hs | (c & r & args & -> & Hc & Hr & Ha & Hne)].
  - left. split; [exact Hs|]. exists (ws k). split; [apply wsl_ws | reflexivity].
  - right. exists c, r, args, [], [], (args_canon args), (ws k). repeat split; try assumption; try reflexivity.
    + apply wsl_ws.
    + now apply G_args_canon.
    + cbn [Print.ptok fst]. now rewrite <- !app_assoc.
Qed.

Lemma heu_name_in t : 0 <= t <= 5 -> In (t, assoc_name t heu_tab) heu_tab /\ assoc_name t heu_tab <> [].
Proof.
  intros H. assert (Hc : t = 0 \/ t = 1 \/ t = 2 \/ t = 3 \/ t = 4 \/ t = 5) by lia.
  destruct Hc as [-> | [-> | [-> | [-> | [-> | ->]]]]]; (split; [cbn; auto 10 | discriminate]).
Qed.
Lemma ext_name_in v : 0 <= v <= 3 -> In (v, ext_name v) ext_tab \/ (v = ext_false /\ ext_name v = t_false).
Proof.
  intros H. assert (Hc : v = 0 \/ v = 1 \/ v = 2 \/ v = 3) by lia.
  destruct Hc as [-> | [-> | [-> | ->]]]; cbn; auto 10.
Qed.

Lemma L_stmt c k : stmt_ok c -> G_stmt c (fst (pstmt c k)).
Proof.
  intros Hc. destruct c as [ | | |ht head body|ht head bound body|prio lits|atoms|name0 cond|a v|lits|a hm bias prio cond|es et cond| | | | | | ]; simpl in Hc; try contradiction;
    cbn [G_stmt Print.pstmt pcat fst snd].
  - destruct Hc as (Hht & Hh & Hb). eexists _, _, _. split; [now apply L_head|]. split; [apply L_tok|]. split; [reflexivity|].
    right. eexists _, _. split; [apply L_tok|]. split; [now apply L_lits | reflexivity].
  - destruct Hc as (Hht & Hh & Hbd & Hb & _). eexists _, _, _, _, _. split; [now apply L_head|]. split; [apply L_tok|]. split; [apply L_int|].
    split; [now apply L_agg|]. split; [apply L_tok | reflexivity].
  - destruct Hc as (Hp & Hl). eexists _, _, _, _. split; [apply L_tok|]. split; [now apply L_agg|]. split; [apply L_tok|]. split; [reflexivity|].
    right. eexists _, _. split; [apply L_tok|]. split; [apply L_int | reflexivity].
  - eexists _, _, _. split; [apply L_tok|]. split; [apply L_tok|]. split; [reflexivity|].
    right. eexists _, _, _. split; [apply L_tok|]. split; [|split; [apply L_tok | reflexivity]].
    apply L_list0; [intros x j Hx; apply L_atom; rewrite Forall_forall in Hc; now apply Hc | intros j; apply L_tok].
  - destruct Hc as (Hn & Hcnd). exists (32 :: ws k). eexists _, _, _. split; [apply wsl_ws1|]. split; [now apply L_term|]. split; [now apply L_cond|].
    split; [apply L_tok|]. cbn [Print.ptok1 fst]. now rewrite <- app_assoc.
  - destruct Hc as (Ha & Hv). eexists _, _, _, _. split; [apply L_tok|]. split; [now apply L_atom|]. split; [apply L_tok|]. split; [reflexivity|].
    right. eexists _, _, _, (ext_name v). split; [apply L_tok|]. split; [apply L_tok|]. split; [apply L_tok|]. split; [reflexivity | now apply ext_name_in].
  - eexists _, _, _. split; [apply L_tok|]. split; [apply L_tok|]. split; [reflexivity|].
    right. eexists _, _, _. split; [apply L_tok|]. split; [now apply L_lits|]. split; [apply L_tok | reflexivity].
  - destruct Hc as (Ha & Ht & Hb & Hp & Hcnd). destruct (heu_name_in hm Ht) as [Hin _].
    eexists _, _, _, _, _, _, _, _, (assoc_name hm heu_tab), _, _.
    split; [apply L_tok|]. split; [now apply L_atom|]. split; [now apply L_cond|]. split; [apply L_tok|]. split; [apply L_tok|]. split; [apply L_int|].
    split; [apply L_tok|]. split; [exact Hin|]. split; [apply L_tok|]. split; [apply L_tok|]. split; [reflexivity|].
    right. eexists _, _. split; [apply L_tok|]. split; [apply L_int | reflexivity].
  - destruct Hc as (Hx & Hy & Hcnd). eexists _, _, _, _, _, _, _, _. split; [apply L_tok|]. split; [apply L_tok|]. split; [apply L_int|]. split; [apply L_tok|].
    split; [apply L_int|]. split; [apply L_tok|]. split; [now apply L_cond|]. split; [apply L_tok | reflexivity].
Qed.

Lemma L_stmts cs : Forall stmt_ok cs -> forall k, G_stmts cs (fst (pstmts cs k)).
Proof.
  induction 1 as [|c cs Hc Hcs IH]; intros k; [apply S_nil; constructor|]. cbn [Print.pstmts pcat fst snd].
  change (fst (pstmt c k) ++ fst (pstmts cs (snd (pstmt c k)))) with ([] ++ fst (pstmt c k) ++ fst (pstmts cs (snd (pstmt c k)))).
  apply S_cons; [constructor | now apply L_stmt | apply IH].
Qed.

Lemma stmt_text_ne c t : stmt_ok c -> G_stmt c t -> t <> [].
Proof.
  intros Hc Ht E. subst t. destruct (r_stmt false c [] Hc Ht) as [[E _] | (E & _)]; [discriminate E | apply E; reflexivity].
Qed.
Lemma stmts_text_ne cs k : Forall stmt_ok cs -> cs <> [] -> fst (pstmts cs k) <> [].
Proof.
  intros H Hne. destruct cs as [|c r]; [congruence|]. cbn [Print.pstmts pcat fst]. inversion H; subst.
  pose proof (stmt_text_ne c _ H2 (L_stmt c k H2)) as Hn. destruct (fst (pstmt c k)); [congruence | discriminate].
Qed.

Lemma L_steps steps : Forall (Forall stmt_ok) steps -> steps <> [] -> Forall (fun cs => cs <> []) (tl steps) ->
  forall k, G_steps steps (fst (psteps steps k)).
Proof.
  induction steps as [|cs more IH]; intros HP Hne Htl k; [congruence|]. inversion HP as [|? ? Hcs Hmore]; subst.
  cbn [G_steps Print.psteps]. destruct more as [|cs2 more'].
  - now apply L_stmts.
  - cbn [pcat fst snd]. eexists _, _, _, _. split; [now apply L_stmts|]. split; [apply L_tok|]. split; [apply L_tok|].
    cbn [tl] in Htl. inversion Htl as [|? ? Hc2 Htl']; subst. split; [apply IH; [exact Hmore | discriminate | exact Htl']|]. split; [|reflexivity].
    cbn [Print.psteps]. inversion Hmore; subst. destruct more' as [|cs3 more''].
    + now apply stmts_text_ne.
    + cbn [pcat fst]. intro E. apply app_eq_nil in E. destruct E as [E _]. revert E. now apply stmts_text_ne.
Qed.

Lemma steps_no_comment steps k : Forall (Forall stmt_ok) steps -> hd 0 (fst (psteps steps k)) <> 37.
Proof.
  intros HP. destruct steps as [|cs more]; [discriminate|]. inversion HP as [|? ? Hcs _]; subst.
  assert (H : forall X, hd 0 (fst (pstmts cs k) ++ X) <> 37 \/ fst (pstmts cs k) = []).
  { intros X. destruct cs as [|c r]; [now right|]. left. cbn [Print.pstmts pcat fst]. inversion Hcs; subst.
    pose proof (L_stmt c k H1) as G. destruct (r_stmt false c _ H1 G) as [[E _] | (_ & _ & _ & E & _)];
      pose proof (stmt_text_ne c _ H1 G) as Hn; destruct (fst (pstmt c k)) as [|x q]; try congruence; cbn [app hd] in *; congruence. }
  cbn [Print.psteps]. destruct more as [|cs2 more'].
  - destruct (H []) as [A | A]; [now rewrite app_nil_r in A | rewrite A; discriminate].
  - cbn [pcat fst]. destruct (H (fst (pcat (ptok t_step) (pcat (ptok t_dot) (psteps (cs2 :: more'))) (snd (pstmts cs k))))) as [A | A]; [exact A|].
    rewrite A. discriminate.
Qed.

Theorem printer_roundtrip inc steps : Forall (Forall stmt_ok) steps -> steps <> [] -> (inc = false -> length steps = 1%nat) ->
  Forall (fun cs => cs <> []) (tl steps) ->
  observe (read_text (print_text sigma l inc steps)) = 1 :: 0 :: enc_calls (program_calls inc steps).
Proof.
  intros HP Hne Hinc Htl. apply roundtrip; [exact HP|]. unfold print_text. destruct inc.
  - cbn [pcat fst snd]. exists [], [], (fst (ptok t_incremental O) ++ fst (ptok t_dot 1%nat)), (fst (psteps steps 2%nat)).
    split; [reflexivity|]. split; [constructor|]. split; [now apply L_steps|]. split; [now rewrite <- app_assoc|].
    eexists _, _. split; [apply L_tok|]. split; [apply L_tok | reflexivity].
  - exists [], [], [], (fst (psteps steps O)). split; [reflexivity|]. split; [constructor|]. split; [now apply L_steps|]. split; [reflexivity|].
    split; [reflexivity|]. split; [now apply Hinc | now apply steps_no_comment].
Qed.
End P.
