(* C10 - facts about the abstract stream on concrete text, and the "reads" combinators used by the round-trip proof. *)
Require Import V.Lib.Base V.Lib.Calls V.Lib.Dec V.C09.Spec V.Gen.Consts_C10 V.C10.Model V.C10.Grammar.
Local Open Scope Z_scope.

Definition nws (l : list Z) : Prop := is_ws (hd 0 l) = false.

Lemma match10 {A} (l : list Z) (f : list Z -> A) (d : A) :
  (match l with 10 :: r' => f r' | _ => d end) = match l with x :: r' => if x =? 10 then f r' else d | [] => d end.
Proof.
  destruct l as [|x r']; [reflexivity|]. destruct (Z.eqb_spec x 10) as [->|n]; [reflexivity|].
  destruct x as [|p|p]; try reflexivity.
  repeat (try reflexivity; destruct p as [p|p|]); try reflexivity. exfalso. apply n. reflexivity.
Qed.

Lemma skipws_l_ws n : forall w tail ln, (length w <= n)%nat -> wsl w -> nws tail -> exists ln', a_skipws_l (w ++ tail) ln = amk tail ln'.
Proof.
  induction n as [|n IH]; intros w tail ln Hl Hw Ht.
  - destruct w; [|simpl in Hl; lia]. simpl. destruct tail as [|c r]; [eexists; reflexivity|].
    unfold nws in Ht. simpl in Ht. simpl. rewrite Ht. eexists; reflexivity.
  - destruct w as [|c r].
    + simpl. destruct tail as [|c r]; [eexists; reflexivity|]. unfold nws in Ht. simpl in Ht. simpl. rewrite Ht. eexists; reflexivity.
    + unfold wsl in Hw. simpl in Hw. apply andb_true_iff in Hw. destruct Hw as [Hc Hr].
      cbn [app a_skipws_l]. rewrite Hc. rewrite match10.
      destruct (c =? 13).
      * destruct r as [|x r'].
        -- cbn [app]. destruct tail as [|t tr]; [apply (IH [] [] _); [simpl; lia | reflexivity | exact Ht]|].
           destruct (Z.eqb_spec t 10) as [->|]; [unfold nws in Ht; simpl in Ht; discriminate|].
           apply (IH [] (t :: tr)); [simpl; lia | reflexivity | exact Ht].
        -- cbn [app]. simpl in Hr. apply andb_true_iff in Hr. destruct Hr as [Hx Hr'].
           destruct (x =? 10).
           ++ apply IH; [simpl in Hl; lia | exact Hr' | exact Ht].
           ++ apply (IH (x :: r')); [simpl in *; lia | unfold wsl; simpl; now rewrite Hx | exact Ht].
      * apply IH; [simpl in Hl; lia | exact Hr | exact Ht].
Qed.

Lemma a_skipws_ws w tail ln : wsl w -> nws tail -> exists ln', a_skipws (amk (w ++ tail) ln) = amk tail ln'.
Proof. intros. unfold a_skipws. cbn [rest aline]. now apply (skipws_l_ws (length w)). Qed.

Lemma a_skipws_nws l ln : nws l -> a_skipws (amk l ln) = amk l ln.
Proof.
  intros H. unfold a_skipws. cbn [rest aline]. destruct l as [|c r]; [reflexivity|].
  unfold nws in H. simpl in H. simpl. now rewrite H.
Qed.

Lemma list_eqb_refl t : list_eqb t t = true.
Proof. now apply list_eqb_eq. Qed.

Lemma a_match_tok_yes t l ln : a_match_tok t (amk (t ++ l) ln) = (true, amk l ln).
Proof.
  unfold a_match_tok. cbn [rest aline]. rewrite firstn_app, Nat.sub_diag, firstn_all. cbn [firstn]. rewrite app_nil_r, list_eqb_refl.
  rewrite skipn_app, Nat.sub_diag, skipn_all. reflexivity.
Qed.

Lemma a_match_tok_no_hd a t c l ln : a <> c -> a_match_tok (a :: t) (amk (c :: l) ln) = (false, amk (c :: l) ln).
Proof.
  intros H. unfold a_match_tok. cbn [rest aline length firstn list_eqb]. destruct (Z.eqb_spec c a); [congruence|]. reflexivity.
Qed.
Lemma a_match_tok_no_nil a t ln : a_match_tok (a :: t) (amk [] ln) = (false, amk [] ln).
Proof. reflexivity. Qed.
Lemma a_match_tok_no_hd0 a t l ln : a <> hd 0 l -> a <> 0 -> a_match_tok (a :: t) (amk l ln) = (false, amk l ln).
Proof. intros H H0. destruct l as [|c r]; [reflexivity|]. now apply a_match_tok_no_hd. Qed.
Lemma a_match_tok_no_2 a b t c d l ln : b <> d -> a_match_tok (a :: b :: t) (amk (c :: d :: l) ln) = (false, amk (c :: d :: l) ln).
Proof.
  intros H. unfold a_match_tok. cbn [rest aline length firstn list_eqb]. destruct (Z.eqb_spec d b); [congruence|].
  now rewrite andb_false_r.
Qed.
Lemma a_match_tok_no_short a b t c ln : a_match_tok (a :: b :: t) (amk [c] ln) = (false, amk [c] ln).
Proof. unfold a_match_tok. cbn [rest aline length firstn list_eqb]. now rewrite andb_false_r. Qed.

Lemma a_get_plain c l ln : c <> 13 -> exists ln', a_get (amk (c :: l) ln) = (c, amk l ln').
Proof.
  intros H. unfold a_get. cbn [rest aline]. destruct (Z.eqb_spec c 13); [contradiction|].
  destruct (Z.eqb_spec c 10) as [->|]; eexists; reflexivity.
Qed.

(* ---------- numbers ---------- *)
Definition nd (l : list Z) : Prop := is_digit (hd 0 l) = false.

Lemma a_digits_spec ds : forall tail acc, all_digits ds -> nd tail -> 0 <= acc -> value_acc acc ds <= INT64_MAX ->
  a_digits (ds ++ tail) acc true = (value_acc acc ds, true, tail).
Proof.
  induction ds as [|d ds IH]; intros tail acc Hd Ht Ha Hv.
  - cbn [app value_acc]. destruct tail as [|c r]; [reflexivity|]. unfold nd in Ht. cbn [hd] in Ht. cbn [a_digits]. now rewrite Ht.
  - inversion Hd as [|? ? Hd1 Hd2]; subst. cbn [app a_digits value_acc]. rewrite Hd1. cbn [andb].
    assert (Hdig : 0 <= to_digit d <= 9) by (unfold is_digit, to_digit in *; lia).
    pose proof (value_acc_mono (acc * 10 + to_digit d) ds ltac:(lia) Hd2) as Hm. cbn [value_acc] in Hv.
    assert (E : acc <=? (INT64_MAX - to_digit d) / 10 = true).
    { apply Z.leb_le. apply Z.div_le_lower_bound; lia. }
    rewrite E. apply IH; try assumption; lia.
Qed.

Lemma a_match_int_spec v tail ln : in_int v = true -> nd tail ->
  a_match_int false (amk (print_Z v ++ tail) ln) = (Some v, amk tail ln).
Proof.
  intros Hv Ht. unfold in_int, INT_MIN, INT_MAX in Hv. unfold a_match_int, print_Z.
  destruct (Z.ltb_spec v 0) as [Hn|Hn].
  - rewrite a_skipws_nws by reflexivity. cbn [app a_peek rest aline]. change ((45 =? 43) || (45 =? 45)) with true. cbv iota. cbn [tl].
    destruct (print_nat_spec (- v) ltac:(lia)) as (Hd & Hne & Hval & _).
    destruct (print_nat (- v)) as [|d ds] eqn:E; [congruence|]. inversion Hd as [|? ? Hd1 Hd2]; subst.
    cbn [app]. rewrite Hd1.
    assert (Hdig : 0 <= to_digit d <= 9) by (unfold is_digit, to_digit in *; lia).
    assert (Hvv : value_acc (to_digit d) ds = - v).
    { specialize (Hval 0). cbn [value_acc] in Hval. rewrite Z.mul_0_l, Z.add_0_l in Hval.
      replace (0 * 10 ^ Z.of_nat (length (d :: ds)) + - v) with (- v) in Hval by lia. exact Hval. }
    rewrite a_digits_spec; try assumption; [|lia| unfold INT64_MAX; lia].
    rewrite Hvv. change (45 =? 45) with true. cbv iota. f_equal. f_equal. lia.
  - destruct (print_nat_spec v Hn) as (Hd & Hne & Hval & _).
    destruct (print_nat v) as [|d ds] eqn:E; [congruence|]. inversion Hd as [|? ? Hd1 Hd2]; subst.
    assert (Hdig : 0 <= to_digit d <= 9) by (unfold is_digit, to_digit in *; lia).
    assert (Hnws : nws ((d :: ds) ++ tail)) by (unfold nws; simpl; unfold is_digit, is_ws in *; lia).
    rewrite a_skipws_nws by exact Hnws. cbn [app a_peek rest aline].
    assert (Hs : (d =? 43) || (d =? 45) = false) by (unfold is_digit in Hd1; lia). rewrite Hs.
    rewrite Hd1.
    assert (Hvv : value_acc (to_digit d) ds = v).
    { specialize (Hval 0). cbn [value_acc] in Hval. rewrite Z.mul_0_l, Z.add_0_l in Hval. lia. }
    rewrite a_digits_spec; try assumption; [|lia| unfold INT64_MAX; lia].
    rewrite Hvv. assert (d =? 45 = false) as -> by (unfold is_digit in Hd1; lia). reflexivity.
Qed.

(* ---------- the "reads" relation: m consumes exactly txt, returns v, delivers the calls eff (newest first) ---------- *)
Definition reads {A} (m : M A) (txt : list Z) (v : A) (eff : list call) (ok : list Z -> Prop) : Prop :=
  forall tail ln ac, ok tail -> exists ln', m (mkR (amk (txt ++ tail) ln) ac) = ROk v (mkR (amk tail ln') (eff ++ ac)).

Lemma reads_ret {A} (v : A) ok : reads (ret v) [] v [] ok.
Proof. intros tail ln ac _. eexists. reflexivity. Qed.

Lemma reads_bind {A B} (m : M A) (k : A -> M B) t1 t2 v1 v2 e1 e2 (ok1 ok2 : list Z -> Prop) :
  reads m t1 v1 e1 ok1 -> reads (k v1) t2 v2 e2 ok2 -> (forall tail, ok2 tail -> ok1 (t2 ++ tail)) ->
  reads (bind m k) (t1 ++ t2) v2 (e2 ++ e1) ok2.
Proof.
  intros H1 H2 Hok tail ln ac Ht. unfold bind. rewrite <- app_assoc.
  destruct (H1 (t2 ++ tail) ln ac (Hok tail Ht)) as [ln1 E1]. rewrite E1.
  destruct (H2 tail ln1 (e1 ++ ac) Ht) as [ln2 E2]. rewrite E2. rewrite <- app_assoc. eexists. reflexivity.
Qed.

Lemma reads_weaken {A} (m : M A) t v e (ok ok' : list Z -> Prop) : reads m t v e ok -> (forall l, ok' l -> ok l) -> reads m t v e ok'.
Proof. intros H Hw tail ln ac Ht. apply H. now apply Hw. Qed.

Lemma reads_eq {A} (m : M A) t t' v e ok : reads m t v e ok -> t = t' -> reads m t' v e ok.
Proof. intros H <-. exact H. Qed.

Lemma reads_emit c ok : reads (emit c) [] tt [c] ok.
Proof. intros tail ln ac _. eexists. reflexivity. Qed.

Lemma reads_require ok : reads (require true) [] tt [] ok.
Proof. intros tail ln ac _. eexists. reflexivity. Qed.

Lemma reads_remaining {A} (f : nat -> M A) t v e (ok : list Z -> Prop) :
  (forall n, (length t < n)%nat -> reads (f n) t v e ok) -> reads (bind remaining f) t v e ok.
Proof.
  intros H tail ln ac Ht. unfold bind, remaining. cbn [str rest].
  apply H; [rewrite app_length; lia | exact Ht].
Qed.

(* peek without consuming *)
Lemma peek_false l ln ac : peek false (mkR (amk l ln) ac) = ROk (hd 0 l) (mkR (amk l ln) ac).
Proof. unfold peek, on_str. cbn. destruct l; reflexivity. Qed.
Lemma peek_true_nws l ln ac : nws l -> peek true (mkR (amk l ln) ac) = ROk (hd 0 l) (mkR (amk l ln) ac).
Proof. intros H. unfold peek, on_str. cbn [str acc]. rewrite a_skipws_nws by exact H. destruct l; reflexivity. Qed.

(* a token followed by optional white space *)
Lemma reads_tok t w req : wsl w -> reads (mtok t req) (t ++ w) true [] nws.
Proof.
  intros Hw tail ln ac Ht. unfold mtok, bind, on_str. cbn [str acc]. rewrite <- app_assoc, a_match_tok_yes.
  unfold skipws, on_str. cbn [str acc]. destruct (a_skipws_ws w tail ln Hw Ht) as [ln' E]. rewrite E. eexists. reflexivity.
Qed.

Lemma skipws_reads w : wsl w -> reads skipws w tt [] nws.
Proof.
  intros Hw tail ln ac Ht. unfold skipws, on_str. cbn [str acc]. destruct (a_skipws_ws w tail ln Hw Ht) as [ln' E]. rewrite E. eexists. reflexivity.
Qed.

(* an optional token that is absent: decided on the first character *)
Lemma mtok_absent a t l ln ac : a <> hd 0 l -> a <> 0 -> mtok (a :: t) false (mkR (amk l ln) ac) = ROk false (mkR (amk l ln) ac).
Proof. intros H H0. unfold mtok, bind, on_str. cbn [str acc]. rewrite a_match_tok_no_hd0 by assumption. reflexivity. Qed.

(* ---------- more combinators ---------- *)
Lemma reads_bind0 {A B} (m : M A) (k : A -> M B) t v1 v2 e1 e2 (ok1 ok2 : list Z -> Prop) :
  reads m [] v1 e1 ok1 -> reads (k v1) t v2 e2 ok2 -> (forall tail, ok2 tail -> ok1 (t ++ tail)) ->
  reads (bind m k) t v2 (e2 ++ e1) ok2.
Proof. intros H1 H2 Hok. apply (reads_bind m k [] t v1 v2 e1 e2 ok1 ok2 H1 H2 Hok). Qed.

Lemma reads_eff {A} (m : M A) t v e e' ok : reads m t v e ok -> e = e' -> reads m t v e' ok.
Proof. intros H <-. exact H. Qed.

Lemma reads_bind_peek {B} (k : Z -> M B) (P : Z -> Prop) t v e (ok : list Z -> Prop) :
  (forall c, P c -> reads (k c) t v e ok) ->
  (forall tail, ok tail -> P (hd 0 (t ++ tail)) /\ nws (t ++ tail)) ->
  reads (bind (peek true) k) t v e ok.
Proof.
  intros Hk Hp tail ln ac Ht. destruct (Hp tail Ht) as [HP Hn]. unfold bind. rewrite peek_true_nws by exact Hn.
  apply (Hk _ HP tail ln ac Ht).
Qed.
Lemma reads_bind_peek_raw {B} (k : Z -> M B) (P : Z -> Prop) t v e (ok : list Z -> Prop) :
  (forall c, P c -> reads (k c) t v e ok) ->
  (forall tail, ok tail -> P (hd 0 (t ++ tail))) ->
  reads (bind (peek false) k) t v e ok.
Proof.
  intros Hk Hp tail ln ac Ht. unfold bind. rewrite peek_false. apply (Hk _ (Hp tail Ht) tail ln ac Ht).
Qed.

Lemma reads_tok_absent a t : a <> 0 -> reads (mtok (a :: t) false) [] false [] (fun tail => a <> hd 0 tail).
Proof. intros H0 tail ln ac Ht. cbn [app]. rewrite mtok_absent by assumption. eexists. reflexivity. Qed.

Fixpoint mism (p l : list Z) : bool :=
  match p, l with a :: p', b :: l' => if a =? b then mism p' l' else true | _, _ => false end.
Lemma list_eqb_mism p : forall c l, mism p c = true -> list_eqb (firstn (length p) (c ++ l)) p = false.
Proof.
  induction p as [|a p IH]; intros c l H; [discriminate|]. destruct c as [|b c]; [discriminate|].
  cbn [mism] in H. cbn [length app firstn list_eqb]. destruct (Z.eqb_spec a b) as [->|Hne].
  - rewrite Z.eqb_refl. cbn [andb]. now apply IH.
  - destruct (Z.eqb_spec b a); [congruence | reflexivity].
Qed.
Lemma reads_tok_mism s kw : mism s kw = true -> reads (mtok s false) [] false [] (fun tail => exists l, tail = kw ++ l).
Proof.
  intros H tail ln ac (l & ->). cbn [app]. unfold mtok, bind, on_str. cbn [str acc].
  unfold a_match_tok. cbn [rest aline]. rewrite (list_eqb_mism s kw l H). eexists. reflexivity.
Qed.

(* keyword tables *)
Fixpoint kw_first (tab : list (Z * list Z)) (name : list Z) (v : Z) : bool :=
  match tab with
  | [] => false
  | (v0, s) :: r => if list_eqb s name then (v0 =? v) && negb (match s with [] => true | _ => false end) else mism s name && kw_first r name v
  end.
Lemma r_kw tab : forall name v w, kw_first tab name v = true -> wsl w -> reads (m_kw tab) (name ++ w) (Some v) [] nws.
Proof.
  induction tab as [|[v0 s] tab IH]; intros name v w H Hw; [discriminate|]. cbn [kw_first] in H. cbn [m_kw].
  destruct (list_eqb s name) eqn:E.
  - apply list_eqb_eq in E. subst s. apply andb_true_iff in H. destruct H as [Hv _]. apply Z.eqb_eq in Hv. subst v0.
    eapply reads_eff; [eapply reads_eq; [eapply (reads_bind _ _ (name ++ w) [] true); [apply reads_tok; exact Hw | apply reads_ret | intros tail Ht; rewrite app_nil_l; exact Ht] | now rewrite app_nil_r] | reflexivity].
  - apply andb_true_iff in H. destruct H as [Hm Hk].
    eapply reads_eff; [eapply (reads_bind0 _ _ (name ++ w) false); [apply (reads_tok_mism s name Hm) | apply IH; eassumption | intros tail _; rewrite <- app_assoc; eexists; reflexivity] | reflexivity].
Qed.
Lemma r_kw_none tab : forall name, forallb (fun e => mism (snd e) name) tab = true ->
  reads (m_kw tab) [] None [] (fun tail => exists l, tail = name ++ l).
Proof.
  induction tab as [|[v0 s] tab IH]; intros name H; [apply reads_ret|]. cbn [forallb snd] in H. apply andb_true_iff in H. destruct H as [Hm Hk].
  cbn [m_kw]. eapply reads_eff; [eapply (reads_bind0 _ _ [] false); [apply (reads_tok_mism s name Hm) | apply IH; exact Hk | intros tail Ht; exact Ht] | reflexivity].
Qed.
