(* C10 - a concrete printer: print_text sigma l inc steps writes a program in the input syntax, where sigma k chooses
   the spelling of the k-th token if it is an atom (k mod 3: letter if possible / x<n> / x_<n>) and l k supplies the
   white space after the k-th token (the white-space bytes of l k; at least a blank after "not" and "#output").
   Optional parts are always written.  Definitions only. *)
Require Import V.Lib.Base V.Lib.Calls V.Lib.Dec V.C09.Spec V.Gen.Consts_C10 V.C10.Model.
Local Open Scope Z_scope.

Section Printer.
Variable sigma : nat -> nat.
Variable l : nat -> list Z.

Definition PT := nat -> list Z * nat.        (* token counter -> (text, next counter) *)
Definition pcat (a b : PT) : PT := fun k => (fst (a k) ++ fst (b (snd (a k))), snd (b (snd (a k)))).
Definition pnil : PT := fun k => ([], k).
Definition ws (k : nat) : list Z := filter is_ws (l k).
Definition ptok (t : list Z) : PT := fun k => (t ++ ws k, S k).
Definition ptok1 (t : list Z) : PT := fun k => (t ++ 32 :: ws k, S k).

Definition spell (n : nat) (a : Z) : list Z :=
  match (n mod 3)%nat with
  | O => if (1 <=? a) && (a <=? 26) then [96 + a] else 120 :: print_nat a
  | S O => 120 :: print_nat a
  | _ => 120 :: 95 :: print_nat a
  end.
Definition patom (a : Z) : PT := fun k => (spell (sigma k) a ++ ws k, S k).
Definition plit (x : Z) : PT := if x <? 0 then pcat (ptok1 t_not) (patom (- x)) else patom x.
Definition pint (v : Z) : PT := fun k => (print_Z v ++ ws k, S k).

Fixpoint plist {A} (f : A -> PT) (sep : PT) (xs : list A) : PT :=
  match xs with
  | [] => pnil
  | x :: r => match r with [] => f x | _ => pcat (f x) (pcat sep (plist f sep r)) end
  end.

Definition pcond (c : list Z) : PT := match c with [] => pnil | _ => pcat (ptok t_colon) (plist plit (ptok t_comma) c) end.
Definition pwlit (x : Z * Z) : PT := pcat (plit (fst x)) (pcat (ptok t_eq) (pint (snd x))).
Definition pagg (b : list (Z * Z)) : PT := pcat (ptok t_lbrace) (pcat (plist pwlit (ptok t_comma) b) (ptok t_rbrace)).
Definition phead (ht : Z) (h : list Z) : PT :=
  if ht =? 0 then plist patom (ptok [59]) h else pcat (ptok t_lbrace) (pcat (plist patom (ptok [59]) h) (ptok t_rbrace)).

Definition ext_name (v : Z) : list Z :=
  if v =? 0 then [102; 114; 101; 101] else if v =? 1 then [116; 114; 117; 101] else if v =? 3 then [114; 101; 108; 101; 97; 115; 101] else t_false.
Fixpoint assoc_name (t : Z) (tab : list (Z * list Z)) : list Z :=
  match tab with [] => [] | (v, s) :: r => if t =? v then s else assoc_name t r end.

Definition pstmt (c : call) : PT :=
  match c with
  | CRule ht h b => pcat (phead ht h) (pcat (pcat (ptok t_if) (plist plit (ptok t_comma) b)) (ptok t_dot))
  | CWRule ht h bd b => pcat (phead ht h) (pcat (ptok t_if) (pcat (pint bd) (pcat (pagg b) (ptok t_dot))))
  | CMin p b => pcat (ptok t_minimize) (pcat (pagg b) (pcat (pcat (ptok t_at) (pint p)) (ptok t_dot)))
  | CProject a => pcat (ptok t_project) (pcat (pcat (ptok t_lbrace) (pcat (plist patom (ptok t_comma) a) (ptok t_rbrace))) (ptok t_dot))
  | COutput n c => pcat (ptok1 t_output) (pcat (ptok n) (pcat (pcond c) (ptok t_dot)))
  | CExternal a v => pcat (ptok t_external) (pcat (patom a) (pcat (ptok t_dot) (pcat (ptok t_lbrack) (pcat (ptok (ext_name v)) (ptok t_rbrack)))))
  | CAssume b => pcat (ptok t_assume) (pcat (pcat (ptok t_lbrace) (pcat (plist plit (ptok t_comma) b) (ptok t_rbrace))) (ptok t_dot))
  | CHeuristic a t b p c =>
      pcat (ptok t_heuristic) (pcat (patom a) (pcat (pcond c) (pcat (ptok t_dot) (pcat (ptok t_lbrack) (pcat (pint b)
        (pcat (pcat (ptok t_at) (pint p)) (pcat (ptok t_comma) (pcat (ptok (assoc_name t heu_tab)) (ptok t_rbrack)))))))))
  | CEdge x y c =>
      pcat (ptok t_edge) (pcat (ptok t_lpar) (pcat (pint x) (pcat (ptok t_comma) (pcat (pint y) (pcat (ptok t_rpar) (pcat (pcond c) (ptok t_dot)))))))
  | _ => pnil
  end.

Fixpoint pstmts (cs : list call) : PT :=
  match cs with [] => pnil | c :: r => pcat (pstmt c) (pstmts r) end.
Fixpoint psteps (steps : list (list call)) : PT :=
  match steps with
  | [] => pnil
  | cs :: more => match more with [] => pstmts cs | _ => pcat (pstmts cs) (pcat (ptok t_step) (pcat (ptok t_dot) (psteps more))) end
  end.
Definition print_text (inc : bool) (steps : list (list call)) : list Z :=
  fst ((if inc then pcat (ptok t_incremental) (pcat (ptok t_dot) (psteps steps)) else psteps steps) O).
End Printer.
