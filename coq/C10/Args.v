(* C10 - argument lists of #output terms: structure (characters and quoted strings), validity, canonical bytes and
   the ways to write them (white space after every character outside strings).  Definitions only. *)
Require Import V.Lib.Base V.C09.Spec V.C10.Model.
Local Open Scope Z_scope.

(* the body of a quoted string: no NUL, no CR, no unescaped quote, does not end inside an escape *)
Fixpoint str_ok (quoted : bool) (b : list Z) : bool :=
  match b with
  | [] => negb quoted
  | c :: r => negb (c =? 0) && negb (c =? 13) && negb ((c =? 34) && negb quoted) && str_ok (negb quoted && (c =? 92)) r
  end.

Inductive item := IChar (c : Z) | IStr (b : list Z).
Definition item_canon (i : item) : list Z := match i with IChar c => [c] | IStr b => [34] ++ b ++ [34] end.
Definition canon (a : list item) : list Z := flat_map item_canon a.

(* one argument at parenthesis depth p: balanced, commas only inside parentheses *)
Fixpoint arg_ok (p : Z) (a : list item) : bool :=
  match a with
  | [] => p =? 0
  | IStr b :: r => str_ok false b && arg_ok p r
  | IChar c :: r =>
      negb (c =? 0) && negb (c =? 13) && negb (c =? 34) && negb (is_ws c) &&
      (if c =? 41 then (1 <=? p) && arg_ok (p - 1) r
       else if c =? 44 then (1 <=? p) && arg_ok p r
       else if c =? 40 then arg_ok (p + 1) r
       else arg_ok p r)
  end.

Definition wsl0 (w : list Z) : Prop := forallb is_ws w = true.

Fixpoint G_items (a : list item) (txt : list Z) : Prop :=
  match a with
  | [] => txt = []
  | i :: r => exists w t, wsl0 w /\ G_items r t /\ txt = item_canon i ++ w ++ t
  end.

Fixpoint G_args (args : list (list item)) (txt : list Z) : Prop :=
  match args with
  | [] => False
  | a :: more => match more with
                 | [] => G_items a txt
                 | _ => exists t1 w t2, G_items a t1 /\ wsl0 w /\ G_args more t2 /\ txt = t1 ++ [44] ++ w ++ t2
                 end
  end.

Fixpoint args_canon (args : list (list item)) : list Z :=
  match args with
  | [] => []
  | a :: more => match more with [] => canon a | _ => canon a ++ [44] ++ args_canon more end
  end.
