(* C10 - the argument scanner of #output terms reads back argument lists written with arbitrary white space. *)
Require Import V.Lib.Base V.Lib.Calls V.C09.Spec V.Gen.Consts_C10 V.C10.Model V.C10.Args V.C10.Grammar V.C10.ProofsStream V.C10.ProofsRead.
Require Import ZifyBool.
Local Open Scope Z_scope.

Lemma wsl0_wsl w : wsl0 w -> wsl w.
Proof. exact (fun H => H). Qed.

Lemma r_str_loop b : forall quoted sym fuel, str_ok quoted b = true -> (length b < fuel)%nat ->
  reads (m_str_loop fuel quoted sym) b (sym ++ b) [] (fun tail => hd 0 tail = 34).
Proof.
  induction b as [|c b IH]; intros quoted sym fuel Hs Hf tail ln ac Ht; (destruct fuel as [|fu]; [simpl in Hf; lia|]);
    cbn [m_str_loop app]; unfold bind; rewrite peek_false.
  - cbn [str_ok] in Hs. apply negb_true_iff in Hs. subst quoted. rewrite Ht. change (negb (34 =? 0) && (negb (34 =? 34) || false)) with false.
    rewrite app_nil_r. eexists. reflexivity.
  - cbn [str_ok] in Hs. apply andb_true_iff in Hs. destruct Hs as [Hs H4]. apply andb_true_iff in Hs. destruct Hs as [Hs H3].
    apply andb_true_iff in Hs. destruct Hs as [H1 H2]. cbn [hd].
    assert (E : negb (c =? 0) && (negb (c =? 34) || quoted) = true).
    { rewrite H1. cbn [andb]. destruct (c =? 34), quoted; try reflexivity. discriminate H3. }
    rewrite E. destruct (get_plain c (b ++ tail) ln ac ltac:(lia)) as [ln1 E1]. rewrite E1.
    destruct (IH (negb quoted && (c =? 92)) (sym ++ [c]) fu H4 ltac:(simpl in Hf; lia) tail ln1 ac Ht) as [ln2 E2]. rewrite E2.
    rewrite <- app_assoc. eexists. reflexivity.
Qed.

Lemma r_str b w sym : str_ok false b = true -> wsl w -> reads (m_str sym) ([34] ++ b ++ [34] ++ w) (sym ++ [34] ++ b ++ [34]) [] nws.
Proof.
  intros Hb Hw tail ln ac Ht. unfold m_str, bind, on_str. cbn [str acc]. change t_quote with [34]. rewrite <- !app_assoc.
  rewrite a_match_tok_yes. unfold require, remaining. cbn [str rest].
  destruct (r_str_loop b false (sym ++ [34]) (S (length (b ++ [34] ++ w ++ tail))) Hb ltac:(rewrite app_length; lia) ([34] ++ w ++ tail) ln ac eq_refl) as [ln1 E1].
  rewrite E1.
  destruct (reads_tok [34] w true Hw tail ln1 ([] ++ ac) Ht) as [ln2 E2]. rewrite <- !app_assoc in E2. rewrite E2.
  eexists. unfold ret. rewrite <- !app_assoc. reflexivity.
Qed.

(* the first character of an item list is not white space (or the list is empty) *)
Lemma items_nws a : forall p txt l, arg_ok p a = true -> G_items a txt -> nws l -> nws (txt ++ l).
Proof.
  destruct a as [|i r]; intros p txt l Hok HG Hl.
  - simpl in HG. subst txt. exact Hl.
  - cbn [G_items] in HG. destruct HG as (w & t & _ & _ & ->). destruct i as [c|b].
    + cbn [arg_ok] in Hok. apply andb_true_iff in Hok. destruct Hok as [Hok _]. apply andb_true_iff in Hok. destruct Hok as [_ Hws].
      unfold nws. cbn [item_canon app hd]. now apply negb_true_iff in Hws.
    + reflexivity.
Qed.

Definition ok_arg (tail : list Z) : Prop := hd 0 tail = 44 \/ hd 0 tail = 41.
Lemma ok_arg_nws l : ok_arg l -> nws l.
Proof. unfold ok_arg, nws. intros [-> | ->]; reflexivity. Qed.

Lemma r_arg_loop a : forall p sym fuel txt, 0 <= p -> arg_ok p a = true -> G_items a txt -> (length txt < fuel)%nat ->
  reads (m_arg_loop fuel p sym) txt (sym ++ canon a) [] ok_arg.
Proof.
  induction a as [|i r IH]; intros p sym fuel txt Hp Hok HG Hf tail ln ac Ht; (destruct fuel as [|fu]; [lia|]).
  - simpl in HG. subst txt. cbn [arg_ok] in Hok. apply Z.eqb_eq in Hok. subst p. cbn [m_arg_loop app canon flat_map]. unfold bind. rewrite peek_false.
    rewrite app_nil_r. destruct Ht as [E | E]; rewrite E.
    + change (44 =? 0) with false. change (44 =? 34) with false. change ((44 =? 41) && (0 - 1 <? 0)) with false. cbv iota.
      change ((44 =? 44) && ((if 44 =? 41 then 0 - 1 else 0) =? 0)) with true. cbv iota. eexists. reflexivity.
    + change (41 =? 0) with false. change (41 =? 34) with false. change ((41 =? 41) && (0 - 1 <? 0)) with true. cbv iota. eexists. reflexivity.
  - cbn [G_items] in HG. destruct HG as (w & t & Hw & Ht2 & ->). destruct i as [c|b].
    + cbn [arg_ok] in Hok. apply andb_true_iff in Hok. destruct Hok as [Hok Hrest]. apply andb_true_iff in Hok. destruct Hok as [Hok Hws].
      apply andb_true_iff in Hok. destruct Hok as [Hok H34]. apply andb_true_iff in Hok. destruct Hok as [H0 H13].
      apply negb_true_iff in H0, H13, H34, Hws.
      cbn [item_canon app m_arg_loop]. unfold bind. rewrite peek_false. cbn [hd]. rewrite H0, H34.
      (* where the loop continues *)
      assert (Hcont : exists p', 0 <= p' /\ arg_ok p' r = true /\
                ((c =? 41) && (p - 1 <? 0) = false) /\
                ((c =? 44) && ((if c =? 41 then p - 1 else p) =? 0) = false) /\
                (if c =? 41 then p - 1 else p) + (if c =? 40 then 1 else 0) = p').
      { destruct (Z.eqb_spec c 41) as [->|N41].
        - apply andb_true_iff in Hrest. destruct Hrest as [Hp1 Hr]. exists (p - 1).
          split; [lia | split; [exact Hr | split; [apply andb_false_intro2; lia | split; [reflexivity | change (41 =? 40) with false; lia]]]].
        - destruct (Z.eqb_spec c 44) as [->|N44].
          + apply andb_true_iff in Hrest. destruct Hrest as [Hp1 Hr]. exists p.
            split; [lia | split; [exact Hr | split; [reflexivity | split; [cbn [andb]; lia | change (44 =? 40) with false; lia]]]].
          + destruct (Z.eqb_spec c 40) as [->|N40].
            * exists (p + 1). split; [lia | split; [exact Hrest | split; [reflexivity | split; [reflexivity | lia]]]].
            * exists p. split; [lia | split; [exact Hrest | split; [reflexivity | split; [reflexivity | lia]]]]. }
      destruct Hcont as (p' & Hp' & Hr & C1 & C2 & Cp). rewrite C1, C2.
      destruct (get_plain c (w ++ t ++ tail) ln ac ltac:(lia)) as [ln1 E1]. rewrite <- !app_assoc. rewrite E1.
      assert (Hnw : nws (t ++ tail)) by (apply (items_nws r p' t tail Hr Ht2 (ok_arg_nws _ Ht))).
      destruct (skipws_run w (t ++ tail) ln1 ac (wsl0_wsl _ Hw) Hnw) as [ln2 E2]. rewrite E2. rewrite Cp.
      destruct (IH p' (sym ++ [c]) fu t Hp' Hr Ht2 ltac:(cbn [item_canon] in Hf; rewrite !app_length in Hf; cbn [length] in Hf; lia) tail ln2 ac Ht) as [ln3 E3]. rewrite E3.
      eexists. cbn [canon flat_map item_canon]. rewrite <- !app_assoc. reflexivity.
    + cbn [arg_ok] in Hok. apply andb_true_iff in Hok. destruct Hok as [Hb Hr].
      cbn [item_canon m_arg_loop]. unfold bind. rewrite <- !app_assoc. rewrite peek_false. cbn [app hd].
      change (34 =? 0) with false. change (34 =? 34) with true. cbv iota.
      assert (Hnw : nws (t ++ tail)) by (apply (items_nws r p t tail Hr Ht2 (ok_arg_nws _ Ht))).
      destruct (r_str b w sym Hb (wsl0_wsl _ Hw) (t ++ tail) ln ac Hnw) as [ln1 E1]. rewrite <- !app_assoc in E1. cbn [app] in E1. rewrite E1.
      destruct (IH p (sym ++ 34 :: b ++ [34]) fu t Hp Hr Ht2 ltac:(cbn [item_canon] in Hf; rewrite !app_length in Hf; cbn [length] in Hf; lia) tail ln1 ac Ht) as [ln2 E2]. rewrite E2.
      exists ln2. f_equal. change (canon (IStr b :: r)) with (([34] ++ b ++ [34]) ++ canon r). cbn [app]. rewrite <- ?app_assoc. f_equal. cbn [app]. f_equal. now rewrite <- app_assoc.
Qed.

Lemma G_args_len args : forall txt, G_args args txt -> (length args <= S (length txt))%nat.
Proof.
  induction args as [|a more IH]; intros txt H; [contradiction|]. cbn [G_args] in H. destruct more as [|b more'].
  - simpl. lia.
  - destruct H as (t1 & w & t2 & _ & _ & H2 & ->). specialize (IH t2 H2). rewrite !app_length. cbn [length] in *. lia.
Qed.

Lemma r_args_loop args : forall sym fuel txt, Forall (fun a => arg_ok 0 a = true) args -> G_args args txt -> (length args <= fuel)%nat ->
  reads (m_args_loop fuel sym) txt (sym ++ args_canon args) [] (fun tail => hd 0 tail = 41).
Proof.
  induction args as [|a more IH]; intros sym fuel txt HP HG Hf tail ln ac Ht; [contradiction|].
  inversion HP as [|? ? Ha Hmore]; subst. destruct fuel as [|fu]; [simpl in Hf; lia|].
  cbn [m_args_loop]. unfold bind, remaining. cbn [str rest]. cbn [G_args args_canon] in *. destruct more as [|b more'].
  - destruct (r_arg_loop a 0 sym (S (length (txt ++ tail))) txt ltac:(lia) Ha HG ltac:(rewrite app_length; lia) tail ln ac (or_intror Ht)) as [ln1 E1].
    rewrite E1. change t_comma with [44]. rewrite mtok_absent; [| rewrite Ht; discriminate | discriminate]. eexists. reflexivity.
  - destruct HG as (t1 & w & t2 & G1 & Hw & G2 & ->). rewrite <- !app_assoc.
    destruct (r_arg_loop a 0 sym (S (length (t1 ++ [44] ++ w ++ t2 ++ tail))) t1 ltac:(lia) Ha G1 ltac:(rewrite !app_length; lia) ([44] ++ w ++ t2 ++ tail) ln ac (or_introl eq_refl)) as [ln1 E1].
    rewrite E1.
    assert (Hnw : nws (t2 ++ tail)).
    { unfold nws in *. destruct more' as [|c more''].
      - cbn [G_args] in G2. apply (items_nws b 0 t2 tail (Forall_inv Hmore) G2). unfold nws. rewrite Ht. reflexivity.
      - cbn [G_args] in G2. destruct G2 as (u1 & w2 & u2 & Gu & _ & _ & ->). rewrite <- !app_assoc.
        apply (items_nws b 0 u1 _ (Forall_inv Hmore) Gu). reflexivity. }
    destruct (reads_tok [44] w false (wsl0_wsl _ Hw) (t2 ++ tail) ln1 ([] ++ ac) Hnw) as [ln2 E2]. rewrite <- !app_assoc in E2. change t_comma with [44]. rewrite E2.
    destruct (IH (sym ++ canon a ++ [44]) fu t2 Hmore G2 ltac:(simpl in Hf |- *; lia) tail ln2 ([] ++ [] ++ ac) Ht) as [ln3 E3].
    rewrite <- !app_assoc in E3. rewrite <- !app_assoc. rewrite E3. eexists. reflexivity.
Qed.
