(* C10 - each reader function reads back what the grammar writes (atoms, literals, numbers, lists, aggregates). *)
Require Import V.Lib.Base V.Lib.Calls V.Lib.Dec V.C09.Spec V.Gen.Consts_C10 V.C10.Model V.C10.Grammar V.C10.ProofsStream.
Local Open Scope Z_scope.

(* what may follow an atom / a number / an identifier: a punctuation character or the end of the input *)
Definition pun (l : list Z) : Prop := let c := hd 0 l in is_ws c = false /\ is_alnum c = false /\ c <> 95.

Lemma pun_nws l : pun l -> nws l.
Proof. intros (H & _). exact H. Qed.
Lemma pun_nd l : pun l -> nd l.
Proof. intros (_ & H & _). unfold nd. unfold is_alnum in H. destruct (is_digit (hd 0 l)); [now rewrite !orb_true_r in H | reflexivity]. Qed.

(* first character after a token's white space *)
Lemma follow w tail : wsl w -> pun tail -> is_alnum (hd 0 (w ++ tail)) = false /\ hd 0 (w ++ tail) <> 95.
Proof.
  intros Hw (H1 & H2 & H3). destruct w as [|c r]; [split; assumption|].
  unfold wsl in Hw. simpl in Hw. apply andb_true_iff in Hw. destruct Hw as [Hc _]. simpl.
  unfold is_ws in Hc. unfold is_alnum, is_lower, is_upper, is_digit. lia.
Qed.
Lemma follow_nd w tail : wsl w -> pun tail -> nd (w ++ tail).
Proof. intros Hw Hp. destruct (follow w tail Hw Hp) as [H _]. unfold nd. unfold is_alnum in H. destruct (is_digit (hd 0 (w ++ tail))); [now rewrite !orb_true_r in H | reflexivity]. Qed.
Lemma follow_nlower w tail : wsl w -> pun tail -> is_lower (hd 0 (w ++ tail)) = false.
Proof. intros Hw Hp. destruct (follow w tail Hw Hp) as [H _]. unfold is_alnum in H. destruct (is_lower (hd 0 (w ++ tail))); [discriminate H | reflexivity]. Qed.

Lemma get_plain c l ln ac : c <> 13 -> exists ln', get (mkR (amk (c :: l) ln) ac) = ROk c (mkR (amk l ln') ac).
Proof.
  intros H. unfold get, on_str. cbn [str acc]. destruct (a_get_plain c l ln H) as [ln' E]. rewrite E. eexists. reflexivity.
Qed.
Lemma skipws_run w tail ln ac : wsl w -> nws tail -> exists ln', skipws (mkR (amk (w ++ tail) ln) ac) = ROk tt (mkR (amk tail ln') ac).
Proof.
  intros Hw Ht. unfold skipws, on_str. cbn [str acc]. destruct (a_skipws_ws w tail ln Hw Ht) as [ln' E]. rewrite E. eexists. reflexivity.
Qed.

(* ---------- numbers ---------- *)
Lemma m_int_raw_run v tail ln ac : in_int v = true -> nd tail ->
  m_int_raw (mkR (amk (print_Z v ++ tail) ln) ac) = ROk v (mkR (amk tail ln) ac).
Proof.
  intros Hv Ht. unfold m_int_raw, bind, on_str. cbn [str acc]. rewrite (a_match_int_spec v tail ln Hv Ht).
  cbv beta iota. unfold require. rewrite Hv. reflexivity.
Qed.

Lemma r_int v txt : in_int v = true -> G_int v txt -> reads m_int txt v [] pun.
Proof.
  intros Hv (w & Hw & ->) tail ln ac Hp. unfold m_int, bind. rewrite <- app_assoc.
  rewrite (m_int_raw_run v (w ++ tail) ln ac Hv (follow_nd w tail Hw Hp)).
  destruct (skipws_run w tail ln ac Hw (pun_nws _ Hp)) as [ln' E]. rewrite E. eexists. reflexivity.
Qed.

(* ---------- atoms ---------- *)
Lemma print_nat_hd n : 0 <= n -> exists d ds, print_nat n = d :: ds /\ is_digit d = true.
Proof.
  intros Hn. pose proof (print_nat_hd_digit n Hn) as H. pose proof (print_nat_nonempty n Hn) as Hne.
  destruct (print_nat n) as [|d ds]; [congruence|]. exists d, ds. split; [reflexivity | exact H].
Qed.

Lemma r_atom a txt : atom_ok a -> G_atom a txt -> reads m_id txt a [] pun.
Proof.
  unfold atom_ok, INT_MAX. intros Ha (sp & w & Hsp & Hw & ->) tail ln ac Hp.
  assert (Hin : in_int a = true) by (unfold in_int, INT_MIN, INT_MAX; lia).
  assert (Hpos : 0 <? a = true) by lia.
  destruct (follow w tail Hw Hp) as [F1 F2]. pose proof (follow_nlower w tail Hw Hp) as F3. pose proof (follow_nd w tail Hw Hp) as F4.
  unfold m_id, bind. destruct Hsp as [[Hr ->] | [-> | ->]]; rewrite <- app_assoc.
  - (* a single letter *)
    cbn [app]. destruct (get_plain (96 + a) (w ++ tail) ln ac ltac:(lia)) as [ln1 E1]. rewrite E1. cbv beta iota.
    rewrite peek_false. cbv beta iota. unfold require.
    assert (is_lower (96 + a) = true) as -> by (unfold is_lower; lia). cbv beta iota.
    rewrite F3. cbn [negb]. cbv beta iota.
    assert (E : (96 + a =? 120) && (is_digit (hd 0 (w ++ tail)) || (hd 0 (w ++ tail) =? 95)) = false).
    { unfold nd in F4. rewrite F4. destruct (Z.eqb_spec (hd 0 (w ++ tail)) 95); [contradiction|]. now rewrite andb_false_r. }
    rewrite E. destruct (skipws_run w tail ln1 ac Hw (pun_nws _ Hp)) as [ln2 E2]. rewrite E2. cbv beta iota.
    eexists. unfold ret. f_equal. lia.
  - (* x<n> *)
    cbn [app]. destruct (get_plain 120 (print_nat a ++ w ++ tail) ln ac ltac:(lia)) as [ln1 E1]. rewrite E1. cbv beta iota.
    rewrite peek_false. cbv beta iota. unfold require. change (is_lower 120) with true. cbv beta iota.
    destruct (print_nat_hd a ltac:(lia)) as (d & ds & Ed & Hd). rewrite Ed. cbn [app hd].
    assert (is_lower d = false) as -> by (unfold is_digit, is_lower in *; lia). cbn [negb]. cbv beta iota.
    change (120 =? 120) with true. rewrite Hd. cbn [andb orb]. cbv beta iota.
    assert (d =? 95 = false) as -> by (unfold is_digit in Hd; lia). unfold ret at 1. cbv beta iota.
    change (d :: ds ++ w ++ tail) with ((d :: ds) ++ w ++ tail). rewrite <- Ed. rewrite <- (print_Z_nonneg a) by lia.
    unfold m_int, bind. rewrite (m_int_raw_run a (w ++ tail) ln1 ac Hin F4).
    destruct (skipws_run w tail ln1 ac Hw (pun_nws _ Hp)) as [ln2 E2]. rewrite E2. cbv beta iota. unfold ret at 1. cbv beta iota.
    rewrite Hpos. cbv beta iota. eexists. reflexivity.
  - (* x_<n> *)
    cbn [app]. destruct (get_plain 120 (95 :: print_nat a ++ w ++ tail) ln ac ltac:(lia)) as [ln1 E1]. rewrite E1. cbv beta iota.
    rewrite peek_false. cbv beta iota. unfold require. change (is_lower 120) with true. cbv beta iota.
    cbn [hd]. change (is_lower 95) with false. cbn [negb]. cbv beta iota.
    change ((120 =? 120) && (is_digit 95 || (95 =? 95))) with true. cbv beta iota. change (95 =? 95) with true. cbv beta iota.
    destruct (get_plain 95 (print_nat a ++ w ++ tail) ln1 ac ltac:(lia)) as [ln2 E2]. rewrite E2. cbv beta iota.
    rewrite <- (print_Z_nonneg a) by lia.
    unfold m_int, bind. rewrite (m_int_raw_run a (w ++ tail) ln2 ac Hin F4).
    destruct (skipws_run w tail ln2 ac Hw (pun_nws _ Hp)) as [ln3 E3]. rewrite E3. cbv beta iota. unfold ret at 1. cbv beta iota.
    rewrite Hpos. cbv beta iota. eexists. reflexivity.
Qed.

Lemma atom_text_hd a txt : G_atom a txt -> (1 <= a) ->
  exists c r, txt = c :: r /\ is_lower c = true /\
              (c = 110 -> forall tail, pun tail -> hd 0 (r ++ tail) <> 111).
Proof.
  intros (sp & w & Hsp & Hw & ->) Ha. destruct Hsp as [[Hr ->] | [-> | ->]].
  - exists (96 + a), w. split; [reflexivity|]. split; [unfold is_lower; lia|].
    intros _ tail Hp. destruct (follow w tail Hw Hp) as [F1 _]. intro E. rewrite E in F1. discriminate F1.
  - eexists; eexists. split; [reflexivity|]. split; [reflexivity|]. intros E; discriminate E.
  - eexists; eexists. split; [reflexivity|]. split; [reflexivity|]. intros E; discriminate E.
Qed.

(* ---------- literals ---------- *)
Lemma tok_not_absent c r tail ln : is_lower c = true -> (c = 110 -> hd 0 (r ++ tail) <> 111) ->
  a_match_tok t_not (amk (c :: r ++ tail) ln) = (false, amk (c :: r ++ tail) ln).
Proof.
  intros Hc Hn. change t_not with [110; 111; 116]. destruct (Z.eq_dec c 110) as [->|Hne].
  - specialize (Hn eq_refl). destruct (r ++ tail) as [|d l]; [apply a_match_tok_no_short|].
    apply a_match_tok_no_2. simpl in Hn. congruence.
  - apply a_match_tok_no_hd. congruence.
Qed.

Lemma r_lit l txt : lit_ok l -> G_lit l txt -> reads m_lit txt l [] pun.
Proof.
  unfold lit_ok, G_lit. intros Hl HG tail ln ac Hp. unfold m_lit, bind, on_str. cbn [str acc].
  destruct (Z.ltb_spec l 0) as [Hn|Hn].
  - destruct HG as (w & t & Hw & Hne & Ht & ->). rewrite <- !app_assoc. rewrite a_match_tok_yes. cbv beta iota.
    rewrite peek_false. cbv beta iota.
    assert (Hws : is_ws (hd 0 (w ++ t ++ tail)) = true).
    { destruct w as [|c r]; [congruence|]. unfold wsl in Hw. simpl in Hw. apply andb_true_iff in Hw. destruct Hw as [Hc _]. exact Hc. }
    unfold require. rewrite Hws. cbv beta iota.
    assert (Ha : atom_ok (- l)) by (replace (- l) with (Z.abs l) by lia; exact Hl).
    destruct (atom_text_hd (- l) t Ht ltac:(unfold atom_ok in Ha; lia)) as (c & r & -> & Hc & _).
    assert (Hnw : nws ((c :: r) ++ tail)) by (unfold nws; simpl; unfold is_lower, is_ws in *; lia).
    destruct (skipws_run w ((c :: r) ++ tail) ln ac Hw Hnw) as [ln1 E1]. rewrite E1. cbv beta iota.
    destruct (r_atom (- l) (c :: r) Ha Ht tail ln1 ac Hp) as [ln2 E2]. rewrite E2.
    eexists. unfold ret. f_equal. lia.
  - assert (Ha : atom_ok l) by (replace l with (Z.abs l) by lia; exact Hl).
    destruct (atom_text_hd l txt HG ltac:(unfold atom_ok in Ha; lia)) as (c & r & -> & Hc & Hn2).
    cbn [app]. rewrite (tok_not_absent c r tail ln Hc (fun E => Hn2 E tail Hp)). cbv beta iota.
    unfold ret at 1. cbv beta iota.
    destruct (r_atom l (c :: r) Ha HG tail ln ac Hp) as [ln2 E2]. cbn [app] in E2. rewrite E2. eexists. reflexivity.
Qed.

Lemma lit_text_hd l txt : lit_ok l -> G_lit l txt -> exists c r, txt = c :: r /\ is_lower c = true.
Proof.
  unfold lit_ok, G_lit, atom_ok. intros Hl HG. destruct (Z.ltb_spec l 0).
  - destruct HG as (w & t & _ & _ & _ & ->). exists 110. eexists. split; reflexivity.
  - destruct (atom_text_hd l txt HG ltac:(lia)) as (c & r & E & Hc & _). exists c, r. auto.
Qed.

(* ---------- lists ---------- *)
Lemma G_list1_cons {A} (G : A -> list Z -> Prop) S x y r txt :
  G_list1 G S (x :: y :: r) txt <-> exists t1 ts t2, G x t1 /\ S ts /\ G_list1 G S (y :: r) t2 /\ txt = t1 ++ ts ++ t2.
Proof. reflexivity. Qed.

Lemma G_list1_len {A} (G : A -> list Z -> Prop) S : (forall x t, G x t -> t <> []) ->
  forall xs txt, G_list1 G S xs txt -> (length xs <= length txt)%nat.
Proof.
  intros Hne. induction xs as [|x r IH]; intros txt H; [contradiction|]. destruct r as [|y r'].
  - specialize (Hne x txt H). destruct txt; [congruence | simpl; lia].
  - apply G_list1_cons in H. destruct H as (t1 & ts & t2 & H1 & _ & H2 & ->). specialize (IH t2 H2).
    specialize (Hne x t1 H1). rewrite !app_length. destruct t1; [congruence|]. simpl in *. lia.
Qed.

Lemma bind_assoc {A B C} (m : M A) (k : A -> M B) (h : B -> M C) s : bind (bind m k) h s = bind m (fun x => bind (k x) h) s.
Proof. unfold bind. destruct (m s); reflexivity. Qed.

Section CommaLoop.
Context {A : Type} (m : M A) (G : A -> list Z -> Prop) (P : A -> Prop) (loop : nat -> M (list A)) (okE : list Z -> Prop).
Hypothesis Hloop0 : forall s, loop O s = fail s.
Hypothesis Hloop : forall f s, loop (S f) s =
  (x <- m ;; b <- mtok t_comma false ;; if b then (r <- loop f ;; ret (x :: r)) else ret [x]) s.
Hypothesis Helem : forall x t, P x -> G x t -> reads m t x [] okE.
Hypothesis Hhd : forall x t, P x -> G x t -> exists c r, t = c :: r /\ is_lower c = true.
Hypothesis HokE : forall l, okE (44 :: l).

Definition okT (tail : list Z) : Prop := okE tail /\ hd 0 tail <> 44 /\ nws tail.

Lemma r_comma_loop xs : Forall P xs -> forall txt fuel, G_list1 G (G_tok t_comma) xs txt -> (length xs <= fuel)%nat ->
  reads (loop fuel) txt xs [] okT.
Proof.
  induction xs as [|x r IH]; intros HP txt fuel HG Hf; [contradiction|].
  inversion HP as [|? ? Hx Hr]; subst. destruct fuel as [|fu]; [simpl in Hf; lia|].
  intros tail ln ac (Hok & Hc & Hn). rewrite Hloop. unfold bind. destruct r as [|y r'].
  - destruct (Helem x txt Hx HG tail ln ac Hok) as [ln1 E1]. rewrite E1.
    change t_comma with [44]. rewrite mtok_absent by (auto; discriminate). eexists. reflexivity.
  - apply G_list1_cons in HG. destruct HG as (t1 & ts & t2 & H1 & (w & Hw & ->) & H2 & ->).
    rewrite <- !app_assoc.
    destruct (Helem x t1 Hx H1 (([44] ++ w) ++ t2 ++ tail) ln ac) as [ln1 E1].
    { change t_comma with [44]. rewrite <- app_assoc. apply HokE. }
    change t_comma with [44] in *. rewrite <- !app_assoc in E1. rewrite E1.
    assert (Hy : exists c q, t2 = c :: q /\ is_lower c = true).
    { destruct r' as [|z r'']; [exact (Hhd y t2 (Forall_inv Hr) H2)|].
      apply G_list1_cons in H2. destruct H2 as (u1 & us & u2 & Hu & _ & _ & ->).
      destruct (Hhd y u1 (Forall_inv Hr) Hu) as (c & q & -> & Hc2). exists c. eexists. split; [reflexivity | exact Hc2]. }
    destruct Hy as (c & q & Ey & Hcl).
    assert (Hnw : nws (t2 ++ tail)) by (rewrite Ey; unfold nws; simpl; unfold is_lower, is_ws in *; lia).
    destruct (reads_tok [44] w false Hw (t2 ++ tail) ln1 ([] ++ ac) Hnw) as [ln2 E2].
    rewrite <- !app_assoc in E2. rewrite E2.
    destruct (IH Hr t2 fu H2 ltac:(simpl in Hf |- *; lia) tail ln2 ([] ++ [] ++ ac) (conj Hok (conj Hc Hn))) as [ln3 E3].
    rewrite E3. eexists. reflexivity.
Qed.
End CommaLoop.

Lemma G_atom_ne a t : G_atom a t -> t <> [].
Proof. intros (sp & w & Hsp & _ & ->). destruct Hsp as [[_ ->] | [-> | ->]]; discriminate. Qed.
Lemma G_lit_ne l t : G_lit l t -> t <> [].
Proof.
  unfold G_lit. destruct (l <? 0).
  - intros (w & x & _ & _ & _ & ->). discriminate.
  - apply G_atom_ne.
Qed.

(* body / condition literals:  l1 , l2 , ... *)
Definition ok_lits (tail : list Z) : Prop := pun tail /\ hd 0 tail <> 44.

Lemma r_lits_loop xs : Forall lit_ok xs -> forall txt fuel, G_list1 G_lit (G_tok t_comma) xs txt -> (length xs <= fuel)%nat ->
  reads (m_lits_loop fuel) txt xs [] ok_lits.
Proof.
  intros HP txt fuel HG Hf.
  eapply reads_weaken.
  - eapply (r_comma_loop m_lit G_lit lit_ok m_lits_loop pun); try eassumption; try reflexivity.
    + intros x t Hx Ht. now apply r_lit.
    + intros x t Hx Ht. exact (lit_text_hd x t Hx Ht).
    + intros l. repeat split; discriminate.
  - intros l (Hp & Hc). split; [exact Hp | split; [exact Hc | now apply pun_nws]].
Qed.

Lemma r_lits xs txt : Forall lit_ok xs -> G_list0 G_lit (G_tok t_comma) xs txt -> reads m_lits txt xs [] ok_lits.
Proof.
  intros HP HG tail ln ac (Hp & Hc). unfold m_lits, bind at 1. destruct xs as [|x r].
  - simpl in HG. subst txt. cbn [app]. rewrite peek_true_nws by now apply pun_nws.
    destruct Hp as (_ & Ha & _). assert (is_lower (hd 0 tail) = false) as ->.
    { unfold is_alnum in Ha. destruct (is_lower (hd 0 tail)); [discriminate Ha | reflexivity]. }
    eexists. reflexivity.
  - cbn [G_list0] in HG.
    assert (Hh : exists c q, txt = c :: q /\ is_lower c = true).
    { destruct r as [|y r']; [exact (lit_text_hd x txt (Forall_inv HP) HG)|].
      apply G_list1_cons in HG. destruct HG as (u1 & us & u2 & Hu & _ & _ & ->).
      destruct (lit_text_hd x u1 (Forall_inv HP) Hu) as (c & q & -> & Hc2). exists c. eexists. split; [reflexivity | exact Hc2]. }
    destruct Hh as (c & q & E & Hcl).
    rewrite peek_true_nws by (rewrite E; unfold nws; simpl; unfold is_lower, is_ws in *; lia).
    assert (is_lower (hd 0 (txt ++ tail)) = true) as -> by (rewrite E; exact Hcl).
    apply (reads_remaining m_lits_loop txt (x :: r) [] ok_lits); [|split; assumption].
    intros n Hn. apply r_lits_loop; try assumption.
    pose proof (G_list1_len G_lit (G_tok t_comma) G_lit_ne (x :: r) txt HG). lia.
Qed.

Definition ok_cond (tail : list Z) : Prop := pun tail /\ hd 0 tail <> 44 /\ hd 0 tail <> 58.

Lemma r_cond c txt : Forall lit_ok c -> G_cond c txt -> reads m_cond txt c [] ok_cond.
Proof.
  intros HP HG tail ln ac (Hp & Hc & Hcol). unfold m_cond, bind.
  destruct HG as [[-> ->] | (t1 & t2 & (w & Hw & ->) & H2 & ->)].
  - cbn [app]. change t_colon with [58]. rewrite mtok_absent by (auto; discriminate). eexists. reflexivity.
  - rewrite <- !app_assoc.
    assert (Hnw : nws (t2 ++ tail)).
    { destruct c as [|x r]; [simpl in H2; subst t2; now apply pun_nws|].
      cbn [G_list0] in H2.
      assert (Hh : exists c q, t2 = c :: q /\ is_lower c = true).
      { destruct r as [|y r']; [exact (lit_text_hd x t2 (Forall_inv HP) H2)|].
        apply G_list1_cons in H2. destruct H2 as (u1 & us & u2 & Hu & _ & _ & ->).
        destruct (lit_text_hd x u1 (Forall_inv HP) Hu) as (c & q & -> & Hc2). exists c. eexists. split; [reflexivity | exact Hc2]. }
      destruct Hh as (c0 & q & -> & Hcl). unfold nws. simpl. unfold is_lower, is_ws in *. lia. }
    destruct (reads_tok t_colon w false Hw (t2 ++ tail) ln ac Hnw) as [ln1 E1]. rewrite <- !app_assoc in E1. rewrite E1.
    destruct (r_lits c t2 HP H2 tail ln1 ([] ++ ac) (conj Hp Hc)) as [ln2 E2]. rewrite E2. eexists. reflexivity.
Qed.

(* ---------- head / project atoms:  a1 sep a2 sep ...  with separator characters ---------- *)
Definition sep_ok (seps : list Z) : Prop :=
  Forall (fun c => c <> 0 /\ c <> 13 /\ is_ws c = false /\ is_alnum c = false /\ c <> 95) seps.
Definition ok_atoms (seps : list Z) (tail : list Z) : Prop := pun tail /\ mem (hd 0 tail) seps = false.

Lemma mem_In c l : In c l -> mem c l = true.
Proof. intros H. unfold mem. apply existsb_exists. exists c. split; [exact H | apply Z.eqb_refl]. Qed.

Lemma G_lit_atom x t : atom_ok x -> G_atom x t -> G_lit x t /\ lit_ok x.
Proof.
  unfold atom_ok, G_lit, lit_ok, atom_ok. intros Hx Ht. destruct (Z.ltb_spec x 0); [lia|]. split; [exact Ht|]. rewrite Z.abs_eq; lia.
Qed.

Lemma r_atoms_loop seps xs : sep_ok seps -> Forall atom_ok xs -> forall txt fuel,
  G_list1 G_atom (G_sep seps) xs txt -> (length xs <= fuel)%nat -> reads (m_atoms_loop fuel seps) txt xs [] (ok_atoms seps).
Proof.
  intros Hs. induction xs as [|x r IH]; intros HP txt fuel HG Hf; [contradiction|].
  inversion HP as [|? ? Hx Hr]; subst. destruct fuel as [|fu]; [simpl in Hf; lia|].
  assert (Hpos : 0 <? x = true) by (unfold atom_ok in Hx; lia).
  intros tail ln ac (Hp & Hm). cbn [m_atoms_loop]. unfold bind. destruct r as [|y r'].
  - destruct (G_lit_atom x txt Hx HG) as [HL HLo].
    destruct (r_lit x txt HLo HL tail ln ac Hp) as [ln1 E1]. rewrite E1. unfold require. rewrite Hpos.
    rewrite peek_false. rewrite Hm, andb_false_r. eexists. reflexivity.
  - apply G_list1_cons in HG. destruct HG as (t1 & ts & t2 & H1 & (c & w & Hc & Hw & ->) & H2 & ->).
    pose proof Hs as Hs2. unfold sep_ok in Hs2. rewrite Forall_forall in Hs2. destruct (Hs2 c Hc) as (C0 & C13 & Cws & Cal & C95).
    destruct (G_lit_atom x t1 Hx H1) as [HL HLo]. rewrite <- !app_assoc.
    destruct (r_lit x t1 HLo HL ((c :: w) ++ t2 ++ tail) ln ac) as [ln1 E1].
    { unfold pun. simpl. auto. }
    rewrite E1. unfold require. rewrite Hpos. rewrite peek_false. cbn [app hd].
    destruct (Z.eqb_spec c 0); [contradiction|]. rewrite (mem_In c seps Hc). cbn [negb andb].
    destruct (get_plain c (w ++ t2 ++ tail) ln1 ac C13) as [ln2 E2]. rewrite E2.
    assert (Hy : exists c0 q, t2 = c0 :: q /\ is_lower c0 = true).
    { destruct r' as [|z r'']; [destruct (atom_text_hd y t2 H2) as (c0 & q & E & Hc0 & _); [unfold atom_ok in Hr; inversion Hr; subst; unfold atom_ok in *; lia|]; exists c0, q; auto|].
      apply G_list1_cons in H2. destruct H2 as (u1 & us & u2 & Hu & _ & _ & ->).
      destruct (atom_text_hd y u1 Hu) as (c0 & q & -> & Hc0 & _); [inversion Hr; subst; unfold atom_ok in *; lia|].
      exists c0. eexists. split; [reflexivity | exact Hc0]. }
    destruct Hy as (c0 & q & Ey & Hcl).
    assert (Hnw : nws (t2 ++ tail)) by (rewrite Ey; unfold nws; simpl; unfold is_lower, is_ws in *; lia).
    destruct (skipws_run w (t2 ++ tail) ln2 ac Hw Hnw) as [ln3 E3]. rewrite E3.
    destruct (IH Hr t2 fu H2 ltac:(simpl in Hf |- *; lia) tail ln3 ac (conj Hp Hm)) as [ln4 E4].
    rewrite E4. eexists. reflexivity.
Qed.

Lemma r_atoms seps xs txt : sep_ok seps -> Forall atom_ok xs -> G_list0 G_atom (G_sep seps) xs txt ->
  reads (m_atoms seps) txt xs [] (ok_atoms seps).
Proof.
  intros Hs HP HG tail ln ac (Hp & Hm). unfold m_atoms, bind at 1. destruct xs as [|x r].
  - simpl in HG. subst txt. cbn [app]. rewrite peek_true_nws by now apply pun_nws.
    destruct Hp as (_ & Ha & _). assert (is_lower (hd 0 tail) = false) as ->.
    { unfold is_alnum in Ha. destruct (is_lower (hd 0 tail)); [discriminate Ha | reflexivity]. }
    eexists. reflexivity.
  - cbn [G_list0] in HG.
    assert (Hh : exists c q, txt = c :: q /\ is_lower c = true).
    { assert (Hx1 : 1 <= x) by (inversion HP; subst; unfold atom_ok in *; lia).
      destruct r as [|y r']; [destruct (atom_text_hd x txt HG Hx1) as (c & q & E & Hc & _); exists c, q; auto|].
      apply G_list1_cons in HG. destruct HG as (u1 & us & u2 & Hu & _ & _ & ->).
      destruct (atom_text_hd x u1 Hu Hx1) as (c & q & -> & Hc2 & _). exists c. eexists. split; [reflexivity | exact Hc2]. }
    destruct Hh as (c & q & E & Hcl).
    rewrite peek_true_nws by (rewrite E; unfold nws; simpl; unfold is_lower, is_ws in *; lia).
    assert (is_lower (hd 0 (txt ++ tail)) = true) as -> by (rewrite E; exact Hcl).
    apply (reads_remaining (fun n => m_atoms_loop n seps) txt (x :: r) [] (ok_atoms seps)); [|split; assumption].
    intros n Hn. apply r_atoms_loop; try assumption.
    pose proof (G_list1_len G_atom (G_sep seps) G_atom_ne (x :: r) txt HG). lia.
Qed.

(* the same list with "," as a token (G_tok) is a G_sep list *)
Lemma G_tok_sep c t : G_tok [c] t -> G_sep [c] t.
Proof. intros (w & Hw & ->). exists c, w. split; [now left | split; [exact Hw | reflexivity]]. Qed.
Lemma G_list1_sep_mono {A} (G : A -> list Z -> Prop) (S S' : list Z -> Prop) : (forall t, S t -> S' t) ->
  forall xs txt, G_list1 G S xs txt -> G_list1 G S' xs txt.
Proof.
  intros HS. induction xs as [|x r IH]; intros txt H; [exact H|]. destruct r as [|y r']; [exact H|].
  apply G_list1_cons in H. apply G_list1_cons. destruct H as (t1 & ts & t2 & H1 & H2 & H3 & ->).
  exists t1, ts, t2. repeat split; auto.
Qed.

(* ---------- aggregates ---------- *)
Definition m_wl : M (Z * Z) := l <- m_lit ;; e <- mtok t_eq false ;; w <- (if e then m_int else ret 1) ;; ret (l, w).
Definition ok_wl (tail : list Z) : Prop := pun tail /\ hd 0 tail <> 61.

Lemma print_Z_nws v l : nws (print_Z v ++ l).
Proof.
  unfold print_Z, nws. destruct (Z.ltb_spec v 0); [reflexivity|].
  destruct (print_nat_hd v H) as (d & ds & -> & Hd). simpl. unfold is_digit, is_ws in *. lia.
Qed.

Lemma r_wlit x t : lit_ok (fst x) -> in_int (snd x) = true -> G_wlit x t -> reads m_wl t x [] ok_wl.
Proof.
  destruct x as [l w]. cbn [fst snd]. intros Hl Hw (t1 & t2 & H1 & -> & H2) tail ln ac (Hp & He). unfold m_wl, bind.
  cbn [fst snd] in *.
  destruct H2 as [[Hone ->] | (te & ti & (w1 & Hw1 & ->) & Hi & ->)].
  - subst w. rewrite app_nil_r. destruct (r_lit l t1 Hl H1 tail ln ac Hp) as [ln1 E1]. rewrite E1.
    change t_eq with [61]. rewrite mtok_absent by (auto; discriminate). eexists. reflexivity.
  - rewrite <- !app_assoc. change t_eq with [61] in *.
    destruct (r_lit l t1 Hl H1 ([61] ++ w1 ++ ti ++ tail) ln ac) as [ln1 E1]; [unfold pun; simpl; repeat split; discriminate|].
    rewrite E1. destruct Hi as (w2 & Hw2 & Ei). 
    destruct (reads_tok [61] w1 false Hw1 (ti ++ tail) ln1 ([] ++ ac)) as [ln2 E2]; [rewrite Ei, <- app_assoc; apply print_Z_nws|].
    rewrite <- !app_assoc in E2. rewrite E2.
    destruct (r_int w ti Hw (ex_intro _ w2 (conj Hw2 Ei)) tail ln2 ([] ++ [] ++ ac) Hp) as [ln3 E3]. rewrite E3.
    eexists. reflexivity.
Qed.

Lemma G_wlit_hd x t : lit_ok (fst x) -> G_wlit x t -> exists c r, t = c :: r /\ is_lower c = true.
Proof.
  intros Hl (t1 & t2 & H1 & -> & _). destruct (lit_text_hd (fst x) t1 Hl H1) as (c & r & -> & Hc). exists c. eexists. split; [reflexivity | exact Hc].
Qed.
Lemma G_wlit_ne x t : lit_ok (fst x) -> G_wlit x t -> t <> [].
Proof. intros Hl H. destruct (G_wlit_hd x t Hl H) as (c & r & -> & _). discriminate. Qed.

Lemma m_agg_loop_unfold f s : m_agg_loop (S f) s =
  (x <- m_wl ;; b <- mtok t_comma false ;; if b then (r <- m_agg_loop f ;; ret (x :: r)) else ret [x]) s.
Proof.
  cbn [m_agg_loop]. unfold m_wl, bind. destruct (m_lit s) as [l s1|]; [|reflexivity].
  destruct (mtok t_eq false s1) as [e s2|]; [|reflexivity].
  destruct ((if e then m_int else ret 1) s2) as [w s3|]; reflexivity.
Qed.

Definition wl_ok1 (x : Z * Z) : Prop := lit_ok (fst x) /\ in_int (snd x) = true.

Lemma r_agg l t : wlits_ok l -> G_agg l t -> reads m_agg t (drop0 l) [] nws.
Proof.
  intros Hl (t1 & t2 & t3 & (w1 & Hw1 & ->) & H2 & (w3 & Hw3 & ->) & ->) tail ln ac Ht. unfold m_agg, bind.
  rewrite <- !app_assoc. change t_lbrace with [123] in *. change t_rbrace with [125] in *.
  destruct l as [|x r].
  - simpl in H2. subst t2. cbn [app].
    destruct (reads_tok [123] w1 true Hw1 (125 :: w3 ++ tail) ln ac ltac:(reflexivity)) as [ln1 E1]. rewrite <- !app_assoc in E1. cbn [app] in E1. rewrite E1.
    destruct (reads_tok [125] w3 false Hw3 tail ln1 ([] ++ ac) Ht) as [ln2 E2]. rewrite <- !app_assoc in E2. cbn [app] in E2. rewrite E2.
    eexists. reflexivity.
  - cbn [G_list0] in H2.
    assert (Hh : exists c q, t2 = c :: q /\ is_lower c = true).
    { unfold wlits_ok in Hl. destruct r as [|y r']; [exact (G_wlit_hd x t2 (proj1 (Forall_inv Hl)) H2)|].
      apply G_list1_cons in H2. destruct H2 as (u1 & us & u2 & Hu & _ & _ & ->).
      destruct (G_wlit_hd x u1 (proj1 (Forall_inv Hl)) Hu) as (c & q & -> & Hc2). exists c. eexists. split; [reflexivity | exact Hc2]. }
    destruct Hh as (c & q & E & Hcl).
    assert (Hnw : nws (t2 ++ [125] ++ w3 ++ tail)) by (rewrite E; unfold nws; simpl; unfold is_lower, is_ws in *; lia).
    destruct (reads_tok [123] w1 true Hw1 (t2 ++ [125] ++ w3 ++ tail) ln ac Hnw) as [ln1 E1]. rewrite <- !app_assoc in E1. rewrite E1.
    rewrite mtok_absent; [| rewrite E; simpl; unfold is_lower in Hcl; lia | discriminate].
    unfold remaining. cbn [str rest].
    assert (HL : reads (m_agg_loop (S (length (t2 ++ [125] ++ w3 ++ tail)))) t2 (x :: r) [] (okT ok_wl)).
    { apply (r_comma_loop m_wl G_wlit wl_ok1 m_agg_loop ok_wl).
      - apply m_agg_loop_unfold.
      - intros y ty (Hy1 & Hy2) Hty. now apply r_wlit.
      - intros y ty (Hy1 & _) Hty. exact (G_wlit_hd y ty Hy1 Hty).
      - intros l0. split; [unfold pun; simpl; repeat split; discriminate | discriminate].
      - exact Hl.
      - exact H2.
      - pose proof (G_list1_len G_wlit (G_tok [44]) ) as HLen.
        assert (Hlen : (length (x :: r) <= length t2)%nat).
        { clear - Hl H2. revert t2 H2. induction (x :: r) as [|a l0 IH]; intros t2 H2; [contradiction|].
          inversion Hl as [|? ? Ha Hl']; subst. destruct l0 as [|b l1].
          - pose proof (G_wlit_ne a t2 (proj1 Ha) H2). destruct t2; [congruence | simpl; lia].
          - apply G_list1_cons in H2. destruct H2 as (u1 & us & u2 & Hu & _ & H3 & ->).
            specialize (IH Hl' u2 H3). pose proof (G_wlit_ne a u1 (proj1 Ha) Hu). rewrite !app_length. destruct u1; [congruence|]. simpl in *. lia. }
        rewrite app_length. lia. }
    destruct (HL ([125] ++ w3 ++ tail) ln1 ([] ++ ac)) as [ln2 E2].
    { split; [split; [unfold pun; simpl; repeat split; discriminate | discriminate] | split; [discriminate | reflexivity]]. }
    rewrite E2.
    destruct (reads_tok [125] w3 true Hw3 tail ln2 ([] ++ [] ++ ac) Ht) as [ln3 E3]. rewrite <- !app_assoc in E3. rewrite E3.
    eexists. reflexivity.
Qed.
