Require Import ExtrOcamlBasic.
Require Import V.C04.Model.
Extraction "model.ml" run_case.
