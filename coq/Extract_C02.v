Require Import ExtrOcamlBasic.
Require Import V.C02.Model.
Extraction "model.ml" run_case.
