Require Import ExtrOcamlBasic.
Require Import V.C08.Model.
Extraction "model.ml" run_case.
