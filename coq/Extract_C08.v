Require Import ExtrOcamlBasic.
Require Import V.C08.Direct.
Extraction "model.ml" run_case.
