(* C15 - executable model of value assignment in Potassco::ProgramOptions
   (src/program_options.cpp: Value::parse, ParsedOptions::assign x2 with the Assign scope guard,
    Option::assignDefault, OptionContext::assignDefaults; potassco/program_opts/value.h, typed_value.h).

   Options are identified by their index in the context (names are unique keys in an OptionContext).
   A value cell is  {state_ ; accepted values in order ; content of the bound variable}.
   The typed part is abstract (Section variables):
     parser o s      = Some x   the option's parser accepts string s and produces x      (doParse = true)
     store o x var              what an accepted value does to the bound variable (overwrite / append / log)
     fail_write o s var         what a REFUSED string leaves behind in the bound variable (string_cast<int>("12x")
                                writes 12 before it notices the trailing garbage); it never touches state_.
   A C++ exception leaving ParsedOptions::assign is modelled as: stop at the failing pair, then run ~Assign().  *)
Require Import V.Lib.Base V.Gen.Consts_C15.
Local Open Scope Z_scope.

Definition str := list Z.
Record opt := mkOpt { o_comp : bool; o_impl : option str; o_dflt : option str }.
Record err := mkErr { e_type : Z; e_opt : nat; e_val : str }.

Definition mem (o : nat) (l : list nat) : bool := existsb (Nat.eqb o) l.
Definition insert (o : nat) (l : list nat) : list nat := if mem o l then l else o :: l.   (* std::set::insert *)

Section Assign.
Variables val var : Type.
Variable odesc : nat -> opt.
Variable parser : nat -> str -> option val.
Variable store : nat -> val -> var -> var.
Variable fail_write : nat -> str -> var -> var.

Record cell := mkCell { c_state : Z; c_vals : list val; c_var : var }.
Definition cells := nat -> cell.
Definition upd (f : cells) (o : nat) (c : cell) : cells := fun j => if Nat.eqb j o then c else f j.
Definition set_state (c : cell) (s : Z) : cell := mkCell s (c_vals c) (c_var c).

(* the string that is actually parsed: Value::parse substitutes implicit() for an empty value of an implicit option *)
Definition eff (o : nat) (v : str) : str :=
  match v, o_impl (odesc o) with
  | [], Some i => i
  | _, _ => v
  end.

(* bool Value::parse(name, value, st) { return state(doParse(name, value'), st); } *)
Definition value_parse (o : nat) (v : str) (st : Z) (c : cell) : bool * cell :=
  match parser o (eff o v) with
  | Some x => (true, mkCell st (c_vals c ++ [x]) (store o x (c_var c)))
  | None => (false, mkCell (c_state c) (c_vals c) (fail_write o (eff o v) (c_var c)))
  end.

(* int ParsedOptions::assign(const Option& o, const std::string& value) : 0 or 1 + ValueError::Type *)
Definition assign_opt (parsed : list nat) (cs : cells) (o : nat) (v : str) : Z * cells :=
  let comp := o_comp (odesc o) in
  if negb comp && mem o parsed then (0, cs) else
  let badState := if comp then 0 else Z.land VALUE_FIXED (c_state (cs o)) in
  if negb (badState =? 0) then (1 + ERR_MULTIPLE, cs) else
  let '(ok, c) := value_parse o v VALUE_FIXED (cs o) in
  (if ok then 0 else 1 + ERR_INVALID_VALUE, upd cs o c).

Definition is_excl (excl : option (list nat)) (o : nat) : bool :=
  match excl with Some l => mem o l | None => false end.

(* Assign::assign : returns the error (the thrown ValueError), the cells, and the options of the
   pairs in [begin, it) - everything before the failing pair, skipped pairs included *)
Fixpoint assign_loop (parsed : list nat) (excl : option (list nat)) (cs : cells) (src : list (nat * str))
  : option err * cells * list nat :=
  match src with
  | [] => (None, cs, [])
  | (o, v) :: r =>
      if is_excl excl o && negb (o_comp (odesc o)) then
        let '(e, cs', d) := assign_loop parsed excl cs r in (e, cs', o :: d)
      else
        let '(ret, cs1) := assign_opt parsed cs o v in
        if ret =? 0 then let '(e, cs', d) := assign_loop parsed excl cs1 r in (e, cs', o :: d)
        else (Some (mkErr (ret - 1) o v), cs1, [])
  end.

(* Assign::~Assign over [begin, it); fault = the assert in the destructor fails (or dereferences a null exclude) *)
Fixpoint guard (excl : option (list nat)) (parsed : list nat) (cs : cells) (done : list nat) (fault : bool)
  : list nat * cells * bool :=
  match done with
  | [] => (parsed, cs, fault)
  | o :: r =>
      let fixed := c_state (cs o) =? VALUE_FIXED in
      let f' := fault || (negb fixed && negb (mem o parsed) && negb (is_excl excl o)) in
      if fixed then guard excl (insert o parsed) (upd cs o (set_state (cs o) VALUE_UNASSIGNED)) r f'
      else guard excl parsed cs r f'
  end.

(* bool ParsedOptions::assign(const ParsedValues& p, const ParsedOptions* exclude) *)
Definition assign_source (parsed : list nat) (excl : option (list nat)) (cs : cells) (src : list (nat * str))
  : option err * list nat * cells * bool :=
  let '(e, cs1, done) := assign_loop parsed excl cs src in
  let '(p, cs2, f) := guard excl parsed cs1 done false in
  (e, p, cs2, f).

(* bool Option::assignDefault() const *)
Definition assign_default (o : nat) (c : cell) : bool * cell :=
  match o_dflt (odesc o) with
  | Some d => if negb (c_state c =? VALUE_DEFAULTED) then value_parse o d VALUE_DEFAULTED c else (true, c)
  | None => (true, c)
  end.

(* bool OptionContext::assignDefaults(const ParsedOptions& opts) const, over the options os in context order *)
Fixpoint assign_defaults (parsed : list nat) (cs : cells) (os : list nat) : option err * cells :=
  match os with
  | [] => (None, cs)
  | o :: r =>
      if mem o parsed then assign_defaults parsed cs r else
      let '(ok, c) := assign_default o (cs o) in
      if ok then assign_defaults parsed (upd cs o c) r
      else (Some (mkErr ERR_INVALID_DEFAULT o (match o_dflt (odesc o) with Some d => d | None => [] end)), upd cs o c)
  end.

(* a history of sources (the caller catches the exception and goes on) *)
Fixpoint run_sources (parsed : list nat) (cs : cells) (h : list (option (list nat) * list (nat * str)))
  : list (option err) * list nat * cells * bool :=
  match h with
  | [] => ([], parsed, cs, false)
  | (excl, src) :: r =>
      let '(e, p1, cs1, f1) := assign_source parsed excl cs src in
      let '(es, p2, cs2, f2) := run_sources p1 cs1 r in
      (e :: es, p2, cs2, f1 || f2)
  end.

(* ---- several RUNS over the same targets.  An application may build its option set anew for every run (fresh OptionGroup /
   OptionContext with fresh storeTo(x) / store<T>(map) / flag(map) / notify(..) values) and keep what the values are bound to: the
   variables, the ValueMap, the notifier's context.  A fresh Value object is in state unassigned and has parsed nothing; the bound
   variable keeps its content.  [newrun o v] is what re-building option o does to the (model of the) variable: nothing for a typed
   variable; for a mapped value the entry of the map stays, but it is no longer the object the (new) Value parses into (a fresh
   NotifiedValue creates a new object for its first accepted string and hands it to ValueMap::add, which REPLACES the entry). ---- *)
Variable newrun : nat -> var -> var.
Definition fresh_cells (cs : cells) : cells := fun o => mkCell VALUE_UNASSIGNED [] (newrun o (c_var (cs o))).

(* one run: fresh option set and fresh ParsedOptions, a history of sources, then assignDefaults over the options os *)
Definition run_once (os : list nat) (cs : cells) (h : list (option (list nat) * list (nat * str)))
  : list (option err) * option err * list nat * cells * bool :=
  let '(es, p, cs1, f) := run_sources [] (fresh_cells cs) h in
  let '(e, cs2) := assign_defaults p cs1 os in
  (es, e, p, cs2, f).

(* a sequence of runs over the same variable store: per run (errors of the sources, error of the defaults, recorded names, fault);
   and the store after the last run *)
Fixpoint run_runs (os : list nat) (cs : cells) (hs : list (list (option (list nat) * list (nat * str))))
  : list (list (option err) * option err * list nat * bool) * cells :=
  match hs with
  | [] => ([], cs)
  | h :: r =>
      let '(es, e, p, cs2, f) := run_once os cs h in
      let '(rs, cs3) := run_runs os cs2 r in
      ((es, e, p, f) :: rs, cs3)
  end.
End Assign.

Arguments mkCell {val var}.
Arguments c_state {val var}.
Arguments c_vals {val var}.
Arguments c_var {val var}.

(* ---- typed NOTIFIED values (typed_value.h NotifiedValue<T>::doParse; factories notify<T>(obj, fn, parser), flag(obj, fn, action),
   store<T>(map) = notify<T>(&map, &ValueMap::add<T>)).  doParse:
       pv  = property_location ? value_.address : (exit.obj = value_.create());      // in place, or a NEW object
       ret = parser_(value, pv);
       if (ret && notify_.notify(name, pv)) { storeTo(pv); exit.obj = 0; }             // kept: from now on parsed in place
       return ret;                                                                     // ~Owned deletes exit.obj
   The notification function is called exactly when the parser ACCEPTED the string, with the object the parser filled; its ANSWER only
   selects who owns a newly created object: true = the notified context keeps it (and the value parses in place from now on), false = the
   context copied what it needs and the library deletes the object.  The answer is NOT part of the result of doParse: the value was
   accepted.  (Contrast: CustomValue::doParse returns notify_.notify(name, value) - for the UNTYPED custom value the callback's answer IS
   the validity of the string, [custom_parser] below.)
   The bound "variable" of such an option is the state of the notified context for this option plus the bookkeeping of the objects:
     n_loc    the CURRENT Value object has a location (it handed an object over and parses in place into it)
     n_held   the object the context owns (None: none).  While n_loc holds this is the object the value parses into.
     n_log    every object the notification function was called with, in order (the harness' context copies each into its log)
     n_made   objects created by the library for this option;  n_freed  objects the library deleted itself (declined / refused string);
     n_cfreed objects the CONTEXT deleted because it was handed a newer one (harness: TCtx::onValue).
   [create] = new T(), [apply o x ob] = what the accepted string does to the object (overwrite / append), [dirt o s ob] = what a refused
   string leaves in it, [answer o log ob] = what the notification function returns (it may depend on everything it has seen). ---- *)
Section Notified.
Variables val obj : Type.
Variable create : nat -> obj.
Variable apply : nat -> val -> obj -> obj.
Variable dirt : nat -> str -> obj -> obj.
Variable answer : nat -> list obj -> obj -> bool.

Record nstate := mkN { n_loc : bool; n_held : option obj; n_log : list obj; n_made : Z; n_freed : Z; n_cfreed : Z }.

(* Some ob: property_location is set - the value parses in place into the object it handed over *)
Definition n_target (st : nstate) : option obj := if n_loc st then n_held st else None.

(* the parser accepted the string and produced x *)
Definition n_store (o : nat) (x : val) (st : nstate) : nstate :=
  match n_target st with
  | Some ob =>                             (* in place; the function is called, its answer changes nothing (exit.obj is 0 anyway) *)
      let pv := apply o x ob in
      mkN true (Some pv) (n_log st ++ [pv]) (n_made st) (n_freed st) (n_cfreed st)
  | None =>
      let pv := apply o x (create o) in
      if answer o (n_log st) pv
      then mkN true (Some pv) (n_log st ++ [pv]) (n_made st + 1) (n_freed st)
               (n_cfreed st + match n_held st with Some _ => 1 | None => 0 end)     (* kept; the context drops the object it held *)
      else mkN false (n_held st) (n_log st ++ [pv]) (n_made st + 1) (n_freed st + 1) (n_cfreed st)   (* declined: deleted by ~Owned *)
  end.

(* the parser refused the string: no notification; a new object dies with the scope guard, an in-place object keeps what was written *)
Definition n_fail (o : nat) (s : str) (st : nstate) : nstate :=
  match n_target st with
  | Some ob => mkN true (Some (dirt o s ob)) (n_log st) (n_made st) (n_freed st) (n_cfreed st)
  | None => mkN false (n_held st) (n_log st) (n_made st + 1) (n_freed st + 1) (n_cfreed st)
  end.

(* the option set is re-built: the fresh Value has no location; the context keeps its object and its log *)
Definition n_newrun (o : nat) (st : nstate) : nstate := mkN false (n_held st) (n_log st) (n_made st) (n_freed st) (n_cfreed st).
End Notified.
Arguments mkN {obj}.
Arguments n_loc {obj}.
Arguments n_held {obj}.
Arguments n_log {obj}.
Arguments n_made {obj}.
Arguments n_freed {obj}.
Arguments n_cfreed {obj}.

(* the UNTYPED custom value (CustomValue::doParse = notify_.notify(name, value)): the callback's answer is the validity of the string *)
Definition custom_parser (cb : nat -> str -> bool) (o : nat) (s : str) : option str := if cb o s then Some s else None.

(* ------------------------------------------------------------------------------------------------
   Concrete instance used by the correspondence check: the typed targets of the harness.
   kind 0 flag(store_true) 1 flag(store_false) 2 int 3 std::string 4 std::vector<int> 5 ValueMap store<int> 6 custom notifier
        7 ValueMap flag(store_true) 8 ValueMap flag(store_false)   (mapped_value.h flag(ValueMap&, FlagAction): the bool lives in the map,
          absent until the first accepted value; afterwards the NotifiedValue parses in place, like kind 5)
        9 ValueMap store<std::vector<int> >
        typed notifiers with a logging context ([n_store] / [n_fail] above over the element type [k_base]):
        10 int / 11 string / 12 flag(store_true) / 13 vector<int>: the function DECLINES (false)    14 / 15 / 16 / 17: the same, KEEPS (true)
        18 int, keeps an even value, declines an odd one      19 flag(store_false), declines
   Values and variable contents are encoded as lists of integers.
   A MAPPED variable (kinds 5, 7, 8, 9) is  []  = the map has no entry,  1 :: content = the entry is the object the option's current
   Value parses into (NotifiedValue after its hand-over: in place),  0 :: content = the entry was left by an EARLIER option set (a
   fresh Value does not know it: it parses into a new object, and ValueMap::add replaces the entry with that object when the string
   was accepted - the old content does not matter; a refused string dies with the temporary).  [k_view] drops the tag (observation).  The int scanner covers the decimal
   sublanguage of parseSigned ([+-]?digits without a leading 0 before another digit/x; no keywords, no leading blank).
   ------------------------------------------------------------------------------------------------ *)
Fixpoint is_prefix (p s : str) : option str :=
  match p, s with
  | [], _ => Some s
  | a :: p', b :: s' => if a =? b then is_prefix p' s' else None
  | _ :: _, [] => None
  end.

Fixpoint bool_match (tab : list (str * Z)) (s : str) : option (Z * str) :=
  match tab with
  | [] => None
  | (w, b) :: t => match is_prefix w s with Some r => Some (b, r) | None => bool_match t s end
  end.

(* string_cast<bool>: (accepted, written) *)
Definition bool_conv (s : str) : option Z * option Z :=
  match s with
  | [] => (None, None)
  | _ => match bool_match bool_words s with
         | None => (None, None)
         | Some (b, []) => (Some b, Some b)
         | Some (b, _) => (None, Some b)
         end
  end.

Fixpoint span_digits (s : str) (acc : Z) (n : nat) : Z * nat * str :=
  match s with
  | c :: r => if is_digit c then span_digits r (acc * 10 + to_digit c) (S n) else (acc, n, s)
  | [] => (acc, n, s)
  end.

(* parseSigned(x, temp, INT_MIN, INT_MAX) on the decimal sublanguage: value and rest *)
Fixpoint skip_space (s : str) : str :=      (* strtoll skips isspace() characters first *)
  match s with
  | c :: r => if ((9 <=? c) && (c <=? 13)) || (c =? 32) then skip_space r else s
  | [] => []
  end.

Definition int_scan (s0 : str) : option (Z * str) :=
  let s := skip_space s0 in
  let '(neg, s1) := match s with 45 :: r => (true, r) | 43 :: r => (false, r) | _ => (false, s) end in
  let '(v, n, rest) := span_digits s1 0 0 in
  match n with
  | O => None
  | _ => let v' := if neg then - v else v in
         if (C15_INT_MIN <=? v') && (v' <=? C15_INT_MAX) then Some (v', rest) else None
  end.

Definition int_conv (s : str) : option Z * option Z :=
  match int_scan s with
  | None => (None, None)
  | Some (v, []) => (Some v, Some v)
  | Some (v, _) => (None, Some v)
  end.

(* convert_seq<int> with separator ',' (no brackets): pushed elements and rest *)
Fixpoint vec_scan (fuel : nat) (s : str) (acc : list Z) : list Z * str :=
  match fuel with
  | O => (acc, s)
  | S f =>
      match int_scan s with
      | None => (acc, s)
      | Some (v, rest) =>
          match rest with
          | 44 :: r' => match r' with [] => (acc ++ [v], rest) | _ => vec_scan f r' (acc ++ [v]) end
          | _ => (acc ++ [v], rest)
          end
      end
  end.

Definition vec_conv (s : str) : option (list Z) * list Z :=
  let '(xs, rest) := vec_scan (S (length s)) s [] in
  match xs, rest with
  | _ :: _, [] => (Some xs, xs)
  | _, _ => (None, xs)
  end.

Definition k_parser0 (kind : Z) (s : str) : option (list Z) :=
  if (kind =? 0) || (kind =? 7) then match s with [] => Some [1] | _ => match fst (bool_conv s) with Some b => Some [b] | None => None end end
  else if (kind =? 1) || (kind =? 8) then match s with [] => Some [0] | _ => match fst (bool_conv s) with Some b => Some [1 - b] | None => None end end
  else if (kind =? 2) || (kind =? 5) then match fst (int_conv s) with Some v => Some [v] | None => None end
  else if kind =? 3 then Some s
  else if (kind =? 4) || (kind =? 9) then fst (vec_conv s)
  else custom_parser (fun _ s => match s with 33 :: _ => false | _ => true end) 0%nat s.   (* the harness' custom notifier refuses strings starting with '!' *)

Definition k_mapped (kind : Z) : bool := (kind =? 5) || (kind =? 7) || (kind =? 8) || (kind =? 9).

Definition k_store0 (kind : Z) (x : list Z) (v : list Z) : list Z :=
  if kind =? 4 then v ++ x
  else if kind =? 6 then v ++ (Z.of_nat (length x) :: x)
  else if kind =? 9 then match v with 1 :: c => 1 :: c ++ x | _ => 1 :: x end     (* in place: appended; new object: the parsed list *)
  else if k_mapped kind then 1 :: x
  else x.

Definition k_fail0 (kind : Z) (s : str) (v : list Z) : list Z :=
  if kind =? 0 then match snd (bool_conv s) with Some b => [b] | None => v end
  else if kind =? 2 then match snd (int_conv s) with Some x => [x] | None => v end
  else if kind =? 4 then v ++ snd (vec_conv s)
  else if kind =? 5 then match v with 1 :: _ => match snd (int_conv s) with Some x => [1; x] | None => v end | _ => v end
  else if kind =? 7 then match v with 1 :: _ => match snd (bool_conv s) with Some b => [1; b] | None => v end | _ => v end
  else if kind =? 9 then match v with 1 :: c => 1 :: c ++ snd (vec_conv s) | _ => v end
  else v.

Definition k_init0 (kind : Z) : list Z :=
  if (kind =? 0) || (kind =? 1) then [0] else if kind =? 2 then [-777] else [].

(* ---- typed notifiers (kinds 10..19): the variable is an [nstate] over objects = lists of integers, encoded as
        loc made freed cfreed held clen content..  { len elems.. }*          ---- *)
Definition k_tnotif (kind : Z) : bool := (10 <=? kind) && (kind <=? 19).
Definition k_base (kind : Z) : Z :=                (* the element type, as the kind of the plain typed target *)
  if (kind =? 10) || (kind =? 14) || (kind =? 18) then 2
  else if (kind =? 11) || (kind =? 15) then 3
  else if (kind =? 12) || (kind =? 16) then 0
  else if kind =? 19 then 1
  else if (kind =? 13) || (kind =? 17) then 4
  else kind.
Definition k_create (kind : Z) : list Z :=         (* new T(): int 0, bool false, empty string / vector *)
  let b := k_base kind in if (b =? 2) || (b =? 0) || (b =? 1) then [0] else [].
Definition k_answer (kind : Z) (log : list (list Z)) (ob : list Z) : bool :=
  if (14 <=? kind) && (kind <=? 17) then true
  else if kind =? 18 then match ob with v :: _ => Z.even v | [] => false end
  else false.
Definition enc_log (l : list (list Z)) : list Z := flat_map (fun e => Z.of_nat (length e) :: e) l.
Fixpoint dec_log (fuel : nat) (l : list Z) : list (list Z) :=
  match fuel with
  | O => []
  | S f => match l with
           | [] => []
           | n :: r => firstn (Z.to_nat n) r :: dec_log f (skipn (Z.to_nat n) r)
           end
  end.
Definition enc_ns (st : nstate (list Z)) : list Z :=
  b2z (n_loc st) :: n_made st :: n_freed st :: n_cfreed st ::
  match n_held st with Some c => 1 :: Z.of_nat (length c) :: c | None => [0; 0] end ++ enc_log (n_log st).
Definition dec_ns (v : list Z) : nstate (list Z) :=
  match v with
  | loc :: made :: freed :: cfreed :: held :: clen :: r =>
      let lg := skipn (Z.to_nat clen) r in
      mkN (negb (loc =? 0)) (if held =? 0 then None else Some (firstn (Z.to_nat clen) r)) (dec_log (length lg) lg) made freed cfreed
  | _ => mkN false None [] 0 0 0
  end.

Definition k_parser (kind : Z) (s : str) : option (list Z) := k_parser0 (k_base kind) s.
Definition k_store (kind : Z) (x : list Z) (v : list Z) : list Z :=
  if k_tnotif kind
  then enc_ns (n_store (list Z) (list Z) (fun _ => k_create kind) (fun _ => k_store0 (k_base kind)) (fun _ => k_answer kind) 0%nat x (dec_ns v))
  else k_store0 kind x v.
Definition k_fail (kind : Z) (s : str) (v : list Z) : list Z :=
  if k_tnotif kind then enc_ns (n_fail (list Z) (fun _ => k_fail0 (k_base kind)) 0%nat s (dec_ns v)) else k_fail0 kind s v.
Definition k_init (kind : Z) : list Z := if k_tnotif kind then enc_ns (mkN false None [] 0 0 0) else k_init0 kind.

(* the option set is re-built: a mapped entry stays in the map but is not the new Value's object; a notified context keeps its object
   and its log, the new Value has no location *)
Definition k_newrun (kind : Z) (v : list Z) : list Z :=
  if k_tnotif kind then enc_ns (n_newrun (list Z) 0%nat (dec_ns v))
  else if k_mapped kind then match v with _ :: c => 0 :: c | [] => [] end else v.
(* observation: without the location tag; the flag kinds (plain bool objects) cannot count constructions / destructions *)
Definition k_view (kind : Z) (v : list Z) : list Z :=
  if k_tnotif kind
  then match tl v with
       | made :: freed :: r => if (k_base kind =? 0) || (k_base kind =? 1) then 0 :: 0 :: r else made :: freed :: r
       | r => r
       end
  else if k_mapped kind then tl v else v.

(* ---- case decoding ---- *)
Definition take_str (l : list Z) : str * list Z :=
  match l with
  | n :: r => (firstn (Z.to_nat n) r, skipn (Z.to_nat n) r)
  | [] => ([], [])
  end.
Definition take_opt_str (l : list Z) : option str * list Z :=
  match l with
  | [] => (None, [])
  | 0 :: r => (None, r)
  | _ :: r => let '(s, r') := take_str r in (Some s, r')
  end.

Record copt := mkC { k_kind : Z; k_opt : opt }.

Fixpoint dec_opts (n : nat) (l : list Z) : list copt * list Z :=
  match n with
  | O => ([], l)
  | S n' =>
      match l with
      | kind :: comp :: r =>
          let '(impl, r1) := take_opt_str r in
          let '(d, r2) := take_opt_str r1 in
          let impl' := match impl with
                       | Some [] => Some IMPLICIT_DEFAULT
                       | Some i => Some i
                       | None => if (kind =? 0) || (kind =? 1) || (kind =? 7) || (kind =? 8) || (kind =? 12) || (kind =? 16) || (kind =? 19) then Some IMPLICIT_DEFAULT else None
                       end in
          let '(os, r3) := dec_opts n' r2 in
          (mkC kind (mkOpt (negb (comp =? 0)) impl' d) :: os, r3)
      | _ => ([], [])
      end
  end.

Fixpoint dec_ids (n : nat) (l : list Z) : list nat * list Z :=
  match n with
  | O => ([], l)
  | S n' => match l with x :: r => let '(xs, r') := dec_ids n' r in (Z.to_nat x :: xs, r') | [] => ([], []) end
  end.

Fixpoint dec_pairs (n : nat) (l : list Z) : list (nat * str) * list Z :=
  match n with
  | O => ([], l)
  | S n' => match l with
            | o :: r => let '(s, r1) := take_str r in let '(ps, r2) := dec_pairs n' r1 in ((Z.to_nat o, s) :: ps, r2)
            | [] => ([], [])
            end
  end.

(* ---- option NAMES and sources filled BY NAME (ParsedValues::add(const std::string& name, const std::string& value)) ----
   The harness names option id  limit (alias l) / level / length / lim (alias m)  for id 0..3 and  o<id>  otherwise: names in a prefix relation.
   OptionContext::index_ maps every long name and, for an option with an alias character a, the key "-a" to the option's index;
   ParsedValues::add(name, value) = tryFind(name.c_str(), find_name): lower_bound(k) with it->first == k, i.e. the pair is added iff the key
   (up to its first NUL byte: c_str()) EQUALS a key of the index; every other key - a strict prefix of a name (unambiguous or not), an
   extension of a name, the bare alias character, an unknown key, the empty key - is dropped silently (nothing thrown).  *)
Fixpoint dec_digits (fuel : nat) (n : Z) (acc : list Z) : list Z :=        (* std::to_string of n >= 0 (as V.Lib.Dec.print_nat) *)
  match fuel with
  | O => acc
  | S f => if n <? 10 then (48 + n) :: acc else dec_digits f (n / 10) ((48 + n mod 10) :: acc)
  end.
Definition dec_nat (n : Z) : list Z := dec_digits (S (Z.to_nat (Z.log2 n))) n [].
Definition opt_name (id : nat) : str :=
  match id with
  | 0%nat => [108; 105; 109; 105; 116]            (* limit *)
  | 1%nat => [108; 101; 118; 101; 108]            (* level *)
  | 2%nat => [108; 101; 110; 103; 116; 104]       (* length *)
  | 3%nat => [108; 105; 109]                      (* lim *)
  | _ => 111 :: dec_nat (Z.of_nat id)             (* o<id> *)
  end.
Definition opt_alias (id : nat) : option Z :=
  match id with 0%nat => Some 108 | 3%nat => Some 109 | _ => None end.
Fixpoint cstr (s : str) : str :=                  (* std::string(name.c_str()) *)
  match s with [] => [] | c :: r => if c =? 0 then [] else c :: cstr r end.
Definition is_key (id : nat) (k : str) : bool :=
  list_eqb k (opt_name id) || match opt_alias id with Some a => list_eqb k [45; a] | None => false end.
(* the option a by-name key denotes in a context of n options (declaration order; the keys of a context are pairwise different) *)
Definition resolve (n : nat) (key : str) : option nat := find (fun id => is_key id (cstr key)) (seq 0 n).
(* one pair of a source: added through the option pointer (inl) or by name (inr key value) *)
Definition npair := (nat * str + str * str)%type.
Definition denote_pair (n : nat) (p : npair) : list (nat * str) :=
  match p with
  | inl q => [q]
  | inr (k, v) => match resolve n k with Some id => [(id, v)] | None => [] end
  end.
Definition denote_src (n : nat) (src : list npair) : list (nat * str) := flat_map (denote_pair n) src.

Fixpoint dec_npairs (n : nat) (l : list Z) : list npair * list Z :=
  match n with
  | O => ([], l)
  | S n' => match l with
            | 0 :: o :: r => let '(s, r1) := take_str r in let '(ps, r2) := dec_npairs n' r1 in (inl (Z.to_nat o, s) :: ps, r2)
            | _ :: r => let '(k, r1) := take_str r in let '(s, r2) := take_str r1 in
                        let '(ps, r3) := dec_npairs n' r2 in (inr (k, s) :: ps, r3)
            | [] => ([], [])
            end
  end.

(* OAdd ids     = ParsedOptions::add(name) for each id (any name: an option of the context or a FOREIGN name, id >= number of options);
   OAssign2 src = ParsedOptions::assign of a source that belongs to a SECOND context on the same ParsedOptions object; the second
                  context of the harness holds FOREIGN_OPTS plain std::string options named o<n> .. o<n+FOREIGN_OPTS-1> (n = number of
                  options of the first context) - exactly what [desc_of] / [kind_of] answer outside the first context.
   OAssignN excl src = as OAssign, every pair of the source added through the option pointer or BY NAME ([denote_src]).
   ORun         = a NEW RUN: option group, context and all Value objects are built again from the same descriptors, fresh ParsedOptions;
                  variables / ValueMap / notifier log survive ([fresh_cells]). *)
Inductive op := OAssign (excl : option (list nat)) (src : list (nat * str)) | ODefaults | OReset
              | OAdd (ids : list nat) | OAssign2 (src : list (nat * str)) | ORun
              | OAssignN (excl : option (list nat)) (src : list npair).
Definition FOREIGN_OPTS : nat := 6.

Fixpoint dec_ops (fuel : nat) (l : list Z) : list op :=
  match fuel with
  | O => []
  | S f =>
      match l with
      | 1 :: 0 :: np :: r => let '(ps, r1) := dec_pairs (Z.to_nat np) r in OAssign None ps :: dec_ops f r1
      | 1 :: _ :: ne :: r =>
          let '(ex, r1) := dec_ids (Z.to_nat ne) r in
          match r1 with
          | np :: r2 => let '(ps, r3) := dec_pairs (Z.to_nat np) r2 in OAssign (Some ex) ps :: dec_ops f r3
          | [] => []
          end
      | 2 :: r => ODefaults :: dec_ops f r
      | 3 :: r => OReset :: dec_ops f r
      | 4 :: k :: r => let '(ids, r1) := dec_ids (Z.to_nat k) r in OAdd ids :: dec_ops f r1
      | 5 :: np :: r => let '(ps, r1) := dec_pairs (Z.to_nat np) r in OAssign2 ps :: dec_ops f r1
      | 6 :: r => ORun :: dec_ops f r
      | 7 :: 0 :: np :: r => let '(ps, r1) := dec_npairs (Z.to_nat np) r in OAssignN None ps :: dec_ops f r1
      | 7 :: _ :: ne :: r =>
          let '(ex, r1) := dec_ids (Z.to_nat ne) r in
          match r1 with
          | np :: r2 => let '(ps, r3) := dec_npairs (Z.to_nat np) r2 in OAssignN (Some ex) ps :: dec_ops f r3
          | [] => []
          end
      | _ => []
      end
  end.

Section Run.
Variable copts : list copt.
Definition kind_of (o : nat) : Z := k_kind (nth o copts (mkC 3 (mkOpt false None None))).
Definition desc_of (o : nat) : opt := k_opt (nth o copts (mkC 3 (mkOpt false None None))).
Definition c_parser (o : nat) := k_parser (kind_of o).
Definition c_store (o : nat) := k_store (kind_of o).
Definition c_fail (o : nat) := k_fail (kind_of o).
Definition c_newrun (o : nat) := k_newrun (kind_of o).
Definition ccell := @cell (list Z) (list Z).

Definition obs_err (e : option err) : list Z :=
  match e with
  | None => [0]
  | Some x => [1 + e_type x; Z.of_nat (e_opt x); Z.of_nat (length (e_val x))] ++ e_val x
  end.

Definition obs_state (parsed : list nat) (cs : nat -> ccell) : list Z :=
  Z.of_nat (length parsed) ::
  flat_map (fun o => let c := cs o in
                     let w := k_view (kind_of o) (c_var c) in
                     [c_state c; b2z (mem o parsed); Z.of_nat (length w)] ++ w)
           (seq 0 (length copts)).

Fixpoint run_ops (parsed : list nat) (cs : nat -> ccell) (ops : list op) : list Z :=
  match ops with
  | [] => []
  | OAssign excl src :: r =>
      (* pairs that name an option outside the context are dropped by the harness as well *)
      let src' := filter (fun p => (fst p <? length copts)%nat) src in
      let '(e, p, cs', f) := assign_source _ _ desc_of c_parser c_store c_fail parsed excl cs src' in
      obs_err e ++ [b2z f] ++ obs_state p cs' ++ run_ops p cs' r
  | ODefaults :: r =>
      let '(e, cs') := assign_defaults _ _ desc_of c_parser c_store c_fail parsed cs (seq 0 (length copts)) in
      obs_err e ++ [0] ++ obs_state parsed cs' ++ run_ops parsed cs' r
  | OReset :: r => run_ops [] cs r
  | OAdd ids :: r => run_ops (fold_left (fun p o => insert o p) ids parsed) cs r     (* no observation of its own *)
  | OAssign2 src :: r =>
      let n := length copts in
      let src' := filter (fun p => (n <=? fst p)%nat && (fst p <? n + FOREIGN_OPTS)%nat) src in
      let '(e, p, cs', f) := assign_source _ _ desc_of c_parser c_store c_fail parsed None cs src' in
      obs_err e ++ [b2z f] ++ obs_state p cs' ++ run_ops p cs' r
  | ORun :: r => run_ops [] (fresh_cells _ _ c_newrun cs) r                            (* no observation of its own *)
  | OAssignN excl src :: r =>
      let src' := filter (fun p => (fst p <? length copts)%nat) (denote_src (length copts) src) in
      let '(e, p, cs', f) := assign_source _ _ desc_of c_parser c_store c_fail parsed excl cs src' in
      obs_err e ++ [b2z f] ++ obs_state p cs' ++ run_ops p cs' r
  end.
End Run.

Definition run_case (c : list Z) : list Z :=
  match c with
  | n :: r =>
      let '(copts, r1) := dec_opts (Z.to_nat n) r in
      let ops := dec_ops (length r1) r1 in
      let init : nat -> ccell := fun o => mkCell VALUE_UNASSIGNED [] (k_init (kind_of copts o)) in
      run_ops copts [] init ops
  | [] => []
  end.
