(* C15 - assignDefaults looks at the parsed set through ONE question per option of the context ("is this option's own name in
   the set?").  Names in the set that are not options of the context - recorded with ParsedOptions::add, or by assigning a
   source of another context to the same ParsedOptions object - and hence the SIZE of the set are irrelevant. *)
Require Import V.Lib.Base V.Gen.Consts_C15 V.C15.Model V.C15.Spec V.C15.Proofs V.C15.Proofs2.
Local Open Scope Z_scope.

Section Foreign.
Variables val var : Type.
Variable odesc : nat -> opt.
Variable parser : nat -> str -> option val.
Variable store : nat -> val -> var -> var.
Variable fail_write : nat -> str -> var -> var.
Notation adef := (assign_defaults val var odesc parser store fail_write).

(* the result depends only on the membership of the options that are visited *)
Lemma defaults_membership_only : forall os parsed parsed' (cs : nat -> @cell val var),
  (forall o, In o os -> mem o parsed = mem o parsed') -> adef parsed cs os = adef parsed' cs os.
Proof.
  induction os as [|o r IH]; intros parsed parsed' cs H; [reflexivity|].
  cbn [assign_defaults]. rewrite <- (H o (or_introl eq_refl)).
  assert (Hr : forall j, In j r -> mem j parsed = mem j parsed') by (intros j Hj; apply H; right; exact Hj).
  destruct (mem o parsed).
  - apply IH. exact Hr.
  - destruct (assign_default val var odesc parser store fail_write o (cs o)) as [ok c].
    destruct ok; [apply IH; exact Hr | reflexivity].
Qed.

Lemma mem_filter_lt n o l : (o < n)%nat -> mem o (filter (fun j => (j <? n)%nat) l) = mem o l.
Proof.
  intros Ho. unfold mem. induction l as [|a l IH]; [reflexivity|]. cbn [filter].
  destruct (a <? n)%nat eqn:E; cbn [existsb].
  - rewrite IH. reflexivity.
  - rewrite IH. apply Nat.ltb_ge in E. destruct (Nat.eqb o a) eqn:E2; [apply Nat.eqb_eq in E2; lia | reflexivity].
Qed.

(* dropping every name that is not an option of the context 0..n-1 changes nothing *)
Lemma defaults_ignore_foreign n parsed (cs : nat -> @cell val var) :
  adef parsed cs (seq 0 n) = adef (filter (fun j => (j <? n)%nat) parsed) cs (seq 0 n).
Proof.
  apply defaults_membership_only. intros o Ho. apply in_seq in Ho. symmetry. apply mem_filter_lt. lia.
Qed.

(* adding names that are not options of the context (in any number) changes nothing *)
Lemma defaults_add_foreign n extra parsed (cs : nat -> @cell val var) :
  (forall j, In j extra -> (n <= j)%nat) -> adef (extra ++ parsed) cs (seq 0 n) = adef parsed cs (seq 0 n).
Proof.
  intros Hx. apply defaults_membership_only. intros o Ho. apply in_seq in Ho.
  unfold mem. rewrite existsb_app.
  assert (E : existsb (Nat.eqb o) extra = false).
  { destruct (existsb (Nat.eqb o) extra) eqn:E; [|reflexivity]. apply existsb_exists in E. destruct E as (j & Hj & Ej).
    apply Nat.eqb_eq in Ej. subst j. specialize (Hx o Hj). lia. }
  rewrite E. reflexivity.
Qed.

(* an error is reported exactly when a NEEDED default (option not in the set, has a default, not defaulted yet) is refused *)
Lemma defaults_error_iff n parsed (cs : nat -> @cell val var) :
  fst (adef parsed cs (seq 0 n)) = None <-> defaults_valid val var odesc parser parsed cs (seq 0 n).
Proof.
  split.
  - intros He. destruct (defaults_dichotomy val var odesc parser parsed cs (seq 0 n)) as [H | (pre & o & d & post & Heq & Hv & Hn & Hp)]; [exact H|].
    destruct (defaults_err val var odesc parser store fail_write (seq 0 n) pre o d post parsed cs (seq_NoDup n 0) Heq Hv Hn Hp)
      as (cs0 & cs' & _ & _ & H3 & _). rewrite H3 in He. discriminate.
  - intros Hv. destruct (defaults_ok val var odesc parser store fail_write (seq 0 n) parsed cs (seq_NoDup n 0) Hv) as (cs' & E & _).
    rewrite E. reflexivity.
Qed.
End Foreign.
