(* C15 - declarative notions used in the theorem statements (definitions only). *)
Require Import V.Lib.Base V.Gen.Consts_C15 V.C15.Model.
Local Open Scope Z_scope.

Section Spec.
Variables val var : Type.
Variable odesc : nat -> opt.
Variable parser : nat -> str -> option val.
Variable store : nat -> val -> var -> var.

Definition comp (o : nat) : bool := o_comp (odesc o).

(* a pair for option o is ignored by assign: non-composing and (excluded or already recorded as parsed) *)
Definition skipped (parsed : list nat) (excl : option (list nat)) (o : nat) : bool :=
  negb (comp o) && (is_excl excl o || mem o parsed).

Definition mentions (o : nat) (src : list (nat * str)) : bool := mem o (map fst src).

(* the values the parser of o produces for the occurrences of o in src, in order *)
Definition accepted (o : nat) (src : list (nat * str)) : list val :=
  flat_map (fun p => if Nat.eqb (fst p) o
                     then match parser o (eff odesc o (snd p)) with Some x => [x] | None => [] end
                     else []) src.

Definition store_all (o : nat) (xs : list val) (v : var) : var := fold_left (fun a x => store o x a) xs v.

(* no value is in state value_fixed (the state between two calls of assign) *)
Definition clean (c : @cell val var) : Prop := c_state c = VALUE_UNASSIGNED \/ c_state c = VALUE_DEFAULTED.

(* a source without duplicate and without refused pair (relative to what is ignored) *)
Definition src_ok (parsed : list nat) (excl : option (list nat)) (src : list (nat * str)) : Prop :=
  (forall o, skipped parsed excl o = false -> comp o = false -> (count_occ Nat.eq_dec (map fst src) o <= 1)%nat) /\
  (forall o v, In (o, v) src -> skipped parsed excl o = false -> parser o (eff odesc o v) <> None).

(* src = pre ++ (o,v) :: post where pre is fine and (o,v) is a second occurrence of a non-composing, not ignored option *)
Definition dup_at (parsed : list nat) (excl : option (list nat)) (src pre : list (nat * str)) (o : nat) (v : str) : Prop :=
  exists post, src = pre ++ (o, v) :: post /\ src_ok parsed excl pre /\ skipped parsed excl o = false /\
               comp o = false /\ mentions o pre = true.

(* ... where (o,v) is not ignored, not a duplicate, and refused by the parser *)
Definition bad_at (parsed : list nat) (excl : option (list nat)) (src pre : list (nat * str)) (o : nat) (v : str) : Prop :=
  exists post, src = pre ++ (o, v) :: post /\ src_ok parsed excl pre /\ skipped parsed excl o = false /\
               (comp o = true \/ mentions o pre = false) /\ parser o (eff odesc o v) = None.

(* first source of a history that mentions o without excluding it *)
Definition first_src (o : nat) (h : list (option (list nat) * list (nat * str))) :=
  find (fun es => negb (is_excl (fst es) o) && mentions o (snd es)) h.

(* option o needs its default: not recorded as parsed, has a default, not defaulted yet *)
Definition needs_default (parsed : list nat) (cs : nat -> @cell val var) (o : nat) (d : str) : Prop :=
  mem o parsed = false /\ o_dflt (odesc o) = Some d /\ c_state (cs o) <> VALUE_DEFAULTED.
(* state after a source without duplicate / refused pair *)
Definition after_source (parsed : list nat) (excl : option (list nat)) (cs : (nat -> @cell val var)) (src : list (nat * str))
           (p' : list nat) (cs' : (nat -> @cell val var)) : Prop :=
  (forall j, mem j p' = mem j parsed || (negb (skipped parsed excl j) && mentions j src)) /\
  (forall j, if skipped parsed excl j || negb (mentions j src) then cs' j = cs j
             else c_state (cs' j) = VALUE_UNASSIGNED /\ c_vals (cs' j) = c_vals (cs j) ++ accepted j src /\
                  c_var (cs' j) = store_all j (accepted j src) (c_var (cs j))).

Definition err_of (r : option err * list nat * (nat -> @cell val var) * bool) : option err := fst (fst (fst r)).

Definition recorded (parsed : list nat) (cs : (nat -> @cell val var)) (p' : list nat) (cs' : (nat -> @cell val var)) : Prop :=
  (forall o, clean (cs' o)) /\
  (forall o, mem o p' = true <-> (mem o parsed = true \/ c_vals (cs' o) <> c_vals (cs o))) /\
  (forall o, c_vals (cs' o) <> c_vals (cs o) -> c_state (cs' o) = VALUE_UNASSIGNED) /\
  (forall o, c_vals (cs' o) = c_vals (cs o) -> c_state (cs' o) = c_state (cs o)) /\
  (forall o, exists l, c_vals (cs' o) = c_vals (cs o) ++ l).

Definition all_none (es : list (option err)) : Prop := Forall (fun e => e = None) es.

Definition defaults_valid (parsed : list nat) (cs : (nat -> @cell val var)) (os : list nat) : Prop :=
  forall o d, In o os -> needs_default parsed cs o d -> parser o (eff odesc o d) <> None.

Definition after_defaults (parsed : list nat) (cs cs' : (nat -> @cell val var)) (os : list nat) : Prop :=
  forall o, (In o os -> forall d, needs_default parsed cs o d ->
               exists x, parser o (eff odesc o d) = Some x /\
                         cs' o = mkCell VALUE_DEFAULTED (c_vals (cs o) ++ [x]) (store o x (c_var (cs o)))) /\
            ((~ In o os \/ forall d, ~ needs_default parsed cs o d) -> cs' o = cs o).

(* ---------------- several runs over the same targets (Model.run_once / run_runs) ---------------- *)
Variable newrun : nat -> var -> var.

(* option o is given a value by the sources of one run (which starts with nothing recorded): a composing option by any source that
   mentions it, any other option by the first source that mentions it without excluding it *)
Definition run_mentioned (o : nat) (h : list (option (list nat) * list (nat * str))) : bool :=
  if comp o then existsb (fun s => mentions o (snd s)) h
  else match first_src o h with Some _ => true | None => false end.

(* ... and the parser results it receives: all of them in order (composing), or those of the winning source *)
Definition run_values (o : nat) (h : list (option (list nat) * list (nat * str))) : list val :=
  if comp o then flat_map (fun s => accepted o (snd s)) h
  else match first_src o h with Some (_, src) => accepted o src | None => [] end.

(* what ONE error-free run (sources h, then defaults over the options 0..n-1) leaves behind, relative to the variable store cs the
   run started from: an option that received a value in THIS run holds store(values of THIS run) applied to the re-built variable;
   an option that received none got its default (if it has one and belongs to the context), else keeps what the store held *)
Definition after_run (n : nat) (cs : nat -> @cell val var) (h : list (option (list nat) * list (nat * str)))
           (p : list nat) (cs2 : nat -> @cell val var) : Prop :=
  forall o,
    mem o p = run_mentioned o h /\
      if run_mentioned o h then
      c_state (cs2 o) = VALUE_UNASSIGNED /\ c_vals (cs2 o) = run_values o h /\ run_values o h <> [] /\
      c_var (cs2 o) = store_all o (run_values o h) (newrun o (c_var (cs o))) /\
      (comp o = false ->
       exists ex src v x, first_src o h = Some (ex, src) /\ In (o, v) src /\
      count_occ Nat.eq_dec (map fst src) o = 1%nat /\ parser o (eff odesc o v) = Some x /\
      run_values o h = [x])
    else match o_dflt (odesc o) with
         | Some d => if (o <? n)%nat
                     then exists x, parser o (eff odesc o d) = Some x /\ cs2 o = mkCell VALUE_DEFAULTED [x] (store o x (newrun o (c_var (cs o))))
                     else cs2 o = mkCell VALUE_UNASSIGNED [] (newrun o (c_var (cs o)))
         | None => cs2 o = mkCell VALUE_UNASSIGNED [] (newrun o (c_var (cs o)))
         end.

(* the option received a value in the run: from a source, or its default *)
Definition run_received (n : nat) (o : nat) (h : list (option (list nat) * list (nat * str))) : bool :=
  run_mentioned o h || (match o_dflt (odesc o) with Some _ => (o <? n)%nat | None => false end).

End Spec.

(* ---------------- typed NOTIFIED values (Model.n_store / n_fail): the notification function's answer selects ownership only ---------------- *)
Section Agree.
Variables val var1 var2 : Type.
(* two assignments (over different kinds of variables, e.g. the same option set with two different notification functions) agree on
   everything the assignment logic looks at and records: the value states and the accepted parser results of every option *)
Definition agree (cs1 : nat -> @cell val var1) (cs2 : nat -> @cell val var2) : Prop :=
  forall o, c_state (cs1 o) = c_state (cs2 o) /\ c_vals (cs1 o) = c_vals (cs2 o).
End Agree.

Section NotifiedSpec.
Variables val obj : Type.
Variable create : nat -> obj.
Variable apply : nat -> val -> obj -> obj.

(* the objects obs were delivered for the accepted parser results xs: one call per result, in order, each with an object the result was
   parsed into (a new one, or the one the context kept) *)
Definition delivered (o : nat) (xs : list val) (obs : list obj) : Prop :=
  Forall2 (fun x ob => exists pv, ob = apply o x pv) xs obs.

(* from cell c to cell c' the option received the parser results xs and the notification function was called exactly with obs *)
Definition notified_step (o : nat) (c c' : @cell val (nstate obj)) : Prop :=
  exists xs obs, c_vals c' = c_vals c ++ xs /\ n_log (c_var c') = n_log (c_var c) ++ obs /\ delivered o xs obs.

(* every object the library created for the option was deleted exactly once - by the library (declined, or the string was refused) or by the
   context (replaced by a newer object) - or is the one object the context owns; a value with a location has handed an object over *)
Definition accounted (st : nstate obj) : Prop :=
  n_made st = n_freed st + n_cfreed st + (match n_held st with Some _ => 1 | None => 0 end) /\
  (n_loc st = true -> n_held st <> None).

(* a context that owns nothing and a value without location (the state of a declining notifier) *)
Definition owns_nothing (st : nstate obj) : Prop := n_loc st = false /\ n_held st = None.

(* ... stays like that when the function always declines: each accepted result x was delivered as a NEW object holding exactly x, and
   every created object (also those of refused strings) was deleted by the library *)
Definition declined_step (o : nat) (c c' : @cell val (nstate obj)) : Prop :=
  exists xs, c_vals c' = c_vals c ++ xs /\
             n_log (c_var c') = n_log (c_var c) ++ map (fun x => apply o x (create o)) xs /\
             owns_nothing (c_var c') /\
             n_made (c_var c') - n_freed (c_var c') = n_made (c_var c) - n_freed (c_var c) /\
             n_cfreed (c_var c') = n_cfreed (c_var c).
End NotifiedSpec.
