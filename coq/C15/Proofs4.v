(* C15 - several RUNS over the same targets: the option set (group, context, Value objects) is built anew for every run, the
   bound variables / the ValueMap survive.  Each run is an assignment from fresh option states over the store the earlier runs left
   ([run_once] = fresh_cells; run_sources; assign_defaults).  What an option holds after a run is determined by THIS run's winning
   string (or default) applied to the re-built variable - for a target that an accepted value replaces (every typed scalar, every
   mapped value) it does not depend on the earlier runs at all. *)
Require Import V.Lib.Base V.Gen.Consts_C15 V.C15.Model V.C15.Spec V.C15.Proofs V.C15.Proofs2 V.C15.Proofs3.
Local Open Scope Z_scope.

Section Runs.
Variables val var : Type.
Variable odesc : nat -> opt.
Variable parser : nat -> str -> option val.
Variable store : nat -> val -> var -> var.
Variable fail_write : nat -> str -> var -> var.
Variable newrun : nat -> var -> var.

Notation asrc := (assign_source val var odesc parser store fail_write).
Notation adef := (assign_defaults val var odesc parser store fail_write).
Notation runs := (run_sources val var odesc parser store fail_write).
Notation fresh := (fresh_cells val var newrun).
Notation once := (run_once val var odesc parser store fail_write newrun).
Notation many := (run_runs val var odesc parser store fail_write newrun).
Notation clean' := (clean val var).
Notation accepted' := (accepted val odesc parser).
Notation store_all' := (store_all val var store).
Notation after_run' := (after_run val var odesc parser store newrun).
Notation mentioned' := (run_mentioned odesc).
Notation values' := (run_values val odesc parser).

Lemma fresh_clean cs o : clean' (fresh cs o).
Proof. left. reflexivity. Qed.

(* a history of error-free sources: an option no source mentions is untouched; a state either stays or goes back to unassigned;
   a composing option that some source mentions received at least one value *)
Lemma runs_frame : forall h parsed cs es p' cs' f,
  (forall o, clean' (cs o)) -> runs parsed cs h = (es, p', cs', f) -> all_none es ->
  forall o, (existsb (fun s => mentions o (snd s)) h = false -> cs' o = cs o /\ mem o p' = mem o parsed) /\
            (c_state (cs' o) = c_state (cs o) \/ c_state (cs' o) = VALUE_UNASSIGNED) /\
            (comp odesc o = true -> existsb (fun s => mentions o (snd s)) h = true ->
             flat_map (fun s => accepted' o (snd s)) h <> []).
Proof.
  induction h as [|[excl src] r IH]; intros parsed cs es p' cs' f Hc Hr Hn o.
  - simpl in Hr. inversion Hr; subst. split; [auto|]. split; [left; reflexivity|]. simpl. discriminate.
  - cbn [run_sources] in Hr.
    destruct (asrc parsed excl cs src) as [[[e p1] cs1] f1] eqn:Ea.
    destruct (runs p1 cs1 r) as [[[es2 p2] cs2] f2] eqn:Er.
    inversion Hr; subst. clear Hr. inversion Hn as [|? ? He Hn2]; subst.
    assert (Hok : src_ok val odesc parser parsed excl src).
    { apply (no_error_iff val var odesc parser store fail_write parsed excl cs src Hc). rewrite Ea. reflexivity. }
    destruct (source_ok val var odesc parser store fail_write parsed excl cs src Hc Hok) as (p1' & cs1' & E1 & Ha).
    rewrite Ea in E1. inversion E1; subst p1' cs1' f1. clear E1.
    pose proof (after_source_clean val var odesc parser store parsed excl cs src p1 cs1 Hc Ha) as Hc1.
    destruct (IH p1 cs1 es2 p' cs' f2 Hc1 Er Hn2 o) as (I1 & I2 & I3).
    destruct Ha as [Hp Hcs]. specialize (Hp o). specialize (Hcs o).
    split; [|split].
    + cbn [existsb snd]. intros Hex. apply orb_false_iff in Hex. destruct Hex as [Hm Hex].
      rewrite Hm in Hp, Hcs. cbn [negb] in Hp, Hcs. rewrite orb_true_r in Hcs. rewrite andb_false_r, orb_false_r in Hp.
      destruct (I1 Hex) as [A B]. rewrite A, B, Hcs, Hp. auto.
    + destruct (skipped odesc parsed excl o || negb (mentions o src)).
      * rewrite Hcs in I2. exact I2.
      * destruct Hcs as (S1 & _). destruct I2 as [I2|I2]; right; congruence.
    + intros Hco Hex. cbn [flat_map snd]. cbn [existsb snd] in Hex.
      destruct (mentions o src) eqn:Em.
      * assert (Hs : skipped odesc parsed excl o = false) by (unfold skipped, comp in *; rewrite Hco; reflexivity).
        pose proof (accepted_nonempty val odesc parser parsed excl src o Hok Hs Em) as Hne.
        intros Hnil. apply app_eq_nil in Hnil. destruct Hnil as [Hnil _]. contradiction.
      * simpl in Hex. rewrite (accepted_not_mentioned val odesc parser o src Em). simpl. apply I3; assumption.
Qed.

Lemma store_all_one o x v : store_all' o [x] v = store o x v.
Proof. reflexivity. Qed.

(* ONE run *)
Theorem run_once_ok n cs h es e p cs2 f :
  once (seq 0 n) cs h = (es, e, p, cs2, f) -> all_none es -> e = None ->
  f = false /\ after_run' n cs h p cs2.
Proof.
  unfold run_once. intros Hr Hn He.
  destruct (runs [] (fresh cs) h) as [[[es1 p1] cs1] f1] eqn:Er.
  destruct (adef p1 cs1 (seq 0 n)) as [e1 cs2'] eqn:Ed.
  inversion Hr; subst es1 e1 p1 cs2' f1. clear Hr. subst e.
  destruct (first_wins val var odesc parser store fail_write h [] (fresh cs) es p cs1 f (fresh_clean cs) Er Hn) as (Hf & Hc1 & Hfw).
  pose proof (composing_all val var odesc parser store fail_write h [] (fresh cs) es p cs1 f (fresh_clean cs) Er Hn) as Hca.
  pose proof (runs_frame h [] (fresh cs) es p cs1 f (fresh_clean cs) Er Hn) as Hfr.
  assert (Hdv : defaults_valid val var odesc parser p cs1 (seq 0 n)).
  { apply (defaults_error_iff val var odesc parser store fail_write n p cs1). rewrite Ed. reflexivity. }
  destruct (defaults_ok val var odesc parser store fail_write (seq 0 n) p cs1 (seq_NoDup n 0) Hdv) as (cs2'' & Ed2 & Had).
  rewrite Ed in Ed2. inversion Ed2; subst cs2''. clear Ed2.
  split; [exact Hf|]. intros o.
  (* the state after the sources *)
  assert (Hmain : mem o p = mentioned' o h /\
                  if mentioned' o h
                  then c_state (cs1 o) = VALUE_UNASSIGNED /\ c_vals (cs1 o) = values' o h /\ values' o h <> [] /\
                       c_var (cs1 o) = store_all' o (values' o h) (newrun o (c_var (cs o))) /\
                       (comp odesc o = false ->
                        exists ex src v x, first_src o h = Some (ex, src) /\ In (o, v) src /\
                                           count_occ Nat.eq_dec (map fst src) o = 1%nat /\ parser o (eff odesc o v) = Some x /\
                                           values' o h = [x])
                  else cs1 o = fresh cs o).
  { unfold run_mentioned, run_values. destruct (comp odesc o) eqn:Hco.
    - destruct (Hca o Hco) as (A1 & A2 & A3). destruct (Hfr o) as (F1 & F2 & F3).
      cbn [mem existsb orb] in A3. split; [exact A3|].
      destruct (existsb (fun s => mentions o (snd s)) h) eqn:Ex.
      + split; [destruct F2 as [F2|F2]; [rewrite F2; reflexivity | exact F2]|].
        split; [exact A1|]. split; [apply F3; [exact Hco | reflexivity]|]. split; [exact A2 | discriminate].
      + apply F1. reflexivity.
    - specialize (Hfw o Hco). cbn [mem existsb] in Hfw.
      destruct (first_src o h) as [[ex src]|] eqn:Efs.
      + destruct Hfw as (M & S & v & x & Hin & Hcnt & Hp & Hv & Hvar).
        assert (Hacc : accepted' o src = [x]) by (rewrite (accepted_count1 val odesc parser o src v Hcnt Hin), Hp; reflexivity).
        split; [exact M|]. split; [exact S|]. rewrite Hacc. split; [exact Hv|]. split; [discriminate|].
        split; [exact Hvar|]. intros _. exists ex, src, v, x. auto.
      + destruct Hfw as [A B]. split; [exact B | exact A]. }
  destruct Hmain as [Hmem Hmain]. split; [exact Hmem|].
  destruct (Had o) as [Hd1 Hd2].
  destruct (mentioned' o h) eqn:Em.
  - assert (Hsame : cs2 o = cs1 o).
    { apply Hd2. right. intros d (Hnm & _). congruence. }
    rewrite Hsame. exact Hmain.
  - destruct (o_dflt (odesc o)) as [d|] eqn:Edf.
    + destruct (o <? n)%nat eqn:Elt.
      * apply Nat.ltb_lt in Elt. assert (Hin : In o (seq 0 n)) by (apply in_seq; lia).
        assert (Hneed : needs_default val var odesc p cs1 o d).
        { split; [congruence|]. split; [exact Edf|]. rewrite Hmain. discriminate. }
        destruct (Hd1 Hin d Hneed) as (x & Hp & Hc). exists x. split; [exact Hp|]. rewrite Hc, Hmain. reflexivity.
      * apply Nat.ltb_ge in Elt. change (cs2 o = fresh cs o). rewrite <- Hmain. apply Hd2. left. intros Hin. apply in_seq in Hin. lia.
    + change (cs2 o = fresh cs o). rewrite <- Hmain. apply Hd2. right. intros d (_ & Hd & _). congruence.
Qed.

(* SEVERAL runs: run k is [run_once] over the store the runs before it left *)
Lemma run_runs_app os : forall hs1 cs hs2,
  many os cs (hs1 ++ hs2) =
  (fst (many os cs hs1) ++ fst (many os (snd (many os cs hs1)) hs2), snd (many os (snd (many os cs hs1)) hs2)).
Proof.
  induction hs1 as [|h r IH]; intros cs hs2.
  - simpl. destruct (many os cs hs2); reflexivity.
  - cbn [app run_runs].
    destruct (once os cs h) as [[[[es e] p] cs2] f].
    rewrite (IH cs2 hs2).
    destruct (many os cs2 r) as [rs cs3]. reflexivity.
Qed.

Theorem run_runs_nth os cs hs k h :
  nth_error hs k = Some h ->
  let before := snd (many os cs (firstn k hs)) in
  let '(es, e, p, cs2, f) := once os before h in
  nth_error (fst (many os cs hs)) k = Some (es, e, p, f) /\ snd (many os cs (firstn (S k) hs)) = cs2.
Proof.
  intros Hk. cbv zeta.
  destruct (once os (snd (many os cs (firstn k hs))) h) as [[[[es e] p] cs2] f] eqn:Eo.
  assert (Hsplit : hs = firstn k hs ++ h :: skipn (S k) hs).
  { clear Eo. revert hs Hk. induction k as [|k IH]; intros [|a hs] Hk; try discriminate.
    - simpl in Hk. inversion Hk; subst. reflexivity.
    - simpl in Hk. cbn [firstn skipn app]. f_equal. apply IH. exact Hk. }
  assert (Hlen : length (fst (many os cs (firstn k hs))) = k).
  { assert (Hl : forall l c, length (fst (many os c l)) = length l).
    { induction l as [|a l IH]; intros c; [reflexivity|]. cbn [run_runs].
      destruct (once os c a) as [[[[? ?] ?] c2] ?]. specialize (IH c2). destruct (many os c2 l). simpl in *. now rewrite IH. }
    rewrite Hl. apply firstn_length_le. apply Nat.lt_le_incl. apply nth_error_Some. congruence. }
  split.
  - rewrite Hsplit at 1. rewrite run_runs_app. cbn [fst].
    rewrite nth_error_app2 by lia. rewrite Hlen, Nat.sub_diag.
    cbn [run_runs]. rewrite Eo. destruct (many os cs2 (skipn (S k) hs)). reflexivity.
  - assert (Hf : firstn (S k) hs = firstn k hs ++ [h]).
    { clear Eo Hlen Hsplit. revert hs Hk. induction k as [|k IH]; intros [|a hs] Hk; try discriminate.
      - simpl in Hk. inversion Hk; subst. reflexivity.
      - simpl in Hk. cbn [firstn app]. f_equal. apply IH. exact Hk. }
    rewrite Hf, run_runs_app. cbn [snd run_runs]. rewrite Eo. reflexivity.
Qed.

(* what the option holds after a run does not depend on the store the run started from, for every target that an accepted value
   REPLACES after the option was re-built (overwrites o) and every option that received a value in the run *)
Definition overwrites (o : nat) : Prop := forall x v v', store o x (newrun o v) = store o x (newrun o v').

Lemma store_all_overwrites o xs v v' : overwrites o -> xs <> [] -> store_all' o xs (newrun o v) = store_all' o xs (newrun o v').
Proof.
  intros Ho Hne. destruct xs as [|x xs]; [congruence|]. unfold store_all. cbn [fold_left]. now rewrite (Ho x v v').
Qed.

Theorem run_independent n cs cs' h es e p cs2 f es' e' p' cs2' f' :
  once (seq 0 n) cs h = (es, e, p, cs2, f) -> all_none es -> e = None ->
  once (seq 0 n) cs' h = (es', e', p', cs2', f') -> all_none es' -> e' = None ->
  forall o, overwrites o -> run_received odesc n o h = true ->
    cs2 o = cs2' o.
Proof.
  intros H1 N1 E1 H2 N2 E2 o Ho Hrec.
  destruct (run_once_ok n cs h es e p cs2 f H1 N1 E1) as [_ A1].
  destruct (run_once_ok n cs' h es' e' p' cs2' f' H2 N2 E2) as [_ A2].
  specialize (A1 o). specialize (A2 o). destruct A1 as [_ A1]. destruct A2 as [_ A2].
  unfold run_received in Hrec.
  destruct (run_mentioned odesc o h) eqn:Em.
  - destruct A1 as (S1 & V1 & Hne & W1 & _). destruct A2 as (S2 & V2 & _ & W2 & _).
    destruct (cs2 o) as [s1 l1 w1]. destruct (cs2' o) as [s2 l2 w2]. cbn [c_state c_vals c_var] in *.
    subst. f_equal. apply store_all_overwrites; assumption.
  - simpl in Hrec. destruct (o_dflt (odesc o)) as [d|]; [|discriminate]. rewrite Hrec in A1, A2.
    destruct A1 as (x & P1 & C1). destruct A2 as (x' & P2 & C2). rewrite P1 in P2. inversion P2; subst x'.
    rewrite C1, C2. f_equal. apply Ho.
Qed.

End Runs.
